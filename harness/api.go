package main

import (
	"reflect"
	"sort"
	"strings"

	at "github.com/DanielSvub/anytype"
)

// Classification of every interface method that returns a List / an Object (C19): fluent methods
// return the registered outer value, deriving methods return a new container. A method that is in
// the interface and in neither table is reported, so additions to the API are noticed.
var fluentList = []string{"Add", "Insert", "Replace", "Delete", "Pop", "Clear", "Sort", "Reverse", "ForEach", "ForEachValue", "ForEachObject",
	"ForEachList", "ForEachString", "ForEachBool", "ForEachInt", "ForEachFloat", "ForEachAsync", "SetTF", "UnsetTF", "Ego"}
var derivingList = []string{"Clone", "Concat", "SubList", "Map", "MapValues", "MapObjects", "MapLists", "MapStrings", "MapBools", "MapInts",
	"MapFloats", "MapAsync", "Filter", "FilterObjects", "FilterLists", "FilterStrings", "FilterInts", "FilterFloats", "GetList"}
var fluentObject = []string{"Set", "Unset", "Clear", "ForEach", "ForEachValue", "ForEachObject", "ForEachList", "ForEachString", "ForEachBool",
	"ForEachInt", "ForEachFloat", "ForEachAsync", "SetTF", "UnsetTF", "Ego"}
var derivingObject = []string{"Clone", "Merge", "Pluck", "Map", "MapValues", "MapObjects", "MapLists", "MapStrings", "MapBools", "MapInts",
	"MapFloats", "MapAsync", "GetObject"}

// methods returning the *other* container kind (always getters / derivations)
var crossList = []string{"GetObject"}
var crossObject = []string{"GetList", "Keys", "Values"}

func has(xs []string, s string) bool {
	for _, x := range xs {
		if x == s {
			return true
		}
	}
	return false
}

func checkAPITables() string {
	var problems []string
	lt := reflect.TypeOf((*at.List)(nil)).Elem()
	ot := reflect.TypeOf((*at.Object)(nil)).Elem()
	scan := func(t reflect.Type, self reflect.Type, other reflect.Type, fluent, deriving, cross []string, name string) {
		seen := map[string]bool{}
		for i := 0; i < t.NumMethod(); i++ {
			mth := t.Method(i)
			if mth.PkgPath != "" {
				continue // unexported
			}
			seen[mth.Name] = true
			if mth.Type.NumOut() != 1 {
				continue
			}
			out := mth.Type.Out(0)
			if out == self && !has(fluent, mth.Name) && !has(deriving, mth.Name) {
				problems = append(problems, name+"."+mth.Name+" returns "+name+" and is neither classified fluent nor deriving")
			}
			if out == other && !has(cross, mth.Name) {
				problems = append(problems, name+"."+mth.Name+" returns the other container kind and is not classified")
			}
		}
		for _, f := range append(append([]string{}, fluent...), deriving...) {
			if !seen[f] {
				problems = append(problems, name+"."+f+" is in the harness table but not in the interface")
			}
		}
	}
	scan(lt, lt, ot, fluentList, derivingList, crossList, "List")
	scan(ot, ot, lt, fluentObject, derivingObject, crossObject, "Object")
	sort.Strings(problems)
	return strings.Join(problems, "; ")
}
