package main

// C15: async variants under controlled schedules, plus concurrent read-only use.
// Built with -race by the check; a data race reported by the detector aborts the process
// (GORACE=halt_on_error=1), which the orchestrator reports as a broken stratum.

import (
	"fmt"
	"runtime"
	"sort"
	"strconv"
	"strings"
	"sync"
	"sync/atomic"
	"time"

	at "github.com/DanielSvub/anytype"
)

func init() { props["C15"] = runC15 }

type asyncRun struct {
	n        int
	mu       sync.Mutex
	events   []string
	entered  chan int
	exited   chan int
	release  []chan struct{}
	returned chan struct{}
	calls    []int
	args     []string
}

func newAsyncRun(n int) *asyncRun {
	r := &asyncRun{n: n, entered: make(chan int, n+8), exited: make(chan int, n+8), returned: make(chan struct{}), calls: make([]int, n), args: make([]string, n)}
	r.release = make([]chan struct{}, n)
	for i := range r.release {
		r.release[i] = make(chan struct{})
	}
	return r
}

func (r *asyncRun) log(e string) {
	r.mu.Lock()
	r.events = append(r.events, e)
	r.mu.Unlock()
}

// callback is what the library's goroutine runs: announce, block until released, leave.
func (r *asyncRun) callback(i int, arg string) {
	r.mu.Lock()
	r.events = append(r.events, "s"+strconv.Itoa(i))
	if i >= 0 && i < r.n {
		r.calls[i]++
		r.args[i] = arg
	}
	r.mu.Unlock()
	r.entered <- i
	if i >= 0 && i < r.n {
		<-r.release[i]
	}
	r.log("e" + strconv.Itoa(i))
	r.exited <- i
}

// control releases the callbacks in the wanted completion order and reports facts that contradict C15.
func (r *asyncRun) control(order []int, serialised bool) (violations []string) {
	pending := map[int]bool{}
	released := 0
	isReturned := func() bool {
		select {
		case <-r.returned:
			return true
		default:
			return false
		}
	}
	waitEntry := func(d time.Duration) bool {
		select {
		case i := <-r.entered:
			pending[i] = true
			return true
		case <-time.After(d):
			return false
		}
	}
	for released < r.n {
		want := order[released]
		// gather entries until the wanted one is there (it may never come first: mutex / sequential implementations)
		deadline := time.Now().Add(150 * time.Millisecond)
		if serialised {
			// the callbacks run under the library's mutex: they enter one at a time in an order the runtime chooses
			deadline = time.Now()
		}
		for !pending[want] && time.Now().Before(deadline) {
			if !waitEntry(time.Until(deadline)) {
				break
			}
		}
		if len(pending) == 0 {
			if !waitEntry(3 * time.Second) {
				violations = append(violations, fmt.Sprintf("only %d of %d callbacks were started", released, r.n))
				return
			}
		}
		next := want
		if !pending[next] {
			for k := range pending {
				next = k
				break
			}
			// keep the bookkeeping of the order consistent
			for j := released; j < len(order); j++ {
				if order[j] == next {
					order[j], order[released] = order[released], order[j]
				}
			}
		}
		// a callback is provably blocked right now: the call must not have returned
		if isReturned() {
			violations = append(violations, fmt.Sprintf("the call returned while callback %d was still running", next))
		}
		delete(pending, next)
		close(r.release[next])
		select {
		case <-r.exited:
		case <-time.After(3 * time.Second):
			violations = append(violations, "a released callback did not finish")
			return
		}
		released++
	}
	select {
	case <-r.returned:
	case <-time.After(3 * time.Second):
		violations = append(violations, "the call did not return after all callbacks had finished")
	}
	return
}

func permutations(n int) [][]int {
	var out [][]int
	p := make([]int, n)
	for i := range p {
		p[i] = i
	}
	var rec func(k int)
	rec = func(k int) {
		if k == n {
			out = append(out, append([]int(nil), p...))
			return
		}
		for i := k; i < n; i++ {
			p[k], p[i] = p[i], p[k]
			rec(k + 1)
			p[k], p[i] = p[i], p[k]
		}
	}
	rec(0)
	return out
}

// asyncCase runs one async call of the given kind under one completion order.
// kind: lf = list ForEachAsync, lm = list MapAsync, of = object ForEachAsync, om = object MapAsync
func (c *Ctx) asyncCase(kind string, n int, order []int) {
	m := c.M
	elems := make([]*Tree, n)
	for i := range elems {
		elems[i] = tInt(100 + i)
	}
	keys := make([]string, n)
	for i := range keys {
		keys[i] = "k" + strconv.Itoa(i)
	}
	run := newAsyncRun(n)
	isMap := kind[1] == 'm'
	var resultTok, wantTok string
	fn := func(i int, v any) any { return v.(int)*2 + i }
	go func() {
		defer close(run.returned)
		defer func() {
			if r := recover(); r != nil {
				run.log("panic")
			}
		}()
		switch kind {
		case "lf":
			l := (&Tree{K: '[', Xs: elems}).Build().(at.List)
			l.ForEachAsync(func(i int, v any) { run.callback(i, m.tokVal(v)) })
		case "lm":
			l := (&Tree{K: '[', Xs: elems}).Build().(at.List)
			res := l.MapAsync(func(i int, v any) any { run.callback(i, m.tokVal(v)); return fn(i, v) })
			resultTok = treeOf(res).Token()
			wantTok = treeOf(l.Map(fn)).Token()
		case "of":
			o := (&Tree{K: '{', Xs: elems, Keys: keys}).Build().(at.Object)
			o.ForEachAsync(func(k string, v any) { i, _ := strconv.Atoi(k[1:]); run.callback(i, m.tokVal(v)) })
		case "om":
			o := (&Tree{K: '{', Xs: elems, Keys: keys}).Build().(at.Object)
			res := o.MapAsync(func(k string, v any) any {
				i, _ := strconv.Atoi(k[1:])
				run.callback(i, m.tokVal(v))
				return fn(i, v)
			})
			resultTok = treeOf(res).Token()
			wantTok = treeOf(o.Map(func(k string, v any) any { i, _ := strconv.Atoi(k[1:]); return fn(i, v) })).Token()
		}
		run.log("r")
	}()
	viol := run.control(append([]int(nil), order...), isMap)
	<-run.returned
	run.mu.Lock()
	events := strings.Join(run.events, " ")
	run.mu.Unlock()
	c.fn("asynctrace", btok(isMap), strconv.Itoa(n), events)
	for i := 0; i < n; i++ {
		if run.calls[i] != 1 {
			viol = append(viol, fmt.Sprintf("callback for element %d was called %d times", i, run.calls[i]))
		} else if run.args[i] != "i"+strconv.Itoa(100+i) {
			viol = append(viol, fmt.Sprintf("callback for element %d received %s", i, run.args[i]))
		}
	}
	if isMap && resultTok != wantTok {
		viol = append(viol, fmt.Sprintf("MapAsync returned %s, Map returns %s", resultTok, wantTok))
	}
	for _, v := range viol {
		m.Alarm("C15", fmt.Sprintf("%s n=%d completion order %v: %s", kind, n, order, v))
	}
	c.St.Eval(fmt.Sprintf("%s:%d:%v", kind, n, order), n >= 2)
	c.St.Count("async_" + kind)
}

// readers: k goroutines run the read-only API on one shared container; results must equal the sequential ones.
func (c *Ctx) concurrentReaders(t *Tree, k int) {
	m := c.M
	root := t.Build()
	observe := func() string {
		var sb strings.Builder
		switch x := root.(type) {
		case at.List:
			sb.WriteString(treeOf(x).Token())
			sb.WriteString(fmt.Sprint(x.Count(), x.Empty(), x.Equals(x.Clone()), x.SubList(0, 0).Count(), x.Concat(x).Count(), x.Contains(1), x.IndexOf("x"),
				x.AllNumeric(), x.Filter(func(any) bool { return true }).Count(), x.IntSum(), len(x.StringSlice()), x.TypeOfTF("#0"), x.TypeOf(0)))
			sb.WriteString(treeOf(x.NativeSlice()).Token())
			x.ForEach(func(i int, v any) { sb.WriteString(strconv.Itoa(i)) })
			sb.WriteString(strconv.Itoa(len(x.FormatString(2))))
		case at.Object:
			sb.WriteString(treeOf(x).Token())
			ks := x.Keys().StringSlice()
			sort.Strings(ks)
			sb.WriteString(fmt.Sprint(x.Count(), x.Empty(), x.Equals(x.Clone()), ks, x.Values().Count(), x.Contains(1), x.KeyExists("a"), x.TypeOf("a"),
				x.TypeOfTF(".a"), x.Merge(x).Count(), len(x.Dict())))
			sb.WriteString(treeOf(x.NativeDict()).Token())
			sb.WriteString(strconv.Itoa(len(x.FormatString(2))))
		}
		return sb.String()
	}
	before := treeOf(root).Token()
	want := observe()
	var wg sync.WaitGroup
	got := make([]string, k)
	for g := 0; g < k; g++ {
		wg.Add(1)
		go func(g int) {
			defer wg.Done()
			defer func() {
				if r := recover(); r != nil {
					got[g] = "panic: " + fmt.Sprint(r)
				}
			}()
			for rep := 0; rep < 3; rep++ {
				got[g] = observe()
			}
		}(g)
	}
	wg.Wait()
	for g := range got {
		if got[g] != want {
			m.Alarm("C15", fmt.Sprintf("concurrent read-only use of %s: goroutine %d observed %q, sequentially %q", t.Token(), g, got[g], want))
			break
		}
	}
	if treeOf(root).Token() != before {
		m.Alarm("C15", "read-only operations modified the container")
	}
	c.St.Eval("readers:"+t.Token(), true)
}

// concurrentDerivers: goroutines derive new containers from one shared, never modified list whose storage has a
// history (spare capacity after one-by-one growth, Pop, Delete, Clear) and then write into their OWN results.  Every
// goroutine must hold exactly what it would hold alone: a deriving operation that reuses the receiver's storage
// makes the results overwrite one another (and is a data race inside a read-only operation).
func (c *Ctx) concurrentDerivers(k int) {
	m := c.M
	histories := map[string]func() at.List{
		"grown one by one": func() at.List {
			l := at.NewList()
			for i := 0; i < 3; i++ {
				l.Add(i)
			}
			return l
		},
		"after Pop":    func() at.List { l := at.NewList(0, 1, 2, 3, 4); l.Pop(); l.Pop(); return l },
		"after Delete": func() at.List { l := at.NewList(0, 1, 2, 3, 4, 5); l.Delete(1, 3); return l },
		"after Clear":  func() at.List { l := at.NewList(0, 1, 2, 3); l.Clear(); l.Add(7); return l },
		"sublist":      func() at.List { return at.NewList(0, 1, 2, 3, 4, 5).SubList(1, 3) },
		"full":         func() at.List { return at.NewList(0, 1, 2) },
		"empty grown":  func() at.List { l := at.NewList(1, 2, 3, 4); l.Clear(); return l },
	}
	names := make([]string, 0, len(histories))
	for n := range histories {
		names = append(names, n)
	}
	sort.Strings(names)
	for _, name := range names {
		l := histories[name]()
		base := l.Slice()
		before := treeOf(l).Token()
		derive := func(g int) (string, string) {
			tail := at.NewList(1000+g, 2000+g)
			want := append(append([]any{}, base...), 1000+g, 2000+g)
			c1 := l.Concat(tail)
			c2 := l.SubList(0, len(base)).Add(3000 + g)
			c3 := l.Clone().Add(4000 + g)
			c4 := l.Filter(func(any) bool { return true }).Add(5000 + g)
			c5 := l.Map(func(i int, v any) any { return v }).Add(6000 + g)
			runtime.Gosched()
			c1.Add(7000 + g)
			// results changed in place (no growth): a result that is a window onto the shared list writes into it
			n := len(base)
			c6 := l.SubList(0, n)
			c7 := l.Concat(at.NewList())
			c8 := l.SubList(n/2, n)
			e6 := append([]any{}, base...)
			e7 := append([]any{}, base...)
			e8 := append([]any{}, base[n/2:]...)
			if n > 0 {
				c6.Replace(0, 8000+g)
				e6[0] = 8000 + g
				c7.Replace(n-1, 9000+g)
				e7[n-1] = 9000 + g
				c7.Delete(0)
				e7 = e7[1:]
			}
			c6.Reverse()
			for i, j := 0, len(e6)-1; i < j; i, j = i+1, j-1 {
				e6[i], e6[j] = e6[j], e6[i]
			}
			if len(e8) > 0 {
				c8.Replace(0, 9500+g)
				e8[0] = 9500 + g
			}
			runtime.Gosched()
			got := fmt.Sprint(c1.Slice(), c2.Slice(), c3.Slice(), c4.Slice(), c5.Slice(), c6.Slice(), c7.Slice(), c8.Slice())
			w := func(x int) []any { return append(append([]any{}, base...), x) }
			exp := fmt.Sprint(append(append([]any{}, want...), 7000+g), w(3000+g), w(4000+g), w(5000+g), w(6000+g), e6, e7, e8)
			return got, exp
		}
		var wg sync.WaitGroup
		got, exp := make([]string, k), make([]string, k)
		for g := 0; g < k; g++ {
			wg.Add(1)
			go func(g int) {
				defer wg.Done()
				defer func() {
					if r := recover(); r != nil {
						got[g] = "panic: " + fmt.Sprint(r)
					}
				}()
				for rep := 0; rep < 4; rep++ {
					got[g], exp[g] = derive(g)
					if got[g] != exp[g] {
						return
					}
				}
			}(g)
		}
		wg.Wait()
		for g := range got {
			if got[g] != exp[g] {
				m.Alarm("C15", fmt.Sprintf("%d goroutines deriving from one shared unmodified list %v (%s): goroutine %d holds %s, alone it holds %s", k, base, name, g, got[g], exp[g]))
				break
			}
		}
		if treeOf(l).Token() != before {
			m.Alarm("C15", fmt.Sprintf("deriving operations modified the shared list (%s)", name))
		}
		c.St.Eval("derivers:"+name, true)
	}
}

func runC15(c *Ctx) {
	r := c.R
	c.St.Rule = "async calls under controlled schedules: callbacks block until the controller releases them in a chosen completion order (all n! orders for small n, random orders for larger n), for n = 0, 1, ... and GOMAXPROCS in {1, 2, 16}; the observed event trace is validated against the goroutine LTS; plus concurrent read-only use of shared containers under the race detector; non-trivial = n >= 2; distinct by (kind, n, order)"
	maxAll := c.N(4, 6)
	defer runtime.GOMAXPROCS(runtime.GOMAXPROCS(0))
	for _, procs := range []int{1, 2, 16} {
		runtime.GOMAXPROCS(procs)
		c.M.Case(fmt.Sprintf("schedules-gomaxprocs-%d", procs))
		for _, kind := range []string{"lf", "lm", "of", "om"} {
			for n := 0; n <= maxAll; n++ {
				if procs != 16 && n > 3 {
					continue
				}
				for _, p := range permutations(n) {
					c.asyncCase(kind, n, p)
				}
			}
			for _, n := range []int{64, 65, 100, 129, 257} {
				p := make([]int, n)
				for j := range p {
					p[j] = (j*37 + 11) % n // a fixed scrambled order (37 is coprime to these sizes... or close enough: duplicates are repaired by the controller)
				}
				seen := map[int]bool{}
				q := p[:0]
				for _, v := range p {
					if !seen[v] {
						seen[v] = true
						q = append(q, v)
					}
				}
				for v := 0; v < n; v++ {
					if !seen[v] {
						q = append(q, v)
					}
				}
				c.asyncCase(kind, n, q)
			}
			for i := 0; i < c.N(6, 60); i++ {
				n := 5 + r.Intn(c.N(40, 200))
				p := make([]int, n)
				for j := range p {
					p[j] = j
				}
				for j := n - 1; j > 0; j-- {
					k := r.Intn(j + 1)
					p[j], p[k] = p[k], p[j]
				}
				c.asyncCase(kind, n, p)
			}
		}
		c.St.Count(fmt.Sprintf("gomaxprocs_%d", procs))
	}
	c.St.Exhaustive = append(c.St.Exhaustive, fmt.Sprintf("all n! completion orders for n <= %d (GOMAXPROCS 16) and n <= 3 (GOMAXPROCS 1, 2), four async methods", maxAll))
	runtime.GOMAXPROCS(16)
	// sequential view through the machine (results and invocation multisets compared with the model)
	for i := 0; i < c.N(60, 600); i++ {
		c.M.Case("async-sequential-view")
		t := r.Container(&TreeOpts{MaxDepth: 2, MaxWidth: 8}, '[')
		l := c.M.NewListFrom(gvOfTree(t))
		c.M.ForEachAsync(l)
		c.M.MapAsync(l, &Fn{Name: []string{"id", "inc", "idx", "tostr"}[r.Intn(4)]})
		c.M.Map(l, &Fn{Name: "inc"})
		to := r.Container(&TreeOpts{MaxDepth: 2, MaxWidth: 8}, '{')
		o := c.M.NewObjectFrom(gvOfTree(to))
		c.M.OForEachAsync(o)
		c.M.OMapAsync(o, &Fn{Name: []string{"id", "inc", "idx", "tostr"}[r.Intn(4)]})
		c.St.Eval("seq:"+t.Token()+to.Token(), true)
	}
	c.longLists("C15")
	// lengths around every plausible chunking threshold, not multiples of the processor count
	for _, n := range []int{1023, 1024, 1025, 1031, 2049, 4099} {
		c.M.Case("long-async")
		gs := make([]*GV, n)
		for i := range gs {
			gs[i] = gvInt(i)
		}
		l := c.M.NewList(gs...)
		c.M.MapAsync(l, &Fn{Name: "idx"})
		c.M.ForEachAsync(l)
		kvs := make([]*GV, 0, 2*n)
		for i := 0; i < n; i++ {
			kvs = append(kvs, gvStr("k"+strconv.Itoa(i)), gvInt(i))
		}
		o := c.M.NewObject(kvs...)
		c.M.OMapAsync(o, &Fn{Name: "inc"})
		c.M.OForEachAsync(o)
	}
	// nested and concurrent async calls: calls are independent of each other (a lock shared between calls would deadlock)
	c.M.Case("nested-and-concurrent-async")
	for rep := 0; rep < c.N(3, 20); rep++ {
		c.nestedAsync()
		c.crossAsync()
	}
	c.M.Case("late-starter")
	c.lateDerived("C15")
	c.M.Case("late-starter-2")
	c.lateStarter()
	// the same schedule on one and two processors: "one goroutine per element" does not depend on GOMAXPROCS
	for _, procs := range []int{1, 2} {
		old := runtime.GOMAXPROCS(procs)
		c.M.Case(fmt.Sprintf("late-starter-gomaxprocs-%d", procs))
		c.lateStarter(2, 3, 17, 300)
		runtime.GOMAXPROCS(old)
	}
	// independent containers used concurrently (each goroutine its own): results as in a sequential run
	c.M.Case("concurrent-independent")
	for rep := 0; rep < c.N(6, 40); rep++ {
		c.concurrentIndependent(8)
	}
	c.M.Case("concurrent-derivers")
	for _, k := range []int{2, 8} {
		c.concurrentDerivers(k)
	}
	// concurrent readers
	c.M.Case("concurrent-readers")
	for i := 0; i < c.N(40, 400); i++ {
		t := r.Container(&TreeOpts{MaxDepth: 3, MaxWidth: 5, Keys: r.SimpleKey}, "[{"[r.Intn(2)])
		c.concurrentReaders(t, 2+r.Intn(7))
	}
	// long strings that need escaping, serialised by many goroutines at once
	for i := 0; i < c.N(6, 40); i++ {
		long := strings.Repeat("a\"b\\c\n", 20+i) + string(rune('A'+i))
		t := &Tree{K: '[', Xs: []*Tree{tStr(long), obj1(long+"k", tStr("v\t"+long)), tStr("plain")}}
		c.concurrentReaders(t, 8)
	}
}

// within runs f and reports whether it finished in time.
func within(d time.Duration, f func()) bool {
	done := make(chan struct{})
	go func() {
		defer func() { recover(); close(done) }()
		f()
	}()
	select {
	case <-done:
		return true
	case <-time.After(d):
		return false
	}
}

// nestedAsync: a pure mapping function may itself use MapAsync / ForEachAsync on another container.
func (c *Ctx) nestedAsync() {
	inner := at.NewList(1, 2, 3)
	innerO := at.NewObject("a", 1, "b", 2)
	outer := at.NewList(10, 20, 30)
	outerO := at.NewObject("x", 1, "y", 2)
	f := func(v any) any {
		s := 0
		inner.MapAsync(func(i int, x any) any { return x.(int) * 2 }).ForEachValue(func(x any) { s += x.(int) })
		innerO.MapAsync(func(k string, x any) any { return x.(int) + 1 }).ForEachValue(func(x any) { s += x.(int) })
		return v.(int) + s
	}
	var got, want string
	if !within(5*time.Second, func() { got = treeOf(outer.MapAsync(func(i int, v any) any { return f(v) })).Token() }) {
		c.M.Alarm("C15", "list MapAsync whose (pure) function itself calls MapAsync on another container did not return within 5 s (deadlock)")
		return
	}
	want = treeOf(outer.Map(func(i int, v any) any { return f(v) })).Token()
	if got != want {
		c.M.Alarm("C15", "nested MapAsync returned "+got+", Map returns "+want)
	}
	if !within(5*time.Second, func() { got = treeOf(outerO.MapAsync(func(k string, v any) any { return f(v) })).Token() }) {
		c.M.Alarm("C15", "object MapAsync whose (pure) function itself calls MapAsync on another container did not return within 5 s (deadlock)")
		return
	}
	want = treeOf(outerO.Map(func(k string, v any) any { return f(v) })).Token()
	if got != want {
		c.M.Alarm("C15", "nested object MapAsync returned "+got+", Map returns "+want)
	}
	c.St.Eval("nested-async", true)
	c.St.Count("async_nested")
}

// crossAsync: two MapAsync calls on different containers run concurrently; a callback of each waits until
// a callback of the other has started. Independent calls can always make progress.
func (c *Ctx) crossAsync() {
	a := at.NewList(1, 2)
	b := at.NewObject("k", 1, "l", 2)
	aIn, bIn := make(chan struct{}), make(chan struct{})
	var onceA, onceB sync.Once
	ok := within(5*time.Second, func() {
		var wg sync.WaitGroup
		wg.Add(2)
		go func() {
			defer wg.Done()
			a.MapAsync(func(i int, v any) any {
				onceA.Do(func() { close(aIn) })
				select {
				case <-bIn:
				case <-time.After(4 * time.Second):
				}
				return v
			})
		}()
		go func() {
			defer wg.Done()
			b.MapAsync(func(k string, v any) any {
				onceB.Do(func() { close(bIn) })
				select {
				case <-aIn:
				case <-time.After(4 * time.Second):
				}
				return v
			})
		}()
		wg.Wait()
	})
	waitedOut := false
	select {
	case <-aIn:
	default:
		waitedOut = true
	}
	select {
	case <-bIn:
	default:
		waitedOut = true
	}
	if !ok || waitedOut {
		c.M.Alarm("C15", "two concurrent MapAsync calls on different containers block each other (their callbacks cannot run at the same time)")
	}
	c.St.Eval("cross-async", true)
	c.St.Count("async_cross")
}

// concurrentIndependent: k goroutines work on k different containers (parse, build, sort, reverse, serialise,
// format, clone); every result must equal what the same work gives when done alone.
var freshIndex int64

func (c *Ctx) concurrentIndependent(k int) {
	work := func(g int) string {
		var sb strings.Builder
		ints := make([]any, 0, 64)
		for i := 0; i < 64; i++ {
			ints = append(ints, (i*37+g*11)%101)
		}
		l := at.NewList(ints...)
		l.Sort()
		sb.WriteString(l.String())
		l.Reverse()
		sb.WriteString(strconv.Itoa(l.GetInt(0)))
		strs := at.NewList("b\"x", "a\\y", strings.Repeat("q\n", 30+g), "c")
		strs.Sort()
		sb.WriteString(strs.String())
		doc := "[1,\n2,\n{\"g\":" + strconv.Itoa(g) + ",\n\"l\":[ " + strings.Repeat("1,\n", 50+g) + " x]}]"
		_, err := at.ParseList(doc)
		if err != nil {
			sb.WriteString(err.Error())
		}
		o, err := at.ParseObject("{\"a\":[1,2,{\"b\":\"" + strings.Repeat("z", g) + "\"}]}")
		if err == nil {
			sb.WriteString(o.FormatString(2))
			sb.WriteString(strconv.Itoa(o.Clone().Count()))
			sb.WriteString(fmt.Sprint(o.GetTF(".a#2.b")))
		}
		sb.WriteString(fmt.Sprint(l.Sum(), l.IntSum(), l.Max()))
		// strings and keys with escapes (decoded through the parser's unquoting), different per goroutine
		esc := "[\"g" + strconv.Itoa(g) + "\\n\\u00e9\\\\" + strings.Repeat("\\t"+strconv.Itoa(g), 10+g) + "\",{\"k\\u0041" + strconv.Itoa(g) + "\\/\":\"v\\\"" + strings.Repeat("w", g) + "\"}]"
		if pl, err := at.ParseList(esc); err == nil {
			sb.WriteString(pl.String())
		} else {
			sb.WriteString(err.Error())
		}
		// tree-form reads with index spellings nobody used before (per goroutine and repetition)
		for i := 0; i < 8; i++ {
			idx := (i*7 + g) % 64
			sb.WriteString(fmt.Sprint(l.GetTF("#"+strconv.Itoa(idx)), l.TypeOfTF("#"+strconv.Itoa(idx)), l.TypeOfTF("#0"+strconv.Itoa(idx%8)), l.TypeOfTF("#"+strconv.Itoa(1000+idx+g*64))))
			// an index spelling no call has used before (whatever an implementation remembers about earlier paths is of no use)
			fresh := strconv.FormatInt(100000+atomic.AddInt64(&freshIndex, 1), 10)
			sb.WriteString(fmt.Sprint(l.TypeOfTF("#"+fresh), l.TypeOfTF("#0#"+fresh), at.NewObject("k", l).TypeOfTF(".k#"+fresh)))
		}
		return sb.String()
	}
	want := make([]string, k)
	for g := 0; g < k; g++ {
		want[g] = work(g)
	}
	got := make([]string, k)
	var wg sync.WaitGroup
	for g := 0; g < k; g++ {
		wg.Add(1)
		go func(g int) {
			defer wg.Done()
			defer func() {
				if r := recover(); r != nil {
					got[g] = "panic: " + fmt.Sprint(r)
				}
			}()
			for rep := 0; rep < 20; rep++ {
				got[g] = work(g)
				if got[g] != want[g] {
					return
				}
			}
		}(g)
	}
	wg.Wait()
	for g := range got {
		if got[g] != want[g] {
			c.M.Alarm("C15", fmt.Sprintf("goroutines working on DIFFERENT containers disturb each other (package-level state): goroutine %d got %.300q, alone it gets %.300q", g, got[g], want[g]))
			break
		}
	}
	c.St.Eval("concurrent-independent", true)
}

// lateStarter: a schedule in which the callbacks of all elements but the last wait until the callback of the last
// element has started.  With one goroutine per element this schedule always completes; an implementation that
// runs the callbacks in a bounded pool, in batches or one after another admits no such execution and never returns.
func (c *Ctx) lateStarter(sizes ...int) {
	if len(sizes) == 0 {
		sizes = []int{2, 3, 17, 257, 300, 1025, c.N(1500, 5000)}
	}
	for _, n := range sizes {
		gs := make([]any, n)
		kv := make([]any, 0, 2*n)
		for i := range gs {
			gs[i] = i
			kv = append(kv, "k"+strconv.Itoa(i), i)
		}
		l := at.NewListFrom(gs)
		o := at.NewObject(kv...)
		for _, kind := range []string{"list", "object"} {
			started := make(chan struct{})
			var once sync.Once
			var calls int64
			release := func() { once.Do(func() { close(started) }) }
			ok := within(10*time.Second, func() {
				if kind == "list" {
					l.ForEachAsync(func(i int, v any) {
						atomic.AddInt64(&calls, 1)
						if i == n-1 {
							release()
						} else {
							<-started
						}
					})
				} else {
					o.ForEachAsync(func(k string, v any) {
						atomic.AddInt64(&calls, 1)
						if k == "k"+strconv.Itoa(n-1) {
							release()
						} else {
							<-started
						}
					})
				}
			})
			got := atomic.LoadInt64(&calls)
			release() // let blocked callbacks go, whatever happened
			if !ok {
				c.M.Alarm("C15", fmt.Sprintf("%s ForEachAsync on %d elements under the schedule 'every callback waits until the callback of the last element has started' did not return within 10 s (%d callbacks had started): the callbacks are not independent goroutines", kind, n, got))
			} else if got != int64(n) {
				c.M.Alarm("C15", fmt.Sprintf("%s ForEachAsync on %d elements called the function %d times", kind, n, got))
			}
		}
		c.St.Eval(fmt.Sprintf("late-starter:%d", n), n > 2)
		c.St.Count("async_late_starter")
	}
}
