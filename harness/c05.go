package main

import "fmt"

func init() { props["C05"] = runC05 }

// menuOp is one concrete operation of the small-scope exhaustive stratum.
type menuOp func(m *Machine, l1, l2, o1 string)

func c05Menu() []menuOp {
	one := gvInt(9)
	return []menuOp{
		func(m *Machine, l1, l2, o1 string) { m.Add(l1, one) },
		func(m *Machine, l1, l2, o1 string) { m.Add(l2, gvInt(5)) },
		func(m *Machine, l1, l2, o1 string) { m.Insert(l1, 0, gvStr("z")) },
		func(m *Machine, l1, l2, o1 string) { m.Insert(l1, 1, gvUnsupported(0)) },
		func(m *Machine, l1, l2, o1 string) { m.Insert(l1, m.L(l1).Count(), gvNil()) },
		func(m *Machine, l1, l2, o1 string) { m.Insert(l1, m.L(l1).Count()+1, gvNil()) },
		func(m *Machine, l1, l2, o1 string) { m.Insert(l1, -1, gvNil()) },
		func(m *Machine, l1, l2, o1 string) { m.Replace(l1, 0, gvFloat(1.5)) },
		func(m *Machine, l1, l2, o1 string) { m.Replace(l1, m.L(l1).Count(), gvInt(0)) },
		func(m *Machine, l1, l2, o1 string) { m.Delete(l1, 0) },
		func(m *Machine, l1, l2, o1 string) { m.Delete(l1, m.L(l1).Count()-1, 0) },
		func(m *Machine, l1, l2, o1 string) { m.Delete(l1, m.L(l1).Count()) },
		func(m *Machine, l1, l2, o1 string) { m.Pop(l1) },
		func(m *Machine, l1, l2, o1 string) { m.Pop(l2) },
		func(m *Machine, l1, l2, o1 string) { m.Clear(l1) },
		func(m *Machine, l1, l2, o1 string) { m.Reverse(l1) },
		func(m *Machine, l1, l2, o1 string) { m.Concat(l1, l2) },
		func(m *Machine, l1, l2, o1 string) { m.Concat(l1, l1) },
		func(m *Machine, l1, l2, o1 string) { m.SubList(l1, 1, 0) },
		func(m *Machine, l1, l2, o1 string) { m.SubList(l1, 0, -1) },
		func(m *Machine, l1, l2, o1 string) { m.SubList(l1, 2, 1) },
		func(m *Machine, l1, l2, o1 string) { m.Get(l1, 0); m.Get(l1, m.L(l1).Count()) },
		func(m *Machine, l1, l2, o1 string) { m.Add(l1, m.RefGV(o1)) },
		func(m *Machine, l1, l2, o1 string) { m.IndexOf(l1, gvInt(2)); m.Contains(l1, gvInt(9)) },
	}
}

func runC05(c *Ctx) {
	m, r := c.M, c.R
	c.St.Rule = "programs of list operations over a heap of lists/objects; a case is non-trivial when it has at least 3 operations of which at least one mutates; distinct by hash of the operation sequence"
	c.nilArguments()
	c.slicesStratum()
	c.sortedThen("C05")

	// stratum 1: small-scope exhaustive — every sequence of k menu operations on a fixed heap
	menu := c05Menu()
	k := c.N(2, 3)
	total := 1
	for i := 0; i < k; i++ {
		total *= len(menu)
	}
	for s := 0; s < total; s++ {
		m.Case("exhaustive")
		l1 := m.NewList(gvInt(1), gvInt(2), gvInt(3))
		l2 := m.NewList()
		o1 := m.NewObject(gvStr("a"), m.RefGV(l2))
		x := s
		seq := ""
		for i := 0; i < k; i++ {
			j := x % len(menu)
			x /= len(menu)
			menu[j](m, l1, l2, o1)
			seq += fmt.Sprintf("%d,", j)
		}
		c.St.Eval("exh:"+seq, true)
	}
	c.St.Exhaustive = append(c.St.Exhaustive, fmt.Sprintf("exhaustive: all %d sequences of %d operations from a menu of %d on the heap {L1=[1,2,3], L2=[], O1={a:L2}}", total, k, len(menu)))

	c.derivedCorners("C05")
	c.lateDerived("C05")
	c.typedSlices()
	c.rawBytes("C05")

	// stratum 2: capacity histories (the slice of spare capacity behind the visible elements)
	for grow := 0; grow <= c.N(6, 10); grow++ {
		for shrink := 0; shrink <= grow && shrink <= 3; shrink++ {
			m.Case("capacity")
			l := m.NewList(gvInt(1), gvInt(2), gvInt(3))
			for i := 0; i < grow; i++ {
				m.Add(l, gvInt(10+i))
			}
			for i := 0; i < shrink; i++ {
				if i%2 == 0 {
					m.Pop(l)
				} else {
					m.Delete(l, 0)
				}
			}
			a := m.NewList(gvInt(9))
			b := m.NewList(gvInt(8))
			c1 := m.Concat(l, a)
			c2 := m.Concat(l, b)
			s1 := m.SubList(l, 0, 0)
			m.Add(l, gvInt(7))
			m.Add(c1, gvInt(70))
			m.Add(c2, gvInt(71))
			m.Insert(s1, 0, gvInt(72))
			m.Replace(l, 0, gvStr("r"))
			m.Pop(c1)
			m.Reverse(c2)
			c.St.Eval(fmt.Sprintf("cap:%d:%d", grow, shrink), true)
		}
	}

	// stratum: structurally equal but distinct containers ("twins") stored, replaced and compared by identity
	for i := 0; i < c.N(60, 600); i++ {
		m.Case("twins")
		t := r.Container(&TreeOpts{MaxDepth: 2, MaxWidth: 3}, "[{"[r.Intn(2)])
		mk := func() string {
			if t.K == '[' {
				return m.NewListFrom(gvOfTree(t))
			}
			return m.NewObjectFrom(gvOfTree(t))
		}
		a, b := mk(), mk()
		outer := m.NewList(gvStr("x"), m.RefGV(a), gvInt(1))
		m.Replace(outer, 1, m.RefGV(b))
		m.Get(outer, 1)
		m.IndexOf(outer, m.RefGV(b))
		m.IndexOf(outer, m.RefGV(a))
		m.Contains(outer, m.RefGV(a))
		m.Insert(outer, 1, m.RefGV(a))
		m.Add(outer, m.RefGV(a), m.RefGV(b))
		m.IndexOf(outer, m.RefGV(b))
		m.Delete(outer, 1)
		m.SetTF(outer, "#0", m.RefGV(a))
		m.SetTF(outer, "#0", m.RefGV(b))
		m.Get(outer, 0)
		// mutate one twin, the other must not follow
		if t.K == '[' {
			m.Add(b, gvInt(7))
			m.Concat(a, m.NewList())
			e := m.NewList()
			ce := m.Concat(a, e)
			m.Add(ce, gvInt(1))
			m.Replace(a, 0, gvInt(0))
			m.Reverse(ce)
		} else {
			m.OSet(b, gvStr("twin"), gvInt(7))
		}
		cp := m.NewListOf(m.RefGV(a), 3)
		m.Replace(cp, 1, m.RefGV(b))
		m.Equals(cp, m.NewListOf(m.RefGV(b), 3))
		c.St.Eval("twins:"+t.Token(), true)
	}

	c.omoList("C05")
	c.growShrink()
	c.longLists("C05")

	// stratum 3: structured random programs
	nprog := c.N(300, 4000)
	for i := 0; i < nprog; i++ {
		m.Case("random")
		p := &Prog{c: c}
		steps := r.Range(10, c.N(40, 120))
		before := m.Lines
		mut := 0
		for s := 0; s < steps; s++ {
			p.ListStep()
		}
		for name, n := range c.St.Ops {
			_ = name
			mut += n
		}
		c.St.Eval(fmt.Sprintf("rand:%d:%d:%d", i, steps, m.Lines-before), steps >= 3)
		c.St.Count(fmt.Sprintf("program_length_%d0s", steps/10))
	}
}

// typedSlices: NewListFrom / Add of native slices whose element type is a container interface, with nil members,
// and every observer on the result (a nil List / Object member is stored as nil).
func (c *Ctx) typedSlices() {
	m := c.M
	m.Case("typed-slices")
	in1 := m.NewList(gvInt(1))
	in2 := m.NewList()
	o1 := m.NewObject(gvStr("k"), gvInt(1))
	srcs := []*GV{
		{K: '(', Fl: 'l', Xs: []*GV{m.RefGV(in1), gvNil(), m.RefGV(in2), gvNil()}},
		{K: '(', Fl: 'o', Xs: []*GV{gvNil(), m.RefGV(o1)}},
		{K: '(', Fl: 'l', Xs: []*GV{gvNil()}},
		{K: '(', Fl: 'o', Xs: []*GV{gvNil()}},
		{K: '(', Fl: 'a', Xs: []*GV{gvNil(), m.RefGV(in1), {K: '(', Fl: 'l', Xs: []*GV{gvNil(), m.RefGV(in2)}}}},
		{K: '(', Fl: 's', Xs: []*GV{gvStr(""), gvStr("a")}},
		{K: '(', Fl: 'i', Xs: []*GV{gvInt(0), gvInt(-1)}},
		{K: '(', Fl: 'f', Xs: []*GV{gvFloat(0), gvFloat(1.5)}},
		{K: '(', Fl: 'b', Xs: []*GV{{K: 'b', B: false}, {K: 'b', B: true}}},
	}
	for _, g := range srcs {
		added := m.NewList(gvStr("head"))
		m.Add(added, g)
		for _, l := range []string{m.NewListFrom(g), added} {
			if l == "" {
				continue
			}
			n := m.L(l).Count()
			for i := 0; i < n; i++ {
				m.TypeOf(l, i)
				m.Get(l, i)
			}
			m.Slice(l)
			m.Contains(l, gvNil())
			m.IndexOf(l, gvNil())
			m.Contains(l, m.RefGV(in2))
			m.IndexOf(l, m.RefGV(o1))
			m.Reverse(l)
			s := m.SubList(l, 0, 0)
			m.Concat(l, s)
			m.Pop(l)
		}
	}
	c.St.Eval("typed-slices", true)
}
