// clonegen.go — translation of the deep-copy and equality methods into Lean definitions
// (`Anytype/Generated/CloneGen.lean`, namespace `Anytype.Generated.CG`):
//
//	copy() / isEqual() of atString, atBool, atInt, atFloat, atNil (anytype.go),
//	(*list).copy, (*list).isEqual, (*list).Clone, (*list).Equals (list_impl.go),
//	(*object).copy, (*object).isEqual, (*object).Clone, (*object).Equals (object_impl.go).
//
// `Lemmas/CloneGenEq.lean` proves every generated definition equal to a hand-written heap walk
// (`Anytype.CloneRef`) by generic scripts and proves that walk a refinement of the hand-written model
// (`O.clone h v = (reifyF h v).map (build h)`, `equalsJ` of the two reified trees).
//
// The Lean text is derived from the statements and expressions of each Go function body by a small
// symbolic executor in continuation-passing style.  Whatever is not recognised makes the translation
// fail with the source position.
//
// RESTRUCTURING RULES (trusted base: the conventions of the hand-written model, Model/Heap.lean,
// Model/Normalize.lean, Model/ListOps.lean, Model/ObjectOps.lean)
//
//	C1  values.  A stored `field` is a `Val`; the struct types map to its constructors
//	    (atNil ↦ .nil, atBool ↦ .bool, atInt ↦ .int, atFloat ↦ .float, atString ↦ .str, *list ↦ .list r,
//	    *object ↦ .obj r; the translator checks the type of the struct's `val` field).  A pointer to a
//	    scalar struct is represented by its payload: the receiver of a scalar method is the parameter
//	    `val`, `x.val` of a pointer `x` obtained by a type assertion is the bound payload.  Go `string`
//	    is `Str`, `int` is `Int`, `float64` is `F64`, `bool` is `Bool`.  `==` / `!=` on strings, bools
//	    and ints is Lean's `==` / `!=`, on float64 it is `F64.eqGo` (IEEE: NaN ≠ NaN, +0 = -0).
//	C2  heap.  A method of *list / *object with receiver `ego` becomes a function of the heap `h` and
//	    the address `a` of the receiver's cell; `x.val` of a `*list` / `*object` `x` is `h.items x` /
//	    `h.fields x` (a Go `[]field` is a `List Val`, capacity is not modelled; a Go map is an
//	    association list with distinct keys whose order stands for one iteration order).  A cell that
//	    does not exist has no elements (the model has no dangling pointers to panic on).
//	C3  identity.  `ego.Ego()` is `h.egoRef a`; a `List` / `Object` value is a `Ref` (address and
//	    embedding level).  A method called through `ego`, `ego.Ego()` or a `List` / `Object` value is
//	    the library's own method of that cell (overriding by an embedding type is not modelled).
//	    `x.Count()` is the model's `L.count h x` / `O.count h x` (tied to the source by ListGen /
//	    ObjectGen).  A `*list` converted to `List` / `any` is the reference `⟨x, 0⟩`.
//	C4  `any`.  An `any` / `field` argument of `isEqual` is an `Option Val`: `none` is the nil interface
//	    (`obj.val[k]` of a missing key), `some v` a stored field, `some (.list r)` a `List` value.  An
//	    `any` result of `copy()` is a `GoVal` (string ↦ .str, bool ↦ .bool, int ↦ .intw .int,
//	    float64 ↦ .f64, nil ↦ .nil, *list / List ↦ .list r, *object / Object ↦ .obj r).
//	    `x, ok := v.(*T)` on an `Option Val` is a `match` on the constructor of `T`; for `*list` /
//	    `*object` it also requires embedding level 0 (a derived type is not a `*list`).
//	    `x, ok := v.(List)` / `v.(Object)` succeeds iff the value is a list / object reference of ANY
//	    embedding level (`x : Ref`); `x.base()` (whose body must be `return ego`; it is unexported and
//	    promoted through embedding, so it yields the innermost implementation) is the cell `x.addr`.
//	    On the failing
//	    paths `ok` is the constant false and `x` is nil: `||` / `&&` / `!` with a constant operand are
//	    folded with Go's short-circuit order, a dereference of the nil `x` is a run-time panic.
//	    `v.(*T)` with one result on a `GoVal` is a `match` whose other arms are run-time panics.
//	C5  effects and fuel.  copy() and isEqual() are mutually recursive over the heap, so the container
//	    versions and the dispatchers take a fuel argument (the dispatcher consumes one unit per
//	    container level, like `reify`); `none` = out of fuel.  A function that may change the heap
//	    returns `Option (Heap × Out T)` (on a panic: the heap at the panic point), one that only reads
//	    it `Option (Out T)`, a scalar method is pure.  Run-time panics (index out of range, nil
//	    dereference, negative `make` length, failed one-result type assertion) are
//	    `.panic .runtime`; these functions contain no `panic(msg)` (one would be mapped by message
//	    prefix as in Model/Heap.lean's `PanicKind`; the translator rejects it).
//	C6  dynamic dispatch.  `v.copy()` / `v.isEqual(w)` on a stored field `v` is the generated
//	    dispatcher `copyGen` / `isEqualGen`: a `match` over the constructors of `Val` calling the
//	    translated method of the corresponding struct type.  The dispatcher is generated from the set
//	    of receiver types that have the method; a type outside the table of C1 makes it fail.
//	    A method value on a nil interface (`m[k].isEqual(…)` with `k` missing) is a run-time panic; it
//	    is raised where the receiver is evaluated (the arguments of these calls are pure).
//	C7  calls of other functions.  `parseVal(g)` is the model's `parseVal h g` (new heap, may panic);
//	    `NewObject(args…)` is `O.new h pairs odd`, `x.Set(args…)` is `O.set h x pairs odd` (a `string`
//	    argument in key position is `some key`, the value argument its `GoVal`); these model functions
//	    are tied to the source by ObjectGen.
//	C8  allocation.  `x := &list{val: e}` followed immediately by `x.Init(x)` (whose body must be
//	    `ego.ptr = ptr`) appends the cell `.list e 0`; `x` is the old heap length.
//	    `x := &object{val: m}` followed immediately by `x.Init(x)` (same condition on (*object).Init),
//	    with `m` an empty non-nil map (`map[string]field{}`, `make(map[string]field)`, or the latter
//	    with a capacity hint `len(…)`, which cannot be negative; capacity is not modelled), appends
//	    the cell `.obj [] 0` in the same way (the convention of objgen.go R3).
//	    `make([]field, n)` is `List.replicate n.toNat Val.nil` after a run-time panic for `n < 0`
//	    (the model has no nil interface inside a slice: the placeholder is `Val.nil`; the refinement
//	    theorem shows that every placeholder is overwritten).
//	C8a a container built around a local slice.  `s := make(…); B; x := &T{val: s}; x.Init(x)`, where B uses `s`
//	    only as `s[i]` and does not mention the name `x`, and `s` is dead behind the allocation, is read as
//	    `x := &T{val: make(…)}; x.Init(x); B[s[i] ↦ x.val[i]]` — the form of C8 / C9.  In Go the two are the same
//	    program: `make` is evaluated at the same point, `x.val` and `s` are the same slice (same backing array,
//	    and B cannot replace either: it does not mention `x`, and `s` only under an index), the struct is
//	    reachable by nobody until `x` is used, `Init` only sets `x.ptr` (checked by C8), and when an
//	    allocation happens is not observable in Go (if B panics the struct is garbage either way).  The
//	    model numbers cells in allocation order; by this rule the order is that of the C8 form, the cell
//	    of `x` before the cells B allocates — a renaming of addresses no Go program can observe.
//	C9  stores and reads.  `x.val[i] = v` with `i` a range index is `h.setItems x ((h.items x).set i v)`
//	    after a run-time panic for `i ≥ len`; `x.val[i]` (read) is `match (h.items x)[i]? with
//	    | none => run-time panic | some t => …`; `m[k]` on a map is `lookup (h.fields x) k : Option Val`.
//	    `x.val[k] = v` with `x` a `*object` and `k` a string is `h.setFields x (setKV (h.fields x) k v)`
//	    (the convention of objgen.go R1; a nil map is not modelled: every cell holds a map).  The
//	    container is read in the heap after the right-hand side: no function callable here (C6, C7)
//	    replaces the slice / map of an existing cell by another one, they store into it.
//	C10 loops.  `for i, v := range x.val` (either variable may be missing; `for i := 0; i < len(x.val);
//	    i++` with `i++` / `i += 1` / `i = i + 1` and a body that does not store to that `x.val` is the
//	    same loop) is a recursive helper `…LoopGen` over the list `h.items x` / `h.fields x`, evaluated
//	    once before the loop; `i : Nat` counts from 0.  The helper's parameters are fuel, the heap,
//	    the receiver's address and the locals its body mentions, the list, the index.  A loop body that
//	    changes the heap threads it (result `Option (Heap × Out Unit)`); a loop body containing
//	    `return` is a search loop: the `[]` case of the helper is the translation of the statements
//	    behind the loop.  Helpers recurse on the list with the same fuel; `termination_by` is generated.
//	C11 Go evaluation order: operands and arguments left to right, the receiver before the arguments;
//	    calls with an effect inside an expression are hoisted in that order.  `x := e` binds the value
//	    (no copy semantics are needed: every value here is immutable or a pointer).
package main

import (
	"fmt"
	"go/ast"
	"go/parser"
	"go/token"
	"regexp"
	"strings"
)

// ---------------------------------------------------------------------------------------------
// tables

// representation of the struct types that implement `field` (C1)
type cgRep struct {
	ctor      string // constructor of Val
	goPayload string // Go type of the `val` field ("" = no field)
	typ       string // translator type of the payload
	binder    string // binder used in the dispatcher
}

var cgReps = map[string]cgRep{
	"atNil":    {".nil", "", "", ""},
	"atBool":   {".bool", "bool", "Bool", "b"},
	"atInt":    {".int", "int", "Int", "i"},
	"atFloat":  {".float", "float64", "F64", "f"},
	"atString": {".str", "string", "Str", "s"},
	"list":     {".list", "[]field", "Fields", "r"},
	"object":   {".obj", "map[string]field", "Map", "r"},
}

var cgCtorOrder = []string{"atNil", "atBool", "atInt", "atFloat", "atString", "list", "object"}

// translator types and their Lean types
var cgLeanType = map[string]string{"Str": "Str", "Bool": "Bool", "Int": "Int", "F64": "F64", "Nat": "Nat",
	"Field": "Val", "OptField": "Option Val", "GoVal": "GoVal", "ListPtr": "Nat", "ObjPtr": "Nat",
	"ListIf": "Ref", "ObjIf": "Ref", "Fields": "List Val", "Map": "List (Str × Val)", "Unit": "Unit"}

// shape of a translated method by name and receiver class (C5)
type cgShape struct {
	shape string // pure / heap / read
	res   string // translator type of the result
}

var cgScalarShape = map[string]cgShape{"copy": {"pure", "GoVal"}, "isEqual": {"pure", "Bool"}}
var cgContainerShape = map[string]cgShape{"copy": {"heap", "GoVal"}, "isEqual": {"read", "Bool"},
	"Clone": {"heap", ""}, "Equals": {"read", "Bool"}}

// ---------------------------------------------------------------------------------------------
// data

type cgVal struct {
	typ    string
	lean   string
	static int    // Bool only: 0 dynamic, 1 known true, 2 known false
	nilptr bool   // a pointer that is nil on this path (failed type assertion)
	struc  string // ScalarPtr: the struct type
	addr   string // ListIf / ObjIf: Lean expression of the cell address
}

type cgParam struct{ goName, lean, typ string }

type cgFunc struct {
	recv, name, gen string
	decl            *ast.FuncDecl
	recvName        string
	scalar          bool
	shape, res      string
	fuel            bool
	mutual          string // "" / "copy" / "isEqual"
	params          []cgParam
	helpers         []string
	text            string
}

type cgEnv struct {
	heap   string
	locals map[string]cgVal
}

func (e *cgEnv) clone() *cgEnv {
	c := &cgEnv{heap: e.heap, locals: make(map[string]cgVal, len(e.locals))}
	for k, v := range e.locals {
		c.locals[k] = v
	}
	return c
}

func (e *cgEnv) with(name string, v cgVal) *cgEnv {
	c := e.clone()
	if name != "_" && name != "" {
		c.locals[name] = v
	}
	return c
}

func (e *cgEnv) withHeap(h string) *cgEnv {
	c := e.clone()
	c.heap = h
	return c
}

type cgK func(env *cgEnv) lnode
type cgVK func(v cgVal, env *cgEnv) lnode

// one Lean definition under construction (a method or a loop helper)
type cgCtx struct {
	tr         *cgTrans
	fn         *cgFunc
	nh, nt, nr int
	used       map[string]bool // Lean binder names taken in this definition
}

type cgTrans struct {
	p       *pkgInfo
	structs map[string]*ast.StructType
	funcs   map[string]*cgFunc // key recv.name
	order   []*cgFunc
	// number of loops translated per function (names of the helpers)
	loopCount map[string]int
}

var cgTempName = regexp.MustCompile(`^[htr][0-9]+$`)
var cgReserved = map[string]bool{"h": true, "a": true, "fuel": true, "rest": true, "pk": true, "l": true, "val": true}

func cgLeanName(goName string) string {
	if goName == "_" {
		return "_"
	}
	n := leanName(goName)
	if cgReserved[goName] || cgTempName.MatchString(goName) {
		n = goName + "_"
	}
	return n
}

func (c *cgCtx) freshHeap() string { c.nh++; return fmt.Sprintf("h%d", c.nh) }
func (c *cgCtx) freshTemp() string { c.nt++; return fmt.Sprintf("t%d", c.nt) }
func (c *cgCtx) freshRef() string  { c.nr++; return fmt.Sprintf("r%d", c.nr) }

// a Lean binder for a Go local; a second local of the same name in one definition is rejected
func (c *cgCtx) bindName(at ast.Node, goName string) string {
	n := cgLeanName(goName)
	if n == "_" {
		return n
	}
	if c.used[n] {
		failAt(at, "the name %s is bound twice in %s (shadowing is not translated)", goName, c.fn.name)
	}
	c.used[n] = true
	return n
}

// ---------------------------------------------------------------------------------------------
// results, panics, calls

func (c *cgCtx) ret(at ast.Node, v string, env *cgEnv) lnode {
	switch c.fn.shape {
	case "pure":
		return lLeaf{v}
	case "heap":
		return lLeaf{"some (" + env.heap + ", .ok " + paren(v) + ")"}
	case "read":
		return lLeaf{"some (.ok " + paren(v) + ")"}
	}
	failAt(at, "internal: unknown shape %q", c.fn.shape)
	return nil
}

func (c *cgCtx) panicNode(at ast.Node, why string, env *cgEnv) lnode {
	switch c.fn.shape {
	case "heap":
		return lLeaf{"some (" + env.heap + ", .panic .runtime)"}
	case "read":
		return lLeaf{"some (.panic .runtime)"}
	}
	failAt(at, "%s: a run-time panic (%s) in a function translated as pure", c.fn.name, why)
	return nil
}

// bind the result of an effectful call; kind: fheap = Option (Heap × Out T), hout = Heap × Out T,
// fread = Option (Out T).  bind = preferred binder name ("" = temporary, "_" = unused)
func (c *cgCtx) bindCall(at ast.Node, kind, call, resTyp, bind string, env *cgEnv, k cgVK) lnode {
	name := bind
	if name == "" {
		name = c.freshTemp()
	}
	val := cgVal{typ: resTyp, lean: name}
	if resTyp == "ListIf" || resTyp == "ObjIf" {
		val.addr = name + ".addr"
	}
	switch c.fn.shape {
	case "heap":
		switch kind {
		case "fheap":
			hn := c.freshHeap()
			return lMatch{call, []lArm{
				{"none", lLeaf{"none"}},
				{"some (" + hn + ", .panic pk)", lLeaf{"some (" + hn + ", .panic pk)"}},
				{"some (" + hn + ", .ok " + name + ")", k(val, env.withHeap(hn))}}}
		case "hout":
			hn := c.freshHeap()
			return lMatch{call, []lArm{
				{"(" + hn + ", .panic pk)", lLeaf{"some (" + hn + ", .panic pk)"}},
				{"(" + hn + ", .ok " + name + ")", k(val, env.withHeap(hn))}}}
		case "fread":
			return lMatch{call, []lArm{
				{"none", lLeaf{"none"}},
				{"some (.panic pk)", lLeaf{"some (" + env.heap + ", .panic pk)"}},
				{"some (.ok " + name + ")", k(val, env)}}}
		}
	case "read":
		if kind == "fread" {
			return lMatch{call, []lArm{
				{"none", lLeaf{"none"}},
				{"some (.panic pk)", lLeaf{"some (.panic pk)"}},
				{"some (.ok " + name + ")", k(val, env)}}}
		}
		failAt(at, "%s is translated as read-only but calls a function that may change the heap: %s", c.fn.name, src(at))
	}
	failAt(at, "%s is translated as pure but contains the effectful call %s", c.fn.name, src(at))
	return nil
}

func (c *cgCtx) needFuel(at ast.Node) {
	if !c.fn.fuel {
		failAt(at, "%s has no fuel argument but calls a recursive function: %s", c.fn.name, src(at))
	}
}

// ---------------------------------------------------------------------------------------------
// conversions (C3, C4)

func (c *cgCtx) toOptField(at ast.Node, v cgVal) string {
	if v.nilptr {
		return "none"
	}
	switch v.typ {
	case "OptField":
		return paren(v.lean)
	case "Field":
		return "(some " + paren(v.lean) + ")"
	case "ListIf":
		return "(some (.list " + paren(v.lean) + "))"
	case "ObjIf":
		return "(some (.obj " + paren(v.lean) + "))"
	case "ListPtr":
		return "(some (.list ⟨" + v.lean + ", 0⟩))"
	case "ObjPtr":
		return "(some (.obj ⟨" + v.lean + ", 0⟩))"
	case "Nil":
		return "none"
	}
	failAt(at, "cannot pass %s (a %s) as a field / any argument", src(at), v.typ)
	return ""
}

func (c *cgCtx) toGoVal(at ast.Node, v cgVal) string {
	if v.nilptr {
		failAt(at, "a nil pointer converted to any: %s", src(at))
	}
	switch v.typ {
	case "GoVal":
		return v.lean
	case "Str":
		return ".str " + paren(v.lean)
	case "Bool":
		return ".bool " + paren(v.lean)
	case "Int":
		return ".intw .int " + paren(v.lean)
	case "F64":
		return ".f64 " + paren(v.lean)
	case "Nil":
		return ".nil"
	case "ListPtr":
		return ".list ⟨" + v.lean + ", 0⟩"
	case "ObjPtr":
		return ".obj ⟨" + v.lean + ", 0⟩"
	case "ListIf":
		return ".list " + paren(v.lean)
	case "ObjIf":
		return ".obj " + paren(v.lean)
	}
	failAt(at, "cannot convert %s (a %s) to any", src(at), v.typ)
	return ""
}

// the value of a `return e` as the function's result type
func (c *cgCtx) toResult(at ast.Node, v cgVal) string {
	switch c.fn.res {
	case "GoVal":
		return c.toGoVal(at, v)
	case "Bool":
		if v.typ != "Bool" {
			failAt(at, "expected a bool result, got %s", src(at))
		}
		if v.static == 1 {
			return "true"
		}
		if v.static == 2 {
			return "false"
		}
		return v.lean
	case "ListIf":
		switch {
		case v.nilptr:
		case v.typ == "ListPtr":
			return "⟨" + v.lean + ", 0⟩"
		case v.typ == "ListIf":
			return v.lean
		}
	case "ObjIf":
		switch {
		case v.nilptr:
		case v.typ == "ObjPtr":
			return "⟨" + v.lean + ", 0⟩"
		case v.typ == "ObjIf":
			return v.lean
		}
	case "Unit":
		return "()"
	}
	failAt(at, "cannot return %s (a %s) as %s", src(at), v.typ, c.fn.res)
	return ""
}

// ---------------------------------------------------------------------------------------------
// expressions

func cgStatic(b bool) cgVal {
	if b {
		return cgVal{typ: "Bool", lean: "true", static: 1}
	}
	return cgVal{typ: "Bool", lean: "false", static: 2}
}

func (c *cgCtx) recvVal() cgVal {
	switch {
	case c.fn.scalar:
		return cgVal{typ: "ScalarPtr", struc: c.fn.recv, lean: "val"}
	case c.fn.recv == "list":
		return cgVal{typ: "ListPtr", lean: "a"}
	default:
		return cgVal{typ: "ObjPtr", lean: "a"}
	}
}

func (c *cgCtx) lookupIdent(id *ast.Ident, env *cgEnv) (cgVal, bool) {
	switch id.Name {
	case "true":
		return cgStatic(true), true
	case "false":
		return cgStatic(false), true
	case "nil":
		return cgVal{typ: "Nil", lean: "none"}, true
	}
	if id.Name == c.fn.recvName && id.Name != "" {
		return c.recvVal(), true
	}
	v, ok := env.locals[id.Name]
	return v, ok
}

// `x.val`
func (c *cgCtx) fieldVal(at ast.Node, x cgVal, env *cgEnv) (cgVal, bool) {
	if x.nilptr {
		return cgVal{}, false // nil dereference: not a pure expression
	}
	switch x.typ {
	case "ScalarPtr":
		rep := cgReps[x.struc]
		if rep.typ == "" {
			failAt(at, "%s has no field val", x.struc)
		}
		return cgVal{typ: rep.typ, lean: x.lean}, true
	case "ListPtr":
		c.needHeap(at, env)
		return cgVal{typ: "Fields", lean: env.heap + ".items " + paren(x.lean), addr: x.lean}, true
	case "ObjPtr":
		c.needHeap(at, env)
		return cgVal{typ: "Map", lean: env.heap + ".fields " + paren(x.lean), addr: x.lean}, true
	}
	failAt(at, "unrecognised selector %s", src(at))
	return cgVal{}, false
}

func (c *cgCtx) needHeap(at ast.Node, env *cgEnv) {
	if env.heap == "" {
		failAt(at, "%s is translated as pure but reads the heap: %s", c.fn.name, src(at))
	}
}

// the address of the cell a container-typed value denotes
func cgCell(v cgVal) (addr string, list, ok bool) {
	switch v.typ {
	case "ListPtr":
		return v.lean, true, !v.nilptr
	case "ObjPtr":
		return v.lean, false, !v.nilptr
	case "ListIf":
		return v.addr, true, !v.nilptr
	case "ObjIf":
		return v.addr, false, !v.nilptr
	}
	return "", false, false
}

func cgIntLit(e ast.Expr) (string, bool) {
	l, ok := unparen(e).(*ast.BasicLit)
	if !ok || l.Kind != token.INT {
		return "", false
	}
	return l.Value, true
}

// an expression without effect and without a possible panic; ok = false: not of that kind
func (c *cgCtx) pure(e ast.Expr, env *cgEnv) (cgVal, bool) {
	e = unparen(e)
	switch e := e.(type) {
	case *ast.Ident:
		v, ok := c.lookupIdent(e, env)
		if !ok {
			failAt(e, "unknown identifier %s", e.Name)
		}
		return v, true
	case *ast.BasicLit:
		if n, ok := cgIntLit(e); ok {
			return cgVal{typ: "Int", lean: n}, true
		}
		if s, ok := stringLit(e); ok {
			return cgVal{typ: "Str", lean: leanCharList(s)}, true
		}
		failAt(e, "unsupported literal %s", src(e))
	case *ast.SelectorExpr:
		if e.Sel.Name != "val" {
			failAt(e, "unrecognised selector %s", src(e))
		}
		x, ok := c.pure(e.X, env)
		if !ok {
			return cgVal{}, false
		}
		return c.fieldVal(e, x, env)
	case *ast.UnaryExpr:
		if e.Op != token.NOT {
			return cgVal{}, false
		}
		x, ok := c.pure(e.X, env)
		if !ok {
			return cgVal{}, false
		}
		return c.notVal(e, x), true
	case *ast.BinaryExpr:
		switch e.Op {
		case token.LOR, token.LAND:
			x, ok := c.pure(e.X, env)
			if !ok {
				return cgVal{}, false
			}
			if x.typ != "Bool" {
				failAt(e, "operand of %s is not a bool: %s", e.Op, src(e.X))
			}
			// short circuit: the right operand is not evaluated
			if e.Op == token.LOR && x.static == 1 {
				return cgStatic(true), true
			}
			if e.Op == token.LAND && x.static == 2 {
				return cgStatic(false), true
			}
			y, ok := c.pure(e.Y, env)
			if !ok {
				return cgVal{}, false
			}
			if y.typ != "Bool" {
				failAt(e, "operand of %s is not a bool: %s", e.Op, src(e.Y))
			}
			if x.static != 0 {
				return y, true // true && y, false || y
			}
			if y.static != 0 {
				if (e.Op == token.LOR) == (y.static == 1) {
					// x || true, x && false: x is evaluated (it is pure) and the result is constant
					return y, true
				}
				return x, true
			}
			op := "||"
			if e.Op == token.LAND {
				op = "&&"
			}
			return cgVal{typ: "Bool", lean: paren(x.lean) + " " + op + " " + paren(y.lean)}, true
		case token.EQL, token.NEQ:
			x, ok := c.pure(e.X, env)
			if !ok {
				return cgVal{}, false
			}
			y, ok := c.pure(e.Y, env)
			if !ok {
				return cgVal{}, false
			}
			return c.eqVal(e, x, y), true
		case token.ADD, token.SUB:
			x, ok := c.pure(e.X, env)
			if !ok {
				return cgVal{}, false
			}
			y, ok := c.pure(e.Y, env)
			if !ok {
				return cgVal{}, false
			}
			if x.typ != "Int" || y.typ != "Int" {
				failAt(e, "arithmetic on %s", src(e))
			}
			return cgVal{typ: "Int", lean: paren(x.lean) + " " + e.Op.String() + " " + paren(y.lean)}, true
		}
		failAt(e, "unsupported operator in %s", src(e))
	case *ast.IndexExpr:
		x, ok := c.pure(e.X, env)
		if !ok {
			return cgVal{}, false
		}
		if x.typ != "Map" {
			return cgVal{}, false // a slice index may panic
		}
		k, ok := c.pure(e.Index, env)
		if !ok {
			return cgVal{}, false
		}
		if k.typ != "Str" {
			failAt(e, "map index is not a string: %s", src(e))
		}
		return cgVal{typ: "OptField", lean: "lookup " + paren(x.lean) + " " + paren(k.lean)}, true
	case *ast.CallExpr:
		if isIdent(e.Fun, "len") && len(e.Args) == 1 {
			x, ok := c.pure(e.Args[0], env)
			if !ok {
				return cgVal{}, false
			}
			if x.typ != "Fields" && x.typ != "Map" {
				failAt(e, "len of %s", src(e.Args[0]))
			}
			return cgVal{typ: "Int", lean: "(" + paren(x.lean) + ".length : Int)"}, true
		}
		sel, ok := e.Fun.(*ast.SelectorExpr)
		if !ok {
			return cgVal{}, false
		}
		switch sel.Sel.Name {
		case "Ego", "Count", "base":
		default:
			return cgVal{}, false
		}
		if len(e.Args) != 0 {
			failAt(e, "unexpected arguments in %s", src(e))
		}
		x, ok := c.pure(sel.X, env)
		if !ok {
			return cgVal{}, false
		}
		addr, isList, ok := cgCell(x)
		if !ok {
			if x.nilptr {
				return cgVal{}, false
			}
			failAt(e, "method %s on %s", sel.Sel.Name, src(sel.X))
		}
		if sel.Sel.Name == "base" {
			return c.baseOf(e, addr, isList), true
		}
		c.needHeap(e, env)
		c.needMethod(e, isList, sel.Sel.Name)
		if sel.Sel.Name == "Ego" {
			typ := "ObjIf"
			if isList {
				typ = "ListIf"
			}
			return cgVal{typ: typ, lean: env.heap + ".egoRef " + paren(addr), addr: addr}, true
		}
		fn := "O.count"
		if isList {
			fn = "L.count"
		}
		return cgVal{typ: "Int", lean: fn + " " + env.heap + " " + paren(addr)}, true
	}
	return cgVal{}, false
}

// `x.base()`: the innermost implementation of a List / Object value, i.e. the cell it denotes; the
// method must be `return ego` (promoted through embedding, it is never overridden: it is unexported)
func (c *cgCtx) baseOf(at ast.Node, addr string, isList bool) cgVal {
	recv, typ := "object", "ObjPtr"
	if isList {
		recv, typ = "list", "ListPtr"
	}
	c.needMethod(at, isList, "base")
	m := c.tr.p.methods[recv]["base"]
	ft := m.decl.Type
	if len(m.decl.Body.List) != 1 || src(m.decl.Body.List[0]) != "return "+m.recvName || m.recvName == "" ||
		len(ft.Params.List) != 0 || ft.Results == nil || len(ft.Results.List) != 1 ||
		src(ft.Results.List[0].Type) != "*"+recv {
		failAt(at, "(*%s).base is not `func (ego *%s) base() *%s { return ego }`", recv, recv, recv)
	}
	return cgVal{typ: typ, lean: addr}
}

func (c *cgCtx) needMethod(at ast.Node, isList bool, name string) {
	recv := "object"
	if isList {
		recv = "list"
	}
	if c.tr.p.methods[recv] == nil || c.tr.p.methods[recv][name] == nil {
		failAt(at, "(*%s).%s not found", recv, name)
	}
}

func (c *cgCtx) notVal(at ast.Node, x cgVal) cgVal {
	if x.typ != "Bool" {
		failAt(at, "operand of ! is not a bool: %s", src(at))
	}
	switch x.static {
	case 1:
		return cgStatic(false)
	case 2:
		return cgStatic(true)
	}
	return cgVal{typ: "Bool", lean: "!" + paren(x.lean)}
}

func (c *cgCtx) eqVal(e *ast.BinaryExpr, x, y cgVal) cgVal {
	if x.typ != y.typ {
		failAt(e, "comparison of a %s with a %s: %s", x.typ, y.typ, src(e))
	}
	var eq string
	switch x.typ {
	case "Str", "Int":
		eq = paren(x.lean) + " == " + paren(y.lean)
	case "Bool":
		if x.static != 0 || y.static != 0 {
			failAt(e, "comparison with a constant bool: %s", src(e))
		}
		eq = paren(x.lean) + " == " + paren(y.lean)
	case "F64":
		eq = "F64.eqGo " + paren(x.lean) + " " + paren(y.lean)
	default:
		failAt(e, "unsupported comparison %s (of %s)", src(e), x.typ)
	}
	if e.Op == token.NEQ {
		if x.typ == "F64" {
			return cgVal{typ: "Bool", lean: "!(" + eq + ")"}
		}
		return cgVal{typ: "Bool", lean: paren(x.lean) + " != " + paren(y.lean)}
	}
	return cgVal{typ: "Bool", lean: eq}
}

// evaluate an expression; effects and possible panics are emitted around the continuation (C11)
func (c *cgCtx) eval(e ast.Expr, env *cgEnv, k cgVK) lnode {
	e = unparen(e)
	if v, ok := c.pure(e, env); ok {
		return k(v, env)
	}
	switch e := e.(type) {
	case *ast.SelectorExpr: // x.val with x nil, or x not pure
		if e.Sel.Name != "val" {
			failAt(e, "unrecognised selector %s", src(e))
		}
		return c.eval(e.X, env, func(x cgVal, env *cgEnv) lnode {
			if x.nilptr {
				return c.panicNode(e, "nil dereference", env)
			}
			v, ok := c.fieldVal(e, x, env)
			if !ok {
				failAt(e, "unrecognised selector %s", src(e))
			}
			return k(v, env)
		})
	case *ast.UnaryExpr:
		if e.Op == token.NOT {
			return c.eval(e.X, env, func(x cgVal, env *cgEnv) lnode { return k(c.notVal(e, x), env) })
		}
	case *ast.BinaryExpr:
		switch e.Op {
		case token.EQL, token.NEQ:
			return c.eval(e.X, env, func(x cgVal, env *cgEnv) lnode {
				return c.eval(e.Y, env, func(y cgVal, env *cgEnv) lnode { return k(c.eqVal(e, x, y), env) })
			})
		case token.LOR, token.LAND:
			// an operand with an effect: branch (the continuation is duplicated)
			return c.cond(e, env, func(env *cgEnv) lnode { return k(cgStatic(true), env) },
				func(env *cgEnv) lnode { return k(cgStatic(false), env) })
		}
	case *ast.IndexExpr:
		return c.eval(e.X, env, func(x cgVal, env *cgEnv) lnode {
			if x.typ != "Fields" {
				failAt(e, "unsupported index expression %s", src(e))
			}
			return c.eval(e.Index, env, func(i cgVal, env *cgEnv) lnode {
				if i.typ != "Nat" {
					failAt(e, "the index of %s is not a range index", src(e))
				}
				t := c.freshTemp()
				return lMatch{paren(x.lean) + "[" + i.lean + "]?", []lArm{
					{"none", c.panicNode(e, "index out of range", env)},
					{"some " + t, k(cgVal{typ: "Field", lean: t}, env)}}}
			})
		})
	case *ast.TypeAssertExpr:
		return c.assert1(e, env, k)
	case *ast.CallExpr:
		return c.call(e, "", env, k)
	}
	failAt(e, "unsupported expression %s", src(e))
	return nil
}

// a condition: static folding, short-circuit decomposition when an operand has an effect
func (c *cgCtx) cond(e ast.Expr, env *cgEnv, kt, kf cgK) lnode {
	e = unparen(e)
	if v, ok := c.pure(e, env); ok {
		return c.branch(e, v, env, kt, kf)
	}
	if b, ok := e.(*ast.BinaryExpr); ok && (b.Op == token.LOR || b.Op == token.LAND) {
		if b.Op == token.LOR {
			return c.cond(b.X, env, kt, func(env *cgEnv) lnode { return c.cond(b.Y, env, kt, kf) })
		}
		return c.cond(b.X, env, func(env *cgEnv) lnode { return c.cond(b.Y, env, kt, kf) }, kf)
	}
	return c.eval(e, env, func(v cgVal, env *cgEnv) lnode { return c.branch(e, v, env, kt, kf) })
}

func (c *cgCtx) branch(at ast.Node, v cgVal, env *cgEnv, kt, kf cgK) lnode {
	if v.typ != "Bool" {
		failAt(at, "condition is not a bool: %s", src(at))
	}
	switch v.static {
	case 1:
		return kt(env)
	case 2:
		return kf(env)
	}
	return lIf{v.lean, kt(env), kf(env)}
}

// `v.(*T)` with one result (C4)
func (c *cgCtx) assert1(e *ast.TypeAssertExpr, env *cgEnv, k cgVK) lnode {
	target := cgStarName(e.Type)
	if target != "list" && target != "object" {
		failAt(e, "unsupported type assertion %s", src(e))
	}
	return c.eval(e.X, env, func(x cgVal, env *cgEnv) lnode {
		if x.typ != "GoVal" {
			failAt(e, "one-result type assertion on a %s: %s", x.typ, src(e))
		}
		r := c.freshRef()
		ctor, typ := ".list", "ListPtr"
		if target == "object" {
			ctor, typ = ".obj", "ObjPtr"
		}
		bad := c.panicNode(e, "failed type assertion", env)
		return lMatch{x.lean, []lArm{
			{ctor + " " + r, lIf{r + ".lvl == 0", k(cgVal{typ: typ, lean: r + ".addr"}, env), bad}},
			{"_", bad}}}
	})
}

func cgStarName(t ast.Expr) string {
	s, ok := t.(*ast.StarExpr)
	if !ok {
		return ""
	}
	id, ok := s.X.(*ast.Ident)
	if !ok {
		return ""
	}
	return id.Name
}

// evaluate a list of arguments left to right
func (c *cgCtx) evalArgs(args []ast.Expr, env *cgEnv, k func(vs []cgVal, env *cgEnv) lnode) lnode {
	var vs []cgVal
	var step func(i int, env *cgEnv) lnode
	step = func(i int, env *cgEnv) lnode {
		if i == len(args) {
			return k(vs, env)
		}
		return c.eval(args[i], env, func(v cgVal, env *cgEnv) lnode {
			vs = append(vs[:i:i], v)
			return step(i+1, env)
		})
	}
	return step(0, env)
}

// alternating key / value arguments of NewObject / Set (C7)
func (c *cgCtx) pairs(at ast.Node, args []ast.Expr, vs []cgVal) (pairs, odd string) {
	odd = "false"
	if len(vs)%2 == 1 {
		odd = "true"
	}
	var ps []string
	for i := 0; i+1 < len(vs); i += 2 {
		key := "none"
		if vs[i].typ == "Str" {
			key = "some " + paren(vs[i].lean)
		} else if vs[i].typ != "GoVal" && vs[i].typ != "Int" && vs[i].typ != "Bool" && vs[i].typ != "F64" && vs[i].typ != "Nil" {
			failAt(args[i], "unsupported key argument %s", src(args[i]))
		}
		ps = append(ps, "("+key+", "+c.toGoVal(args[i+1], vs[i+1])+")")
	}
	return "[" + strings.Join(ps, ", ") + "]", odd
}

// a call; bind = the Go local the result is assigned to ("" = none)
func (c *cgCtx) call(e *ast.CallExpr, bind string, env *cgEnv, k cgVK) lnode {
	bindLean := ""
	if bind != "" {
		bindLean = c.bindName(e, bind)
	}
	if id, ok := e.Fun.(*ast.Ident); ok {
		switch id.Name {
		case "parseVal":
			if len(e.Args) != 1 {
				failAt(e, "parseVal expects one argument")
			}
			return c.eval(e.Args[0], env, func(g cgVal, env *cgEnv) lnode {
				return c.bindCall(e, "hout", "parseVal "+env.heap+" "+paren(c.toGoVal(e.Args[0], g)), "Field", bindLean, env, k)
			})
		case "NewObject":
			if c.tr.p.funcs["NewObject"] == nil {
				failAt(e, "NewObject not found")
			}
			return c.evalArgs(e.Args, env, func(vs []cgVal, env *cgEnv) lnode {
				ps, odd := c.pairs(e, e.Args, vs)
				return c.bindCall(e, "hout", "O.new "+env.heap+" "+ps+" "+odd, "ObjIf", bindLean, env, k)
			})
		case "make":
			if len(e.Args) != 2 || src(e.Args[0]) != "[]field" {
				failAt(e, "unsupported make: %s", src(e))
			}
			return c.eval(e.Args[1], env, func(n cgVal, env *cgEnv) lnode {
				if n.typ != "Int" {
					failAt(e, "the length of %s is not an int", src(e))
				}
				v := cgVal{typ: "Fields", lean: "List.replicate " + paren(n.lean) + ".toNat Val.nil"}
				return lIf{paren(n.lean) + " < 0", c.panicNode(e, "negative make length", env), k(v, env)}
			})
		}
		failAt(e, "unsupported call %s", src(e))
	}
	sel, ok := e.Fun.(*ast.SelectorExpr)
	if !ok {
		failAt(e, "unsupported call %s", src(e))
	}
	m := sel.Sel.Name
	return c.eval(sel.X, env, func(x cgVal, env *cgEnv) lnode {
		// the receiver is a nil interface / nil pointer: run-time panic (C6)
		if x.nilptr {
			return c.panicNode(e, "nil dereference", env)
		}
		switch x.typ {
		case "OptField":
			t := c.freshTemp()
			return lMatch{x.lean, []lArm{
				{"none", c.panicNode(e, "method call on a nil interface", env)},
				{"some " + t, c.methodCall(e, m, cgVal{typ: "Field", lean: t}, bindLean, env, k)}}}
		}
		return c.methodCall(e, m, x, bindLean, env, k)
	})
}

func (c *cgCtx) methodCall(e *ast.CallExpr, m string, x cgVal, bindLean string, env *cgEnv, k cgVK) lnode {
	switch x.typ {
	case "Field":
		switch m {
		case "copy":
			if len(e.Args) != 0 {
				failAt(e, "unexpected arguments in %s", src(e))
			}
			c.needFuel(e)
			c.tr.needDispatcher(e, "copy")
			return c.bindCall(e, "fheap", "copyGen fuel "+env.heap+" "+paren(x.lean), "GoVal", bindLean, env, k)
		case "isEqual":
			if len(e.Args) != 1 {
				failAt(e, "isEqual expects one argument")
			}
			c.needFuel(e)
			c.tr.needDispatcher(e, "isEqual")
			return c.eval(e.Args[0], env, func(y cgVal, env *cgEnv) lnode {
				return c.bindCall(e, "fread", "isEqualGen fuel "+env.heap+" "+paren(x.lean)+" "+c.toOptField(e.Args[0], y),
					"Bool", bindLean, env, k)
			})
		}
	case "ListPtr", "ObjPtr", "ListIf", "ObjIf":
		addr, isList, _ := cgCell(x)
		recv := "object"
		if isList {
			recv = "list"
		}
		c.needMethod(e, isList, m)
		switch m {
		case "base":
			if len(e.Args) != 0 {
				failAt(e, "unexpected arguments in %s", src(e))
			}
			return k(c.baseOf(e, addr, isList), env)
		case "copy", "isEqual":
			callee := c.tr.funcs[recv+"."+m]
			if callee == nil {
				failAt(e, "(*%s).%s is not translated", recv, m)
			}
			c.needFuel(e)
			if m == "copy" {
				if len(e.Args) != 0 {
					failAt(e, "unexpected arguments in %s", src(e))
				}
				return c.bindCall(e, "fheap", callee.gen+" fuel "+env.heap+" "+paren(addr), "GoVal", bindLean, env, k)
			}
			if len(e.Args) != 1 {
				failAt(e, "isEqual expects one argument")
			}
			return c.eval(e.Args[0], env, func(y cgVal, env *cgEnv) lnode {
				return c.bindCall(e, "fread", callee.gen+" fuel "+env.heap+" "+paren(addr)+" "+c.toOptField(e.Args[0], y),
					"Bool", bindLean, env, k)
			})
		case "Set":
			if isList {
				break
			}
			return c.evalArgs(e.Args, env, func(vs []cgVal, env *cgEnv) lnode {
				ps, odd := c.pairs(e, e.Args, vs)
				return c.bindCall(e, "hout", "O.set "+env.heap+" "+paren(addr)+" "+ps+" "+odd, "ObjIf", bindLean, env, k)
			})
		}
	}
	failAt(e, "unsupported method call %s", src(e))
	return nil
}

// ---------------------------------------------------------------------------------------------
// statements

func (c *cgCtx) execList(list []ast.Stmt, env *cgEnv, k cgK) lnode {
	if len(list) == 0 {
		return k(env)
	}
	return c.execStmt(list[0], list[1:], env, k)
}

func cgHasReturn(n ast.Node) bool {
	found := false
	ast.Inspect(n, func(n ast.Node) bool {
		if _, ok := n.(*ast.ReturnStmt); ok {
			found = true
		}
		return !found
	})
	return found
}

func (c *cgCtx) execStmt(st ast.Stmt, rest []ast.Stmt, env *cgEnv, k cgK) lnode {
	next := func(env *cgEnv) lnode { return c.execList(rest, env, k) }
	switch st := st.(type) {
	case *ast.ReturnStmt:
		if len(st.Results) != 1 {
			failAt(st, "expected one result in %s", src(st))
		}
		if len(rest) != 0 {
			failAt(rest[0], "unreachable statement behind a return")
		}
		return c.eval(st.Results[0], env, func(v cgVal, env *cgEnv) lnode {
			return c.ret(st, c.toResult(st.Results[0], v), env)
		})
	case *ast.IfStmt:
		if st.Init != nil || st.Else != nil {
			failAt(st, "unsupported if statement (init / else)")
		}
		return c.cond(st.Cond, env,
			func(env *cgEnv) lnode {
				return c.execList(st.Body.List, env, func(env *cgEnv) lnode { return next(env) })
			},
			next)
	case *ast.ExprStmt:
		call, ok := st.X.(*ast.CallExpr)
		if !ok {
			failAt(st, "unsupported statement %s", src(st))
		}
		return c.call(call, "_", env, func(_ cgVal, env *cgEnv) lnode { return next(env) })
	case *ast.AssignStmt:
		return c.execAssign(st, rest, env, k)
	case *ast.RangeStmt:
		if st.Tok != token.DEFINE && (st.Key != nil || st.Value != nil) {
			failAt(st, "range loop that assigns existing variables")
		}
		key, val := "", ""
		if st.Key != nil {
			key = st.Key.(*ast.Ident).Name
		}
		if st.Value != nil {
			val = st.Value.(*ast.Ident).Name
		}
		return c.execLoop(st, st.X, key, val, st.Body.List, rest, env, k)
	case *ast.ForStmt:
		// for i := 0; i < len(x.val); i++  is  for i := range x.val  (C10)
		x, i := cgCountedLoop(st)
		if x == nil {
			failAt(st, "unsupported loop header: %s", src(st))
		}
		return c.execLoop(st, x, i, "", st.Body.List, rest, env, k)
	}
	failAt(st, "unsupported statement %s", src(st))
	return nil
}

// recognise `for i := 0; i < len(X); i++` (post: i++ / i += 1 / i = i + 1) whose body does not store to X
func cgCountedLoop(st *ast.ForStmt) (ast.Expr, string) {
	init, ok := st.Init.(*ast.AssignStmt)
	if !ok || init.Tok != token.DEFINE || len(init.Lhs) != 1 || len(init.Rhs) != 1 || src(init.Rhs[0]) != "0" {
		return nil, ""
	}
	id, ok := init.Lhs[0].(*ast.Ident)
	if !ok {
		return nil, ""
	}
	i := id.Name
	cond, ok := st.Cond.(*ast.BinaryExpr)
	if !ok || cond.Op != token.LSS || !isIdent(cond.X, i) {
		return nil, ""
	}
	ln, ok := cond.Y.(*ast.CallExpr)
	if !ok || !isIdent(ln.Fun, "len") || len(ln.Args) != 1 {
		return nil, ""
	}
	x := ln.Args[0]
	switch src(st.Post) {
	case i + "++", i + " += 1", i + " = " + i + " + 1":
	default:
		return nil, ""
	}
	// the body must neither store to X (its length is re-read in every iteration) nor assign i
	bad := false
	ast.Inspect(st.Body, func(n ast.Node) bool {
		switch n := n.(type) {
		case *ast.AssignStmt:
			for _, l := range n.Lhs {
				if strings.HasPrefix(src(l), src(x)) || isIdent(l, i) {
					bad = true
				}
			}
		case *ast.IncDecStmt:
			if isIdent(n.X, i) || strings.HasPrefix(src(n.X), src(x)) {
				bad = true
			}
		case *ast.CallExpr:
			if isIdent(n.Fun, "append") || isIdent(n.Fun, "delete") || isIdent(n.Fun, "copy") {
				bad = true
			}
		}
		return !bad
	})
	if bad {
		return nil, ""
	}
	return x, i
}

func (c *cgCtx) execAssign(st *ast.AssignStmt, rest []ast.Stmt, env *cgEnv, k cgK) lnode {
	next := func(env *cgEnv) lnode { return c.execList(rest, env, k) }
	// x, ok := v.(*T)
	if st.Tok == token.DEFINE && len(st.Lhs) == 2 && len(st.Rhs) == 1 {
		ta, ok := st.Rhs[0].(*ast.TypeAssertExpr)
		if !ok {
			failAt(st, "unsupported assignment %s", src(st))
		}
		return c.assert2(st, ta, st.Lhs[0].(*ast.Ident).Name, st.Lhs[1].(*ast.Ident).Name, env, next)
	}
	if len(st.Lhs) != 1 || len(st.Rhs) != 1 {
		failAt(st, "unsupported assignment %s", src(st))
	}
	if st.Tok == token.DEFINE {
		name := st.Lhs[0].(*ast.Ident).Name
		// s := make(…); …s[i]…; x := &T{val: s}; x.Init(x)   (C8a)
		if moved := cgAllocFirst(st, rest); moved != nil {
			return c.execList(moved, env, k)
		}
		// x := &list{val: e}; x.Init(x)   (C8)
		if u, ok := st.Rhs[0].(*ast.UnaryExpr); ok && u.Op == token.AND {
			return c.alloc(st, name, u, rest, env, k)
		}
		if call, ok := unparen(st.Rhs[0]).(*ast.CallExpr); ok {
			if _, isPure := c.pure(call, env); !isPure {
				return c.call(call, name, env, func(v cgVal, env *cgEnv) lnode { return next(env.with(name, v)) })
			}
		}
		return c.eval(st.Rhs[0], env, func(v cgVal, env *cgEnv) lnode {
			if name != "_" {
				c.bindName(st, name) // reserves the name: a later re-declaration is rejected
			}
			return next(env.with(name, v))
		})
	}
	if st.Tok != token.ASSIGN {
		failAt(st, "unsupported assignment %s", src(st))
	}
	// x.val[i] = v   (C9)
	ix, ok := st.Lhs[0].(*ast.IndexExpr)
	if !ok {
		failAt(st, "unsupported assignment %s", src(st))
	}
	return c.eval(ix.X, env, func(xs cgVal, env *cgEnv) lnode {
		if xs.typ == "Map" && xs.addr != "" {
			// x.val[k] = v on the map of an object cell   (C9)
			return c.eval(ix.Index, env, func(key cgVal, env *cgEnv) lnode {
				if key.typ != "Str" {
					failAt(st, "the key of the store %s is not a string", src(st))
				}
				return c.eval(st.Rhs[0], env, func(v cgVal, env *cgEnv) lnode {
					if v.typ != "Field" {
						failAt(st, "the stored value of %s is not a field", src(st))
					}
					fields := env.heap + ".fields " + paren(xs.addr)
					h2 := env.heap + ".setFields " + paren(xs.addr) + " (setKV (" + fields + ") " + paren(key.lean) + " " + paren(v.lean) + ")"
					return next(env.withHeap("(" + h2 + ")"))
				})
			})
		}
		if xs.typ != "Fields" || xs.addr == "" {
			failAt(st, "unsupported store %s", src(st))
		}
		return c.eval(ix.Index, env, func(i cgVal, env *cgEnv) lnode {
			if i.typ != "Nat" {
				failAt(st, "the index of the store %s is not a range index", src(st))
			}
			return c.eval(st.Rhs[0], env, func(v cgVal, env *cgEnv) lnode {
				if v.typ != "Field" {
					failAt(st, "the stored value of %s is not a field", src(st))
				}
				items := env.heap + ".items " + paren(xs.addr)
				h2 := env.heap + ".setItems " + paren(xs.addr) + " ((" + items + ").set " + i.lean + " " + paren(v.lean) + ")"
				return lIf{i.lean + " < (" + items + ").length", next(env.withHeap("(" + h2 + ")")),
					c.panicNode(st, "index out of range", env)}
			})
		})
	})
}

// x, ok := v.(*T) on an Option Val (C4)
func (c *cgCtx) assert2(st ast.Stmt, ta *ast.TypeAssertExpr, x, okName string, env *cgEnv, next cgK) lnode {
	if id, ok := ta.Type.(*ast.Ident); ok && (id.Name == "List" || id.Name == "Object") {
		return c.assertIface(st, ta, id.Name, x, okName, env, next)
	}
	target := cgStarName(ta.Type)
	rep, known := cgReps[target]
	if !known {
		failAt(ta, "unsupported type assertion %s", src(ta))
	}
	if c.tr.structs[target] == nil {
		failAt(ta, "struct type %s not found", target)
	}
	return c.eval(ta.X, env, func(v cgVal, env *cgEnv) lnode {
		if v.typ != "OptField" {
			failAt(ta, "two-result type assertion on a %s: %s", v.typ, src(ta))
		}
		if okName != "_" {
			c.bindName(st, okName)
		}
		var nilv cgVal
		switch target {
		case "list":
			nilv = cgVal{typ: "ListPtr", nilptr: true}
		case "object":
			nilv = cgVal{typ: "ObjPtr", nilptr: true}
		default:
			nilv = cgVal{typ: "ScalarPtr", struc: target, nilptr: true}
		}
		bad := func() lnode { return next(env.with(x, nilv).with(okName, cgStatic(false))) }
		switch target {
		case "list", "object":
			if x != "_" {
				c.bindName(st, x)
			}
			r := c.freshRef()
			good := next(env.with(x, cgVal{typ: nilv.typ, lean: r + ".addr"}).with(okName, cgStatic(true)))
			return lMatch{v.lean, []lArm{
				{"some (" + rep.ctor + " " + r + ")", lIf{r + ".lvl == 0", good, bad()}},
				{"_", bad()}}}
		case "atNil":
			good := next(env.with(x, cgVal{typ: "ScalarPtr", struc: target, lean: "()"}).with(okName, cgStatic(true)))
			return lMatch{v.lean, []lArm{{"some " + rep.ctor, good}, {"_", bad()}}}
		}
		b := c.bindName(st, x)
		good := next(env.with(x, cgVal{typ: "ScalarPtr", struc: target, lean: b}).with(okName, cgStatic(true)))
		return lMatch{v.lean, []lArm{{"some (" + rep.ctor + " " + b + ")", good}, {"_", bad()}}}
	})
}

// x, ok := v.(List) / v.(Object) on an Option Val: succeeds iff the value is a list / object reference
// of any embedding level (every derived type embeds the interface and so implements it)   (C4)
func (c *cgCtx) assertIface(st ast.Stmt, ta *ast.TypeAssertExpr, iface, x, okName string, env *cgEnv, next cgK) lnode {
	if c.tr.p.interfaces[iface] == nil {
		failAt(ta, "interface %s not found", iface)
	}
	typ, ctor := "ListIf", ".list"
	if iface == "Object" {
		typ, ctor = "ObjIf", ".obj"
	}
	return c.eval(ta.X, env, func(v cgVal, env *cgEnv) lnode {
		if v.typ != "OptField" {
			failAt(ta, "two-result type assertion on a %s: %s", v.typ, src(ta))
		}
		if okName != "_" {
			c.bindName(st, okName)
		}
		b := "_"
		if x != "_" {
			b = c.bindName(st, x)
		}
		good := next(env.with(x, cgVal{typ: typ, lean: b, addr: b + ".addr"}).with(okName, cgStatic(true)))
		bad := next(env.with(x, cgVal{typ: typ, nilptr: true}).with(okName, cgStatic(false)))
		return lMatch{v.lean, []lArm{{"some (" + ctor + " " + b + ")", good}, {"_", bad}}}
	})
}

// x := &list{val: e}; x.Init(x)   /   x := &object{val: map[string]field{}}; x.Init(x)   (C8)
func (c *cgCtx) alloc(st *ast.AssignStmt, name string, u *ast.UnaryExpr, rest []ast.Stmt, env *cgEnv, k cgK) lnode {
	lit, ok := u.X.(*ast.CompositeLit)
	if !ok || !(isIdent(lit.Type, "list") || isIdent(lit.Type, "object")) || len(lit.Elts) != 1 {
		failAt(st, "unsupported allocation %s", src(st))
	}
	recv := lit.Type.(*ast.Ident).Name
	kv, ok := lit.Elts[0].(*ast.KeyValueExpr)
	if !ok || !isIdent(kv.Key, "val") {
		failAt(st, "unsupported allocation %s", src(st))
	}
	if len(rest) == 0 || src(rest[0]) != name+".Init("+name+")" {
		failAt(st, "expected %s.Init(%s) immediately behind %s", name, name, src(st))
	}
	init := c.tr.p.methods[recv]["Init"]
	if init == nil || len(init.decl.Body.List) != 1 || len(init.decl.Type.Params.List) != 1 ||
		len(init.decl.Type.Params.List[0].Names) != 1 ||
		src(init.decl.Body.List[0]) != init.recvName+".ptr = "+init.decl.Type.Params.List[0].Names[0].Name {
		failAt(st, "(*%s).Init is not `ego.ptr = ptr`", recv)
	}
	if recv == "object" {
		if !cgEmptyMap.MatchString(src(kv.Value)) {
			failAt(st, "the val of %s is not an empty map[string]field", src(st))
		}
		b := c.bindName(st, name)
		hn := c.freshHeap()
		env2 := env.withHeap(hn).with(name, cgVal{typ: "ObjPtr", lean: b})
		return lLet{b, env.heap + ".length", lLet{hn, env.heap + " ++ [Cell.obj [] 0]",
			c.execList(rest[1:], env2, k)}}
	}
	return c.eval(kv.Value, env, func(v cgVal, env *cgEnv) lnode {
		if v.typ != "Fields" {
			failAt(st, "the val of %s is not a []field", src(st))
		}
		b := c.bindName(st, name)
		hn := c.freshHeap()
		env2 := env.withHeap(hn).with(name, cgVal{typ: "ListPtr", lean: b})
		return lLet{b, env.heap + ".length", lLet{hn, env.heap + " ++ [Cell.list (" + v.lean + ") 0]",
			c.execList(rest[1:], env2, k)}}
	})
}

// cgAllocFirst implements C8a.  `st` is `s := make(…)`; if the statements behind it have the form
//
//	B…; x := &T{f: s}; x.Init(x); R…
//
// where B mentions `s` only as the operand of index expressions `s[i]`, B and the `make` expression do not mention the
// name `x` (neither as a variable nor as the type it may shadow), and R does not mention `s`, the result is
//
//	x := &T{f: make(…)}; x.Init(x); B[s[i] ↦ x.f[i]]…; R…
//
// (on a copy of the statements; nil if the form is not present).
func cgAllocFirst(st *ast.AssignStmt, rest []ast.Stmt) []ast.Stmt {
	sId, ok := st.Lhs[0].(*ast.Ident)
	mk, isCall := unparen(st.Rhs[0]).(*ast.CallExpr)
	if !ok || sId.Name == "_" || !isCall || !isIdent(mk.Fun, "make") {
		return nil
	}
	s := sId.Name
	for j := 0; j+1 < len(rest); j++ {
		a, ok := rest[j].(*ast.AssignStmt)
		if !ok || a.Tok != token.DEFINE || len(a.Lhs) != 1 || len(a.Rhs) != 1 {
			continue
		}
		xId, ok := a.Lhs[0].(*ast.Ident)
		u, isAddr := a.Rhs[0].(*ast.UnaryExpr)
		if !ok || !isAddr || u.Op != token.AND {
			continue
		}
		lit, ok := u.X.(*ast.CompositeLit)
		if !ok || len(lit.Elts) != 1 {
			continue
		}
		kv, ok := lit.Elts[0].(*ast.KeyValueExpr)
		if !ok || !isIdent(kv.Value, s) {
			continue
		}
		f, ok := kv.Key.(*ast.Ident)
		if !ok {
			continue
		}
		x := xId.Name
		if _, isType := lit.Type.(*ast.Ident); !isType || x == "_" || x == s || src(rest[j+1]) != x+".Init("+x+")" {
			return nil
		}
		if identOccurs(mk, x) != 0 || identOccurs(mk, s) != 0 {
			return nil
		}
		uses, indexed := 0, 0
		for _, b := range rest[:j] {
			uses += identOccurs(b, s)
			if identOccurs(b, x) != 0 {
				return nil
			}
			ast.Inspect(b, func(n ast.Node) bool {
				if ix, ok := n.(*ast.IndexExpr); ok && isIdent(ix.X, s) {
					indexed++
				}
				return true
			})
		}
		if uses != indexed {
			return nil
		}
		for _, r := range rest[j+2:] {
			if identOccurs(r, s) != 0 {
				return nil
			}
		}
		moved := copyStmts(rest)
		alloc := moved[j].(*ast.AssignStmt)
		alloc.Rhs[0].(*ast.UnaryExpr).X.(*ast.CompositeLit).Elts[0].(*ast.KeyValueExpr).Value = copyExpr(st.Rhs[0])
		for _, b := range moved[:j] {
			ast.Inspect(b, func(n ast.Node) bool {
				if ix, ok := n.(*ast.IndexExpr); ok && isIdent(ix.X, s) {
					ix.X = &ast.SelectorExpr{X: &ast.Ident{NamePos: ix.X.Pos(), Name: x}, Sel: &ast.Ident{NamePos: ix.X.Pos(), Name: f.Name}}
				}
				return true
			})
		}
		out := []ast.Stmt{alloc, moved[j+1]}
		out = append(out, moved[:j]...)
		return append(out, moved[j+2:]...)
	}
	return nil
}

// an empty, non-nil map[string]field; a capacity hint that is syntactically a length cannot be negative (C8)
var cgEmptyMap = regexp.MustCompile(`^(map\[string\]field\{\}|make\(map\[string\]field(, len\([A-Za-z_][A-Za-z0-9_.]*\))?\))$`)

// ---------------------------------------------------------------------------------------------
// loops (C10)

func (c *cgCtx) execLoop(st ast.Stmt, x ast.Expr, key, val string, body, rest []ast.Stmt, env *cgEnv, k cgK) lnode {
	if c.fn.shape == "pure" {
		failAt(st, "a loop in a function translated as pure")
	}
	xs, ok := c.pure(x, env)
	if !ok || (xs.typ != "Fields" && xs.typ != "Map") {
		failAt(st, "unsupported range expression %s", src(x))
	}
	search := false
	for _, b := range body {
		if cgHasReturn(b) {
			search = true
		}
	}
	if !search && c.fn.shape != "heap" {
		failAt(st, "a loop without effect on the result in a read-only function")
	}
	// the variables the helper needs: the receiver and the locals mentioned in the body (and behind a search loop)
	var captured []string
	seen := map[string]bool{key: true, val: true}
	usesRecv := false
	scan := func(n ast.Node) {
		var visit func(n ast.Node) bool
		visit = func(n ast.Node) bool {
			switch n := n.(type) {
			case *ast.SelectorExpr: // only the operand of a selector is a variable
				ast.Inspect(n.X, visit)
				return false
			case *ast.KeyValueExpr:
				ast.Inspect(n.Value, visit)
				return false
			case *ast.Ident:
				if n.Name == c.fn.recvName {
					usesRecv = true
				} else if _, isLocal := env.locals[n.Name]; isLocal && !seen[n.Name] {
					seen[n.Name] = true
					captured = append(captured, n.Name)
				}
			}
			return true
		}
		ast.Inspect(n, visit)
	}
	for _, b := range body {
		scan(b)
	}
	if search {
		for _, r := range rest {
			scan(r)
		}
	}
	// the helper definition
	c.tr.loopCount[c.fn.gen]++
	suffix := ""
	if n := c.tr.loopCount[c.fn.gen]; n > 1 {
		suffix = fmt.Sprint(n)
	}
	hname := strings.TrimSuffix(c.fn.gen, "Gen") + "Loop" + suffix + "Gen"
	hc := &cgCtx{tr: c.tr, fn: &cgFunc{recv: c.fn.recv, name: c.fn.name + " (loop)", gen: hname, decl: c.fn.decl,
		recvName: c.fn.recvName, scalar: c.fn.scalar, shape: c.fn.shape, res: c.fn.res, fuel: c.fn.fuel},
		used: map[string]bool{}}
	if !search {
		hc.fn.res = "Unit"
	}
	henv := &cgEnv{heap: "h", locals: map[string]cgVal{}}
	var sigTypes, pats, callArgs, measure []string
	addParam := func(typ, pat, arg, m string) {
		sigTypes = append(sigTypes, typ)
		pats = append(pats, pat)
		callArgs = append(callArgs, arg)
		measure = append(measure, m)
	}
	if c.fn.fuel {
		addParam("Nat", "fuel", "fuel", "fuel")
	}
	addParam("Heap", "h", env.heap, "_")
	if usesRecv {
		addParam("Nat", "a", "a", "_")
	}
	for _, name := range captured {
		v := env.locals[name]
		if v.nilptr || v.static != 0 {
			continue // a constant on this path: the helper sees the same constant
		}
		lt, ok := cgLeanType[v.typ]
		if !ok {
			failAt(st, "the loop body mentions %s, a %s", name, v.typ)
		}
		b := hc.bindName(st, name)
		addParam(lt, b, paren(v.lean), "_")
		hv := v
		hv.lean = b
		if v.typ == "ListIf" || v.typ == "ObjIf" {
			hv.addr = b + ".addr"
		}
		henv.locals[name] = hv
	}
	for name, v := range env.locals {
		if v.nilptr || v.static != 0 {
			henv.locals[name] = v
		}
	}
	elemType, consPat := "List Val", ""
	var keyB, valB string
	if key != "" && key != "_" {
		keyB = hc.bindName(st, key)
	}
	if val != "" && val != "_" {
		valB = hc.bindName(st, val)
	}
	orUnderscore := func(s string) string {
		if s == "" {
			return "_"
		}
		return s
	}
	hasIndex := false
	benv := henv.clone()
	if xs.typ == "Fields" {
		consPat = orUnderscore(valB) + " :: rest"
		if valB != "" {
			benv.locals[val] = cgVal{typ: "Field", lean: valB}
		}
		if keyB != "" {
			hasIndex = true
			benv.locals[key] = cgVal{typ: "Nat", lean: keyB}
		}
	} else {
		elemType = "List (Str × Val)"
		consPat = "(" + orUnderscore(keyB) + ", " + orUnderscore(valB) + ") :: rest"
		if keyB != "" {
			benv.locals[key] = cgVal{typ: "Str", lean: keyB}
		}
		if valB != "" {
			benv.locals[val] = cgVal{typ: "Field", lean: valB}
		}
	}
	listPos := len(pats)
	addParam(elemType, "", paren(xs.lean), "l")
	if hasIndex {
		addParam("Nat", keyB, "0", "_")
	}
	// the recursive call at the end of an iteration
	recurse := func(env *cgEnv) lnode {
		args := make([]string, len(pats))
		for i, p := range pats {
			args[i] = p
		}
		for i := range args {
			if sigTypes[i] == "Heap" {
				args[i] = env.heap
			}
		}
		args[listPos] = "rest"
		if hasIndex {
			args[len(args)-1] = "(" + keyB + " + 1)"
		}
		return lLeaf{hname + " " + strings.Join(args, " ")}
	}
	consBody := hc.execList(body, benv, recurse)
	var nilBody lnode
	if search {
		nilBody = hc.execList(rest, henv, func(*cgEnv) lnode {
			failAt(st, "missing return behind the loop")
			return nil
		})
	} else {
		nilBody = hc.ret(st, "()", henv)
	}
	resLean := cgResultType(hc.fn.shape, hc.fn.res)
	var b strings.Builder
	kind := "heap loop"
	if search {
		kind = "search loop"
	}
	fmt.Fprintf(&b, "/-- the loop of `%s` at %s (%s) -/\n", c.fn.name, where(st), kind)
	fmt.Fprintf(&b, "def %s : %s → %s\n", hname, strings.Join(sigTypes, " → "), resLean)
	nilPats := append([]string(nil), pats...)
	nilPats[listPos] = "[]"
	consPats := append([]string(nil), pats...)
	consPats[listPos] = consPat
	fmt.Fprintf(&b, "  | %s =>\n    ", strings.Join(nilPats, ", "))
	emit(&b, nilBody, "    ")
	fmt.Fprintf(&b, "\n  | %s =>\n    ", strings.Join(consPats, ", "))
	emit(&b, consBody, "    ")
	b.WriteString("\n")
	if c.fn.fuel {
		fmt.Fprintf(&b, "termination_by %s => (fuel, 1, l.length)\n", strings.Join(measure, " "))
	}
	c.fn.helpers = append(c.fn.helpers, hc.fn.helpers...)
	c.fn.helpers = append(c.fn.helpers, b.String())
	// the call
	call := hname + " " + strings.Join(callArgs, " ")
	if search {
		return lLeaf{call}
	}
	return c.bindCall(st, "fheap", call, "Unit", "_", env, func(_ cgVal, env *cgEnv) lnode { return c.execList(rest, env, k) })
}

func cgResultType(shape, res string) string {
	t := cgLeanType[res]
	switch shape {
	case "heap":
		return "Option (Heap × Out " + paren(t) + ")"
	case "read":
		return "Option (Out " + paren(t) + ")"
	}
	return t
}

// ---------------------------------------------------------------------------------------------
// functions

func (t *cgTrans) needDispatcher(at ast.Node, m string) {
	for _, s := range cgCtorOrder {
		if t.funcs[s+"."+m] == nil {
			failAt(at, "no translated method %s of %s for the dispatcher", m, s)
		}
	}
}

func (t *cgTrans) addFunc(recv, name string) *cgFunc {
	ms := t.p.methods[recv]
	if ms == nil || ms[name] == nil {
		failAt(nil, "method (*%s).%s not found", recv, name)
	}
	m := ms[name]
	rep := cgReps[recv]
	f := &cgFunc{recv: recv, name: name, decl: m.decl, recvName: m.recvName,
		gen: recv + strings.ToUpper(name[:1]) + name[1:] + "Gen"}
	f.scalar = rep.typ != "Fields" && rep.typ != "Map"
	var sh cgShape
	var ok bool
	if f.scalar {
		sh, ok = cgScalarShape[name]
	} else {
		sh, ok = cgContainerShape[name]
		f.fuel = true
		if name == "copy" || name == "isEqual" {
			f.mutual = name
		}
	}
	if !ok {
		failAt(m.decl, "no shape for (*%s).%s", recv, name)
	}
	f.shape, f.res = sh.shape, sh.res
	// the receiver must be a pointer
	if _, isStar := m.decl.Recv.List[0].Type.(*ast.StarExpr); !isStar {
		failAt(m.decl, "(%s).%s: the receiver is not a pointer", recv, name)
	}
	// parameters and result
	ft := m.decl.Type
	for _, p := range ft.Params.List {
		for _, n := range p.Names {
			var typ string
			switch src(p.Type) {
			case "any", "field":
				typ = "OptField"
			case "List":
				typ = "ListIf"
			case "Object":
				typ = "ObjIf"
			default:
				failAt(p, "(*%s).%s: unsupported parameter type %s", recv, name, src(p.Type))
			}
			f.params = append(f.params, cgParam{n.Name, cgLeanName(n.Name), typ})
		}
	}
	if ft.Results == nil || len(ft.Results.List) != 1 || len(ft.Results.List[0].Names) != 0 {
		failAt(m.decl, "(*%s).%s: expected one unnamed result", recv, name)
	}
	var want string
	switch src(ft.Results.List[0].Type) {
	case "any":
		want = "GoVal"
	case "bool":
		want = "Bool"
	case "List":
		want = "ListIf"
	case "Object":
		want = "ObjIf"
	default:
		failAt(m.decl, "(*%s).%s: unsupported result type %s", recv, name, src(ft.Results.List[0].Type))
	}
	if f.res == "" {
		f.res = want
	}
	if f.res != want {
		failAt(m.decl, "(*%s).%s: result type %s, expected %s", recv, name, src(ft.Results.List[0].Type), f.res)
	}
	// the struct's val field (C1)
	st := t.structs[recv]
	if st == nil {
		failAt(m.decl, "struct type %s not found", recv)
	}
	valType := ""
	for _, fl := range st.Fields.List {
		for _, n := range fl.Names {
			if n.Name == "val" {
				valType = src(fl.Type)
			}
		}
	}
	if valType != rep.goPayload {
		failAt(st, "struct %s: field val has type %q, the model expects %q", recv, valType, rep.goPayload)
	}
	t.funcs[recv+"."+name] = f
	t.order = append(t.order, f)
	return f
}

func (t *cgTrans) translate(f *cgFunc) {
	c := &cgCtx{tr: t, fn: f, used: map[string]bool{}}
	env := &cgEnv{locals: map[string]cgVal{}}
	if !f.scalar {
		env.heap = "h"
	}
	for _, p := range f.params {
		c.used[p.lean] = true
		v := cgVal{typ: p.typ, lean: p.lean}
		if p.typ == "ListIf" || p.typ == "ObjIf" {
			v.addr = p.lean + ".addr"
		}
		env.locals[p.goName] = v
	}
	body := c.execList(f.decl.Body.List, env, func(*cgEnv) lnode {
		failAt(f.decl, "(*%s).%s: missing return", f.recv, f.name)
		return nil
	})
	var b strings.Builder
	fmt.Fprintf(&b, "/-- `(*%s).%s` (%s) -/\n", f.recv, f.name, where(f.decl))
	resLean := cgResultType(f.shape, f.res)
	if f.mutual != "" {
		types := []string{"Nat", "Heap", "Nat"}
		pats := []string{"fuel", "h", "a"}
		meas := []string{"fuel", "_", "_"}
		for _, p := range f.params {
			types = append(types, paren(cgLeanType[p.typ]))
			pats = append(pats, p.lean)
			meas = append(meas, "_")
		}
		fmt.Fprintf(&b, "def %s : %s → %s\n  | %s =>\n    ", f.gen, strings.Join(types, " → "), resLean, strings.Join(pats, ", "))
		emit(&b, body, "    ")
		fmt.Fprintf(&b, "\ntermination_by %s => (fuel, 2, 0)\n", strings.Join(meas, " "))
	} else {
		var binders []string
		if f.scalar {
			if cgReps[f.recv].typ != "" {
				binders = append(binders, "(val : "+cgLeanType[cgReps[f.recv].typ]+")")
			}
		} else {
			binders = append(binders, "(fuel : Nat)", "(h : Heap)", "(a : Nat)")
		}
		for _, p := range f.params {
			binders = append(binders, "("+p.lean+" : "+cgLeanType[p.typ]+")")
		}
		sep := " "
		if len(binders) == 0 {
			sep = ""
		}
		fmt.Fprintf(&b, "def %s%s%s : %s :=\n  ", f.gen, sep, strings.Join(binders, " "), resLean)
		emit(&b, body, "  ")
		b.WriteString("\n")
	}
	f.text = b.String()
}

// the dispatcher of an interface method over the constructors of Val (C6)
func (t *cgTrans) dispatcher(m string) string {
	var b strings.Builder
	name := m + "Gen"
	extraT, extraP, extraM := "", "", ""
	res := ""
	for i, s := range cgCtorOrder {
		f := t.funcs[s+"."+m]
		if f == nil {
			failAt(nil, "no translated method %s of %s for the dispatcher", m, s)
		}
		if i == 0 {
			for _, p := range f.params {
				extraT += " → " + paren(cgLeanType[p.typ])
				extraP += ", " + p.lean
				extraM += " _"
			}
			res = f.res
		}
		if f.res != res {
			failAt(f.decl, "the result type of %s differs between the implementations", m)
		}
	}
	// every type with this method must be in the table
	for recv, ms := range t.p.methods {
		if ms[m] != nil {
			if _, ok := cgReps[recv]; !ok {
				failAt(ms[m].decl, "type %s implements %s but is not one of the seven field types", recv, m)
			}
		}
	}
	shape := t.funcs["list."+m].shape
	resLean := cgResultType(shape, res)
	wrap := func(v string) string {
		if shape == "heap" {
			return "some (h, .ok " + paren(v) + ")"
		}
		return "some (.ok " + paren(v) + ")"
	}
	fmt.Fprintf(&b, "/-- `v.%s(…)` on a stored field: dispatch over the dynamic type (C6) -/\n", m)
	fmt.Fprintf(&b, "def %s : Nat → Heap → Val%s → %s\n", name, extraT, resLean)
	args := strings.ReplaceAll(extraP, ", ", " ")
	for _, s := range cgCtorOrder {
		f := t.funcs[s+"."+m]
		rep := cgReps[s]
		if !f.scalar {
			continue
		}
		if f.shape != "pure" {
			failAt(f.decl, "(*%s).%s is not pure", s, m)
		}
		if rep.typ == "" {
			fmt.Fprintf(&b, "  | _, h, %s%s => %s\n", rep.ctor, extraP, wrap(strings.TrimSpace(f.gen+args)))
		} else {
			fmt.Fprintf(&b, "  | _, h, %s %s%s => %s\n", rep.ctor, rep.binder, extraP, wrap(f.gen+" "+rep.binder+args))
		}
	}
	under := strings.Repeat(", _", strings.Count(extraP, ","))
	fmt.Fprintf(&b, "  | 0, _, .list _%s => none\n  | 0, _, .obj _%s => none\n", under, under)
	for _, s := range []string{"list", "object"} {
		f := t.funcs[s+"."+m]
		fmt.Fprintf(&b, "  | fuel + 1, h, %s r%s => %s fuel h r.addr%s\n", cgReps[s].ctor, extraP, f.gen, args)
	}
	fmt.Fprintf(&b, "termination_by fuel _ _%s => (fuel, 0, 0)\n", extraM)
	return b.String()
}

// the struct types of the package (pkgInfo does not keep them): the files that hold the translated
// methods are parsed once more
func cgStructs(p *pkgInfo) map[string]*ast.StructType {
	files := map[string]bool{}
	for _, ms := range p.methods {
		for _, m := range ms {
			files[fset.Position(m.decl.Pos()).Filename] = true
		}
	}
	out := map[string]*ast.StructType{}
	for name := range files {
		f, err := parser.ParseFile(fset, name, nil, parser.SkipObjectResolution)
		if err != nil {
			failAt(nil, "cannot parse %s: %v", name, err)
		}
		for _, d := range f.Decls {
			gd, ok := d.(*ast.GenDecl)
			if !ok || gd.Tok != token.TYPE {
				continue
			}
			for _, s := range gd.Specs {
				ts := s.(*ast.TypeSpec)
				if st, ok := ts.Type.(*ast.StructType); ok {
					out[ts.Name.Name] = st
				}
			}
		}
	}
	return out
}

func genClone(pkg *pkgInfo) (text string, err error) {
	defer func() {
		if r := recover(); r != nil {
			te, ok := r.(*transErr)
			if !ok {
				panic(r)
			}
			text, err = "", te
		}
	}()
	t := &cgTrans{p: pkg, structs: cgStructs(pkg), funcs: map[string]*cgFunc{}, loopCount: map[string]int{}}
	for _, s := range cgCtorOrder {
		t.addFunc(s, "copy")
		t.addFunc(s, "isEqual")
	}
	for _, s := range []string{"list", "object"} {
		t.addFunc(s, "Clone")
		t.addFunc(s, "Equals")
	}
	for _, f := range t.order {
		t.translate(f)
	}
	var b strings.Builder
	b.WriteString("/-\nGENERATED by vextract from the Go source (anytype.go, list_impl.go, object_impl.go) — do not edit.\n\n")
	b.WriteString("A translation of `copy()` / `isEqual()` of the seven field types and of `Clone` / `Equals` of\n*list / *object into Lean, statement by statement, under the restructuring rules listed at the top\nof vextract/clonegen.go (heap passing, fuel for the mutual recursion over the heap, `Out` for\nrun-time panics, loops as recursive helpers, dynamic dispatch as a `match` over `Val`).\nLemmas/CloneGenEq.lean proves every definition equal to a hand-written heap walk and that walk a\nrefinement of the hand-written model (`O.clone`, `equalsJ` of the reified trees), so a change of the\nGo source that alters the behaviour breaks the build.\n-/\n")
	b.WriteString("import Anytype.Model.ObjectOps\nset_option linter.unusedVariables false\nnamespace Anytype.Generated.CG\nopen Anytype\n\n")
	for _, f := range t.order {
		if f.scalar {
			b.WriteString(f.text + "\n")
		}
	}
	for _, m := range []string{"copy", "isEqual"} {
		b.WriteString("mutual\n")
		b.WriteString(t.dispatcher(m))
		for _, s := range []string{"list", "object"} {
			f := t.funcs[s+"."+m]
			b.WriteString(f.text)
			for _, h := range f.helpers {
				b.WriteString(h)
			}
		}
		b.WriteString("end\n\n")
	}
	for _, f := range t.order {
		if !f.scalar && f.mutual == "" {
			if len(f.helpers) != 0 {
				failAt(f.decl, "(*%s).%s: a loop outside the mutual blocks", f.recv, f.name)
			}
			b.WriteString(f.text + "\n")
		}
	}
	b.WriteString("end Anytype.Generated.CG\n")
	return b.String(), nil
}
