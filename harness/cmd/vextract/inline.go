// inline.go — a source-to-source pre-pass of vextract: calls of HELPER functions are inlined before any
// translator looks at the package.
//
// Why.  The translators know the functions and methods of the library by name (the tables of each *gen.go).  A
// maintainer who extracts a few statements into a new unexported function (`newListWith`, `deleteAt`, `tfIndex`,
// `indentJSON`, …) changes no behaviour, but every translator that meets the call refuses, and the regenerated tie
// of a dozen properties is reported broken.  This pass undoes exactly that refactoring: a function that the pinned
// source does not have (table `baselineFuncs`, generated from the pinned tree by tools/mkbaseline.sh) and that is
// unexported is a helper; its calls are replaced by its body, so the translators see the code the helper was
// extracted from.  The semantic content of the helper is not lost: it is translated (and its equality with the model
// proved) as part of every function that calls it.
//
// Soundness.  Inlining is the textbook transformation; the cases handled are the ones where it is obviously
// meaning-preserving, everything else is left alone (the call stays, the translator refuses, the check reports the
// tie as broken — the safe direction):
//
//	I1  arguments that are identifiers, literals, `nil`, `&ident`, or the empty slice literal `[]T{}` (a value without
//	    elements or capacity: evaluating it once or several times is indistinguishable) are substituted for the
//	    parameter (the callee cannot assign to the caller's locals); any other argument is bound to a fresh local
//	    `pInlN := arg` first, in parameter order (Go evaluates arguments left to right before the call).  A parameter
//	    the helper assigns to is always bound.
//	I2  locals of the helper are renamed to fresh names (`xInlN`), so nothing is captured.
//	I3  a helper whose body is the single statement `return E` is an EXPRESSION helper and may be called anywhere in an
//	    expression, provided every parameter that is not substituted by I1 occurs exactly once in E and at most one
//	    such argument contains a call (no duplicated or reordered effects).
//	I4  a helper without results whose body has no `return` (or only a bare `return` as last statement) is a PROCEDURE
//	    helper; a call as an expression statement is replaced by the body.
//	I5  a helper with results whose only `return` is the last statement is a STRAIGHT helper: `x := h(a)`, `x = h(a)`,
//	    `x, y := h(a)` are replaced by the body followed by the assignment of the returned expressions; if the single
//	    returned expression is a local of the helper declared by `:=` at the top level of its body and the call site is
//	    `x := h(a)`, that local is renamed to `x` instead.  `return h(a)` is replaced by the body (its `return E` stays).
//	I6  any helper with results may be inlined in TAIL position `return h(a)` when the caller's result count equals the
//	    helper's: every `return E` of the helper becomes a `return E` of the caller.
//	I7  not inlined: variadic helpers, generic helpers called without explicit type arguments (I10), named results,
//	    recursion, `defer`/`go`/labels/`goto` in the body, a closure in the body that mentions a parameter which I1
//	    would bind, method helpers whose receiver expression at the call is not an identifier.
//	I9  CONTINUATION: `x, y := h(a); REST` (also `x := h(a)`, `x, y = h(a)`) with a helper that returns from several
//	    places (early returns out of a search loop, …), where REST — the statements that follow the call in its
//	    statement list — ends in `return` or `panic(…)`: the call is replaced by the helper's body in which every
//	    `return E1, E2` has become `x, y := E1, E2` followed by a copy of REST.  Whatever return the helper leaves by,
//	    the caller continues with REST and never comes back (REST ends the function), so running REST at the place
//	    of the `return` is the same execution.  Conditions: REST has no `defer`, no label / `goto` and no `break` /
//	    `continue` that would leave it (inside the helper's loop they would bind to that loop); with `:=` the
//	    declared names occur nowhere in the function but on the left of the call and in REST (they are new
//	    variables, so declaring them in an inner block loses nothing) — the variables have the helper's result
//	    types.
//	I10 a generic helper called with explicit type arguments `h[T1, T2](a)` (as many as type parameters) is the helper
//	    with the type arguments substituted for the type parameters — that is how the language defines
//	    instantiation; the instance is then inlined by the rules above.  Not when a type parameter's name is
//	    also a parameter / local of the helper.
//
// Helpers are processed to a fixpoint (a helper may call a helper); a helper none of whose calls remains is removed
// from the declarations (so the write-set and API tables do not see it either).
package main

import (
	"fmt"
	"go/ast"
	"go/token"
	"reflect"
	"strconv"
	"strings"
)

var inlineCounter int

func freshInl(base string) string {
	inlineCounter++
	return base + "Inl" + strconv.Itoa(inlineCounter)
}

// ---------------------------------------------------------------------------------------------
// generic AST utilities (reflection; the standard library has no rewriting API)

var (
	exprType  = reflect.TypeOf((*ast.Expr)(nil)).Elem()
	stmtType  = reflect.TypeOf((*ast.Stmt)(nil)).Elem()
	declType  = reflect.TypeOf((*ast.Decl)(nil)).Elem()
	specType  = reflect.TypeOf((*ast.Spec)(nil)).Elem()
	nodeType  = reflect.TypeOf((*ast.Node)(nil)).Elem()
	objType   = reflect.TypeOf((*ast.Object)(nil))
	scopeType = reflect.TypeOf((*ast.Scope)(nil))
)

// deepCopy copies an AST (sub)tree.
func deepCopy(v reflect.Value) reflect.Value {
	switch v.Kind() {
	case reflect.Ptr:
		if v.IsNil() || v.Type() == objType || v.Type() == scopeType {
			return reflect.Zero(v.Type())
		}
		n := reflect.New(v.Type().Elem())
		n.Elem().Set(deepCopy(v.Elem()))
		return n
	case reflect.Interface:
		if v.IsNil() {
			return reflect.Zero(v.Type())
		}
		n := reflect.New(v.Type()).Elem()
		n.Set(deepCopy(v.Elem()))
		return n
	case reflect.Slice:
		if v.IsNil() {
			return reflect.Zero(v.Type())
		}
		n := reflect.MakeSlice(v.Type(), v.Len(), v.Len())
		for i := 0; i < v.Len(); i++ {
			n.Index(i).Set(deepCopy(v.Index(i)))
		}
		return n
	case reflect.Struct:
		n := reflect.New(v.Type()).Elem()
		for i := 0; i < v.NumField(); i++ {
			if n.Field(i).CanSet() {
				n.Field(i).Set(deepCopy(v.Field(i)))
			}
		}
		return n
	default:
		return v
	}
}

func copyStmts(list []ast.Stmt) []ast.Stmt {
	return deepCopy(reflect.ValueOf(list)).Interface().([]ast.Stmt)
}
func copyExpr(e ast.Expr) ast.Expr {
	if e == nil {
		return nil
	}
	return deepCopy(reflect.ValueOf(&e).Elem()).Interface().(ast.Expr)
}

// mapExprs rewrites, bottom-up, every expression position below the node (fields of static type ast.Expr / []ast.Expr).
// Struct-literal keys (`&list{val: x}`) are not expression positions.
func mapExprs(v reflect.Value, f func(ast.Expr) ast.Expr) {
	switch v.Kind() {
	case reflect.Ptr:
		if v.IsNil() || v.Type() == objType || v.Type() == scopeType {
			return
		}
		if kv, ok := v.Interface().(*ast.KeyValueExpr); ok {
			if _, isIdent := kv.Key.(*ast.Ident); isIdent {
				// a field name (or, rarely, a map key that is a bare identifier): leave the key
				mapExprs(reflect.ValueOf(&kv.Value).Elem(), f)
				return
			}
		}
		if se, ok := v.Interface().(*ast.SelectorExpr); ok {
			mapExprs(reflect.ValueOf(&se.X).Elem(), f)
			return
		}
		mapExprs(v.Elem(), f)
	case reflect.Interface:
		if v.IsNil() {
			return
		}
		// descend first
		inner := v.Elem()
		mapExprs(inner, f)
		if v.Type() == exprType && v.CanSet() {
			v.Set(reflect.ValueOf(f(v.Interface().(ast.Expr))))
		}
	case reflect.Slice:
		for i := 0; i < v.Len(); i++ {
			mapExprs(v.Index(i), f)
		}
	case reflect.Struct:
		for i := 0; i < v.NumField(); i++ {
			if v.Field(i).CanSet() || v.Field(i).Kind() == reflect.Ptr || v.Field(i).Kind() == reflect.Slice || v.Field(i).Kind() == reflect.Interface {
				mapExprs(v.Field(i), f)
			}
		}
	}
}

// ---------------------------------------------------------------------------------------------
// helpers

type helperKind int

const (
	hkNone helperKind = iota
	hkExpr
	hkProc
	hkStraight
	hkTail
)

type helper struct {
	name     string // "list.deleteAt" / "tfIndex"
	decl     *ast.FuncDecl
	recvName string
	recvType string
	params   []string
	nres     int
	kind     helperKind
	assigned map[string]bool // parameters the body assigns to / takes the address of
	tparams  []string        // I10: type parameters
}

func funcKey(d *ast.FuncDecl) string {
	if d.Recv == nil || len(d.Recv.List) != 1 {
		return d.Name.Name
	}
	t := d.Recv.List[0].Type
	if s, ok := t.(*ast.StarExpr); ok {
		t = s.X
	}
	if id, ok := t.(*ast.Ident); ok {
		return id.Name + "." + d.Name.Name
	}
	return "?." + d.Name.Name
}

// countReturns counts the return statements of a body, not descending into closures; bad reports constructs I7 excludes.
func scanBody(list []ast.Stmt) (returns int, bad bool) {
	var walk func(n ast.Node) bool
	walk = func(n ast.Node) bool {
		switch n.(type) {
		case *ast.FuncLit:
			return false
		case *ast.ReturnStmt:
			returns++
		case *ast.DeferStmt, *ast.LabeledStmt:
			bad = true
		case *ast.BranchStmt:
			if n.(*ast.BranchStmt).Tok == token.GOTO || n.(*ast.BranchStmt).Label != nil {
				bad = true
			}
		}
		return true
	}
	for _, s := range list {
		ast.Inspect(s, walk)
	}
	return
}

func classifyHelper(d *ast.FuncDecl) *helper {
	h := &helper{name: funcKey(d), decl: d, assigned: map[string]bool{}}
	if d.Body == nil {
		return nil
	}
	if d.Type.TypeParams != nil {
		// I10: only plain functions; the helper is used through its instances (instanceOf)
		if d.Recv != nil {
			return nil
		}
		for _, f := range d.Type.TypeParams.List {
			for _, n := range f.Names {
				h.tparams = append(h.tparams, n.Name)
			}
		}
	}
	if d.Recv != nil {
		if len(d.Recv.List) != 1 || len(d.Recv.List[0].Names) != 1 {
			return nil
		}
		h.recvName = d.Recv.List[0].Names[0].Name
		t := d.Recv.List[0].Type
		if s, ok := t.(*ast.StarExpr); ok {
			t = s.X
		}
		if id, ok := t.(*ast.Ident); ok {
			h.recvType = id.Name
		} else {
			return nil
		}
	}
	for _, p := range d.Type.Params.List {
		if _, variadic := p.Type.(*ast.Ellipsis); variadic || len(p.Names) == 0 {
			return nil
		}
		for _, n := range p.Names {
			if n.Name == "_" {
				return nil
			}
			h.params = append(h.params, n.Name)
		}
	}
	if d.Type.Results != nil {
		for _, r := range d.Type.Results.List {
			if len(r.Names) > 0 {
				return nil // named results
			}
			h.nres++
		}
	}
	body := d.Body.List
	returns, bad := scanBody(body)
	if bad {
		return nil
	}
	// recursion
	rec := false
	ast.Inspect(d.Body, func(n ast.Node) bool {
		if c, ok := n.(*ast.CallExpr); ok {
			if id, ok := c.Fun.(*ast.Ident); ok && d.Recv == nil && id.Name == d.Name.Name {
				rec = true
			}
			if se, ok := c.Fun.(*ast.SelectorExpr); ok && d.Recv != nil && se.Sel.Name == d.Name.Name {
				rec = true
			}
		}
		return true
	})
	if rec {
		return nil
	}
	// parameters that are written
	isParam := map[string]bool{}
	for _, p := range h.params {
		isParam[p] = true
	}
	ast.Inspect(d.Body, func(n ast.Node) bool {
		switch n := n.(type) {
		case *ast.AssignStmt:
			for _, l := range n.Lhs {
				if id, ok := l.(*ast.Ident); ok && isParam[id.Name] {
					h.assigned[id.Name] = true
				}
			}
		case *ast.IncDecStmt:
			if id, ok := n.X.(*ast.Ident); ok && isParam[id.Name] {
				h.assigned[id.Name] = true
			}
		case *ast.UnaryExpr:
			if id, ok := n.X.(*ast.Ident); ok && n.Op == token.AND && isParam[id.Name] {
				h.assigned[id.Name] = true
			}
		case *ast.RangeStmt:
			for _, l := range []ast.Expr{n.Key, n.Value} {
				if id, ok := l.(*ast.Ident); ok && n.Tok == token.ASSIGN && isParam[id.Name] {
					h.assigned[id.Name] = true
				}
			}
		}
		return true
	})
	last := ast.Stmt(nil)
	if len(body) > 0 {
		last = body[len(body)-1]
	}
	lastRet, lastIsRet := last.(*ast.ReturnStmt)
	switch {
	case h.nres == 0 && (returns == 0 || (returns == 1 && lastIsRet)):
		h.kind = hkProc
	case h.nres == 1 && len(body) == 1 && lastIsRet && len(lastRet.Results) == 1:
		h.kind = hkExpr
	case h.nres >= 1 && returns == 1 && lastIsRet && len(lastRet.Results) == h.nres:
		h.kind = hkStraight
	case h.nres >= 1:
		h.kind = hkTail
	default:
		return nil
	}
	return h
}

func trivialArg(e ast.Expr) bool {
	switch x := e.(type) {
	case *ast.Ident, *ast.BasicLit:
		return true
	case *ast.ParenExpr:
		return trivialArg(x.X)
	case *ast.CompositeLit:
		// `[]T{}`: no elements, no capacity, not nil — no two evaluations of it can be told apart
		if at, ok := x.Type.(*ast.ArrayType); ok && at.Len == nil && len(x.Elts) == 0 {
			_, named := at.Elt.(*ast.Ident)
			return named
		}
	case *ast.UnaryExpr:
		if x.Op == token.AND || x.Op == token.SUB {
			_, id := x.X.(*ast.Ident)
			_, lit := x.X.(*ast.BasicLit)
			return id || lit
		}
	}
	return false
}

func hasCall(e ast.Expr) bool {
	found := false
	ast.Inspect(e, func(n ast.Node) bool {
		if c, ok := n.(*ast.CallExpr); ok {
			if id, ok := c.Fun.(*ast.Ident); ok && (id.Name == "len" || id.Name == "cap" || id.Name == "int" || id.Name == "float64" || id.Name == "string") {
				return true
			}
			found = true
		}
		return true
	})
	return found
}

func countIdent(n ast.Node, name string) int {
	c := 0
	mapExprs(reflect.ValueOf(n), func(e ast.Expr) ast.Expr {
		if id, ok := e.(*ast.Ident); ok && id.Name == name {
			c++
		}
		return e
	})
	return c
}

// declaredLocals lists the names a body declares (`:=`, `var`, range / type-switch bindings, closure parameters).
func declaredLocals(list []ast.Stmt) []string {
	seen := map[string]bool{}
	var out []string
	add := func(e ast.Expr) {
		if id, ok := e.(*ast.Ident); ok && id.Name != "_" && !seen[id.Name] {
			seen[id.Name] = true
			out = append(out, id.Name)
		}
	}
	for _, s := range list {
		ast.Inspect(s, func(n ast.Node) bool {
			switch n := n.(type) {
			case *ast.AssignStmt:
				if n.Tok == token.DEFINE {
					for _, l := range n.Lhs {
						add(l)
					}
				}
			case *ast.RangeStmt:
				if n.Tok == token.DEFINE {
					if n.Key != nil {
						add(n.Key)
					}
					if n.Value != nil {
						add(n.Value)
					}
				}
			case *ast.ValueSpec:
				for _, nm := range n.Names {
					add(nm)
				}
			case *ast.TypeSwitchStmt:
				if a, ok := n.Assign.(*ast.AssignStmt); ok {
					for _, l := range a.Lhs {
						add(l)
					}
				}
			case *ast.FuncLit:
				for _, p := range n.Type.Params.List {
					for _, nm := range p.Names {
						add(nm)
					}
				}
			}
			return true
		})
	}
	return out
}

// renameIdent renames every identifier `from` in expression positions and in declaration positions.
func renameIdent(list []ast.Stmt, from, to string) {
	for _, s := range list {
		ast.Inspect(s, func(n ast.Node) bool {
			switch n := n.(type) {
			case *ast.SelectorExpr:
				// only the operand, never the selected name
				ast.Inspect(n.X, func(m ast.Node) bool {
					if id, ok := m.(*ast.Ident); ok && id.Name == from {
						id.Name = to
					}
					return true
				})
				return false
			case *ast.KeyValueExpr:
				if _, ok := n.Key.(*ast.Ident); ok {
					renameIdent([]ast.Stmt{&ast.ExprStmt{X: n.Value}}, from, to)
					return false
				}
			case *ast.Ident:
				if n.Name == from {
					n.Name = to
				}
			}
			return true
		})
	}
}

type inliner struct {
	helpers map[string]*helper // by funcKey
	failed  map[string]bool    // helpers with a call that could not be inlined
	shadow  map[string]bool    // names the function being rewritten declares itself (parameters, locals): a call of such a name is not a helper call
	log     []string
	cur     *ast.FuncDecl // the function whose body is being rewritten
}

// instantiate copies the helper's body for one call: parameters substituted or bound (I1), locals renamed (I2).
// keep is a local that must not be renamed but given the name keepAs (I5).
func (in *inliner) instantiate(h *helper, recv ast.Expr, args []ast.Expr, keep, keepAs string) (pre []ast.Stmt, body []ast.Stmt, ok bool) {
	if len(args) != len(h.params) {
		return nil, nil, false
	}
	body = copyStmts(h.decl.Body.List)
	subst := map[string]ast.Expr{}
	names := append([]string{}, h.params...)
	vals := append([]ast.Expr{}, args...)
	if h.recvName != "" {
		if _, isIdent := recv.(*ast.Ident); !isIdent {
			return nil, nil, false
		}
		names = append([]string{h.recvName}, names...)
		vals = append([]ast.Expr{recv}, vals...)
	}
	// closures in the body that mention a parameter which would be bound: excluded (I7) — binding is still right, but keep the pass simple
	for i, p := range names {
		if trivialArg(vals[i]) && !h.assigned[p] {
			subst[p] = vals[i]
			continue
		}
		fresh := freshInl(p)
		pre = append(pre, &ast.AssignStmt{Lhs: []ast.Expr{ast.NewIdent(fresh)}, Tok: token.DEFINE, Rhs: []ast.Expr{copyExpr(vals[i])}})
		renameIdent(body, p, fresh)
	}
	for _, l := range declaredLocals(body) {
		if _, isParam := subst[l]; isParam {
			return nil, nil, false // a local shadows a parameter: give up
		}
		if l == keep {
			renameIdent(body, l, keepAs)
			continue
		}
		already := false
		for _, s := range pre {
			if s.(*ast.AssignStmt).Lhs[0].(*ast.Ident).Name == l {
				already = true
			}
		}
		if !already {
			renameIdent(body, l, freshInl(l))
		}
	}
	for i := range body {
		mapExprs(reflect.ValueOf(&body[i]).Elem(), func(e ast.Expr) ast.Expr {
			if id, ok := e.(*ast.Ident); ok {
				if a, ok := subst[id.Name]; ok {
					c := copyExpr(a)
					if _, atom := c.(*ast.Ident); atom {
						return c
					}
					if _, atom := c.(*ast.BasicLit); atom {
						return c
					}
					if _, atom := c.(*ast.CompositeLit); atom {
						return c
					}
					return &ast.ParenExpr{X: c}
				}
			}
			return e
		})
	}
	return pre, body, true
}

// simpleType: a type expression built from (qualified) names by `*`, `[]`, `[n]`, `map[K]V`
func simpleType(e ast.Expr) bool {
	switch t := e.(type) {
	case *ast.Ident:
		return true
	case *ast.SelectorExpr:
		_, ok := t.X.(*ast.Ident)
		return ok
	case *ast.StarExpr:
		return simpleType(t.X)
	case *ast.ArrayType:
		if t.Len != nil {
			if _, lit := t.Len.(*ast.BasicLit); !lit {
				return false
			}
		}
		return simpleType(t.Elt)
	case *ast.MapType:
		return simpleType(t.Key) && simpleType(t.Value)
	}
	return false
}

// instanceOf implements I10: the helper with the type arguments substituted for its type parameters.
func (in *inliner) instanceOf(h *helper, targs []ast.Expr) *helper {
	if len(targs) != len(h.tparams) {
		return nil
	}
	for _, t := range targs {
		if !simpleType(t) {
			return nil
		}
	}
	taken := map[string]bool{}
	for _, p := range h.params {
		taken[p] = true
	}
	for _, l := range declaredLocals(h.decl.Body.List) {
		taken[l] = true
	}
	for i, tp := range h.tparams {
		if taken[tp] {
			return nil
		}
		// a name inside a type argument must not be captured by a parameter / local of the helper
		bad := false
		ast.Inspect(targs[i], func(n ast.Node) bool {
			if id, ok := n.(*ast.Ident); ok && taken[id.Name] {
				bad = true
			}
			return true
		})
		if bad {
			return nil
		}
	}
	d := deepCopy(reflect.ValueOf(h.decl)).Interface().(*ast.FuncDecl)
	d.Type.TypeParams = nil
	subst := func(e ast.Expr) ast.Expr {
		if id, ok := e.(*ast.Ident); ok {
			for i, tp := range h.tparams {
				if id.Name == tp {
					return copyExpr(targs[i])
				}
			}
		}
		return e
	}
	mapExprs(reflect.ValueOf(d.Type), subst)
	mapExprs(reflect.ValueOf(d.Body), subst)
	return classifyHelper(d)
}

// helperOfCall resolves a call to a helper.
func (in *inliner) helperOfCall(c *ast.CallExpr, recvTypes map[string]string) (*helper, ast.Expr) {
	switch f := c.Fun.(type) {
	case *ast.Ident:
		if h := in.helpers[f.Name]; h != nil && h.recvName == "" && len(h.tparams) == 0 && !in.shadow[f.Name] {
			return h, nil
		}
		// I10, inferred type arguments: `h(a)` for a generic helper whose type parameters occur in its signature only — the
		// body mentions no type parameter, so every instance has the same body
		if h := in.helpers[f.Name]; h != nil && h.recvName == "" && len(h.tparams) > 0 && !in.shadow[f.Name] {
			uses := 0
			for _, tp := range h.tparams {
				uses += identOccurs(h.decl.Body, tp)
			}
			if uses == 0 {
				d := deepCopy(reflect.ValueOf(h.decl)).Interface().(*ast.FuncDecl)
				d.Type.TypeParams = nil
				return classifyHelper(d), nil
			}
		}
	case *ast.IndexExpr:
		// I10: h[T](…)
		if id, ok := f.X.(*ast.Ident); ok {
			if h := in.helpers[id.Name]; h != nil && h.recvName == "" && len(h.tparams) == 1 {
				return in.instanceOf(h, []ast.Expr{f.Index}), nil
			}
		}
	case *ast.IndexListExpr:
		if id, ok := f.X.(*ast.Ident); ok {
			if h := in.helpers[id.Name]; h != nil && h.recvName == "" && len(h.tparams) > 1 {
				return in.instanceOf(h, f.Indices), nil
			}
		}
	case *ast.SelectorExpr:
		// a method helper: any receiver type that has a helper of that name (there is no type information; the name of an
		// unexported NEW method is taken to be unique among the helpers)
		var found *helper
		for _, h := range in.helpers {
			if h.recvName != "" && h.decl.Name.Name == f.Sel.Name {
				if found != nil {
					return nil, nil
				}
				found = h
			}
		}
		if found != nil {
			return found, f.X
		}
	}
	return nil, nil
}

// inlineExprHelpers replaces calls of expression helpers inside one statement (I3).
func (in *inliner) inlineExprHelpers(st *ast.Stmt) {
	mapExprs(reflect.ValueOf(st).Elem(), func(e ast.Expr) ast.Expr {
		c, ok := e.(*ast.CallExpr)
		if !ok {
			return e
		}
		h, recv := in.helperOfCall(c, nil)
		if h == nil || h.kind != hkExpr {
			return e
		}
		ret := h.decl.Body.List[0].(*ast.ReturnStmt).Results[0]
		names := append([]string{}, h.params...)
		vals := append([]ast.Expr{}, c.Args...)
		if h.recvName != "" {
			if _, isIdent := recv.(*ast.Ident); !isIdent {
				in.failed[h.name] = true
				return e
			}
			names = append([]string{h.recvName}, names...)
			vals = append([]ast.Expr{recv}, vals...)
		}
		if len(names) != len(vals) {
			in.failed[h.name] = true
			return e
		}
		impure := 0
		for i, p := range names {
			if trivialArg(vals[i]) {
				continue
			}
			if countIdent(&ast.ExprStmt{X: ret}, p) != 1 {
				in.failed[h.name] = true
				return e
			}
			if hasCall(vals[i]) {
				impure++
			}
		}
		if impure > 1 || len(declaredLocals([]ast.Stmt{&ast.ExprStmt{X: ret}})) > 0 {
			in.failed[h.name] = true
			return e
		}
		out := copyExpr(ret)
		holder := &ast.ExprStmt{X: out}
		var hs ast.Stmt = holder
		mapExprs(reflect.ValueOf(&hs).Elem(), func(x ast.Expr) ast.Expr {
			if id, ok := x.(*ast.Ident); ok {
				for i, p := range names {
					if id.Name == p {
						a := copyExpr(vals[i])
						switch a.(type) {
						case *ast.Ident, *ast.BasicLit, *ast.CallExpr, *ast.SelectorExpr, *ast.IndexExpr, *ast.ParenExpr:
							return a
						}
						return &ast.ParenExpr{X: a}
					}
				}
			}
			return x
		})
		in.log = append(in.log, "expression helper "+h.name)
		res := hs.(*ast.ExprStmt).X
		switch res.(type) {
		case *ast.Ident, *ast.BasicLit, *ast.CallExpr, *ast.SelectorExpr, *ast.IndexExpr, *ast.ParenExpr:
			return res
		}
		return &ast.ParenExpr{X: res}
	})
}

// endsFunction: the statement list ends in `return` or `panic(…)`.
func endsFunction(list []ast.Stmt) bool {
	if len(list) == 0 {
		return false
	}
	switch s := list[len(list)-1].(type) {
	case *ast.ReturnStmt:
		return true
	case *ast.ExprStmt:
		if c := callOf(s.X); c != nil {
			id, ok := c.Fun.(*ast.Ident)
			return ok && id.Name == "panic"
		}
	}
	return false
}

// leaves reports a `defer`, a label, a `goto`, or a `break` / `continue` / `fallthrough` that is not inside a loop /
// switch / select of the list itself (closures are not entered: their statements are their own).
func leaves(list []ast.Stmt) bool {
	found := false
	var walk func(n ast.Node, inLoop, inSwitch bool)
	walk = func(n ast.Node, inLoop, inSwitch bool) {
		ast.Inspect(n, func(m ast.Node) bool {
			if m == n {
				return true
			}
			switch x := m.(type) {
			case *ast.FuncLit:
				return false
			case *ast.DeferStmt, *ast.LabeledStmt:
				found = true
			case *ast.ForStmt:
				walk(x.Body, true, inSwitch)
				return false
			case *ast.RangeStmt:
				walk(x.Body, true, inSwitch)
				return false
			case *ast.SwitchStmt:
				walk(x.Body, inLoop, true)
				return false
			case *ast.TypeSwitchStmt:
				walk(x.Body, inLoop, true)
				return false
			case *ast.SelectStmt:
				walk(x.Body, inLoop, true)
				return false
			case *ast.BranchStmt:
				switch {
				case x.Label != nil || x.Tok == token.GOTO:
					found = true
				case x.Tok == token.CONTINUE && !inLoop:
					found = true
				case x.Tok == token.BREAK && !inLoop && !inSwitch:
					found = true
				case x.Tok == token.FALLTHROUGH && !inSwitch:
					found = true
				}
			}
			return true
		})
	}
	walk(&ast.BlockStmt{List: list}, false, false)
	return found
}

// replaceReturns replaces every `return` of a statement list (closures excluded) by the statements f gives.
func replaceReturns(list []ast.Stmt, f func(*ast.ReturnStmt) []ast.Stmt) []ast.Stmt {
	var out []ast.Stmt
	var nested func(st ast.Stmt)
	nested = func(st ast.Stmt) {
		switch s := st.(type) {
		case *ast.BlockStmt:
			s.List = replaceReturns(s.List, f)
		case *ast.IfStmt:
			s.Body.List = replaceReturns(s.Body.List, f)
			if s.Else != nil {
				nested(s.Else)
			}
		case *ast.ForStmt:
			s.Body.List = replaceReturns(s.Body.List, f)
		case *ast.RangeStmt:
			s.Body.List = replaceReturns(s.Body.List, f)
		case *ast.SwitchStmt:
			for _, c := range s.Body.List {
				cc := c.(*ast.CaseClause)
				cc.Body = replaceReturns(cc.Body, f)
			}
		case *ast.TypeSwitchStmt:
			for _, c := range s.Body.List {
				cc := c.(*ast.CaseClause)
				cc.Body = replaceReturns(cc.Body, f)
			}
		case *ast.SelectStmt:
			for _, c := range s.Body.List {
				cc := c.(*ast.CommClause)
				cc.Body = replaceReturns(cc.Body, f)
			}
		}
	}
	for _, st := range list {
		if r, ok := st.(*ast.ReturnStmt); ok {
			out = append(out, f(r)...)
			continue
		}
		nested(st)
		out = append(out, st)
	}
	return out
}

// continuation implements I9 for the call statement s (`x, y := h(a)`) followed by `rest` in its statement list; it returns
// the statements that replace s and rest.
func (in *inliner) continuation(h *helper, recv ast.Expr, args []ast.Expr, s *ast.AssignStmt, rest []ast.Stmt) ([]ast.Stmt, bool) {
	if s.Tok != token.DEFINE && s.Tok != token.ASSIGN {
		return nil, false
	}
	if !endsFunction(rest) || leaves(rest) {
		return nil, false
	}
	for _, l := range s.Lhs {
		id, ok := l.(*ast.Ident)
		if !ok {
			return nil, false
		}
		if s.Tok == token.DEFINE && id.Name != "_" {
			// a new variable: the name occurs nowhere in the function but on the left of the call and in REST
			if in.cur == nil || identOccurs(s.Rhs[0], id.Name) > 0 ||
				identOccurs(in.cur, id.Name) != identOccurs(s, id.Name)+identOccurs(&ast.BlockStmt{List: rest}, id.Name) {
				return nil, false
			}
		}
	}
	// every return of the helper gives as many values as there are variables
	okShape := true
	replaceReturns(copyStmts(h.decl.Body.List), func(r *ast.ReturnStmt) []ast.Stmt {
		if len(r.Results) != len(s.Lhs) {
			okShape = false
		}
		return []ast.Stmt{r}
	})
	if !okShape {
		return nil, false
	}
	pre, body, ok := in.instantiate(h, recv, args, "", "")
	if !ok {
		return nil, false
	}
	body = replaceReturns(body, func(r *ast.ReturnStmt) []ast.Stmt {
		lhs := make([]ast.Expr, len(s.Lhs))
		for i, l := range s.Lhs {
			lhs[i] = copyExpr(l)
		}
		out := []ast.Stmt{&ast.AssignStmt{Lhs: lhs, Tok: s.Tok, TokPos: r.Pos(), Rhs: r.Results}}
		return append(out, copyStmts(rest)...)
	})
	return append(pre, body...), true
}

func callOf(e ast.Expr) *ast.CallExpr {
	c, _ := e.(*ast.CallExpr)
	return c
}

// rewriteList inlines helper calls in a statement list; nres is the result count of the enclosing function.
func (in *inliner) rewriteList(list []ast.Stmt, nres int) []ast.Stmt {
	var out []ast.Stmt
	for i, st := range list {
		done := false
		// I9: `x, y := h(a); REST` with a helper that returns from several places
		if s, ok := st.(*ast.AssignStmt); ok && len(s.Rhs) == 1 {
			if c := callOf(s.Rhs[0]); c != nil {
				if h, recv := in.helperOfCall(c, nil); h != nil && h.kind == hkTail && len(s.Lhs) == h.nres {
					if repl, ok := in.continuation(h, recv, c.Args, s, list[i+1:]); ok {
						in.log = append(in.log, "continuation helper "+h.name)
						return append(out, in.rewriteList(repl, nres)...)
					}
				}
			}
		}
		// I8: `if h(a) {…}` / `if !h(a) {…}` with a straight helper (no init): the call is evaluated first, into a fresh local
		if ifs, ok := st.(*ast.IfStmt); ok && ifs.Init == nil {
			cond := ifs.Cond
			neg := false
			if u, ok := cond.(*ast.UnaryExpr); ok && u.Op == token.NOT {
				cond, neg = u.X, true
			}
			if c := callOf(cond); c != nil {
				if h, _ := in.helperOfCall(c, nil); h != nil && h.kind == hkStraight && h.nres == 1 {
					tmp := freshInl("cond")
					pre := &ast.AssignStmt{Lhs: []ast.Expr{ast.NewIdent(tmp)}, Tok: token.DEFINE, Rhs: []ast.Expr{c}}
					if neg {
						ifs.Cond = &ast.UnaryExpr{Op: token.NOT, X: ast.NewIdent(tmp)}
					} else {
						ifs.Cond = ast.NewIdent(tmp)
					}
					out = append(out, in.rewriteList([]ast.Stmt{pre}, nres)...)
				}
			}
		}
		switch s := st.(type) {
		case *ast.ExprStmt:
			if c := callOf(s.X); c != nil {
				// a straight helper called for its effect, the results dropped: the body, then the returned expressions
				// evaluated for their effects (calls) or not at all (anything without a call)
				if h, recv := in.helperOfCall(c, nil); h != nil && h.kind == hkStraight {
					if pre, body, ok := in.instantiate(h, recv, c.Args, "", ""); ok {
						r := body[len(body)-1].(*ast.ReturnStmt)
						body = body[:len(body)-1]
						okDrop := true
						var tail []ast.Stmt
						for _, e := range r.Results {
							if ce, isCall := e.(*ast.CallExpr); isCall {
								tail = append(tail, &ast.ExprStmt{X: ce})
							} else if hasCall(e) {
								okDrop = false
							}
						}
						if okDrop {
							out = append(out, pre...)
							out = append(out, in.rewriteList(body, nres)...)
							out = append(out, tail...)
							in.log = append(in.log, "straight helper (results dropped) "+h.name)
							continue
						}
					}
					in.failed[h.name] = true
				}
				if h, recv := in.helperOfCall(c, nil); h != nil && h.kind == hkProc {
					if pre, body, ok := in.instantiate(h, recv, c.Args, "", ""); ok {
						if n := len(body); n > 0 {
							if r, isRet := body[n-1].(*ast.ReturnStmt); isRet && len(r.Results) == 0 {
								body = body[:n-1]
							}
						}
						out = append(out, pre...)
						out = append(out, in.rewriteList(body, nres)...)
						in.log = append(in.log, "procedure helper "+h.name)
						done = true
					} else {
						in.failed[h.name] = true
					}
				}
			}
		case *ast.AssignStmt:
			if len(s.Rhs) == 1 {
				if c := callOf(s.Rhs[0]); c != nil {
					if h, recv := in.helperOfCall(c, nil); h != nil && h.kind == hkStraight && len(s.Lhs) == h.nres && (s.Tok == token.DEFINE || s.Tok == token.ASSIGN) {
						ret := h.decl.Body.List[len(h.decl.Body.List)-1].(*ast.ReturnStmt)
						keep, keepAs := "", ""
						if h.nres == 1 && s.Tok == token.DEFINE {
							if rid, ok := ret.Results[0].(*ast.Ident); ok {
								if lid, ok := s.Lhs[0].(*ast.Ident); ok && lid.Name != "_" {
									// is rid a top-level `:=` local of the helper?
									for _, hs := range h.decl.Body.List {
										if a, ok := hs.(*ast.AssignStmt); ok && a.Tok == token.DEFINE && len(a.Lhs) == 1 {
											if id, ok := a.Lhs[0].(*ast.Ident); ok && id.Name == rid.Name {
												// the new name must not already mean something in the helper's body (a type, a function, a
												// parameter) — except on the right-hand side of the defining statement itself, where the new
												// variable is not yet in scope (`list := &list{…}`)
												if identOccurs(h.decl.Body, lid.Name)-identOccurs(a.Rhs[0], lid.Name) == 0 {
													keep, keepAs = rid.Name, lid.Name
												}
											}
										}
									}
								}
							}
						}
						if pre, body, ok := in.instantiate(h, recv, c.Args, keep, keepAs); ok {
							r := body[len(body)-1].(*ast.ReturnStmt)
							body = body[:len(body)-1]
							out = append(out, pre...)
							out = append(out, in.rewriteList(body, nres)...)
							if keep == "" {
								out = append(out, &ast.AssignStmt{Lhs: s.Lhs, Tok: s.Tok, Rhs: r.Results})
							}
							in.log = append(in.log, "straight helper "+h.name)
							done = true
						} else {
							in.failed[h.name] = true
						}
					}
				}
			}
		case *ast.ReturnStmt:
			if len(s.Results) == 1 {
				if c := callOf(s.Results[0]); c != nil {
					if h, recv := in.helperOfCall(c, nil); h != nil && (h.kind == hkStraight || h.kind == hkTail) && h.nres == nres {
						if pre, body, ok := in.instantiate(h, recv, c.Args, "", ""); ok {
							out = append(out, pre...)
							out = append(out, in.rewriteList(body, nres)...)
							in.log = append(in.log, "tail helper "+h.name)
							done = true
						} else {
							in.failed[h.name] = true
						}
					}
				}
			}
		}
		if done {
			continue
		}
		in.rewriteNested(st, nres)
		in.inlineExprHelpers(&st)
		out = append(out, st)
	}
	return out
}

// rewriteNested descends into the statement lists below a statement.
func (in *inliner) rewriteNested(st ast.Stmt, nres int) {
	switch s := st.(type) {
	case *ast.BlockStmt:
		s.List = in.rewriteList(s.List, nres)
	case *ast.IfStmt:
		s.Body.List = in.rewriteList(s.Body.List, nres)
		if s.Else != nil {
			in.rewriteNested(s.Else, nres)
		}
	case *ast.ForStmt:
		s.Body.List = in.rewriteList(s.Body.List, nres)
	case *ast.RangeStmt:
		s.Body.List = in.rewriteList(s.Body.List, nres)
	case *ast.SwitchStmt:
		for _, c := range s.Body.List {
			cc := c.(*ast.CaseClause)
			cc.Body = in.rewriteList(cc.Body, nres)
		}
	case *ast.TypeSwitchStmt:
		for _, c := range s.Body.List {
			cc := c.(*ast.CaseClause)
			cc.Body = in.rewriteList(cc.Body, nres)
		}
	case *ast.SelectStmt:
		for _, c := range s.Body.List {
			cc := c.(*ast.CommClause)
			cc.Body = in.rewriteList(cc.Body, nres)
		}
	}
	// closures anywhere in the statement's expressions
	ast.Inspect(st, func(n ast.Node) bool {
		if fl, ok := n.(*ast.FuncLit); ok {
			n := 0
			if fl.Type.Results != nil {
				for _, r := range fl.Type.Results.List {
					if len(r.Names) == 0 {
						n++
					} else {
						n += len(r.Names)
					}
				}
			}
			fl.Body.List = in.rewriteList(fl.Body.List, n)
			return false
		}
		return true
	})
}

func resultCount(d *ast.FuncDecl) int {
	n := 0
	if d.Type.Results != nil {
		for _, r := range d.Type.Results.List {
			if len(r.Names) == 0 {
				n++
			} else {
				n += len(r.Names)
			}
		}
	}
	return n
}

// remainingCalls reports whether any call of the helper is left in the package.
func remainingCalls(files []*ast.File, h *helper) bool {
	found := false
	for _, f := range files {
		for _, d := range f.Decls {
			fd, ok := d.(*ast.FuncDecl)
			if !ok || fd == h.decl || fd.Body == nil {
				continue
			}
			ast.Inspect(fd.Body, func(n ast.Node) bool {
				switch x := n.(type) {
				case *ast.Ident:
					if h.recvName == "" && x.Name == h.decl.Name.Name {
						found = true
					}
				case *ast.SelectorExpr:
					if h.recvName != "" && x.Sel.Name == h.decl.Name.Name {
						found = true
					}
				}
				return true
			})
		}
	}
	return found
}

// inlineHelpers is the pre-pass.  It returns a log of what it did (written to stderr by main).
func inlineHelpers(files []*ast.File) []string {
	in := &inliner{helpers: map[string]*helper{}, failed: map[string]bool{}}
	for _, f := range files {
		for _, d := range f.Decls {
			fd, ok := d.(*ast.FuncDecl)
			if !ok || fd.Body == nil {
				continue
			}
			k := funcKey(fd)
			if baselineFuncs[k] || ast.IsExported(fd.Name.Name) {
				continue
			}
			if h := classifyHelper(fd); h != nil {
				if h.recvName != "" {
					// there is no type information: a call `x.name(…)` is taken to be a call of the helper method, so the
					// name must not be the name of any method or function of the pinned source
					clash := false
					for k := range baselineFuncs {
						if k == fd.Name.Name || strings.HasSuffix(k, "."+fd.Name.Name) {
							clash = true
						}
					}
					if clash {
						in.log = append(in.log, fmt.Sprintf("new method %s shares its name with a function of the pinned source: not inlined", k))
						continue
					}
				}
				in.helpers[h.name] = h
				if h.recvName == "" {
					in.helpers[fd.Name.Name] = h
				}
			} else {
				in.log = append(in.log, fmt.Sprintf("new function %s is not of an inlinable form", k))
			}
		}
	}
	if len(in.helpers) == 0 {
		return in.log
	}
	for round := 0; round < 4; round++ {
		before := len(in.log)
		for _, f := range files {
			for _, d := range f.Decls {
				fd, ok := d.(*ast.FuncDecl)
				if !ok || fd.Body == nil {
					continue
				}
				in.shadow = map[string]bool{}
				for _, n := range declaredLocals(fd.Body.List) {
					in.shadow[n] = true
				}
				for _, p := range fd.Type.Params.List {
					for _, n := range p.Names {
						in.shadow[n.Name] = true
					}
				}
				in.cur = fd
				fd.Body.List = in.rewriteList(fd.Body.List, resultCount(fd))
			}
		}
		// a helper's body may have changed: classify again
		for k, h := range in.helpers {
			if nh := classifyHelper(h.decl); nh != nil {
				in.helpers[k] = nh
			}
		}
		if len(in.log) == before {
			break
		}
	}
	// drop the helpers that are no longer called
	for _, f := range files {
		var keep []ast.Decl
		for _, d := range f.Decls {
			if fd, ok := d.(*ast.FuncDecl); ok {
				if h := in.helpers[funcKey(fd)]; h != nil && h.decl == fd && !remainingCalls(files, h) {
					in.log = append(in.log, "helper "+h.name+" inlined everywhere and dropped")
					continue
				}
			}
			keep = append(keep, d)
		}
		f.Decls = keep
	}
	return in.log
}
