// listgen.go — translation of the sequence core of `*list` (list_impl.go) into Lean definitions
// (`Anytype/Generated/ListGen.lean`).  `Lemmas/ListGenEq.lean` proves every generated definition equal
// to the hand-written model (`Model/ListOps.lean`, `Model/Normalize.lean`).
//
// The Lean text is derived from the statements and expressions of each Go function body by a small
// symbolic executor (continuation passing, like the parser translator).  Anything that is not
// recognised makes the translation fail with the source position.
//
// RESTRUCTURING RULES (trusted base: they are the conventions of the hand-written model)
//
//	R1  state.  A method `(ego *list) M(p…)` becomes `mGen (h : Heap) (a : Nat) (p…)`: `h` is the heap,
//	    `a` the address of the receiver's cell.  `ego.val` is `h.items a` (a Go `[]field` is a
//	    `List Val`, capacity / aliasing of backing arrays is not modelled).  A function that writes
//	    the heap (stores to `x.val`, `parseVal`, `&list{…}`, calls of such functions) returns
//	    `Heap × Out T`, a function that can only panic returns `Out T`, any other one returns `T`.
//	    On a panic the heap is the heap at the panic point.
//	R2  `ego.val` is a symbolic variable: a store `ego.val = e` / `ego.val[i] = e` updates its pending
//	    value, later reads see the pending value; it is written back with `h.setItems a …` before the
//	    next call, at a panic, at the end of a loop iteration that carries the heap, and at `return`.
//	    `ego.Ego()` is `h.egoRef a` for the last materialised heap `h` (stores to `val` do not change
//	    `ptr`); `ego.Ego().M(…)` / `ego.M(…)` are calls of `mGen` on the same cell (overriding by
//	    embedding types is not modelled).  A method whose body is a single `return e` may be inlined
//	    while a pending value exists.
//	R3  `parseVal(v)` is the model's `parseVal h v`, which returns the new heap; `v : GoVal`.  Calls
//	    with an effect inside an expression are hoisted in lexical (left-to-right, inner-first) order;
//	    the remaining pure expression is evaluated in the resulting heap.
//	R4  panics: `panic(msg)` / `panic(fmt.Sprintf(msg, …))` is `.panic k`, `k` chosen by the prefix of
//	    the message (table `listPanicKinds`).  Run-time panics (index out of range, failed type
//	    assertion, negative `make` size) are `.panic .runtime`.
//	R5  `xs[i]` (read) is `match xs[i.toNat]? with | some v => … | none => <run-time panic>`; the
//	    translator demands that a dominating test has established `i ≥ 0` (failed `i < 0`, true
//	    `i >= 0`, loop condition, literal).  If dominating tests also establish `i < count` the `none`
//	    arm is dead and, in a function that cannot panic, is filled with the zero value of the result
//	    type.  A store `xs[i] = v` is `xs.set i.toNat v`, a swap `xs[i], xs[j] = xs[j], xs[i]` is
//	    `match xs[j]?, xs[i]? …` and leaves `xs` unchanged when an index is out of range (an
//	    out-of-range store is a run-time panic in Go; the model keeps the slice).
//	    `xs[lo:hi]` is `(xs.drop lo).take (hi - lo)`, `xs[:hi]` is `xs.take hi`, `xs[lo:]` is `xs.drop lo`
//	    (lower bounds must be known non-negative; bounds beyond the length are not modelled: capacity).
//	    `(e + k).toNat` with `e ≥ 0` known and a literal `k` is written `e.toNat + k`.
//	R6  `append(xs, v)` is `xs ++ [v]`, `append(xs, ys...)` is `xs ++ ys` (`[] ++ ys` is written `ys`),
//	    `make([]T, 0, c)` is `[]` (with a run-time panic for `c < 0` unless `c` is syntactically a
//	    length), `make([]field, n)` may only be the destination of `copy(dst, src[lo:hi])` with `n`
//	    syntactically `hi-lo`, which stores `src[lo:hi]`, or, with `n` a sum `len(A) + len(B) + …`, of the
//	    copies `copy(dst, A)`, `copy(dst[len(A):], B)`, … in this order, one per summand (each `len` must
//	    translate to the same Lean text as it did at the `make`: nothing it reads was assigned in
//	    between), which store `A ++ B ++ …` (every copy fits and they tile the slice; until the last one
//	    the slice has no translation).  `len(xs)` is `(xs.length : Int)`.
//	R7  type tests.  `x.(T)` / `switch x.(type)` test `x.kind` (`Val.kind`): on a stored field the Go
//	    types Object, List, *atNil, *atString, *atInt, *atBool, *atFloat; on a `getVal()` result the
//	    types Object, List, string, bool, int, float64.  `v, ok := x.(T)` gives `ok := x.kind == K`,
//	    `v := x`.  `item.getVal()` is `h.getVal item`.  `r.getVal().(*list)` for an interface value
//	    `r : Ref` succeeds iff `h.ego r.addr == 0 && h.isList r.addr` and denotes the cell `r.addr`;
//	    `r.base()` denotes the cell `r.addr` at every embedding level (a run-time panic when `r` is
//	    not a list, i.e. a nil interface).
//	    The constants TypeX are the constructors of `Kind`.  `x == y` on interface values is `L.goEq`.
//	R8  allocation.  `x := &list{val: e}` followed by `x.Init(x)` is a new cell `.list e 0` at address
//	    `h.length` (appended when the next heap operation or the return needs it); the value `x`
//	    returned as a `List` is `⟨h.length, 0⟩`.  `e` must be a slice of its own (`[]field{}`, `make(…)`,
//	    `append` to such a slice, a local holding one): sharing a backing array with an existing list is
//	    not modelled (R1), so `&list{val: ego.val[:n]}` and the like are refused.
//	R9  loops are recursive helper functions `…LoopGen`:
//	    - `for i, x := range xs` is structural recursion over the list `xs` (`i : Int` counts from 0);
//	    - `for i := len(s) - 1; i >= 0; i--` whose body uses `i` only as `s[i]` is recursion over `s.reverse`;
//	    - `for i := range s` whose body mentions `i`, `s` and a local `l` only as `s[l-i]`, where `l` holds
//	      `len(s) - 1` (its let-bound Lean value is `(s.length : Int) - 1` for the Lean value of `s` when the loop
//	      starts), is recursion over `s.reverse` too: `i` runs from 0 to `len(s) - 1`, so `l-i` runs from
//	      `len(s) - 1` down to 0, always in range, and neither `s` nor `l` can be assigned in the body;
//	    - any other `for i := e - 1; i >= 0; i--` is recursion on `Nat` from `e.toNat` (`| i + 1 =>` is the
//	      iteration with loop variable `i`);  `for i := 0; i < n; i++` with `i` unused is `n.toNat` repetitions;
//	    - a loop body containing `return` (search loop): the `[]` case of the helper is the translation of
//	      the statements behind the loop;
//	    - a loop body with heap operations / panics carries the heap and returns `Heap × Out Unit`;
//	    - a loop body that only stores into one `x.val` carries that slice (a `List Val`);
//	    - otherwise the loop carries its single accumulator (a local assigned in the body).
//	R10 `if c { x = e }` outside loops (only assignments to locals / `sort.Ints(x)` in the body) is
//	    `let x' := if c then e else x`; every other `if` duplicates the continuation.
//	    `sort.Ints(x)` is `x := x.mergeSort (· ≤ ·)`.
//	R12 a typed scalar slice (`[]string`, `[]int`, `[]float64`, the results of StringSlice / IntSlice /
//	    FloatSlice) is the `List Val` of the values of that kind; `sort.Strings` / `sort.Ints` /
//	    `sort.Float64s` on it are `sortStrVals` / `sortIntVals` / `sortFloatVals` (prelude of the generated
//	    file: `mergeSort` with the model's orders `L.strLe`, `≤`, `L.floatLe` on the unwrapped values);
//	    `NewListFrom(s).(*list).val` for such a slice is `s` (every element is wrapped again; the
//	    temporary cell NewListFrom allocates is unreachable and is not allocated in the model).
//	R13 callbacks are Lean functions.  A callback without result is an observer: the method is translated
//	    to the log of its invocations (the list of argument tuples, in order) and its own result
//	    (`ego.Ego()`) is dropped.  A callback `func(T, …) T` (Reduce*) works on an abstract type `α`:
//	    parameters of the method of Go type `T` are of type `α`.  Other callbacks return `GoVal`
//	    (`any` handed to Add) or `Bool`.  The Lean types of the callback's arguments are those of the
//	    values passed at its call (`Int` for an index, `Val` for an element).
//	    The value returned by a constructor call (`NewList()`) is a cell of embedding level 0.
//	R14 numbers.  `v, ok := x.(int)` / `.(float64)`: where `v` is used as a number it is `intOf v` /
//	    `floatOf v` (prelude: the payload of the value).  float64 is `F64` with the operations of the
//	    model's `FloatArith` instance (`add`, `mul`, `div`, `ofInt` for `float64(i)`, the constants 0, 1).
//	    `+`, `-`, `*` with an operand computed from element values (`intOf v`) wrap to 64 bits
//	    (`wrap64`, as in the model's aggregates); index / length arithmetic is bounded by the list
//	    length and is not wrapped (R11).  `x op= e` is `x = x op e`.  A named result starts with the
//	    zero value; a bare `return` returns it.
//	R15 `var x int` / `bool` / `float64` is a local holding the zero value.  `var x any` is an interface variable
//	    without value: it may not be read before it is assigned; the assignment `x = s` of a typed scalar slice
//	    (R12) makes it denote `s` (an interface holds the value with its dynamic type, so `NewListFrom(x)` is
//	    `NewListFrom(s)`); no other value may be assigned to it.  Where two paths assign different values the
//	    continuation is translated once per path (R10).
//	R11 Go `int` is `Int` (overflow not modelled here), `/` requires a length as dividend and a
//	    positive literal divisor (then Go's truncation and Lean's `/` agree).
package main

import (
	"fmt"
	"go/ast"
	"go/token"
	"regexp"
	"strconv"
	"strings"
)

// ---------------------------------------------------------------------------------------------
// tables

// message prefix -> PanicKind (Model/Heap.lean)
var listPanicKinds = []struct{ prefix, kind string }{
	{"index %d out of range", "indexRange"},
	{"item is not a", "notKind"},
	{"ending index %d out of range", "subListEnd"},
	{"starting index is higher", "subListOrder"},
	{"starting index is lower", "subListStart"},
	{"the first element of the list has to be", "sortKind"},
	{"unsupported slice type", "unsupported"},
	{"incompatible type", "unsupported"},
	{"invalid indentation", "badIndent"},
}

// Go type of a type test -> Kind; separately for stored fields and for `getVal()` results
var fieldKinds = map[string]string{"Object": "object", "List": "list", "*atNil": "nil", "*atString": "string",
	"*atInt": "int", "*atBool": "bool", "*atFloat": "float"}
var anyKinds = map[string]string{"Object": "object", "List": "list", "string": "string", "bool": "bool",
	"int": "int", "float64": "float"}

var typeConsts = map[string]string{"TypeUndefined": ".undefined", "TypeNil": ".nil", "TypeObject": ".object",
	"TypeList": ".list", "TypeString": ".string", "TypeBool": ".bool", "TypeInt": ".int", "TypeFloat": ".float"}

// the functions translated, callees first: Go name (methods of *list unless marked), Lean name
var listTargets = []struct {
	goName string
	method bool
	lean   string
}{
	{"Count", true, "countGen"},
	{"Empty", true, "emptyGen"},
	{"Get", true, "getGen"},
	{"GetObject", true, "getObjectGen"},
	{"GetList", true, "getListGen"},
	{"GetString", true, "getStringGen"},
	{"GetBool", true, "getBoolGen"},
	{"GetInt", true, "getIntGen"},
	{"GetFloat", true, "getFloatGen"},
	{"TypeOf", true, "typeOfGen"},
	{"Add", true, "addGen"},
	{"Insert", true, "insertGen"},
	{"Replace", true, "replaceGen"},
	{"Delete", true, "deleteGen"},
	{"Pop", true, "popGen"},
	{"Clear", true, "clearGen"},
	{"Slice", true, "sliceGen"},
	{"ObjectSlice", true, "objectSliceGen"},
	{"ListSlice", true, "listSliceGen"},
	{"StringSlice", true, "stringSliceGen"},
	{"BoolSlice", true, "boolSliceGen"},
	{"IntSlice", true, "intSliceGen"},
	{"FloatSlice", true, "floatSliceGen"},
	{"Contains", true, "containsGen"},
	{"IndexOf", true, "indexOfGen"},
	{"Concat", true, "concatGen"},
	{"SubList", true, "subListGen"},
	{"Reverse", true, "reverseGen"},
	{"AllObjects", true, "allObjectsGen"},
	{"AllLists", true, "allListsGen"},
	{"AllStrings", true, "allStringsGen"},
	{"AllBools", true, "allBoolsGen"},
	{"AllInts", true, "allIntsGen"},
	{"AllFloats", true, "allFloatsGen"},
	{"AllNumeric", true, "allNumericGen"},
	{"NewList", false, "newListGen"},
	{"NewListOf", false, "newListOfGen"},
	{"Sort", true, "sortGen"},
	{"ForEach", true, "forEachGen"},
	{"ForEachValue", true, "forEachValueGen"},
	{"ForEachObject", true, "forEachObjectGen"},
	{"ForEachList", true, "forEachListGen"},
	{"ForEachString", true, "forEachStringGen"},
	{"ForEachBool", true, "forEachBoolGen"},
	{"ForEachInt", true, "forEachIntGen"},
	{"ForEachFloat", true, "forEachFloatGen"},
	{"Reduce", true, "reduceGen"},
	{"ReduceStrings", true, "reduceStringsGen"},
	{"ReduceInts", true, "reduceIntsGen"},
	{"ReduceFloats", true, "reduceFloatsGen"},
	{"Map", true, "mapGen"},
	{"MapValues", true, "mapValuesGen"},
	{"MapObjects", true, "mapObjectsGen"},
	{"MapLists", true, "mapListsGen"},
	{"MapStrings", true, "mapStringsGen"},
	{"MapBools", true, "mapBoolsGen"},
	{"MapInts", true, "mapIntsGen"},
	{"MapFloats", true, "mapFloatsGen"},
	{"IntSum", true, "intSumGen"},
	{"Sum", true, "sumGen"},
	{"IntProd", true, "intProdGen"},
	{"Prod", true, "prodGen"},
	{"Avg", true, "avgGen"},
}

// orderedListTargets is listTargets with every function behind the translated functions its body calls (a
// maintainer may express one method through another that the table lists later, e.g. Contains through IndexOf): the
// table order is kept wherever it already is callees-first.  A call is recognised syntactically (`F(…)` for a
// function, `x.M(…)` for a method of that name on any operand); a cycle is left in table order (the translator then
// refuses the call of the function that is not translated yet).
func orderedListTargets(pkg *pkgInfo) []int {
	index := map[string]int{}
	for i, t := range listTargets {
		if t.method {
			index["list."+t.goName] = i
		} else {
			index[t.goName] = i
		}
	}
	state := make([]int, len(listTargets)) // 0 new, 1 being visited, 2 done
	var out []int
	var visit func(i int)
	visit = func(i int) {
		if state[i] != 0 {
			return
		}
		state[i] = 1
		t := listTargets[i]
		var decl *ast.FuncDecl
		if t.method {
			if m := pkg.methods["list"][t.goName]; m != nil {
				decl = m.decl
			}
		} else {
			decl = pkg.funcs[t.goName]
		}
		if decl != nil && decl.Body != nil {
			ast.Inspect(decl.Body, func(n ast.Node) bool {
				if call, ok := n.(*ast.CallExpr); ok {
					switch fun := call.Fun.(type) {
					case *ast.Ident:
						if j, ok := index[fun.Name]; ok {
							visit(j)
						}
					case *ast.SelectorExpr:
						if j, ok := index["list."+fun.Sel.Name]; ok {
							visit(j)
						}
					}
				}
				return true
			})
		}
		state[i] = 2
		out = append(out, i)
	}
	for i := range listTargets {
		visit(i)
	}
	return out
}

// ---------------------------------------------------------------------------------------------
// data

// Go-level types of translated values and their Lean types
//
//	Int, Nat (a loop counter), Bool, Kind, GoVal, Field (an element of x.val), Val (a getVal() result),
//	Ref (a List / Object interface value), ListPtr (a *list: lean = its address),
//	Fresh (a local *list created by &list{…}: cell = index into env.cells),
//	Fields (= []field), Vals (a typed / untyped result slice), Ints, GoVals,
//	NilSlice (make([]field, n): lean = n), Strs / Flts (typed scalar slices inside Sort)
var leanTypeOf = map[string]string{"Int": "Int", "Nat": "Nat", "Bool": "Bool", "Kind": "Kind", "GoVal": "GoVal",
	"Field": "Val", "Val": "Val", "Ref": "Ref", "Fields": "List Val", "Vals": "List Val", "Ints": "List Int",
	"GoVals": "List GoVal", "Fresh": "Ref", "Unit": "Unit",
	"StrVals": "List Val", "IntVals": "List Val", "FloatVals": "List Val", "Alpha": "α", "F64": "F64"}

type lbind struct {
	typ  string
	lean string
	cell int    // Fresh
	hi   string // NilSlice: source of the length expression
	as   string // Val obtained by `v, ok := x.(T)` with a scalar T: the Go type T
	wrap bool   // Int computed from element values: arithmetic on it wraps to 64 bits (R14)
	// a local declared `var x any` (R15): typ is that of the value it holds ("NilAny": none yet)
	iface bool
	// Fields / Vals whose backing array is not that of an existing list: `[]T{}`, `make(…)`, `append(fresh, …)` (R8)
	fresh bool
	// a local whose value is let-bound (lean = the name): the Lean text of the value
	def string
}

type lcell struct {
	addr    string // Lean atom: "a" or the name bound to `h.length`
	pending string // "" = the heap is up to date
	virtual bool   // created by &list{…}, not yet appended to the heap
	inited  bool   // x.Init(x) seen
	// pending "<nil>…" (make([]field, n), R6): the Lean text of the summands of n when the slice was made,
	// and the Lean text of the slices copied into it so far (one per summand, in order)
	nilParts []string
	filled   []string
}

type lenv struct {
	recv    string // Go name of the receiver ("" in a plain function)
	recvIdx int    // its cell
	heap    string
	cells   []lcell
	locals  map[string]lbind
	subst   map[ast.Node]lbind
	nonneg  map[string]bool
	ltcount map[string]bool
	decls   []map[string]bool // names declared per open block
	saved   []map[string]lbind
}

func (e *lenv) clone() *lenv {
	c := &lenv{recv: e.recv, recvIdx: e.recvIdx, heap: e.heap, cells: append([]lcell(nil), e.cells...),
		locals: map[string]lbind{}, subst: map[ast.Node]lbind{}, nonneg: map[string]bool{}, ltcount: map[string]bool{}}
	for k, v := range e.locals {
		c.locals[k] = v
	}
	for k, v := range e.subst {
		c.subst[k] = v
	}
	for k, v := range e.nonneg {
		c.nonneg[k] = v
	}
	for k, v := range e.ltcount {
		c.ltcount[k] = v
	}
	for _, d := range e.decls {
		m := map[string]bool{}
		for k, v := range d {
			m[k] = v
		}
		c.decls = append(c.decls, m)
	}
	for _, d := range e.saved {
		m := map[string]lbind{}
		for k, v := range d {
			m[k] = v
		}
		c.saved = append(c.saved, m)
	}
	return c
}

func (e *lenv) define(name string, b lbind) {
	if name == "_" {
		return
	}
	e.locals[name] = b
	if n := len(e.decls); n > 0 {
		e.decls[n-1][name] = true
	}
}

type lshape struct{ heap, out bool }

type lfun struct {
	goName, lean string
	method       bool
	decl         *ast.FuncDecl
	recv         string
	heap, out    bool
	resTyp       string // Go-level type of the result value
	params       []lparam
	cb           *lcallback
	text         string
}

type lparam struct {
	goName, lean, typ string
	goTyp             string
	variadic          bool
}

// the callback parameter of a method (R13)
type lcallback struct {
	goName   string
	nargs    int
	argTyps  []string // Lean-level types of the arguments, fixed by the first call
	resTyp   string   // "" (observer), "GoVal", "Bool", "Alpha"
	resGo    string   // Go type of the result
	observer bool
}

const logVar = "§log"

func (cb *lcallback) leanType() string {
	parts := []string{}
	for _, t := range cb.argTyps {
		parts = append(parts, paren(leanTypeOf[normTyp(t)]))
	}
	parts = append(parts, leanTypeOf[cb.resTyp])
	return strings.Join(parts, " → ")
}

func (cb *lcallback) logType() string {
	var parts []string
	for _, t := range cb.argTyps {
		parts = append(parts, leanTypeOf[normTyp(t)])
	}
	return "List " + paren(strings.Join(parts, " × "))
}

type lretry struct{ heap, out bool }

type lkont func(*lenv) lnode

type lgen struct {
	pkg  *pkgInfo
	funs map[string]*lfun // "list.Count" / "NewList"
}

// translation context of one function (and of the loop helpers generated for it)
type lctx struct {
	g       *lgen
	f       *lfun
	shape   lshape // of the definition being generated (function or helper)
	unitRes bool   // the definition's value result is Unit (heap loop helper)
	helpers []string
	nfresh  map[string]int
	nloops  int
	// inside a loop body
	loopKind string // "", "search", "heap", "val", "acc"
	loopEnd  lkont
	inLoop   bool
	loopCell int    // "val" loops: the cell whose slice is carried
	named    string // the named result, if there is one
}

var lReserved = regexp.MustCompile(`^([hantvkpxs]\d*|xs|rest|fun|end|from|do|then|with|open|in|show|have|match|if|else|let|by|def|at|where|theorem|instance|structure|class|namespace|section|mutual|sort|local|prefix|macro|syntax|import|export|private|protected|deriving|universe|variable|example|abbrev|inductive|fun|Type|Prop|Sort)$`)

func lname(goName string) string {
	if goName == logVar {
		return "log"
	}
	if goName == "log" {
		return "log_"
	}
	if lReserved.MatchString(goName) {
		return goName + "_"
	}
	return goName
}

func (x *lctx) fresh(base string) string {
	x.nfresh[base]++
	return base + strconv.Itoa(x.nfresh[base])
}

func isAtom(s string) bool {
	return !strings.ContainsAny(s, " ") || paren(s) == s
}

func key(e ast.Expr) string { return strings.ReplaceAll(src(unparen(e)), " ", "") }

func intLit(e ast.Expr) (int64, bool) {
	l, ok := unparen(e).(*ast.BasicLit)
	if !ok || l.Kind != token.INT {
		return 0, false
	}
	v, err := strconv.ParseInt(l.Value, 0, 64)
	return v, err == nil
}

func resultType(s lshape, t string) string {
	switch {
	case s.heap && s.out:
		return "Heap × Out " + paren(t)
	case s.heap:
		return "Heap × " + paren(t)
	case s.out:
		return "Out " + paren(t)
	}
	return t
}

// ---------------------------------------------------------------------------------------------
// facts established by dominating tests

// the cell whose element count e denotes: `ego.Ego().Count()`, `ego.Count()`, `len(ego.val)`
func (x *lctx) countCell(env *lenv, e ast.Expr) (int, bool) {
	e = unparen(e)
	call, ok := e.(*ast.CallExpr)
	if !ok {
		return 0, false
	}
	if isIdent(call.Fun, "len") && len(call.Args) == 1 {
		if s, ok := unparen(call.Args[0]).(*ast.SelectorExpr); ok && s.Sel.Name == "val" {
			return x.recvCell(env, s.X)
		}
		return 0, false
	}
	if s, ok := call.Fun.(*ast.SelectorExpr); ok && s.Sel.Name == "Count" && len(call.Args) == 0 {
		return x.recvCell(env, s.X)
	}
	return 0, false
}

func (x *lctx) learn(env *lenv, c ast.Expr, truth bool) {
	c = unparen(c)
	switch c := c.(type) {
	case *ast.UnaryExpr:
		if c.Op == token.NOT {
			x.learn(env, c.X, !truth)
		}
	case *ast.BinaryExpr:
		op := c.Op
		if (op == token.LOR && !truth) || (op == token.LAND && truth) {
			x.learn(env, c.X, truth)
			x.learn(env, c.Y, truth)
			return
		}
		if !truth {
			switch op {
			case token.LSS:
				op = token.GEQ
			case token.GEQ:
				op = token.LSS
			case token.GTR:
				op = token.LEQ
			case token.LEQ:
				op = token.GTR
			default:
				return
			}
		}
		a, b := c.X, c.Y
		// normalise to a < b / a <= b
		switch op {
		case token.GTR:
			a, b, op = b, a, token.LSS
		case token.GEQ:
			a, b, op = b, a, token.LEQ
		}
		switch op {
		case token.LSS:
			if c, ok := x.countCell(env, b); ok {
				env.ltcount[strconv.Itoa(c)+":"+key(a)] = true
			}
		case token.LEQ:
			if v, ok := intLit(a); ok && v == 0 {
				env.nonneg[key(b)] = true
			}
			// a <= b: b - a >= 0
			env.nonneg[key(b)+"-"+key(a)] = true
		}
	}
}

func (x *lctx) isLength(env *lenv, e ast.Expr) bool {
	e = unparen(e)
	if _, ok := x.countCell(env, e); ok {
		return true
	}
	if call, ok := e.(*ast.CallExpr); ok && isIdent(call.Fun, "len") && len(call.Args) == 1 {
		return true
	}
	if b, ok := e.(*ast.BinaryExpr); ok && b.Op == token.ADD {
		return x.isLength(env, b.X) && x.isLength(env, b.Y)
	}
	return false
}

func (x *lctx) isNonneg(env *lenv, e ast.Expr) bool {
	e = unparen(e)
	if v, ok := intLit(e); ok {
		return v >= 0
	}
	if env.nonneg[key(e)] || x.isLength(env, e) {
		return true
	}
	if id, ok := e.(*ast.Ident); ok {
		if b, ok := env.locals[id.Name]; ok && b.typ == "Nat" {
			return true
		}
	}
	if b, ok := e.(*ast.BinaryExpr); ok {
		switch b.Op {
		case token.ADD:
			return x.isNonneg(env, b.X) && x.isNonneg(env, b.Y)
		case token.QUO:
			return x.isNonneg(env, b.X) && x.isNonneg(env, b.Y)
		}
	}
	return false
}

// forget what is known about a local that is assigned
func (env *lenv) forget(name string) {
	for k := range env.nonneg {
		if strings.Contains(k, name) {
			delete(env.nonneg, k)
		}
	}
	for k := range env.ltcount {
		if strings.Contains(k, name) {
			delete(env.ltcount, k)
		}
	}
}

func (env *lenv) heapChanged() {
	env.ltcount = map[string]bool{}
	// facts that mention a call (a count) are about the old heap
	for k := range env.nonneg {
		if strings.Contains(k, "(") {
			delete(env.nonneg, k)
		}
	}
}

// ---------------------------------------------------------------------------------------------
// pure expressions

// the cell a receiver expression denotes: `ego`, `ego.Ego()`, a Fresh local
func (x *lctx) recvCell(env *lenv, e ast.Expr) (int, bool) {
	e = unparen(e)
	if call, ok := e.(*ast.CallExpr); ok && len(call.Args) == 0 {
		if s, ok := call.Fun.(*ast.SelectorExpr); ok && s.Sel.Name == "Ego" {
			return x.recvCell(env, s.X)
		}
		return 0, false
	}
	id, ok := e.(*ast.Ident)
	if !ok {
		return 0, false
	}
	if b, ok := env.locals[id.Name]; ok {
		if b.typ == "Fresh" {
			return b.cell, true
		}
		return 0, false
	}
	if env.recv != "" && id.Name == env.recv {
		return env.recvIdx, true
	}
	return 0, false
}

// the slice made by make([]field, n) has no translation before the copies have filled it (R6)
func notNil(n ast.Node, c lcell) {
	if strings.HasPrefix(c.pending, "<nil>") {
		failAt(n, "the slice made with length %s is used before it is completely filled by copy (R6)", strings.TrimPrefix(c.pending, "<nil>"))
	}
}

func (x *lctx) valOf(env *lenv, n ast.Node, c int) string {
	cell := env.cells[c]
	if cell.pending != "" {
		notNil(n, cell)
		return cell.pending
	}
	if cell.virtual {
		failAt(n, "internal: virtual cell without contents")
	}
	return env.heap + ".items " + cell.addr
}

func (x *lctx) toNat(env *lenv, e ast.Expr) string {
	e = unparen(e)
	if v, ok := intLit(e); ok && v >= 0 {
		return strconv.FormatInt(v, 10)
	}
	if b, ok := e.(*ast.BinaryExpr); ok && b.Op == token.ADD {
		if v, ok := intLit(b.Y); ok && v >= 0 && x.isNonneg(env, b.X) {
			return x.toNat(env, b.X) + " + " + strconv.FormatInt(v, 10)
		}
	}
	v := x.expr(env, e)
	switch v.typ {
	case "Nat":
		return v.lean
	case "Int":
		return paren(v.lean) + ".toNat"
	}
	failAt(e, "%s is not an integer", src(e))
	return ""
}

func (x *lctx) asInt(e ast.Expr, v lbind) string {
	switch v.typ {
	case "Int":
		return v.lean
	case "Nat":
		return "(" + v.lean + " : Int)"
	case "Val":
		if v.as == "int" {
			return "intOf " + paren(v.lean) // R14
		}
	}
	failAt(e, "%s is not an integer (it is a %s)", src(e), v.typ)
	return ""
}

func (x *lctx) asF64(e ast.Expr, v lbind) string {
	switch {
	case v.typ == "F64":
		return v.lean
	case v.typ == "Val" && v.as == "float64":
		return "floatOf " + paren(v.lean) // R14
	}
	failAt(e, "%s is not a float64 (it is a %s)", src(e), v.typ)
	return ""
}

func (x *lctx) kindOfType(n ast.Node, t ast.Expr, operandTyp string) string {
	var k string
	var ok bool
	switch operandTyp {
	case "Field":
		k, ok = fieldKinds[src(t)]
	case "Val":
		k, ok = anyKinds[src(t)]
	default:
		failAt(n, "type test on a value of type %s", operandTyp)
	}
	if !ok {
		failAt(n, "type %s cannot be tested on a %s", src(t), operandTyp)
	}
	return "." + k
}

func (x *lctx) expr(env *lenv, e ast.Expr) lbind {
	if b, ok := env.subst[e]; ok {
		return b
	}
	switch e := e.(type) {
	case *ast.ParenExpr:
		return x.expr(env, e.X)
	case *ast.BasicLit:
		if e.Kind == token.INT {
			return lbind{typ: "Int", lean: e.Value}
		}
	case *ast.Ident:
		if b, ok := env.locals[e.Name]; ok {
			if b.typ == "NilAny" {
				failAt(e, "%s is read before a value is assigned to it", e.Name)
			}
			return b
		}
		switch e.Name {
		case "true", "false":
			return lbind{typ: "Bool", lean: e.Name}
		case "nil":
			return lbind{typ: "GoVal", lean: ".nil"}
		}
		if k, ok := typeConsts[e.Name]; ok {
			return lbind{typ: "Kind", lean: k}
		}
	case *ast.UnaryExpr:
		switch e.Op {
		case token.NOT:
			v := x.expr(env, e.X)
			if v.typ != "Bool" {
				failAt(e, "`!` on a %s", v.typ)
			}
			return lbind{typ: "Bool", lean: "!" + paren(v.lean)}
		case token.SUB:
			v := x.expr(env, e.X)
			return lbind{typ: "Int", lean: "-" + paren(x.asInt(e.X, v))}
		}
	case *ast.BinaryExpr:
		return x.binary(env, e)
	case *ast.SelectorExpr:
		if e.Sel.Name == "val" {
			if c, ok := x.recvCell(env, e.X); ok {
				return lbind{typ: "Fields", lean: x.valOf(env, e, c)}
			}
			v := x.expr(env, e.X)
			if v.typ == "ListPtr" {
				return lbind{typ: "Fields", lean: env.heap + ".items " + paren(v.lean)}
			}
			if v.typ == "TmpList" {
				return lbind{typ: "Fields", lean: v.lean}
			}
		}
	case *ast.SliceExpr:
		if e.Slice3 {
			break
		}
		xs := x.expr(env, e.X)
		if xs.typ != "Fields" {
			failAt(e, "slice expression on a %s", xs.typ)
		}
		switch {
		case e.Low == nil && e.High != nil:
			if !x.isNonneg(env, e.High) {
				failAt(e, "upper bound %s is not known to be non-negative", src(e.High))
			}
			return lbind{typ: "Fields", lean: paren(xs.lean) + ".take " + paren(x.toNat(env, e.High))}
		case e.Low != nil && e.High == nil:
			if !x.isNonneg(env, e.Low) {
				failAt(e, "lower bound %s is not known to be non-negative", src(e.Low))
			}
			return lbind{typ: "Fields", lean: paren(xs.lean) + ".drop " + paren(x.toNat(env, e.Low))}
		case e.Low != nil && e.High != nil:
			if !x.isNonneg(env, e.Low) {
				failAt(e, "lower bound %s is not known to be non-negative", src(e.Low))
			}
			if !env.nonneg[key(e.High)+"-"+key(e.Low)] {
				failAt(e, "%s <= %s is not known", src(e.Low), src(e.High))
			}
			lo, hi := x.expr(env, e.Low), x.expr(env, e.High)
			n := "(" + x.asInt(e.High, hi) + " - " + x.asInt(e.Low, lo) + ").toNat"
			return lbind{typ: "Fields", lean: "(" + paren(xs.lean) + ".drop " + paren(x.toNat(env, e.Low)) + ").take " + n}
		}
	case *ast.CompositeLit:
		if at, ok := e.Type.(*ast.ArrayType); ok && at.Len == nil && len(e.Elts) == 0 && src(at.Elt) == "field" {
			return lbind{typ: "Fields", lean: "[]", fresh: true}
		}
	case *ast.CallExpr:
		return x.callExpr(env, e)
	}
	failAt(e, "unrecognised expression: %s", src(e))
	return lbind{}
}

func (x *lctx) binary(env *lenv, e *ast.BinaryExpr) lbind {
	a, b := x.expr(env, e.X), x.expr(env, e.Y)
	isF := func(v lbind) bool { return v.typ == "F64" || (v.typ == "Val" && v.as == "float64") }
	if isF(a) && isF(b) {
		op := map[token.Token]string{token.ADD: "add", token.MUL: "mul", token.QUO: "div"}[e.Op]
		if op == "" {
			failAt(e, "unsupported float operation: %s", src(e))
		}
		return lbind{typ: "F64", lean: "FloatArith." + op + " " + paren(x.asF64(e.X, a)) + " " + paren(x.asF64(e.Y, b))}
	}
	unbox := func(v *lbind, e ast.Expr) {
		if v.typ == "Val" && v.as == "int" {
			*v = lbind{typ: "Int", lean: x.asInt(e, *v), wrap: true}
		}
	}
	if e.Op != token.EQL && e.Op != token.NEQ {
		unbox(&a, e.X)
		unbox(&b, e.Y)
	}
	isNum := func(t string) bool { return t == "Int" || t == "Nat" }
	switch e.Op {
	case token.LAND, token.LOR:
		if a.typ != "Bool" || b.typ != "Bool" {
			failAt(e, "logical operator on %s, %s", a.typ, b.typ)
		}
		op := " || "
		if e.Op == token.LAND {
			op = " && "
		}
		return lbind{typ: "Bool", lean: paren(a.lean) + op + paren(b.lean)}
	case token.LSS, token.GTR, token.LEQ, token.GEQ:
		if !isNum(a.typ) || !isNum(b.typ) {
			failAt(e, "comparison of %s, %s", a.typ, b.typ)
		}
		op := map[token.Token]string{token.LSS: " < ", token.GTR: " > ", token.LEQ: " <= ", token.GEQ: " >= "}[e.Op]
		return lbind{typ: "Bool", lean: paren(x.asInt(e.X, a)) + op + paren(x.asInt(e.Y, b))}
	case token.EQL, token.NEQ:
		op := " == "
		if e.Op == token.NEQ {
			op = " != "
		}
		switch {
		case isNum(a.typ) && isNum(b.typ):
			return lbind{typ: "Bool", lean: paren(x.asInt(e.X, a)) + op + paren(x.asInt(e.Y, b))}
		case a.typ == "Kind" && b.typ == "Kind":
			return lbind{typ: "Bool", lean: paren(a.lean) + op + paren(b.lean)}
		case a.typ == "Val" && b.typ == "Val":
			// == on interface values
			s := "L.goEq " + paren(a.lean) + " " + paren(b.lean)
			if e.Op == token.NEQ {
				s = "!(" + s + ")"
			}
			return lbind{typ: "Bool", lean: s}
		}
		failAt(e, "comparison of %s, %s", a.typ, b.typ)
	case token.ADD, token.SUB, token.MUL:
		if !isNum(a.typ) || !isNum(b.typ) {
			failAt(e, "arithmetic on %s, %s", a.typ, b.typ)
		}
		op := map[token.Token]string{token.ADD: " + ", token.SUB: " - ", token.MUL: " * "}[e.Op]
		l, r := x.asInt(e.X, a), x.asInt(e.Y, b)
		if a.wrap || b.wrap {
			// arithmetic on element values wraps to 64 bits
			return lbind{typ: "Int", lean: "wrap64 (" + paren(l) + op + paren(r) + ")", wrap: true}
		}
		if e.Op == token.ADD || e.Op == token.SUB {
			// left-associative chains need no parentheses on the left
			if _, ok := unparen(e.X).(*ast.BinaryExpr); !ok {
				l = paren(l)
			} else if lb := unparen(e.X).(*ast.BinaryExpr); lb.Op != token.ADD && lb.Op != token.SUB {
				l = paren(l)
			}
			return lbind{typ: "Int", lean: l + op + paren(r)}
		}
		return lbind{typ: "Int", lean: paren(l) + op + paren(r)}
	case token.QUO:
		if v, ok := intLit(e.Y); !ok || v <= 0 || !x.isLength(env, e.X) {
			failAt(e, "division other than <length> / <positive literal>: %s", src(e))
		}
		return lbind{typ: "Int", lean: paren(x.asInt(e.X, a)) + " / " + b.lean}
	}
	failAt(e, "unrecognised operator in %s", src(e))
	return lbind{}
}

// the translated function a call denotes, the cell it is called on (-1: plain function) and its arguments
func (x *lctx) resolve(env *lenv, call *ast.CallExpr) (*lfun, int, bool) {
	switch fun := call.Fun.(type) {
	case *ast.Ident:
		if f, ok := x.g.funs[fun.Name]; ok {
			return f, -1, true
		}
	case *ast.SelectorExpr:
		if c, ok := x.recvCell(env, fun.X); ok {
			if f, ok := x.g.funs["list."+fun.Sel.Name]; ok {
				return f, c, true
			}
		}
	}
	return nil, 0, false
}

// the arguments of a call of a translated function, as Lean
func (x *lctx) callArgs(env *lenv, f *lfun, call *ast.CallExpr) []string {
	var out []string
	args := call.Args
	for i, p := range f.params {
		if p.variadic {
			if i != len(f.params)-1 {
				failAt(call, "internal: variadic parameter is not the last one")
			}
			if call.Ellipsis.IsValid() {
				if len(args) != i+1 {
					failAt(call, "unexpected arguments in %s", src(call))
				}
				v := x.expr(env, args[i])
				if v.typ != p.typ {
					failAt(args[i], "argument %s has type %s, expected %s", src(args[i]), v.typ, p.typ)
				}
				out = append(out, paren(v.lean))
				return out
			}
			elem := map[string]string{"GoVals": "GoVal", "Ints": "Int"}[p.typ]
			var items []string
			for _, a := range args[i:] {
				items = append(items, x.argAs(env, a, elem))
			}
			out = append(out, "["+strings.Join(items, ", ")+"]")
			return out
		}
		if i >= len(args) {
			failAt(call, "too few arguments in %s", src(call))
		}
		out = append(out, paren(x.argAs(env, args[i], p.typ)))
	}
	if len(args) != len(f.params) {
		failAt(call, "too many arguments in %s", src(call))
	}
	return out
}

func (x *lctx) argAs(env *lenv, a ast.Expr, want string) string {
	v := x.expr(env, a)
	switch {
	case v.typ == want:
		return v.lean
	case want == "Int" && v.typ == "Nat":
		return x.asInt(a, v)
	case want == "GoVal" && v.typ == "Val":
		// a getVal() result handed to parseVal
		return "Val.toGo " + paren(v.lean)
	}
	failAt(a, "argument %s has type %s, expected %s", src(a), v.typ, want)
	return ""
}

// is the call one that must be hoisted (it changes the heap or can panic)?
func (x *lctx) effectful(env *lenv, call *ast.CallExpr) bool {
	if isIdent(call.Fun, "parseVal") {
		return true
	}
	if s, ok := call.Fun.(*ast.SelectorExpr); ok && s.Sel.Name == "base" && len(call.Args) == 0 {
		return true // may panic (nil interface)
	}
	if f, _, ok := x.resolve(env, call); ok {
		return f.heap || f.out
	}
	return false
}

func (x *lctx) isCallback(env *lenv, call *ast.CallExpr) bool {
	id, ok := call.Fun.(*ast.Ident)
	if !ok || x.f.cb == nil || id.Name != x.f.cb.goName {
		return false
	}
	b, ok := env.locals[id.Name]
	return ok && b.typ == "Func"
}

// the arguments of a call of the callback; the first call fixes their types
func (x *lctx) callbackArgs(env *lenv, call *ast.CallExpr) []string {
	cb := x.f.cb
	if len(call.Args) != cb.nargs {
		failAt(call, "the callback is called with %d arguments", len(call.Args))
	}
	var out, typs []string
	for _, a := range call.Args {
		v := x.expr(env, a)
		t := normTyp(v.typ)
		if t == "Nat" {
			t, v.lean = "Int", x.asInt(a, v)
		}
		switch t {
		case "Int", "Val", "Alpha":
		default:
			failAt(a, "a %s is handed to the callback", v.typ)
		}
		typs = append(typs, t)
		out = append(out, paren(v.lean))
	}
	if cb.argTyps == nil {
		cb.argTyps = typs
	} else if strings.Join(cb.argTyps, ",") != strings.Join(typs, ",") {
		failAt(call, "the callback is called with arguments of different types")
	}
	return out
}

// a method consisting of `return e` only
func inlineBody(f *lfun) (ast.Expr, bool) {
	if len(f.decl.Body.List) != 1 || len(f.params) != 0 {
		return nil, false
	}
	r, ok := f.decl.Body.List[0].(*ast.ReturnStmt)
	if !ok || len(r.Results) != 1 {
		return nil, false
	}
	return r.Results[0], true
}

func (x *lctx) callExpr(env *lenv, call *ast.CallExpr) lbind {
	// builtins
	if id, ok := call.Fun.(*ast.Ident); ok {
		switch id.Name {
		case "len":
			if len(call.Args) == 1 {
				v := x.expr(env, call.Args[0])
				switch v.typ {
				case "Fields", "Vals", "Ints", "GoVals":
					return lbind{typ: "Int", lean: "(" + paren(v.lean) + ".length : Int)"}
				}
				failAt(call, "len of a %s", v.typ)
			}
		case "append":
			if len(call.Args) == 2 {
				xs, y := x.expr(env, call.Args[0]), x.expr(env, call.Args[1])
				elem := map[string]string{"Fields": "Field", "Vals": "Val", "Ints": "Int", "GoVals": "GoVal"}[xs.typ]
				if elem == "" {
					failAt(call, "append to a %s", xs.typ)
				}
				if call.Ellipsis.IsValid() {
					if y.typ != xs.typ {
						failAt(call, "append of a %s to a %s", y.typ, xs.typ)
					}
					if xs.lean == "[]" {
						return lbind{typ: xs.typ, lean: y.lean, fresh: xs.fresh}
					}
					return lbind{typ: xs.typ, lean: paren(xs.lean) + " ++ " + paren(y.lean), fresh: xs.fresh}
				}
				// a stored field appended to a slice of interface values keeps its representation
				if y.typ != elem && !(elem == "Val" && y.typ == "Field") {
					failAt(call, "append of a %s to a %s", y.typ, xs.typ)
				}
				return lbind{typ: xs.typ, lean: paren(xs.lean) + " ++ [" + y.lean + "]", fresh: xs.fresh}
			}
		case "float64":
			if len(call.Args) == 1 {
				v := x.expr(env, call.Args[0])
				if v.typ == "F64" || (v.typ == "Val" && v.as == "float64") {
					return lbind{typ: "F64", lean: x.asF64(call.Args[0], v)}
				}
				return lbind{typ: "F64", lean: "FloatArith.ofInt " + paren(x.asInt(call.Args[0], v))}
			}
		case "make":
			// make([]T, 0, c): the size check, if one is needed, has been hoisted
			if len(call.Args) == 3 {
				if v, ok := intLit(call.Args[1]); ok && v == 0 {
					if at, ok := call.Args[0].(*ast.ArrayType); ok && at.Len == nil {
						t := "Vals"
						if src(at.Elt) == "field" {
							t = "Fields"
						}
						if !x.isNonneg(env, call.Args[2]) && !env.nonneg[key(call.Args[2])] {
							failAt(call, "internal: unchecked capacity")
						}
						return lbind{typ: t, lean: "[]", fresh: true}
					}
				}
			}
			if len(call.Args) == 2 {
				if at, ok := call.Args[0].(*ast.ArrayType); ok && at.Len == nil && src(at.Elt) == "field" {
					if !x.isNonneg(env, call.Args[1]) {
						failAt(call, "internal: unchecked length")
					}
					return lbind{typ: "NilSlice", lean: x.asInt(call.Args[1], x.expr(env, call.Args[1])), hi: key(call.Args[1])}
				}
			}
		}
	}
	if s, ok := call.Fun.(*ast.SelectorExpr); ok {
		// x.Ego()
		if s.Sel.Name == "Ego" && len(call.Args) == 0 {
			if c, ok := x.recvCell(env, s.X); ok {
				cell := env.cells[c]
				if cell.virtual || c != env.recvIdx {
					return lbind{typ: "Ref", lean: "⟨" + cell.addr + ", 0⟩"}
				}
				return lbind{typ: "Ref", lean: env.heap + ".egoRef " + cell.addr}
			}
		}
		// item.getVal()
		if s.Sel.Name == "getVal" && len(call.Args) == 0 {
			if _, isRecv := x.recvCell(env, s.X); !isRecv {
				v := x.expr(env, s.X)
				if v.typ == "Field" {
					return lbind{typ: "Val", lean: env.heap + ".getVal " + paren(v.lean)}
				}
				failAt(call, "getVal() of a %s", v.typ)
			}
		}
	}
	// the callback (R13)
	if x.isCallback(env, call) {
		cb := x.f.cb
		if cb.observer {
			failAt(call, "a callback without result is called inside an expression")
		}
		args := x.callbackArgs(env, call)
		return lbind{typ: cb.resTyp, lean: lname(cb.goName) + " " + strings.Join(args, " ")}
	}
	// a pure translated function
	if f, c, ok := x.resolve(env, call); ok {
		if f.heap || f.out {
			failAt(call, "internal: call of %s was not hoisted", f.goName)
		}
		if c >= 0 && env.cells[c].pending != "" {
			// R2: inline `return e`
			body, ok := inlineBody(f)
			if !ok {
				failAt(call, "%s is called while %s.val has a pending value and cannot be inlined", f.goName, src(call.Fun.(*ast.SelectorExpr).X))
			}
			e2 := env.clone()
			e2.recv, e2.recvIdx = f.recv, c
			e2.locals = map[string]lbind{}
			return x.expr(e2, body)
		}
		args := x.callArgs(env, f, call)
		head := f.lean + " " + env.heap
		if c >= 0 {
			head += " " + env.cells[c].addr
		}
		typ := f.resTyp
		if typ == "Vals" {
			// R12: a typed scalar slice is the list of the values of that kind
			switch src(f.decl.Type.Results.List[0].Type) {
			case "[]string":
				typ = "StrVals"
			case "[]int":
				typ = "IntVals"
			case "[]float64":
				typ = "FloatVals"
			}
		}
		return lbind{typ: typ, lean: strings.TrimSpace(head + " " + strings.Join(args, " "))}
	}
	failAt(call, "unrecognised call: %s", src(call))
	return lbind{}
}

// ---------------------------------------------------------------------------------------------
// leaves, flushing, hoisting

func (x *lctx) needHeap(n ast.Node) {
	if !x.f.heap {
		panic(&lretry{heap: true, out: true})
	}
	if !x.shape.heap {
		failAt(n, "heap operation inside a loop that does not carry the heap: %s", src(n))
	}
}

func (x *lctx) needOut(n ast.Node) {
	if !x.f.out {
		panic(&lretry{out: true})
	}
	if !x.shape.out {
		failAt(n, "possible panic inside a loop that cannot panic: %s", src(n))
	}
}

// write the pending values back (R2, R8)
func (x *lctx) flush(env *lenv, n ast.Node, k lkont) lnode {
	for i := range env.cells {
		c := env.cells[i]
		if c.pending == "" {
			continue
		}
		x.needHeap(n)
		notNil(n, c)
		e := env.clone()
		h1 := x.fresh("h")
		var val string
		if c.virtual {
			if !c.inited {
				failAt(n, "the new list is used before Init")
			}
			val = env.heap + " ++ [.list " + paren(c.pending) + " 0]"
		} else {
			val = env.heap + ".setItems " + c.addr + " " + paren(c.pending)
		}
		e.cells[i].pending, e.cells[i].virtual = "", false
		e.heap = h1
		e.heapChanged()
		body := lLet{name: h1, val: val, body: x.flush(e, n, k)}
		if c.virtual {
			return lLet{name: c.addr, val: env.heap + ".length", body: body}
		}
		return body
	}
	return k(env)
}

func (x *lctx) panicLeaf(env *lenv, n ast.Node, kexpr string) lnode {
	x.needOut(n)
	if x.shape.heap {
		return x.flush(env, n, func(e *lenv) lnode { return lLeaf{"(" + e.heap + ", .panic " + kexpr + ")"} })
	}
	return lLeaf{".panic " + kexpr}
}

// the `none` arm of an element read; proven: dominating tests put the index in range
func (x *lctx) deadLeaf(env *lenv, n ast.Node, proven bool) lnode {
	if !proven {
		x.needOut(n)
	}
	if x.shape.out {
		return x.panicLeaf(env, n, ".runtime")
	}
	if x.loopKind != "" && x.loopKind != "search" {
		failAt(n, "element read that may fail inside a loop: %s", src(n))
	}
	z, ok := map[string]string{"Type": ".undefined", "bool": "false", "int": "0"}[x.goResult()]
	if !ok {
		failAt(n, "no zero value known for the result type %s", x.goResult())
	}
	return lLeaf{z}
}

// the Lean type of a value of the Go-level type typ
func (x *lctx) ltype(typ string) (string, bool) {
	switch typ {
	case "Log":
		return x.f.cb.logType(), true
	case "Func":
		return x.f.cb.leanType(), true
	}
	t, ok := leanTypeOf[normTyp(typ)]
	return t, ok
}

func (x *lctx) goResult() string {
	r := x.f.decl.Type.Results
	if r == nil || len(r.List) != 1 || len(r.List[0].Names) > 1 {
		return ""
	}
	return src(r.List[0].Type)
}

func normTyp(t string) string {
	switch t {
	case "Field":
		return "Val"
	case "Fresh":
		return "Ref"
	case "Fields":
		return "Vals"
	}
	return t
}

func (x *lctx) retLeaf(env *lenv, n ast.Node, v lbind) lnode {
	if x.loopKind != "" && x.loopKind != "search" {
		failAt(n, "return inside a loop that is not a search loop")
	}
	t := normTyp(v.typ)
	if _, ok := x.ltype(t); !ok {
		failAt(n, "a %s cannot be returned", v.typ)
	}
	if x.f.resTyp == "" {
		x.f.resTyp = t
	} else if x.f.resTyp != t {
		failAt(n, "results of different types: %s and %s", x.f.resTyp, t)
	}
	if !x.shape.heap {
		for _, c := range env.cells {
			if c.pending != "" {
				failAt(n, "internal: pending store in a function that does not return the heap")
			}
		}
		if x.shape.out {
			return lLeaf{".ok " + paren(v.lean)}
		}
		return lLeaf{v.lean}
	}
	val := v.lean
	if v.typ == "Fresh" {
		c := env.cells[v.cell]
		val = "⟨" + c.addr + ", 0⟩"
		if c.virtual {
			if !c.inited {
				failAt(n, "the new list is returned before Init")
			}
			notNil(n, c)
			// the other cells first
			e := env.clone()
			e.cells[v.cell].pending = ""
			return x.flush(e, n, func(e2 *lenv) lnode {
				return lLet{name: c.addr, val: e2.heap + ".length",
					body: lLeaf{"(" + e2.heap + " ++ [.list " + paren(c.pending) + " 0], .ok " + val + ")"}}
			})
		}
	}
	dirty := -1
	nd := 0
	for i, c := range env.cells {
		if c.pending != "" {
			dirty = i
			nd++
		}
	}
	switch {
	case nd == 0:
		return lLeaf{"(" + env.heap + ", .ok " + paren(val) + ")"}
	case nd == 1 && !env.cells[dirty].virtual:
		c := env.cells[dirty]
		return lLeaf{"(" + env.heap + ".setItems " + c.addr + " " + paren(c.pending) + ", .ok " + paren(val) + ")"}
	}
	return x.flush(env, n, func(e *lenv) lnode { return lLeaf{"(" + e.heap + ", .ok " + paren(val) + ")"} })
}

// the sub-expressions of e that have an effect, inner first, left to right
func (x *lctx) effects(env *lenv, e ast.Expr, out *[]ast.Expr) {
	if e == nil {
		return
	}
	if _, done := env.subst[e]; done {
		return
	}
	switch e := e.(type) {
	case *ast.ParenExpr:
		x.effects(env, e.X, out)
	case *ast.UnaryExpr:
		x.effects(env, e.X, out)
	case *ast.BinaryExpr:
		x.effects(env, e.X, out)
		x.effects(env, e.Y, out)
	case *ast.SelectorExpr:
		x.effects(env, e.X, out)
	case *ast.SliceExpr:
		x.effects(env, e.X, out)
		x.effects(env, e.Low, out)
		x.effects(env, e.High, out)
	case *ast.IndexExpr:
		x.effects(env, e.X, out)
		x.effects(env, e.Index, out)
		*out = append(*out, e)
	case *ast.TypeAssertExpr:
		x.effects(env, e.X, out)
		*out = append(*out, e)
	case *ast.CompositeLit:
		for _, el := range e.Elts {
			if kv, ok := el.(*ast.KeyValueExpr); ok {
				x.effects(env, kv.Value, out)
			} else {
				x.effects(env, el, out)
			}
		}
	case *ast.CallExpr:
		if s, ok := e.Fun.(*ast.SelectorExpr); ok {
			x.effects(env, s.X, out)
		}
		for _, a := range e.Args {
			if _, isType := a.(*ast.ArrayType); !isType {
				x.effects(env, a, out)
			}
		}
		if x.effectful(env, e) {
			*out = append(*out, e)
		}
		if isIdent(e.Fun, "make") && len(e.Args) >= 2 && !x.isNonneg(env, e.Args[len(e.Args)-1]) {
			*out = append(*out, e)
		}
	}
}

// hoist the effects of the expressions (R3); hint: the name to give the result of the last one
func (x *lctx) hoist(env *lenv, es []ast.Expr, hint string, k lkont) lnode {
	var nodes []ast.Expr
	for _, e := range es {
		x.effects(env, e, &nodes)
	}
	return x.hoistNodes(env, nodes, hint, k)
}

func (x *lctx) hoistNodes(env *lenv, nodes []ast.Expr, hint string, k lkont) lnode {
	if len(nodes) == 0 {
		return k(env)
	}
	name := func(base string) string {
		if len(nodes) == 1 && hint != "" && hint != "_" {
			return lname(hint)
		}
		return x.fresh(base)
	}
	next := func(e *lenv) lnode { return x.hoistNodes(e, nodes[1:], hint, k) }
	switch n := nodes[0].(type) {
	case *ast.IndexExpr:
		xs := x.expr(env, n.X)
		elem := map[string]string{"Fields": "Field", "Vals": "Val", "Ints": "Int"}[xs.typ]
		if elem == "" {
			failAt(n, "element read from a %s", xs.typ)
		}
		if !x.isNonneg(env, n.Index) {
			failAt(n, "the index %s is not known to be non-negative (R5)", src(n.Index))
		}
		proven := false
		if s, ok := unparen(n.X).(*ast.SelectorExpr); ok && s.Sel.Name == "val" {
			if c, ok := x.recvCell(env, s.X); ok && env.cells[c].pending == "" && env.ltcount[strconv.Itoa(c)+":"+key(n.Index)] {
				proven = true
			}
		}
		v := name("v")
		e := env.clone()
		e.subst[n] = lbind{typ: elem, lean: v}
		return lMatch{scrut: paren(xs.lean) + "[" + x.toNat(env, n.Index) + "]?", arms: []lArm{
			{pat: "some " + v, body: next(e)},
			{pat: "none", body: x.deadLeaf(env.clone(), n, proven)},
		}}
	case *ast.TypeAssertExpr:
		// r.getVal().(*list)
		if call, ok := unparen(n.X).(*ast.CallExpr); ok && n.Type != nil && src(n.Type) == "*list" {
			if s, ok := call.Fun.(*ast.SelectorExpr); ok && s.Sel.Name == "getVal" && len(call.Args) == 0 {
				r := x.expr(env, s.X)
				if r.typ == "Ref" {
					e := env.clone()
					addr := paren(r.lean) + ".addr"
					e.subst[n] = lbind{typ: "ListPtr", lean: addr}
					return lIf{cond: env.heap + ".ego " + addr + " != 0 || !" + env.heap + ".isList " + addr,
						a: x.panicLeaf(env.clone(), n, ".runtime"), b: next(e)}
				}
			}
		}
		// NewListFrom(s).(*list) for a typed scalar slice s (R12)
		if call, ok := unparen(n.X).(*ast.CallExpr); ok && n.Type != nil && src(n.Type) == "*list" &&
			isIdent(call.Fun, "NewListFrom") && len(call.Args) == 1 {
			v := x.expr(env, call.Args[0])
			switch v.typ {
			case "StrVals", "IntVals", "FloatVals":
				x.needHeap(n)
				e := env.clone()
				e.subst[n] = lbind{typ: "TmpList", lean: v.lean}
				return next(e)
			}
		}
		failAt(n, "unrecognised type assertion: %s", src(n))
	case *ast.CallExpr:
		// r.base(): the embedded implementation of an interface value, whatever its embedding level (R7)
		if s, ok := n.Fun.(*ast.SelectorExpr); ok && s.Sel.Name == "base" && len(n.Args) == 0 {
			r := x.expr(env, s.X)
			if r.typ == "Ref" {
				e := env.clone()
				addr := paren(r.lean) + ".addr"
				e.subst[n] = lbind{typ: "ListPtr", lean: addr}
				return lIf{cond: "!" + env.heap + ".isList " + addr,
					a: x.panicLeaf(env.clone(), n, ".runtime"), b: next(e)}
			}
		}
		if isIdent(n.Fun, "make") {
			size := n.Args[len(n.Args)-1]
			v := x.expr(env, size)
			e := env.clone()
			e.nonneg[key(size)] = true
			return lIf{cond: x.asInt(size, v) + " < 0", a: x.panicLeaf(env.clone(), n, ".runtime"), b: next(e)}
		}
		return x.flush(env, n, func(env *lenv) lnode {
			if isIdent(n.Fun, "parseVal") {
				if len(n.Args) != 1 {
					failAt(n, "unrecognised call: %s", src(n))
				}
				x.needHeap(n)
				arg := x.argAs(env, n.Args[0], "GoVal")
				h1, v := x.fresh("h"), name("t")
				e := env.clone()
				e.heap = h1
				e.heapChanged()
				e.subst[n] = lbind{typ: "Field", lean: v}
				return lMatch{scrut: "parseVal " + env.heap + " " + paren(arg), arms: []lArm{
					{pat: "(" + h1 + ", .panic k)", body: lLeaf{"(" + h1 + ", .panic k)"}},
					{pat: "(" + h1 + ", .ok " + v + ")", body: next(e)},
				}}
			}
			f, c, ok := x.resolve(env, n)
			if !ok {
				failAt(n, "unrecognised call: %s", src(n))
			}
			head := f.lean + " " + env.heap
			if c >= 0 {
				head += " " + env.cells[c].addr
			}
			scrut := strings.TrimSpace(head + " " + strings.Join(x.callArgs(env, f, n), " "))
			if f.heap {
				x.needHeap(n)
				h1, v := x.fresh("h"), name("r")
				e := env.clone()
				e.heap = h1
				e.heapChanged()
				e.subst[n] = lbind{typ: f.resTyp, lean: v}
				if c < 0 && f.resTyp == "Ref" {
					// a constructor: the new cell (embedding level 0, R13)
					addr := x.fresh("n")
					v = "⟨" + addr + ", _⟩"
					e.cells = append(e.cells, lcell{addr: addr})
					e.subst[n] = lbind{typ: "Fresh", cell: len(e.cells) - 1}
				}
				return lMatch{scrut: scrut, arms: []lArm{
					{pat: "(" + h1 + ", .ok " + v + ")", body: next(e)},
					{pat: "(" + h1 + ", .panic k)", body: lLeaf{"(" + h1 + ", .panic k)"}},
				}}
			}
			x.needOut(n)
			v := name("v")
			e := env.clone()
			e.subst[n] = lbind{typ: f.resTyp, lean: v}
			return lMatch{scrut: scrut, arms: []lArm{
				{pat: ".panic p", body: x.panicLeaf(env.clone(), n, "p")},
				{pat: ".ok " + v, body: next(e)},
			}}
		})
	}
	failAt(nodes[0], "internal: cannot hoist %s", src(nodes[0]))
	return nil
}

// ---------------------------------------------------------------------------------------------
// statements

func (x *lctx) execList(list []ast.Stmt, env *lenv, k lkont) lnode {
	if len(list) == 0 {
		return k(env)
	}
	return x.exec(list[0], env, func(e *lenv) lnode { return x.execList(list[1:], e, k) })
}

func (x *lctx) execBlock(list []ast.Stmt, env *lenv, k lkont) lnode {
	return x.execBlockDef(list, env, "_", lbind{}, k)
}

// execBlockDef is execBlock with a variable declared by the block's header (the variable a type switch binds)
func (x *lctx) execBlockDef(list []ast.Stmt, env *lenv, name string, b lbind, k lkont) lnode {
	saved := map[string]lbind{}
	for n, b := range env.locals {
		saved[n] = b
	}
	env.decls = append(env.decls, map[string]bool{})
	env.saved = append(env.saved, saved)
	env.define(name, b)
	return x.execList(list, env, func(e *lenv) lnode {
		top := len(e.decls) - 1
		for n := range e.decls[top] {
			if old, ok := e.saved[top][n]; ok {
				e.locals[n] = old
			} else {
				delete(e.locals, n)
			}
		}
		e.decls, e.saved = e.decls[:top], e.saved[:top]
		return k(e)
	})
}

func terminates(list []ast.Stmt) bool {
	if len(list) == 0 {
		return false
	}
	switch st := list[len(list)-1].(type) {
	case *ast.ReturnStmt:
		return true
	case *ast.ExprStmt:
		if c, ok := st.X.(*ast.CallExpr); ok && isIdent(c.Fun, "panic") {
			return true
		}
	case *ast.BlockStmt:
		return terminates(st.List)
	case *ast.IfStmt:
		if st.Else == nil {
			return false
		}
		var els []ast.Stmt
		switch e := st.Else.(type) {
		case *ast.BlockStmt:
			els = e.List
		default:
			els = []ast.Stmt{e}
		}
		return terminates(st.Body.List) && terminates(els)
	}
	return false
}

func panicKind(call *ast.CallExpr) string {
	if len(call.Args) != 1 {
		failAt(call, "unrecognised panic: %s", src(call))
	}
	arg := unparen(call.Args[0])
	msg, ok := stringLit(arg)
	if !ok {
		if c, isCall := arg.(*ast.CallExpr); isCall && len(c.Args) > 0 {
			if p, s, ok2 := selOf(c.Fun); ok2 && p == "fmt" && s == "Sprintf" {
				msg, ok = stringLit(c.Args[0])
			}
		}
	}
	if !ok {
		failAt(call, "the panic message is not a string literal: %s", src(call))
	}
	for _, pk := range listPanicKinds {
		if strings.HasPrefix(msg, pk.prefix) {
			return "." + pk.kind
		}
	}
	failAt(call, "unknown panic message %q", msg)
	return ""
}

// bind a local to a pure value: atoms are substituted, other expressions are let-bound
func (x *lctx) bindLocal(env *lenv, name string, v lbind, declare bool, k lkont) lnode {
	if name == "_" {
		return k(env)
	}
	set := func(b lbind) {
		if declare {
			env.define(name, b)
		} else {
			env.forget(name)
			env.locals[name] = b
		}
	}
	if isAtom(v.lean) || v.typ == "Fresh" || v.typ == "NilSlice" || v.typ == "ListPtr" {
		set(v)
		return k(env)
	}
	ln := lname(name)
	if !declare {
		ln = x.fresh(lname(name) + "_")
	}
	val := v.lean
	v.lean = ln
	v.def = val
	set(v)
	return lLet{name: ln, val: val, body: k(env)}
}

func (x *lctx) exec(st ast.Stmt, env *lenv, k lkont) lnode {
	switch st := st.(type) {
	case *ast.BlockStmt:
		return x.execBlock(st.List, env, k)
	case *ast.ReturnStmt:
		return x.execReturn(st, env)
	case *ast.ExprStmt:
		return x.execExprStmt(st, env, k)
	case *ast.AssignStmt:
		return x.execAssign(st, env, k)
	case *ast.IfStmt:
		return x.execIf(st, env, k)
	case *ast.RangeStmt:
		return x.execRange(st, env, k)
	case *ast.ForStmt:
		return x.execFor(st, env, k)
	case *ast.TypeSwitchStmt:
		return x.execTypeSwitch(st, env, k)
	case *ast.DeclStmt:
		return x.execDecl(st, env, k)
	}
	failAt(st, "unrecognised statement: %s", src(st))
	return nil
}

// `var x T` (R15)
func (x *lctx) execDecl(st *ast.DeclStmt, env *lenv, k lkont) lnode {
	gd, ok := st.Decl.(*ast.GenDecl)
	if !ok || gd.Tok != token.VAR || len(gd.Specs) != 1 {
		failAt(st, "unrecognised declaration: %s", src(st))
	}
	vs, ok := gd.Specs[0].(*ast.ValueSpec)
	if !ok || len(vs.Names) != 1 || len(vs.Values) != 0 || vs.Type == nil {
		failAt(st, "unrecognised declaration: %s", src(st))
	}
	switch src(vs.Type) {
	case "int":
		env.define(vs.Names[0].Name, lbind{typ: "Int", lean: "0"})
	case "bool":
		env.define(vs.Names[0].Name, lbind{typ: "Bool", lean: "false"})
	case "float64":
		env.define(vs.Names[0].Name, lbind{typ: "F64", lean: "FloatArith.zero"})
	case "any":
		env.define(vs.Names[0].Name, lbind{typ: "NilAny", iface: true})
	default:
		failAt(st, "declaration of a variable of unsupported type: %s", src(st))
	}
	return k(env)
}

func (x *lctx) execReturn(st *ast.ReturnStmt, env *lenv) lnode {
	if len(st.Results) == 0 && x.named != "" {
		return x.retLeaf(env, st, env.locals[x.named])
	}
	if len(st.Results) != 1 {
		failAt(st, "unrecognised return: %s", src(st))
	}
	r := st.Results[0]
	if x.f.cb != nil && x.f.cb.observer {
		// R13: the result of a method with an observer callback is the log of the invocations
		var nodes []ast.Expr
		x.effects(env, r, &nodes)
		if len(nodes) != 0 {
			failAt(st, "result with an effect: %s", src(r))
		}
		if v := x.expr(env, r); v.typ != "Ref" {
			failAt(st, "a method with an observer callback returns a %s", v.typ)
		}
		return x.retLeaf(env, st, env.locals[logVar])
	}
	// tail call of a function with the same result shape
	if call, ok := unparen(r).(*ast.CallExpr); ok {
		if f, c, ok := x.resolve(env, call); ok && f.heap && f.out && (x.loopKind == "" || x.loopKind == "search") {
			return x.hoist(env, call.Args, "", func(env *lenv) lnode {
				return x.flush(env, st, func(env *lenv) lnode {
					x.needHeap(st)
					if x.f.resTyp == "" {
						x.f.resTyp = f.resTyp
					} else if x.f.resTyp != f.resTyp {
						failAt(st, "results of different types: %s and %s", x.f.resTyp, f.resTyp)
					}
					head := f.lean + " " + env.heap
					if c >= 0 {
						head += " " + env.cells[c].addr
					}
					return lLeaf{strings.TrimSpace(head + " " + strings.Join(x.callArgs(env, f, call), " "))}
				})
			})
		}
	}
	return x.hoist(env, []ast.Expr{r}, "", func(env *lenv) lnode {
		return x.retLeaf(env, st, x.expr(env, r))
	})
}

func (x *lctx) execExprStmt(st *ast.ExprStmt, env *lenv, k lkont) lnode {
	call, ok := st.X.(*ast.CallExpr)
	if !ok {
		failAt(st, "unrecognised statement: %s", src(st))
	}
	if isIdent(call.Fun, "panic") {
		return x.panicLeaf(env, st, panicKind(call))
	}
	// an invocation of a callback without result is recorded in the log (R13)
	if x.isCallback(env, call) && x.f.cb.observer {
		return x.hoist(env, call.Args, "", func(env *lenv) lnode {
			args := x.callbackArgs(env, call)
			entry := args[0]
			if len(args) > 1 {
				entry = "(" + strings.Join(args, ", ") + ")"
			}
			log := env.locals[logVar]
			if log.lean == "[]" {
				log.lean = "[" + entry + "]"
			} else {
				log.lean = paren(log.lean) + " ++ [" + entry + "]"
			}
			env.locals[logVar] = log
			return k(env)
		})
	}
	// x.Init(x)
	if s, ok := call.Fun.(*ast.SelectorExpr); ok && s.Sel.Name == "Init" && len(call.Args) == 1 {
		if c, ok := x.recvCell(env, s.X); ok && env.cells[c].virtual && src(s.X) == src(call.Args[0]) {
			env.cells[c].inited = true
			return k(env)
		}
		failAt(st, "Init is only recognised as x.Init(x) on a list just created")
	}
	// sort.Ints(x)
	if p, s, ok := selOf(call.Fun); ok && p == "sort" && len(call.Args) == 1 {
		if id, ok := call.Args[0].(*ast.Ident); ok {
			if v, ok := x.sorted(env, st, s, id.Name); ok {
				return x.bindLocal(env, id.Name, v, false, k)
			}
		}
		failAt(st, "unrecognised sort call: %s", src(st))
	}
	// copy(x.val, ys[lo:hi]) into a slice made with length hi-lo (R6)
	if isIdent(call.Fun, "copy") && len(call.Args) == 2 {
		if s, ok := unparen(call.Args[0]).(*ast.SelectorExpr); ok && s.Sel.Name == "val" {
			if c, ok := x.recvCell(env, s.X); ok && env.cells[c].virtual && strings.HasPrefix(env.cells[c].pending, "<nil>") {
				if sl, ok := unparen(call.Args[1]).(*ast.SliceExpr); ok && sl.Low != nil && sl.High != nil &&
					env.cells[c].pending == "<nil>"+key(sl.High)+"-"+key(sl.Low) {
					env.cells[c].pending = x.expr(env, sl).lean
					return k(env)
				}
			}
		}
		// copy(x.val, A); copy(x.val[len(A):], B); … into a slice made with length len(A)+len(B)+… (R6)
		if c, lo, ok := x.copyDest(env, call.Args[0]); ok {
			cell := env.cells[c]
			var nodes []ast.Expr
			x.effects(env, call.Args[0], &nodes)
			x.effects(env, call.Args[1], &nodes)
			n := len(cell.filled)
			if len(nodes) == 0 && n < len(cell.nilParts) && x.sumIs(env, lo, cell.nilParts[:n]) {
				if v := x.expr(env, call.Args[1]); v.typ == "Fields" && "("+paren(v.lean)+".length : Int)" == cell.nilParts[n] {
					filled := append(append([]string(nil), cell.filled...), v.lean)
					env.cells[c].filled = filled
					if len(filled) == len(cell.nilParts) {
						all := filled[0]
						for _, f := range filled[1:] {
							all = paren(all) + " ++ " + paren(f)
						}
						env.cells[c].pending, env.cells[c].nilParts, env.cells[c].filled = all, nil, nil
					}
					return k(env)
				}
			}
		}
		failAt(st, "unrecognised copy: %s", src(st))
	}
	// a call for its effect
	if _, _, ok := x.resolve(env, call); ok && x.effectful(env, call) {
		return x.hoist(env, []ast.Expr{call}, "", k)
	}
	failAt(st, "unrecognised statement: %s", src(st))
	return nil
}

// the summands of a sum
func summands(e ast.Expr) []ast.Expr {
	e = unparen(e)
	if b, ok := e.(*ast.BinaryExpr); ok && b.Op == token.ADD {
		return append(summands(b.X), summands(b.Y)...)
	}
	return []ast.Expr{e}
}

// the destination of a copy into a slice made by make([]field, n) that is not completely filled yet:
// `x.val` (lo = nil) or `x.val[lo:]` for a list x just created
func (x *lctx) copyDest(env *lenv, e ast.Expr) (c int, lo ast.Expr, ok bool) {
	e = unparen(e)
	if sl, isSlice := e.(*ast.SliceExpr); isSlice {
		if sl.Low == nil || sl.High != nil || sl.Slice3 {
			return 0, nil, false
		}
		e, lo = unparen(sl.X), sl.Low
	}
	s, isSel := e.(*ast.SelectorExpr)
	if !isSel || s.Sel.Name != "val" {
		return 0, nil, false
	}
	c, ok = x.recvCell(env, s.X)
	if !ok || !env.cells[c].virtual || !strings.HasPrefix(env.cells[c].pending, "<nil>") {
		return 0, nil, false
	}
	return c, lo, true
}

// is the value of lo (nil: 0) the sum of the values with the Lean texts parts, summand by summand?
func (x *lctx) sumIs(env *lenv, lo ast.Expr, parts []string) bool {
	if lo == nil {
		return len(parts) == 0
	}
	ss := summands(lo)
	if len(ss) != len(parts) {
		return false
	}
	for i, s := range ss {
		if v := x.expr(env, s); v.typ != "Int" || v.lean != parts[i] {
			return false
		}
	}
	return true
}

// sort.Ints on a local
func (x *lctx) sorted(env *lenv, n ast.Node, fn, name string) (lbind, bool) {
	v, ok := env.locals[name]
	if !ok {
		return lbind{}, false
	}
	switch {
	case fn == "Ints" && v.typ == "Ints":
		return lbind{typ: "Ints", lean: paren(v.lean) + ".mergeSort (fun x y => decide (x ≤ y))"}, true
	case fn == "Ints" && v.typ == "IntVals":
		return lbind{typ: "IntVals", lean: "sortIntVals " + paren(v.lean)}, true
	case fn == "Strings" && v.typ == "StrVals":
		return lbind{typ: "StrVals", lean: "sortStrVals " + paren(v.lean)}, true
	case fn == "Float64s" && v.typ == "FloatVals":
		return lbind{typ: "FloatVals", lean: "sortFloatVals " + paren(v.lean)}, true
	}
	return lbind{}, false
}

func (x *lctx) execIf(st *ast.IfStmt, env *lenv, k lkont) lnode {
	if st.Init != nil {
		// if init; cond {…}: the init statement opens a scope around the if
		plain := *st
		plain.Init = nil
		return x.execBlock([]ast.Stmt{st.Init, &plain}, env, k)
	}
	return x.hoist(env, []ast.Expr{st.Cond}, "", func(env *lenv) lnode {
		c := x.expr(env, st.Cond)
		if c.typ != "Bool" {
			failAt(st.Cond, "the condition is a %s", c.typ)
		}
		// R10: if c { x = e }
		if st.Else == nil && !x.inLoop && len(st.Body.List) == 1 {
			if name, v, ok := x.pureAssign(env, st.Body.List[0]); ok {
				old := env.locals[name]
				v.lean = "if " + c.lean + " then " + v.lean + " else " + old.lean
				return x.bindLocal(env, name, v, false, k)
			}
		}
		thenEnv, elseEnv := env.clone(), env.clone()
		x.learn(thenEnv, st.Cond, true)
		x.learn(elseEnv, st.Cond, false)
		a := x.execBlock(st.Body.List, thenEnv, k)
		var b lnode
		switch els := st.Else.(type) {
		case nil:
			b = k(elseEnv)
		case *ast.BlockStmt:
			b = x.execBlock(els.List, elseEnv, k)
		default:
			b = x.exec(els, elseEnv, k)
		}
		return lIf{cond: c.lean, a: a, b: b}
	})
}

// `x = e` with e pure, or sort.Ints(x); returns the new value of x
func (x *lctx) pureAssign(env *lenv, st ast.Stmt) (string, lbind, bool) {
	switch st := st.(type) {
	case *ast.AssignStmt:
		if st.Tok != token.ASSIGN || len(st.Lhs) != 1 || len(st.Rhs) != 1 {
			return "", lbind{}, false
		}
		id, ok := st.Lhs[0].(*ast.Ident)
		if !ok {
			return "", lbind{}, false
		}
		old, ok := env.locals[id.Name]
		if !ok {
			return "", lbind{}, false
		}
		var nodes []ast.Expr
		x.effects(env, st.Rhs[0], &nodes)
		if len(nodes) != 0 {
			return "", lbind{}, false
		}
		v := x.expr(env, st.Rhs[0])
		if v.typ == "Nat" {
			v = lbind{typ: "Int", lean: x.asInt(st.Rhs[0], v)}
		}
		if v.typ != old.typ {
			return "", lbind{}, false
		}
		return id.Name, v, true
	case *ast.ExprStmt:
		if call, ok := st.X.(*ast.CallExpr); ok && len(call.Args) == 1 {
			if p, s, ok := selOf(call.Fun); ok && p == "sort" {
				if id, ok := call.Args[0].(*ast.Ident); ok {
					if v, ok := x.sorted(env, st, s, id.Name); ok {
						return id.Name, v, true
					}
				}
			}
		}
	}
	return "", lbind{}, false
}

// may the pending value of cell c be changed here?
func (x *lctx) storeTo(n ast.Node, c int) {
	if x.loopKind == "val" && c == x.loopCell {
		return
	}
	x.needHeap(n)
}

func (x *lctx) execAssign(st *ast.AssignStmt, env *lenv, k lkont) lnode {
	declare := st.Tok == token.DEFINE
	if st.Tok == token.ADD_ASSIGN || st.Tok == token.MUL_ASSIGN {
		// x += e / x *= e on a local (R14)
		id, ok := st.Lhs[0].(*ast.Ident)
		if !ok || len(st.Lhs) != 1 || len(st.Rhs) != 1 {
			failAt(st, "unrecognised assignment: %s", src(st))
		}
		old, ok := env.locals[id.Name]
		if !ok {
			failAt(st, "assignment to the unknown variable %s", id.Name)
		}
		return x.hoist(env, []ast.Expr{st.Rhs[0]}, "", func(env *lenv) lnode {
			// x op= e is x = x op e
			op := token.ADD
			if st.Tok == token.MUL_ASSIGN {
				op = token.MUL
			}
			v := x.binary(env, &ast.BinaryExpr{X: id, OpPos: st.TokPos, Op: op, Y: st.Rhs[0]})
			if v.typ != old.typ {
				failAt(st, "compound assignment of a %s to a %s", v.typ, old.typ)
			}
			old = v
			env.forget(id.Name)
			env.locals[id.Name] = old
			return k(env)
		})
	}
	if st.Tok != token.DEFINE && st.Tok != token.ASSIGN {
		failAt(st, "unrecognised assignment: %s", src(st))
	}
	// v, ok := e.(T)
	if len(st.Lhs) == 2 && len(st.Rhs) == 1 {
		ta, ok := unparen(st.Rhs[0]).(*ast.TypeAssertExpr)
		v, ok1 := st.Lhs[0].(*ast.Ident)
		okv, ok2 := st.Lhs[1].(*ast.Ident)
		if !ok || !ok1 || !ok2 || ta.Type == nil || !declare {
			failAt(st, "unrecognised assignment: %s", src(st))
		}
		return x.hoist(env, []ast.Expr{ta.X}, v.Name, func(env *lenv) lnode {
			operand := x.expr(env, ta.X)
			kind := x.kindOfType(ta, ta.Type, operand.typ)
			if operand.typ == "Val" {
				operand.as = src(ta.Type)
			}
			env.define(v.Name, operand)
			env.define(okv.Name, lbind{typ: "Bool", lean: paren(operand.lean) + ".kind == " + kind})
			return k(env)
		})
	}
	// xs[i], xs[j] = xs[j], xs[i]
	if len(st.Lhs) == 2 && len(st.Rhs) == 2 && !declare {
		return x.execSwap(st, env, k)
	}
	if len(st.Lhs) != 1 || len(st.Rhs) != 1 {
		failAt(st, "unrecognised assignment: %s", src(st))
	}
	lhs, rhs := st.Lhs[0], st.Rhs[0]
	switch l := lhs.(type) {
	case *ast.Ident:
		// x := &list{val: e}
		if u, ok := unparen(rhs).(*ast.UnaryExpr); ok && u.Op == token.AND {
			cl, ok := u.X.(*ast.CompositeLit)
			if !ok || !isIdent(cl.Type, "list") || len(cl.Elts) != 1 || !declare {
				failAt(st, "unrecognised allocation: %s", src(st))
			}
			kv, ok := cl.Elts[0].(*ast.KeyValueExpr)
			if !ok || !isIdent(kv.Key, "val") {
				failAt(st, "unrecognised allocation: %s", src(st))
			}
			return x.hoist(env, []ast.Expr{kv.Value}, "", func(env *lenv) lnode {
				x.needHeap(st)
				v := x.expr(env, kv.Value)
				pending := v.lean
				var nilParts []string
				switch v.typ {
				case "Fields":
					if !v.fresh {
						// R8: the slice of an existing list (or a part of it) would be shared with the new list
						failAt(st, "the new list does not get a slice of its own: %s", src(kv.Value))
					}
				case "NilSlice":
					pending = "<nil>" + v.hi
					if mk, ok := unparen(kv.Value).(*ast.CallExpr); ok && isIdent(mk.Fun, "make") && len(mk.Args) == 2 {
						for _, s := range summands(mk.Args[1]) {
							nilParts = append(nilParts, x.expr(env, s).lean)
						}
					}
				default:
					failAt(st, "a list cannot hold a %s", v.typ)
				}
				env.cells = append(env.cells, lcell{addr: x.fresh("n"), pending: pending, virtual: true, nilParts: nilParts})
				env.define(l.Name, lbind{typ: "Fresh", cell: len(env.cells) - 1})
				return k(env)
			})
		}
		if !declare {
			if _, ok := env.locals[l.Name]; !ok {
				failAt(st, "assignment to the unknown variable %s", l.Name)
			}
		}
		return x.hoist(env, []ast.Expr{rhs}, l.Name, func(env *lenv) lnode {
			v := x.expr(env, rhs)
			if !declare && env.locals[l.Name].typ == "F64" {
				// the float constants 0 and 1
				switch src(rhs) {
				case "0":
					v = lbind{typ: "F64", lean: "FloatArith.zero"}
				case "1":
					v = lbind{typ: "F64", lean: "FloatArith.one"}
				}
			}
			if !declare {
				if old := env.locals[l.Name]; old.iface {
					// R15: an `any` variable takes the value with its dynamic type
					switch v.typ {
					case "StrVals", "IntVals", "FloatVals":
						v.iface = true
					default:
						failAt(st, "a %s is assigned to the interface variable %s", v.typ, l.Name)
					}
				} else if normTyp(old.typ) != normTyp(v.typ) {
					failAt(st, "%s changes its type from %s to %s", l.Name, old.typ, v.typ)
				} else {
					v.typ = old.typ
				}
				env.forget(l.Name)
				env.locals[l.Name] = v
				return k(env)
			}
			return x.bindLocal(env, l.Name, v, true, k)
		})
	case *ast.SelectorExpr:
		// x.val = e
		if l.Sel.Name == "val" && !declare {
			if c, ok := x.recvCell(env, l.X); ok {
				return x.hoist(env, []ast.Expr{rhs}, "", func(env *lenv) lnode {
					x.storeTo(st, c)
					v := x.expr(env, rhs)
					if v.typ != "Fields" {
						failAt(st, "a %s is stored into %s", v.typ, src(lhs))
					}
					env.cells[c].pending = v.lean
					return k(env)
				})
			}
		}
	case *ast.IndexExpr:
		// x.val[i] = e
		if s, ok := unparen(l.X).(*ast.SelectorExpr); ok && s.Sel.Name == "val" && !declare {
			if c, ok := x.recvCell(env, s.X); ok {
				return x.hoist(env, []ast.Expr{l.Index, rhs}, "", func(env *lenv) lnode {
					x.storeTo(st, c)
					if !x.isNonneg(env, l.Index) {
						failAt(st, "the index %s is not known to be non-negative (R5)", src(l.Index))
					}
					v := x.expr(env, rhs)
					if v.typ != "Field" {
						failAt(st, "a %s is stored into %s", v.typ, src(lhs))
					}
					env.cells[c].pending = paren(x.valOf(env, st, c)) + ".set " + paren(x.toNat(env, l.Index)) + " " + paren(v.lean)
					return k(env)
				})
			}
		}
	}
	failAt(st, "unrecognised assignment: %s", src(st))
	return nil
}

func (x *lctx) execSwap(st *ast.AssignStmt, env *lenv, k lkont) lnode {
	var cellIdx = -1
	var idx [4]ast.Expr
	for i, e := range []ast.Expr{st.Lhs[0], st.Lhs[1], st.Rhs[0], st.Rhs[1]} {
		ie, ok := unparen(e).(*ast.IndexExpr)
		if !ok {
			failAt(st, "unrecognised assignment: %s", src(st))
		}
		s, ok := unparen(ie.X).(*ast.SelectorExpr)
		if !ok || s.Sel.Name != "val" {
			failAt(st, "unrecognised assignment: %s", src(st))
		}
		c, ok := x.recvCell(env, s.X)
		if !ok || (cellIdx >= 0 && c != cellIdx) {
			failAt(st, "unrecognised assignment: %s", src(st))
		}
		cellIdx = c
		var nodes []ast.Expr
		x.effects(env, ie.Index, &nodes)
		if len(nodes) != 0 {
			failAt(st, "index with an effect: %s", src(ie.Index))
		}
		idx[i] = ie.Index
	}
	x.storeTo(st, cellIdx)
	xs := paren(x.valOf(env, st, cellIdx))
	read := func(e ast.Expr) string {
		if x.isNonneg(env, e) {
			return xs + "[" + x.toNat(env, e) + "]?"
		}
		return "(if " + x.asInt(e, x.expr(env, e)) + " < 0 then none else " + xs + "[" + x.toNat(env, e) + "]?)"
	}
	t1, t2 := x.fresh("t"), x.fresh("t")
	e1 := env.clone()
	e1.cells[cellIdx].pending = "(" + xs + ".set " + paren(x.toNat(env, idx[0])) + " " + t1 + ").set " + paren(x.toNat(env, idx[1])) + " " + t2
	return lMatch{scrut: read(idx[2]) + ", " + read(idx[3]), arms: []lArm{
		{pat: "some " + t1 + ", some " + t2, body: k(e1)},
		{pat: "_, _", body: k(env.clone())},
	}}
}

func (x *lctx) execTypeSwitch(st *ast.TypeSwitchStmt, env *lenv, k lkont) lnode {
	if st.Init != nil {
		failAt(st, "unrecognised type switch")
	}
	// `switch x.(type)` or `switch v := x.(type)`
	var ta *ast.TypeAssertExpr
	bound := ""
	switch a := st.Assign.(type) {
	case *ast.ExprStmt:
		ta, _ = a.X.(*ast.TypeAssertExpr)
	case *ast.AssignStmt:
		if a.Tok == token.DEFINE && len(a.Lhs) == 1 && len(a.Rhs) == 1 {
			if id, ok := a.Lhs[0].(*ast.Ident); ok {
				ta, _ = a.Rhs[0].(*ast.TypeAssertExpr)
				bound = id.Name
			}
		}
	}
	if ta == nil || ta.Type != nil {
		failAt(st, "unrecognised type switch")
	}
	return x.hoist(env, []ast.Expr{ta.X}, bound, func(env *lenv) lnode {
		operand := x.expr(env, ta.X)
		// the clause body, with the bound variable (R7): in a clause with one type T it is the operand asserted to T,
		// exactly as `v, ok := x.(T)` binds it where ok holds; in any other clause it is the operand itself
		clause := func(cc *ast.CaseClause) lnode {
			e := env.clone()
			if bound == "" || bound == "_" {
				return x.execBlock(cc.Body, e, k)
			}
			v := operand
			if len(cc.List) == 1 && operand.typ == "Val" && !isIdent(cc.List[0], "nil") {
				v.as = src(cc.List[0])
			}
			return x.execBlockDef(cc.Body, e, bound, v, k)
		}
		m := lMatch{scrut: paren(operand.lean) + ".kind"}
		var deflt *ast.CaseClause
		seen := map[string]bool{}
		for _, c := range st.Body.List {
			cc := c.(*ast.CaseClause)
			if cc.List == nil {
				deflt = cc
				continue
			}
			var pats []string
			for _, t := range cc.List {
				kd := x.kindOfType(cc, t, operand.typ)
				if seen[kd] {
					failAt(cc, "the kind %s is tested twice", kd)
				}
				seen[kd] = true
				pats = append(pats, kd)
			}
			m.arms = append(m.arms, lArm{pat: strings.Join(pats, " | "), body: clause(cc)})
		}
		if deflt != nil {
			m.arms = append(m.arms, lArm{pat: "_", body: clause(deflt)})
		} else {
			m.arms = append(m.arms, lArm{pat: "_", body: k(env.clone())})
		}
		return m
	})
}

// ---------------------------------------------------------------------------------------------
// loops (R9)

type loopDom struct {
	nat      bool
	listLean string // list mode: the list iterated over
	elemTyp  string
	elemGo   string // Go name of the element variable ("" / "_": none)
	keyGo    string
	elemFor  []ast.Expr // reversed range: the expressions s[i] that denote the element
	natInit  string     // nat mode: number of iterations
	natGo    string     // nat mode: Go name of the loop variable ("" if unused)
}

var lTokens = regexp.MustCompile(`[A-Za-z_][A-Za-z0-9_']*`)

const fixedMark = "«FIXED»"

func render(n lnode, ind string) string {
	var b strings.Builder
	emit(&b, n, ind)
	return b.String()
}

func (x *lctx) classifyLoop(env *lenv, body []ast.Stmt) (kind string, cell int, acc string) {
	hasReturn, heapOp := false, false
	cell = -1
	accs := map[string]bool{}
	declared := map[string]bool{}
	for _, st := range body {
		ast.Inspect(st, func(n ast.Node) bool {
			switch n := n.(type) {
			case *ast.FuncLit:
				return false
			case *ast.ReturnStmt:
				hasReturn = true
			case *ast.CallExpr:
				if isIdent(n.Fun, "panic") || x.effectful(env, n) {
					heapOp = true
				}
				if x.isCallback(env, n) && x.f.cb.observer {
					accs[logVar] = true
				}
				if u, ok := n.Fun.(*ast.Ident); ok && (u.Name == "copy" || u.Name == "NewList" || u.Name == "NewListFrom") {
					heapOp = true
				}
			case *ast.UnaryExpr:
				if n.Op == token.AND {
					heapOp = true
				}
			case *ast.AssignStmt:
				for _, l := range n.Lhs {
					l = unparen(l)
					if ie, ok := l.(*ast.IndexExpr); ok {
						l = unparen(ie.X)
					}
					switch l := l.(type) {
					case *ast.SelectorExpr:
						if c, ok := x.recvCell(env, l.X); ok && l.Sel.Name == "val" {
							if cell >= 0 && cell != c {
								heapOp = true
							}
							cell = c
						} else {
							failAt(n, "unrecognised assignment: %s", src(n))
						}
					case *ast.Ident:
						if n.Tok == token.DEFINE {
							declared[l.Name] = true
						} else if _, outer := env.locals[l.Name]; outer && !declared[l.Name] {
							accs[l.Name] = true
						}
					}
				}
			}
			return true
		})
	}
	switch {
	case hasReturn:
		if heapOp || cell >= 0 {
			failAt(body[0], "a loop with a return that also writes the heap")
		}
		return "search", -1, ""
	case heapOp:
		return "heap", -1, ""
	case cell >= 0:
		if len(accs) != 0 {
			failAt(body[0], "a loop that stores into a list and has an accumulator")
		}
		return "val", cell, ""
	case len(accs) == 1:
		for a := range accs {
			return "acc", -1, a
		}
	}
	failAt(body[0], "a loop without a recognisable effect (or with several accumulators)")
	return "", -1, ""
}

func (x *lctx) genLoop(node ast.Node, body []ast.Stmt, dom loopDom, env *lenv, k lkont) lnode {
	kind, cell, acc := x.classifyLoop(env, body)
	pendingInit := ""
	if kind == "val" {
		// the carried slice starts with the pending value, if there is one
		pendingInit = env.cells[cell].pending
		env.cells[cell].pending = ""
	}
	return x.flush(env, node, func(env *lenv) lnode {
		if kind == "heap" {
			x.needHeap(node)
		}
		if kind == "val" {
			if pendingInit == "" {
				pendingInit = env.heap + ".items " + env.cells[cell].addr
			}
			x.storeTo(node, cell) // the caller must be able to store the result
		}
		x.nloops++
		name := strings.TrimSuffix(x.f.lean, "Gen") + "LoopGen"
		if x.nloops > 1 {
			name = strings.TrimSuffix(x.f.lean, "Gen") + "Loop" + strconv.Itoa(x.nloops) + "Gen"
		}
		// the environment inside the helper
		he := env.clone()
		he.heap = "h"
		he.heapChanged()
		type fixed struct{ lean, typ, arg string }
		var cands []fixed
		if kind != "heap" {
			cands = append(cands, fixed{"h", "Heap", env.heap})
		}
		for _, c := range env.cells {
			if !c.virtual {
				cands = append(cands, fixed{c.addr, "Nat", c.addr})
			}
		}
		var names []string
		for n := range env.locals {
			names = append(names, n)
		}
		sortStrings(names)
		for _, n := range names {
			b := env.locals[n]
			lt, ok := x.ltype(b.typ)
			if !ok || b.typ == "Fresh" {
				if b.typ == "Fresh" || b.typ == "ListPtr" {
					continue
				}
				delete(he.locals, n)
				continue
			}
			if n == acc {
				continue
			}
			he.locals[n] = lbind{typ: b.typ, lean: lname(n)}
			cands = append(cands, fixed{lname(n), lt, b.lean})
		}
		heNil := he.clone()
		// loop variables
		elemLean, keyLean, natLean := "_", "_", "cnt"
		if !dom.nat {
			if dom.elemGo != "" && dom.elemGo != "_" {
				elemLean = lname(dom.elemGo)
				he.define(dom.elemGo, lbind{typ: dom.elemTyp, lean: elemLean})
			}
			if len(dom.elemFor) > 0 {
				elemLean = x.fresh("x")
				for _, e := range dom.elemFor {
					he.subst[e] = lbind{typ: dom.elemTyp, lean: elemLean}
				}
			}
			if dom.keyGo != "" && dom.keyGo != "_" {
				keyLean = lname(dom.keyGo)
				he.define(dom.keyGo, lbind{typ: "Int", lean: keyLean})
				he.nonneg[dom.keyGo] = true
			}
		} else if dom.natGo != "" {
			natLean = lname(dom.natGo)
			he.define(dom.natGo, lbind{typ: "Nat", lean: natLean})
		}
		carried, carriedTyp := "", ""
		switch kind {
		case "val":
			carried, carriedTyp = "xs", "List Val"
			he.cells[cell].pending = "xs"
			heNil.cells[cell].pending = "xs"
		case "acc":
			b := env.locals[acc]
			carried, carriedTyp = lname(acc), ""
			carriedTyp, _ = x.ltype(b.typ)
			he.locals[acc] = lbind{typ: b.typ, lean: carried}
			heNil.locals[acc] = he.locals[acc]
		}
		// context of the helper
		saved := *x
		x.inLoop, x.loopKind, x.loopCell, x.unitRes = true, kind, cell, false
		switch kind {
		case "search":
			x.shape = lshape{x.f.heap, x.f.out}
		case "heap":
			x.shape, x.unitRes = lshape{true, true}, true
		default:
			x.shape = lshape{false, false}
		}
		recurse := func(heapArg, carriedArg string) string {
			parts := []string{name, fixedMark}
			if kind == "heap" {
				parts = append(parts, paren(heapArg))
			}
			if dom.nat {
				if carriedArg != "" {
					parts = append(parts, paren(carriedArg))
				}
				parts = append(parts, natLean)
			} else {
				parts = append(parts, "rest")
				if keyLean != "_" {
					parts = append(parts, "("+keyLean+" + 1)")
				}
				if carriedArg != "" {
					parts = append(parts, paren(carriedArg))
				}
			}
			return strings.Join(parts, " ")
		}
		x.loopEnd = func(e *lenv) lnode {
			switch kind {
			case "heap":
				nd, dirty := 0, -1
				for i, c := range e.cells {
					if c.pending != "" {
						nd, dirty = nd+1, i
					}
				}
				if nd == 1 && !e.cells[dirty].virtual {
					c := e.cells[dirty]
					return lLeaf{recurse(e.heap+".setItems "+c.addr+" "+paren(c.pending), "")}
				}
				return x.flush(e, node, func(e2 *lenv) lnode { return lLeaf{recurse(e2.heap, "")} })
			case "val":
				return lLeaf{recurse("", e.cells[cell].pending)}
			case "acc":
				return lLeaf{recurse("", e.locals[acc].lean)}
			}
			return lLeaf{recurse("", "")}
		}
		cons := x.execBlock(body, he, x.loopEnd)
		// behind the loop
		innerHelpers, innerFresh, innerLoops := x.helpers, x.nfresh, x.nloops
		*x = saved
		x.helpers, x.nfresh, x.nloops = innerHelpers, innerFresh, innerLoops
		var nilBody lnode
		var resT string
		switch kind {
		case "search":
			nilBody = k(heNil)
			if x.f.resTyp == "" {
				failAt(node, "the result type of the search loop is not known")
			}
			rt, _ := x.ltype(x.f.resTyp)
			resT = resultType(lshape{x.f.heap, x.f.out}, rt)
		case "heap":
			nilBody, resT = lLeaf{"(h, .ok ())"}, "Heap × Out Unit"
		default:
			nilBody, resT = lLeaf{carried}, carriedTyp
		}
		if kind == "acc" && acc == logVar {
			carriedTyp = x.f.cb.logType()
			resT = carriedTyp
		}
		consText, nilText := render(cons, "    "), render(nilBody, "    ")
		used := map[string]bool{}
		for _, t := range lTokens.FindAllString(consText+" "+nilText, -1) {
			used[t] = true
		}
		var sig, fixedNames, fixedArgs []string
		seen := map[string]bool{}
		for _, c := range cands {
			if used[c.lean] && !seen[c.lean] {
				seen[c.lean] = true
				if x.f.cb != nil && c.lean == lname(x.f.cb.goName) {
					c.typ = x.f.cb.leanType() // the argument types are known only now
				}
				sig = append(sig, "("+c.lean+" : "+c.typ+")")
				fixedNames = append(fixedNames, c.lean)
				fixedArgs = append(fixedArgs, paren(c.arg))
			}
		}
		fix := func(s string) string {
			r := strings.Join(fixedNames, " ")
			if r == "" {
				return strings.ReplaceAll(s, " "+fixedMark, "")
			}
			return strings.ReplaceAll(s, fixedMark, r)
		}
		// the helper
		var b strings.Builder
		var typ, patNil, patCons []string
		if kind == "heap" {
			typ, patNil, patCons = append(typ, "Heap"), append(patNil, "h"), append(patCons, "h")
		}
		if dom.nat {
			if carried != "" {
				typ, patNil, patCons = append(typ, carriedTyp), append(patNil, carried), append(patCons, carried)
			}
			typ, patNil, patCons = append(typ, "Nat"), append(patNil, "0"), append(patCons, natLean+" + 1")
		} else {
			typ = append(typ, "List "+paren(leanTypeOf[normTyp(dom.elemTyp)]))
			patNil, patCons = append(patNil, "[]"), append(patCons, elemLean+" :: rest")
			if keyLean != "_" {
				typ, patNil, patCons = append(typ, "Int"), append(patNil, keyLean), append(patCons, keyLean)
			}
			if carried != "" {
				typ, patNil, patCons = append(typ, carriedTyp), append(patNil, carried), append(patCons, carried)
			}
		}
		fmt.Fprintf(&b, "/-- the loop of `%s` at %s (%s loop) -/\n", x.f.goName, where(node), kind)
		fmt.Fprintf(&b, "def %s", name)
		if strings.Contains(strings.Join(sig, " ")+strings.Join(typ, " ")+resT, "α") {
			b.WriteString(" {α : Type}")
		}
		for _, s := range sig {
			b.WriteString(" " + s)
		}
		fmt.Fprintf(&b, " : %s → %s\n", strings.Join(typ, " → "), resT)
		fmt.Fprintf(&b, "  | %s =>\n    %s\n", strings.Join(patNil, ", "), fix(nilText))
		fmt.Fprintf(&b, "  | %s =>\n    %s\n", strings.Join(patCons, ", "), fix(consText))
		x.helpers = append(x.helpers, b.String())
		// the call
		parts := append([]string{name}, fixedArgs...)
		if kind == "heap" {
			parts = append(parts, env.heap)
		}
		carriedInit := ""
		switch kind {
		case "val":
			carriedInit = pendingInit
		case "acc":
			carriedInit = env.locals[acc].lean
		}
		if dom.nat {
			if carried != "" {
				parts = append(parts, paren(carriedInit))
			}
			parts = append(parts, paren(dom.natInit))
		} else {
			parts = append(parts, paren(dom.listLean))
			if keyLean != "_" {
				parts = append(parts, "0")
			}
			if carried != "" {
				parts = append(parts, paren(carriedInit))
			}
		}
		call := strings.Join(parts, " ")
		switch kind {
		case "search":
			return lLeaf{call}
		case "heap":
			h1 := x.fresh("h")
			e := env.clone()
			e.heap = h1
			e.heapChanged()
			return lMatch{scrut: call, arms: []lArm{
				{pat: "(" + h1 + ", .ok _)", body: k(e)},
				{pat: "(" + h1 + ", .panic k)", body: lLeaf{"(" + h1 + ", .panic k)"}},
			}}
		case "val":
			env.cells[cell].pending = call
			return k(env)
		default:
			b := env.locals[acc]
			b.lean, b.def = call, ""
			env.locals[acc] = b
			return k(env)
		}
	})
}

func sortStrings(xs []string) {
	for i := 1; i < len(xs); i++ {
		for j := i; j > 0 && xs[j] < xs[j-1]; j-- {
			xs[j], xs[j-1] = xs[j-1], xs[j]
		}
	}
}

func (x *lctx) execRange(st *ast.RangeStmt, env *lenv, k lkont) lnode {
	if st.Tok != token.DEFINE {
		failAt(st, "unrecognised range statement")
	}
	var nodes []ast.Expr
	x.effects(env, st.X, &nodes)
	if len(nodes) != 0 {
		failAt(st, "range over an expression with an effect")
	}
	// the list is read when the loop starts: pending stores are written back first
	return x.flush(env, st, func(env *lenv) lnode {
		xs := x.expr(env, st.X)
		elem := map[string]string{"Fields": "Field", "Vals": "Val", "Ints": "Int", "GoVals": "GoVal"}[xs.typ]
		if elem == "" {
			failAt(st, "range over a %s", xs.typ)
		}
		if elemFor := x.mirrored(env, st, xs); len(elemFor) > 0 {
			dom := loopDom{listLean: paren(xs.lean) + ".reverse", elemTyp: elem, elemFor: elemFor}
			return x.genLoop(st, st.Body.List, dom, env, k)
		}
		dom := loopDom{listLean: xs.lean, elemTyp: elem}
		if st.Key != nil {
			dom.keyGo = st.Key.(*ast.Ident).Name
		}
		if st.Value != nil {
			dom.elemGo = st.Value.(*ast.Ident).Name
		}
		return x.genLoop(st, st.Body.List, dom, env, k)
	})
}

// `for i := range s` whose body mentions i, s and a local l holding `len(s) - 1` only as `s[l-i]` (R9): the
// expressions `s[l-i]`, which denote the elements of s from the last one to the first one
func (x *lctx) mirrored(env *lenv, st *ast.RangeStmt, xs lbind) []ast.Expr {
	s, ok := unparen(st.X).(*ast.Ident)
	key, ok2 := st.Key.(*ast.Ident)
	if !ok || !ok2 || key.Name == "_" || (st.Value != nil && !isIdent(st.Value, "_")) {
		return nil
	}
	switch xs.typ {
	case "Ints", "GoVals", "Vals":
	default:
		return nil
	}
	var elemFor []ast.Expr
	inElem := map[*ast.Ident]bool{}
	last := ""
	other := 0 // occurrences of i, s and l outside the expressions s[l-i]
	ast.Inspect(st.Body, func(n ast.Node) bool {
		switch n := n.(type) {
		case *ast.IndexExpr:
			sub, ok := unparen(n.Index).(*ast.BinaryExpr)
			if !ok || sub.Op != token.SUB || !isIdent(n.X, s.Name) || !isIdent(sub.Y, key.Name) {
				break
			}
			l, ok := sub.X.(*ast.Ident)
			if !ok || l.Name == key.Name || l.Name == s.Name || (last != "" && l.Name != last) {
				break
			}
			last = l.Name
			elemFor = append(elemFor, n)
			inElem[n.X.(*ast.Ident)], inElem[l], inElem[sub.Y.(*ast.Ident)] = true, true, true
		case *ast.Ident:
			if !inElem[n] && (n.Name == key.Name || n.Name == s.Name || (last != "" && n.Name == last)) {
				other++
			}
		}
		return true
	})
	if len(elemFor) == 0 || other != 0 {
		return nil
	}
	// an occurrence of l in front of the first s[l-i] has not been counted
	n := 0
	ast.Inspect(st.Body, func(m ast.Node) bool {
		if id, ok := m.(*ast.Ident); ok && id.Name == last {
			n++
		}
		return true
	})
	if b, ok := env.locals[last]; !ok || n != len(elemFor) || b.typ != "Int" || !isAtom(b.lean) || b.def != "("+paren(xs.lean)+".length : Int) - 1" {
		return nil
	}
	return elemFor
}

func (x *lctx) execFor(st *ast.ForStmt, env *lenv, k lkont) lnode {
	bad := func() { failAt(st, "unrecognised loop header: %s; %s; %s", src(st.Init), src(st.Cond), src(st.Post)) }
	if st.Init == nil || st.Cond == nil || st.Post == nil {
		failAt(st, "unrecognised loop header")
	}
	init, ok := st.Init.(*ast.AssignStmt)
	if !ok || init.Tok != token.DEFINE || len(init.Lhs) != 1 || len(init.Rhs) != 1 {
		bad()
	}
	iv := init.Lhs[0].(*ast.Ident).Name
	cond, ok := st.Cond.(*ast.BinaryExpr)
	if !ok || !isIdent(cond.X, iv) {
		bad()
	}
	// the step: i++ / i-- / i += 1 / i -= 1 / i = i + 1 / i = i - 1
	var post struct{ Tok token.Token }
	switch p := st.Post.(type) {
	case *ast.IncDecStmt:
		if !isIdent(p.X, iv) {
			bad()
		}
		post.Tok = p.Tok
	case *ast.AssignStmt:
		if len(p.Lhs) != 1 || len(p.Rhs) != 1 || !isIdent(p.Lhs[0], iv) {
			bad()
		}
		switch {
		case p.Tok == token.ADD_ASSIGN && src(p.Rhs[0]) == "1", p.Tok == token.ASSIGN && key(p.Rhs[0]) == iv+"+1":
			post.Tok = token.INC
		case p.Tok == token.SUB_ASSIGN && src(p.Rhs[0]) == "1", p.Tok == token.ASSIGN && key(p.Rhs[0]) == iv+"-1":
			post.Tok = token.DEC
		default:
			bad()
		}
	default:
		bad()
	}
	var nodes []ast.Expr
	x.effects(env, init.Rhs[0], &nodes)
	x.effects(env, cond.Y, &nodes)
	if len(nodes) != 0 {
		failAt(st, "loop header with an effect")
	}
	uses := 0 // occurrences of the loop variable in the body
	var elemFor []ast.Expr
	inElem := map[*ast.Ident]bool{}
	countUses := func(slice string) {
		ast.Inspect(st.Body, func(n ast.Node) bool {
			switch n := n.(type) {
			case *ast.IndexExpr:
				if id, ok := n.Index.(*ast.Ident); ok && id.Name == iv && slice != "" && isIdent(n.X, slice) {
					elemFor = append(elemFor, n)
					inElem[id] = true
				}
			case *ast.Ident:
				if n.Name == iv && !inElem[n] {
					uses++
				}
			}
			return true
		})
	}
	switch {
	case cond.Op == token.GEQ && src(cond.Y) == "0" && post.Tok == token.DEC:
		// for i := e - 1; i >= 0; i--
		sub, ok := unparen(init.Rhs[0]).(*ast.BinaryExpr)
		if !ok || sub.Op != token.SUB || src(sub.Y) != "1" {
			bad()
		}
		slice := ""
		if call, ok := unparen(sub.X).(*ast.CallExpr); ok && isIdent(call.Fun, "len") && len(call.Args) == 1 {
			if id, ok := call.Args[0].(*ast.Ident); ok {
				slice = id.Name
			}
		}
		countUses(slice)
		if slice != "" && uses == 0 && len(elemFor) > 0 {
			xs := x.expr(env, sub.X.(*ast.CallExpr).Args[0])
			elem := map[string]string{"Ints": "Int", "GoVals": "GoVal", "Vals": "Val"}[xs.typ]
			if elem == "" {
				failAt(st, "loop over a %s", xs.typ)
			}
			// the slice must not be assigned in the body
			ast.Inspect(st.Body, func(n ast.Node) bool {
				if as, ok := n.(*ast.AssignStmt); ok {
					for _, l := range as.Lhs {
						if isIdent(l, slice) {
							failAt(as, "%s is assigned inside the loop over it", slice)
						}
					}
				}
				return true
			})
			dom := loopDom{listLean: paren(xs.lean) + ".reverse", elemTyp: elem, elemFor: elemFor}
			return x.genLoop(st, st.Body.List, dom, env, k)
		}
		elemFor = nil
		return x.flushIfCalls(env, st, sub.X, func(env *lenv) lnode {
			dom := loopDom{nat: true, natInit: x.toNat(env, sub.X), natGo: iv}
			return x.genLoop(st, st.Body.List, dom, env, k)
		})
	case cond.Op == token.LSS && src(init.Rhs[0]) == "0" && post.Tok == token.INC:
		countUses("")
		if uses != 0 {
			failAt(st, "the loop variable %s of a counting loop is used in the body", iv)
		}
		dom := loopDom{nat: true, natInit: x.toNat(env, cond.Y)}
		return x.genLoop(st, st.Body.List, dom, env, k)
	}
	bad()
	return nil
}

// the bound of a counting loop is evaluated once, before the loop, in the heap written back
func (x *lctx) flushIfCalls(env *lenv, n ast.Node, e ast.Expr, k lkont) lnode {
	hasCall := false
	ast.Inspect(e, func(m ast.Node) bool {
		if _, ok := m.(*ast.CallExpr); ok {
			hasCall = true
		}
		return true
	})
	if hasCall {
		return x.flush(env, n, k)
	}
	return k(env)
}

// ---------------------------------------------------------------------------------------------
// functions

// is the `any` parameter compared with == (then it is a Val), or converted (then it is a GoVal)?
func anyParamIsVal(fd *ast.FuncDecl, name string) bool {
	isVal := false
	ast.Inspect(fd.Body, func(n ast.Node) bool {
		if b, ok := n.(*ast.BinaryExpr); ok && (b.Op == token.EQL || b.Op == token.NEQ) {
			if isIdent(unparen(b.X), name) || isIdent(unparen(b.Y), name) {
				isVal = true
			}
		}
		return true
	})
	return isVal
}

// is the `any` parameter handed on, as it is, to a parameter of a translated function that is a Val?
func (g *lgen) anyParamPassedAsVal(fd *ast.FuncDecl, name string) bool {
	isVal := false
	ast.Inspect(fd.Body, func(n ast.Node) bool {
		call, ok := n.(*ast.CallExpr)
		if !ok || call.Ellipsis.IsValid() {
			return true
		}
		var callee *lfun
		switch fun := call.Fun.(type) {
		case *ast.Ident:
			callee = g.funs[fun.Name]
		case *ast.SelectorExpr:
			callee = g.funs["list."+fun.Sel.Name]
		}
		if callee == nil {
			return true
		}
		for i, a := range call.Args {
			if isIdent(unparen(a), name) && i < len(callee.params) && callee.params[i].typ == "Val" && !callee.params[i].variadic {
				isVal = true
			}
		}
		return true
	})
	return isVal
}

func (g *lgen) params(f *lfun) {
	for _, p := range f.decl.Type.Params.List {
		for _, n := range p.Names {
			lp := lparam{goName: n.Name, lean: lname(n.Name), goTyp: src(p.Type)}
			switch t := p.Type.(type) {
			case *ast.Ellipsis:
				lp.variadic = true
				switch src(t.Elt) {
				case "any":
					lp.typ = "GoVals"
				case "int":
					lp.typ = "Ints"
				}
			case *ast.FuncType:
				if f.cb != nil {
					failAt(p, "%s: more than one callback parameter", f.goName)
				}
				cb := &lcallback{goName: n.Name}
				if t.Results != nil && len(t.Results.List) == 1 {
					cb.resGo = src(t.Results.List[0].Type)
				}
				for _, a := range t.Params.List {
					k := len(a.Names)
					if k == 0 {
						k = 1
					}
					cb.nargs += k
				}
				switch {
				case t.Results == nil || len(t.Results.List) == 0:
					cb.observer = true
				case len(t.Results.List) == 1 && len(t.Results.List[0].Names) <= 1:
					r := src(t.Results.List[0].Type)
					switch {
					case cb.nargs >= 1 && src(t.Params.List[0].Type) == r && f.decl.Type.Results != nil &&
						len(f.decl.Type.Results.List) == 1 && src(f.decl.Type.Results.List[0].Type) == r:
						// func(T, …) T in a method that returns T: the accumulator of a fold
						cb.resTyp = "Alpha"
					case r == "any":
						cb.resTyp = "GoVal"
					case r == "bool":
						cb.resTyp = "Bool"
					}
				}
				if !cb.observer && cb.resTyp == "" {
					failAt(p, "%s: callback of unsupported type %s", f.goName, src(t))
				}
				f.cb = cb
				lp.typ = "Func"
			default:
				switch src(t) {
				case "int":
					lp.typ = "Int"
				case "bool":
					lp.typ = "Bool"
				case "List", "Object":
					lp.typ = "Ref"
				case "any":
					lp.typ = "GoVal"
					if anyParamIsVal(f.decl, n.Name) || g.anyParamPassedAsVal(f.decl, n.Name) {
						lp.typ = "Val"
					}
				}
			}
			f.params = append(f.params, lp)
		}
	}
	// R13: values of the callback's own result type are abstract
	if f.cb != nil && f.cb.resTyp == "Alpha" {
		for i := range f.params {
			if f.params[i].typ != "Func" && f.params[i].goTyp == f.cb.resGo {
				f.params[i].typ = "Alpha"
			}
		}
	}
	for _, lp := range f.params {
		if lp.typ == "" {
			failAt(f.decl, "%s: parameter %s of unsupported type %s", f.goName, lp.goName, lp.goTyp)
		}
	}
}

func (g *lgen) translate(f *lfun) {
	g.params(f)
	for attempt := 0; ; attempt++ {
		if attempt > 3 {
			failAt(f.decl, "internal: result shape of %s does not settle", f.goName)
		}
		if g.attempt(f) {
			return
		}
	}
}

func (g *lgen) attempt(f *lfun) (done bool) {
	defer func() {
		if r := recover(); r != nil {
			rt, ok := r.(*lretry)
			if !ok {
				panic(r)
			}
			f.heap = f.heap || rt.heap
			f.out = f.out || rt.out || rt.heap // R1: a function that writes the heap returns Heap × Out T
			f.resTyp = ""
			done = false
		}
	}()
	x := &lctx{g: g, f: f, shape: lshape{f.heap, f.out}, nfresh: map[string]int{}, loopCell: -1}
	env := &lenv{recv: f.recv, recvIdx: -1, heap: "h", locals: map[string]lbind{}, subst: map[ast.Node]lbind{},
		nonneg: map[string]bool{}, ltcount: map[string]bool{}}
	if f.method {
		env.cells = []lcell{{addr: "a"}}
		env.recvIdx = 0
	}
	for _, p := range f.params {
		env.locals[p.goName] = lbind{typ: p.typ, lean: p.lean}
	}
	if f.cb != nil {
		f.cb.argTyps = nil
		if f.cb.observer {
			env.locals[logVar] = lbind{typ: "Log", lean: "[]"}
		}
	}
	if r := f.decl.Type.Results; r == nil || len(r.List) != 1 || len(r.List[0].Names) > 1 {
		failAt(f.decl, "%s: only functions with one result are translated", f.goName)
	} else if len(r.List[0].Names) == 1 {
		// a named result starts with the zero value
		x.named = r.List[0].Names[0].Name
		switch src(r.List[0].Type) {
		case "int":
			env.locals[x.named] = lbind{typ: "Int", lean: "0"}
		case "float64":
			env.locals[x.named] = lbind{typ: "F64", lean: "FloatArith.zero"}
		default:
			failAt(f.decl, "%s: named result of unsupported type", f.goName)
		}
	}
	tree := x.execBlock(f.decl.Body.List, env, func(e *lenv) lnode {
		failAt(f.decl, "%s: control reaches the end of the function", f.goName)
		return nil
	})
	lt, ok := x.ltype(f.resTyp)
	if !ok {
		failAt(f.decl, "%s: unknown result type %q", f.goName, f.resTyp)
	}
	if f.cb != nil && f.cb.argTyps == nil {
		failAt(f.decl, "%s: the callback is never called", f.goName)
	}
	var b strings.Builder
	for _, h := range x.helpers {
		b.WriteString(h + "\n")
	}
	recv := ""
	if f.method {
		recv = "(*list)."
	}
	fmt.Fprintf(&b, "/-- `%s%s` (%s) -/\ndef %s", recv, f.goName, where(f.decl), f.lean)
	if f.cb != nil && f.cb.resTyp == "Alpha" {
		b.WriteString(" {α : Type}")
	}
	b.WriteString(" (h : Heap)")
	if f.method {
		b.WriteString(" (a : Nat)")
	}
	for _, p := range f.params {
		if p.typ == "Func" && f.cb.observer {
			continue
		}
		pt, _ := x.ltype(p.typ)
		fmt.Fprintf(&b, " (%s : %s)", p.lean, pt)
	}
	fmt.Fprintf(&b, " : %s :=\n  ", resultType(lshape{f.heap, f.out}, lt))
	emit(&b, tree, "  ")
	b.WriteString("\n")
	f.text = b.String()
	return true
}

const listGenPrelude = `/-- the Go value inside a value whose assertion to int / float64 has succeeded (R14) -/
def intOf : Val → Int | .int i => i | _ => 0
def floatOf : Val → F64 | .float f => f | _ => FloatArith.zero

/-- sort.Strings / sort.Ints / sort.Float64s on a typed slice held as values of that kind (R12) -/
def sortStrVals (vs : List Val) : List Val := ((vs.filterMap L.asStr).mergeSort L.strLe).map .str
def sortIntVals (vs : List Val) : List Val := ((vs.filterMap L.asInt).mergeSort (fun x y => decide (x ≤ y))).map .int
def sortFloatVals (vs : List Val) : List Val := ((vs.filterMap L.asFloat).mergeSort L.floatLe).map .float

`

func genListOps(pkg *pkgInfo) (text string, err error) {
	defer func() {
		if r := recover(); r != nil {
			te, ok := r.(*transErr)
			if !ok {
				panic(r)
			}
			text, err = "", te
		}
	}()
	g := &lgen{pkg: pkg, funs: map[string]*lfun{}}
	var b strings.Builder
	b.WriteString("/-\nGENERATED by vextract from the Go source (list_impl.go) — do not edit.\n\n")
	b.WriteString("A translation of the sequence core of `*list` into Lean, statement by statement, under the\nrestructuring rules listed at the top of vextract/listgen.go (heap passing, `ego.val` as a\n`List Val`, loops as recursive helpers, panics by message prefix).  Lemmas/ListGenEq.lean proves\nevery definition equal to the hand-written model (Model/ListOps.lean, Model/Normalize.lean), so a\nchange of the Go source that alters the behaviour breaks the build.\n-/\n")
	b.WriteString("import Anytype.Model.ListOps\nimport Anytype.Model.Aggregates\nset_option linter.unusedVariables false\nnamespace Anytype.Generated\nopen Anytype\n\n")
	b.WriteString(listGenPrelude)
	for _, ti := range orderedListTargets(pkg) {
		t := listTargets[ti]
		f := &lfun{goName: t.goName, lean: t.lean, method: t.method}
		if t.method {
			m := pkg.methods["list"][t.goName]
			if m == nil {
				failAt(nil, "method (*list).%s not found", t.goName)
			}
			f.decl, f.recv = m.decl, m.recvName
			if f.recv == "" {
				failAt(m.decl, "(*list).%s has no receiver name", t.goName)
			}
		} else {
			f.decl = pkg.funcs[t.goName]
			if f.decl == nil {
				failAt(nil, "function %s not found", t.goName)
			}
		}
		g.translate(f)
		if t.method {
			g.funs["list."+t.goName] = f
		} else {
			g.funs[t.goName] = f
		}
		b.WriteString(f.text + "\n")
	}
	b.WriteString("end Anytype.Generated\n")
	return b.String(), nil
}
