// vextract extracts, from the Go source of the anytype library, the facts the Lean development
// relies on and writes them as Lean files:
//
//	Async.lean    — the synchronisation skeletons (Anytype.Async.Skel) of the four …Async methods
//	                and `decide` proofs that each is one of the accepted skeletons
//	WriteSet.lean — which methods of *list / *object syntactically write the receiver's fields,
//	                and that no operation the specification calls non-mutating is among them
//	Api.lean      — the method names of the List and Object interfaces
//
// Usage: vextract <repo dir> <out dir>
//
// Standard library only (go/parser, go/ast, go/token, go/printer).
package main

import (
	"bytes"
	"fmt"
	"go/ast"
	"go/parser"
	"go/printer"
	"go/token"
	"os"
	"path/filepath"
	"sort"
	"strings"
)

var fset = token.NewFileSet()

func main() {
	if len(os.Args) != 3 {
		fmt.Fprintln(os.Stderr, "usage: vextract <repo dir> <out dir>")
		os.Exit(2)
	}
	repo, out := os.Args[1], os.Args[2]
	files, err := parseDir(repo)
	if err != nil {
		fmt.Fprintln(os.Stderr, "vextract:", err)
		os.Exit(1)
	}
	if err := os.MkdirAll(out, 0o755); err != nil {
		fmt.Fprintln(os.Stderr, "vextract:", err)
		os.Exit(1)
	}
	pkg := collect(files)
	outputs := map[string]string{
		"Async.lean":    genAsync(pkg),
		"WriteSet.lean": genWriteSet(pkg),
		"Api.lean":      genApi(pkg),
	}
	for name, text := range outputs {
		if err := os.WriteFile(filepath.Join(out, name), []byte(text), 0o644); err != nil {
			fmt.Fprintln(os.Stderr, "vextract:", err)
			os.Exit(1)
		}
	}
}

// ---------------------------------------------------------------------------------------------
// parsing and collecting

func parseDir(dir string) ([]*ast.File, error) {
	entries, err := os.ReadDir(dir)
	if err != nil {
		return nil, err
	}
	var files []*ast.File
	for _, e := range entries {
		name := e.Name()
		if e.IsDir() || !strings.HasSuffix(name, ".go") || strings.HasSuffix(name, "_test.go") {
			continue
		}
		f, err := parser.ParseFile(fset, filepath.Join(dir, name), nil, parser.SkipObjectResolution)
		if err != nil {
			return nil, err
		}
		files = append(files, f)
	}
	if len(files) == 0 {
		return nil, fmt.Errorf("no Go files in %s", dir)
	}
	return files, nil
}

type method struct {
	recvType string // "list" / "object"
	recvName string // "ego"
	decl     *ast.FuncDecl
}

type pkgInfo struct {
	methods    map[string]map[string]*method // receiver type -> method name -> decl
	interfaces map[string]*ast.InterfaceType // "List", "Object"
}

func collect(files []*ast.File) *pkgInfo {
	p := &pkgInfo{methods: map[string]map[string]*method{}, interfaces: map[string]*ast.InterfaceType{}}
	for _, f := range files {
		for _, d := range f.Decls {
			switch d := d.(type) {
			case *ast.FuncDecl:
				if d.Recv == nil || len(d.Recv.List) != 1 || d.Body == nil {
					continue
				}
				r := d.Recv.List[0]
				t := r.Type
				if s, ok := t.(*ast.StarExpr); ok {
					t = s.X
				}
				id, ok := t.(*ast.Ident)
				if !ok {
					continue
				}
				name := ""
				if len(r.Names) == 1 {
					name = r.Names[0].Name
				}
				if p.methods[id.Name] == nil {
					p.methods[id.Name] = map[string]*method{}
				}
				p.methods[id.Name][d.Name.Name] = &method{recvType: id.Name, recvName: name, decl: d}
			case *ast.GenDecl:
				if d.Tok != token.TYPE {
					continue
				}
				for _, s := range d.Specs {
					ts := s.(*ast.TypeSpec)
					if it, ok := ts.Type.(*ast.InterfaceType); ok {
						p.interfaces[ts.Name.Name] = it
					}
				}
			}
		}
	}
	return p
}

func src(n ast.Node) string {
	var b bytes.Buffer
	if err := printer.Fprint(&b, fset, n); err != nil {
		return fmt.Sprintf("<unprintable: %v>", err)
	}
	return strings.Join(strings.Fields(b.String()), " ")
}

func leanString(s string) string {
	var b strings.Builder
	b.WriteByte('"')
	for _, r := range s {
		switch r {
		case '"':
			b.WriteString("\\\"")
		case '\\':
			b.WriteString("\\\\")
		case '\n':
			b.WriteString("\\n")
		case '\t':
			b.WriteString("\\t")
		case '\r':
			b.WriteString("\\r")
		default:
			b.WriteRune(r)
		}
	}
	b.WriteByte('"')
	return b.String()
}

func leanStringList(xs []string) string {
	q := make([]string, len(xs))
	for i, x := range xs {
		q[i] = leanString(x)
	}
	return "[" + strings.Join(q, ", ") + "]"
}

func leanPairList(xs [][2]string, indent string) string {
	if len(xs) == 0 {
		return "[]"
	}
	q := make([]string, len(xs))
	for i, x := range xs {
		q[i] = "(" + leanString(x[0]) + ", " + leanString(x[1]) + ")"
	}
	// a few per line
	var lines []string
	for i := 0; i < len(q); i += 4 {
		j := i + 4
		if j > len(q) {
			j = len(q)
		}
		lines = append(lines, indent+strings.Join(q[i:j], ", "))
	}
	return "[\n" + strings.Join(lines, ",\n") + "]"
}

// ---------------------------------------------------------------------------------------------
// small AST helpers

func isIdent(e ast.Expr, name string) bool {
	id, ok := e.(*ast.Ident)
	return ok && name != "" && id.Name == name
}

// selector X.Sel with X an identifier
func selOf(e ast.Expr) (x, sel string, ok bool) {
	s, ok := e.(*ast.SelectorExpr)
	if !ok {
		return "", "", false
	}
	id, ok := s.X.(*ast.Ident)
	if !ok {
		return "", "", false
	}
	return id.Name, s.Sel.Name, true
}

// call of the form x.m(args)
func methodCall(e ast.Expr) (x, m string, args []ast.Expr, ok bool) {
	c, ok := e.(*ast.CallExpr)
	if !ok {
		return "", "", nil, false
	}
	x, m, ok = selOf(c.Fun)
	if !ok {
		return "", "", nil, false
	}
	return x, m, c.Args, true
}

func isSyncType(e ast.Expr, name string) bool {
	x, sel, ok := selOf(e)
	return ok && x == "sync" && sel == name
}

func unparen(e ast.Expr) ast.Expr {
	for {
		p, ok := e.(*ast.ParenExpr)
		if !ok {
			return e
		}
		e = p.X
	}
}

// ---------------------------------------------------------------------------------------------
// Async skeletons

type skel struct {
	hasResult        bool
	add              string // beforeLoop / insideLoop / missing
	addIsCount       bool
	args             string // byValue / captured
	body             []string
	waitBeforeReturn bool
	extra            []string
}

func (s *skel) lean() string {
	b := func(x bool) string {
		if x {
			return "true"
		}
		return "false"
	}
	return fmt.Sprintf("{ hasResult := %s, add := .%s, addIsCount := %s, args := .%s,\n    body := [%s],\n    waitBeforeReturn := %s,\n    extra := %s }",
		b(s.hasResult), s.add, b(s.addIsCount), s.args, strings.Join(s.body, ", "),
		b(s.waitBeforeReturn), leanStringList(s.extra))
}

type asyncCtx struct {
	recv     string // receiver name
	function string // the callback parameter
	wg       string
	mutex    string
	result   string
	// the step closure
	stepName   string
	stepParams []string // names of the closure's parameters, in order
	stepGroup  string   // the *sync.WaitGroup parameter
	stepBody   []ast.Stmt
}

// the element count of the receiver
func (c *asyncCtx) isCount(e ast.Expr) bool {
	switch src(e) {
	case c.recv + ".Ego().Count()", c.recv + ".Count()", "len(" + c.recv + ".val)":
		return true
	}
	return false
}

// map one statement of the goroutine body; idx / val are the expressions that denote the index
// (key) and the value inside that body
func (c *asyncCtx) bodyStep(st ast.Stmt, group, idx, val string) string {
	opaque := "(.opaque " + leanString(src(st)) + ")"
	es, ok := st.(*ast.ExprStmt)
	if !ok {
		return opaque
	}
	call, ok := es.X.(*ast.CallExpr)
	if !ok {
		return opaque
	}
	isCallback := func(e ast.Expr) bool {
		cc, ok := e.(*ast.CallExpr)
		return ok && isIdent(cc.Fun, c.function) && len(cc.Args) == 2 &&
			src(cc.Args[0]) == idx && src(cc.Args[1]) == val
	}
	if isCallback(call) {
		return ".call"
	}
	if x, m, args, ok := methodCall(call); ok {
		switch {
		case x == c.mutex && c.mutex != "" && m == "Lock" && len(args) == 0:
			return ".lock"
		case x == c.mutex && c.mutex != "" && m == "Unlock" && len(args) == 0:
			return ".unlock"
		case (x == group || x == c.wg) && x != "" && m == "Done" && len(args) == 0:
			return ".done"
		case x == c.result && c.result != "" && (m == "Replace" || m == "Set") && len(args) == 2 &&
			src(args[0]) == idx && isCallback(args[1]):
			return ".callWrite"
		}
	}
	return opaque
}

func extractAsync(m *method) *skel {
	s := &skel{add: "missing", args: "captured"}
	if m == nil {
		s.extra = append(s.extra, "method not found")
		return s
	}
	c := &asyncCtx{recv: m.recvName}
	for _, p := range m.decl.Type.Params.List {
		if _, ok := p.Type.(*ast.FuncType); ok && len(p.Names) == 1 && c.function == "" {
			c.function = p.Names[0].Name
		}
	}
	if c.function == "" {
		s.extra = append(s.extra, "no callback parameter")
	}
	seenLoop, seenWait, seenGo, seenReturn, seenAdd := false, false, false, false, false
	stmts := m.decl.Body.List
	for _, st := range stmts {
		if seenReturn {
			s.extra = append(s.extra, src(st))
			continue
		}
		switch st := st.(type) {
		case *ast.DeclStmt:
			gd, ok := st.Decl.(*ast.GenDecl)
			if ok && gd.Tok == token.VAR && len(gd.Specs) == 1 {
				vs := gd.Specs[0].(*ast.ValueSpec)
				if len(vs.Names) == 1 && len(vs.Values) == 0 && vs.Type != nil {
					if isSyncType(vs.Type, "WaitGroup") && c.wg == "" {
						c.wg = vs.Names[0].Name
						continue
					}
					if isSyncType(vs.Type, "Mutex") && c.mutex == "" {
						c.mutex = vs.Names[0].Name
						continue
					}
				}
			}
			s.extra = append(s.extra, src(st))
		case *ast.AssignStmt:
			if st.Tok == token.DEFINE && len(st.Lhs) == 1 && len(st.Rhs) == 1 {
				name, _ := st.Lhs[0].(*ast.Ident)
				switch rhs := st.Rhs[0].(type) {
				case *ast.FuncLit:
					if name != nil && c.stepName == "" && !seenLoop {
						c.stepName = name.Name
						for _, p := range rhs.Type.Params.List {
							for _, n := range p.Names {
								c.stepParams = append(c.stepParams, n.Name)
								if star, ok := p.Type.(*ast.StarExpr); ok && isSyncType(star.X, "WaitGroup") {
									c.stepGroup = n.Name
								}
							}
						}
						c.stepBody = rhs.Body.List
						continue
					}
				case *ast.CallExpr:
					// result := NewListOf(nil, <count>)   (list)   /   result := NewObject()   (object)
					if name != nil && c.result == "" && !seenLoop {
						okShape := false
						if isIdent(rhs.Fun, "NewListOf") && m.recvType == "list" && len(rhs.Args) == 2 &&
							src(rhs.Args[0]) == "nil" && c.isCount(rhs.Args[1]) {
							okShape = true
						}
						if isIdent(rhs.Fun, "NewObject") && m.recvType == "object" && len(rhs.Args) == 0 {
							okShape = true
						}
						if okShape {
							c.result = name.Name
							s.hasResult = true
							continue
						}
					}
				}
			}
			s.extra = append(s.extra, src(st))
		case *ast.ExprStmt:
			if x, mm, args, ok := methodCall(st.X); ok && x == c.wg && c.wg != "" {
				if mm == "Add" && len(args) == 1 && !seenLoop && !seenAdd {
					seenAdd = true
					s.add = "beforeLoop"
					s.addIsCount = c.isCount(args[0])
					continue
				}
				if mm == "Wait" && len(args) == 0 && seenLoop && !seenWait {
					seenWait = true
					continue
				}
			}
			s.extra = append(s.extra, src(st))
		case *ast.RangeStmt:
			if seenLoop || seenWait || src(st.X) != c.recv+".val" || st.Tok != token.DEFINE ||
				st.Key == nil || st.Value == nil {
				s.extra = append(s.extra, src(st))
				continue
			}
			seenLoop = true
			key, value := src(st.Key), src(st.Value)
			for _, inner := range st.Body.List {
				switch inner := inner.(type) {
				case *ast.ExprStmt:
					if x, mm, args, ok := methodCall(inner.X); ok && x == c.wg && c.wg != "" &&
						mm == "Add" && len(args) == 1 && !seenAdd && !seenGo {
						seenAdd = true
						s.add = "insideLoop"
						s.addIsCount = c.isCount(args[0])
						continue
					}
					s.extra = append(s.extra, src(inner))
				case *ast.GoStmt:
					if seenGo {
						s.extra = append(s.extra, src(inner))
						continue
					}
					seenGo = true
					c.goStmt(s, inner, key, value)
				default:
					s.extra = append(s.extra, src(inner))
				}
			}
		case *ast.ReturnStmt:
			seenReturn = true
			s.waitBeforeReturn = seenWait
			if len(st.Results) != 1 {
				s.extra = append(s.extra, src(st))
			} else if s.hasResult && !isIdent(st.Results[0], c.result) {
				s.extra = append(s.extra, src(st))
			}
		default:
			s.extra = append(s.extra, src(st))
		}
	}
	if !seenLoop {
		s.extra = append(s.extra, "no `for … := range "+c.recv+".val` loop")
	} else if !seenGo {
		s.extra = append(s.extra, "no go statement in the loop")
	}
	if !seenReturn {
		s.extra = append(s.extra, "no return statement")
	}
	if c.stepName != "" && !seenGo {
		s.extra = append(s.extra, "closure "+c.stepName+" is never spawned")
	}
	return s
}

// the go statement of the loop: `go step(&wg, key, value.getVal())` or `go func(…){…}(…)`
func (c *asyncCtx) goStmt(s *skel, g *ast.GoStmt, key, value string) {
	call := g.Call
	var params []string
	var group string
	var body []ast.Stmt
	switch fun := call.Fun.(type) {
	case *ast.Ident:
		if fun.Name != c.stepName || c.stepName == "" {
			s.extra = append(s.extra, src(g))
			return
		}
		params, group, body = c.stepParams, c.stepGroup, c.stepBody
	case *ast.FuncLit:
		if c.stepName != "" {
			s.extra = append(s.extra, "closure "+c.stepName+" is never spawned")
		}
		for _, p := range fun.Type.Params.List {
			for _, n := range p.Names {
				params = append(params, n.Name)
				if star, ok := p.Type.(*ast.StarExpr); ok && isSyncType(star.X, "WaitGroup") {
					group = n.Name
				}
			}
		}
		body = fun.Body.List
	default:
		s.extra = append(s.extra, src(g))
		return
	}
	idx, val := "", ""
	if len(params) == 0 && len(call.Args) == 0 {
		// the closure captures the loop variables
		s.args = "captured"
		idx, val = key, value+".getVal()"
	} else if len(params) == 3 && len(call.Args) == 3 && group == params[0] &&
		src(call.Args[0]) == "&"+c.wg && c.wg != "" &&
		src(call.Args[1]) == key && src(call.Args[2]) == value+".getVal()" {
		// arguments evaluated by main at spawn time
		s.args = "byValue"
		idx, val = params[1], params[2]
	} else {
		s.extra = append(s.extra, src(g))
		return
	}
	for _, st := range body {
		s.body = append(s.body, c.bodyStep(st, group, idx, val))
	}
}

func genAsync(p *pkgInfo) string {
	var b strings.Builder
	b.WriteString("/-\nGENERATED by vextract from the Go source — do not edit.\n\n")
	b.WriteString("The synchronisation skeletons of the four …Async methods, and the check that each of them is\none of the accepted skeletons (for which Props/C15 proves the safety statement).  A change of\nthe Go source that alters the protocol makes the `decide` below fail.\n-/\n")
	b.WriteString("import Anytype.Model.Async\nnamespace Anytype.Generated\nopen Anytype.Async\n\n")
	type item struct{ lean, recv, name string }
	items := []item{
		{"listForEachAsync", "list", "ForEachAsync"},
		{"listMapAsync", "list", "MapAsync"},
		{"objectForEachAsync", "object", "ForEachAsync"},
		{"objectMapAsync", "object", "MapAsync"},
	}
	for _, it := range items {
		var m *method
		if ms := p.methods[it.recv]; ms != nil {
			m = ms[it.name]
		}
		s := extractAsync(m)
		where := ""
		if m != nil {
			pos := fset.Position(m.decl.Pos())
			where = fmt.Sprintf(" (%s:%d)", filepath.Base(pos.Filename), pos.Line)
		}
		fmt.Fprintf(&b, "/-- `(*%s).%s`%s -/\ndef %s : Skel :=\n  %s\n\n", it.recv, it.name, where, it.lean, s.lean())
	}
	for _, it := range items {
		fmt.Fprintf(&b, "theorem %s_wf : WellFormed %s = true := by decide\n", it.lean, it.lean)
	}
	b.WriteString("\nend Anytype.Generated\n")
	return b.String()
}

// ---------------------------------------------------------------------------------------------
// write sets

// is e rooted at <recv>.<field> (through parentheses, slicing, indexing)?  aliases: local names
// bound to (a slice of) <recv>.val
func rootedAt(e ast.Expr, recv string, fields map[string]bool, aliases map[string]bool, allowBare bool) bool {
	e = unparen(e)
	depth := 0
	for {
		switch x := e.(type) {
		case *ast.ParenExpr:
			e = x.X
			continue
		case *ast.SliceExpr:
			e = x.X
			depth++
			continue
		case *ast.IndexExpr:
			e = x.X
			depth++
			continue
		case *ast.SelectorExpr:
			if id, ok := x.X.(*ast.Ident); ok && id.Name == recv && fields[x.Sel.Name] {
				return true
			}
			return false
		case *ast.Ident:
			if aliases[x.Name] {
				return allowBare || depth > 0
			}
			return false
		default:
			return false
		}
	}
}

func writesReceiver(m *method) bool {
	recv := m.recvName
	if recv == "" {
		return false
	}
	valOnly := map[string]bool{"val": true}
	anyField := map[string]bool{"val": true, "ptr": true}
	aliases := map[string]bool{}
	// pass 1: local aliases of the receiver's slice / map:  x := ego.val  /  x := ego.val[a:b]
	ast.Inspect(m.decl.Body, func(n ast.Node) bool {
		if as, ok := n.(*ast.AssignStmt); ok && len(as.Lhs) == len(as.Rhs) {
			for i, lhs := range as.Lhs {
				id, ok := lhs.(*ast.Ident)
				if !ok {
					continue
				}
				rhs := unparen(as.Rhs[i])
				switch r := rhs.(type) {
				case *ast.SelectorExpr:
					if rootedAt(r, recv, valOnly, nil, true) {
						aliases[id.Name] = true
					}
				case *ast.SliceExpr:
					if rootedAt(r, recv, valOnly, aliases, true) {
						aliases[id.Name] = true
					}
				}
			}
		}
		return true
	})
	writes := false
	// an assignable expression that denotes (part of) the receiver's state
	target := func(e ast.Expr) bool {
		e = unparen(e)
		if _, ok := e.(*ast.Ident); ok {
			return false // rebinding a local alias does not write the receiver
		}
		return rootedAt(e, recv, anyField, aliases, false)
	}
	dest := func(e ast.Expr) bool { return rootedAt(e, recv, valOnly, aliases, true) }
	ast.Inspect(m.decl.Body, func(n ast.Node) bool {
		switch n := n.(type) {
		case *ast.AssignStmt:
			if n.Tok != token.DEFINE {
				for _, lhs := range n.Lhs {
					if target(lhs) {
						writes = true
					}
				}
			}
		case *ast.IncDecStmt:
			if target(n.X) {
				writes = true
			}
		case *ast.RangeStmt:
			if n.Tok == token.ASSIGN {
				if n.Key != nil && target(n.Key) {
					writes = true
				}
				if n.Value != nil && target(n.Value) {
					writes = true
				}
			}
		case *ast.UnaryExpr:
			// &ego.val, &ego.val[i]: the address escapes
			if n.Op == token.AND && rootedAt(n.X, recv, anyField, aliases, false) {
				if _, isIdent := unparen(n.X).(*ast.Ident); !isIdent {
					writes = true
				}
			}
		case *ast.CallExpr:
			if id, ok := n.Fun.(*ast.Ident); ok && len(n.Args) > 0 {
				switch id.Name {
				case "append", "delete", "copy", "clear":
					if dest(n.Args[0]) {
						writes = true
					}
				}
			}
			if x, _, ok := selOf(n.Fun); ok && (x == "sort" || x == "slices") {
				for _, a := range n.Args {
					if dest(a) {
						writes = true
					}
				}
			}
		}
		return true
	})
	return writes
}

var readOnlyList = []string{"Ego", "Get*", "TypeOf", "String", "FormatString", "Slice", "NativeSlice", "*Slice",
	"Clone", "Count", "Empty", "Equals", "Concat", "SubList", "Contains", "IndexOf", "All*", "ForEach*",
	"Map*", "Reduce*", "Filter*", "IntSum", "Sum", "IntProd", "Prod", "Avg", "IntMin", "Min", "IntMax", "Max",
	"GetTF", "TypeOfTF"}

var readOnlyObject = []string{"Ego", "Get*", "TypeOf", "String", "FormatString", "Dict", "NativeDict", "Keys",
	"Values", "Clone", "Count", "Empty", "Equals", "Merge", "Pluck", "Contains", "KeyOf", "KeyExists",
	"ForEach*", "Map*", "GetTF", "TypeOfTF"}

var mutatorsList = []string{"Init", "Add", "Insert", "Replace", "Delete", "Pop", "Clear", "Sort", "Reverse", "SetTF", "UnsetTF"}
var mutatorsObject = []string{"Init", "Set", "Unset", "Clear", "SetTF", "UnsetTF"}

func matches(patterns []string, name string) bool {
	for _, p := range patterns {
		switch {
		case strings.HasPrefix(p, "*") && len(p) > 1:
			if strings.HasSuffix(name, p[1:]) {
				return true
			}
		case strings.HasSuffix(p, "*") && len(p) > 1:
			if strings.HasPrefix(name, p[:len(p)-1]) {
				return true
			}
		default:
			if name == p {
				return true
			}
		}
	}
	return false
}

func sortedMethodNames(ms map[string]*method) []string {
	var names []string
	for n := range ms {
		names = append(names, n)
	}
	sort.Strings(names)
	return names
}

func genWriteSet(p *pkgInfo) string {
	var writers, readOnly, mutators [][2]string
	for _, recv := range []string{"list", "object"} {
		patterns, muts := readOnlyList, mutatorsList
		if recv == "object" {
			patterns, muts = readOnlyObject, mutatorsObject
		}
		for _, name := range sortedMethodNames(p.methods[recv]) {
			m := p.methods[recv][name]
			if writesReceiver(m) {
				writers = append(writers, [2]string{recv, name})
			}
			if ast.IsExported(name) && matches(patterns, name) {
				readOnly = append(readOnly, [2]string{recv, name})
			}
		}
		for _, name := range muts {
			mutators = append(mutators, [2]string{recv, name})
		}
	}
	var b strings.Builder
	b.WriteString("/-\nGENERATED by vextract from the Go source — do not edit.\n\n")
	b.WriteString("`writers`: the methods of `*list` / `*object` whose body (syntactically, not through calls)\nassigns the receiver's `val` / `ptr`, an element `ego.val[…]`, or calls `append` / `delete` /\n`copy` / `sort.*` with `ego.val` (or a local alias / slice of it) as destination.\n`readOnlyApi`: the operations the specification calls non-mutating (C15, second sentence).\n`mutators`: the operations expected to write.\n-/\n")
	b.WriteString("namespace Anytype.Generated\n\n")
	fmt.Fprintf(&b, "def writers : List (String × String) := %s\n\n", leanPairList(writers, "  "))
	fmt.Fprintf(&b, "def readOnlyApi : List (String × String) := %s\n\n", leanPairList(readOnly, "  "))
	fmt.Fprintf(&b, "def mutators : List (String × String) := %s\n\n", leanPairList(mutators, "  "))
	b.WriteString("/-- no operation the specification calls non-mutating writes the receiver -/\n")
	b.WriteString("theorem readonly_do_not_write : ∀ m ∈ readOnlyApi, m ∉ writers := by decide +kernel\n\n")
	b.WriteString("/-- every method that writes the receiver is a declared mutator -/\n")
	b.WriteString("theorem writers_are_mutators : ∀ w ∈ writers, w ∈ mutators := by decide +kernel\n\n")
	b.WriteString("/-- the two classes are disjoint -/\n")
	b.WriteString("theorem readonly_not_mutators : ∀ m ∈ readOnlyApi, m ∉ mutators := by decide +kernel\n\n")
	b.WriteString("end Anytype.Generated\n")
	return b.String()
}

// ---------------------------------------------------------------------------------------------
// API tables

func interfaceMethods(it *ast.InterfaceType, self string) (names, returnsSelf []string) {
	if it == nil {
		return nil, nil
	}
	for _, f := range it.Methods.List {
		ft, ok := f.Type.(*ast.FuncType)
		if !ok {
			continue // embedded interface
		}
		for _, n := range f.Names {
			if !ast.IsExported(n.Name) {
				continue
			}
			names = append(names, n.Name)
			if ft.Results != nil && len(ft.Results.List) == 1 && len(ft.Results.List[0].Names) <= 1 &&
				isIdent(ft.Results.List[0].Type, self) {
				returnsSelf = append(returnsSelf, n.Name)
			}
		}
	}
	sort.Strings(names)
	sort.Strings(returnsSelf)
	return names, returnsSelf
}

func genApi(p *pkgInfo) string {
	ln, ls := interfaceMethods(p.interfaces["List"], "List")
	on, os_ := interfaceMethods(p.interfaces["Object"], "Object")
	var b strings.Builder
	b.WriteString("/-\nGENERATED by vextract from the Go source — do not edit.\n\n")
	b.WriteString("The exported methods of the `List` and `Object` interfaces (sorted), those whose result type\nis the interface itself, and the check that every one of them is classified as read-only or as\na mutator in `WriteSet.lean`.\n-/\n")
	b.WriteString("import Anytype.Generated.WriteSet\nnamespace Anytype.Generated\n\n")
	wrap := func(xs []string) string {
		var lines []string
		for i := 0; i < len(xs); i += 6 {
			j := i + 6
			if j > len(xs) {
				j = len(xs)
			}
			q := make([]string, 0, 6)
			for _, x := range xs[i:j] {
				q = append(q, leanString(x))
			}
			lines = append(lines, "  "+strings.Join(q, ", "))
		}
		if len(lines) == 0 {
			return "[]"
		}
		return "[\n" + strings.Join(lines, ",\n") + "]"
	}
	fmt.Fprintf(&b, "def listMethods : List String := %s\n\n", wrap(ln))
	fmt.Fprintf(&b, "def objectMethods : List String := %s\n\n", wrap(on))
	fmt.Fprintf(&b, "def listReturnsSelf : List String := %s\n\n", wrap(ls))
	fmt.Fprintf(&b, "def objectReturnsSelf : List String := %s\n\n", wrap(os_))
	b.WriteString("/-- every method of the `List` interface is classified -/\n")
	b.WriteString("theorem list_api_classified :\n    ∀ m ∈ listMethods, (\"list\", m) ∈ readOnlyApi ∨ (\"list\", m) ∈ mutators := by decide +kernel\n\n")
	b.WriteString("/-- every method of the `Object` interface is classified -/\n")
	b.WriteString("theorem object_api_classified :\n    ∀ m ∈ objectMethods, (\"object\", m) ∈ readOnlyApi ∨ (\"object\", m) ∈ mutators := by decide +kernel\n\n")
	b.WriteString("end Anytype.Generated\n")
	return b.String()
}
