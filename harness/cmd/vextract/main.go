// vextract extracts, from the Go source of the anytype library, the facts the Lean development
// relies on and writes them as Lean files:
//
//	Async.lean    — the synchronisation skeletons (Anytype.Async.Skel) of the four …Async methods
//	                and `decide` proofs that each is one of the accepted skeletons
//	WriteSet.lean — which methods of *list / *object syntactically write the receiver's fields,
//	                and that no operation the specification calls non-mutating is among them
//	Api.lean      — the method names of the List and Object interfaces
//	ParserGen.lean — a translation of the parser core (parseList, parseObject, parseField, ParseList,
//	                ParseObject, the escape table of quoteJSON) into Lean definitions;
//	                Lemmas/ParserGenEq proves them equal to the hand-written model
//
// Usage: vextract <repo dir> <out dir>
//
// Standard library only (go/parser, go/ast, go/token, go/printer).
package main

import (
	"bytes"
	"fmt"
	"go/ast"
	"go/parser"
	"go/printer"
	"go/token"
	"os"
	"path/filepath"
	"reflect"
	"sort"
	"strconv"
	"strings"
)

var fset = token.NewFileSet()

func main() {
	if len(os.Args) != 3 {
		fmt.Fprintln(os.Stderr, "usage: vextract <repo dir> <out dir>")
		os.Exit(2)
	}
	repo, out := os.Args[1], os.Args[2]
	files, err := parseDir(repo)
	if err != nil {
		fmt.Fprintln(os.Stderr, "vextract:", err)
		os.Exit(1)
	}
	if err := os.MkdirAll(out, 0o755); err != nil {
		fmt.Fprintln(os.Stderr, "vextract:", err)
		os.Exit(1)
	}
	// helper functions introduced since the pinned source are inlined first (inline.go)
	// and a few statement forms are rewritten into the equivalent form the pinned source uses (normalize.go)
	nlog := normalizeForms(files)
	nlog = append(nlog, inlineHelpers(files)...)
	nlog = append(nlog, normalizeForms(files)...)
	for _, l := range nlog {
		fmt.Fprintln(os.Stderr, "vextract: pre-pass:", l)
	}
	pkg := collect(files)
	outputs := map[string]string{
		"Async.lean":    genAsync(pkg),
		"WriteSet.lean": genWriteSet(pkg),
		"Api.lean":      genApi(pkg),
		"Storage.lean":  genStorage(pkg),
	}
	// the parser translation fails loudly: the other outputs are still written, ParserGen.lean is
	// replaced by a file that does not compile, and the exit status is non-zero
	parserGen, perr := genParser(pkg)
	if perr != nil {
		parserGen = "#check (vextract_translation_failed : " + leanString(perr.Error()) + ")\n"
	}
	outputs["ParserGen.lean"] = parserGen
	// the list translation (listgen.go) fails loudly in the same way
	listGen, lerr := genListOps(pkg)
	if lerr != nil {
		listGen = "#check (vextract_translation_failed : " + leanString(lerr.Error()) + ")\n"
		fmt.Fprintln(os.Stderr, "vextract: list translation failed:", lerr)
		defer os.Exit(1)
	}
	outputs["ListGen.lean"] = listGen
	// the translation of the object operations fails loudly in the same way
	objectGen, oerr := genObjectOps(pkg)
	if oerr != nil {
		objectGen = "#check (vextract_translation_failed : " + leanString(oerr.Error()) + ")\n"
		fmt.Fprintln(os.Stderr, "vextract: object translation failed:", oerr)
		defer os.Exit(1)
	}
	outputs["ObjectGen.lean"] = objectGen
	// the tree-form / serialisation translation (tfgen.go), in the same failing-loudly style
	treeFormGen, tferr := genTreeForm(pkg)
	if tferr != nil {
		treeFormGen = "#check (vextract_translation_failed : " + leanString(tferr.Error()) + ")\n"
		fmt.Fprintln(os.Stderr, "vextract: tree-form translation failed:", tferr)
		defer os.Exit(1) // after the outputs have been written
	}
	outputs["TreeFormGen.lean"] = treeFormGen
	// the translation of Filter*, IntMin/IntMax/Min/Max, NewListFrom (listgen2.go), failing loudly in the same way
	list2Gen, l2err := genList2(pkg)
	if l2err != nil {
		list2Gen = "#check (vextract_translation_failed : " + leanString(l2err.Error()) + ")\n"
		fmt.Fprintln(os.Stderr, "vextract: list translation (part 2) failed:", l2err)
		defer os.Exit(1) // after the outputs have been written
	}
	outputs["ListGen2.lean"] = list2Gen
	// the copy / isEqual / Clone / Equals translation (clonegen.go), in the same failing-loudly style
	cloneGen, cerr := genClone(pkg)
	if cerr != nil {
		cloneGen = "#check (vextract_translation_failed : " + leanString(cerr.Error()) + ")\n"
		fmt.Fprintln(os.Stderr, "vextract: clone translation failed:", cerr)
		defer os.Exit(1) // after the outputs have been written
	}
	outputs["CloneGen.lean"] = cloneGen
	// the translation of unquoteJSON / quoteJSON / ParseFile (strgen.go), in the same failing-loudly style
	strGen, sgerr := genStr(pkg)
	if sgerr != nil {
		strGen = "#check (vextract_translation_failed : " + leanString(sgerr.Error()) + ")\n"
		fmt.Fprintln(os.Stderr, "vextract: string translation failed:", sgerr)
		defer os.Exit(1) // after the outputs have been written
	}
	outputs["StrGen.lean"] = strGen
	for name, text := range outputs {
		if err := os.WriteFile(filepath.Join(out, name), []byte(text), 0o644); err != nil {
			fmt.Fprintln(os.Stderr, "vextract:", err)
			os.Exit(1)
		}
	}
	if perr != nil {
		fmt.Fprintln(os.Stderr, "vextract: parser translation failed:", perr)
		os.Exit(1)
	}
}

// ---------------------------------------------------------------------------------------------
// parsing and collecting

func parseDir(dir string) ([]*ast.File, error) {
	entries, err := os.ReadDir(dir)
	if err != nil {
		return nil, err
	}
	var files []*ast.File
	for _, e := range entries {
		name := e.Name()
		if e.IsDir() || !strings.HasSuffix(name, ".go") || strings.HasSuffix(name, "_test.go") {
			continue
		}
		f, err := parser.ParseFile(fset, filepath.Join(dir, name), nil, parser.SkipObjectResolution)
		if err != nil {
			return nil, err
		}
		files = append(files, f)
	}
	if len(files) == 0 {
		return nil, fmt.Errorf("no Go files in %s", dir)
	}
	return files, nil
}

type method struct {
	recvType string // "list" / "object"
	recvName string // "ego"
	decl     *ast.FuncDecl
}

type pkgInfo struct {
	methods    map[string]map[string]*method // receiver type -> method name -> decl
	interfaces map[string]*ast.InterfaceType // "List", "Object"
	funcs      map[string]*ast.FuncDecl      // top-level functions
}

func collect(files []*ast.File) *pkgInfo {
	p := &pkgInfo{methods: map[string]map[string]*method{}, interfaces: map[string]*ast.InterfaceType{},
		funcs: map[string]*ast.FuncDecl{}}
	for _, f := range files {
		for _, d := range f.Decls {
			switch d := d.(type) {
			case *ast.FuncDecl:
				if d.Recv == nil && d.Body != nil {
					p.funcs[d.Name.Name] = d
				}
				if d.Recv == nil || len(d.Recv.List) != 1 || d.Body == nil {
					continue
				}
				r := d.Recv.List[0]
				t := r.Type
				if s, ok := t.(*ast.StarExpr); ok {
					t = s.X
				}
				id, ok := t.(*ast.Ident)
				if !ok {
					continue
				}
				name := ""
				if len(r.Names) == 1 {
					name = r.Names[0].Name
				}
				if p.methods[id.Name] == nil {
					p.methods[id.Name] = map[string]*method{}
				}
				p.methods[id.Name][d.Name.Name] = &method{recvType: id.Name, recvName: name, decl: d}
			case *ast.GenDecl:
				if d.Tok != token.TYPE {
					continue
				}
				for _, s := range d.Specs {
					ts := s.(*ast.TypeSpec)
					if it, ok := ts.Type.(*ast.InterfaceType); ok {
						p.interfaces[ts.Name.Name] = it
					}
				}
			}
		}
	}
	return p
}

func src(n ast.Node) string {
	var b bytes.Buffer
	if err := printer.Fprint(&b, fset, n); err != nil {
		return fmt.Sprintf("<unprintable: %v>", err)
	}
	out := strings.Join(strings.Fields(b.String()), " ")
	// nodes spliced in by the pre-passes carry positions of other places; the printer then breaks argument and element
	// lists over lines and closes them with a trailing comma
	out = strings.ReplaceAll(out, ", )", ")")
	out = strings.ReplaceAll(out, ", }", "}")
	return out
}

func leanString(s string) string {
	var b strings.Builder
	b.WriteByte('"')
	for _, r := range s {
		switch r {
		case '"':
			b.WriteString("\\\"")
		case '\\':
			b.WriteString("\\\\")
		case '\n':
			b.WriteString("\\n")
		case '\t':
			b.WriteString("\\t")
		case '\r':
			b.WriteString("\\r")
		default:
			b.WriteRune(r)
		}
	}
	b.WriteByte('"')
	return b.String()
}

func leanStringList(xs []string) string {
	q := make([]string, len(xs))
	for i, x := range xs {
		q[i] = leanString(x)
	}
	return "[" + strings.Join(q, ", ") + "]"
}

func leanPairList(xs [][2]string, indent string) string {
	if len(xs) == 0 {
		return "[]"
	}
	q := make([]string, len(xs))
	for i, x := range xs {
		q[i] = "(" + leanString(x[0]) + ", " + leanString(x[1]) + ")"
	}
	// a few per line
	var lines []string
	for i := 0; i < len(q); i += 4 {
		j := i + 4
		if j > len(q) {
			j = len(q)
		}
		lines = append(lines, indent+strings.Join(q[i:j], ", "))
	}
	return "[\n" + strings.Join(lines, ",\n") + "]"
}

// ---------------------------------------------------------------------------------------------
// small AST helpers

func isIdent(e ast.Expr, name string) bool {
	id, ok := e.(*ast.Ident)
	return ok && name != "" && id.Name == name
}

// selector X.Sel with X an identifier
func selOf(e ast.Expr) (x, sel string, ok bool) {
	s, ok := e.(*ast.SelectorExpr)
	if !ok {
		return "", "", false
	}
	recv := s.X
	// `(&x).m()` is what `x.m()` abbreviates for an addressable x and a pointer-receiver method
	if p, isParen := recv.(*ast.ParenExpr); isParen {
		if u, isAddr := p.X.(*ast.UnaryExpr); isAddr && u.Op == token.AND {
			recv = u.X
		}
	}
	id, ok := recv.(*ast.Ident)
	if !ok {
		return "", "", false
	}
	return id.Name, s.Sel.Name, true
}

// call of the form x.m(args)
func methodCall(e ast.Expr) (x, m string, args []ast.Expr, ok bool) {
	c, ok := e.(*ast.CallExpr)
	if !ok {
		return "", "", nil, false
	}
	x, m, ok = selOf(c.Fun)
	if !ok {
		return "", "", nil, false
	}
	return x, m, c.Args, true
}

func isSyncType(e ast.Expr, name string) bool {
	x, sel, ok := selOf(e)
	return ok && x == "sync" && sel == name
}

func unparen(e ast.Expr) ast.Expr {
	for {
		p, ok := e.(*ast.ParenExpr)
		if !ok {
			return e
		}
		e = p.X
	}
}

// ---------------------------------------------------------------------------------------------
// Async skeletons

type skel struct {
	hasResult        bool
	add              string // beforeLoop / insideLoop / missing
	addIsCount       bool
	args             string // byValue / captured
	body             []string
	waitBeforeReturn bool
	extra            []string
}

func (s *skel) lean() string {
	b := func(x bool) string {
		if x {
			return "true"
		}
		return "false"
	}
	return fmt.Sprintf("{ hasResult := %s, add := .%s, addIsCount := %s, args := .%s,\n    body := [%s],\n    waitBeforeReturn := %s,\n    extra := %s }",
		b(s.hasResult), s.add, b(s.addIsCount), s.args, strings.Join(s.body, ", "),
		b(s.waitBeforeReturn), leanStringList(s.extra))
}

type asyncCtx struct {
	recv     string // receiver name
	valAlias string // a local declared as `x := ego.val`
	function string // the callback parameter
	wg       string
	mutex    string
	result   string
	// the step closure
	stepName   string
	stepParams []string // names of the closure's parameters, in order
	stepGroup  string   // the *sync.WaitGroup parameter
	stepBody   []ast.Stmt
}

// the element count of the receiver
func (c *asyncCtx) isCount(e ast.Expr) bool {
	switch src(e) {
	case c.recv + ".Ego().Count()", c.recv + ".Count()", "len(" + c.recv + ".val)":
		return true
	}
	return false
}

// `<count> == 0` / `len(xs) == 0` / `ego.Empty()`
func (c *asyncCtx) isEmptyTest(e ast.Expr) bool {
	if b, ok := unparen(e).(*ast.BinaryExpr); ok && b.Op == token.EQL && src(b.Y) == "0" {
		if c.isCount(b.X) || c.valAlias != "" && src(b.X) == "len("+c.valAlias+")" {
			return true
		}
	}
	switch src(e) {
	case c.recv + ".Empty()", c.recv + ".Ego().Empty()":
		return true
	}
	return false
}

// does the method return the result container (Map) rather than the receiver (ForEach)?
func (c *asyncCtx) returnsResult(m *method) bool {
	return strings.HasPrefix(m.decl.Name.Name, "Map")
}

// countedLoop recognises `for i := 0; i < len(xs); i++` over the element slice
func (c *asyncCtx) countedLoop(st *ast.ForStmt) (idx, xs string, ok bool) {
	init, ok1 := st.Init.(*ast.AssignStmt)
	cond, ok2 := st.Cond.(*ast.BinaryExpr)
	post, ok3 := st.Post.(*ast.IncDecStmt)
	if !ok1 || !ok2 || !ok3 || init.Tok != token.DEFINE || len(init.Lhs) != 1 || len(init.Rhs) != 1 || src(init.Rhs[0]) != "0" ||
		cond.Op != token.LSS || post.Tok != token.INC {
		return "", "", false
	}
	idx = src(init.Lhs[0])
	if src(cond.X) != idx || src(post.X) != idx {
		return "", "", false
	}
	for _, cand := range []string{c.recv + ".val", c.valAlias} {
		if cand != "" && src(cond.Y) == "len("+cand+")" {
			return idx, cand, true
		}
	}
	return "", "", false
}

// map one statement of the goroutine body; idx / val are the expressions that denote the index
// (key) and the value inside that body
func (c *asyncCtx) bodyStep(st ast.Stmt, group, idx, val string) string {
	opaque := "(.opaque " + leanString(src(st)) + ")"
	es, ok := st.(*ast.ExprStmt)
	if !ok {
		return opaque
	}
	call, ok := es.X.(*ast.CallExpr)
	if !ok {
		return opaque
	}
	isCallback := func(e ast.Expr) bool {
		cc, ok := e.(*ast.CallExpr)
		return ok && isIdent(cc.Fun, c.function) && len(cc.Args) == 2 &&
			src(cc.Args[0]) == idx && src(cc.Args[1]) == val
	}
	if isCallback(call) {
		return ".call"
	}
	if x, m, args, ok := methodCall(call); ok {
		switch {
		case x == c.mutex && c.mutex != "" && m == "Lock" && len(args) == 0:
			return ".lock"
		case x == c.mutex && c.mutex != "" && m == "Unlock" && len(args) == 0:
			return ".unlock"
		case (x == group || x == c.wg || x == "(&"+c.wg+")") && x != "" && m == "Done" && len(args) == 0:
			return ".done"
		case x == c.result && c.result != "" && (m == "Replace" || m == "Set") && len(args) == 2 &&
			src(args[0]) == idx && isCallback(args[1]):
			return ".callWrite"
		}
	}
	return opaque
}

func extractAsync(m *method) *skel {
	s := &skel{add: "missing", args: "captured"}
	if m == nil {
		s.extra = append(s.extra, "method not found")
		return s
	}
	c := &asyncCtx{recv: m.recvName}
	for _, p := range m.decl.Type.Params.List {
		if _, ok := p.Type.(*ast.FuncType); ok && len(p.Names) == 1 && c.function == "" {
			c.function = p.Names[0].Name
		}
	}
	if c.function == "" {
		s.extra = append(s.extra, "no callback parameter")
	}
	seenLoop, seenWait, seenGo, seenReturn, seenAdd := false, false, false, false, false
	stmts := m.decl.Body.List
	for _, st := range stmts {
		if seenReturn {
			s.extra = append(s.extra, src(st))
			continue
		}
		switch st := st.(type) {
		case *ast.DeclStmt:
			gd, ok := st.Decl.(*ast.GenDecl)
			recognised := ok && gd.Tok == token.VAR && len(gd.Specs) > 0
			if recognised {
				// `var wg sync.WaitGroup`, `var mutex sync.Mutex`, or both in one `var ( … )` block
				for _, sp := range gd.Specs {
					vs := sp.(*ast.ValueSpec)
					if !(len(vs.Names) == 1 && len(vs.Values) == 0 && vs.Type != nil &&
						(isSyncType(vs.Type, "WaitGroup") && c.wg == "" || isSyncType(vs.Type, "Mutex") && c.mutex == "")) {
						recognised = false
					}
				}
			}
			if recognised {
				for _, sp := range gd.Specs {
					vs := sp.(*ast.ValueSpec)
					if isSyncType(vs.Type, "WaitGroup") && c.wg == "" {
						c.wg = vs.Names[0].Name
					} else if isSyncType(vs.Type, "Mutex") && c.mutex == "" {
						c.mutex = vs.Names[0].Name
					} else {
						recognised = false
					}
				}
			}
			if recognised {
				continue
			}
			s.extra = append(s.extra, src(st))
		case *ast.AssignStmt:
			if st.Tok == token.DEFINE && len(st.Lhs) == 1 && len(st.Rhs) == 1 {
				name, _ := st.Lhs[0].(*ast.Ident)
				if name != nil && src(st.Rhs[0]) == c.recv+".val" && c.valAlias == "" && !seenLoop {
					// `items := ego.val`: a second name for the element slice (never assigned again: checked below)
					c.valAlias = name.Name
					continue
				}
				switch rhs := st.Rhs[0].(type) {
				case *ast.FuncLit:
					if name != nil && c.stepName == "" && !seenLoop {
						c.stepName = name.Name
						for _, p := range rhs.Type.Params.List {
							for _, n := range p.Names {
								c.stepParams = append(c.stepParams, n.Name)
								if star, ok := p.Type.(*ast.StarExpr); ok && isSyncType(star.X, "WaitGroup") {
									c.stepGroup = n.Name
								}
							}
						}
						c.stepBody = rhs.Body.List
						continue
					}
				case *ast.CallExpr:
					// result := NewListOf(nil, <count>)   (list)   /   result := NewObject()   (object)
					if name != nil && c.result == "" && !seenLoop {
						okShape := false
						if isIdent(rhs.Fun, "NewListOf") && m.recvType == "list" && len(rhs.Args) == 2 &&
							src(rhs.Args[0]) == "nil" && c.isCount(rhs.Args[1]) {
							okShape = true
						}
						if isIdent(rhs.Fun, "NewObject") && m.recvType == "object" && len(rhs.Args) == 0 {
							okShape = true
						}
						if okShape {
							c.result = name.Name
							s.hasResult = true
							continue
						}
					}
				}
			}
			s.extra = append(s.extra, src(st))
		case *ast.ExprStmt:
			if x, mm, args, ok := methodCall(st.X); ok && (x == c.wg || x == "(&"+c.wg+")") && c.wg != "" {
				if mm == "Add" && len(args) == 1 && !seenLoop && !seenAdd {
					seenAdd = true
					s.add = "beforeLoop"
					s.addIsCount = c.isCount(args[0])
					continue
				}
				if mm == "Wait" && len(args) == 0 && seenLoop && !seenWait {
					seenWait = true
					continue
				}
			}
			s.extra = append(s.extra, src(st))
		case *ast.RangeStmt:
			if seenLoop || seenWait || !(src(st.X) == c.recv+".val" || c.valAlias != "" && src(st.X) == c.valAlias) || st.Tok != token.DEFINE ||
				st.Key == nil || st.Value == nil {
				s.extra = append(s.extra, src(st))
				continue
			}
			seenLoop = true
			key, value := src(st.Key), src(st.Value)
			for _, inner := range st.Body.List {
				switch inner := inner.(type) {
				case *ast.ExprStmt:
					if x, mm, args, ok := methodCall(inner.X); ok && (x == c.wg || x == "(&"+c.wg+")") && c.wg != "" &&
						mm == "Add" && len(args) == 1 && !seenAdd && !seenGo {
						seenAdd = true
						s.add = "insideLoop"
						s.addIsCount = c.isCount(args[0])
						continue
					}
					s.extra = append(s.extra, src(inner))
				case *ast.GoStmt:
					if seenGo {
						s.extra = append(s.extra, src(inner))
						continue
					}
					seenGo = true
					c.goStmt(s, inner, key, value)
				default:
					s.extra = append(s.extra, src(inner))
				}
			}
		case *ast.IfStmt:
			// `if <count> == 0 { return <what the method returns for an empty container> }` before the loop: for n = 0 the
			// ordinary path adds 0 to the group, spawns nothing, waits for nothing and returns the receiver (ForEach) or a
			// fresh empty result (Map) — the guard returns the same, so the skeleton is unchanged
			if !seenLoop && st.Init == nil && st.Else == nil && len(st.Body.List) == 1 && c.isEmptyTest(st.Cond) {
				if r, ok := st.Body.List[0].(*ast.ReturnStmt); ok && len(r.Results) == 1 {
					rs := src(r.Results[0])
					fresh := rs == "NewObject()" && m.recvType == "object" || (rs == "NewList()" || rs == "NewListOf(nil, 0)") && m.recvType == "list"
					if c.result != "" && isIdent(r.Results[0], c.result) {
						fresh = true // the (still empty) result container itself
					}
					if rs == c.recv+".Ego()" && !c.returnsResult(m) || fresh && c.returnsResult(m) {
						continue
					}
				}
			}
			s.extra = append(s.extra, src(st))
		case *ast.ForStmt:
			// `for i := 0; i < len(xs); i++ { go … xs[i] … }` with xs = ego.val or its alias
			idx, xs, ok := c.countedLoop(st)
			if seenLoop || seenWait || !ok {
				s.extra = append(s.extra, src(st))
				continue
			}
			seenLoop = true
			for _, inner := range st.Body.List {
				switch inner := inner.(type) {
				case *ast.GoStmt:
					if seenGo {
						s.extra = append(s.extra, src(inner))
						continue
					}
					seenGo = true
					c.goStmt(s, inner, idx, xs+"["+idx+"]")
				default:
					s.extra = append(s.extra, src(inner))
				}
			}
		case *ast.ReturnStmt:
			seenReturn = true
			s.waitBeforeReturn = seenWait
			if len(st.Results) != 1 {
				s.extra = append(s.extra, src(st))
			} else if s.hasResult && !isIdent(st.Results[0], c.result) {
				s.extra = append(s.extra, src(st))
			}
		default:
			s.extra = append(s.extra, src(st))
		}
	}
	if c.valAlias != "" {
		// the alias of the element slice must stay one: no second assignment, no append through it
		writes := 0
		ast.Inspect(m.decl.Body, func(n ast.Node) bool {
			if as, ok := n.(*ast.AssignStmt); ok {
				for _, l := range as.Lhs {
					if strings.HasPrefix(src(l), c.valAlias+"[") || isIdent(l, c.valAlias) {
						writes++
					}
				}
			}
			return true
		})
		if writes != 1 {
			s.extra = append(s.extra, "the alias "+c.valAlias+" of the element slice is written")
		}
	}
	if !seenLoop {
		s.extra = append(s.extra, "no `for … := range "+c.recv+".val` loop")
	} else if !seenGo {
		s.extra = append(s.extra, "no go statement in the loop")
	}
	if !seenReturn {
		s.extra = append(s.extra, "no return statement")
	}
	if c.stepName != "" && !seenGo {
		s.extra = append(s.extra, "closure "+c.stepName+" is never spawned")
	}
	return s
}

// the go statement of the loop: `go step(&wg, key, value.getVal())` or `go func(…){…}(…)`
func (c *asyncCtx) goStmt(s *skel, g *ast.GoStmt, key, value string) {
	call := g.Call
	var params []string
	var group string
	var body []ast.Stmt
	switch fun := call.Fun.(type) {
	case *ast.Ident:
		if fun.Name != c.stepName || c.stepName == "" {
			s.extra = append(s.extra, src(g))
			return
		}
		params, group, body = c.stepParams, c.stepGroup, c.stepBody
	case *ast.FuncLit:
		if c.stepName != "" {
			s.extra = append(s.extra, "closure "+c.stepName+" is never spawned")
		}
		for _, p := range fun.Type.Params.List {
			for _, n := range p.Names {
				params = append(params, n.Name)
				if star, ok := p.Type.(*ast.StarExpr); ok && isSyncType(star.X, "WaitGroup") {
					group = n.Name
				}
			}
		}
		body = fun.Body.List
	default:
		s.extra = append(s.extra, src(g))
		return
	}
	idx, val := "", ""
	if len(params) == 0 && len(call.Args) == 0 {
		// the closure captures the loop variables
		s.args = "captured"
		idx, val = key, value+".getVal()"
	} else if len(params) == 3 && len(call.Args) == 3 && group == params[0] &&
		src(unparen(call.Args[0])) == "&"+c.wg && c.wg != "" &&
		src(call.Args[1]) == key && src(call.Args[2]) == value+".getVal()" {
		// arguments evaluated by main at spawn time
		s.args = "byValue"
		idx, val = params[1], params[2]
	} else if len(params) == 2 && len(call.Args) == 2 && group == "" &&
		src(call.Args[0]) == key && src(call.Args[1]) == value+".getVal()" {
		// the same with the wait group captured by the closure instead of passed as a pointer (the group is one
		// variable of the method either way); index and value are still evaluated by main at spawn time
		s.args = "byValue"
		idx, val = params[0], params[1]
	} else {
		s.extra = append(s.extra, src(g))
		return
	}
	for i := 0; i < len(body); i++ {
		st := body[i]
		// `v := function(idx, val)` directly followed by `result.Set(idx, v)` / `result.Replace(idx, v)` is the call-and-write step
		if as, ok := st.(*ast.AssignStmt); ok && as.Tok == token.DEFINE && len(as.Lhs) == 1 && len(as.Rhs) == 1 && i+1 < len(body) {
			if cc, ok := as.Rhs[0].(*ast.CallExpr); ok && isIdent(cc.Fun, c.function) && len(cc.Args) == 2 && src(cc.Args[0]) == idx && src(cc.Args[1]) == val {
				if es, ok := body[i+1].(*ast.ExprStmt); ok {
					if x, mm, args, ok := methodCall(es.X); ok && x == c.result && c.result != "" && (mm == "Replace" || mm == "Set") && len(args) == 2 &&
						src(args[0]) == idx && src(args[1]) == src(as.Lhs[0]) {
						s.body = append(s.body, ".callWrite")
						i++
						continue
					}
				}
			}
		}
		s.body = append(s.body, c.bodyStep(st, group, idx, val))
	}
}

func genAsync(p *pkgInfo) string {
	var b strings.Builder
	b.WriteString("/-\nGENERATED by vextract from the Go source — do not edit.\n\n")
	b.WriteString("The synchronisation skeletons of the four …Async methods, and the check that each of them is\none of the accepted skeletons (for which Props/C15 proves the safety statement).  A change of\nthe Go source that alters the protocol makes the `decide` below fail.\n-/\n")
	b.WriteString("import Anytype.Model.Async\nnamespace Anytype.Generated\nopen Anytype.Async\n\n")
	type item struct{ lean, recv, name string }
	items := []item{
		{"listForEachAsync", "list", "ForEachAsync"},
		{"listMapAsync", "list", "MapAsync"},
		{"objectForEachAsync", "object", "ForEachAsync"},
		{"objectMapAsync", "object", "MapAsync"},
	}
	for _, it := range items {
		var m *method
		if ms := p.methods[it.recv]; ms != nil {
			m = ms[it.name]
		}
		s := extractAsync(m)
		where := ""
		if m != nil {
			pos := fset.Position(m.decl.Pos())
			where = fmt.Sprintf(" (%s:%d)", filepath.Base(pos.Filename), pos.Line)
		}
		fmt.Fprintf(&b, "/-- `(*%s).%s`%s -/\ndef %s : Skel :=\n  %s\n\n", it.recv, it.name, where, it.lean, s.lean())
	}
	for _, it := range items {
		fmt.Fprintf(&b, "theorem %s_wf : WellFormed %s = true := by decide\n", it.lean, it.lean)
	}
	b.WriteString("\nend Anytype.Generated\n")
	return b.String()
}

// ---------------------------------------------------------------------------------------------
// write sets

// is e rooted at <recv>.<field> (through parentheses, slicing, indexing)?  aliases: local names
// bound to (a slice of) <recv>.val
func rootedAt(e ast.Expr, recv string, fields map[string]bool, aliases map[string]bool, allowBare bool) bool {
	e = unparen(e)
	depth := 0
	for {
		switch x := e.(type) {
		case *ast.ParenExpr:
			e = x.X
			continue
		case *ast.SliceExpr:
			e = x.X
			depth++
			continue
		case *ast.IndexExpr:
			e = x.X
			depth++
			continue
		case *ast.SelectorExpr:
			if id, ok := x.X.(*ast.Ident); ok && id.Name == recv && fields[x.Sel.Name] {
				return true
			}
			return false
		case *ast.Ident:
			if aliases[x.Name] {
				return allowBare || depth > 0
			}
			return false
		default:
			return false
		}
	}
}

func writesReceiver(m *method) bool {
	recv := m.recvName
	if recv == "" {
		return false
	}
	valOnly := map[string]bool{"val": true}
	anyField := map[string]bool{"val": true, "ptr": true}
	aliases := map[string]bool{}
	// pass 1: local aliases of the receiver's slice / map:  x := ego.val  /  x := ego.val[a:b]
	ast.Inspect(m.decl.Body, func(n ast.Node) bool {
		if as, ok := n.(*ast.AssignStmt); ok && len(as.Lhs) == len(as.Rhs) {
			for i, lhs := range as.Lhs {
				id, ok := lhs.(*ast.Ident)
				if !ok {
					continue
				}
				rhs := unparen(as.Rhs[i])
				switch r := rhs.(type) {
				case *ast.SelectorExpr:
					if rootedAt(r, recv, valOnly, nil, true) {
						aliases[id.Name] = true
					}
				case *ast.SliceExpr:
					if rootedAt(r, recv, valOnly, aliases, true) {
						aliases[id.Name] = true
					}
				}
			}
		}
		return true
	})
	writes := false
	// an assignable expression that denotes (part of) the receiver's state
	target := func(e ast.Expr) bool {
		e = unparen(e)
		if _, ok := e.(*ast.Ident); ok {
			return false // rebinding a local alias does not write the receiver
		}
		return rootedAt(e, recv, anyField, aliases, false)
	}
	dest := func(e ast.Expr) bool { return rootedAt(e, recv, valOnly, aliases, true) }
	ast.Inspect(m.decl.Body, func(n ast.Node) bool {
		switch n := n.(type) {
		case *ast.AssignStmt:
			if n.Tok != token.DEFINE {
				for _, lhs := range n.Lhs {
					if target(lhs) {
						writes = true
					}
				}
			}
		case *ast.IncDecStmt:
			if target(n.X) {
				writes = true
			}
		case *ast.RangeStmt:
			if n.Tok == token.ASSIGN {
				if n.Key != nil && target(n.Key) {
					writes = true
				}
				if n.Value != nil && target(n.Value) {
					writes = true
				}
			}
		case *ast.UnaryExpr:
			// &ego.val, &ego.val[i]: the address escapes
			if n.Op == token.AND && rootedAt(n.X, recv, anyField, aliases, false) {
				if _, isIdent := unparen(n.X).(*ast.Ident); !isIdent {
					writes = true
				}
			}
		case *ast.CallExpr:
			if id, ok := n.Fun.(*ast.Ident); ok && len(n.Args) > 0 {
				switch id.Name {
				case "append", "delete", "copy", "clear":
					if dest(n.Args[0]) {
						writes = true
					}
				}
			}
			if x, _, ok := selOf(n.Fun); ok && (x == "sort" || x == "slices") {
				for _, a := range n.Args {
					if dest(a) {
						writes = true
					}
				}
			}
		}
		return true
	})
	return writes
}

var readOnlyList = []string{"Ego", "Get*", "TypeOf", "String", "FormatString", "Slice", "NativeSlice", "*Slice",
	"Clone", "Count", "Empty", "Equals", "Concat", "SubList", "Contains", "IndexOf", "All*", "ForEach*",
	"Map*", "Reduce*", "Filter*", "IntSum", "Sum", "IntProd", "Prod", "Avg", "IntMin", "Min", "IntMax", "Max",
	"GetTF", "TypeOfTF"}

var readOnlyObject = []string{"Ego", "Get*", "TypeOf", "String", "FormatString", "Dict", "NativeDict", "Keys",
	"Values", "Clone", "Count", "Empty", "Equals", "Merge", "Pluck", "Contains", "KeyOf", "KeyExists",
	"ForEach*", "Map*", "GetTF", "TypeOfTF"}

var mutatorsList = []string{"Init", "Add", "Insert", "Replace", "Delete", "Pop", "Clear", "Sort", "Reverse", "SetTF", "UnsetTF"}
var mutatorsObject = []string{"Init", "Set", "Unset", "Clear", "SetTF", "UnsetTF"}

func matches(patterns []string, name string) bool {
	for _, p := range patterns {
		switch {
		case strings.HasPrefix(p, "*") && len(p) > 1:
			if strings.HasSuffix(name, p[1:]) {
				return true
			}
		case strings.HasSuffix(p, "*") && len(p) > 1:
			if strings.HasPrefix(name, p[:len(p)-1]) {
				return true
			}
		default:
			if name == p {
				return true
			}
		}
	}
	return false
}

func sortedMethodNames(ms map[string]*method) []string {
	var names []string
	for n := range ms {
		names = append(names, n)
	}
	sort.Strings(names)
	return names
}

func genWriteSet(p *pkgInfo) string {
	var writers, readOnly, mutators [][2]string
	for _, recv := range []string{"list", "object"} {
		patterns, muts := readOnlyList, mutatorsList
		if recv == "object" {
			patterns, muts = readOnlyObject, mutatorsObject
		}
		for _, name := range sortedMethodNames(p.methods[recv]) {
			m := p.methods[recv][name]
			if writesReceiver(m) {
				writers = append(writers, [2]string{recv, name})
			}
			if ast.IsExported(name) && matches(patterns, name) {
				readOnly = append(readOnly, [2]string{recv, name})
			}
		}
		for _, name := range muts {
			mutators = append(mutators, [2]string{recv, name})
		}
	}
	var b strings.Builder
	b.WriteString("/-\nGENERATED by vextract from the Go source — do not edit.\n\n")
	b.WriteString("`writers`: the methods of `*list` / `*object` whose body (syntactically, not through calls)\nassigns the receiver's `val` / `ptr`, an element `ego.val[…]`, or calls `append` / `delete` /\n`copy` / `sort.*` with `ego.val` (or a local alias / slice of it) as destination.\n`readOnlyApi`: the operations the specification calls non-mutating (C15, second sentence).\n`mutators`: the operations expected to write.\n-/\n")
	b.WriteString("namespace Anytype.Generated\n\n")
	fmt.Fprintf(&b, "def writers : List (String × String) := %s\n\n", leanPairList(writers, "  "))
	fmt.Fprintf(&b, "def readOnlyApi : List (String × String) := %s\n\n", leanPairList(readOnly, "  "))
	fmt.Fprintf(&b, "def mutators : List (String × String) := %s\n\n", leanPairList(mutators, "  "))
	b.WriteString("/-- no operation the specification calls non-mutating writes the receiver -/\n")
	b.WriteString("theorem readonly_do_not_write : ∀ m ∈ readOnlyApi, m ∉ writers := by decide +kernel\n\n")
	b.WriteString("/-- every method that writes the receiver is a declared mutator -/\n")
	b.WriteString("theorem writers_are_mutators : ∀ w ∈ writers, w ∈ mutators := by decide +kernel\n\n")
	b.WriteString("/-- the two classes are disjoint -/\n")
	b.WriteString("theorem readonly_not_mutators : ∀ m ∈ readOnlyApi, m ∉ mutators := by decide +kernel\n\n")
	b.WriteString("end Anytype.Generated\n")
	return b.String()
}

// ---------------------------------------------------------------------------------------------
// API tables

func interfaceMethods(it *ast.InterfaceType, self string) (names, returnsSelf []string) {
	if it == nil {
		return nil, nil
	}
	for _, f := range it.Methods.List {
		ft, ok := f.Type.(*ast.FuncType)
		if !ok {
			continue // embedded interface
		}
		for _, n := range f.Names {
			if !ast.IsExported(n.Name) {
				continue
			}
			names = append(names, n.Name)
			if ft.Results != nil && len(ft.Results.List) == 1 && len(ft.Results.List[0].Names) <= 1 &&
				isIdent(ft.Results.List[0].Type, self) {
				returnsSelf = append(returnsSelf, n.Name)
			}
		}
	}
	sort.Strings(names)
	sort.Strings(returnsSelf)
	return names, returnsSelf
}

func genApi(p *pkgInfo) string {
	ln, ls := interfaceMethods(p.interfaces["List"], "List")
	on, os_ := interfaceMethods(p.interfaces["Object"], "Object")
	var b strings.Builder
	b.WriteString("/-\nGENERATED by vextract from the Go source — do not edit.\n\n")
	b.WriteString("The exported methods of the `List` and `Object` interfaces (sorted), those whose result type\nis the interface itself, and the check that every one of them is classified as read-only or as\na mutator in `WriteSet.lean`.\n-/\n")
	b.WriteString("import Anytype.Generated.WriteSet\nnamespace Anytype.Generated\n\n")
	wrap := func(xs []string) string {
		var lines []string
		for i := 0; i < len(xs); i += 6 {
			j := i + 6
			if j > len(xs) {
				j = len(xs)
			}
			q := make([]string, 0, 6)
			for _, x := range xs[i:j] {
				q = append(q, leanString(x))
			}
			lines = append(lines, "  "+strings.Join(q, ", "))
		}
		if len(lines) == 0 {
			return "[]"
		}
		return "[\n" + strings.Join(lines, ",\n") + "]"
	}
	fmt.Fprintf(&b, "def listMethods : List String := %s\n\n", wrap(ln))
	fmt.Fprintf(&b, "def objectMethods : List String := %s\n\n", wrap(on))
	fmt.Fprintf(&b, "def listReturnsSelf : List String := %s\n\n", wrap(ls))
	fmt.Fprintf(&b, "def objectReturnsSelf : List String := %s\n\n", wrap(os_))
	b.WriteString("/-- every method of the `List` interface is classified -/\n")
	b.WriteString("theorem list_api_classified :\n    ∀ m ∈ listMethods, (\"list\", m) ∈ readOnlyApi ∨ (\"list\", m) ∈ mutators := by decide +kernel\n\n")
	b.WriteString("/-- every method of the `Object` interface is classified -/\n")
	b.WriteString("theorem object_api_classified :\n    ∀ m ∈ objectMethods, (\"object\", m) ∈ readOnlyApi ∨ (\"object\", m) ∈ mutators := by decide +kernel\n\n")
	b.WriteString("end Anytype.Generated\n")
	return b.String()
}

// ---------------------------------------------------------------------------------------------
// ParserGen.lean: translation of the parser core into Lean
//
// The two state machines parseList / parseObject are translated by a small symbolic executor over
// the statements of the loop body.  It carries the current Lean expression of every mutable
// variable and turns the statement list into a decision tree; whatever it does not recognise makes
// it fail with the source position.  The conventions are those of Model/Parser.lean: the input is
// the list of decoded items, a nested call returns the remaining items, the case `stateStart`
// (which only consumes the opening bracket) is executed once, symbolically, to obtain the initial
// arguments of a (nested) call, and the loop is a recursion on fuel.

type transErr struct {
	pos token.Position
	msg string
}

func (e *transErr) Error() string {
	if e.pos.Filename == "" {
		return e.msg
	}
	return fmt.Sprintf("%s:%d:%d: %s", filepath.Base(e.pos.Filename), e.pos.Line, e.pos.Column, e.msg)
}

func failAt(n ast.Node, format string, args ...any) {
	e := &transErr{msg: fmt.Sprintf(format, args...)}
	if n != nil {
		e.pos = fset.Position(n.Pos())
	}
	panic(e)
}

func where(n ast.Node) string {
	p := fset.Position(n.Pos())
	return fmt.Sprintf("%s:%d", filepath.Base(p.Filename), p.Line)
}

// --- a tiny Lean term tree with a pretty-printer

type lnode interface{}
type lLeaf struct{ s string }
type lIf struct {
	cond string
	a, b lnode
}
type lArm struct {
	pat  string
	body lnode
}
type lMatch struct {
	scrut string
	arms  []lArm
}
type lLet struct {
	name, val string
	body      lnode
}

// emit writes n; the cursor is at column len(ind) already, continuation lines are indented by ind
func emit(b *strings.Builder, n lnode, ind string) {
	sub := func(x lnode) {
		if l, ok := x.(lLeaf); ok {
			b.WriteString(" " + l.s)
			return
		}
		b.WriteString("\n" + ind + "  ")
		emit(b, x, ind+"  ")
	}
	switch n := n.(type) {
	case lLeaf:
		b.WriteString(n.s)
	case lLet:
		b.WriteString("let " + n.name + " := " + n.val + "\n" + ind)
		emit(b, n.body, ind)
	case lIf:
		b.WriteString("if " + n.cond + " then")
		sub(n.a)
		b.WriteString("\n" + ind + "else")
		if e, ok := n.b.(lIf); ok {
			b.WriteString(" ")
			emit(b, e, ind)
		} else {
			sub(n.b)
		}
	case lMatch:
		b.WriteString("match " + n.scrut + " with")
		for _, a := range n.arms {
			b.WriteString("\n" + ind + "| " + a.pat + " =>")
			sub(a.body)
		}
	default:
		panic(&transErr{msg: "internal: unknown Lean node"})
	}
}

// parenthesise a Lean expression used as an argument
func paren(s string) string {
	if !strings.Contains(s, " ") {
		return s
	}
	n := len(s)
	if s[0] == '[' && s[n-1] == ']' && !strings.ContainsAny(s[1:n-1], "[]") {
		return s
	}
	if s[0] == '(' && s[n-1] == ')' && !strings.ContainsAny(s[1:n-1], "()") {
		return s
	}
	return "(" + s + ")"
}

func leanChar(r rune) string {
	switch r {
	case '\n':
		return `'\n'`
	case '\t':
		return `'\t'`
	case '\r':
		return `'\r'`
	case '\\':
		return `'\\'`
	case '\'':
		return `'\''`
	}
	if r >= 0x20 && r < 0x7f {
		return "'" + string(r) + "'"
	}
	if r < 0x100 {
		return fmt.Sprintf(`'\x%02x'`, r)
	}
	return fmt.Sprintf("(Char.ofNat 0x%X)", r)
}

func leanCharList(s string) string {
	var q []string
	for _, r := range s {
		q = append(q, leanChar(r))
	}
	return "[" + strings.Join(q, ", ") + "]"
}

func charLit(e ast.Expr) (rune, bool) {
	l, ok := unparen(e).(*ast.BasicLit)
	if !ok || l.Kind != token.CHAR || len(l.Value) < 3 {
		return 0, false
	}
	r, _, tail, err := strconv.UnquoteChar(l.Value[1:len(l.Value)-1], '\'')
	if err != nil || tail != "" {
		return 0, false
	}
	return r, true
}

func stringLit(e ast.Expr) (string, bool) {
	l, ok := unparen(e).(*ast.BasicLit)
	if !ok || l.Kind != token.STRING {
		return "", false
	}
	s, err := strconv.Unquote(l.Value)
	if err != nil {
		return "", false
	}
	return s, true
}

// --- error messages

type errKind struct {
	kind    string
	hasLine bool
}

// the format strings of the parser's errors (the same table as the comments of `PErrKind`)
var errFormats = map[string]errKind{
	"not an UTF-8 encoding":                                        {"notUtf8", false},
	"not a valid JSON - unexpected end of input":                   {"unexpectedEnd", false},
	"not a valid JSON - invalid value '%s' on line %d":             {"invalidValue", true},
	"not a valid JSON - expecting '\"', got '%s' on line %d":       {"expectQuote", true},
	"not a valid JSON - expecting ':', got '%s' on line %d":        {"expectColon", true},
	"not a valid JSON - expecting ',' or '}', got '%s' on line %d": {"expectCommaBrace", true},
	"not a valid JSON - missing '['":                               {"missingBracket", false},
	"not a valid JSON - missing '{'":                               {"missingBracket", false},
}

// fmt.Errorf(format, what, line): the Lean `PErr`; whatSrc / lineSrc are the expected sources of the
// two arguments of a message that cites a line, lineLean the Lean expression of the line
func errorfToLean(e ast.Expr, whatSrc, lineSrc, lineLean string) string {
	call, ok := unparen(e).(*ast.CallExpr)
	if !ok {
		failAt(e, "expected fmt.Errorf(...), got %s", src(e))
	}
	if c, ok := errorsNewAsErrorf(call, whatSrc, lineSrc); ok {
		call = c
	}
	if x, sel, ok := selOf(call.Fun); !ok || x != "fmt" || sel != "Errorf" || len(call.Args) == 0 {
		failAt(e, "expected fmt.Errorf(...), got %s", src(e))
	}
	format, ok := stringLit(call.Args[0])
	if !ok {
		failAt(e, "error format is not a string literal: %s", src(e))
	}
	k, ok := errFormats[format]
	if !ok {
		failAt(e, "unknown error message %q", format)
	}
	if !k.hasLine {
		if len(call.Args) != 1 {
			failAt(e, "unexpected arguments of %s", src(e))
		}
		return "⟨." + k.kind + ", none⟩"
	}
	if len(call.Args) != 3 || src(call.Args[1]) != whatSrc || src(call.Args[2]) != lineSrc {
		failAt(e, "expected the arguments (%s, %s) in %s", whatSrc, lineSrc, src(e))
	}
	return "⟨." + k.kind + ", some " + paren(lineLean) + "⟩"
}

// `errors.New(s1 + what + s2 + strconv.Itoa(line) …)` read as `fmt.Errorf("s1%ss2%d…", what, line)`.
// fmt.Errorf with a format that has no `%w` verb returns errors.New(fmt.Sprintf(format, args...)) (fmt/errors.go,
// `case 0`): the same dynamic type, no Unwrap, a fresh pointer per call.  A string literal stands for itself (`%` is
// written `%%`); the only other operands accepted are the expression whatSrc — which every caller passes as an
// expression of the plain type `string` (a `string` parameter, or a conversion `string(…)`), for which `%s` writes
// the bytes unchanged — and `strconv.Itoa(lineSrc)` — whose argument has type int (Itoa takes nothing else; the
// callers pass an `int` parameter or the dereferenced `*int`), for which `%d` is the decimal form Itoa produces.
// Anything else is not rewritten (and refused by the caller).
func errorsNewAsErrorf(call *ast.CallExpr, whatSrc, lineSrc string) (*ast.CallExpr, bool) {
	if x, sel, ok := selOf(call.Fun); !ok || x != "errors" || sel != "New" || len(call.Args) != 1 {
		return nil, false
	}
	var parts []ast.Expr
	var flat func(e ast.Expr) bool
	flat = func(e ast.Expr) bool {
		e = unparen(e)
		if b, ok := e.(*ast.BinaryExpr); ok {
			return b.Op == token.ADD && flat(b.X) && flat(b.Y)
		}
		parts = append(parts, e)
		return true
	}
	if !flat(call.Args[0]) {
		return nil, false
	}
	format := ""
	var args []ast.Expr
	for _, p := range parts {
		if lit, ok := stringLit(p); ok {
			format += strings.ReplaceAll(lit, "%", "%%")
			continue
		}
		if whatSrc != "" && src(p) == whatSrc {
			format += "%s"
			args = append(args, p)
			continue
		}
		if c, ok := p.(*ast.CallExpr); ok && lineSrc != "" && len(c.Args) == 1 && src(c.Args[0]) == lineSrc {
			if x, sel, ok := selOf(c.Fun); ok && x == "strconv" && sel == "Itoa" {
				format += "%d"
				args = append(args, c.Args[0])
				continue
			}
		}
		return nil, false
	}
	nargs := append([]ast.Expr{&ast.BasicLit{ValuePos: call.Pos(), Kind: token.STRING, Value: strconv.Quote(format)}}, args...)
	return &ast.CallExpr{Fun: &ast.SelectorExpr{X: &ast.Ident{NamePos: call.Pos(), Name: "fmt"}, Sel: &ast.Ident{NamePos: call.Pos(), Name: "Errorf"}},
		Lparen: call.Lparen, Args: nargs, Rparen: call.Rparen}, true
}

// --- the machines

var stateCtor = map[string]string{
	"stateVal": "val", "stateValString": "str", "stateValEscape": "esc", "stateValAfterString": "afterStr",
	"stateKeyStart": "keyStart", "stateKey": "key", "stateKeyEscape": "keyEsc", "stateAfterKey": "afterKey",
	"stateAfterVal": "afterVal",
}

var stateTypes = map[string][]string{
	"list":   {"val", "str", "esc", "afterStr"},
	"object": {"keyStart", "key", "keyEsc", "afterKey", "val", "afterVal", "str", "esc", "afterStr"},
}

type machine struct {
	kind    string // "list" / "object"
	decl    *ast.FuncDecl
	genName string
	all     map[string]*machine // by Go function name

	jsonVar, lineVar                                                     string
	stateVar, accVar, valVar, keyVar, inValVar, charVar, sizeVar, idxVar string

	body      []ast.Stmt // loop body after the decoding prologue
	startCase *ast.CaseClause
	endErr    string // `PErr` of the return behind the loop
	utfErr    string // `PErr` of the decoding error
	goLines   int

	condPrec map[string]int // the precedence (see cval) of the tests of the `if` terms built so far
}

type builder struct {
	base string   // Lean expression (a `Str`)
	app  []string // characters written since
}

func (b builder) lean() string {
	if len(b.app) == 0 {
		return b.base
	}
	lit := "[" + strings.Join(b.app, ", ") + "]"
	if b.base == "[]" {
		return lit
	}
	return paren(b.base) + " ++ " + lit
}

type local struct {
	typ  string // jval, str, err (non-nil), nilerr, undef, int, float, bool
	lean string
}

type penv struct {
	state     string // "st" or a constructor ".val"; "" = stateStart
	acc       string // "" = not created yet
	key, val  builder
	inVal     string
	line      string
	rest      string
	knownChar rune // the current character, when a condition has established it
	locals    map[string]local
	// the result position of a nested call that `i += pos` has not consumed yet
	pendingPos, pendingRest string
	nestDepth               int
	lineLets                int
}

func (e *penv) clone() *penv {
	c := *e
	c.locals = make(map[string]local, len(e.locals))
	for k, v := range e.locals {
		c.locals[k] = v
	}
	c.key.app = append([]string(nil), e.key.app...)
	c.val.app = append([]string(nil), e.val.app...)
	return &c
}

var reservedLean = map[string]bool{"fuel": true, "c": true, "rest": true, "st": true, "acc": true, "key": true,
	"val": true, "inVal": true, "line": true, "line0": true, "e": true, "at": true, "fun": true, "end": true,
	"from": true, "do": true, "then": true, "with": true, "open": true, "in": true, "show": true, "have": true,
	"match": true, "if": true, "else": true, "let": true, "by": true, "def": true, "theorem": true, "where": true,
	"instance": true, "structure": true, "class": true, "namespace": true, "section": true, "mutual": true}

func leanName(goName string) string {
	if reservedLean[goName] || strings.HasPrefix(goName, "rest'") || strings.HasPrefix(goName, "line'") {
		return goName + "_"
	}
	return goName
}

type kont func(*penv) lnode

func newMachine(fd *ast.FuncDecl, kind, genName string, all map[string]*machine, funcs map[string]*ast.FuncDecl) *machine {
	m := &machine{kind: kind, decl: fd, genName: genName, all: all}
	ft := fd.Type
	if len(ft.Params.List) != 2 || len(ft.Params.List[0].Names) != 1 || len(ft.Params.List[1].Names) != 1 ||
		src(ft.Params.List[0].Type) != "string" || src(ft.Params.List[1].Type) != "*int" {
		failAt(fd, "%s: expected the parameters (json string, line *int)", fd.Name.Name)
	}
	accType := map[string]string{"list": "List", "object": "Object"}[kind]
	if ft.Results == nil || len(ft.Results.List) != 3 || src(ft.Results.List[0].Type) != accType ||
		src(ft.Results.List[1].Type) != "int" || src(ft.Results.List[2].Type) != "error" {
		failAt(fd, "%s: expected the results (%s, int, error)", fd.Name.Name, accType)
	}
	m.jsonVar, m.lineVar = ft.Params.List[0].Names[0].Name, ft.Params.List[1].Names[0].Name
	var builders []string
	var loop *ast.ForStmt
	stmts := fd.Body.List
	i := 0
	for ; i < len(stmts) && loop == nil; i++ {
		switch st := stmts[i].(type) {
		case *ast.AssignStmt:
			if st.Tok == token.DEFINE && len(st.Lhs) == 1 && len(st.Rhs) == 1 && isIdent(st.Rhs[0], "stateStart") && m.stateVar == "" {
				m.stateVar = st.Lhs[0].(*ast.Ident).Name
				continue
			}
			failAt(st, "unrecognised statement before the loop: %s", src(st))
		case *ast.DeclStmt:
			gd, ok := st.Decl.(*ast.GenDecl)
			if !ok || gd.Tok != token.VAR || len(gd.Specs) != 1 {
				failAt(st, "unrecognised declaration: %s", src(st))
			}
			vs := gd.Specs[0].(*ast.ValueSpec)
			if len(vs.Names) != 1 || len(vs.Values) != 0 || vs.Type == nil {
				failAt(st, "unrecognised declaration: %s", src(st))
			}
			name := vs.Names[0].Name
			set := func(dst *string) {
				if *dst != "" {
					failAt(st, "second variable of type %s: %s", src(vs.Type), name)
				}
				*dst = name
			}
			switch src(vs.Type) {
			case accType:
				set(&m.accVar)
			case "strings.Builder":
				builders = append(builders, name)
			case "bool":
				set(&m.inValVar)
			case "rune":
				set(&m.charVar)
			case "int":
				set(&m.sizeVar)
			default:
				failAt(st, "unrecognised declaration: %s", src(st))
			}
		case *ast.ForStmt:
			loop = st
		default:
			failAt(st, "unrecognised statement before the loop: %s", src(st))
		}
	}
	if loop == nil || m.stateVar == "" || m.accVar == "" || m.inValVar == "" || m.charVar == "" || m.sizeVar == "" {
		failAt(fd, "%s: missing loop or one of the variables state / container / inVal / char / size", fd.Name.Name)
	}
	// what follows the loop: the "unexpected end" error
	if i != len(stmts)-1 {
		failAt(fd, "%s: expected exactly one statement behind the loop", fd.Name.Name)
	}
	ret, ok := stmts[i].(*ast.ReturnStmt)
	if !ok || len(ret.Results) != 3 || src(ret.Results[0]) != "nil" || src(ret.Results[1]) != "0" {
		failAt(stmts[i], "expected `return nil, 0, fmt.Errorf(...)` behind the loop")
	}
	m.endErr = errorfToLean(ret.Results[2], "", "", "")
	// builders: the key builder is the one whose String() is the first argument of every <acc>.Set
	switch {
	case kind == "list" && len(builders) == 1:
		m.valVar = builders[0]
	case kind == "object" && len(builders) == 2:
		ast.Inspect(fd.Body, func(n ast.Node) bool {
			if x, mm, args, ok := methodCallNode(n); ok && x == m.accVar && mm == "Set" && len(args) == 2 {
				if bx, bm, bargs, ok := methodCall(args[0]); ok && bm == "String" && len(bargs) == 0 {
					if m.keyVar != "" && m.keyVar != bx {
						failAt(n, "two different key builders: %s and %s", m.keyVar, bx)
					}
					m.keyVar = bx
				}
			}
			return true
		})
		switch m.keyVar {
		case builders[0]:
			m.valVar = builders[1]
		case builders[1]:
			m.valVar = builders[0]
		default:
			failAt(fd, "%s: cannot tell the key builder from the value builder", fd.Name.Name)
		}
	default:
		failAt(fd, "%s: unexpected number of strings.Builder variables (%d)", fd.Name.Name, len(builders))
	}
	// the loop header
	if loop.Init == nil || loop.Cond == nil || loop.Post == nil {
		failAt(loop, "unrecognised loop header")
	}
	if as, ok := loop.Init.(*ast.AssignStmt); ok && as.Tok == token.DEFINE && len(as.Lhs) == 1 && src(as.Rhs[0]) == "0" {
		m.idxVar = as.Lhs[0].(*ast.Ident).Name
	} else {
		failAt(loop, "unrecognised loop header")
	}
	if src(loop.Cond) != m.idxVar+" < len("+m.jsonVar+")" || src(loop.Post) != m.idxVar+" += "+m.sizeVar {
		failAt(loop, "unrecognised loop header: %s; %s", src(loop.Cond), src(loop.Post))
	}
	// the decoding prologue
	lb := loop.Body.List
	if exp, ok := m.decoderHelperPrologue(lb, funcs); ok {
		lb = exp
	}
	if len(lb) < 2 ||
		src(lb[0]) != m.charVar+", "+m.sizeVar+" = utf8.DecodeRuneInString("+m.jsonVar+"["+m.idxVar+":])" {
		failAt(loop.Body, "expected `%s, %s = utf8.DecodeRuneInString(%s[%s:])` at the top of the loop",
			m.charVar, m.sizeVar, m.jsonVar, m.idxVar)
	}
	dec, ok := lb[1].(*ast.IfStmt)
	wantCond := m.sizeVar + " == 0 || (" + m.charVar + " == utf8.RuneError && " + m.sizeVar + " == 1)"
	if !ok || dec.Init != nil || dec.Else != nil || src(dec.Cond) != wantCond || len(dec.Body.List) != 1 {
		failAt(lb[1], "expected the decoding check `if %s { return … }`", wantCond)
	}
	dret, ok := dec.Body.List[0].(*ast.ReturnStmt)
	if !ok || len(dret.Results) != 3 || src(dret.Results[0]) != "nil" || src(dret.Results[1]) != "0" {
		failAt(dec, "expected `return nil, 0, fmt.Errorf(...)` in the decoding check")
	}
	m.utfErr = errorfToLean(dret.Results[2], "", "", "")
	m.body = lb[2:]
	// the stateStart case (found in the first switch over the state variable)
	for _, st := range m.body {
		if sw, ok := st.(*ast.SwitchStmt); ok && sw.Tag != nil && isIdent(sw.Tag, m.stateVar) {
			for _, cc := range sw.Body.List {
				c := cc.(*ast.CaseClause)
				for _, x := range c.List {
					if isIdent(x, "stateStart") {
						if len(c.List) != 1 || m.startCase != nil {
							failAt(c, "unrecognised stateStart case")
						}
						m.startCase = c
					}
				}
			}
		}
	}
	if m.startCase == nil {
		failAt(fd, "%s: no `case stateStart`", fd.Name.Name)
	}
	m.goLines = fset.Position(fd.End()).Line - fset.Position(fd.Pos()).Line + 1
	return m
}

// decoderHelperPrologue recognises a loop prologue that calls a DECODER HELPER,
//
//	[var err error]
//	char, size, err = h(json[i:], line)
//	if err != nil { return nil, 0, err }
//
// where h is a package-level function of the shape
//
//	func h(p0 string, p1 *int) (rune, int, error) {
//		c, s := utf8.DecodeRuneInString(p0)
//		if <check over c, s> { return 0, 0, <E> }
//		S…                        // no return, no declaration, mentions only c, s, p1 and names that are not the caller's
//		return c, s, nil
//	}
//
// and returns the prologue with the call unfolded: `char, size = utf8.DecodeRuneInString(json[i:])`,
// `if <check over char, size> { return nil, 0, <E> }`, S[c, s, p1 := char, size, line], followed by the rest of
// the loop body.  This is the execution of the call: h runs the decoding on the same substring; on its early return
// err is the non-nil <E> (checked to be a fmt.Errorf / errors.New call by errorfToLean), so the caller returns
// (nil, 0, <E>) and the values 0, 0 assigned to char and size are never read; otherwise err is nil, the caller's `if`
// is not taken, char and size hold c and s, and S has run on c, s and the caller's line counter (p1 is the pointer
// `line` itself).  S only reads and writes c, s and *p1, which after the call are char, size and *line, so running
// it on those variables directly is the same.  The unfolded prologue is then checked like a written-out one.
func (m *machine) decoderHelperPrologue(lb []ast.Stmt, funcs map[string]*ast.FuncDecl) ([]ast.Stmt, bool) {
	k := 0
	errVar := ""
	if k < len(lb) {
		if ds, ok := lb[k].(*ast.DeclStmt); ok {
			gd, ok := ds.Decl.(*ast.GenDecl)
			if !ok || gd.Tok != token.VAR || len(gd.Specs) != 1 {
				return nil, false
			}
			vs := gd.Specs[0].(*ast.ValueSpec)
			if len(vs.Names) != 1 || len(vs.Values) != 0 || vs.Type == nil || src(vs.Type) != "error" {
				return nil, false
			}
			errVar = vs.Names[0].Name
			k++
		}
	}
	if errVar == "" || k+1 >= len(lb) {
		return nil, false
	}
	as, ok := lb[k].(*ast.AssignStmt)
	if !ok || as.Tok != token.ASSIGN || len(as.Lhs) != 3 || len(as.Rhs) != 1 ||
		!isIdent(as.Lhs[0], m.charVar) || !isIdent(as.Lhs[1], m.sizeVar) || !isIdent(as.Lhs[2], errVar) {
		return nil, false
	}
	call, ok := as.Rhs[0].(*ast.CallExpr)
	if !ok || len(call.Args) != 2 || src(call.Args[0]) != m.jsonVar+"["+m.idxVar+":]" || !isIdent(call.Args[1], m.lineVar) {
		return nil, false
	}
	fn, ok := call.Fun.(*ast.Ident)
	if !ok || funcs[fn.Name] == nil || m.all[fn.Name] != nil {
		return nil, false
	}
	h := funcs[fn.Name]
	chk, ok := lb[k+1].(*ast.IfStmt)
	if !ok || chk.Init != nil || chk.Else != nil || src(chk.Cond) != errVar+" != nil" || len(chk.Body.List) != 1 {
		return nil, false
	}
	if r, ok := chk.Body.List[0].(*ast.ReturnStmt); !ok || len(r.Results) != 3 || src(r.Results[0]) != "nil" ||
		src(r.Results[1]) != "0" || !isIdent(r.Results[2], errVar) {
		return nil, false
	}
	// the helper
	ft := h.Type
	if ft.TypeParams != nil || len(ft.Params.List) != 2 || len(ft.Params.List[0].Names) != 1 || len(ft.Params.List[1].Names) != 1 ||
		src(ft.Params.List[0].Type) != "string" || src(ft.Params.List[1].Type) != "*int" ||
		ft.Results == nil || len(ft.Results.List) != 3 || len(ft.Results.List[0].Names) != 0 ||
		src(ft.Results.List[0].Type) != "rune" || src(ft.Results.List[1].Type) != "int" || src(ft.Results.List[2].Type) != "error" {
		failAt(h, "%s: not a decoder helper (string, *int) (rune, int, error)", fn.Name)
	}
	p0, p1 := ft.Params.List[0].Names[0].Name, ft.Params.List[1].Names[0].Name
	hb := h.Body.List
	if len(hb) < 3 {
		failAt(h, "%s: not a decoder helper", fn.Name)
	}
	dec, ok := hb[0].(*ast.AssignStmt)
	if !ok || dec.Tok != token.DEFINE || len(dec.Lhs) != 2 || len(dec.Rhs) != 1 || src(dec.Rhs[0]) != "utf8.DecodeRuneInString("+p0+")" {
		failAt(hb[0], "%s: expected `c, s := utf8.DecodeRuneInString(%s)`", fn.Name, p0)
	}
	c, sz := src(dec.Lhs[0]), src(dec.Lhs[1])
	if c == "_" || sz == "_" || c == sz || c == p0 || c == p1 || sz == p0 || sz == p1 || p0 == p1 {
		failAt(hb[0], "%s: expected `c, s := utf8.DecodeRuneInString(%s)`", fn.Name, p0)
	}
	hchk, ok := hb[1].(*ast.IfStmt)
	if !ok || hchk.Init != nil || hchk.Else != nil || len(hchk.Body.List) != 1 || identOccurs(hchk.Cond, p0)+identOccurs(hchk.Cond, p1) != 0 {
		failAt(hb[1], "%s: expected the decoding check `if … { return 0, 0, … }`", fn.Name)
	}
	hret, ok := hchk.Body.List[0].(*ast.ReturnStmt)
	if !ok || len(hret.Results) != 3 || src(hret.Results[0]) != "0" || src(hret.Results[1]) != "0" {
		failAt(hb[1], "%s: expected the decoding check `if … { return 0, 0, … }`", fn.Name)
	}
	last, ok := hb[len(hb)-1].(*ast.ReturnStmt)
	if !ok || len(last.Results) != 3 || !isIdent(last.Results[0], c) || !isIdent(last.Results[1], sz) || src(last.Results[2]) != "nil" {
		failAt(hb[len(hb)-1], "%s: expected `return %s, %s, nil` at the end", fn.Name, c, sz)
	}
	mid := hb[2 : len(hb)-1]
	own := map[string]bool{c: true, sz: true, p1: true}
	callers := map[string]bool{errVar: true, p0: true}
	for _, v := range []string{m.stateVar, m.accVar, m.valVar, m.keyVar, m.inValVar, m.charVar, m.sizeVar, m.idxVar, m.jsonVar, m.lineVar} {
		callers[v] = true
	}
	for _, st := range mid {
		ast.Inspect(st, func(n ast.Node) bool {
			switch n := n.(type) {
			case *ast.ReturnStmt, *ast.FuncLit, *ast.DeferStmt, *ast.GoStmt, *ast.LabeledStmt, *ast.BranchStmt, *ast.DeclStmt, *ast.RangeStmt:
				failAt(n, "%s: unsupported statement in a decoder helper", fn.Name)
			case *ast.AssignStmt:
				if n.Tok == token.DEFINE {
					failAt(n, "%s: unsupported statement in a decoder helper", fn.Name)
				}
			case *ast.Ident:
				if callers[n.Name] && !own[n.Name] {
					failAt(n, "%s: %s would be captured by the caller", fn.Name, n.Name)
				}
			}
			return true
		})
	}
	// the unfolded prologue
	body := copyStmts(append([]ast.Stmt{hchk}, mid...))
	tmp := map[string]string{c: "\x00c", sz: "\x00s", p1: "\x00l"}
	for from, t := range tmp {
		renameIdent(body, from, t)
	}
	renameIdent(body, "\x00c", m.charVar)
	renameIdent(body, "\x00s", m.sizeVar)
	renameIdent(body, "\x00l", m.lineVar)
	nchk := body[0].(*ast.IfStmt)
	nret := nchk.Body.List[0].(*ast.ReturnStmt)
	nret.Results[0] = &ast.Ident{NamePos: nret.Results[0].Pos(), Name: "nil"}
	ndec := &ast.AssignStmt{
		Lhs:    []ast.Expr{as.Lhs[0], as.Lhs[1]},
		TokPos: as.TokPos, Tok: token.ASSIGN,
		Rhs: []ast.Expr{&ast.CallExpr{Fun: &ast.SelectorExpr{X: &ast.Ident{NamePos: call.Pos(), Name: "utf8"}, Sel: &ast.Ident{NamePos: call.Pos(), Name: "DecodeRuneInString"}},
			Lparen: call.Lparen, Args: []ast.Expr{call.Args[0]}, Rparen: call.Rparen}},
	}
	out := append([]ast.Stmt{ndec}, body...)
	return append(out, lb[k+2:]...), true
}

func methodCallNode(n ast.Node) (x, m string, args []ast.Expr, ok bool) {
	e, isExpr := n.(ast.Expr)
	if !isExpr {
		return "", "", nil, false
	}
	return methodCall(e)
}

// the arguments with which the loop is entered behind the opening bracket: the variable
// declarations followed by the body of `case stateStart`
func (m *machine) initArgs() string {
	env := &penv{state: "", acc: "", key: builder{base: "[]"}, val: builder{base: "[]"}, inVal: "false",
		line: "<line>", rest: "<rest>", locals: map[string]local{}}
	var got []*penv
	marker := lLeaf{"<start>"}
	n := m.execList(m.startCase.Body, env, func(e *penv) lnode { got = append(got, e); return marker })
	if n != marker || len(got) != 1 {
		failAt(m.startCase, "`case stateStart` is not a straight-line sequence of assignments")
	}
	e := got[0]
	if e.state == "" || e.state == "st" || e.acc == "" || e.line != "<line>" || e.rest != "<rest>" {
		failAt(m.startCase, "`case stateStart` must create the container and set the state")
	}
	return m.args(e)
}

// state, container, builders, inVal — the middle arguments of the Lean function
func (m *machine) args(e *penv) string {
	parts := []string{e.state, paren(e.acc)}
	if m.kind == "object" {
		parts = append(parts, paren(e.key.lean()))
	}
	parts = append(parts, paren(e.val.lean()), paren(e.inVal))
	return strings.Join(parts, " ")
}

func (m *machine) recurse(at ast.Node, e *penv) lnode {
	if e.pendingPos != "" {
		failAt(at, "the position returned by the nested call (%s) is not added to %s before the next iteration", e.pendingPos, m.idxVar)
	}
	if e.state == "" || e.acc == "" {
		failAt(at, "iteration continues in stateStart")
	}
	return lLeaf{m.genName + " fuel " + e.rest + " " + m.args(e) + " " + paren(e.line)}
}

func (m *machine) execList(list []ast.Stmt, env *penv, k kont) lnode {
	if len(list) == 0 {
		return k(env)
	}
	return m.execStmt(list[0], env, func(e *penv) lnode { return m.execList(list[1:], e, k) })
}

type cval struct {
	static bool
	value  bool
	lean   string
	prec   int // 100 atom, 90 `!x`, 70 application, 50 comparison, 35 &&, 30 ||
}

func staticVal(v bool) cval { return cval{static: true, value: v} }

func (m *machine) isChar(e ast.Expr) bool { return isIdent(unparen(e), m.charVar) }

func (m *machine) builderOf(env *penv, name string) (*builder, bool) {
	switch {
	case name == m.valVar:
		return &env.val, true
	case name == m.keyVar && m.keyVar != "":
		return &env.key, true
	}
	return nil, false
}

func (m *machine) cond(env *penv, e ast.Expr) cval {
	e = unparen(e)
	switch x := e.(type) {
	case *ast.Ident:
		if x.Name == m.inValVar {
			switch env.inVal {
			case "true":
				return staticVal(true)
			case "false":
				return staticVal(false)
			}
			return cval{lean: env.inVal, prec: 100}
		}
	case *ast.UnaryExpr:
		if x.Op == token.NOT {
			c := m.cond(env, x.X)
			if c.static {
				return staticVal(!c.value)
			}
			if c.prec < 100 {
				return cval{lean: "!(" + c.lean + ")", prec: 90}
			}
			return cval{lean: "!" + c.lean, prec: 90}
		}
	case *ast.CallExpr:
		if px, sel, ok := selOf(x.Fun); ok && px == "unicode" && sel == "IsSpace" && len(x.Args) == 1 && m.isChar(x.Args[0]) {
			return cval{lean: "isSpace c", prec: 70}
		}
	case *ast.BinaryExpr:
		switch x.Op {
		case token.LAND, token.LOR:
			a, b := m.cond(env, x.X), m.cond(env, x.Y)
			and := x.Op == token.LAND
			// Go evaluates left to right and both operands are pure here
			if a.static {
				if a.value == and {
					return b
				}
				return staticVal(!and)
			}
			if b.static {
				if b.value == and {
					return a
				}
				return staticVal(!and)
			}
			p, op := 30, " || "
			if and {
				p, op = 35, " && "
			}
			l, r := a.lean, b.lean
			if a.prec < p {
				l = "(" + l + ")"
			}
			if b.prec <= p {
				r = "(" + r + ")"
			}
			return cval{lean: l + op + r, prec: p}
		case token.EQL, token.NEQ:
			op := " == "
			if x.Op == token.NEQ {
				op = " != "
			}
			if r, ok := charLit(x.Y); ok && m.isChar(x.X) {
				return cval{lean: "c" + op + leanChar(r), prec: 50}
			}
			if r, ok := charLit(x.X); ok && m.isChar(x.Y) {
				return cval{lean: "c" + op + leanChar(r), prec: 50}
			}
			if id, ok := unparen(x.X).(*ast.Ident); ok && src(x.Y) == "nil" {
				switch env.locals[id.Name].typ {
				case "err":
					return staticVal(x.Op == token.NEQ)
				case "nilerr":
					return staticVal(x.Op == token.EQL)
				}
			}
			if bx, bm, bargs, ok := methodCall(x.X); ok && bm == "Len" && len(bargs) == 0 && src(x.Y) == "0" {
				if b, ok := m.builderOf(env, bx); ok {
					if x.Op == token.EQL {
						return cval{lean: paren(b.lean()) + ".isEmpty", prec: 70}
					}
					return cval{lean: "!" + paren(b.lean()) + ".isEmpty", prec: 90}
				}
			}
		case token.GTR:
			if bx, bm, bargs, ok := methodCall(x.X); ok && bm == "Len" && len(bargs) == 0 && src(x.Y) == "0" {
				if b, ok := m.builderOf(env, bx); ok {
					return cval{lean: "!" + paren(b.lean()) + ".isEmpty", prec: 90}
				}
			}
		}
	}
	failAt(e, "unrecognised condition: %s", src(e))
	return cval{}
}

// the character a true condition establishes (`char == 'x'` as a conjunct)
func (m *machine) charFact(e ast.Expr) rune {
	e = unparen(e)
	if b, ok := e.(*ast.BinaryExpr); ok {
		switch b.Op {
		case token.LAND:
			if r := m.charFact(b.X); r != 0 {
				return r
			}
			return m.charFact(b.Y)
		case token.EQL:
			if r, ok := charLit(b.Y); ok && m.isChar(b.X) {
				return r
			}
			if r, ok := charLit(b.X); ok && m.isChar(b.Y) {
				return r
			}
		}
	}
	return 0
}

func (m *machine) isLineDeref(e ast.Expr) bool {
	s, ok := unparen(e).(*ast.StarExpr)
	return ok && isIdent(s.X, m.lineVar)
}

// a value stored into the container: a local of type jval / str
func (m *machine) jvalOf(env *penv, e ast.Expr) string {
	id, ok := unparen(e).(*ast.Ident)
	if !ok {
		failAt(e, "unrecognised element expression: %s", src(e))
	}
	l, ok := env.locals[id.Name]
	switch {
	case ok && l.typ == "jval":
		return l.lean
	case ok && l.typ == "str":
		return ".str " + paren(l.lean)
	}
	failAt(e, "%s is not a value that can be stored here", id.Name)
	return ""
}

func (m *machine) execStmt(st ast.Stmt, env *penv, k kont) lnode {
	switch st := st.(type) {
	case *ast.BlockStmt:
		return m.execList(st.List, env, k)

	case *ast.IfStmt:
		if st.Init != nil {
			failAt(st, "if with an init statement")
		}
		// `if cond { *line++ }`: a let-bound new line counter instead of a duplicated continuation
		if st.Else == nil && len(st.Body.List) == 1 {
			if inc, ok := st.Body.List[0].(*ast.IncDecStmt); ok && inc.Tok == token.INC && m.isLineDeref(inc.X) {
				c := m.cond(env, st.Cond)
				if c.static {
					failAt(st, "constant condition")
				}
				e := env.clone()
				e.lineLets++
				name := "line"
				if e.lineLets > 1 {
					name = fmt.Sprintf("line_%d", e.lineLets)
				}
				val := "if " + c.lean + " then " + env.line + " + 1 else " + env.line
				if c.lean == `c == '\n'` {
					val = "bumpLine c " + paren(env.line)
				}
				e.line = name
				return lLet{name: name, val: val, body: k(e)}
			}
		}
		c := m.cond(env, st.Cond)
		thenBranch := func() lnode {
			e := env.clone()
			if r := m.charFact(st.Cond); r != 0 {
				e.knownChar = r
			}
			return m.execList(st.Body.List, e, k)
		}
		elseBranch := func() lnode {
			if st.Else == nil {
				return k(env.clone())
			}
			return m.execStmt(st.Else, env.clone(), k)
		}
		if c.static {
			if c.value {
				return thenBranch()
			}
			return elseBranch()
		}
		// a guard around a single if-chain / switch is distributed over the chain (see mkIf)
		chain := false
		if st.Else == nil && len(st.Body.List) == 1 {
			switch st.Body.List[0].(type) {
			case *ast.IfStmt, *ast.SwitchStmt:
				chain = true
			}
		}
		return m.mkIf(c, thenBranch(), elseBranch(), chain)

	case *ast.BranchStmt:
		if st.Tok == token.CONTINUE && st.Label == nil {
			return m.recurse(st, env)
		}
		failAt(st, "unsupported branch statement: %s", src(st))

	case *ast.ReturnStmt:
		return m.execReturn(st, env)

	case *ast.IncDecStmt:
		if st.Tok == token.INC && m.isLineDeref(st.X) {
			e := env.clone()
			e.line = paren(env.line) + " + 1"
			return k(e)
		}
		failAt(st, "unrecognised statement: %s", src(st))

	case *ast.SwitchStmt:
		return m.execSwitch(st, env, k)

	case *ast.AssignStmt:
		return m.execAssign(st, env, k)

	case *ast.ExprStmt:
		x, mm, args, ok := methodCall(st.X)
		if !ok {
			failAt(st, "unrecognised statement: %s", src(st))
		}
		e := env.clone()
		if b, isB := m.builderOf(e, x); isB {
			switch {
			case mm == "Reset" && len(args) == 0:
				*b = builder{base: "[]"}
				return k(e)
			case mm == "WriteRune" && len(args) == 1 && m.isChar(args[0]):
				b.app = append(b.app, "c")
				return k(e)
			case mm == "WriteRune" && len(args) == 1:
				if r, ok := charLit(args[0]); ok {
					b.app = append(b.app, leanChar(r))
					return k(e)
				}
			case mm == "WriteString" && len(args) == 1:
				if id, ok := unparen(args[0]).(*ast.Ident); ok && e.locals[id.Name].typ == "str" {
					s := e.locals[id.Name].lean
					if b.base == "[]" && len(b.app) == 0 {
						*b = builder{base: s}
					} else {
						*b = builder{base: paren(b.lean()) + " ++ " + paren(s)}
					}
					return k(e)
				}
			}
			failAt(st, "unrecognised builder operation: %s", src(st))
		}
		if x == m.accVar {
			if e.acc == "" {
				failAt(st, "the container is used before it is created")
			}
			switch {
			case m.kind == "list" && mm == "Add" && len(args) == 1:
				e.acc = paren(e.acc) + " ++ [" + m.jvalOf(e, args[0]) + "]"
				return k(e)
			case m.kind == "object" && mm == "Set" && len(args) == 2:
				if bx, bm, bargs, ok := methodCall(args[0]); ok && bm == "String" && len(bargs) == 0 && bx == m.keyVar {
					e.acc = "setField " + paren(e.acc) + " " + paren(e.key.lean()) + " " + paren(m.jvalOf(e, args[1]))
					return k(e)
				}
			}
		}
		failAt(st, "unrecognised statement: %s", src(st))
	}
	failAt(st, "unrecognised statement: %s", src(st))
	return nil
}

// mkIf builds `if c then a else b`.  A statement behind an `if` without `else` is executed once per path, so the
// same Lean subterm can appear both in the else branch and at the end of the then branch; a guard that was hoisted
// in the Go source (`if g { if c1 {A} else if c2 {B} }; REST` for `if g && c1 {A} else if g && c2 {B}; REST`) is
// distributed back over the chain, by the Boolean identities (the tests are pure Lean `Bool` terms)
//
//	if g then Y else Y                        =  Y
//	if g then (if c then X else T) else Y     =  if g && c then X else (if g then T else Y)
//
// applied only when the else-spine of the then branch ends in a term identical to the else branch Y (so that the
// first identity finally removes the duplicate); otherwise the term is left as it is.  It is applied (chain) where
// the body of the Go `if` is a single `if` chain or `switch`, the shape of a hoisted guard.
func (m *machine) mkIf(c cval, a, b lnode, chain bool) lnode {
	if m.condPrec == nil {
		m.condPrec = map[string]int{}
	}
	m.condPrec[c.lean] = c.prec
	if chain {
		if n, ok := m.distribute(c, a, b); ok {
			return n
		}
	}
	return lIf{cond: c.lean, a: a, b: b}
}

func (m *machine) distribute(g cval, t, y lnode) (lnode, bool) {
	if reflect.DeepEqual(t, y) {
		return y, true
	}
	ti, ok := t.(lIf)
	if !ok {
		return nil, false
	}
	p, known := m.condPrec[ti.cond]
	if !known {
		return nil, false
	}
	rest, ok := m.distribute(g, ti.b, y)
	if !ok {
		return nil, false
	}
	l, r := g.lean, ti.cond
	if g.prec < 35 {
		l = "(" + l + ")"
	}
	if p <= 35 {
		r = "(" + r + ")"
	}
	m.condPrec[l+" && "+r] = 35
	return lIf{cond: l + " && " + r, a: ti.a, b: rest}, true
}

func (m *machine) execReturn(st *ast.ReturnStmt, env *penv) lnode {
	if len(st.Results) != 3 {
		failAt(st, "unrecognised return: %s", src(st))
	}
	r := st.Results
	if isIdent(r[0], m.accVar) && isIdent(r[1], m.idxVar) && src(r[2]) == "nil" {
		if env.pendingPos != "" || env.acc == "" {
			failAt(st, "return in an unexpected position")
		}
		ctor := map[string]string{"list": ".list", "object": ".obj"}[m.kind]
		return lLeaf{".ok (" + ctor + " " + paren(env.acc) + ") " + env.rest + " " + paren(env.line)}
	}
	if src(r[0]) == "nil" && src(r[1]) == "0" {
		if id, ok := unparen(r[2]).(*ast.Ident); ok {
			if l := env.locals[id.Name]; l.typ == "err" {
				return lLeaf{".err " + l.lean}
			}
			failAt(st, "%s is not known to be a non-nil error here", id.Name)
		}
		return lLeaf{".err " + errorfToLean(r[2], "string("+m.charVar+")", "*"+m.lineVar, env.line)}
	}
	failAt(st, "unrecognised return: %s", src(st))
	return nil
}

func (m *machine) execSwitch(st *ast.SwitchStmt, env *penv, k kont) lnode {
	if st.Init == nil && st.Tag != nil && m.isChar(st.Tag) {
		return m.execStmt(m.charSwitchAsIf(st), env, k)
	}
	if st.Init != nil || st.Tag == nil || !isIdent(st.Tag, m.stateVar) {
		failAt(st, "only `switch %s` and `switch %s` are supported", m.stateVar, m.charVar)
	}
	type arm struct {
		ctor string
		body []ast.Stmt
	}
	var arms []arm
	var deflt *ast.CaseClause
	seen := map[string]bool{}
	for _, cc := range st.Body.List {
		c := cc.(*ast.CaseClause)
		if c.List == nil {
			deflt = c
			continue
		}
		for _, x := range c.List {
			id, ok := x.(*ast.Ident)
			if !ok {
				failAt(x, "unrecognised case: %s", src(x))
			}
			if id.Name == "stateStart" {
				continue // executed by initArgs
			}
			ctor, ok := stateCtor[id.Name]
			if !ok {
				failAt(x, "unknown state %s", id.Name)
			}
			if seen[ctor] {
				failAt(x, "duplicate case %s", id.Name)
			}
			seen[ctor] = true
			arms = append(arms, arm{ctor, c.Body})
		}
	}
	for _, ctor := range stateTypes[m.kind] {
		if !seen[ctor] {
			if deflt != nil {
				arms = append(arms, arm{ctor, deflt.Body})
			} else {
				arms = append(arms, arm{ctor, nil})
			}
		}
	}
	run := func(a arm) lnode {
		for _, s := range a.body {
			ast.Inspect(s, func(n ast.Node) bool {
				if b, ok := n.(*ast.BranchStmt); ok && (b.Tok == token.BREAK || b.Tok == token.FALLTHROUGH || b.Tok == token.GOTO) {
					failAt(b, "unsupported branch statement: %s", src(b))
				}
				return true
			})
		}
		e := env.clone()
		e.state = "." + a.ctor
		return m.execList(a.body, e, k)
	}
	if env.state != "st" {
		// the state is known: only one case applies
		for _, a := range arms {
			if "."+a.ctor == env.state {
				return run(a)
			}
		}
		failAt(st, "switch in state %q", env.state)
	}
	out := lMatch{scrut: "st"}
	for _, a := range arms {
		out.arms = append(out.arms, lArm{pat: "." + a.ctor, body: run(a)})
	}
	return out
}

// `switch char { case 'a': A  case 'b', 'c': B  default: C }` is read as the chain
// `if char == 'a' {A} else if char == 'b' || char == 'c' {B} else {C}` (the Go specification defines the expression
// switch by exactly these comparisons, in this order; the tag is a variable, so evaluating it once or once per
// comparison is the same, and no case body runs before the comparisons that select it).  The cases must be
// character literals; a `break` / `fallthrough` in a case body (which would mean something else in the chain) is
// refused, as every branch statement other than `continue` is refused by execStmt anyway.
func (m *machine) charSwitchAsIf(st *ast.SwitchStmt) ast.Stmt {
	var first, cur *ast.IfStmt
	var deflt *ast.CaseClause
	for _, cc := range st.Body.List {
		c := cc.(*ast.CaseClause)
		if breaksOut(c.Body) {
			failAt(c, "break / fallthrough in a case of `switch %s`", m.charVar)
		}
		if c.List == nil {
			if deflt != nil {
				failAt(c, "two default cases")
			}
			deflt = c
			continue
		}
		var cond ast.Expr
		for _, x := range c.List {
			if _, ok := charLit(x); !ok {
				failAt(x, "a case of `switch %s` must be a character literal: %s", m.charVar, src(x))
			}
			eq := &ast.BinaryExpr{X: &ast.Ident{NamePos: x.Pos(), Name: m.charVar}, OpPos: x.Pos(), Op: token.EQL, Y: x}
			if cond == nil {
				cond = eq
			} else {
				cond = &ast.BinaryExpr{X: cond, OpPos: x.Pos(), Op: token.LOR, Y: eq}
			}
		}
		n := &ast.IfStmt{If: c.Pos(), Cond: cond, Body: &ast.BlockStmt{Lbrace: c.Colon, List: c.Body, Rbrace: c.End()}}
		if first == nil {
			first = n
		} else {
			cur.Else = n
		}
		cur = n
	}
	var rest ast.Stmt = &ast.BlockStmt{Lbrace: st.Body.Lbrace, Rbrace: st.Body.Rbrace}
	if deflt != nil {
		rest = &ast.BlockStmt{Lbrace: deflt.Colon, List: deflt.Body, Rbrace: deflt.End()}
	}
	if first == nil {
		return rest
	}
	cur.Else = rest
	return first
}

func (m *machine) execAssign(st *ast.AssignStmt, env *penv, k kont) lnode {
	e := env.clone()
	if st.Tok == token.ASSIGN && len(st.Lhs) == 1 && len(st.Rhs) == 1 {
		lhs, rhs := st.Lhs[0], unparen(st.Rhs[0])
		switch {
		case isIdent(lhs, m.stateVar):
			if id, ok := rhs.(*ast.Ident); ok {
				if ctor, ok := stateCtor[id.Name]; ok {
					e.state = "." + ctor
					return k(e)
				}
			}
		case isIdent(lhs, m.inValVar):
			if s := src(rhs); s == "true" || s == "false" {
				e.inVal = s
				return k(e)
			}
		case isIdent(lhs, m.accVar):
			want := map[string]string{"list": "NewList()", "object": "NewObject()"}[m.kind]
			if src(rhs) == want {
				e.acc = "[]"
				return k(e)
			}
		}
		failAt(st, "unrecognised assignment: %s", src(st))
	}
	if st.Tok == token.ADD_ASSIGN && len(st.Lhs) == 1 && isIdent(st.Lhs[0], m.idxVar) {
		if id, ok := unparen(st.Rhs[0]).(*ast.Ident); ok && e.pendingPos != "" && id.Name == e.pendingPos {
			e.rest = e.pendingRest
			e.pendingPos, e.pendingRest = "", ""
			return k(e)
		}
		failAt(st, "unrecognised index update: %s", src(st))
	}
	if st.Tok != token.DEFINE || len(st.Rhs) != 1 {
		failAt(st, "unrecognised assignment: %s", src(st))
	}
	names := make([]string, len(st.Lhs))
	for i, l := range st.Lhs {
		id, ok := l.(*ast.Ident)
		if !ok {
			failAt(st, "unrecognised assignment: %s", src(st))
		}
		names[i] = id.Name
		for _, v := range []string{m.stateVar, m.accVar, m.valVar, m.keyVar, m.inValVar, m.charVar, m.sizeVar, m.idxVar, m.jsonVar, m.lineVar} {
			if id.Name == v {
				failAt(st, "%s shadows a variable of the machine", id.Name)
			}
		}
	}
	call, ok := unparen(st.Rhs[0]).(*ast.CallExpr)
	if !ok {
		failAt(st, "unrecognised assignment: %s", src(st))
	}
	fn, _ := call.Fun.(*ast.Ident)
	switch {
	// v, pos, err := parseX(json[i:], line)
	case fn != nil && m.all[fn.Name] != nil && len(names) == 3:
		callee := m.all[fn.Name]
		if len(call.Args) != 2 || src(call.Args[0]) != m.jsonVar+"["+m.idxVar+":]" || !isIdent(call.Args[1], m.lineVar) {
			failAt(st, "expected %s(%s[%s:], %s)", fn.Name, m.jsonVar, m.idxVar, m.lineVar)
		}
		if env.pendingPos != "" {
			failAt(st, "nested call before the previous result position was consumed")
		}
		// the callee's stateStart consumes the current character without looking at it; the model
		// relies on its being a bracket (in particular not a newline)
		if env.knownChar == 0 || env.knownChar == '\n' || env.knownChar >= 0x80 {
			failAt(st, "nested call not guarded by a comparison of %s with a bracket", m.charVar)
		}
		if names[0] == "_" || names[1] == "_" || names[2] == "_" {
			failAt(st, "blank result of the nested call")
		}
		primes := strings.Repeat("'", env.nestDepth+1)
		restN, lineN, vN := "rest"+primes, "line"+primes, leanName(names[0])
		errEnv := env.clone()
		errEnv.locals[names[0]] = local{typ: "undef"}
		errEnv.locals[names[1]] = local{typ: "undef"}
		errEnv.locals[names[2]] = local{typ: "err", lean: "e"}
		okEnv := env.clone()
		okEnv.nestDepth++
		okEnv.locals[names[0]] = local{typ: "jval", lean: vN}
		okEnv.locals[names[1]] = local{typ: "undef"}
		okEnv.locals[names[2]] = local{typ: "nilerr"}
		okEnv.pendingPos, okEnv.pendingRest = names[1], restN
		okEnv.line = lineN // the callee advanced *line
		return lMatch{
			scrut: callee.genName + " fuel " + env.rest + " " + callee.initArgs() + " " + paren(env.line),
			arms: []lArm{
				{pat: ".err e", body: k(errEnv)},
				{pat: ".ok " + vN + " " + restN + " " + lineN, body: k(okEnv)},
			},
		}

	// field, err := parseField(val.String(), *line)
	case fn != nil && fn.Name == "parseField" && len(names) == 2:
		if len(call.Args) != 2 || !m.isLineDeref(call.Args[1]) {
			failAt(st, "expected parseField(<builder>.String(), *%s)", m.lineVar)
		}
		bx, bm, bargs, ok := methodCall(call.Args[0])
		b, isB := m.builderOf(e, bx)
		if !ok || bm != "String" || len(bargs) != 0 || !isB {
			failAt(st, "expected parseField(<builder>.String(), *%s)", m.lineVar)
		}
		vN := leanName(names[0])
		errEnv := env.clone()
		errEnv.locals[names[0]] = local{typ: "undef"}
		errEnv.locals[names[1]] = local{typ: "err", lean: "e"}
		okEnv := env.clone()
		okEnv.locals[names[0]] = local{typ: "jval", lean: vN}
		okEnv.locals[names[1]] = local{typ: "nilerr"}
		return lMatch{
			scrut: "parseField " + paren(b.lean()) + " " + paren(env.line),
			arms: []lArm{
				{pat: ".error e", body: k(errEnv)},
				{pat: ".ok " + vN, body: k(okEnv)},
			},
		}

	// str := unquoteJSON(val.String())
	case fn != nil && fn.Name == "unquoteJSON" && len(names) == 1 && len(call.Args) == 1:
		bx, bm, bargs, ok := methodCall(call.Args[0])
		b, isB := m.builderOf(e, bx)
		if !ok || bm != "String" || len(bargs) != 0 || !isB {
			failAt(st, "expected unquoteJSON(<builder>.String())")
		}
		e.locals[names[0]] = local{typ: "str", lean: "unquoteJSON " + paren(b.lean())}
		return k(e)
	}
	failAt(st, "unrecognised assignment: %s", src(st))
	return nil
}

// the Lean definition of one machine (inside the mutual block)
func (m *machine) lean() string {
	var b strings.Builder
	sig := map[string]string{
		"list":   "Nat → List Item → LSt → List JVal → Str → Bool → Nat → PRes",
		"object": "Nat → List Item → OSt → List (Str × JVal) → Str → Str → Bool → Nat → PRes",
	}[m.kind]
	wild, vars := "_, _, _, _, _", "st, acc, val, inVal, line0"
	if m.kind == "object" {
		wild, vars = "_, _, _, _, _, _", "st, acc, key, val, inVal, line0"
	}
	fmt.Fprintf(&b, "/-- the loop of `%s` behind the opening bracket (%s, %d lines of Go) -/\n", m.decl.Name.Name, where(m.decl), m.goLines)
	fmt.Fprintf(&b, "def %s : %s\n", m.genName, sig)
	fmt.Fprintf(&b, "  | 0, _, %s => .err ⟨.fuel, none⟩\n", wild)
	fmt.Fprintf(&b, "  | _ + 1, [], %s => .err %s\n", wild, m.endErr)
	fmt.Fprintf(&b, "  | _ + 1, none :: _, %s => .err %s\n", wild, m.utfErr)
	fmt.Fprintf(&b, "  | fuel + 1, some c :: rest, %s =>\n    ", vars)
	env := &penv{state: "st", acc: "acc", key: builder{base: "key"}, val: builder{base: "val"}, inVal: "inVal",
		line: "line0", rest: "rest", locals: map[string]local{}}
	last := ast.Node(m.decl)
	if len(m.body) > 0 {
		last = m.body[len(m.body)-1]
	}
	tree := m.execList(m.body, env, func(e *penv) lnode { return m.recurse(last, e) })
	emit(&b, tree, "    ")
	b.WriteString("\n")
	return b.String()
}

// --- parseField: the cascade null → ParseInt → ParseFloat → ParseBool → error

type fieldEnv struct {
	fieldVar, lineVar string
	locals            map[string]local
}

func (e *fieldEnv) clone() *fieldEnv {
	c := &fieldEnv{fieldVar: e.fieldVar, lineVar: e.lineVar, locals: map[string]local{}}
	for k, v := range e.locals {
		c.locals[k] = v
	}
	return c
}

func fieldExec(list []ast.Stmt, env *fieldEnv, end ast.Node) lnode {
	if len(list) == 0 {
		failAt(end, "parseField: control reaches the end of the function")
	}
	rest := list[1:]
	switch st := list[0].(type) {
	case *ast.IfStmt:
		if st.Init != nil || st.Else != nil {
			failAt(st, "parseField: unsupported if statement")
		}
		c, ok := unparen(st.Cond).(*ast.BinaryExpr)
		if !ok || (c.Op != token.EQL && c.Op != token.NEQ) {
			failAt(st, "parseField: unrecognised condition %s", src(st.Cond))
		}
		if isIdent(c.X, env.fieldVar) && c.Op == token.EQL {
			if s, ok := stringLit(c.Y); ok {
				return lIf{cond: "field == " + leanCharList(s), a: fieldExec(st.Body.List, env.clone(), st), b: fieldExec(rest, env.clone(), end)}
			}
		}
		if id, ok := unparen(c.X).(*ast.Ident); ok && src(c.Y) == "nil" {
			var isNil bool
			switch env.locals[id.Name].typ {
			case "err":
				isNil = false
			case "nilerr":
				isNil = true
			default:
				failAt(st, "parseField: %s is not an error variable", id.Name)
			}
			if isNil == (c.Op == token.EQL) {
				// the body must end in a return
				return fieldExec(st.Body.List, env.clone(), st)
			}
			return fieldExec(rest, env, end)
		}
		failAt(st, "parseField: unrecognised condition %s", src(st.Cond))
	case *ast.AssignStmt:
		if st.Tok != token.DEFINE || len(st.Lhs) != 2 || len(st.Rhs) != 1 {
			failAt(st, "parseField: unrecognised assignment %s", src(st))
		}
		v, ok1 := st.Lhs[0].(*ast.Ident)
		er, ok2 := st.Lhs[1].(*ast.Ident)
		call, ok3 := unparen(st.Rhs[0]).(*ast.CallExpr)
		if !ok1 || !ok2 || !ok3 || v.Name == "_" || er.Name == "_" || v.Name == env.fieldVar || v.Name == env.lineVar {
			failAt(st, "parseField: unrecognised assignment %s", src(st))
		}
		x, sel, _ := selOf(call.Fun)
		argSrc := make([]string, len(call.Args))
		for i, a := range call.Args {
			argSrc[i] = src(a)
		}
		args := strings.Join(argSrc, ", ")
		f := env.fieldVar
		var fn, typ string
		switch {
		// the model is that of a 64-bit platform: bits.UintSize = 64
		case x == "strconv" && sel == "ParseInt" && (args == f+", 0, bits.UintSize" || args == f+", 0, 64"):
			fn, typ = "parseIntBase0", "int"
		case x == "strconv" && sel == "ParseFloat" && (args == f+", bits.UintSize" || args == f+", 64"):
			fn, typ = "F64.parseFloat", "float"
		case x == "strconv" && sel == "ParseBool" && args == f:
			fn, typ = "parseBool", "bool"
		default:
			failAt(st, "parseField: unrecognised call %s", src(call))
		}
		vN := leanName(v.Name)
		if vN == "field" {
			vN = "field_"
		}
		okEnv, errEnv := env.clone(), env.clone()
		okEnv.locals[v.Name] = local{typ: typ, lean: vN}
		okEnv.locals[er.Name] = local{typ: "nilerr"}
		errEnv.locals[v.Name] = local{typ: "undef"}
		errEnv.locals[er.Name] = local{typ: "err"}
		return lMatch{scrut: fn + " field", arms: []lArm{
			{pat: "some " + vN, body: fieldExec(rest, okEnv, end)},
			{pat: "none", body: fieldExec(rest, errEnv, end)},
		}}
	case *ast.ReturnStmt:
		if len(st.Results) != 2 {
			failAt(st, "parseField: unrecognised return")
		}
		r0, r1 := unparen(st.Results[0]), st.Results[1]
		if src(r1) != "nil" {
			if src(r0) != "nil" {
				failAt(st, "parseField: unrecognised return %s", src(st))
			}
			return lLeaf{".error " + errorfToLean(r1, env.fieldVar, env.lineVar, "line")}
		}
		if src(r0) == "nil" {
			return lLeaf{".ok .null"}
		}
		// int(integer): the identity on a 64-bit platform
		if c, ok := r0.(*ast.CallExpr); ok && isIdent(c.Fun, "int") && len(c.Args) == 1 {
			if id, ok := unparen(c.Args[0]).(*ast.Ident); ok && env.locals[id.Name].typ == "int" {
				return lLeaf{".ok (.int " + env.locals[id.Name].lean + ")"}
			}
		}
		if id, ok := r0.(*ast.Ident); ok {
			switch l := env.locals[id.Name]; l.typ {
			case "float":
				return lLeaf{".ok (.float " + l.lean + ")"}
			case "bool":
				return lLeaf{".ok (.bool " + l.lean + ")"}
			}
		}
		failAt(st, "parseField: unrecognised return %s", src(st))
	}
	failAt(list[0], "parseField: unrecognised statement %s", src(list[0]))
	return nil
}

func genParseField(fd *ast.FuncDecl) string {
	ps := fd.Type.Params.List
	if len(ps) != 2 || len(ps[0].Names) != 1 || len(ps[1].Names) != 1 || src(ps[0].Type) != "string" || src(ps[1].Type) != "int" {
		failAt(fd, "parseField: expected the parameters (field string, line int)")
	}
	env := &fieldEnv{fieldVar: ps[0].Names[0].Name, lineVar: ps[1].Names[0].Name, locals: map[string]local{}}
	tree := fieldExec(fd.Body.List, env, fd)
	var b strings.Builder
	fmt.Fprintf(&b, "/-- `parseField` (%s) -/\ndef parseFieldGen (field : Str) (line : Nat) : Except PErr JVal :=\n  ", where(fd))
	emit(&b, tree, "  ")
	b.WriteString("\n")
	return b.String()
}

// --- the entry points ParseList / ParseObject (recognised statement by statement)

func genEntry(fd *ast.FuncDecl, m *machine, leanName, runName string) string {
	ps := fd.Type.Params.List
	if len(ps) != 1 || len(ps[0].Names) != 1 || src(ps[0].Type) != "string" {
		failAt(fd, "%s: expected one string parameter", fd.Name.Name)
	}
	json := ps[0].Names[0].Name
	st := fd.Body.List
	if len(st) != 5 {
		failAt(fd, "%s: expected five statements", fd.Name.Name)
	}
	// start := strings.Index(json, "[")
	as, ok := st[0].(*ast.AssignStmt)
	if !ok || as.Tok != token.DEFINE || len(as.Lhs) != 1 || len(as.Rhs) != 1 {
		failAt(st[0], "expected `start := strings.Index(%s, \"…\")`", json)
	}
	start := src(as.Lhs[0])
	call, ok := as.Rhs[0].(*ast.CallExpr)
	if !ok || src(call.Fun) != "strings.Index" || len(call.Args) != 2 || !isIdent(call.Args[0], json) {
		failAt(st[0], "expected `start := strings.Index(%s, \"…\")`", json)
	}
	bracket, ok := stringLit(call.Args[1])
	if !ok || len(bracket) != 1 || bracket[0] >= 0x80 || bracket[0] == '\n' {
		failAt(st[0], "the searched string must be one ASCII character other than a newline")
	}
	// if start < 0 { return nil, fmt.Errorf(...) }
	ifs, ok := st[1].(*ast.IfStmt)
	if !ok || ifs.Init != nil || ifs.Else != nil || src(ifs.Cond) != start+" < 0" || len(ifs.Body.List) != 1 {
		failAt(st[1], "expected `if %s < 0 { return nil, fmt.Errorf(…) }`", start)
	}
	ret, ok := ifs.Body.List[0].(*ast.ReturnStmt)
	if !ok || len(ret.Results) != 2 || src(ret.Results[0]) != "nil" {
		failAt(st[1], "expected `if %s < 0 { return nil, fmt.Errorf(…) }`", start)
	}
	missing := errorfToLean(ret.Results[1], "", "", "")
	// startLine := strings.Count(json[:start], "\n") + 1
	as2, ok := st[2].(*ast.AssignStmt)
	if !ok || as2.Tok != token.DEFINE || len(as2.Lhs) != 1 || len(as2.Rhs) != 1 ||
		src(as2.Rhs[0]) != "strings.Count("+json+"[:"+start+`], "\n") + 1` {
		failAt(st[2], "expected `startLine := strings.Count(%s[:%s], \"\\n\") + 1`", json, start)
	}
	startLine := src(as2.Lhs[0])
	// root, _, err := parseX(json[start:], &startLine)
	as3, ok := st[3].(*ast.AssignStmt)
	if !ok || as3.Tok != token.DEFINE || len(as3.Lhs) != 3 || len(as3.Rhs) != 1 || src(as3.Lhs[1]) != "_" ||
		src(as3.Rhs[0]) != m.decl.Name.Name+"("+json+"["+start+":], &"+startLine+")" {
		failAt(st[3], "expected `root, _, err := %s(%s[%s:], &%s)`", m.decl.Name.Name, json, start, startLine)
	}
	// return root, err
	ret2, ok := st[4].(*ast.ReturnStmt)
	if !ok || len(ret2.Results) != 2 || src(ret2.Results[0]) != src(as3.Lhs[0]) || src(ret2.Results[1]) != src(as3.Lhs[2]) {
		failAt(st[4], "expected `return %s, %s`", src(as3.Lhs[0]), src(as3.Lhs[2]))
	}
	var b strings.Builder
	fmt.Fprintf(&b, "/-- `%s(json[start:], &startLine)`: the machine run on the bytes behind the root bracket -/\n", m.decl.Name.Name)
	fmt.Fprintf(&b, "def %s (post : List UInt8) (startLine : Nat) : PRes :=\n  let items := decodeAll post\n  %s (items.length + 1) items %s startLine\n\n",
		runName, m.genName, m.initArgs())
	fmt.Fprintf(&b, "/-- `%s` (%s) -/\n", fd.Name.Name, where(fd))
	fmt.Fprintf(&b, "def %s (bs : List UInt8) : Except PErr JVal :=\n  match splitAtByte 0x%02X bs with\n  | none => .error %s\n  | some (pre, post) =>\n    match %s post (countNL pre + 1) with\n    | .ok v _ _ => .ok v\n    | .err e => .error e\n",
		leanName, bracket[0], missing, runName)
	return b.String()
}

func genParser(p *pkgInfo) (text string, err error) {
	defer func() {
		if r := recover(); r != nil {
			te, ok := r.(*transErr)
			if !ok {
				panic(r)
			}
			text, err = "", te
		}
	}()
	need := func(name string) *ast.FuncDecl {
		fd := p.funcs[name]
		if fd == nil {
			failAt(nil, "function %s not found", name)
		}
		return fd
	}
	all := map[string]*machine{}
	all["parseList"] = newMachine(need("parseList"), "list", "pListGen", all, p.funcs)
	all["parseObject"] = newMachine(need("parseObject"), "object", "pObjectGen", all, p.funcs)
	var b strings.Builder
	b.WriteString("/-\nGENERATED by vextract from the Go source (parser.go, anytype.go) — do not edit.\n\n")
	b.WriteString("A translation of the parser core into Lean: the loops of `parseList` / `parseObject` (symbolic\nexecution of the loop body; conventions of Model/Parser.lean: decoded items as input, a nested\ncall returns the remaining items, `case stateStart` is executed once to obtain the initial\narguments, recursion on fuel), `parseField`, the entry points `ParseList` / `ParseObject` and the\nescape table of `quoteJSON`.  Lemmas/ParserGenEq.lean proves these definitions equal to the\nhand-written model, so a change of the Go source that alters the behaviour breaks the build.\n-/\n")
	b.WriteString("import Anytype.Model.Parser\nnamespace Anytype.Generated\nopen Anytype\n\n")
	b.WriteString(genParseField(need("parseField")))
	b.WriteString("\nmutual\n")
	b.WriteString(all["parseList"].lean())
	b.WriteString("\n")
	b.WriteString(all["parseObject"].lean())
	b.WriteString("end\n\n")
	b.WriteString(genEntry(need("ParseList"), all["parseList"], "parseListBytesGen", "runListGen"))
	b.WriteString("\n")
	b.WriteString(genEntry(need("ParseObject"), all["parseObject"], "parseObjectBytesGen", "runObjectGen"))
	b.WriteString("\n")
	b.WriteString(genQuoteJSON(need("quoteJSON")))
	b.WriteString("\nend Anytype.Generated\n")
	return b.String(), nil
}

// --- quoteJSON: the escape table of its byte loop

// a byte-valued expression over the loop byte, as a Lean `Nat` expression over `c.toNat`
// (meaningful for bytes < 0x80, where the byte is the character)
func byteExpr(e ast.Expr, char string) string {
	e = unparen(e)
	switch x := e.(type) {
	case *ast.Ident:
		if x.Name == char {
			return "c.toNat"
		}
	case *ast.BasicLit:
		if x.Kind == token.INT {
			if v, err := strconv.ParseUint(x.Value, 0, 8); err == nil {
				return fmt.Sprintf("0x%x", v)
			}
		}
	case *ast.BinaryExpr:
		a := byteExpr(x.X, char)
		if lit, ok := unparen(x.Y).(*ast.BasicLit); ok && lit.Kind == token.INT {
			if v, err := strconv.ParseUint(lit.Value, 0, 8); err == nil {
				switch x.Op {
				case token.SHR:
					return fmt.Sprintf("%s >>> %d", a, v)
				case token.AND:
					return fmt.Sprintf("%s &&& 0x%x", a, v)
				}
			}
		}
	}
	failAt(e, "quoteJSON: unrecognised byte expression %s", src(e))
	return ""
}

func genQuoteJSON(fd *ast.FuncDecl) string {
	ps := fd.Type.Params.List
	if len(ps) != 1 || len(ps[0].Names) != 1 || src(ps[0].Type) != "string" {
		failAt(fd, "quoteJSON: expected one string parameter")
	}
	str := ps[0].Names[0].Name
	tables := map[string]string{} // constant strings indexed by a byte expression
	result := ""
	var pre, post []string // characters written before / behind the loop
	var loop *ast.ForStmt
	returned := false
	for _, st := range fd.Body.List {
		if returned {
			failAt(st, "quoteJSON: statement behind the return")
		}
		switch st := st.(type) {
		case *ast.DeclStmt:
			gd := st.Decl.(*ast.GenDecl)
			if len(gd.Specs) != 1 {
				failAt(st, "quoteJSON: unrecognised declaration")
			}
			vs, ok := gd.Specs[0].(*ast.ValueSpec)
			if !ok || len(vs.Names) != 1 {
				failAt(st, "quoteJSON: unrecognised declaration")
			}
			switch {
			case gd.Tok == token.CONST && len(vs.Values) == 1:
				s, ok := stringLit(vs.Values[0])
				if !ok {
					failAt(st, "quoteJSON: unrecognised constant")
				}
				tables[vs.Names[0].Name] = s
			case gd.Tok == token.VAR && len(vs.Values) == 0 && vs.Type != nil && src(vs.Type) == "strings.Builder" && result == "":
				result = vs.Names[0].Name
			default:
				failAt(st, "quoteJSON: unrecognised declaration")
			}
		case *ast.ExprStmt:
			x, mm, args, ok := methodCall(st.X)
			r, isChar := rune(0), false
			if ok && len(args) == 1 {
				r, isChar = charLit(args[0])
			}
			if ok && x == result && result != "" && mm == "Grow" && len(args) == 1 && pureSizeExpr(args[0]) {
				continue // a capacity hint: capacity is not modelled
			}
			if !ok || x != result || result == "" || mm != "WriteByte" || !isChar {
				failAt(st, "quoteJSON: unrecognised statement %s", src(st))
			}
			if loop == nil {
				pre = append(pre, leanChar(r))
			} else {
				post = append(post, leanChar(r))
			}
		case *ast.ForStmt:
			if loop != nil {
				failAt(st, "quoteJSON: second loop")
			}
			loop = st
		case *ast.ReturnStmt:
			if len(st.Results) != 1 || src(st.Results[0]) != result+".String()" || loop == nil {
				failAt(st, "quoteJSON: unrecognised return")
			}
			returned = true
		default:
			failAt(st, "quoteJSON: unrecognised statement %s", src(st))
		}
	}
	if loop == nil || !returned {
		failAt(fd, "quoteJSON: missing loop or return")
	}
	// for i := 0; i < len(str); i++ { char := str[i]; switch { … } }
	idx := ""
	if as, ok := loop.Init.(*ast.AssignStmt); ok && as.Tok == token.DEFINE && len(as.Lhs) == 1 && src(as.Rhs[0]) == "0" {
		idx = src(as.Lhs[0])
	}
	if idx == "" || loop.Cond == nil || loop.Post == nil || src(loop.Cond) != idx+" < len("+str+")" || src(loop.Post) != idx+"++" || len(loop.Body.List) < 2 {
		failAt(loop, "quoteJSON: unrecognised loop")
	}
	as, ok := loop.Body.List[0].(*ast.AssignStmt)
	if !ok || as.Tok != token.DEFINE || len(as.Lhs) != 1 || src(as.Rhs[0]) != str+"["+idx+"]" {
		failAt(loop.Body.List[0], "quoteJSON: expected `char := %s[%s]`", str, idx)
	}
	char := src(as.Lhs[0])
	if char == result || char == idx || char == str || tables[char] != "" {
		failAt(as, "quoteJSON: %s shadows a variable of the function", char)
	}
	// the output of one write: character expressions appended to what the iteration has written so far
	write := func(st ast.Stmt, elems []string) []string {
		es, ok := st.(*ast.ExprStmt)
		if !ok {
			failAt(st, "quoteJSON: unrecognised statement %s", src(st))
		}
		x, mm, args, ok := methodCall(es.X)
		if !ok || x != result || len(args) != 1 {
			failAt(st, "quoteJSON: unrecognised statement %s", src(st))
		}
		arg := unparen(args[0])
		switch mm {
		case "WriteString":
			s, ok := stringLit(arg)
			if !ok {
				failAt(st, "quoteJSON: unrecognised statement %s", src(st))
			}
			for _, r := range s {
				elems = append(elems, leanChar(r))
			}
		case "WriteByte":
			if isIdent(arg, char) {
				elems = append(elems, "c")
			} else if r, ok := charLit(arg); ok {
				elems = append(elems, leanChar(r))
			} else if ix, ok := arg.(*ast.IndexExpr); ok {
				t, isT := ix.X.(*ast.Ident)
				if !isT || tables[t.Name] == "" {
					failAt(st, "quoteJSON: unrecognised statement %s", src(st))
				}
				elems = append(elems, fmt.Sprintf("%s.getD (%s) '\\x00'", leanCharList(tables[t.Name]), byteExpr(ix.Index, char)))
			} else {
				failAt(st, "quoteJSON: unrecognised statement %s", src(st))
			}
		default:
			failAt(st, "quoteJSON: unrecognised statement %s", src(st))
		}
		return elems
	}
	// a test of the loop byte: its Lean text (over the character `c`) and its outcome for a byte ≥ 0x80 — a
	// comparison with an ASCII constant has the same outcome for every byte of a multi-byte character, and that
	// outcome is also the outcome of the Lean text for the character itself (whose code is ≥ 0x80)
	type qcond struct {
		lean string
		high bool
		atom bool
	}
	wrapq := func(c qcond) string {
		if c.atom {
			return c.lean
		}
		return "(" + c.lean + ")"
	}
	anyHigh := false // some test holds for a byte ≥ 0x80
	var test func(e ast.Expr) qcond
	test = func(e ast.Expr) (res qcond) {
		defer func() { anyHigh = anyHigh || res.high }()
		e = unparen(e)
		switch x := e.(type) {
		case *ast.UnaryExpr:
			if x.Op == token.NOT {
				c := test(x.X)
				return qcond{lean: "!" + wrapq(c), high: !c.high}
			}
		case *ast.BinaryExpr:
			switch x.Op {
			case token.LAND:
				a, b := test(x.X), test(x.Y)
				return qcond{lean: wrapq(a) + " && " + wrapq(b), high: a.high && b.high}
			case token.LOR:
				a, b := test(x.X), test(x.Y)
				return qcond{lean: wrapq(a) + " || " + wrapq(b), high: a.high || b.high}
			}
			op, cx, k := x.Op, x.X, x.Y
			if !isIdent(unparen(cx), char) {
				// constant on the left: mirror the comparison
				cx, k = x.Y, x.X
				switch op {
				case token.LSS:
					op = token.GTR
				case token.LEQ:
					op = token.GEQ
				case token.GTR:
					op = token.LSS
				case token.GEQ:
					op = token.LEQ
				}
			}
			if !isIdent(unparen(cx), char) {
				break
			}
			if r, ok := charLit(k); ok && r < 0x80 {
				switch op {
				case token.EQL:
					return qcond{lean: "c == " + leanChar(r), high: false, atom: true}
				case token.NEQ:
					return qcond{lean: "c != " + leanChar(r), high: true, atom: true}
				}
			}
			if lit, ok := unparen(k).(*ast.BasicLit); ok && lit.Kind == token.INT {
				v, err := strconv.ParseUint(lit.Value, 0, 8)
				if err != nil {
					break
				}
				switch {
				case op == token.LSS && v <= 0x80:
					return qcond{lean: fmt.Sprintf("c.toNat < 0x%x", v), high: false, atom: true}
				case op == token.LEQ && v < 0x80:
					return qcond{lean: fmt.Sprintf("c.toNat ≤ 0x%x", v), high: false, atom: true}
				case op == token.GEQ && v <= 0x80:
					return qcond{lean: fmt.Sprintf("c.toNat ≥ 0x%x", v), high: true, atom: true}
				case op == token.GTR && v < 0x80:
					return qcond{lean: fmt.Sprintf("c.toNat > 0x%x", v), high: true, atom: true}
				}
			}
		}
		failAt(e, "quoteJSON: unrecognised test of the loop byte %s", src(e))
		return qcond{}
	}
	// the body of the loop behind `char := str[i]`: a decision tree over the byte whose leaves are what one
	// iteration writes; `high` is the leaf a byte ≥ 0x80 arrives at
	type qkont func(elems []string) (lnode, string)
	leaf := func(elems []string) (lnode, string) {
		l := "[" + strings.Join(elems, ", ") + "]"
		return lLeaf{l}, l
	}
	var exec func(list []ast.Stmt, elems []string, k qkont) (lnode, string)
	chain := func(conds []qcond, bodies [][]ast.Stmt, deflt []ast.Stmt, hasDeflt bool, elems []string, k qkont) (lnode, string) {
		var tree lnode
		var high string
		if hasDeflt {
			tree, high = exec(deflt, elems, k)
		} else {
			tree, high = k(elems)
		}
		for i := len(conds) - 1; i >= 0; i-- {
			a, ha := exec(bodies[i], elems, k)
			tree = lIf{cond: conds[i].lean, a: a, b: tree}
			if conds[i].high {
				high = ha
			}
		}
		return tree, high
	}
	exec = func(list []ast.Stmt, elems []string, k qkont) (lnode, string) {
		if len(list) == 0 {
			return k(elems)
		}
		elems = append([]string(nil), elems...)
		rest := func(e []string) (lnode, string) { return exec(list[1:], e, k) }
		switch st := list[0].(type) {
		case *ast.ExprStmt:
			return rest(write(st, elems))
		case *ast.BlockStmt:
			return exec(st.List, elems, rest)
		case *ast.BranchStmt:
			// `continue`: the iteration is over (the post statement is `i++`)
			if st.Tok == token.CONTINUE && st.Label == nil {
				return leaf(elems)
			}
		case *ast.IfStmt:
			if st.Init != nil {
				failAt(st, "quoteJSON: if with an init statement")
			}
			var els []ast.Stmt
			switch e := st.Else.(type) {
			case nil:
			case *ast.BlockStmt:
				els = e.List
			default:
				els = []ast.Stmt{e}
			}
			return chain([]qcond{test(st.Cond)}, [][]ast.Stmt{st.Body.List}, els, st.Else != nil, elems, rest)
		case *ast.SwitchStmt:
			if st.Init != nil || (st.Tag != nil && !isIdent(unparen(st.Tag), char)) {
				failAt(st, "quoteJSON: expected a tagless switch or a switch over %s", char)
			}
			var conds []qcond
			var bodies [][]ast.Stmt
			var deflt *ast.CaseClause
			for _, cc := range st.Body.List {
				c := cc.(*ast.CaseClause)
				if breaksOut(c.Body) {
					failAt(c, "quoteJSON: break / fallthrough in a switch")
				}
				if c.List == nil {
					if deflt != nil {
						failAt(c, "quoteJSON: two default cases")
					}
					deflt = c
					continue
				}
				var cond qcond
				for i, x := range c.List {
					var t qcond
					if st.Tag == nil {
						t = test(x)
					} else {
						// `switch char { case 'x': }` compares char == 'x'
						r, ok := charLit(x)
						if !ok || r >= 0x80 {
							failAt(x, "quoteJSON: unrecognised case %s", src(x))
						}
						t = qcond{lean: "c == " + leanChar(r), high: false, atom: true}
					}
					if i == 0 {
						cond = t
					} else {
						cond = qcond{lean: wrapq(cond) + " || " + wrapq(t), high: cond.high || t.high, atom: true}
					}
				}
				if len(c.List) > 1 {
					cond.atom = false
				}
				conds = append(conds, cond)
				bodies = append(bodies, c.Body)
			}
			if deflt != nil {
				return chain(conds, bodies, deflt.Body, true, elems, rest)
			}
			return chain(conds, bodies, nil, false, elems, rest)
		}
		failAt(list[0], "quoteJSON: unrecognised statement %s", src(list[0]))
		return nil, ""
	}
	tree, high := exec(loop.Body.List[1:], nil, leaf)
	// a byte ≥ 0x80 must be copied: that (and the fact that every test has the same outcome for each byte of a
	// multi-byte character as for the character) is what makes the per-byte table a per-character table
	if high != "[c]" {
		failAt(loop, "quoteJSON: a byte ≥ 0x80 is not copied unchanged (it writes %s)", high)
	}
	sw, isSwitch := loop.Body.List[1].(*ast.SwitchStmt)
	taglessOnly := isSwitch && len(loop.Body.List) == 2 && sw.Tag == nil && !anyHigh
	var b strings.Builder
	if taglessOnly {
		fmt.Fprintf(&b, "/-- the escape table of `quoteJSON` (%s): the tagless switch of its byte loop, for a byte\n< 0x80 read as a character; every test is false for a byte ≥ 0x80 and the default case copies\nthe byte, so a multi-byte character is copied unchanged -/\n", where(fd))
	} else {
		fmt.Fprintf(&b, "/-- the escape table of `quoteJSON` (%s): the body of its byte loop, for a byte < 0x80 read as a\ncharacter; every test has the same outcome for each byte ≥ 0x80 as for the character they encode, and\non that path the byte is copied, so a multi-byte character is copied unchanged -/\n", where(fd))
	}
	b.WriteString("def escCharGen (c : Char) : Str :=\n  ")
	emit(&b, tree, "  ")
	b.WriteString("\n\n/-- `quoteJSON`: what is written before the loop, the table applied to every character, what is\nwritten behind the loop -/\n")
	fmt.Fprintf(&b, "def quoteJSONGen (s : Str) : Str :=\n  [%s] ++ s.flatMap escCharGen ++ [%s]\n", strings.Join(pre, ", "), strings.Join(post, ", "))
	return b.String()
}
