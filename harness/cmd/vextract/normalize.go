// normalize.go — second source-to-source pre-pass of vextract: a few statement forms are rewritten into the
// equivalent form the pinned source uses, so that a purely syntactic restructuring of a function does not make a
// translator refuse.  Each rule is a standard Go equivalence; a function whose pinned version itself uses the form on
// the left (table `baselineForms`) keeps it, because its translator reads that form.
//
//	N1  `if init; c {A} else {B}`            =>  `init; if c {A} else {B}`          (not for `else if`, see below)
//	    The names `init` declares are renamed to fresh names if they occur anywhere else in the function (the scope
//	    of an init statement ends with the `if`).  `else if init; c {…}` => `else { init; if c {…} }`.
//	N2  `switch { case c1: A  case c2, c3: B  default: C }`  =>  `if c1 {A} else if c2 || c3 {B} else {C}`
//	    (no init, no `fallthrough`, no `break` that would leave the switch).
//	N3  in a loop body: `if c { continue }; rest`  =>  `if !c { rest }`   (`!c` is written `x` for `!x`, `a != b` for
//	    `a == b` and vice versa, `!(c)` otherwise — no relational operator is flipped: floats);  a `continue` that is
//	    the last statement of a loop body is dropped.
//	N4  `strings.IndexByte(s, 'c')`  =>  `strings.Index(s, "c")` for an ASCII character literal.
//	N5  a `continue` in TAIL position of a loop body is dropped: the last statement of the loop body is in tail
//	    position; if a statement in tail position is a block, an `if` (with or without `else`), a `switch` or a type
//	    switch, the last statement of each of its branches / clauses is in tail position too (a Go clause does not fall
//	    through, so behind it control reaches the end of the loop body, which is what `continue` does; in a `for`
//	    loop the post statement runs in both cases).  Not inside nested loops, `select` or function literals; an
//	    `if c { continue }` without `else` is left to N3.
//	N6  a package-level `const name = <basic literal>` (string, character or number; no iota, no type) that the pinned
//	    source does not declare (table `baselineGlobals`) is replaced by its value wherever the name is used and the
//	    function does not declare the name itself: constants are values.
//	N7  `panic(s1 + e + s2 …)`, a concatenation with at least one string literal, is `panic(fmt.Sprintf("s1%ss2…", e, …))`:
//	    every operand of a string concatenation is a string, for which `%s` is the identity (a `%` inside a literal is
//	    written `%%`).  The panic value is the same string.
package main

import (
	"go/ast"
	"go/token"
	"reflect"
	"strconv"
	"strings"
)

type normalizer struct {
	forms string // the forms the pinned version of the current function uses
	fn    *ast.FuncDecl
	log   []string
}

func (nz *normalizer) keeps(form byte) bool {
	for i := 0; i < len(nz.forms); i++ {
		if nz.forms[i] == form {
			return true
		}
	}
	return false
}

// namesDeclaredBy lists the identifiers a simple statement declares.
func namesDeclaredBy(st ast.Stmt) []string {
	var out []string
	if a, ok := st.(*ast.AssignStmt); ok && a.Tok == token.DEFINE {
		for _, l := range a.Lhs {
			if id, ok := l.(*ast.Ident); ok && id.Name != "_" {
				out = append(out, id.Name)
			}
		}
	}
	return out
}

// occurrences of an identifier name in a node (expression positions and declarations)
func identOccurs(n ast.Node, name string) int {
	c := 0
	ast.Inspect(n, func(m ast.Node) bool {
		switch x := m.(type) {
		case *ast.SelectorExpr:
			c += identOccurs(x.X, name)
			return false
		case *ast.KeyValueExpr:
			if _, ok := x.Key.(*ast.Ident); ok {
				c += identOccurs(x.Value, name)
				return false
			}
		case *ast.Ident:
			if x.Name == name {
				c++
			}
		}
		return true
	})
	return c
}

// hoistInit implements N1 for one `if`; it returns the statements that replace it.
func (nz *normalizer) hoistInit(s *ast.IfStmt) []ast.Stmt {
	init := s.Init
	for _, name := range namesDeclaredBy(init) {
		if identOccurs(nz.fn, name) != identOccurs(s, name) {
			// the name lives elsewhere in the function too: rename it inside this statement
			fresh := freshInl(name)
			holder := []ast.Stmt{s}
			renameIdent(holder, name, fresh)
		}
	}
	s.Init = nil
	nz.log = append(nz.log, "N1 "+nz.fn.Name.Name)
	return []ast.Stmt{init, s}
}

func negate(c ast.Expr) ast.Expr {
	switch x := c.(type) {
	case *ast.ParenExpr:
		return negate(x.X)
	case *ast.UnaryExpr:
		if x.Op == token.NOT {
			if p, ok := x.X.(*ast.ParenExpr); ok {
				return p.X
			}
			return x.X
		}
	case *ast.BinaryExpr:
		switch x.Op {
		case token.EQL:
			return &ast.BinaryExpr{X: x.X, Op: token.NEQ, Y: x.Y}
		case token.NEQ:
			return &ast.BinaryExpr{X: x.X, Op: token.EQL, Y: x.Y}
		}
		return &ast.UnaryExpr{Op: token.NOT, X: &ast.ParenExpr{X: c}}
	case *ast.Ident, *ast.CallExpr, *ast.SelectorExpr:
		return &ast.UnaryExpr{Op: token.NOT, X: c}
	}
	return &ast.UnaryExpr{Op: token.NOT, X: &ast.ParenExpr{X: c}}
}

func isBareContinue(list []ast.Stmt) bool {
	if len(list) != 1 {
		return false
	}
	b, ok := list[0].(*ast.BranchStmt)
	return ok && b.Tok == token.CONTINUE && b.Label == nil
}

// breaksOut reports whether a statement list contains a `break` (unlabeled, not inside a nested loop/switch/select) or a fallthrough.
func breaksOut(list []ast.Stmt) bool {
	found := false
	var walk func(n ast.Node) bool
	walk = func(n ast.Node) bool {
		switch x := n.(type) {
		case *ast.ForStmt, *ast.RangeStmt, *ast.SwitchStmt, *ast.TypeSwitchStmt, *ast.SelectStmt, *ast.FuncLit:
			return false
		case *ast.BranchStmt:
			if x.Tok == token.BREAK || x.Tok == token.FALLTHROUGH {
				found = true
			}
		}
		return true
	}
	for _, s := range list {
		ast.Inspect(s, walk)
	}
	return found
}

// switchToIf implements N2.
func (nz *normalizer) switchToIf(s *ast.SwitchStmt) ast.Stmt {
	if s.Tag != nil || s.Init != nil || len(s.Body.List) == 0 {
		return nil
	}
	var cases []*ast.CaseClause
	var def *ast.CaseClause
	for _, c := range s.Body.List {
		cc := c.(*ast.CaseClause)
		if breaksOut(cc.Body) {
			return nil
		}
		if cc.List == nil {
			def = cc
		} else {
			cases = append(cases, cc)
		}
	}
	if len(cases) == 0 {
		return nil
	}
	var first, cur *ast.IfStmt
	for _, cc := range cases {
		cond := cc.List[0]
		for _, e := range cc.List[1:] {
			cond = &ast.BinaryExpr{X: cond, Op: token.LOR, Y: e}
		}
		n := &ast.IfStmt{If: cc.Pos(), Cond: cond, Body: &ast.BlockStmt{Lbrace: cc.Pos(), List: cc.Body}}
		if first == nil {
			first = n
		} else {
			cur.Else = n
		}
		cur = n
	}
	if def != nil && len(def.Body) > 0 {
		cur.Else = &ast.BlockStmt{Lbrace: def.Pos(), List: def.Body}
	}
	nz.log = append(nz.log, "N2 "+nz.fn.Name.Name)
	return first
}

// dropTailContinue implements N5 for a statement list whose last statement is in tail position of a loop body.
func (nz *normalizer) dropTailContinue(list []ast.Stmt) []ast.Stmt {
	if len(list) == 0 {
		return list
	}
	switch s := list[len(list)-1].(type) {
	case *ast.BranchStmt:
		if s.Tok == token.CONTINUE && s.Label == nil {
			nz.log = append(nz.log, "N5 "+nz.fn.Name.Name)
			return list[:len(list)-1]
		}
	case *ast.BlockStmt:
		s.List = nz.dropTailContinue(s.List)
	case *ast.IfStmt:
		for cur := s; cur != nil; {
			if !(cur.Else == nil && isBareContinue(cur.Body.List)) {
				cur.Body.List = nz.dropTailContinue(cur.Body.List)
			}
			switch e := cur.Else.(type) {
			case *ast.BlockStmt:
				e.List = nz.dropTailContinue(e.List)
				cur = nil
			case *ast.IfStmt:
				cur = e
			default:
				cur = nil
			}
		}
	case *ast.SwitchStmt:
		for _, c := range s.Body.List {
			cc := c.(*ast.CaseClause)
			cc.Body = nz.dropTailContinue(cc.Body)
		}
	case *ast.TypeSwitchStmt:
		for _, c := range s.Body.List {
			cc := c.(*ast.CaseClause)
			cc.Body = nz.dropTailContinue(cc.Body)
		}
	}
	return list
}

// list rewrites a statement list; inLoop says whether the list is the body of a loop.
func (nz *normalizer) list(list []ast.Stmt, loopBody bool) []ast.Stmt {
	var out []ast.Stmt
	if loopBody && !nz.keeps('c') && len(list) > 0 {
		if _, bare := list[len(list)-1].(*ast.BranchStmt); !bare {
			list = nz.dropTailContinue(list) // N5 (a bare `continue` at the end is N3's)
		}
	}
	for i := 0; i < len(list); i++ {
		st := list[i]
		// N2 first (its result is an if statement that N1/N3 may look at)
		if sw, ok := st.(*ast.SwitchStmt); ok && !nz.keeps('s') {
			if r := nz.switchToIf(sw); r != nil {
				st = r
			}
		}
		if s, ok := st.(*ast.IfStmt); ok {
			nz.elseChain(s)
			if s.Init != nil && !nz.keeps('i') {
				hs := nz.hoistInit(s)
				out = append(out, hs[0])
				st = hs[1]
			}
		}
		// N3
		if s, ok := st.(*ast.IfStmt); ok && loopBody && !nz.keeps('c') && s.Init == nil && s.Else == nil && isBareContinue(s.Body.List) {
			rest := nz.list(list[i+1:], true)
			nz.log = append(nz.log, "N3 "+nz.fn.Name.Name)
			if len(rest) > 0 {
				out = append(out, &ast.IfStmt{If: s.If, Cond: negate(s.Cond), Body: &ast.BlockStmt{Lbrace: s.Body.Lbrace, List: rest}})
			}
			return out
		}
		if b, ok := st.(*ast.BranchStmt); ok && loopBody && !nz.keeps('c') && b.Tok == token.CONTINUE && b.Label == nil && i == len(list)-1 {
			nz.log = append(nz.log, "N3 "+nz.fn.Name.Name)
			continue
		}
		nz.nested(st)
		out = append(out, st)
	}
	return out
}

// elseChain applies N1 to the `else if` links of an if statement.
func (nz *normalizer) elseChain(s *ast.IfStmt) {
	if e, ok := s.Else.(*ast.IfStmt); ok {
		nz.elseChain(e)
		if e.Init != nil && !nz.keeps('i') {
			hs := nz.hoistInit(e)
			s.Else = &ast.BlockStmt{Lbrace: e.Pos(), List: hs}
		}
	}
}

func (nz *normalizer) nested(st ast.Stmt) {
	switch s := st.(type) {
	case *ast.BlockStmt:
		s.List = nz.list(s.List, false)
	case *ast.IfStmt:
		s.Body.List = nz.list(s.Body.List, false)
		if s.Else != nil {
			nz.nested(s.Else)
		}
	case *ast.ForStmt:
		s.Body.List = nz.list(s.Body.List, true)
	case *ast.RangeStmt:
		s.Body.List = nz.list(s.Body.List, true)
	case *ast.SwitchStmt:
		for _, c := range s.Body.List {
			cc := c.(*ast.CaseClause)
			cc.Body = nz.list(cc.Body, false)
		}
	case *ast.TypeSwitchStmt:
		for _, c := range s.Body.List {
			cc := c.(*ast.CaseClause)
			cc.Body = nz.list(cc.Body, false)
		}
	case *ast.SelectStmt:
		for _, c := range s.Body.List {
			cc := c.(*ast.CommClause)
			cc.Body = nz.list(cc.Body, false)
		}
	}
	ast.Inspect(st, func(n ast.Node) bool {
		if fl, ok := n.(*ast.FuncLit); ok {
			fl.Body.List = nz.list(fl.Body.List, false)
			return false
		}
		return true
	})
}

// normalizeForms is the pre-pass.
func normalizeForms(files []*ast.File) []string {
	var log []string
	// N6: new literal constants
	consts := map[string]*ast.BasicLit{}
	for _, f := range files {
		for _, d := range f.Decls {
			gd, ok := d.(*ast.GenDecl)
			if !ok || gd.Tok != token.CONST {
				continue
			}
			for _, sp := range gd.Specs {
				vs := sp.(*ast.ValueSpec)
				if vs.Type != nil || len(vs.Names) != len(vs.Values) {
					continue
				}
				for i, nm := range vs.Names {
					if lit, ok := vs.Values[i].(*ast.BasicLit); ok && !baselineGlobals[nm.Name] && nm.Name != "_" {
						consts[nm.Name] = lit
					}
				}
			}
		}
	}
	if len(consts) > 0 {
		for _, f := range files {
			for _, d := range f.Decls {
				fd, ok := d.(*ast.FuncDecl)
				if !ok || fd.Body == nil {
					continue
				}
				own := map[string]bool{}
				for _, n := range declaredLocals(fd.Body.List) {
					own[n] = true
				}
				for _, p := range fd.Type.Params.List {
					for _, n := range p.Names {
						own[n.Name] = true
					}
				}
				mapExprs(reflect.ValueOf(fd.Body), func(e ast.Expr) ast.Expr {
					if id, ok := e.(*ast.Ident); ok && !own[id.Name] {
						if lit, ok := consts[id.Name]; ok {
							log = append(log, "N6 "+fd.Name.Name+": "+id.Name)
							return &ast.BasicLit{ValuePos: id.Pos(), Kind: lit.Kind, Value: lit.Value}
						}
					}
					return e
				})
			}
		}
	}
	for _, f := range files {
		for _, d := range f.Decls {
			fd, ok := d.(*ast.FuncDecl)
			if !ok || fd.Body == nil {
				continue
			}
			nz := &normalizer{forms: baselineForms[funcKey(fd)], fn: fd}
			fd.Body.List = nz.list(fd.Body.List, false)
			// N4
			mapExprs(reflect.ValueOf(fd.Body), func(e ast.Expr) ast.Expr {
				c, ok := e.(*ast.CallExpr)
				if !ok || len(c.Args) != 2 {
					return e
				}
				if x, sel, ok := selOf(c.Fun); ok && x == "strings" && sel == "IndexByte" {
					if lit, ok := c.Args[1].(*ast.BasicLit); ok && lit.Kind == token.CHAR {
						if r, _, _, err := strconv.UnquoteChar(lit.Value[1:len(lit.Value)-1], '\''); err == nil && r < 0x80 {
							nz.log = append(nz.log, "N4 "+fd.Name.Name)
							return &ast.CallExpr{Fun: &ast.SelectorExpr{X: ast.NewIdent("strings"), Sel: ast.NewIdent("Index")},
								Args: []ast.Expr{c.Args[0], &ast.BasicLit{Kind: token.STRING, Value: strconv.Quote(string(r))}}}
						}
					}
				}
				return e
			})
			// N7
			ast.Inspect(fd.Body, func(n ast.Node) bool {
				call, ok := n.(*ast.CallExpr)
				if !ok || !isIdent(call.Fun, "panic") || len(call.Args) != 1 {
					return true
				}
				var parts []ast.Expr
				var flat func(e ast.Expr) bool
				flat = func(e ast.Expr) bool {
					e = unparen(e)
					if b, ok := e.(*ast.BinaryExpr); ok {
						if b.Op != token.ADD {
							return false
						}
						return flat(b.X) && flat(b.Y)
					}
					parts = append(parts, e)
					return true
				}
				if _, isBin := unparen(call.Args[0]).(*ast.BinaryExpr); !isBin || !flat(call.Args[0]) {
					return true
				}
				format, nlit := "", 0
				var args []ast.Expr
				for _, p := range parts {
					if lit, ok := stringLit(p); ok {
						format += strings.ReplaceAll(lit, "%", "%%")
						nlit++
					} else {
						format += "%s"
						args = append(args, p)
					}
				}
				if nlit == 0 {
					return true
				}
				nargs := append([]ast.Expr{&ast.BasicLit{Kind: token.STRING, Value: strconv.Quote(format)}}, args...)
				call.Args = []ast.Expr{&ast.CallExpr{Fun: &ast.SelectorExpr{X: ast.NewIdent("fmt"), Sel: ast.NewIdent("Sprintf")}, Args: nargs}}
				nz.log = append(nz.log, "N7 "+fd.Name.Name)
				return false
			})
			log = append(log, nz.log...)
		}
	}
	return log
}
