// ObjectGen.lean: translation of object_impl.go (and parseVal / native of anytype.go) into Lean
// definitions written in the vocabulary of Model/Heap.lean, Model/Normalize.lean, Model/ListOps.lean
// and Model/ObjectOps.lean.  Lemmas/ObjectGenEq.lean proves every generated definition equal to the
// hand-written model function.
//
// The translator is a symbolic executor (continuation passing) over the statements of a Go function
// body.  It carries the Lean expression of the current heap, of every local variable and of the
// invocation log, and emits a Lean term; everything it does not recognise makes it fail with the
// source position.
//
// RESTRUCTURING RULES (trusted base; the same conventions as the header comments of the model)
//
//	R1  heap.  A method of *object / *list with receiver `ego` becomes a function of the heap `h`
//	    and the address `a` of the receiver's cell.  `ego.val` is `h.fields a` (object; a Go map is
//	    an association list) or `h.items a` (list; a Go slice is a `List Val`, capacity is not
//	    modelled).  `ego.val[k] = v` is `h.setFields a (setKV (h.fields a) k v)`, `delete(ego.val, k)`
//	    is `h.setFields a (delKV (h.fields a) k)`, `ego.val = map[string]field{}` is `h.setFields a []`,
//	    `ego.val = append(ego.val, v)` is `h.setItems a (h.items a ++ [v])` (arguments evaluated first),
//	    `x, ok := ego.val[k]` / a type switch over `ego.val[k]` is a `match` on `lookup (h.fields a) k`,
//	    `len(ego.val)` is `((h.fields a).length : Int)`.  A type switch over the local `x` of
//	    `x, ok := ego.val[k]`, where the key exists, is a `match` on that stored `Val` with the same
//	    patterns (where the key does not exist `x` is undefined and the switch is not translated).
//	R2  identity.  `ego.Ego()` is `h.egoRef a`; the pointer `ego` itself is `⟨a, 0⟩`.  Calls through
//	    `ego.Ego()` or through an `Object` value dispatch to the library's own method of the cell
//	    (overriding by an embedding type is not modelled); an `Object` parameter is the address of
//	    its cell.
//	R3  allocation.  `x := &object{val: map[string]field{}}` / `&list{val: []field{}}` appends the cell
//	    `.obj [] 0` / `.list [] 0` to the heap, `x` is the old heap length; the cell may only be used
//	    after `x.Init(x)` whose body must be `ego.ptr = ptr` (registers embedding level 0).
//	R4  effects.  A function that may panic or change the heap returns `Heap × Out T` (panic: the heap
//	    at the panic point), one that may only panic `Out T`, a pure one `T`; the result type of each
//	    translated function is fixed by the table `objSpecs` (it is the type of the model function).
//	    A panic message is mapped to `PanicKind` by the prefix table `objPanics`.
//	R5  loops.  `for k, v := range ego.val` is a recursive helper function over the association list
//	    (one iteration order), `for _, k := range keys` over the `List Str`.  The helper threads the
//	    heap when the body changes it (result `Heap`, or `Heap × Out Unit` when the body may panic),
//	    or one accumulator (the log, a local Go map); a loop whose body returns becomes a helper whose
//	    base case is the code behind the loop; `continue` is the recursive call.  A range over a Go
//	    map evaluates `ego.val` once.  The helper's parameters are the variables its body mentions.
//	R6  variadic pairs.  `values ...any` of `Set` / `NewObject` is `(pairs : O.Pairs) (odd : Bool)`:
//	    `len(values)&1 == 1` is `odd`, the loop `for i := 0; i < len(values); i += 2` is recursion over
//	    `pairs`, `values[i].(string)` is the `Option Str` of the pair, `values[i+1]` its `GoVal`.
//	    `keys ...string` is a `List Str`.  A call with a statically known argument list (`x.Set(k, v)`,
//	    `NewObject()`, `xs.Add(v)`) is inlined: the callee's body is executed with the loops unrolled.
//	R7  callbacks.  A `func(..)` parameter without result is modelled by the log of its invocations
//	    (the method's result is the log; its `return ego.Ego()` is checked and dropped); one with a
//	    result is a Lean function into `GoVal`.  A function literal passed to a method is inlined.
//	R8  values.  `item.getVal()` is `h.getVal item`.  `x.(T)` on `item.getVal()` / on the stored `item`
//	    is `L.sel h true K item` / `L.sel h false K item`, on any other value the test `x.kind == K`
//	    (Object ↦ .object, List ↦ .list, string ↦ .string, bool ↦ .bool, int ↦ .int, float64 ↦ .float).
//	    `==` on two `any` values is `L.goEq`.  The dynamic types of stored fields are disjoint.
//	R9  normalised values.  `parseVal(x)` of a `GoVal` is the model's `parseVal h x` (new heap, may
//	    panic).  For a value that is already normalised — the result of `getVal()` / `Get`, which on
//	    a 64-bit platform is in range — `parseVal` is the identity and changes nothing; for a Go
//	    `string` the `case string` clause of parseVal's own type switch is executed.
//	R10 fresh Go map.  `m[k] = v` on a local map created by `make`, with `k` the key of the enclosing
//	    range over a Go map, appends `(k, v)` (the keys of a Go map are distinct); otherwise `setKV`.
//	R11 parseVal.  The type switch over `any` is a `match` over `GoVal`: Object ↦ `.obj v`, List ↦
//	    `.list v`, map[string]T ↦ `.map .T _`, []T ↦ `.slice .T _`, the ten integer types ↦
//	    `.intw .W v`, float64 ↦ `.f64 v`, float32 ↦ `.f32 v`, string / bool / nil, default ↦ `_`.
//	    `int(v)` (and `v` of type int) is `wrap64 v`, `float64(v)` of a float32 is `f32to64 v`,
//	    `newString/newBool/newInt/newFloat/newNil` are the constructors of `Val`.  CALLS of `NewObjectFrom` /
//	    `NewListFrom` / `Clone` are not expanded: they go to the model's `O.newFrom` / `L.newFrom` /
//	    `O.clone` (`none` when the model's clone is undefined, i.e. on a cyclic heap); `NewObjectFrom` itself
//	    is translated (R15) and proved equal to `O.newFrom`, `NewListFrom` in listgen2.go.
//	R12 native.  `native` runs on the pure tree the value denotes (`JVal`, as `toNative` does):
//	    Object ↦ `.obj kvs`, List ↦ `.list xs`; `v.ForEach(f)` / `v.ForEachValue(f)` with a function
//	    literal is recursion over `kvs` / `xs`; filling the fresh map / slice is consing in iteration
//	    order (R10); the default case maps a scalar to the scalar of `NVal`.
//	R13 scopes.  Go locals become Lean binders with unique names; a declaration that shadows a variable of
//	    an enclosing block is rejected; a variable bound by a failed `x, ok := …` is undefined.
//	    `a, b := e1, e2` evaluates e1, e2 in order and then binds both.
//	R14 equivalent spellings (each is translated to the Lean of the spelling it is equivalent to).
//	    (a) `len(values)%2` is `len(values)&1` (a length is not negative), and a parity is 0 or 1, so
//	        `p != 0` is `p == 1` and `p == 0` is `p != 1`.
//	    (b) `[]field{}` has length and capacity 0 — every append copies, so it is a value: it may be held by a
//	        local and `&list{val: x}` of such a local is `&list{val: []field{}}`.  A `map[string]field{}` held by
//	        a local is a reference: it may become the container of ONE cell (`&object{val: m}` / `ego.val = m`),
//	        a second use is rejected.
//	    (c) `fields := ego.val` copies a reference to the map (a slice header): while the heap expression is
//	        still the one `fields` was read in, reading `fields` (range, len, lookup) is reading `ego.val`.
//	    (d) R12: `x, ok := value.(Object)` / `.(List)` on the pure tree is a `match` over all constructors of
//	        `JVal`; the rest of the function is executed once per constructor with `value` refined to it
//	        (an `.obj` is an Object, a `.list` a List, a scalar neither — the same reading as the type
//	        switch, so the same Lean), and an assertion on a refined value is decided statically.
//	    (e) the message of `panic(fmt.Sprintf(F, …))` is F with every plain `%s` whose argument is a string
//	        literal replaced by that literal (what Sprintf prints), before the prefix table is consulted.
//	R15 NewObjectFrom.
//	    (a) In a `case map[string]T:` clause of a type switch over a `GoVal` the bound variable also stands for
//	        the entries `kvs` of `.map .T kvs` (a Go map is an association list in one iteration order, keys
//	        distinct): `len(s)` is `(kvs.length : Int)`, `for key, value := range s` is recursion over `kvs`
//	        (R5) with `key : Str` and `value : GoVal`.
//	    (b) `var x Object` (`List`, `*object`, `*list`) declares a LATE variable: it is nil until assigned, reading
//	        it before is rejected, `x = e` is accepted once (e a freshly allocated cell of that kind).  A
//	        function literal shares the late variables of the block that defines it: when it is called
//	        where the variable is in scope it sees the current state, and what it assigns is visible to the
//	        caller afterwards; called anywhere else, the variable is unusable inside it.
//	    (c) `&object{val: make(map[string]field, n)}` with any integer expression n (evaluated, then dropped:
//	        the size hint of a map has no observable effect).
//	    (d) `x.val[k] = v` on a local `x` that holds an initialised object cell is the store of R1 on that cell.
package main

import (
	"fmt"
	"go/ast"
	"go/token"
	"regexp"
	"strings"
)

// ---------------------------------------------------------------------------------------------
// tables

type ospec struct {
	recv  string // "object" / "" for a plain function
	name  string // Go name
	gen   string // Lean name
	shape string // HO (Heap × Out T), O (Out T), P (T), HP (Heap × T), LOG, OPT (Option (Heap × T))
	rtype string // T
	anyAs string // how an `any` parameter is modelled: "val" (default) / "goval"
	// filled in by translation
	params []oparam
}

type oparam struct {
	goName string
	sort   string
	lean   string // Lean binder name(s), space separated
	typ    string // Lean type (of the first binder)
	arity  int
}

var objSpecs = []*ospec{
	{recv: "object", name: "Set", gen: "setGen", shape: "HO", rtype: "Ref"},
	{recv: "", name: "NewObject", gen: "newGen", shape: "HO", rtype: "Ref"},
	{recv: "object", name: "Unset", gen: "unsetGen", shape: "HO", rtype: "Ref"},
	{recv: "object", name: "Clear", gen: "clearGen", shape: "HO", rtype: "Ref"},
	{recv: "object", name: "Get", gen: "getGen", shape: "O", rtype: "Val"},
	{recv: "object", name: "GetObject", gen: "getObjectGen", shape: "O", rtype: "Val"},
	{recv: "object", name: "GetList", gen: "getListGen", shape: "O", rtype: "Val"},
	{recv: "object", name: "GetString", gen: "getStringGen", shape: "O", rtype: "Val"},
	{recv: "object", name: "GetBool", gen: "getBoolGen", shape: "O", rtype: "Val"},
	{recv: "object", name: "GetInt", gen: "getIntGen", shape: "O", rtype: "Val"},
	{recv: "object", name: "GetFloat", gen: "getFloatGen", shape: "O", rtype: "Val"},
	{recv: "object", name: "TypeOf", gen: "typeOfGen", shape: "P", rtype: "Kind"},
	{recv: "object", name: "KeyExists", gen: "keyExistsGen", shape: "P", rtype: "Bool"},
	{recv: "object", name: "Count", gen: "countGen", shape: "P", rtype: "Int"},
	{recv: "object", name: "Empty", gen: "emptyGen", shape: "P", rtype: "Bool"},
	{recv: "object", name: "Dict", gen: "dictGen", shape: "P", rtype: "List (Str × Val)"},
	{recv: "object", name: "Keys", gen: "keysGen", shape: "HP", rtype: "Ref"},
	{recv: "object", name: "Values", gen: "valuesGen", shape: "HP", rtype: "Ref"},
	{recv: "object", name: "Contains", gen: "containsGen", shape: "P", rtype: "Bool"},
	{recv: "object", name: "KeyOf", gen: "keyOfGen", shape: "O", rtype: "Str"},
	{recv: "object", name: "Pluck", gen: "pluckGen", shape: "HO", rtype: "Ref"},
	{recv: "object", name: "Merge", gen: "mergeGen", shape: "OPT", rtype: "Ref"},
	{recv: "object", name: "ForEach", gen: "forEachGen", shape: "LOG"},
	{recv: "object", name: "ForEachValue", gen: "forEachValueGen", shape: "LOG"},
	{recv: "object", name: "ForEachObject", gen: "forEachObjectGen", shape: "LOG"},
	{recv: "object", name: "ForEachList", gen: "forEachListGen", shape: "LOG"},
	{recv: "object", name: "ForEachString", gen: "forEachStringGen", shape: "LOG"},
	{recv: "object", name: "ForEachBool", gen: "forEachBoolGen", shape: "LOG"},
	{recv: "object", name: "ForEachInt", gen: "forEachIntGen", shape: "LOG"},
	{recv: "object", name: "ForEachFloat", gen: "forEachFloatGen", shape: "LOG"},
	{recv: "object", name: "Map", gen: "mapGen", shape: "HO", rtype: "Ref"},
	{recv: "object", name: "MapValues", gen: "mapValuesGen", shape: "HO", rtype: "Ref"},
	{recv: "object", name: "MapObjects", gen: "mapObjectsGen", shape: "HO", rtype: "Ref"},
	{recv: "object", name: "MapLists", gen: "mapListsGen", shape: "HO", rtype: "Ref"},
	{recv: "object", name: "MapStrings", gen: "mapStringsGen", shape: "HO", rtype: "Ref"},
	{recv: "object", name: "MapBools", gen: "mapBoolsGen", shape: "HO", rtype: "Ref"},
	{recv: "object", name: "MapInts", gen: "mapIntsGen", shape: "HO", rtype: "Ref"},
	{recv: "object", name: "MapFloats", gen: "mapFloatsGen", shape: "HO", rtype: "Ref"},
	{recv: "", name: "parseVal", gen: "parseValGen", shape: "HO", rtype: "Val", anyAs: "goval"},
	{recv: "", name: "NewObjectFrom", gen: "newObjectFromGen", shape: "HO", rtype: "Ref", anyAs: "goval"},
}

// panic messages (format strings) by prefix
var objPanics = [][2]string{
	{"object fields have to be set as key-value pairs", "oddPairs"},
	{"object key has to be string", "keyNotString"},
	{"object does not have a field", "missingKey"},
	{"field '%s' is not a", "notKind"},
	{"object does not contain value", "noValue"},
	{"incompatible type", "unsupported"},
	{"unsupported map type", "unsupported"},
}

// Go type of a type assertion / a `TypeX` constant ↦ Kind
var objKinds = map[string]string{"Object": "object", "List": "list", "string": "string", "bool": "bool",
	"int": "int", "float64": "float"}
var objTypeConsts = map[string]string{"TypeUndefined": "undefined", "TypeNil": "nil", "TypeObject": "object",
	"TypeList": "list", "TypeString": "string", "TypeBool": "bool", "TypeInt": "int", "TypeFloat": "float"}

// dynamic type of a stored field ↦ constructor pattern of Val
var objFieldPats = map[string]string{"Object": ".obj _", "List": ".list _", "*atNil": ".nil", "*atString": ".str _",
	"*atInt": ".int _", "*atBool": ".bool _", "*atFloat": ".float _"}

var objFlavours = map[string]string{"any": "any", "Object": "object", "List": "list", "string": "string",
	"bool": "bool", "int": "int", "float64": "float64"}
var objIntW = map[string]string{"int": "int", "int8": "i8", "int16": "i16", "int32": "i32", "int64": "i64",
	"uint": "uint", "uint8": "u8", "uint16": "u16", "uint32": "u32", "uint64": "u64"}

// the atomic field constructors
var objFieldCtors = map[string][2]string{"newString": {"str", ".str"}, "newBool": {"bool", ".bool"},
	"newInt": {"int", ".int"}, "newFloat": {"float", ".float"}}

// ---------------------------------------------------------------------------------------------
// symbolic values

type ov struct {
	sort string // str val field goval bool int kind ref cell objaddr pairs pairkey strs slist closure
	// cbfun cblog gomap emptymap emptyslice unit nil goint gof32 float jval
	// valalias (R14c)  jobj jlist jscalar (a tree whose constructor is known: R12, R14d)
	lean string
	// static knowledge
	known    bool // a constant: n (int) / b (bool)
	n        int
	b        bool
	sym      string // symbolic integers: "len", "parity", "i", "i+1"
	addr     string // cell / ref / objaddr: Lean expression of the address
	kind     string // "object" / "list"
	viaEgo   bool   // the value is <cell>.Ego()
	item     string // val: obtained by <item>.getVal() …
	itemHeap string // … in this heap
	rangeKey bool   // str: key of the enclosing range over a Go map
	elems    []ov   // slist
	clo      *ast.FuncLit
	cloEnv   *oenv
	arity    int    // cbfun / cblog
	pairKey  string // sym "i": Lean names of the current pair
	pairVal  string
	freshMap bool   // gomap: created by make, assigned with range keys only
	whole    string // goval bound by a type switch: Lean expression of the whole value
	depth    int    // block depth at which the variable was declared
	tok      string // emptymap: identity of the freshly made Go map (R14b)
	kvs      string // goval bound by `case map[string]T`: Lean name of the entries (R15a)
	slot     string // a late variable (R15b): identity of the declaration
}

type obinder struct{ name, typ string }

type oframe struct {
	spec    *ospec
	gen     string          // name of the Lean definition being generated
	used    map[string]bool // Lean names in use
	heap0   string
	mkPanic func(at ast.Node, heap, kind string) lnode
	mkRet   func(at ast.Node, env *oenv, v ov) lnode
	probe   *oprobe
}

type oprobe struct{ panics, returns bool }

type oenv struct {
	f        *oframe
	heap     string
	log      string // "" = the function has no log
	logArity int
	locals   map[string]ov
	scope    []obinder
	uninit   map[string]bool // addresses of allocated cells whose Init has not run
	recvName string
	recvAddr string
	recvKind string
	// the enclosing Go function: what `return` does
	ret func(at ast.Node, env *oenv, v ov) lnode
	// the enclosing loop: what `continue` does (nil outside a loop body)
	next okont
	// block depth (Go scopes): a declaration that shadows a variable of an enclosing block is rejected
	depth int
	// R14b: the fresh Go maps that already are the container of a cell
	spent map[string]bool
}

func (e *oenv) clone() *oenv {
	c := *e
	c.locals = make(map[string]ov, len(e.locals))
	for k, v := range e.locals {
		c.locals[k] = v
	}
	c.scope = append([]obinder(nil), e.scope...)
	c.uninit = make(map[string]bool, len(e.uninit))
	for k, v := range e.uninit {
		c.uninit[k] = v
	}
	c.spent = make(map[string]bool, len(e.spent))
	for k, v := range e.spent {
		c.spent[k] = v
	}
	return &c
}

// R14b: a fresh Go map becomes the container of a cell (env is a private clone)
func (g *ogen) spend(at ast.Node, env *oenv, v ov) {
	if v.tok == "" {
		return
	}
	if env.spent[v.tok] {
		failAt(at, "the same fresh map becomes the container of a second cell")
	}
	env.spent[v.tok] = true
}

type okont func(*oenv) lnode
type ovkont func(*oenv, ov) lnode

type ogen struct {
	pkg   *pkgInfo
	done  map[string]*ospec // "object.Set" ↦ spec, once translated
	defs  []string          // helper definitions of the function being translated
	nloop int
	cur   ast.Node // the statement being executed (for error positions)
	nmaps int      // R14b: fresh Go maps seen so far
}

var objReserved = map[string]bool{"some": true, "none": true, "true": true, "false": true,
	"Type": true, "Prop": true, "Sort": true, "not": true, "or": true, "and": true, "id": true, "pairs": true,
	"odd": true, "nil": true, "at": true, "fun": true, "end": true, "from": true, "do": true, "then": true,
	"with": true, "open": true, "in": true, "show": true, "have": true, "match": true, "if": true, "else": true,
	"let": true, "by": true, "def": true, "theorem": true, "where": true, "instance": true, "structure": true,
	"class": true, "namespace": true, "section": true, "mutual": true, "return": true, "for": true, "unless": true,
	"break": true, "continue": true, "try": true, "catch": true, "finally": true, "using": true, "local": true,
	"private": true, "protected": true, "import": true, "export": true, "variable": true, "universe": true,
	"example": true, "axiom": true, "inductive": true, "abbrev": true, "deriving": true, "extends": true,
	"macro": true, "syntax": true, "notation": true, "attribute": true, "noncomputable": true, "partial": true,
	"unsafe": true, "suffices": true, "calc": true, "nomatch": true, "nofun": true, "set_option": true}

func objIdent(goName string) string {
	if objReserved[goName] {
		return goName + "_"
	}
	return goName
}

func (g *ogen) fresh(env *oenv, hint, typ string) string {
	if hint == "" || hint == "_" {
		hint = "x"
	}
	base := objIdent(hint)
	name := base
	for i := 1; env.f.used[name]; i++ {
		name = fmt.Sprintf("%s%d", base, i)
	}
	env.f.used[name] = true
	env.scope = append(env.scope[:len(env.scope):len(env.scope)], obinder{name, typ})
	return name
}

// parenthesise a Lean expression used as an argument / as the head of a projection
func op(s string) string {
	if !strings.ContainsAny(s, " ") {
		return s
	}
	n := len(s)
	if strings.HasPrefix(s, "⟨") && strings.HasSuffix(s, "⟩") && strings.Count(s, "⟨") == 1 {
		return s
	}
	if s[0] == '(' && s[n-1] == ')' {
		depth := 0
		for i, r := range s {
			switch r {
			case '(':
				depth++
			case ')':
				depth--
				if depth == 0 && i != n-1 {
					return "(" + s + ")"
				}
			}
		}
		return s
	}
	if s[0] == '[' && s[n-1] == ']' && !strings.ContainsAny(s[1:n-1], "[]") {
		return s
	}
	return "(" + s + ")"
}

func shapeType(shape, rtype string) string {
	switch shape {
	case "HO":
		return "Heap × Out " + op(rtype)
	case "O":
		return "Out " + op(rtype)
	case "P":
		return rtype
	case "HP":
		return "Heap × " + rtype
	case "OPT":
		return "Option (Heap × " + rtype + ")"
	}
	return rtype
}

// the Lean text of a value returned / stored at Lean type `want`
func conv(at ast.Node, v ov, want string) string {
	switch want {
	case "Ref":
		switch v.sort {
		case "cell":
			return "⟨" + v.addr + ", 0⟩"
		case "ref":
			return v.lean
		}
	case "Val":
		switch v.sort {
		case "val", "field":
			return v.lean
		case "ref":
			if v.kind == "object" {
				return ".obj " + op(v.lean)
			}
			return ".list " + op(v.lean)
		case "cell":
			if v.kind == "object" {
				return ".obj ⟨" + v.addr + ", 0⟩"
			}
			return ".list ⟨" + v.addr + ", 0⟩"
		}
	case "Kind":
		if v.sort == "kind" {
			return v.lean
		}
	case "Bool":
		if v.sort == "bool" {
			if v.known {
				return fmt.Sprint(v.b)
			}
			return v.lean
		}
	case "Int":
		if v.sort == "int" && v.sym == "" {
			if v.known {
				return fmt.Sprint(v.n)
			}
			return v.lean
		}
	case "Str":
		if v.sort == "str" {
			return v.lean
		}
	case "List (Str × Val)":
		if v.sort == "gomap" {
			return v.lean
		}
	case "NVal":
		switch {
		case v.sort == "nval", v.sort == "jscalar":
			return v.lean
		case v.sort == "gomap" && v.whole == "NVal":
			return ".dict " + op(v.lean)
		case v.sort == "goslice" && v.whole == "NVal":
			return ".slice " + op(v.lean)
		}
	}
	failAt(at, "a value of sort %q cannot be used where the model expects %s", v.sort, want)
	return ""
}

// ---------------------------------------------------------------------------------------------
// one function

func goTypeStr(e ast.Expr) string { return src(e) }

// the Lean binders of the parameters of fd
func (g *ogen) bindParams(s *ospec, fd *ast.FuncDecl, env *oenv) []string {
	var binders []string
	add := func(name, typ string) string {
		n := g.fresh(env, name, typ)
		binders = append(binders, "("+n+" : "+typ+")")
		return n
	}
	for _, f := range fd.Type.Params.List {
		if len(f.Names) == 0 {
			failAt(f, "unnamed parameter")
		}
		for _, id := range f.Names {
			p := oparam{goName: id.Name}
			var v ov
			switch t := f.Type.(type) {
			case *ast.Ellipsis:
				switch goTypeStr(t.Elt) {
				case "any":
					if env.f.used["pairs"] || env.f.used["odd"] {
						failAt(f, "second variadic parameter")
					}
					env.f.used["pairs"], env.f.used["odd"] = true, true
					env.scope = append(env.scope, obinder{"pairs", "O.Pairs"}, obinder{"odd", "Bool"})
					binders = append(binders, "(pairs : O.Pairs)", "(odd : Bool)")
					p.sort, p.lean, p.typ = "pairs", "pairs odd", "O.Pairs"
					v = ov{sort: "pairs", lean: "pairs"}
				case "string":
					n := add(id.Name, "List Str")
					p.sort, p.lean, p.typ = "strs", n, "List Str"
					v = ov{sort: "strs", lean: n}
				default:
					failAt(f, "unsupported variadic parameter type %s", goTypeStr(t))
				}
			case *ast.FuncType:
				arity := 0
				for _, pf := range t.Params.List {
					k := len(pf.Names)
					if k == 0 {
						k = 1
					}
					arity += k
				}
				if arity < 1 || arity > 2 {
					failAt(f, "unsupported callback arity %d", arity)
				}
				if arity == 2 && goTypeStr(t.Params.List[0].Type) != "string" {
					failAt(f, "the first parameter of a binary callback must be the key (string)")
				}
				if t.Results == nil || len(t.Results.List) == 0 {
					if s.shape != "LOG" {
						failAt(f, "a callback without result in a function that is not modelled by its invocation log")
					}
					p.sort, p.arity = "cblog", arity
					v = ov{sort: "cblog", arity: arity}
					env.log, env.logArity = "[]", arity
				} else {
					if len(t.Results.List) != 1 || goTypeStr(t.Results.List[0].Type) != "any" {
						failAt(f, "unsupported callback result")
					}
					typ := "Val → GoVal"
					if arity == 2 {
						typ = "Str → Val → GoVal"
					}
					n := add(id.Name, typ)
					p.sort, p.lean, p.typ, p.arity = "cbfun", n, typ, arity
					v = ov{sort: "cbfun", lean: n, arity: arity}
				}
			default:
				switch goTypeStr(f.Type) {
				case "string":
					n := add(id.Name, "Str")
					p.sort, p.lean, p.typ = "str", n, "Str"
					v = ov{sort: "str", lean: n}
				case "any":
					if s.anyAs == "jval" {
						n := add(id.Name, "JVal")
						p.sort, p.lean, p.typ = "jval", n, "JVal"
						v = ov{sort: "jval", lean: n}
					} else if s.anyAs == "goval" {
						n := add(id.Name, "GoVal")
						p.sort, p.lean, p.typ = "goval", n, "GoVal"
						v = ov{sort: "goval", lean: n, whole: n}
					} else {
						n := add(id.Name, "Val")
						p.sort, p.lean, p.typ = "val", n, "Val"
						v = ov{sort: "val", lean: n}
					}
				case "Object":
					n := add(id.Name, "Nat")
					p.sort, p.lean, p.typ = "objaddr", n, "Nat"
					v = ov{sort: "objaddr", lean: n, addr: n, kind: "object"}
				default:
					failAt(f, "unsupported parameter type %s", goTypeStr(f.Type))
				}
			}
			s.params = append(s.params, p)
			env.locals[id.Name] = v
		}
	}
	return binders
}

func (g *ogen) frameFor(s *ospec, gen string, heap0 string) *oframe {
	f := &oframe{spec: s, gen: gen, used: map[string]bool{}, heap0: heap0}
	f.mkPanic = func(at ast.Node, heap, kind string) lnode {
		if f.probe != nil {
			f.probe.panics = true
		}
		switch s.shape {
		case "HO":
			return lLeaf{"(" + heap + ", .panic " + kind + ")"}
		case "O":
			return lLeaf{".panic " + kind}
		}
		failAt(at, "panic in %s, whose model has no panic result", s.name)
		return nil
	}
	f.mkRet = func(at ast.Node, env *oenv, v ov) lnode {
		if f.probe != nil {
			f.probe.returns = true
		}
		unchanged := func() {
			if env.heap != f.heap0 {
				failAt(at, "%s changes the heap but its model does not return one", s.name)
			}
		}
		switch s.shape {
		case "HO":
			return lLeaf{"(" + env.heap + ", .ok " + op(conv(at, v, s.rtype)) + ")"}
		case "O":
			unchanged()
			return lLeaf{".ok " + op(conv(at, v, s.rtype))}
		case "P":
			unchanged()
			return lLeaf{conv(at, v, s.rtype)}
		case "HP":
			return lLeaf{"(" + env.heap + ", " + conv(at, v, s.rtype) + ")"}
		case "OPT":
			return lLeaf{"some (" + env.heap + ", " + conv(at, v, s.rtype) + ")"}
		case "LOG":
			unchanged()
			if v.sort != "ref" || !v.viaEgo || v.addr != "a" {
				failAt(at, "%s must return ego.Ego()", s.name)
			}
			return lLeaf{env.log}
		}
		failAt(at, "internal: unknown shape %q", s.shape)
		return nil
	}
	return f
}

func (g *ogen) translate(s *ospec) string {
	main := g.translateParts(s)
	var b strings.Builder
	for _, d := range g.defs {
		b.WriteString(d)
		b.WriteString("\n")
	}
	b.WriteString(main)
	return b.String()
}

// the definition of the function itself; the helper definitions are left in g.defs
func (g *ogen) translateParts(s *ospec) string {
	var fd *ast.FuncDecl
	recvName := ""
	if s.recv != "" {
		m := g.pkg.methods[s.recv][s.name]
		if m == nil {
			failAt(nil, "method (*%s).%s not found", s.recv, s.name)
		}
		fd, recvName = m.decl, m.recvName
		if recvName == "" {
			failAt(fd, "unnamed receiver")
		}
	} else {
		fd = g.pkg.funcs[s.name]
		if fd == nil {
			failAt(nil, "function %s not found", s.name)
		}
	}
	g.defs, g.nloop = nil, 0
	s.params = nil
	f := g.frameFor(s, s.gen, "h")
	env := &oenv{f: f, heap: "h", locals: map[string]ov{}, uninit: map[string]bool{}}
	var binders []string
	if s.anyAs == "jval" {
		// R12: a function of the pure tree; there is no heap
		f.heap0, env.heap = "", ""
	} else {
		f.used["h"] = true
		env.scope = append(env.scope, obinder{"h", "Heap"})
		binders = []string{"(h : Heap)"}
	}
	if s.recv != "" {
		f.used["a"] = true
		env.scope = append(env.scope, obinder{"a", "Nat"})
		binders = append(binders, "(a : Nat)")
		env.recvName, env.recvAddr, env.recvKind = recvName, "a", s.recv
	}
	binders = append(binders, g.bindParams(s, fd, env)...)
	hasResult := fd.Type.Results != nil && len(fd.Type.Results.List) > 0
	env.ret = func(at ast.Node, e *oenv, v ov) lnode { return e.f.mkRet(at, e, v) }
	rtype := s.rtype
	if s.shape == "LOG" {
		if env.log == "" {
			failAt(fd, "%s has no callback parameter", s.name)
		}
		rtype = "List Val"
		if env.logArity == 2 {
			rtype = "List (Str × Val)"
		}
	}
	tree := g.stmts(fd.Body.List, env, func(e *oenv) lnode {
		if hasResult {
			failAt(fd, "control reaches the end of %s", s.name)
		}
		return e.ret(fd, e, ov{sort: "unit"})
	})
	var b strings.Builder
	what := s.name
	if s.recv != "" {
		what = "(*" + s.recv + ")." + s.name
	}
	fmt.Fprintf(&b, "/-- `%s` (%s) -/\ndef %s %s : %s :=\n  ", what, where(fd), s.gen, strings.Join(binders, " "), shapeType(s.shape, rtype))
	emit(&b, tree, "  ")
	b.WriteString("\n")
	key := s.name
	if s.recv != "" {
		key = s.recv + "." + s.name
	}
	g.done[key] = s
	return b.String()
}

func genObjectOps(pkg *pkgInfo) (text string, err error) {
	defer func() {
		if r := recover(); r != nil {
			te, ok := r.(*transErr)
			if !ok {
				panic(r)
			}
			text, err = "", te
		}
	}()
	g := &ogen{pkg: pkg, done: map[string]*ospec{}}
	var b strings.Builder
	b.WriteString("/-\nGENERATED by vextract from the Go source (object_impl.go, anytype.go, list_impl.go) — do not edit.\n\n")
	b.WriteString("A translation of the object operations, of `parseVal` and of `native` into Lean, statement by\nstatement (symbolic execution of the Go function bodies; the restructuring rules are listed at the\ntop of vextract/objgen.go).  Lemmas/ObjectGenEq.lean proves each definition equal to the\nhand-written model (Model/ObjectOps.lean, Model/Normalize.lean), so a change of the Go source that\nalters the behaviour breaks the build.\n-/\n")
	b.WriteString("import Anytype.Model.ObjectOps\nset_option linter.unusedVariables false\nnamespace Anytype.Generated\nopen Anytype\n\n")
	for _, s := range objSpecs {
		b.WriteString(g.translate(s))
		b.WriteString("\n")
	}
	b.WriteString(g.genNative())
	b.WriteString("end Anytype.Generated\n")
	return b.String(), nil
}

// ---------------------------------------------------------------------------------------------
// statements

func (g *ogen) stmts(list []ast.Stmt, env *oenv, k okont) lnode {
	if len(list) == 0 {
		return k(env)
	}
	return g.stmt(list[0], env, func(e *oenv) lnode { return g.stmts(list[1:], e, k) })
}

func (g *ogen) panicKind(call *ast.CallExpr) string {
	if len(call.Args) != 1 {
		failAt(call, "unrecognised panic: %s", src(call))
	}
	arg := unparen(call.Args[0])
	msg, ok := stringLit(arg)
	if !ok {
		c, isCall := arg.(*ast.CallExpr)
		if isCall {
			if x, sel, ok2 := selOf(c.Fun); ok2 && x == "fmt" && sel == "Sprintf" && len(c.Args) >= 1 {
				msg, ok = stringLit(c.Args[0])
				if ok {
					msg = spliceLiterals(msg, c.Args[1:])
				}
			}
		}
	}
	if !ok {
		failAt(call, "the panic message is not a string literal / fmt.Sprintf of one: %s", src(call))
	}
	for _, p := range objPanics {
		if strings.HasPrefix(msg, p[0]) {
			return "." + p[1]
		}
	}
	failAt(call, "unknown panic message %q", msg)
	return ""
}

// R14e: the format with every plain `%s` whose argument is a string literal replaced by the literal
func spliceLiterals(format string, args []ast.Expr) string {
	var b strings.Builder
	n := 0
	for i := 0; i < len(format); i++ {
		if format[i] != '%' || i+1 >= len(format) {
			b.WriteByte(format[i])
			continue
		}
		if format[i+1] == '%' {
			b.WriteString("%%")
			i++
			continue
		}
		// a verb: flags, width, precision, then the verb character; `*` and `[n]` change the argument order: give up
		j := i + 1
		for j < len(format) && strings.IndexByte("+-# 0123456789.", format[j]) >= 0 {
			j++
		}
		if j >= len(format) || format[j] == '*' || format[j] == '[' {
			return format
		}
		verb := format[i : j+1]
		if n < len(args) && verb == "%s" {
			if lit, ok := stringLit(args[n]); ok {
				b.WriteString(strings.ReplaceAll(lit, "%", "%%"))
				n++
				i = j
				continue
			}
		}
		b.WriteString(verb)
		n++
		i = j
	}
	return b.String()
}

func (g *ogen) isRecvVal(e ast.Expr, env *oenv) bool {
	x, sel, ok := selOf(unparen(e))
	return ok && env.recvName != "" && x == env.recvName && sel == "val"
}

// R14c: `ego.val`, or a local that holds `ego.val` read in the current heap
func (g *ogen) readsRecvVal(e ast.Expr, env *oenv) bool {
	if g.isRecvVal(e, env) {
		return true
	}
	id, ok := unparen(e).(*ast.Ident)
	if !ok || env.recvAddr == "" {
		return false
	}
	v, ok := env.locals[id.Name]
	return ok && v.sort == "valalias" && v.addr == env.recvAddr && v.kind == env.recvKind && v.itemHeap == env.heap
}

// the receiver's container as a Lean expression in heap `heap`
func (env *oenv) container(heap string) string {
	if env.recvKind == "list" {
		return op(heap) + ".items " + env.recvAddr
	}
	return op(heap) + ".fields " + env.recvAddr
}

func (g *ogen) checkInit(at ast.Node, env *oenv, addr string) {
	if env.uninit[addr] {
		failAt(at, "the cell allocated here is used before Init registered its pointer")
	}
}

func (g *ogen) stmt(st ast.Stmt, env *oenv, k okont) lnode {
	g.cur = st
	switch st := st.(type) {
	case *ast.BlockStmt:
		inner, leave := scoped(env, k)
		return g.stmts(st.List, inner, leave)

	case *ast.ExprStmt:
		call, ok := unparen(st.X).(*ast.CallExpr)
		if !ok {
			failAt(st, "unrecognised statement: %s", src(st))
		}
		if isIdent(call.Fun, "panic") {
			return env.f.mkPanic(st, env.heap, g.panicKind(call))
		}
		if isIdent(call.Fun, "delete") {
			if len(call.Args) != 2 || !g.isRecvVal(call.Args[0], env) || env.recvKind != "object" {
				failAt(st, "unrecognised delete: %s", src(st))
			}
			return g.expr(call.Args[1], env, "", func(e *oenv, key ov) lnode {
				if key.sort != "str" {
					failAt(st, "the deleted key is not a string")
				}
				e = e.clone()
				e.heap = op(e.heap) + ".setFields " + e.recvAddr + " (delKV (" + e.container(e.heap) + ") " + op(key.lean) + ")"
				return k(e)
			})
		}
		return g.expr(call, env, "", func(e *oenv, _ ov) lnode { return k(e) })

	case *ast.ReturnStmt:
		switch len(st.Results) {
		case 0:
			return env.ret(st, env, ov{sort: "unit"})
		case 1:
			return g.expr(st.Results[0], env, "", func(e *oenv, v ov) lnode { return e.ret(st, e, v) })
		}
		failAt(st, "unsupported return: %s", src(st))

	case *ast.IfStmt:
		if st.Init != nil {
			failAt(st, "if with an init statement")
		}
		return g.expr(st.Cond, env, "", func(e *oenv, c ov) lnode {
			if c.sort != "bool" {
				failAt(st.Cond, "the condition is not a boolean: %s", src(st.Cond))
			}
			thenB := func() lnode {
				inner, leave := scoped(e, k)
				return g.stmts(st.Body.List, inner, leave)
			}
			elseB := func() lnode {
				if st.Else == nil {
					return k(e.clone())
				}
				return g.stmt(st.Else, e.clone(), k)
			}
			if c.known {
				if c.b {
					return thenB()
				}
				return elseB()
			}
			return lIf{cond: c.lean, a: thenB(), b: elseB()}
		})

	case *ast.AssignStmt:
		return g.assign(st, env, k)

	case *ast.DeclStmt:
		// R15b: var x Object
		gd, ok := st.Decl.(*ast.GenDecl)
		if !ok || gd.Tok != token.VAR || len(gd.Specs) != 1 {
			failAt(st, "unrecognised declaration: %s", src(st))
		}
		vs := gd.Specs[0].(*ast.ValueSpec)
		kind := map[string]string{"Object": "object", "*object": "object", "List": "list", "*list": "list"}[goTypeStr(vs.Type)]
		if len(vs.Names) != 1 || len(vs.Values) != 0 || vs.Type == nil || kind == "" || vs.Names[0].Name == "_" {
			failAt(st, "unrecognised declaration: %s", src(st))
		}
		e := env.clone()
		g.bind(e, vs.Names[0].Name, ov{sort: "unset", kind: kind})
		g.nmaps++
		late := e.locals[vs.Names[0].Name]
		late.slot = fmt.Sprint("var", g.nmaps)
		e.locals[vs.Names[0].Name] = late
		return k(e)

	case *ast.RangeStmt:
		return g.rangeStmt(st, env, k)

	case *ast.ForStmt:
		return g.forStmt(st, env, k)

	case *ast.TypeSwitchStmt:
		return g.typeSwitch(st, env, k)

	case *ast.BranchStmt:
		if st.Tok == token.CONTINUE && st.Label == nil && env.next != nil {
			return env.next(env)
		}
	}
	failAt(st, "unrecognised statement: %s", src(st))
	return nil
}

// declare a variable in the current block
func (g *ogen) bind(env *oenv, name string, v ov) {
	if name == "_" {
		return
	}
	if name == env.recvName && name != "" {
		failAt(g.cur, "%s shadows the receiver", name)
	}
	if old, ok := env.locals[name]; ok && old.depth < env.depth {
		failAt(g.cur, "%s shadows a variable of an enclosing block", name)
	}
	v.depth = env.depth
	v.slot = ""
	env.locals[name] = v
}

// a nested Go block: the environment of its statements, and the continuation that leaves it
func scoped(env *oenv, k okont) (*oenv, okont) {
	inner := env.clone()
	inner.depth = env.depth + 1
	return inner, func(e *oenv) lnode {
		out := e.clone()
		out.depth = env.depth
		for n, v := range out.locals {
			if v.depth > env.depth {
				delete(out.locals, n)
			}
		}
		return k(out)
	}
}

func (g *ogen) assign(st *ast.AssignStmt, env *oenv, k okont) lnode {
	// x := e
	if st.Tok == token.DEFINE && len(st.Lhs) == 1 && len(st.Rhs) == 1 {
		id, ok := st.Lhs[0].(*ast.Ident)
		if !ok {
			failAt(st, "unrecognised assignment: %s", src(st))
		}
		return g.expr(st.Rhs[0], env, id.Name, func(e *oenv, v ov) lnode {
			e = e.clone()
			g.bind(e, id.Name, v)
			return k(e)
		})
	}
	// a, b := e1, e2   (R13)
	if st.Tok == token.DEFINE && len(st.Lhs) >= 2 && len(st.Rhs) == len(st.Lhs) {
		names := make([]string, len(st.Lhs))
		for i, l := range st.Lhs {
			id, ok := l.(*ast.Ident)
			if !ok {
				failAt(st, "unrecognised assignment: %s", src(st))
			}
			names[i] = id.Name
		}
		return g.exprs(st.Rhs, env, func(e *oenv, vals []ov) lnode {
			e = e.clone()
			for i, n := range names {
				g.bind(e, n, vals[i])
			}
			return k(e)
		})
	}
	// x, ok := e.(T)   /   x, ok := ego.val[key]
	if st.Tok == token.DEFINE && len(st.Lhs) == 2 && len(st.Rhs) == 1 {
		x, ok1 := st.Lhs[0].(*ast.Ident)
		okv, ok2 := st.Lhs[1].(*ast.Ident)
		if !ok1 || !ok2 {
			failAt(st, "unrecognised assignment: %s", src(st))
		}
		both := func(e *oenv, pat func(name string) string, typ string, scrut string, mk func(name string) ov) lnode {
			// match scrut with | none => ok = false | some x => ok = true
			no := e.clone()
			g.bind(no, x.Name, ov{sort: "undef"})
			g.bind(no, okv.Name, ov{sort: "bool", known: true, b: false})
			yes := e.clone()
			name := "_"
			if x.Name != "_" {
				name = g.fresh(yes, x.Name, typ)
			}
			g.bind(yes, x.Name, mk(name))
			g.bind(yes, okv.Name, ov{sort: "bool", known: true, b: true})
			return lMatch{scrut: scrut, arms: []lArm{{pat: "none", body: k(no)}, {pat: pat(name), body: k(yes)}}}
		}
		some := func(name string) string { return "some " + name }
		switch rhs := unparen(st.Rhs[0]).(type) {
		case *ast.IndexExpr:
			if !g.readsRecvVal(rhs.X, env) || env.recvKind != "object" {
				failAt(st, "unrecognised map read: %s", src(st))
			}
			return g.expr(rhs.Index, env, "", func(e *oenv, key ov) lnode {
				if key.sort != "str" {
					failAt(st, "the key is not a string")
				}
				return both(e, some, "Val", "lookup ("+e.container(e.heap)+") "+op(key.lean),
					func(name string) ov { return ov{sort: "field", lean: name} })
			})
		case *ast.TypeAssertExpr:
			if rhs.Type == nil {
				failAt(st, "unrecognised assignment: %s", src(st))
			}
			goT := goTypeStr(rhs.Type)
			return g.expr(rhs.X, env, x.Name, func(e *oenv, v ov) lnode {
				switch {
				case v.sort == "pairkey" && goT == "string":
					return both(e, some, "Str", v.lean, func(name string) ov { return ov{sort: "str", lean: name} })
				case v.sort == "str" && goT == "string":
					e = e.clone()
					g.bind(e, x.Name, v)
					g.bind(e, okv.Name, ov{sort: "bool", known: true, b: true})
					return k(e)
				case v.sort == "val" && v.item != "" && objKinds[goT] != "":
					return both(e, some, "Val", "L.sel "+op(v.itemHeap)+" true ."+objKinds[goT]+" "+op(v.item),
						func(name string) ov { return ov{sort: "val", lean: name} })
				case v.sort == "field" && (goT == "Object" || goT == "List"):
					return both(e, some, "Val", "L.sel "+op(e.heap)+" false ."+objKinds[goT]+" "+op(v.lean),
						func(name string) ov { return ov{sort: "val", lean: name} })
				case v.sort == "jval" && (goT == "Object" || goT == "List"):
					// R14d
					id, isVar := unparen(rhs.X).(*ast.Ident)
					if !isVar {
						failAt(st, "a type assertion on a tree that is not held by a variable: %s", src(rhs))
					}
					return g.treeAssert(e, id.Name, v, goT, x.Name, okv.Name, k)
				case (v.sort == "jobj" || v.sort == "jlist" || v.sort == "jscalar") && (goT == "Object" || goT == "List"):
					// R14d: the constructor is known
					e = e.clone()
					if (v.sort == "jobj" && goT == "Object") || (v.sort == "jlist" && goT == "List") {
						g.bind(e, x.Name, v)
						g.bind(e, okv.Name, boolOf(true))
					} else {
						g.bind(e, x.Name, ov{sort: "undef"})
						g.bind(e, okv.Name, boolOf(false))
					}
					return k(e)
				case v.sort == "val" && objKinds[goT] != "":
					no := e.clone()
					g.bind(no, x.Name, ov{sort: "undef"})
					g.bind(no, okv.Name, ov{sort: "bool", known: true, b: false})
					yes := e.clone()
					g.bind(yes, x.Name, ov{sort: "val", lean: v.lean})
					g.bind(yes, okv.Name, ov{sort: "bool", known: true, b: true})
					return lIf{cond: op(v.lean) + ".kind == ." + objKinds[goT], a: k(yes), b: k(no)}
				}
				failAt(st, "unsupported type assertion: %s (operand of sort %q)", src(rhs), v.sort)
				return nil
			})
		}
		failAt(st, "unrecognised assignment: %s", src(st))
	}
	if st.Tok != token.ASSIGN || len(st.Lhs) != 1 || len(st.Rhs) != 1 {
		failAt(st, "unrecognised assignment: %s", src(st))
	}
	lhs, rhs := unparen(st.Lhs[0]), unparen(st.Rhs[0])
	// ego.val = map[string]field{}   /   ego.val = append(ego.val, x)
	if g.isRecvVal(lhs, env) {
		if call, ok := rhs.(*ast.CallExpr); ok && isIdent(call.Fun, "append") {
			if env.recvKind != "list" || len(call.Args) != 2 || !g.isRecvVal(call.Args[0], env) || call.Ellipsis != token.NoPos {
				failAt(st, "unrecognised append: %s", src(st))
			}
			return g.expr(call.Args[1], env, "", func(e *oenv, v ov) lnode {
				if v.sort != "field" {
					failAt(st, "the appended value is not a field")
				}
				e = e.clone()
				e.heap = op(e.heap) + ".setItems " + e.recvAddr + " (" + e.container(e.heap) + " ++ [" + v.lean + "])"
				return k(e)
			})
		}
		return g.expr(rhs, env, "", func(e *oenv, v ov) lnode {
			if v.sort != "emptymap" || e.recvKind != "object" {
				failAt(st, "unrecognised assignment to %s.val: %s", e.recvName, src(st))
			}
			e = e.clone()
			g.spend(st, e, v)
			e.heap = op(e.heap) + ".setFields " + e.recvAddr + " []"
			return k(e)
		})
	}
	// R15b: x = e on a late variable
	if id, ok := lhs.(*ast.Ident); ok && env.locals[id.Name].slot != "" {
		late := env.locals[id.Name]
		return g.expr(rhs, env, id.Name, func(e *oenv, v ov) lnode {
			cur := e.locals[id.Name]
			if cur.slot != late.slot || cur.sort != "unset" {
				failAt(st, "%s is assigned a second time", id.Name)
			}
			if v.sort != "cell" || v.kind != cur.kind || !e.uninit[v.addr] {
				failAt(st, "%s must be assigned a freshly allocated %s", id.Name, cur.kind)
			}
			e = e.clone()
			v.slot, v.depth = cur.slot, cur.depth
			e.locals[id.Name] = v
			return k(e)
		})
	}
	// xs = append(xs, v) on a local slice
	if id, ok := lhs.(*ast.Ident); ok && env.locals[id.Name].sort == "goslice" {
		call, ok := rhs.(*ast.CallExpr)
		if !ok || !isIdent(call.Fun, "append") || len(call.Args) != 2 || !isIdent(call.Args[0], id.Name) || call.Ellipsis != token.NoPos {
			failAt(st, "unrecognised assignment: %s", src(st))
		}
		return g.expr(call.Args[1], env, "", func(e *oenv, v ov) lnode {
			m := e.locals[id.Name]
			elem := conv(st, v, m.whole)
			e = e.clone()
			if m.lean == "[]" {
				m.lean = "[" + elem + "]"
			} else {
				m.lean = op(m.lean) + " ++ [" + elem + "]"
			}
			e.locals[id.Name] = m
			return k(e)
		})
	}
	// ego.ptr = ptr   (the body of Init)
	if x, sel, ok := selOf(lhs); ok && x == env.recvName && env.recvName != "" && sel == "ptr" {
		return g.expr(rhs, env, "", func(e *oenv, v ov) lnode {
			if v.sort != "cell" || v.addr != e.recvAddr {
				failAt(st, "only the registration of the cell's own pointer (embedding level 0) is supported")
			}
			e = e.clone()
			delete(e.uninit, e.recvAddr)
			return k(e)
		})
	}
	if ix, ok := lhs.(*ast.IndexExpr); ok {
		// ego.val[name] = v
		if g.isRecvVal(ix.X, env) {
			if env.recvKind != "object" {
				failAt(st, "unsupported element assignment: %s", src(st))
			}
			return g.expr(ix.Index, env, "", func(e *oenv, key ov) lnode {
				if key.sort != "str" {
					failAt(st, "the key is not a string")
				}
				return g.expr(rhs, e, "", func(e *oenv, v ov) lnode {
					if v.sort != "field" {
						failAt(st, "the stored value is not a field (sort %q)", v.sort)
					}
					e = e.clone()
					e.heap = op(e.heap) + ".setFields " + e.recvAddr + " (setKV (" + e.container(e.heap) + ") " + op(key.lean) + " " + op(v.lean) + ")"
					return k(e)
				})
			})
		}
		// R15d: x.val[key] = v on a local that holds an object cell
		if xn, sel, ok := selOf(unparen(ix.X)); ok && sel == "val" && env.locals[xn].sort == "cell" && env.locals[xn].kind == "object" {
			cell := env.locals[xn]
			g.checkInit(st, env, cell.addr)
			return g.expr(ix.Index, env, "", func(e *oenv, key ov) lnode {
				if key.sort != "str" {
					failAt(st, "the key is not a string")
				}
				return g.expr(rhs, e, "", func(e *oenv, v ov) lnode {
					if v.sort != "field" {
						failAt(st, "the stored value is not a field (sort %q)", v.sort)
					}
					e = e.clone()
					e.heap = op(e.heap) + ".setFields " + cell.addr + " (setKV (" + op(e.heap) + ".fields " + cell.addr + ") " + op(key.lean) + " " + op(v.lean) + ")"
					return k(e)
				})
			})
		}
		// m[key] = v on a local Go map
		if id, ok := ix.X.(*ast.Ident); ok && env.locals[id.Name].sort == "gomap" {
			return g.expr(ix.Index, env, "", func(e *oenv, key ov) lnode {
				if key.sort != "str" {
					failAt(st, "the key is not a string")
				}
				return g.expr(rhs, e, "", func(e *oenv, v ov) lnode {
					m := e.locals[id.Name]
					elem := conv(st, v, m.whole)
					e = e.clone()
					if m.freshMap && key.rangeKey {
						if m.lean == "[]" {
							m.lean = "[(" + key.lean + ", " + elem + ")]"
						} else {
							m.lean = op(m.lean) + " ++ [(" + key.lean + ", " + elem + ")]"
						}
					} else {
						m.freshMap = false
						m.lean = "setKV " + op(m.lean) + " " + op(key.lean) + " " + op(elem)
					}
					e.locals[id.Name] = m
					return k(e)
				})
			})
		}
	}
	failAt(st, "unrecognised assignment: %s", src(st))
	return nil
}

// ---------------------------------------------------------------------------------------------
// expressions

func (g *ogen) exprs(list []ast.Expr, env *oenv, k func(*oenv, []ov) lnode) lnode {
	var out []ov
	var step func(i int, e *oenv) lnode
	step = func(i int, e *oenv) lnode {
		if i == len(list) {
			return k(e, out)
		}
		if fl, ok := unparen(list[i]).(*ast.FuncLit); ok {
			out = append(out[:i:i], ov{sort: "closure", clo: fl, cloEnv: e})
			return step(i+1, e)
		}
		return g.expr(list[i], e, "", func(e2 *oenv, v ov) lnode {
			out = append(out[:i:i], v)
			return step(i+1, e2)
		})
	}
	return step(0, env)
}

func boolOf(v bool) ov { return ov{sort: "bool", known: true, b: v} }

func (g *ogen) expr(x ast.Expr, env *oenv, hint string, k ovkont) lnode {
	x = unparen(x)
	switch x := x.(type) {
	case *ast.Ident:
		switch x.Name {
		case "nil":
			return k(env, ov{sort: "nil"})
		case "true":
			return k(env, boolOf(true))
		case "false":
			return k(env, boolOf(false))
		}
		if kd, ok := objTypeConsts[x.Name]; ok {
			return k(env, ov{sort: "kind", lean: "." + kd})
		}
		if x.Name == env.recvName && env.recvName != "" {
			return k(env, ov{sort: "cell", addr: env.recvAddr, kind: env.recvKind})
		}
		v, ok := env.locals[x.Name]
		if !ok || v.sort == "undef" {
			failAt(x, "unknown or undefined variable %s", x.Name)
		}
		if v.sort == "unset" {
			failAt(x, "%s is read before it is assigned", x.Name)
		}
		return k(env, v)

	case *ast.BasicLit:
		if x.Kind == token.INT {
			n := 0
			if _, err := fmt.Sscanf(x.Value, "%d", &n); err != nil || fmt.Sprint(n) != x.Value {
				failAt(x, "unsupported integer literal %s", x.Value)
			}
			return k(env, ov{sort: "int", known: true, n: n})
		}
		if str, ok := stringLit(x); ok {
			// Str is a list of characters
			var cs []string
			for _, r := range str {
				if r < 0x20 || r > 0x7e || r == '\'' || r == '\\' {
					failAt(x, "unsupported string literal %s", x.Value)
				}
				cs = append(cs, "'"+string(r)+"'")
			}
			return k(env, ov{sort: "str", lean: "([" + strings.Join(cs, ", ") + "] : Str)"})
		}
		failAt(x, "unsupported literal %s", x.Value)

	case *ast.FuncLit:
		return k(env, ov{sort: "closure", clo: x, cloEnv: env})

	case *ast.UnaryExpr:
		switch x.Op {
		case token.NOT:
			return g.expr(x.X, env, "", func(e *oenv, v ov) lnode {
				if v.sort != "bool" {
					failAt(x, "`!` of a non-boolean")
				}
				if v.known {
					return k(e, boolOf(!v.b))
				}
				return k(e, ov{sort: "bool", lean: "!" + op(v.lean)})
			})
		case token.AND:
			// &object{val: map[string]field{}}  /  &list{val: []field{}}
			cl, ok := unparen(x.X).(*ast.CompositeLit)
			if !ok {
				break
			}
			kind, cell := "", ""
			// an empty map / an empty slice, with or without a capacity hint that is syntactically a length
			// (capacity is not modelled: R2)
			emptyObj := regexp.MustCompile(`^object\{val: (map\[string\]field\{\}|make\(map\[string\]field(, len\([A-Za-z_][A-Za-z0-9_.]*\))?\))\}$`)
			emptyList := regexp.MustCompile(`^list\{val: (\[\]field\{\}|make\(\[\]field, 0(, len\([A-Za-z_][A-Za-z0-9_.]*\))?\))\}$`)
			switch {
			case emptyObj.MatchString(src(cl)):
				kind, cell = "object", "Cell.obj [] 0"
			case emptyList.MatchString(src(cl)):
				kind, cell = "list", "Cell.list [] 0"
			default:
				// R15c: object{val: make(map[string]field, n)}
				if tid, ok := cl.Type.(*ast.Ident); ok && tid.Name == "object" && len(cl.Elts) == 1 {
					if kv, ok := cl.Elts[0].(*ast.KeyValueExpr); ok && isIdent(kv.Key, "val") {
						if mk, ok := unparen(kv.Value).(*ast.CallExpr); ok && isIdent(mk.Fun, "make") && len(mk.Args) == 2 &&
							src(mk.Args[0]) == "map[string]field" && mk.Ellipsis == token.NoPos {
							return g.expr(mk.Args[1], env, "", func(e0 *oenv, n ov) lnode {
								if n.sort != "int" {
									failAt(x, "the size hint is not an integer: %s", src(x))
								}
								e := e0.clone()
								addr := g.fresh(e, hint, "Nat")
								val := op(e0.heap) + ".length"
								e.heap = op(e0.heap) + " ++ [Cell.obj [] 0]"
								e.uninit[addr] = true
								return lLet{name: addr, val: val, body: k(e, ov{sort: "cell", addr: addr, kind: "object"})}
							})
						}
					}
				}
				// R14b: the empty container is held by a local
				held := ov{}
				if tid, ok := cl.Type.(*ast.Ident); ok && len(cl.Elts) == 1 {
					if kv, ok := cl.Elts[0].(*ast.KeyValueExpr); ok && isIdent(kv.Key, "val") {
						if id, ok := unparen(kv.Value).(*ast.Ident); ok {
							held = env.locals[id.Name]
						}
					}
					switch {
					case tid.Name == "object" && held.sort == "emptymap" && held.tok != "":
						kind, cell = "object", "Cell.obj [] 0"
					case tid.Name == "list" && held.sort == "emptyslice":
						kind, cell = "list", "Cell.list [] 0"
					}
				}
				if kind == "" {
					failAt(x, "unsupported allocation: %s", src(x))
				}
				env = env.clone()
				g.spend(x, env, held)
			}
			e := env.clone()
			addr := g.fresh(e, hint, "Nat")
			val := op(env.heap) + ".length"
			e.heap = op(env.heap) + " ++ [" + cell + "]"
			e.uninit[addr] = true
			return lLet{name: addr, val: val, body: k(e, ov{sort: "cell", addr: addr, kind: kind})}
		}
		failAt(x, "unsupported expression: %s", src(x))

	case *ast.CompositeLit:
		switch src(x) {
		case "map[string]field{}":
			g.nmaps++
			return k(env, ov{sort: "emptymap", tok: fmt.Sprint("map", g.nmaps)})
		case "[]field{}":
			return k(env, ov{sort: "emptyslice"}) // R14b
		}
		failAt(x, "unsupported composite literal: %s", src(x))

	case *ast.BinaryExpr:
		return g.expr(x.X, env, "", func(e *oenv, l ov) lnode {
			return g.expr(x.Y, e, "", func(e *oenv, r ov) lnode { return k(e, g.binary(x, l, r)) })
		})

	case *ast.IndexExpr:
		return g.expr(x.X, env, "", func(e *oenv, c ov) lnode {
			return g.expr(x.Index, e, "", func(e *oenv, i ov) lnode {
				switch c.sort {
				case "pairs":
					switch i.sym {
					case "i":
						return k(e, ov{sort: "pairkey", lean: i.pairKey})
					case "i+1":
						return k(e, ov{sort: "goval", lean: i.pairVal, whole: i.pairVal})
					}
				case "slist":
					if i.sort == "int" && i.known {
						if i.n < 0 || i.n >= len(c.elems) {
							failAt(x, "index %d out of range of the %d static arguments", i.n, len(c.elems))
						}
						return k(e, c.elems[i.n])
					}
				}
				failAt(x, "unsupported index expression: %s", src(x))
				return nil
			})
		})

	case *ast.SelectorExpr:
		if g.isRecvVal(x, env) {
			// R14c: a copy of the reference, good while the heap is env.heap
			return k(env, ov{sort: "valalias", addr: env.recvAddr, kind: env.recvKind, itemHeap: env.heap})
		}
		failAt(x, "unsupported selector: %s", src(x))

	case *ast.CallExpr:
		return g.call(x, env, hint, k)
	}
	failAt(x, "unsupported expression: %s", src(x))
	return nil
}

func (g *ogen) binary(x *ast.BinaryExpr, l, r ov) ov {
	bad := func() ov {
		failAt(x, "unsupported operation: %s (sorts %q, %q)", src(x), l.sort, r.sort)
		return ov{}
	}
	constInts := l.sort == "int" && r.sort == "int" && l.known && r.known
	plainInts := l.sort == "int" && r.sort == "int" && l.sym == "" && r.sym == ""
	intLean := func(v ov) string {
		if v.known {
			return fmt.Sprint(v.n)
		}
		return v.lean
	}
	switch x.Op {
	case token.AND:
		if constInts {
			return ov{sort: "int", known: true, n: l.n & r.n}
		}
		if l.sym == "len" && r.known && r.n == 1 {
			return ov{sort: "int", sym: "parity"}
		}
	case token.REM:
		if constInts && r.n != 0 {
			return ov{sort: "int", known: true, n: l.n % r.n}
		}
		if l.sym == "len" && r.known && r.n == 2 {
			return ov{sort: "int", sym: "parity"} // R14a
		}
	case token.ADD:
		if constInts {
			return ov{sort: "int", known: true, n: l.n + r.n}
		}
		if l.sym == "i" && r.known && r.n == 1 {
			return ov{sort: "int", sym: "i+1", pairKey: l.pairKey, pairVal: l.pairVal}
		}
	case token.LSS:
		if constInts {
			return boolOf(l.n < r.n)
		}
	case token.EQL, token.NEQ:
		eq := x.Op == token.EQL
		neg := func(s string) string {
			if eq {
				return s
			}
			return "!(" + s + ")"
		}
		switch {
		case constInts:
			return boolOf((l.n == r.n) == eq)
		case l.sym == "parity" && r.known && r.n == 1:
			// len(values)&1 == 1
			return ov{sort: "bool", lean: neg("odd")}
		case l.sym == "parity" && r.known && r.n == 0:
			// R14a: len(values)&1 != 0
			eq = !eq
			return ov{sort: "bool", lean: neg("odd")}
		case plainInts:
			return ov{sort: "bool", lean: neg(op(intLean(l)) + " == " + op(intLean(r)))}
		case l.sort == "val" && r.sort == "val":
			return ov{sort: "bool", lean: neg("L.goEq " + op(l.lean) + " " + op(r.lean))}
		case l.sort == "kind" && r.sort == "kind":
			return ov{sort: "bool", lean: neg(op(l.lean) + " == " + op(r.lean))}
		}
	}
	return bad()
}

// the static Go type `string` run through parseVal's own type switch
func (g *ogen) parseValStatic(at ast.Node, env *oenv, goType string, v ov, k ovkont) lnode {
	fd := g.pkg.funcs["parseVal"]
	if fd == nil || len(fd.Body.List) != 1 || len(fd.Type.Params.List) != 1 || len(fd.Type.Params.List[0].Names) != 1 {
		failAt(at, "parseVal: expected one parameter and a single type switch")
	}
	ts, ok := fd.Body.List[0].(*ast.TypeSwitchStmt)
	as, ok2 := ts.Assign.(*ast.AssignStmt)
	if !ok || !ok2 || len(as.Lhs) != 1 {
		failAt(fd, "parseVal: expected `switch v := val.(type)`")
	}
	bound := as.Lhs[0].(*ast.Ident).Name
	for _, cc := range ts.Body.List {
		c := cc.(*ast.CaseClause)
		for _, t := range c.List {
			if goTypeStr(t) != goType {
				continue
			}
			if len(c.List) != 1 {
				failAt(c, "parseVal: a clause with several types")
			}
			inner := &oenv{f: env.f, heap: env.heap, log: env.log, logArity: env.logArity, locals: map[string]ov{bound: v},
				scope: env.scope, uninit: env.uninit}
			inner.ret = func(at2 ast.Node, e *oenv, r ov) lnode {
				if r.sort != "field" {
					failAt(at2, "parseVal does not return a field here")
				}
				back := env.clone()
				back.heap, back.scope = e.heap, e.scope
				return k(back, r)
			}
			return g.stmts(c.Body, inner, func(e *oenv) lnode {
				failAt(c, "parseVal: control reaches the end of the clause")
				return nil
			})
		}
	}
	failAt(at, "parseVal has no case for %s", goType)
	return nil
}

func (g *ogen) call(x *ast.CallExpr, env *oenv, hint string, k ovkont) lnode {
	if id, ok := x.Fun.(*ast.Ident); ok {
		if loc, isLocal := env.locals[id.Name]; isLocal {
			return g.exprs(x.Args, env, func(e *oenv, args []ov) lnode { return g.callValue(x, e, loc, args, k) })
		}
		switch id.Name {
		case "len":
			if len(x.Args) != 1 {
				break
			}
			if g.readsRecvVal(x.Args[0], env) {
				return k(env, ov{sort: "int", lean: "((" + env.container(env.heap) + ").length : Int)"})
			}
			return g.expr(x.Args[0], env, "", func(e *oenv, v ov) lnode {
				switch v.sort {
				case "pairs":
					return k(e, ov{sort: "int", sym: "len"})
				case "slist":
					return k(e, ov{sort: "int", known: true, n: len(v.elems)})
				case "goval":
					if v.kvs != "" {
						return k(e, ov{sort: "int", lean: "(" + v.kvs + ".length : Int)"}) // R15a
					}
				}
				failAt(x, "unsupported len: %s", src(x))
				return nil
			})
		case "make":
			// make(map[string]any, n): the capacity is evaluated and dropped
			if len(x.Args) == 3 && src(x.Args[0]) == "[]any" && src(x.Args[1]) == "0" && env.f.spec.anyAs == "jval" {
				return g.expr(x.Args[2], env, "", func(e *oenv, n ov) lnode {
					if n.sort != "int" {
						failAt(x, "the capacity is not an integer")
					}
					return k(e, ov{sort: "goslice", lean: "[]", freshMap: true, whole: "NVal"})
				})
			}
			if len(x.Args) >= 1 && src(x.Args[0]) == "map[string]any" && len(x.Args) <= 2 {
				elem := "Val"
				if env.f.spec.anyAs == "jval" {
					elem = "NVal"
				}
				mk := func(e *oenv) lnode {
					return k(e, ov{sort: "gomap", lean: "[]", freshMap: true, whole: elem})
				}
				if len(x.Args) == 1 {
					return mk(env)
				}
				return g.expr(x.Args[1], env, "", func(e *oenv, n ov) lnode {
					if n.sort != "int" {
						failAt(x, "the capacity is not an integer")
					}
					return mk(e)
				})
			}
		case "parseVal":
			if len(x.Args) != 1 {
				break
			}
			return g.expr(x.Args[0], env, "", func(e *oenv, v ov) lnode {
				switch v.sort {
				case "goval":
					e = e.clone()
					h1 := g.fresh(e, "h", "Heap")
					bad := e.clone()
					p := g.fresh(bad, "p", "PanicKind")
					name := g.fresh(e, "v", "Val")
					scrut := "parseVal " + op(e.heap) + " " + op(v.lean)
					e.heap = h1
					return lMatch{scrut: scrut, arms: []lArm{
						{pat: "(" + h1 + ", .panic " + p + ")", body: e.f.mkPanic(x, h1, p)},
						{pat: "(" + h1 + ", .ok " + name + ")", body: k(e, ov{sort: "field", lean: name})},
					}}
				case "val":
					// R9: already normalised
					return k(e, ov{sort: "field", lean: v.lean})
				case "str":
					return g.parseValStatic(x, e, "string", v, k)
				}
				failAt(x, "unsupported argument of parseVal (sort %q)", v.sort)
				return nil
			})
		case "newNil":
			if len(x.Args) == 0 {
				return k(env, ov{sort: "field", lean: ".nil"})
			}
		case "newString", "newBool", "newInt", "newFloat":
			if len(x.Args) != 1 {
				break
			}
			ct := objFieldCtors[id.Name]
			return g.expr(x.Args[0], env, "", func(e *oenv, v ov) lnode {
				if v.sort == "goint" && ct[0] == "int" {
					v = ov{sort: "int", lean: "wrap64 " + op(v.lean)} // R11: a value of type int
				}
				if v.sort != ct[0] || v.known || v.sym != "" {
					failAt(x, "%s of a value of sort %q", id.Name, v.sort)
				}
				return k(e, ov{sort: "field", lean: ct[1] + " " + op(v.lean)})
			})
		case "int":
			if len(x.Args) != 1 {
				break
			}
			return g.expr(x.Args[0], env, "", func(e *oenv, v ov) lnode {
				if v.sort != "goint" {
					failAt(x, "unsupported conversion: %s", src(x))
				}
				return k(e, ov{sort: "int", lean: "wrap64 " + op(v.lean)})
			})
		case "float64":
			if len(x.Args) != 1 {
				break
			}
			return g.expr(x.Args[0], env, "", func(e *oenv, v ov) lnode {
				if v.sort != "gof32" {
					failAt(x, "unsupported conversion: %s", src(x))
				}
				return k(e, ov{sort: "float", lean: "f32to64 " + op(v.lean)})
			})
		case "native":
			if len(x.Args) != 1 || env.f.spec.name != "native" {
				break
			}
			return g.expr(x.Args[0], env, "", func(e *oenv, v ov) lnode {
				if v.sort != "jval" {
					failAt(x, "native of a value of sort %q", v.sort)
				}
				return k(e, ov{sort: "nval", lean: e.f.spec.gen + " " + op(v.lean)})
			})
		case "NewObjectFrom", "NewListFrom":
			if len(x.Args) != 1 {
				break
			}
			fn, kind := "O.newFrom", "object"
			if id.Name == "NewListFrom" {
				fn, kind = "L.newFrom", "list"
			}
			return g.expr(x.Args[0], env, "", func(e *oenv, v ov) lnode {
				if v.sort != "goval" || v.whole == "" {
					failAt(x, "unsupported argument of %s", id.Name)
				}
				e = e.clone()
				old := e.heap
				h1 := g.fresh(e, "h", "Heap")
				bad := e.clone()
				p := g.fresh(bad, "p", "PanicKind")
				r := g.fresh(e, "r", "Ref")
				e.heap = h1
				return lMatch{scrut: fn + " " + op(old) + " " + op(v.whole), arms: []lArm{
					{pat: "(" + h1 + ", .panic " + p + ")", body: e.f.mkPanic(x, h1, p)},
					{pat: "(" + h1 + ", .ok " + r + ")", body: k(e, ov{sort: "ref", lean: r, addr: r + ".addr", kind: kind})},
				}}
			})
		}
		if fd := g.pkg.funcs[id.Name]; fd != nil && (id.Name == "NewObject" || id.Name == "NewList") {
			return g.exprs(x.Args, env, func(e *oenv, args []ov) lnode {
				return g.invoke(x, e, fd, nil, "", "", "", args, x.Ellipsis != token.NoPos, hint, k)
			})
		}
		failAt(x, "unsupported call: %s", src(x))
	}
	sel, ok := x.Fun.(*ast.SelectorExpr)
	if !ok {
		failAt(x, "unsupported call: %s", src(x))
	}
	return g.expr(sel.X, env, "", func(e *oenv, recv ov) lnode {
		name := sel.Sel.Name
		switch recv.sort {
		case "field":
			if name == "getVal" && len(x.Args) == 0 {
				return k(e, ov{sort: "val", lean: op(e.heap) + ".getVal " + op(recv.lean), item: recv.lean, itemHeap: e.heap})
			}
		case "jobj", "jlist":
			switch {
			case name == "Count" && len(x.Args) == 0:
				return k(e, ov{sort: "int", lean: "(" + op(recv.lean) + ".length : Int)"})
			case (recv.sort == "jobj" && name == "ForEach" || recv.sort == "jlist" && name == "ForEachValue") && len(x.Args) == 1:
				if fl, ok := unparen(x.Args[0]).(*ast.FuncLit); ok {
					return g.treeLoop(x, e, recv, fl, k)
				}
			}
		case "cell", "ref", "objaddr":
			g.checkInitExcept(x, e, recv, name)
			if name == "Ego" && len(x.Args) == 0 {
				return k(e, ov{sort: "ref", lean: op(e.heap) + ".egoRef " + recv.addr, addr: recv.addr, kind: recv.kind, viaEgo: true})
			}
			if name == "Clone" && len(x.Args) == 0 && recv.kind == "object" {
				return g.cloneCall(x, e, recv, hint, k)
			}
			m := g.pkg.methods[recv.kind][name]
			if m == nil {
				failAt(x, "method (*%s).%s not found", recv.kind, name)
			}
			return g.exprs(x.Args, e, func(e2 *oenv, args []ov) lnode {
				return g.invoke(x, e2, m.decl, g.done[recv.kind+"."+name], m.recvName, recv.addr, recv.kind, args, x.Ellipsis != token.NoPos, hint, k)
			})
		}
		failAt(x, "unsupported method call: %s (receiver of sort %q)", src(x), recv.sort)
		return nil
	})
}

func (g *ogen) checkInitExcept(at ast.Node, e *oenv, recv ov, method string) {
	if e.uninit[recv.addr] && method != "Init" {
		failAt(at, "the cell is used before Init registered its pointer")
	}
}

// R11: ego.Clone() is the model's O.clone
func (g *ogen) cloneCall(x ast.Node, env *oenv, recv ov, hint string, k ovkont) lnode {
	if env.f.spec.shape != "OPT" {
		failAt(x, "Clone in a function whose model is total")
	}
	e := env.clone()
	h1 := g.fresh(e, "h", "Heap")
	r := g.fresh(e, hint, "Ref")
	scrut := "O.clone " + op(env.heap) + " (.obj ⟨" + recv.addr + ", 0⟩)"
	e.heap = h1
	return lMatch{scrut: scrut, arms: []lArm{
		{pat: "some (" + h1 + ", .obj " + r + ")", body: k(e, ov{sort: "ref", lean: r, addr: r + ".addr", kind: "object"})},
		{pat: "_", body: lLeaf{"none"}},
	}}
}

// a call of a local function value: a callback parameter or a function literal
func (g *ogen) callValue(x *ast.CallExpr, env *oenv, fn ov, args []ov, k ovkont) lnode {
	argLean := func(i int, want string) string {
		v := args[i]
		switch want {
		case "Str":
			if v.sort == "str" {
				return v.lean
			}
		case "Val":
			if v.sort == "val" {
				return v.lean
			}
		}
		failAt(x, "argument %d of the callback has sort %q, the model expects %s", i+1, v.sort, want)
		return ""
	}
	switch fn.sort {
	case "cbfun", "cblog":
		if len(args) != fn.arity {
			failAt(x, "the callback takes %d arguments", fn.arity)
		}
		var parts []string
		if fn.arity == 2 {
			parts = []string{argLean(0, "Str"), argLean(1, "Val")}
		} else {
			parts = []string{argLean(0, "Val")}
		}
		if fn.sort == "cbfun" {
			for i := range parts {
				parts[i] = op(parts[i])
			}
			lean := fn.lean + " " + strings.Join(parts, " ")
			return k(env, ov{sort: "goval", lean: lean, whole: lean})
		}
		entry := parts[0]
		if fn.arity == 2 {
			entry = "(" + parts[0] + ", " + parts[1] + ")"
		}
		e := env.clone()
		if e.log == "[]" {
			e.log = "[" + entry + "]"
		} else {
			e.log = op(e.log) + " ++ [" + entry + "]"
		}
		return k(e, ov{sort: "unit"})
	case "closure":
		return g.inlineBody(x, env, fn.clo.Type, fn.clo.Body, fn.cloEnv, args, k)
	}
	failAt(x, "%s is not a function", src(x.Fun))
	return nil
}

// execute a function literal: the body sees the variables of the defining environment
func (g *ogen) inlineBody(at ast.Node, env *oenv, ft *ast.FuncType, body *ast.BlockStmt, def *oenv, args []ov, k ovkont) lnode {
	inner := env.clone()
	inner.locals = map[string]ov{}
	for n, v := range def.locals {
		if v.slot != "" {
			// R15b: the current state of a late variable, if the call is in its scope
			if cv, ok := env.locals[n]; ok && cv.slot == v.slot {
				v = cv
			} else {
				v = ov{sort: "undef"}
			}
		}
		inner.locals[n] = v
	}
	inner.recvName, inner.recvAddr, inner.recvKind = def.recvName, def.recvAddr, def.recvKind
	i := 0
	for _, f := range ft.Params.List {
		for _, id := range f.Names {
			if i >= len(args) {
				failAt(at, "too few arguments")
			}
			g.bind(inner, id.Name, args[i])
			i++
		}
	}
	if i != len(args) {
		failAt(at, "wrong number of arguments")
	}
	hasResult := ft.Results != nil && len(ft.Results.List) > 0
	back := func(e *oenv) *oenv {
		out := e.clone()
		out.locals = env.locals
		out.recvName, out.recvAddr, out.recvKind = env.recvName, env.recvAddr, env.recvKind
		out.ret = env.ret
		out = out.clone()
		for n, cv := range env.locals {
			// R15b: what the function literal assigned to a late variable
			if ev, ok := e.locals[n]; ok && cv.slot != "" && ev.slot == cv.slot {
				ev.depth = cv.depth
				out.locals[n] = ev
			}
		}
		return out
	}
	inner.ret = func(at2 ast.Node, e *oenv, v ov) lnode { return k(back(e), v) }
	return g.stmts(body.List, inner, func(e *oenv) lnode {
		if hasResult {
			failAt(at, "control reaches the end of the function literal")
		}
		return k(back(e), ov{sort: "unit"})
	})
}

// ---------------------------------------------------------------------------------------------
// calls of library functions / methods: through the generated definition, or inlined (R6, R7)

func (g *ogen) invoke(at *ast.CallExpr, env *oenv, fd *ast.FuncDecl, spec *ospec, recvName, recvAddr, recvKind string,
	args []ov, spread bool, hint string, k ovkont) lnode {
	// parameters of the callee
	type par struct {
		name     string
		variadic bool
	}
	var pars []par
	for _, f := range fd.Type.Params.List {
		_, variadic := f.Type.(*ast.Ellipsis)
		if len(f.Names) == 0 {
			failAt(fd, "unnamed parameter")
		}
		for _, id := range f.Names {
			pars = append(pars, par{id.Name, variadic})
		}
	}
	// group the variadic arguments
	bound := make([]ov, len(pars))
	static := false
	for i, p := range pars {
		switch {
		case p.variadic && spread:
			if len(args) != len(pars) {
				failAt(at, "wrong number of arguments")
			}
			bound[i] = args[i]
			if args[i].sort == "slist" {
				static = true
			}
		case p.variadic:
			if len(args) < i {
				failAt(at, "too few arguments")
			}
			bound[i] = ov{sort: "slist", elems: append([]ov(nil), args[i:]...)}
			static = true
		default:
			if i >= len(args) {
				failAt(at, "too few arguments")
			}
			bound[i] = args[i]
			if args[i].sort == "closure" {
				static = true
			}
		}
	}
	if len(pars) == 0 || !pars[len(pars)-1].variadic {
		if len(args) != len(pars) || spread {
			failAt(at, "wrong number of arguments")
		}
	}
	if !static && spec != nil {
		return g.callGen(at, env, spec, recvAddr, bound, hint, k)
	}
	// inline (also: a callee that has no generated definition, e.g. Init)
	// inline
	inner := env.clone()
	inner.locals = map[string]ov{}
	inner.recvName, inner.recvAddr, inner.recvKind = recvName, recvAddr, recvKind
	for i, p := range pars {
		g.bind(inner, p.name, bound[i])
	}
	back := func(e *oenv) *oenv {
		out := e.clone()
		out.locals = env.locals
		out.recvName, out.recvAddr, out.recvKind = env.recvName, env.recvAddr, env.recvKind
		out.ret = env.ret
		return out.clone()
	}
	hasResult := fd.Type.Results != nil && len(fd.Type.Results.List) > 0
	inner.ret = func(at2 ast.Node, e *oenv, v ov) lnode {
		if v.sort == "cell" {
			g.checkInit(at2, e, v.addr)
		}
		return k(back(e), v)
	}
	return g.stmts(fd.Body.List, inner, func(e *oenv) lnode {
		if hasResult {
			failAt(fd, "control reaches the end of %s", fd.Name.Name)
		}
		return k(back(e), ov{sort: "unit"})
	})
}

func (g *ogen) callGen(at ast.Node, env *oenv, spec *ospec, recvAddr string, bound []ov, hint string, k ovkont) lnode {
	parts := []string{spec.gen, op(env.heap)}
	if spec.recv != "" {
		parts = append(parts, recvAddr)
	}
	if len(bound) != len(spec.params) {
		failAt(at, "internal: parameter count of %s", spec.name)
	}
	for i, p := range spec.params {
		v := bound[i]
		switch p.sort {
		case "pairs":
			if v.sort != "pairs" {
				failAt(at, "the variadic argument of %s is not the caller's own", spec.name)
			}
			parts = append(parts, "pairs", "odd")
		case "strs", "str", "val", "goval", "cbfun":
			if v.sort != p.sort {
				failAt(at, "argument %d of %s has sort %q, expected %q", i+1, spec.name, v.sort, p.sort)
			}
			parts = append(parts, op(v.lean))
		case "objaddr":
			if v.addr == "" {
				failAt(at, "argument %d of %s is not a container", i+1, spec.name)
			}
			parts = append(parts, v.addr)
		default:
			failAt(at, "a call of %s cannot be expressed (parameter of sort %q)", spec.name, p.sort)
		}
	}
	callText := strings.Join(parts, " ")
	result := func(e *oenv, name string) ov {
		switch spec.rtype {
		case "Val":
			return ov{sort: "val", lean: name}
		case "Ref":
			return ov{sort: "ref", lean: name, addr: name + ".addr", kind: "object"}
		case "Str":
			return ov{sort: "str", lean: name}
		case "Kind":
			return ov{sort: "kind", lean: name}
		case "Bool":
			return ov{sort: "bool", lean: name}
		case "Int":
			return ov{sort: "int", lean: name}
		}
		failAt(at, "the result of %s cannot be used", spec.name)
		return ov{}
	}
	switch spec.shape {
	case "P":
		return k(env, result(env, callText))
	case "O":
		bad := env.clone()
		p := g.fresh(bad, "p", "PanicKind")
		e := env.clone()
		if hint == "" {
			hint = "v"
		}
		name := g.fresh(e, hint, spec.rtype)
		return lMatch{scrut: callText, arms: []lArm{
			{pat: ".panic " + p, body: env.f.mkPanic(at, env.heap, p)},
			{pat: ".ok " + name, body: k(e, result(e, name))},
		}}
	case "HO":
		e := env.clone()
		h1 := g.fresh(e, "h", "Heap")
		bad := e.clone()
		p := g.fresh(bad, "p", "PanicKind")
		name := "_"
		var res ov
		if hint != "" {
			name = g.fresh(e, hint, spec.rtype)
			res = result(e, name)
		} else {
			res = ov{sort: "unit"}
		}
		e.heap = h1
		return lMatch{scrut: callText, arms: []lArm{
			{pat: "(" + h1 + ", .panic " + p + ")", body: env.f.mkPanic(at, h1, p)},
			{pat: "(" + h1 + ", .ok " + name + ")", body: k(e, res)},
		}}
	}
	failAt(at, "a call of %s (shape %s) is not supported", spec.name, spec.shape)
	return nil
}

// ---------------------------------------------------------------------------------------------
// loops (R5, R6)

func renderNode(n lnode, ind string) string {
	var b strings.Builder
	emit(&b, n, ind)
	return b.String()
}

func leanTokens(s string) map[string]bool {
	out := map[string]bool{}
	for _, t := range strings.FieldsFunc(s, func(r rune) bool {
		return !(r == '_' || r == '\'' || r >= '0' && r <= '9' || r >= 'a' && r <= 'z' || r >= 'A' && r <= 'Z' || r > 0x7f && r != '⟨' && r != '⟩' && r != '×' && r != '→')
	}) {
		out[t] = true
	}
	return out
}

const parMark = "§PARAMS§"

// a loop over the Lean list `listExpr`; `bindElem` binds the loop variables in the environment of
// one iteration and returns the pattern of the element
func (g *ogen) dynLoop(at ast.Node, env *oenv, listExpr, elemType string, bindElem func(e *oenv) string, body []ast.Stmt, k okont) lnode {
	f := env.f
	if f.gen != f.spec.gen {
		failAt(at, "nested loops are not supported")
	}
	// --- probe: what does the body do?
	prev := f.probe
	f.probe = &oprobe{}
	savedUsed := map[string]bool{}
	for n := range f.used {
		savedUsed[n] = true
	}
	savedDefs, savedN := g.defs, g.nloop
	heapChanged, logChanged := false, false
	accChanged := map[string]bool{}
	{
		pe := env.clone()
		pe.depth++
		bindElem(pe)
		probe := f.probe
		pe.ret = func(ast.Node, *oenv, ov) lnode { probe.returns = true; return lLeaf{"§"} }
		var endProbe okont
		pe.next = func(e *oenv) lnode { return endProbe(e) }
		endProbe = func(e *oenv) lnode {
			if e.heap != env.heap {
				heapChanged = true
			}
			if e.log != env.log {
				logChanged = true
			}
			for n, v := range env.locals {
				if v.sort == "gomap" && e.locals[n].lean != v.lean {
					accChanged[n] = true
				}
			}
			return lLeaf{"§"}
		}
		g.stmts(body, pe, endProbe)
	}
	probe := f.probe
	f.probe = prev
	if prev != nil {
		prev.panics = prev.panics || probe.panics
		prev.returns = prev.returns || probe.returns
	}
	for n := range f.used {
		if !savedUsed[n] {
			delete(f.used, n)
		}
	}
	g.defs, g.nloop = savedDefs, savedN
	ncarried := len(accChanged)
	if logChanged {
		ncarried++
	}
	protocol := ""
	switch {
	case probe.returns:
		if heapChanged || ncarried > 0 {
			failAt(at, "a loop that returns and also changes the heap / an accumulator is not supported")
		}
		protocol = "search"
	case heapChanged || probe.panics:
		if ncarried > 0 {
			failAt(at, "a loop that changes the heap and an accumulator is not supported")
		}
		protocol = "H"
		if probe.panics {
			protocol = "HO"
		}
	case ncarried == 1:
		protocol = "ACC"
	case ncarried == 0:
		return k(env) // the body has no effect
	default:
		failAt(at, "a loop with several accumulators is not supported")
	}
	// --- the helper
	g.nloop++
	name := strings.TrimSuffix(f.spec.gen, "Gen") + "LoopGen"
	if g.nloop > 1 {
		name = fmt.Sprintf("%sLoop%dGen", strings.TrimSuffix(f.spec.gen, "Gen"), g.nloop)
	}
	hf := &oframe{spec: f.spec, gen: name, used: f.used, heap0: f.heap0, mkPanic: f.mkPanic, mkRet: f.mkRet}
	he := env.clone()
	he.f = hf
	hp, cname, ctype, accName := "", "", "", ""
	rtype := ""
	switch protocol {
	case "HO", "H":
		hp = g.fresh(he, "h", "Heap")
		he.heap = hp
		hf.heap0 = hp
		rtype = "Heap"
		hf.mkRet = func(at2 ast.Node, _ *oenv, _ ov) lnode {
			failAt(at2, "return inside a loop that changes the heap")
			return nil
		}
		hf.mkPanic = func(at2 ast.Node, _, _ string) lnode {
			failAt(at2, "internal: unexpected panic in the loop")
			return nil
		}
		if protocol == "HO" {
			rtype = "Heap × Out Unit"
			hf.mkPanic = func(_ ast.Node, heap, kind string) lnode {
				return lLeaf{"(" + heap + ", .panic " + kind + ")"}
			}
		}
	case "ACC":
		if logChanged {
			ctype = "List Val"
			if env.logArity == 2 {
				ctype = "List (Str × Val)"
			}
			cname = g.fresh(he, "log", ctype)
			he.log = cname
		} else {
			for n := range accChanged {
				accName = n
			}
			m := he.locals[accName]
			ctype = "List (Str × " + m.whole + ")"
			cname = g.fresh(he, accName, ctype)
			m.lean = cname
			he.locals[accName] = m
		}
		rtype = ctype
	case "search":
		rtype = shapeType(f.spec.shape, f.spec.rtype)
	}
	l := g.fresh(he, "l", "List "+op(elemType))
	rest := g.fresh(he, "rest", "List "+op(elemType))
	baseEnv := he.clone()
	he.depth++
	pat := bindElem(he)
	recurse := func(e *oenv) lnode {
		parts := []string{name}
		if hp != "" {
			parts = append(parts, op(e.heap))
		} else if e.heap != he.heap {
			failAt(at, "internal: heap changed in a loop that does not thread it")
		}
		parts = append(parts, parMark, rest)
		if cname != "" {
			if logChanged {
				parts = append(parts, op(e.log))
			} else {
				parts = append(parts, op(e.locals[accName].lean))
			}
		}
		return lLeaf{strings.Join(parts, " ")}
	}
	he.next = recurse
	bodyTree := g.stmts(body, he, recurse)
	var baseTree lnode
	switch protocol {
	case "HO":
		baseTree = lLeaf{"(" + hp + ", .ok ())"}
	case "H":
		baseTree = lLeaf{hp}
	case "ACC":
		baseTree = lLeaf{cname}
	case "search":
		baseTree = k(baseEnv)
	}
	bodyText, baseText := renderNode(bodyTree, "    "), renderNode(baseTree, "    ")
	toks := leanTokens(bodyText + " " + baseText)
	var params, pargs []string
	for _, b := range env.scope {
		if toks[b.name] {
			params = append(params, "("+b.name+" : "+b.typ+")")
			pargs = append(pargs, b.name)
		}
	}
	pstr := strings.Join(pargs, " ")
	fix := func(s string) string {
		return strings.ReplaceAll(s, " "+parMark+" ", " "+pstr+" ")
	}
	if pstr == "" {
		fix = func(s string) string { return strings.ReplaceAll(s, " "+parMark+" ", " ") }
	}
	var b strings.Builder
	fmt.Fprintf(&b, "/-- the loop of `%s` at %s -/\ndef %s", f.spec.name, where(at), name)
	if hp != "" {
		fmt.Fprintf(&b, " (%s : Heap)", hp)
	}
	for _, p := range params {
		b.WriteString(" " + p)
	}
	fmt.Fprintf(&b, " (%s : List %s)", l, op(elemType))
	if cname != "" {
		fmt.Fprintf(&b, " (%s : %s)", cname, ctype)
	}
	fmt.Fprintf(&b, " : %s :=\n  match %s with\n  | [] =>", rtype, l)
	if _, leaf := baseTree.(lLeaf); leaf {
		b.WriteString(" " + baseText + "\n")
	} else {
		b.WriteString("\n    " + baseText + "\n")
	}
	fmt.Fprintf(&b, "  | %s :: %s =>\n    %s\n", pat, rest, fixLines(bodyText, fix))
	g.defs = append(g.defs, b.String())
	// --- the call
	parts := []string{name}
	if hp != "" {
		parts = append(parts, op(env.heap))
	}
	parts = append(parts, pargs...)
	parts = append(parts, op(listExpr))
	switch protocol {
	case "search":
		return lLeaf{strings.Join(parts, " ")}
	case "HO":
		e := env.clone()
		h1 := g.fresh(e, "h", "Heap")
		bad := e.clone()
		p := g.fresh(bad, "p", "PanicKind")
		e.heap = h1
		return lMatch{scrut: strings.Join(parts, " "), arms: []lArm{
			{pat: "(" + h1 + ", .panic " + p + ")", body: f.mkPanic(at, h1, p)},
			{pat: "(" + h1 + ", .ok _)", body: k(e)},
		}}
	case "H":
		e := env.clone()
		h1 := g.fresh(e, "h", "Heap")
		e.heap = h1
		return lLet{name: h1, val: strings.Join(parts, " "), body: k(e)}
	}
	// ACC
	e := env.clone()
	if logChanged {
		parts = append(parts, op(env.log))
		n := g.fresh(e, "log", ctype)
		e.log = n
		return lLet{name: n, val: strings.Join(parts, " "), body: k(e)}
	}
	m := e.locals[accName]
	parts = append(parts, op(m.lean))
	n := g.fresh(e, accName, ctype)
	m.lean = n
	m.freshMap = false
	e.locals[accName] = m
	return lLet{name: n, val: strings.Join(parts, " "), body: k(e)}
}

func fixLines(s string, fix func(string) string) string {
	lines := strings.Split(s, "\n")
	for i, ln := range lines {
		trimmed := strings.TrimLeft(ln, " ")
		lines[i] = ln[:len(ln)-len(trimmed)] + fix(trimmed)
	}
	return strings.Join(lines, "\n")
}

func (g *ogen) rangeStmt(st *ast.RangeStmt, env *oenv, k okont) lnode {
	if st.Tok != token.DEFINE && (st.Key != nil || st.Value != nil) {
		failAt(st, "range with assignment to existing variables")
	}
	varName := func(e ast.Expr) string {
		if e == nil {
			return "_"
		}
		id, ok := e.(*ast.Ident)
		if !ok {
			failAt(st, "unsupported range variable")
		}
		return id.Name
	}
	keyN, valN := varName(st.Key), varName(st.Value)
	if g.readsRecvVal(st.X, env) {
		if env.recvKind != "object" {
			failAt(st, "a range over the elements of a list is not supported here")
		}
		bind := func(e *oenv) string {
			kp, vp := "_", "_"
			if keyN != "_" {
				kp = g.fresh(e, keyN, "Str")
				g.bind(e, keyN, ov{sort: "str", lean: kp, rangeKey: true})
			}
			if valN != "_" {
				vp = g.fresh(e, valN, "Val")
				g.bind(e, valN, ov{sort: "field", lean: vp})
			}
			return "(" + kp + ", " + vp + ")"
		}
		return g.dynLoop(st, env, env.container(env.heap), "Str × Val", bind, st.Body.List, k)
	}
	return g.expr(st.X, env, "", func(e *oenv, c ov) lnode {
		if c.sort == "goval" && c.kvs != "" {
			// R15a: the entries of a Go map handed to the library
			bind := func(e2 *oenv) string {
				kp, vp := "_", "_"
				if keyN != "_" {
					kp = g.fresh(e2, keyN, "Str")
					g.bind(e2, keyN, ov{sort: "str", lean: kp, rangeKey: true})
				}
				if valN != "_" {
					vp = g.fresh(e2, valN, "GoVal")
					g.bind(e2, valN, ov{sort: "goval", lean: vp, whole: vp})
				}
				return "(" + kp + ", " + vp + ")"
			}
			return g.dynLoop(st, e, c.kvs, "Str × GoVal", bind, st.Body.List, k)
		}
		if keyN != "_" {
			failAt(st, "the index of a range over a slice is not supported")
		}
		switch c.sort {
		case "strs":
			bind := func(e2 *oenv) string {
				if valN == "_" {
					return "_"
				}
				vp := g.fresh(e2, valN, "Str")
				g.bind(e2, valN, ov{sort: "str", lean: vp})
				return vp
			}
			return g.dynLoop(st, e, c.lean, "Str", bind, st.Body.List, k)
		case "slist":
			var step func(i int, e2 *oenv) lnode
			step = func(i int, e2 *oenv) lnode {
				if i == len(c.elems) {
					return k(e2)
				}
				e3, leave := scoped(e2, func(e4 *oenv) lnode {
					e4.next = e.next
					return step(i+1, e4)
				})
				g.bind(e3, valN, c.elems[i])
				after := leave
				e3.next = after
				return g.stmts(st.Body.List, e3, after)
			}
			return step(0, e)
		}
		failAt(st, "unsupported range over %s (sort %q)", src(st.X), c.sort)
		return nil
	})
}

func (g *ogen) forStmt(st *ast.ForStmt, env *oenv, k okont) lnode {
	init, ok := st.Init.(*ast.AssignStmt)
	if !ok || init.Tok != token.DEFINE || len(init.Lhs) != 1 || len(init.Rhs) != 1 || st.Cond == nil || st.Post == nil {
		failAt(st, "unsupported loop header")
	}
	iv, ok := init.Lhs[0].(*ast.Ident)
	if !ok || iv.Name == "_" {
		failAt(st, "unsupported loop header")
	}
	// the step
	step := 0
	switch p := st.Post.(type) {
	case *ast.IncDecStmt:
		if isIdent(p.X, iv.Name) && p.Tok == token.INC {
			step = 1
		}
	case *ast.AssignStmt:
		if len(p.Lhs) != 1 || len(p.Rhs) != 1 || !isIdent(p.Lhs[0], iv.Name) {
			break
		}
		inc := ast.Expr(nil)
		switch p.Tok {
		case token.ADD_ASSIGN: // i += c
			inc = p.Rhs[0]
		case token.ASSIGN: // i = i + c
			if be, ok := unparen(p.Rhs[0]).(*ast.BinaryExpr); ok && be.Op == token.ADD && isIdent(be.X, iv.Name) {
				inc = be.Y
			}
		}
		if inc != nil {
			if lit, ok := unparen(inc).(*ast.BasicLit); ok && lit.Kind == token.INT {
				if _, err := fmt.Sscanf(lit.Value, "%d", &step); err != nil {
					step = 0
				}
			}
		}
	}
	if step <= 0 {
		failAt(st.Post, "unsupported loop step: %s", src(st.Post))
	}
	cond, ok := unparen(st.Cond).(*ast.BinaryExpr)
	if !ok || cond.Op != token.LSS || !isIdent(cond.X, iv.Name) {
		failAt(st.Cond, "unsupported loop condition: %s", src(st.Cond))
	}
	return g.expr(init.Rhs[0], env, "", func(e *oenv, start ov) lnode {
		if start.sort != "int" || !start.known {
			failAt(init, "the loop does not start at a constant")
		}
		return g.expr(cond.Y, e, "", func(e *oenv, bound ov) lnode {
			switch {
			case bound.sort == "int" && bound.known:
				// statically known argument list: unroll
				var iter func(i int, e2 *oenv) lnode
				iter = func(i int, e2 *oenv) lnode {
					if i >= bound.n {
						return k(e2)
					}
					if i > 64 {
						failAt(st, "loop too long to unroll")
					}
					e3, leave := scoped(e2, func(e4 *oenv) lnode {
						e4.next = e.next
						return iter(i+step, e4)
					})
					g.bind(e3, iv.Name, ov{sort: "int", known: true, n: i})
					after := leave
					e3.next = after
					return g.stmts(st.Body.List, e3, after)
				}
				return iter(start.n, e)
			case bound.sort == "int" && bound.sym == "len":
				// R6: the pairs of the variadic argument
				if start.n != 0 || step != 2 {
					failAt(st, "the loop over the key-value pairs must be `for i := 0; i < len(values); i += 2`")
				}
				bind := func(e2 *oenv) string {
					kq := g.fresh(e2, "kq", "Option Str")
					gv := g.fresh(e2, "g", "GoVal")
					g.bind(e2, iv.Name, ov{sort: "int", sym: "i", pairKey: kq, pairVal: gv})
					return "(" + kq + ", " + gv + ")"
				}
				return g.dynLoop(st, e, "pairs", "Option Str × GoVal", bind, st.Body.List, k)
			}
			failAt(st.Cond, "unsupported loop bound: %s", src(cond.Y))
			return nil
		})
	})
}

// ---------------------------------------------------------------------------------------------
// type switches (R1, R11)

func (g *ogen) typeSwitch(st *ast.TypeSwitchStmt, env *oenv, k okont) lnode {
	if st.Init != nil {
		failAt(st, "type switch with an init statement")
	}
	bound := ""
	var ta *ast.TypeAssertExpr
	switch a := st.Assign.(type) {
	case *ast.ExprStmt:
		ta, _ = unparen(a.X).(*ast.TypeAssertExpr)
	case *ast.AssignStmt:
		if len(a.Lhs) == 1 && len(a.Rhs) == 1 {
			bound = a.Lhs[0].(*ast.Ident).Name
			ta, _ = unparen(a.Rhs[0]).(*ast.TypeAssertExpr)
		}
	}
	if ta == nil || ta.Type != nil {
		failAt(st, "unrecognised type switch")
	}
	var deflt *ast.CaseClause
	var clauses []*ast.CaseClause
	for _, cc := range st.Body.List {
		c := cc.(*ast.CaseClause)
		if c.List == nil {
			if deflt != nil {
				failAt(c, "two default clauses")
			}
			deflt = c
		} else {
			clauses = append(clauses, c)
		}
		for _, s := range c.Body {
			ast.Inspect(s, func(n ast.Node) bool {
				if b, ok := n.(*ast.BranchStmt); ok {
					failAt(b, "unsupported branch statement: %s", src(b))
				}
				return true
			})
		}
	}
	runDefault := func(e *oenv) lnode {
		if deflt == nil {
			return k(e)
		}
		inner, leave := scoped(e, k)
		return g.stmts(deflt.Body, inner, leave)
	}
	// (a) the dynamic type of the stored field ego.val[key] (a missing key reads as nil)
	if ix, ok := unparen(ta.X).(*ast.IndexExpr); ok && g.readsRecvVal(ix.X, env) && env.recvKind == "object" {
		if bound != "" {
			failAt(st, "a type switch over a stored field that binds the value is not supported")
		}
		return g.expr(ix.Index, env, "", func(e *oenv, key ov) lnode {
			if key.sort != "str" {
				failAt(st, "the key is not a string")
			}
			out := lMatch{scrut: "lookup (" + e.container(e.heap) + ") " + op(key.lean)}
			seen := map[string]bool{}
			for _, c := range clauses {
				for _, t := range c.List {
					pat, ok := objFieldPats[goTypeStr(t)]
					if !ok {
						failAt(t, "unknown dynamic type of a stored field: %s", goTypeStr(t))
					}
					if seen[pat] {
						failAt(t, "duplicate case %s", goTypeStr(t))
					}
					seen[pat] = true
					inner, leave := scoped(e, k)
					out.arms = append(out.arms, lArm{pat: "some " + op(pat), body: g.stmts(c.Body, inner, leave)})
				}
			}
			if len(seen) == len(objFieldPats) {
				out.arms = append(out.arms, lArm{pat: "none", body: runDefault(e.clone())})
			} else {
				out.arms = append(out.arms, lArm{pat: "_", body: runDefault(e.clone())})
			}
			return out
		})
	}
	// (b) a Go value handed to the library / (c) a pure tree
	return g.expr(ta.X, env, "", func(e *oenv, v ov) lnode {
		if v.sort == "jval" {
			return g.treeSwitch(st, e, v, bound, clauses, runDefault, k)
		}
		if v.sort == "field" {
			// (a') the same switch as (a) over a local that holds the field read by `x, ok := ego.val[key]` (the
			// branch in which the key exists: there the local is the stored field — the patterns of (a) without
			// `some`; a stored field is never the nil interface, so with all dynamic types listed default is dead)
			if bound != "" && bound != "_" {
				failAt(st, "a type switch over a stored field that binds the value is not supported")
			}
			out := lMatch{scrut: v.lean}
			seen := map[string]bool{}
			for _, c := range clauses {
				for _, t := range c.List {
					pat, ok := objFieldPats[goTypeStr(t)]
					if !ok {
						failAt(t, "unknown dynamic type of a stored field: %s", goTypeStr(t))
					}
					if seen[pat] {
						failAt(t, "duplicate case %s", goTypeStr(t))
					}
					seen[pat] = true
					inner, leave := scoped(e, k)
					out.arms = append(out.arms, lArm{pat: pat, body: g.stmts(c.Body, inner, leave)})
				}
			}
			if len(seen) < len(objFieldPats) {
				out.arms = append(out.arms, lArm{pat: "_", body: runDefault(e.clone())})
			}
			return out
		}
		if v.sort != "goval" || v.whole == "" {
			failAt(st, "unsupported type switch over a value of sort %q", v.sort)
		}
		out := lMatch{scrut: v.lean}
		seen := map[string]bool{}
		for _, c := range clauses {
			for _, t := range c.List {
				goT := goTypeStr(t)
				ce, leave := scoped(e, k)
				name := "_"
				mapPat, kvsName := "", ""
				mk := func(hint, typ string) string {
					if bound == "" || bound == "_" || len(c.List) != 1 {
						return "_"
					}
					name = g.fresh(ce, hint, typ)
					return name
				}
				var pat string
				var bv ov
				switch {
				case goT == "Object":
					pat = ".obj " + mk(bound, "Ref")
					bv = ov{sort: "ref", lean: name, addr: name + ".addr", kind: "object"}
				case goT == "List":
					pat = ".list " + mk(bound, "Ref")
					bv = ov{sort: "ref", lean: name, addr: name + ".addr", kind: "list"}
				case strings.HasPrefix(goT, "map[string]") && objFlavours[strings.TrimPrefix(goT, "map[string]")] != "":
					pat = ".map ." + objFlavours[strings.TrimPrefix(goT, "map[string]")] + " _"
					bv = ov{sort: "goval", lean: v.whole, whole: v.whole}
					if kn := mk(bound, "List (Str × GoVal)"); kn != "_" {
						// R15a: the entries; the name is given back below if the clause does not use it
						mapPat, kvsName = strings.TrimSuffix(pat, "_")+kn, kn
						bv.kvs = kn
					}
				case strings.HasPrefix(goT, "[]") && objFlavours[strings.TrimPrefix(goT, "[]")] != "":
					pat = ".slice ." + objFlavours[strings.TrimPrefix(goT, "[]")] + " _"
					bv = ov{sort: "goval", lean: v.whole, whole: v.whole}
				case goT == "string":
					pat = ".str " + mk(bound, "Str")
					bv = ov{sort: "str", lean: name}
				case goT == "bool":
					pat = ".bool " + mk(bound, "Bool")
					bv = ov{sort: "bool", lean: name}
				case objIntW[goT] != "":
					pat = ".intw ." + objIntW[goT] + " " + mk(bound, "Int")
					bv = ov{sort: "goint", lean: name}
				case goT == "float64":
					pat = ".f64 " + mk(bound, "F64")
					bv = ov{sort: "float", lean: name}
				case goT == "float32":
					pat = ".f32 " + mk(bound, "UInt32")
					bv = ov{sort: "gof32", lean: name}
				case goT == "nil":
					pat = ".nil"
					bv = ov{sort: "nil"}
				default:
					failAt(t, "unsupported case type %s", goT)
				}
				if seen[goT] {
					failAt(t, "duplicate case %s", goT)
				}
				seen[goT] = true
				if name == "_" {
					bv = ov{sort: "undef"}
					if strings.HasPrefix(goT, "map[") || strings.HasPrefix(goT, "[]") {
						bv = ov{sort: "goval", lean: v.whole, whole: v.whole}
					}
				}
				if bound != "" && bound != "_" {
					if len(c.List) != 1 {
						bv = v
					}
					g.bind(ce, bound, bv)
				}
				body := g.stmts(c.Body, ce, leave)
				if kvsName != "" {
					if leanTokens(renderNode(body, ""))[kvsName] {
						pat = mapPat
					} else {
						delete(e.f.used, kvsName)
					}
				}
				out.arms = append(out.arms, lArm{pat: pat, body: body})
			}
		}
		dflt, _ := scoped(e, k)
		if bound != "" && bound != "_" {
			g.bind(dflt, bound, v)
		}
		out.arms = append(out.arms, lArm{pat: "_", body: runDefault(dflt)})
		return out
	})
}

// (c) R12: the type switch of `native` over the pure tree
func (g *ogen) treeSwitch(st *ast.TypeSwitchStmt, e *oenv, v ov, bound string, clauses []*ast.CaseClause,
	runDefault func(*oenv) lnode, k okont) lnode {
	out := lMatch{scrut: v.lean}
	seen := map[string]bool{}
	for _, c := range clauses {
		if len(c.List) != 1 {
			failAt(c, "a clause with several types")
		}
		goT := goTypeStr(c.List[0])
		ce, leave := scoped(e, k)
		var pat string
		var bv ov
		switch goT {
		case "Object":
			n := g.fresh(ce, "kvs", "List (Str × JVal)")
			pat, bv = ".obj "+n, ov{sort: "jobj", lean: n}
		case "List":
			n := g.fresh(ce, "xs", "List JVal")
			pat, bv = ".list "+n, ov{sort: "jlist", lean: n}
		default:
			failAt(c, "unsupported case type %s", goT)
		}
		if seen[goT] {
			failAt(c, "duplicate case %s", goT)
		}
		seen[goT] = true
		if bound != "" && bound != "_" {
			g.bind(ce, bound, bv)
		}
		out.arms = append(out.arms, lArm{pat: pat, body: g.stmts(c.Body, ce, leave)})
	}
	// the default clause, once per remaining constructor; a scalar of the tree is the scalar of NVal
	type sc struct{ pat, hint, typ, nval string }
	rest := []sc{{".null", "", "", ".nil"}, {".bool", "b", "Bool", ".bool"}, {".int", "i", "Int", ".int"},
		{".float", "f", "F64", ".float"}, {".str", "s", "Str", ".str"}}
	if !seen["List"] {
		failAt(st, "native: no case for List")
	}
	if !seen["Object"] {
		failAt(st, "native: no case for Object")
	}
	for _, r := range rest {
		ce, _ := scoped(e, k)
		pat, lean := r.pat, r.nval
		if r.hint != "" {
			n := g.fresh(ce, r.hint, r.typ)
			pat, lean = r.pat+" "+n, r.nval+" "+n
		}
		if bound != "" && bound != "_" {
			g.bind(ce, bound, ov{sort: "nval", lean: lean})
		}
		out.arms = append(out.arms, lArm{pat: pat, body: runDefault(ce)})
	}
	return out
}

// R14d: `x, ok := value.(Object)` / `value.(List)` on the pure tree held by the variable `varName`: one arm per
// constructor, the rest of the function is executed in each with the variable refined to the constructor
func (g *ogen) treeAssert(e *oenv, varName string, v ov, goT, xName, okName string, k okont) lnode {
	old, isLocal := e.locals[varName]
	if !isLocal || old.sort != "jval" || old.lean != v.lean {
		failAt(g.cur, "a type assertion on a tree that is not held by a variable")
	}
	type ctor struct{ pat, hint, typ, sort, nval string }
	ctors := []ctor{{".obj", "kvs", "List (Str × JVal)", "jobj", ""}, {".list", "xs", "List JVal", "jlist", ""},
		{".null", "", "", "jscalar", ".nil"}, {".bool", "b", "Bool", "jscalar", ".bool"}, {".int", "i", "Int", "jscalar", ".int"},
		{".float", "f", "F64", "jscalar", ".float"}, {".str", "s", "Str", "jscalar", ".str"}}
	out := lMatch{scrut: v.lean}
	for _, c := range ctors {
		ce := e.clone()
		pat, rv := c.pat, ov{sort: c.sort, lean: c.nval}
		if c.hint != "" {
			n := g.fresh(ce, c.hint, c.typ)
			pat = c.pat + " " + n
			if c.sort == "jscalar" {
				rv.lean = c.nval + " " + n
			} else {
				rv.lean = n
			}
		}
		rv.depth = old.depth
		ce.locals[varName] = rv
		if (c.sort == "jobj" && goT == "Object") || (c.sort == "jlist" && goT == "List") {
			g.bind(ce, xName, rv)
			g.bind(ce, okName, boolOf(true))
		} else {
			g.bind(ce, xName, ov{sort: "undef"})
			g.bind(ce, okName, boolOf(false))
		}
		out.arms = append(out.arms, lArm{pat: pat, body: k(ce)})
	}
	return out
}

// R12: v.ForEach(func(key, val) {…}) / v.ForEachValue(func(x) {…}) over the children of a tree node: the
// function literal fills one fresh local map / slice, one element per child
func (g *ogen) treeLoop(at *ast.CallExpr, env *oenv, recv ov, fl *ast.FuncLit, k ovkont) lnode {
	var names []string
	for _, f := range fl.Type.Params.List {
		for _, id := range f.Names {
			names = append(names, id.Name)
		}
	}
	if fl.Type.Results != nil && len(fl.Type.Results.List) > 0 {
		failAt(fl, "the function literal must not return a value")
	}
	inner := env.clone()
	elemType, outType, pat := "", "", ""
	l := g.fresh(inner, "l", "")
	rest := g.fresh(inner, "rest", "")
	switch recv.sort {
	case "jobj":
		if len(names) != 2 {
			failAt(fl, "ForEach takes a function of the key and the value")
		}
		kn, vn := g.fresh(inner, names[0], "Str"), g.fresh(inner, names[1], "JVal")
		g.bind(inner, names[0], ov{sort: "str", lean: kn, rangeKey: true})
		g.bind(inner, names[1], ov{sort: "jval", lean: vn})
		elemType, pat = "Str × JVal", "("+kn+", "+vn+")"
	case "jlist":
		if len(names) != 1 {
			failAt(fl, "ForEachValue takes a function of the value")
		}
		vn := g.fresh(inner, names[0], "JVal")
		g.bind(inner, names[0], ov{sort: "jval", lean: vn})
		elemType, pat = "JVal", vn
	}
	g.nloop++
	name := strings.TrimSuffix(env.f.spec.gen, "Gen") + map[string]string{"jobj": "FieldsGen", "jlist": "ListGen"}[recv.sort]
	if env.f.used[name] {
		failAt(at, "second loop over the children of a %s", recv.sort)
	}
	env.f.used[name] = true
	inner.ret = func(at2 ast.Node, _ *oenv, _ ov) lnode {
		failAt(at2, "return inside the function literal")
		return nil
	}
	acc, elem := "", ""
	g.stmts(fl.Body.List, inner, func(e *oenv) lnode {
		for n, before := range env.locals {
			after := e.locals[n]
			if after.lean == before.lean {
				continue
			}
			if acc != "" || (before.sort != "gomap" && before.sort != "goslice") || before.lean != "[]" ||
				!strings.HasPrefix(after.lean, "[") || !strings.HasSuffix(after.lean, "]") || strings.Contains(after.lean, "] ++ [") {
				failAt(fl, "the function literal must add exactly one element to one fresh local map / slice")
			}
			acc, elem = n, after.lean[1:len(after.lean)-1]
			outType = before.whole
			if before.sort == "gomap" {
				outType = "Str × " + before.whole
			}
		}
		if e.heap != env.heap || e.log != env.log {
			failAt(fl, "the function literal has other effects")
		}
		return lLeaf{"§"}
	})
	if acc == "" {
		failAt(fl, "the function literal adds nothing")
	}
	toks := leanTokens(elem)
	for _, b := range env.scope {
		if toks[b.name] {
			failAt(fl, "the element depends on %s", b.name)
		}
	}
	g.defs = append(g.defs, fmt.Sprintf("/-- the children visited by `%s` at %s -/\ndef %s (%s : List %s) : List %s :=\n  match %s with\n  | [] => []\n  | %s :: %s => %s :: %s %s\n",
		src(at.Fun), where(at), name, l, op(elemType), op(outType), l, pat, rest, op(elem), name, rest))
	e := env.clone()
	m := e.locals[acc]
	m.lean, m.freshMap = name+" "+op(recv.lean), false
	e.locals[acc] = m
	return k(e, ov{sort: "unit"})
}

func (g *ogen) genNative() string {
	s := &ospec{recv: "", name: "native", gen: "nativeGen", shape: "P", rtype: "NVal", anyAs: "jval"}
	main := g.translateParts(s)
	var b strings.Builder
	b.WriteString("mutual\n")
	b.WriteString(main)
	for _, d := range g.defs {
		b.WriteString(d)
	}
	b.WriteString("end\n\n")
	return b.String()
}
