package main

// Storage.lean — the "storage fingerprint" of the list implementation: every statement of a *list method or of a list
// constructor that decides where the elements of a list live — an assignment to `x.val` or `x.val[i]`, a struct copy `*x = …`,
// a call of append / copy / make / sort.* over `x.val` (or a slice of it), a slice expression over `x.val`, a `list{…}` literal —
// printed as source text, per function, in source order.
//
// The method translators (listgen*.go) read `[]field` as a list without capacity; which statements share, grow, re-slice or
// replace backing arrays is exactly what that reading abstracts from, and what `Model/Slices` models by hand. This file is the
// regenerated part of that tie: `Lemmas/StorageTie.lean` states, next to each operation of `Slices.step`, the statements it was
// written from, and `storage_sites_expected` fails when the source no longer says that (rule S1: text equality after the
// pre-passes, so a helper extracted from or inlined into such a statement does not change the fingerprint; a renamed local does).

import (
	"bytes"
	"fmt"
	"go/ast"
	"go/parser"
	"go/printer"
	"go/token"
	"sort"
	"strings"
)

// canonStmt prints a statement in the printer's canonical spacing, whatever positions its nodes carry (nodes spliced in by
// the pre-passes carry positions of other places, and the printer then spaces them oddly): print, parse the text again in a
// fresh file set, print that.
func canonStmt(s ast.Stmt) string {
	text := src(s)
	fs := token.NewFileSet()
	f, err := parser.ParseFile(fs, "s.go", "package p\nfunc _() {\n"+text+"\n}\n", 0)
	if err != nil || len(f.Decls) != 1 {
		return text
	}
	fd, ok := f.Decls[0].(*ast.FuncDecl)
	if !ok || fd.Body == nil || len(fd.Body.List) != 1 {
		return text
	}
	var b bytes.Buffer
	if err := printer.Fprint(&b, fs, fd.Body.List[0]); err != nil {
		return text
	}
	return strings.Join(strings.Fields(b.String()), " ")
}

// mentionsVal: the expression contains a selector `.val`.
func mentionsVal(n ast.Node) bool {
	found := false
	ast.Inspect(n, func(x ast.Node) bool {
		if s, ok := x.(*ast.SelectorExpr); ok && s.Sel.Name == "val" {
			found = true
		}
		return !found
	})
	return found
}

func isListLit(e ast.Expr) bool {
	e = unparen(e)
	if u, ok := e.(*ast.UnaryExpr); ok && u.Op == token.AND {
		e = unparen(u.X)
	}
	cl, ok := e.(*ast.CompositeLit)
	if !ok {
		return false
	}
	id, ok := cl.Type.(*ast.Ident)
	return ok && id.Name == "list"
}

// storageRelevant: does this simple statement (or expression inside it) decide about backing arrays?
func storageRelevant(st ast.Stmt) bool {
	rel := false
	if as, ok := st.(*ast.AssignStmt); ok {
		for _, l := range as.Lhs {
			l = unparen(l)
			if mentionsVal(l) {
				rel = true
			}
			if s, ok := l.(*ast.StarExpr); ok {
				if _, ok := unparen(s.X).(*ast.Ident); ok {
					rel = true // *ego = …: the whole struct, storage and registration included
				}
			}
		}
	}
	ast.Inspect(st, func(x ast.Node) bool {
		switch e := x.(type) {
		case *ast.FuncLit:
			return true
		case *ast.CallExpr:
			name := ""
			switch f := e.Fun.(type) {
			case *ast.Ident:
				name = f.Name
			case *ast.SelectorExpr:
				if p, ok := f.X.(*ast.Ident); ok && (p.Name == "sort" || p.Name == "slices") {
					name = p.Name + "." + f.Sel.Name
				}
			}
			switch {
			case name == "append" || name == "copy" || strings.HasPrefix(name, "sort.") || strings.HasPrefix(name, "slices."):
				for _, a := range e.Args {
					if mentionsVal(a) {
						rel = true
					}
				}
			case name == "make":
				// make([]field, …): a new backing array for a list
				if len(e.Args) > 0 {
					if at, ok := e.Args[0].(*ast.ArrayType); ok {
						if id, ok := at.Elt.(*ast.Ident); ok && id.Name == "field" {
							rel = true
						}
					}
				}
			}
		case *ast.SliceExpr:
			if mentionsVal(e.X) {
				rel = true
			}
		case *ast.CompositeLit:
			if id, ok := e.Type.(*ast.Ident); ok && id.Name == "list" {
				rel = true
			}
			if at, ok := e.Type.(*ast.ArrayType); ok {
				if id, ok := at.Elt.(*ast.Ident); ok && id.Name == "field" {
					rel = true // []field{}: the empty backing array
				}
			}
		}
		return true
	})
	return rel
}

// storageSitesOf lists the relevant simple statements of a body in source order (compound statements are entered;
// of an if / for / switch header only the init and post statements count).
func storageSitesOf(body *ast.BlockStmt) []string {
	var out []string
	var walk func(s ast.Stmt)
	walkList := func(l []ast.Stmt) {
		for _, s := range l {
			walk(s)
		}
	}
	walk = func(s ast.Stmt) {
		switch s := s.(type) {
		case nil:
		case *ast.BlockStmt:
			walkList(s.List)
		case *ast.IfStmt:
			walk(s.Init)
			walk(s.Body)
			walk(s.Else)
		case *ast.ForStmt:
			walk(s.Init)
			walk(s.Body)
			walk(s.Post)
		case *ast.RangeStmt:
			walk(s.Body)
		case *ast.SwitchStmt:
			walk(s.Init)
			walk(s.Body)
		case *ast.TypeSwitchStmt:
			walk(s.Init)
			walk(s.Body)
		case *ast.CaseClause:
			walkList(s.Body)
		case *ast.LabeledStmt:
			walk(s.Stmt)
		default:
			// simple statements; function literals inside them (closures such as NewListFrom's init) are entered too
			if storageRelevant(s) {
				hasLit := false
				ast.Inspect(s, func(x ast.Node) bool {
					if fl, ok := x.(*ast.FuncLit); ok {
						hasLit = true
						walk(fl.Body)
						return false
					}
					return true
				})
				if !hasLit {
					out = append(out, canonStmt(s))
				}
			} else {
				ast.Inspect(s, func(x ast.Node) bool {
					if fl, ok := x.(*ast.FuncLit); ok {
						walk(fl.Body)
						return false
					}
					return true
				})
			}
		}
	}
	walk(body)
	return out
}

func genStorage(p *pkgInfo) string {
	type entry struct {
		name  string
		sites []string
	}
	var es []entry
	for _, name := range sortedMethodNames(p.methods["list"]) {
		m := p.methods["list"][name]
		if m.decl.Body == nil {
			continue
		}
		// (a helper that inline.go inlined everywhere is gone from the package; one it could not inline is listed under its own name)
		if s := normalizeSites(storageSitesOf(m.decl.Body), m.decl.Body, m.recvName); len(s) > 0 {
			es = append(es, entry{"list." + name, s})
		}
	}
	var fnames []string
	for n := range p.funcs {
		fnames = append(fnames, n)
	}
	sort.Strings(fnames)
	for _, n := range fnames {
		raw := storageSitesOf(p.funcs[n].Body)
		aboutLists := false
		for _, t := range raw {
			if strings.Contains(t, "list{") || strings.Contains(t, "[]field") {
				aboutLists = true // a function that makes a list (the `.val` of an object is a map: not this fingerprint's business)
			}
		}
		if !aboutLists {
			continue
		}
		if s := normalizeSites(raw, p.funcs[n].Body, ""); len(s) > 0 {
			es = append(es, entry{n, s})
		}
	}
	var b strings.Builder
	b.WriteString("/-\nGENERATED by vextract from the Go source — do not edit.\n\n")
	b.WriteString("`storageSites`: per function, in source order, the statements that decide where the elements of a list live\n(assignments to `x.val` / `x.val[i]`, struct copies, append / copy / make / sort over `x.val`, slice expressions over\n`x.val`, `list{…}` and `[]field{…}` literals). Compared with the statements `Model/Slices` was written from in\n`Lemmas/StorageTie.lean`.\n-/\n")
	b.WriteString("namespace Anytype.Generated\n\n")
	b.WriteString("def storageSites : List (String × List String) := [\n")
	for i, e := range es {
		sep := ","
		if i == len(es)-1 {
			sep = ""
		}
		fmt.Fprintf(&b, "  (%s, %s)%s\n", leanString(e.name), leanStringList(e.sites), sep)
	}
	b.WriteString("]\n\nend Anytype.Generated\n")
	return b.String()
}

// ---------------------------------------------------------------------------------------------
// Normal form of the fingerprint (rule S2). The statements are compared up to
//   (a) the names of variables: the receiver is `r`, every other variable is v1, v2, … in order of first appearance in the
//       statement (function names, field names, types and literals stay);
//   (b) temporaries: a site `x := E` whose variable is used exactly once in the whole function, inside a later site, is
//       substituted there (so `val := make(…); l := &list{val: val}` and `l := &list{val: make(…)}` are one fingerprint);
//   (d) `x := e` and `var x T = e` read `x = e`; (e) the capacity argument of a three-argument `make` reads `_`;
//   (c) repetition: a site that repeats an earlier site of the same function is listed once (three switch arms that end in the
//       same assignment, or one assignment after the switch).
// None of this is a proof step: the fingerprint only says which storage statements the source has; what they do is the business
// of `Model/Slices` and of the slices stratum.

var notVariables = map[string]bool{"nil": true, "true": true, "false": true, "any": true,
	"int": true, "string": true, "bool": true, "float64": true, "_": true, "iota": true}

// identUses counts the occurrences of each identifier used as a variable in n.
func variableIdents(n ast.Node, visit func(id *ast.Ident)) {
	var walk func(x ast.Node)
	walk = func(x ast.Node) {
		switch e := x.(type) {
		case nil:
			return
		case *ast.Ident:
			if !notVariables[e.Name] && !ast.IsExported(e.Name) {
				visit(e)
			}
			return
		case *ast.SelectorExpr:
			walk(e.X)
			return
		case *ast.CallExpr:
			if _, ok := e.Fun.(*ast.Ident); !ok {
				walk(e.Fun)
			}
			for _, a := range e.Args {
				walk(a)
			}
			return
		case *ast.KeyValueExpr:
			if _, ok := e.Key.(*ast.Ident); !ok {
				walk(e.Key)
			}
			walk(e.Value)
			return
		case *ast.CompositeLit:
			for _, el := range e.Elts {
				walk(el)
			}
			return
		case *ast.ArrayType, *ast.MapType, *ast.FuncType, *ast.InterfaceType, *ast.StructType:
			return
		case *ast.TypeAssertExpr:
			walk(e.X)
			return
		}
		// generic descent over the children
		first := true
		ast.Inspect(x, func(c ast.Node) bool {
			if first {
				first = false
				return true
			}
			if c != nil {
				walk(c)
			}
			return false
		})
	}
	walk(n)
}

func normalizeSites(sites []string, body *ast.BlockStmt, recv string) []string {
	if len(sites) == 0 {
		return nil
	}
	uses := map[string]int{}
	variableIdents(body, func(id *ast.Ident) { uses[id.Name]++ })
	fs := token.NewFileSet()
	f, err := parser.ParseFile(fs, "s.go", "package p\nfunc _() {\n"+strings.Join(sites, "\n")+"\n}\n", 0)
	if err != nil {
		return sites
	}
	stmts := f.Decls[0].(*ast.FuncDecl).Body.List
	// (b) forward substitution of single-use temporaries
	for changed := true; changed; {
		changed = false
		for i, st := range stmts {
			as, ok := st.(*ast.AssignStmt)
			if !ok || as.Tok != token.DEFINE || len(as.Lhs) != 1 || len(as.Rhs) != 1 {
				continue
			}
			id, ok := as.Lhs[0].(*ast.Ident)
			if !ok || uses[id.Name] != 2 { // the definition and one use
				continue
			}
			done := false
			for j := i + 1; j < len(stmts) && !done; j++ {
				n := 0
				variableIdents(stmts[j], func(x *ast.Ident) {
					if x.Name == id.Name {
						n++
					}
				})
				if n != 1 {
					continue
				}
				replaceIdent(stmts[j], id.Name, &ast.ParenExpr{X: as.Rhs[0]})
				done = true
			}
			if done {
				stmts = append(stmts[:i:i], stmts[i+1:]...)
				changed = true
				break
			}
		}
	}
	var out []string
	seen := map[string]bool{}
	for i, st := range stmts {
		// (d) a declaration `var x T = e` and a definition `x := e` are the assignment `x = e`
		if ds, ok := st.(*ast.DeclStmt); ok {
			if gd, ok := ds.Decl.(*ast.GenDecl); ok && gd.Tok == token.VAR && len(gd.Specs) == 1 {
				if vs, ok := gd.Specs[0].(*ast.ValueSpec); ok && len(vs.Names) == 1 && len(vs.Values) == 1 {
					st = &ast.AssignStmt{Lhs: []ast.Expr{vs.Names[0]}, Tok: token.ASSIGN, Rhs: []ast.Expr{vs.Values[0]}}
					stmts[i] = st
				}
			}
		}
		if as, ok := st.(*ast.AssignStmt); ok && as.Tok == token.DEFINE {
			as.Tok = token.ASSIGN
		}
		// (e) the capacity argument of a three-argument make is `_`: any capacity will do (the theorems hold for every capacity)
		ast.Inspect(st, func(x ast.Node) bool {
			if ce, ok := x.(*ast.CallExpr); ok {
				if id, ok := ce.Fun.(*ast.Ident); ok && id.Name == "make" && len(ce.Args) == 3 {
					ce.Args[2] = ast.NewIdent("_")
				}
			}
			return true
		})
		// (a) names, statement by statement: the receiver is r, the other variables v1, v2, … in order of appearance
		names := map[string]string{}
		if recv != "" {
			names[recv] = "r"
		}
		variableIdents(st, func(id *ast.Ident) {
			if _, ok := names[id.Name]; !ok {
				names[id.Name] = fmt.Sprintf("v%d", len(names)+1-map[bool]int{true: 1, false: 0}[recv != ""])
			}
		})
		variableIdents(st, func(id *ast.Ident) { id.Name = names[id.Name] })
		var b bytes.Buffer
		if err := printer.Fprint(&b, fs, st); err != nil {
			return sites
		}
		// print, parse, print: the canonical spacing and no redundant parentheses
		t := unparenText(strings.Join(strings.Fields(b.String()), " "))
		if !seen[t] { // (c)
			seen[t] = true
			out = append(out, t)
		}
	}
	return out
}

// replaceIdent substitutes e for the variable `name` in n (n is a fresh tree, parsed from text: no sharing).
func replaceIdent(n ast.Node, name string, e ast.Expr) {
	is := func(x ast.Expr) bool {
		id, ok := x.(*ast.Ident)
		return ok && id.Name == name
	}
	ast.Inspect(n, func(x ast.Node) bool {
		switch v := x.(type) {
		case *ast.CallExpr:
			for i, a := range v.Args {
				if is(a) {
					v.Args[i] = e
				}
			}
		case *ast.KeyValueExpr:
			if is(v.Value) {
				v.Value = e
			}
		case *ast.AssignStmt:
			for i, a := range v.Rhs {
				if is(a) {
					v.Rhs[i] = e
				}
			}
		case *ast.SelectorExpr:
			if is(v.X) {
				v.X = e
			}
		case *ast.SliceExpr:
			if is(v.X) {
				v.X = e
			}
		case *ast.IndexExpr:
			if is(v.X) {
				v.X = e
			}
			if is(v.Index) {
				v.Index = e
			}
		case *ast.UnaryExpr:
			if is(v.X) {
				v.X = e
			}
		case *ast.BinaryExpr:
			if is(v.X) {
				v.X = e
			}
			if is(v.Y) {
				v.Y = e
			}
		case *ast.ReturnStmt:
			for i, a := range v.Results {
				if is(a) {
					v.Results[i] = e
				}
			}
		case *ast.CompositeLit:
			for i, a := range v.Elts {
				if is(a) {
					v.Elts[i] = e
				}
			}
		}
		return true
	})
}

// unparenText drops parentheses around a call or composite literal that forward substitution introduced where none are needed:
// "(make(…))" as an argument or field value.
func unparenText(t string) string {
	fs := token.NewFileSet()
	f, err := parser.ParseFile(fs, "s.go", "package p\nfunc _() {\n"+t+"\n}\n", 0)
	if err != nil {
		return t
	}
	st := f.Decls[0].(*ast.FuncDecl).Body.List[0]
	strip := func(e ast.Expr) ast.Expr {
		if p, ok := e.(*ast.ParenExpr); ok {
			switch p.X.(type) {
			case *ast.CallExpr, *ast.CompositeLit, *ast.Ident, *ast.SelectorExpr, *ast.IndexExpr, *ast.SliceExpr:
				return p.X
			}
		}
		return e
	}
	ast.Inspect(st, func(x ast.Node) bool {
		switch v := x.(type) {
		case *ast.CallExpr:
			for i := range v.Args {
				v.Args[i] = strip(v.Args[i])
			}
		case *ast.KeyValueExpr:
			v.Value = strip(v.Value)
		case *ast.AssignStmt:
			for i := range v.Rhs {
				v.Rhs[i] = strip(v.Rhs[i])
			}
		case *ast.ReturnStmt:
			for i := range v.Results {
				v.Results[i] = strip(v.Results[i])
			}
		case *ast.SliceExpr:
			v.X = strip(v.X)
		case *ast.SelectorExpr:
			// (&list{…}).val keeps its parentheses
		}
		return true
	})
	var b bytes.Buffer
	if err := printer.Fprint(&b, fs, st); err != nil {
		return t
	}
	return strings.Join(strings.Fields(b.String()), " ")
}
