package main

// Storage.lean — the "storage fingerprint" of the list implementation: every statement of a *list method or of a list
// constructor that decides where the elements of a list live — an assignment to `x.val` or `x.val[i]`, a struct copy `*x = …`,
// a call of append / copy / make / sort.* over `x.val` (or a slice of it), a slice expression over `x.val`, a `list{…}` literal —
// printed as source text, per function, in source order.
//
// The method translators (listgen*.go) read `[]field` as a list without capacity; which statements share, grow, re-slice or
// replace backing arrays is exactly what that reading abstracts from, and what `Model/Slices` models by hand. This file is the
// regenerated part of that tie: `Lemmas/StorageTie.lean` states, next to each operation of `Slices.step`, the statements it was
// written from, and `storage_sites_expected` fails when the source no longer says that (rule S1: text equality after the
// pre-passes, so a helper extracted from or inlined into such a statement does not change the fingerprint; a renamed local does).

import (
	"bytes"
	"fmt"
	"go/ast"
	"go/parser"
	"go/printer"
	"go/token"
	"sort"
	"strings"
)

// canonStmt prints a statement in the printer's canonical spacing, whatever positions its nodes carry (nodes spliced in by
// the pre-passes carry positions of other places, and the printer then spaces them oddly): print, parse the text again in a
// fresh file set, print that.
func canonStmt(s ast.Stmt) string {
	text := src(s)
	fs := token.NewFileSet()
	f, err := parser.ParseFile(fs, "s.go", "package p\nfunc _() {\n"+text+"\n}\n", 0)
	if err != nil || len(f.Decls) != 1 {
		return text
	}
	fd, ok := f.Decls[0].(*ast.FuncDecl)
	if !ok || fd.Body == nil || len(fd.Body.List) != 1 {
		return text
	}
	var b bytes.Buffer
	if err := printer.Fprint(&b, fs, fd.Body.List[0]); err != nil {
		return text
	}
	return strings.Join(strings.Fields(b.String()), " ")
}

// mentionsVal: the expression contains a selector `.val`.
func mentionsVal(n ast.Node) bool {
	found := false
	ast.Inspect(n, func(x ast.Node) bool {
		if s, ok := x.(*ast.SelectorExpr); ok && s.Sel.Name == "val" {
			found = true
		}
		return !found
	})
	return found
}

func isListLit(e ast.Expr) bool {
	e = unparen(e)
	if u, ok := e.(*ast.UnaryExpr); ok && u.Op == token.AND {
		e = unparen(u.X)
	}
	cl, ok := e.(*ast.CompositeLit)
	if !ok {
		return false
	}
	id, ok := cl.Type.(*ast.Ident)
	return ok && id.Name == "list"
}

// storageRelevant: does this simple statement (or expression inside it) decide about backing arrays?
func storageRelevant(st ast.Stmt) bool {
	rel := false
	if as, ok := st.(*ast.AssignStmt); ok {
		for _, l := range as.Lhs {
			l = unparen(l)
			if mentionsVal(l) {
				rel = true
			}
			if s, ok := l.(*ast.StarExpr); ok {
				if _, ok := unparen(s.X).(*ast.Ident); ok {
					rel = true // *ego = …: the whole struct, storage and registration included
				}
			}
		}
	}
	ast.Inspect(st, func(x ast.Node) bool {
		switch e := x.(type) {
		case *ast.FuncLit:
			return true
		case *ast.CallExpr:
			name := ""
			switch f := e.Fun.(type) {
			case *ast.Ident:
				name = f.Name
			case *ast.SelectorExpr:
				if p, ok := f.X.(*ast.Ident); ok && (p.Name == "sort" || p.Name == "slices") {
					name = p.Name + "." + f.Sel.Name
				}
			}
			switch {
			case name == "append" || name == "copy" || strings.HasPrefix(name, "sort.") || strings.HasPrefix(name, "slices."):
				for _, a := range e.Args {
					if mentionsVal(a) {
						rel = true
					}
				}
			case name == "make":
				// make([]field, …): a new backing array for a list
				if len(e.Args) > 0 {
					if at, ok := e.Args[0].(*ast.ArrayType); ok {
						if id, ok := at.Elt.(*ast.Ident); ok && id.Name == "field" {
							rel = true
						}
					}
				}
			}
		case *ast.SliceExpr:
			if mentionsVal(e.X) {
				rel = true
			}
		case *ast.CompositeLit:
			if id, ok := e.Type.(*ast.Ident); ok && id.Name == "list" {
				rel = true
			}
			if at, ok := e.Type.(*ast.ArrayType); ok {
				if id, ok := at.Elt.(*ast.Ident); ok && id.Name == "field" {
					rel = true // []field{}: the empty backing array
				}
			}
		}
		return true
	})
	return rel
}

// storageSitesOf lists the relevant simple statements of a body in source order (compound statements are entered;
// of an if / for / switch header only the init and post statements count).
func storageSitesOf(body *ast.BlockStmt) []string {
	var out []string
	var walk func(s ast.Stmt)
	walkList := func(l []ast.Stmt) {
		for _, s := range l {
			walk(s)
		}
	}
	walk = func(s ast.Stmt) {
		switch s := s.(type) {
		case nil:
		case *ast.BlockStmt:
			walkList(s.List)
		case *ast.IfStmt:
			walk(s.Init)
			walk(s.Body)
			walk(s.Else)
		case *ast.ForStmt:
			walk(s.Init)
			walk(s.Body)
			walk(s.Post)
		case *ast.RangeStmt:
			walk(s.Body)
		case *ast.SwitchStmt:
			walk(s.Init)
			walk(s.Body)
		case *ast.TypeSwitchStmt:
			walk(s.Init)
			walk(s.Body)
		case *ast.CaseClause:
			walkList(s.Body)
		case *ast.LabeledStmt:
			walk(s.Stmt)
		default:
			// simple statements; function literals inside them (closures such as NewListFrom's init) are entered too
			if storageRelevant(s) {
				hasLit := false
				ast.Inspect(s, func(x ast.Node) bool {
					if fl, ok := x.(*ast.FuncLit); ok {
						hasLit = true
						walk(fl.Body)
						return false
					}
					return true
				})
				if !hasLit {
					out = append(out, canonStmt(s))
				}
			} else {
				ast.Inspect(s, func(x ast.Node) bool {
					if fl, ok := x.(*ast.FuncLit); ok {
						walk(fl.Body)
						return false
					}
					return true
				})
			}
		}
	}
	walk(body)
	return out
}

func genStorage(p *pkgInfo) string {
	type entry struct {
		name  string
		sites []string
	}
	var es []entry
	for _, name := range sortedMethodNames(p.methods["list"]) {
		m := p.methods["list"][name]
		if m.decl.Body == nil {
			continue
		}
		if !ast.IsExported(name) && !baselineFuncs[funcKey(m.decl)] {
			continue // a helper introduced since the pinned source: its statements were inlined where it is called (inline.go)
		}
		if s := storageSitesOf(m.decl.Body); len(s) > 0 {
			es = append(es, entry{"list." + name, s})
		}
	}
	var fnames []string
	for n := range p.funcs {
		fnames = append(fnames, n)
	}
	sort.Strings(fnames)
	for _, n := range fnames {
		if !ast.IsExported(n) && !baselineFuncs[funcKey(p.funcs[n])] {
			continue
		}
		if s := storageSitesOf(p.funcs[n].Body); len(s) > 0 {
			es = append(es, entry{n, s})
		}
	}
	var b strings.Builder
	b.WriteString("/-\nGENERATED by vextract from the Go source — do not edit.\n\n")
	b.WriteString("`storageSites`: per function, in source order, the statements that decide where the elements of a list live\n(assignments to `x.val` / `x.val[i]`, struct copies, append / copy / make / sort over `x.val`, slice expressions over\n`x.val`, `list{…}` and `[]field{…}` literals). Compared with the statements `Model/Slices` was written from in\n`Lemmas/StorageTie.lean`.\n-/\n")
	b.WriteString("namespace Anytype.Generated\n\n")
	b.WriteString("def storageSites : List (String × List String) := [\n")
	for i, e := range es {
		sep := ","
		if i == len(es)-1 {
			sep = ""
		}
		fmt.Fprintf(&b, "  (%s, %s)%s\n", leanString(e.name), leanStringList(e.sites), sep)
	}
	b.WriteString("]\n\nend Anytype.Generated\n")
	return b.String()
}
