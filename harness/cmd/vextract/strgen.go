// strgen.go — translation of the string and file handling of parser.go / anytype.go into Lean:
//
//	unquoteJSON (the whole byte loop, its closure hex4, \uXXXX, surrogate pairs, the fall-backs)
//	quoteJSON   (the whole function: what is written before the loop, the loop, what is written behind it)
//	ParseFile
//
// Output: Generated/StrGen.lean (namespace Anytype.Generated.SG); Lemmas/StrGenEq.lean proves every
// definition equal to the hand-written model (Model/Strconv.lean, Model/Parser.lean) for all arguments.
//
// The translator is a symbolic executor over the statements of the function bodies.  Everything it
// does not recognise makes it fail with the source position (genStr returns an error, main writes a
// StrGen.lean that does not compile and exits non-zero).  `parseVal` (numeric widening) and the
// `serialize` methods of the atoms are translated by objgen.go / tfgen.go and are not repeated here.
//
// RESTRUCTURING RULES (part of the trusted base; the same conventions as the hand-written model)
//
//	S1  Strings.  A Go `string` that holds text is a `Str` = `List Char` (Model/Basic.lean); the
//	    argument of ParseObject / the result of os.ReadFile is a `List UInt8`.  Capacity, sharing and
//	    the bytes of the UTF-8 encoding are not modelled.
//	S2  Byte loops are character loops.  The translated functions index their string by bytes
//	    (`str[i]`), the model by characters.  A byte read from the string is translated as the
//	    character at that position.  This is sound for strings that are valid UTF-8 (every caller
//	    passes the text accumulated from decoded runes) under the following conditions, of which the
//	    translator CHECKS (a) and (b) and the reader has to accept (c):
//	    (a) a string byte is only compared with ASCII constants (`==`, `!=`, `<=`/`<`/`>=`/`>` against
//	        literals < 0x80, `< K` / `>= K` with K ≤ 0x80), so every test has the same outcome for each
//	        byte of a multi-byte character as for the character itself (both are ≥ 0x80), namely "not
//	        equal / not below the bound";
//	    (b) a string byte is used in arithmetic (`c-'0'`, `hex[char>>4]`) only under dominating tests
//	        that bound it above by a constant < 0x80 (so byte and character coincide) and, for a
//	        subtraction, below by the subtrahend (see S8); it is written to the output only as
//	        itself (`WriteByte(b)`);
//	    (c) the index advances over bytes that are not known to be ASCII only one at a time while
//	        copying them (`WriteByte(str[i]); i++` — k iterations for a k-byte character are one
//	        iteration of the character loop), or over the four bytes a successful `hex4` has just
//	        accepted (they are hexadecimal digits).  All other advances are over bytes that have been
//	        compared equal to ASCII literals on the path.
//	S3  Index and suffix.  The loop variable `i` over `str` is replaced by the suffix `str[i:]`
//	    (as in Model/Parser.lean, where a nested call returns the remaining input instead of an
//	    offset).  `str[i+k]` is the k-th character of the suffix; `i+k < len(str)` (and its negation
//	    `i+k >= len(str)`) is a `match` on the suffix that binds the characters up to position k;
//	    `str[i+k:]` is the suffix behind k characters; `i += k`, `i++`, `i = i + k` drop k characters
//	    (`List.drop` where they have not been bound by a `match`).  An index expression whose
//	    position has not been established by a length test on the path is rejected.
//	S4  Loops are recursive functions, the variables assigned in the loop (and declared outside)
//	    are their accumulator parameters, the statements behind the loop are the exit arm:
//	    (a) `for i := 0; i < len(s); i++` whose body does not assign `i`: structural recursion
//	        over the characters (`| [] => exit | c :: rest => body`);
//	    (b) `for i := 0; i < K; i++` (K a literal, body does not assign `i`, `len(s) >= K` established
//	        by a preceding `if len(s) < K' { return }` with K' ≥ K): recursion on the number of
//	        remaining iterations, carrying the suffix (the arm for an exhausted string is unreachable
//	        by the guard and yields `none`);
//	    (c) `for i := 0; i < len(s); { … }` advancing `i` in the body: recursion on fuel, started with
//	        `len(s) + 1`; the sentinel for exhausted fuel is `none` (Model/Strconv.lean `unquoteAux`).
//	S5  strings.Builder.  A builder is the `Str` written so far; `WriteByte(c)`, `WriteString("…")`,
//	    `WriteRune(r)` append `[c]`, the characters of the literal, `[charOfNat r]`
//	    (consecutive writes are merged into one list); `b.String()` is that `Str`.
//	S6  Failure results.  A function returning `(v, ok bool)` is an `Option`: `return v, true` is
//	    `some v`, `return z, false` is `none`; at the call `x, ok := f(…)` the `none` arm continues
//	    with `ok = false`, `x = z` (z must be the literal 0).  A `bool` local must be statically
//	    known on every path (it is folded away).  In a function returning `string`, a
//	    `return "<literal>"` inside a fuel loop (S4c) is `none` and the normal return `some s`; the
//	    function itself applies `.getD <literal>` (Model/Strconv.lean: "none = invalid escape (the Go
//	    function then returns \"\")").
//	S7  Closures.  `f := func(…) {…}` that captures nothing is a top-level definition `<outer>_fGen`.
//	    A package-level function `func f(…) {…}` (no receiver) that is called where such a closure could be
//	    called is translated in the same way, under the same name (`<first caller>_fGen`): it captures
//	    nothing by construction, and like the body of a closure its body may only mention its own
//	    parameter and locals.
//	S8  Integers.  `rune`, `byte`, `int` values are `Nat`; the conversions `rune(x)`, `int(x)` are the
//	    identity.  `x - K` is translated (as truncated subtraction) only where a test `K' <= x` with
//	    K' ≥ K dominates it on the path; otherwise the translation fails.  `<<`, `>>`, `|`, `&` are
//	    `<<<`, `>>>`, `|||`, `&&&`.  Overflow is NOT checked: the translated values are bounded by
//	    0x10FFFF (four hexadecimal digits shifted into a rune, a surrogate pair combined), far below
//	    2^31.  A constant string indexed by `x >> k` / `x & m` (`hex[char>>4]`) is `List.getD`; the
//	    translator checks that the index is below the length of the constant for every byte.
//	S9  Files.  `os.ReadFile(path)` is the parameter `fs : String → Option (List UInt8)`; its error is
//	    `⟨.io, none⟩` (Model/Parser.lean `PErrKind.io`); `string(data)` is the identity (S1).
//
// MAPPING TABLE of library calls (trusted):
//
//	result.WriteByte / WriteString / WriteRune / String   S5 (WriteRune(r) ↦ charOfNat r:
//	                                                      an invalid rune is written as U+FFFD)
//	utf8.RuneError                                        0xFFFD
//	len(s)                                                s.length (only in the tests of S3 / S4)
//	os.ReadFile(path)                                     fs path                                (S9)
//	ParseObject(string(data))                             parseObjectBytes data   (Model/Parser.lean)
//	rune(x), int(x)                                       x                                      (S8)
package main

import (
	"fmt"
	"go/ast"
	"go/token"
	"sort"
	"strconv"
	"strings"
)

type sgKind int

const (
	sgChar    sgKind = iota // a byte of the string, as a Lean Char
	sgNat                   // rune / int / byte arithmetic, as a Lean Nat
	sgBool                  // statically known bool
	sgStr                   // a string parameter (Lean Str)
	sgBuilder               // strings.Builder
	sgIndex                 // the loop index over a string
	sgClosure               // a translated closure
	sgTable                 // a constant string
)

type sgVar struct {
	kind    sgKind
	lean    string   // Lean expression (sgChar, sgNat, sgStr: the value; sgBuilder: the base)
	static  bool     // sgBool
	lower   int64    // sgChar / sgNat: lower bound established on the path, -1 = none
	ascii   bool     // sgChar: an upper bound < 0x80 is established on the path
	pending []string // sgBuilder: elements appended to the base
	minLen  int64    // sgStr: established minimal length
	lit     string   // sgTable
	clos    *sgFunc  // sgClosure
	depth   int      // the block nesting at which the variable was declared
	hidden  *sgVar   // the variable of an enclosing block this one shadows
}

// the part of the string at and behind the loop index
type sgView struct {
	str, idx string   // Go names of the string and of the index
	known    []string // Lean names of the characters at i, i+1, …
	tail     string   // Lean expression of the suffix behind the known characters
	whole    string   // Lean expression of the suffix at i, "" if it has to be rebuilt
}

type sgEnv struct {
	vars  map[string]*sgVar
	view  *sgView
	depth int
}

func (e *sgEnv) clone() *sgEnv {
	c := &sgEnv{vars: make(map[string]*sgVar, len(e.vars)), depth: e.depth}
	for k, v := range e.vars {
		w := *v
		w.pending = append([]string(nil), v.pending...)
		c.vars[k] = &w
	}
	if e.view != nil {
		w := *e.view
		w.known = append([]string(nil), e.view.known...)
		c.view = &w
	}
	return c
}

type sgLoop struct {
	kind    string // "struct", "count", "fuel"
	name    string
	carried []string // Go names
	post    ast.Stmt
	fuelVar string
}

type sgFunc struct {
	goName  string
	name    string // Lean name
	mode    string // "str", "optstr", "optnat"
	failLit string // optstr: the Lean text of the literal returned on failure; optnat: "0"
	failSet bool
}

type sgx struct {
	defs    []string // finished Lean definitions, in dependency order
	fn      *sgFunc
	loop    *sgLoop
	nLoops  int
	counter int // fresh character names
	// the package-level functions (by name) and those already translated as the closures they are called as (S7)
	funcs   map[string]*ast.FuncDecl
	pkgClos map[string]*sgVar
}

type sgKont func(*sgEnv) lnode

var sgReserved = map[string]bool{"fuel": true, "c": true, "rest": true, "s": true, "n": true}

func sgLeanName(goName string) string {
	if sgReserved[goName] || reservedLean[goName] || (len(goName) >= 2 && (goName[0] == 'c' || goName[0] == 't') && strings.Trim(goName[1:], "0123456789") == "") {
		return goName + "_"
	}
	return goName
}

// --- views

func (v *sgView) suffixAt(k int) string {
	if k == 0 && v.whole != "" {
		return v.whole
	}
	if k <= len(v.known) {
		parts := append(append([]string(nil), v.known[k:]...), v.tail)
		return strings.Join(parts, " :: ")
	}
	return fmt.Sprintf("List.drop %d %s", k-len(v.known), paren(v.tail))
}

func (v *sgView) advance(k int) {
	if k == 0 {
		return
	}
	if k <= len(v.known) {
		v.known = v.known[k:]
		v.whole = ""
		if len(v.known) == 0 {
			v.whole = v.tail
		}
		return
	}
	v.tail = fmt.Sprintf("List.drop %d %s", k-len(v.known), paren(v.tail))
	v.known = nil
	v.whole = v.tail
}

// the offset k of an index expression `i` / `i + k`
func (x *sgx) offset(e ast.Expr, env *sgEnv) (int, bool) {
	if env.view == nil {
		return 0, false
	}
	e = unparen(e)
	if isIdent(e, env.view.idx) {
		return 0, true
	}
	if b, ok := e.(*ast.BinaryExpr); ok && b.Op == token.ADD && isIdent(unparen(b.X), env.view.idx) {
		if k, ok := sgIntLit(b.Y); ok && k >= 0 && k < 1000 {
			return int(k), true
		}
	}
	return 0, false
}

func sgIntLit(e ast.Expr) (int64, bool) {
	l, ok := unparen(e).(*ast.BasicLit)
	if !ok || l.Kind != token.INT {
		return 0, false
	}
	v, err := strconv.ParseInt(l.Value, 0, 64)
	if err != nil {
		return 0, false
	}
	return v, true
}

// `len(s)` for a string variable s
func sgLenOf(e ast.Expr) (string, bool) {
	c, ok := unparen(e).(*ast.CallExpr)
	if !ok || !isIdent(c.Fun, "len") || len(c.Args) != 1 {
		return "", false
	}
	id, ok := unparen(c.Args[0]).(*ast.Ident)
	if !ok {
		return "", false
	}
	return id.Name, true
}

// a test "position p of the suffix exists" (`i+p < len(str)`), possibly negated
func (x *sgx) lengthTest(e ast.Expr, env *sgEnv) (p int, neg, ok bool) {
	b, isBin := unparen(e).(*ast.BinaryExpr)
	if !isBin || env.view == nil {
		return 0, false, false
	}
	if s, isLen := sgLenOf(b.Y); isLen && s == env.view.str {
		if k, isOff := x.offset(b.X, env); isOff {
			switch b.Op {
			case token.LSS:
				return k, false, true
			case token.GEQ:
				return k, true, true
			}
		}
	}
	if s, isLen := sgLenOf(b.X); isLen && s == env.view.str {
		if k, isOff := x.offset(b.Y, env); isOff {
			switch b.Op {
			case token.GTR:
				return k, false, true
			case token.LEQ:
				return k, true, true
			}
		}
	}
	return 0, false, false
}

// --- expressions

func sgWrap(s string) string {
	if strings.ContainsAny(s, " ") {
		return "(" + s + ")"
	}
	return s
}

// a string byte as a Lean Char expression
func (x *sgx) charExpr(e ast.Expr, env *sgEnv) (string, bool) {
	e = unparen(e)
	switch t := e.(type) {
	case *ast.Ident:
		if v := env.vars[t.Name]; v != nil && v.kind == sgChar {
			return v.lean, true
		}
	case *ast.IndexExpr:
		id, ok := unparen(t.X).(*ast.Ident)
		if !ok {
			return "", false
		}
		if env.view != nil && id.Name == env.view.str {
			k, ok := x.offset(t.Index, env)
			if !ok {
				failAt(e, "unrecognised index expression %s", src(t.Index))
			}
			if k >= len(env.view.known) {
				failAt(e, "%s: the position is not established by a length test on this path", src(e))
			}
			return env.view.known[k], true
		}
		if v := env.vars[id.Name]; v != nil && v.kind == sgTable {
			// constant string indexed by a byte expression
			idx := unparen(t.Index)
			b, ok := idx.(*ast.BinaryExpr)
			if !ok {
				failAt(e, "unrecognised index into the constant %s", id.Name)
			}
			cv, isChar := x.charExpr(b.X, env)
			k, isLit := sgIntLit(b.Y)
			bv := x.factVar(b.X, env)
			if !isChar || !isLit || bv == nil {
				failAt(e, "unrecognised index into the constant %s", id.Name)
			}
			if !bv.ascii {
				failAt(e, "%s: a string byte is used in arithmetic without a dominating upper bound < 0x80 (rule S2b)", src(b.X))
			}
			n := int64(len(v.lit))
			for _, r := range v.lit {
				if r >= 0x80 {
					failAt(e, "the constant %s is not ASCII", id.Name)
				}
			}
			var ix string
			switch {
			case b.Op == token.SHR && k >= 0 && k < 8 && (256>>uint(k)) <= n:
				ix = fmt.Sprintf("%s.toNat >>> %d", cv, k)
			case b.Op == token.AND && k >= 0 && k < n:
				ix = fmt.Sprintf("%s.toNat &&& 0x%x", cv, k)
			default:
				failAt(e, "the index %s may exceed the constant %s", src(idx), id.Name)
			}
			return fmt.Sprintf("%s.getD (%s) '\\x00'", leanCharList(v.lit), ix), true
		}
	}
	return "", false
}

func (x *sgx) isCharExpr(e ast.Expr, env *sgEnv) bool {
	e = unparen(e)
	switch t := e.(type) {
	case *ast.Ident:
		v := env.vars[t.Name]
		return v != nil && v.kind == sgChar
	case *ast.IndexExpr:
		id, ok := unparen(t.X).(*ast.Ident)
		return ok && env.view != nil && id.Name == env.view.str
	}
	return false
}

// the variable behind an expression, for the lower-bound facts
func (x *sgx) factVar(e ast.Expr, env *sgEnv) *sgVar {
	if id, ok := unparen(e).(*ast.Ident); ok {
		if v := env.vars[id.Name]; v != nil && (v.kind == sgChar || v.kind == sgNat) {
			return v
		}
	}
	return nil
}

// a constant: integer or character literal
func sgConst(e ast.Expr) (int64, bool) {
	if k, ok := sgIntLit(e); ok {
		return k, true
	}
	if r, ok := charLit(e); ok {
		return int64(r), true
	}
	return 0, false
}

// a numeric expression as a Lean Nat expression
func (x *sgx) natExpr(e ast.Expr, env *sgEnv) string {
	e = unparen(e)
	switch t := e.(type) {
	case *ast.BasicLit:
		if t.Kind == token.INT {
			if _, ok := sgIntLit(t); ok {
				return t.Value
			}
		}
		if r, ok := charLit(t); ok {
			return strconv.Itoa(int(r))
		}
	case *ast.Ident:
		if v := env.vars[t.Name]; v != nil {
			switch v.kind {
			case sgNat:
				return v.lean
			case sgChar:
				if !v.ascii {
					failAt(e, "%s: a string byte is used in arithmetic without a dominating upper bound < 0x80 (rule S2b)", t.Name)
				}
				return v.lean + ".toNat"
			}
		}
	case *ast.SelectorExpr:
		if src(t) == "utf8.RuneError" {
			return "0xFFFD"
		}
	case *ast.CallExpr:
		if id, ok := t.Fun.(*ast.Ident); ok && (id.Name == "rune" || id.Name == "int") && len(t.Args) == 1 {
			return x.natExpr(t.Args[0], env)
		}
	case *ast.BinaryExpr:
		a := sgWrap(x.natExpr(t.X, env))
		switch t.Op {
		case token.SUB:
			k, isConst := sgConst(t.Y)
			v := x.factVar(t.X, env)
			if !isConst || v == nil || v.lower < k {
				failAt(e, "%s: a subtraction is translated only under a dominating test `%s <= …` (rule S8)", src(e), src(t.Y))
			}
			if l, ok := unparen(t.Y).(*ast.BasicLit); ok && l.Kind == token.INT {
				return a + " - " + l.Value
			}
			return fmt.Sprintf("%s - %d", a, k)
		case token.ADD:
			return a + " + " + sgWrap(x.natExpr(t.Y, env))
		case token.OR:
			return a + " ||| " + sgWrap(x.natExpr(t.Y, env))
		case token.AND:
			return a + " &&& " + sgWrap(x.natExpr(t.Y, env))
		case token.SHL, token.SHR:
			k, ok := sgIntLit(t.Y)
			if !ok || k < 0 || k > 31 {
				failAt(e, "unrecognised shift %s", src(e))
			}
			op := " <<< "
			if t.Op == token.SHR {
				op = " >>> "
			}
			return a + op + strconv.FormatInt(k, 10)
		}
	}
	failAt(e, "unrecognised numeric expression %s", src(e))
	return ""
}

// --- conditions

type sgCond struct {
	kind string // "prop", "bool", "true", "false"
	lean string
	top  string // "and", "or" or "" : the outermost connective of lean
	// the bounds the condition establishes when it holds
	facts map[*sgVar]sgFact
	// the bounds it establishes when it does not hold (`if c < K { … continue }` leaves `c >= K` behind)
	nfacts map[*sgVar]sgFact
}

type sgFact struct {
	lower int64 // -1 = none
	ascii bool
}

func sgMergeFacts(a, b map[*sgVar]sgFact) map[*sgVar]sgFact {
	m := map[*sgVar]sgFact{}
	for k, v := range a {
		m[k] = v
	}
	for k, v := range b {
		old, ok := m[k]
		if !ok {
			m[k] = v
			continue
		}
		if v.lower > old.lower {
			old.lower = v.lower
		}
		old.ascii = old.ascii || v.ascii
		m[k] = old
	}
	return m
}

// pureCond translates a condition without length tests into one Lean expression; ok = false if the
// condition has to be decomposed
func (x *sgx) pureCond(e ast.Expr, env *sgEnv) (sgCond, bool) {
	e = unparen(e)
	switch t := e.(type) {
	case *ast.Ident:
		if v := env.vars[t.Name]; v != nil && v.kind == sgBool {
			if v.static {
				return sgCond{kind: "true"}, true
			}
			return sgCond{kind: "false"}, true
		}
		if t.Name == "true" || t.Name == "false" {
			return sgCond{kind: t.Name}, true
		}
	case *ast.UnaryExpr:
		if t.Op == token.NOT {
			c, ok := x.pureCond(t.X, env)
			if !ok {
				return sgCond{}, false
			}
			switch c.kind {
			case "true":
				return sgCond{kind: "false"}, true
			case "false":
				return sgCond{kind: "true"}, true
			case "bool":
				return sgCond{kind: "bool", lean: "!" + sgWrap(c.lean), facts: c.nfacts, nfacts: c.facts}, true
			default:
				return sgCond{kind: "prop", lean: "¬ " + sgWrap(c.lean), facts: c.nfacts, nfacts: c.facts}, true
			}
		}
	case *ast.BinaryExpr:
		switch t.Op {
		case token.LAND, token.LOR:
			a, ok1 := x.pureCond(t.X, env)
			if !ok1 {
				return sgCond{}, false
			}
			// the right operand is evaluated only if the left one does not decide: its index
			// expressions are checked in the environment of the left operand's success
			b, ok2 := x.pureCond(t.Y, env)
			if !ok2 {
				return sgCond{}, false
			}
			and := t.Op == token.LAND
			unit, zero := "true", "false"
			if !and {
				unit, zero = "false", "true"
			}
			switch {
			case a.kind == zero:
				return sgCond{kind: zero}, true
			case a.kind == unit:
				return b, true
			case b.kind == unit:
				return a, true
			case b.kind == zero:
				// `a && false`: a is still evaluated, but has no effect
				return sgCond{kind: zero}, true
			}
			if a.kind != b.kind {
				return sgCond{}, false
			}
			var op string
			switch {
			case and && a.kind == "prop":
				op = " ∧ "
			case and:
				op = " && "
			case a.kind == "prop":
				op = " ∨ "
			default:
				op = " || "
			}
			top := "or"
			if and {
				top = "and"
			}
			// Lean: `&&`, `||` associate to the left, `∧`, `∨` to the right; Go: to the left
			l, r := a.lean, b.lean
			if a.top != "" && (a.top != top || a.kind == "prop") {
				l = "(" + l + ")"
			}
			if b.top != "" && (b.top != top || b.kind == "bool") {
				r = "(" + r + ")"
			}
			c := sgCond{kind: a.kind, lean: l + op + r, top: top}
			if and {
				c.facts = sgMergeFacts(a.facts, b.facts)
			} else {
				c.nfacts = sgMergeFacts(a.nfacts, b.nfacts)
			}
			return c, true
		case token.EQL, token.NEQ, token.LSS, token.LEQ, token.GTR, token.GEQ:
			if _, _, ok := x.lengthTest(t, env); ok {
				return sgCond{}, false
			}
			if s, isLen := sgLenOf(t.X); isLen && env.vars[s] != nil {
				return sgCond{}, false
			}
			return x.comparison(t, env), true
		}
	}
	if _, _, ok := x.lengthTest(e, env); ok {
		return sgCond{}, false
	}
	failAt(e, "unrecognised condition %s", src(e))
	return sgCond{}, false
}

func (x *sgx) comparison(t *ast.BinaryExpr, env *sgEnv) sgCond {
	if _, _, ok := x.lengthTest(t, env); ok {
		failAt(t, "internal: length test in a pure condition")
	}
	lc, rc := x.isCharExpr(t.X, env), x.isCharExpr(t.Y, env)
	facts, nfacts := map[*sgVar]sgFact{}, map[*sgVar]sgFact{}
	// bounds: K <= x, K < x, x >= K, x > K (lower); x <= K, x < K, K >= x, K > x (upper); the negation of a lower
	// bound is an upper bound and vice versa
	bound := func(v *sgVar, op token.Token, k int64) { // v op k
		switch op {
		case token.GEQ:
			facts[v] = sgFact{lower: k}
			nfacts[v] = sgFact{lower: -1, ascii: k <= 0x80}
		case token.GTR:
			facts[v] = sgFact{lower: k + 1}
			nfacts[v] = sgFact{lower: -1, ascii: k < 0x80}
		case token.LEQ:
			facts[v] = sgFact{lower: -1, ascii: k < 0x80}
			nfacts[v] = sgFact{lower: k + 1}
		case token.LSS:
			facts[v] = sgFact{lower: -1, ascii: k <= 0x80}
			nfacts[v] = sgFact{lower: k}
		}
	}
	mirror := map[token.Token]token.Token{token.LEQ: token.GEQ, token.LSS: token.GTR, token.GEQ: token.LEQ, token.GTR: token.LSS}
	if k, ok := sgConst(t.X); ok {
		if v := x.factVar(t.Y, env); v != nil {
			bound(v, mirror[t.Op], k)
		}
	}
	if k, ok := sgConst(t.Y); ok {
		if v := x.factVar(t.X, env); v != nil {
			bound(v, t.Op, k)
		}
	}
	if lc || rc {
		// a comparison of a string byte: rule S2(a)
		var ce, other ast.Expr
		if lc {
			ce, other = t.X, t.Y
		} else {
			ce, other = t.Y, t.X
		}
		cv, _ := x.charExpr(ce, env)
		if r, ok := charLit(other); ok {
			if r >= 0x80 {
				failAt(t, "%s: a string byte may only be compared with an ASCII constant (rule S2a)", src(t))
			}
			lit := leanChar(r)
			l, rr := cv, lit
			if !lc {
				l, rr = lit, cv
			}
			switch t.Op {
			case token.EQL:
				return sgCond{kind: "bool", lean: l + " == " + rr}
			case token.NEQ:
				return sgCond{kind: "bool", lean: l + " != " + rr}
			case token.LEQ:
				return sgCond{kind: "prop", lean: l + " ≤ " + rr, facts: facts, nfacts: nfacts}
			case token.LSS:
				return sgCond{kind: "prop", lean: l + " < " + rr, facts: facts, nfacts: nfacts}
			case token.GEQ:
				return sgCond{kind: "prop", lean: l + " ≥ " + rr, facts: facts, nfacts: nfacts}
			case token.GTR:
				return sgCond{kind: "prop", lean: l + " > " + rr, facts: facts, nfacts: nfacts}
			}
		}
		if k, ok := sgIntLit(other); ok {
			// a bound on the byte (`char < 0x20`, `char >= 0x20`) by a constant ≤ 0x80: every byte of a multi-byte
			// character is ≥ 0x80, as is the code of the character, so the test has the same outcome for both
			op := t.Op
			if !lc {
				op = mirror[op] // `K op' char` is `char op K`
			}
			okForm := ((op == token.LSS || op == token.GEQ) && k <= 0x80) || ((op == token.LEQ || op == token.GTR) && k < 0x80)
			if !okForm || k < 0 {
				failAt(t, "%s: a string byte may only be compared with a bound ≤ 0x80 (rule S2a)", src(t))
			}
			sym := map[token.Token]string{token.LSS: " < ", token.LEQ: " ≤ ", token.GEQ: " ≥ ", token.GTR: " > "}[t.Op]
			lit := unparen(other).(*ast.BasicLit).Value
			if !lc {
				return sgCond{kind: "prop", lean: lit + sym + sgWrap(cv) + ".toNat", facts: facts, nfacts: nfacts}
			}
			return sgCond{kind: "prop", lean: sgWrap(cv) + ".toNat" + sym + lit, facts: facts, nfacts: nfacts}
		}
		failAt(t, "unrecognised comparison of a string byte %s", src(t))
	}
	a, b := x.natExpr(t.X, env), x.natExpr(t.Y, env)
	switch t.Op {
	case token.EQL:
		return sgCond{kind: "bool", lean: a + " == " + b}
	case token.NEQ:
		return sgCond{kind: "bool", lean: a + " != " + b}
	case token.LEQ:
		return sgCond{kind: "prop", lean: a + " ≤ " + b, facts: facts, nfacts: nfacts}
	case token.LSS:
		return sgCond{kind: "prop", lean: a + " < " + b, facts: facts, nfacts: nfacts}
	case token.GEQ:
		return sgCond{kind: "prop", lean: a + " ≥ " + b, facts: facts, nfacts: nfacts}
	case token.GTR:
		return sgCond{kind: "prop", lean: a + " > " + b, facts: facts, nfacts: nfacts}
	}
	failAt(t, "unrecognised comparison %s", src(t))
	return sgCond{}
}

// apply the facts of a condition in a cloned environment (the variables are matched by identity
// in the original environment, so they are looked up by name)
func sgLearn(orig, into *sgEnv, facts map[*sgVar]sgFact) {
	for name, v := range orig.vars {
		if f, ok := facts[v]; ok {
			if w := into.vars[name]; w != nil {
				if f.lower > w.lower {
					w.lower = f.lower
				}
				w.ascii = w.ascii || f.ascii
			}
		}
	}
}

func (x *sgx) fresh() int {
	n := x.counter
	x.counter++
	return n
}

// branch translates `if cond`, decomposing `&&`, `||`, `!` where the condition contains length
// tests or statically known parts
func (x *sgx) branch(cond ast.Expr, env *sgEnv, kT, kF sgKont) lnode {
	cond = unparen(cond)
	// `len(s) < K` on a whole string parameter
	if b, ok := cond.(*ast.BinaryExpr); ok && b.Op == token.LSS {
		if s, isLen := sgLenOf(b.X); isLen && (env.view == nil || env.view.str != s) {
			v := env.vars[s]
			k, isLit := sgIntLit(b.Y)
			if v == nil || v.kind != sgStr || !isLit {
				failAt(cond, "unrecognised length test %s", src(cond))
			}
			eT, eF := env.clone(), env.clone()
			if k > eF.vars[s].minLen {
				eF.vars[s].minLen = k
			}
			return lIf{cond: fmt.Sprintf("%s.length < %d", v.lean, k), a: kT(eT), b: kF(eF)}
		}
	}
	if p, neg, ok := x.lengthTest(cond, env); ok {
		if neg {
			kT, kF = kF, kT
		}
		v := env.view
		need := p + 1
		if len(v.known) >= need {
			return kT(env.clone())
		}
		m := need - len(v.known)
		eT, eF := env.clone(), env.clone()
		var names []string
		last := 0
		for j := 0; j < m; j++ {
			last = x.fresh()
			names = append(names, fmt.Sprintf("c%d", last))
		}
		newTail := fmt.Sprintf("t%d", last)
		eT.view.known = append(eT.view.known, names...)
		eT.view.tail = newTail
		pat := strings.Join(append(names, newTail), " :: ")
		if m == 1 {
			return lMatch{scrut: v.tail, arms: []lArm{{pat: "[]", body: kF(eF)}, {pat: pat, body: kT(eT)}}}
		}
		return lMatch{scrut: v.tail, arms: []lArm{{pat: pat, body: kT(eT)}, {pat: "_", body: kF(eF)}}}
	}
	if c, ok := x.pureCond(cond, env); ok {
		switch c.kind {
		case "true":
			return kT(env.clone())
		case "false":
			return kF(env.clone())
		}
		eT, eF := env.clone(), env.clone()
		sgLearn(env, eT, c.facts)
		sgLearn(env, eF, c.nfacts)
		return lIf{cond: c.lean, a: kT(eT), b: kF(eF)}
	}
	switch t := cond.(type) {
	case *ast.UnaryExpr:
		if t.Op == token.NOT {
			return x.branch(t.X, env, kF, kT)
		}
	case *ast.BinaryExpr:
		switch t.Op {
		case token.LAND:
			return x.branch(t.X, env, func(e *sgEnv) lnode { return x.branch(t.Y, e, kT, kF) }, kF)
		case token.LOR:
			return x.branch(t.X, env, kT, func(e *sgEnv) lnode { return x.branch(t.Y, e, kT, kF) })
		}
	}
	failAt(cond, "unrecognised condition %s", src(cond))
	return nil
}

// --- builders

func sgBuilderExpr(v *sgVar) string {
	if len(v.pending) == 0 {
		return v.lean
	}
	l := "[" + strings.Join(v.pending, ", ") + "]"
	if v.lean == "[]" {
		return l
	}
	return v.lean + " ++ " + l
}

// --- statements

// block executes the statements of a nested block: the variables it declares end with it
// (a variable shadowed by `:=` is visible again behind the block)
func (x *sgx) block(list []ast.Stmt, env *sgEnv, k sgKont) lnode {
	env.depth++
	d := env.depth
	return x.execList(list, env, func(e *sgEnv) lnode {
		if e.depth != d {
			failAt(nil, "internal: unbalanced blocks")
		}
		for name, v := range e.vars {
			if v.depth == d {
				if v.hidden != nil {
					e.vars[name] = v.hidden
				} else {
					delete(e.vars, name)
				}
			}
		}
		e.depth--
		return k(e)
	})
}

func (x *sgx) execList(list []ast.Stmt, env *sgEnv, k sgKont) lnode {
	if len(list) == 0 {
		return k(env)
	}
	return x.execStmt(list[0], list[1:], env, k)
}

func (x *sgx) declare(at ast.Node, env *sgEnv, name string, v *sgVar) {
	if name == "_" {
		return
	}
	if env.view != nil && (name == env.view.idx || name == env.view.str) {
		failAt(at, "%s is redeclared inside its loop", name)
	}
	if old := env.vars[name]; old != nil {
		if old.depth == env.depth {
			failAt(at, "%s is declared twice", name)
		}
		if x.loop != nil {
			for _, c := range x.loop.carried {
				if c == name {
					failAt(at, "%s, which the loop carries, is shadowed", name)
				}
			}
		}
		v.hidden = old
	}
	v.depth = env.depth
	env.vars[name] = v
}

func (x *sgx) assignedIn(body ast.Node, name string) bool {
	found := false
	ast.Inspect(body, func(n ast.Node) bool {
		switch t := n.(type) {
		case *ast.AssignStmt:
			for _, l := range t.Lhs {
				if isIdent(l, name) {
					found = true
				}
			}
		case *ast.IncDecStmt:
			if isIdent(t.X, name) {
				found = true
			}
		case *ast.UnaryExpr:
			if t.Op == token.AND && isIdent(t.X, name) {
				found = true
			}
		}
		return true
	})
	return found
}

func (x *sgx) writtenIn(body ast.Node, name string) bool {
	found := x.assignedIn(body, name)
	ast.Inspect(body, func(n ast.Node) bool {
		if c, ok := n.(*ast.CallExpr); ok {
			if r, _, ok := selOf(c.Fun); ok && r == name {
				found = true
			}
		}
		return true
	})
	return found
}

func (x *sgx) execStmt(st ast.Stmt, rest []ast.Stmt, env *sgEnv, k sgKont) lnode {
	next := func(e *sgEnv) lnode { return x.execList(rest, e, k) }
	switch s := st.(type) {
	case *ast.DeclStmt:
		gd, ok := s.Decl.(*ast.GenDecl)
		if !ok || len(gd.Specs) != 1 {
			failAt(s, "unrecognised declaration %s", src(s))
		}
		vs, ok := gd.Specs[0].(*ast.ValueSpec)
		if !ok || len(vs.Names) != 1 {
			failAt(s, "unrecognised declaration %s", src(s))
		}
		name := vs.Names[0].Name
		switch {
		case gd.Tok == token.CONST && len(vs.Values) == 1:
			lit, ok := stringLit(vs.Values[0])
			if !ok {
				failAt(s, "unrecognised constant %s", src(s))
			}
			x.declare(s, env, name, &sgVar{kind: sgTable, lit: lit})
		case gd.Tok == token.VAR && vs.Type != nil && src(vs.Type) == "strings.Builder" && len(vs.Values) == 0:
			x.declare(s, env, name, &sgVar{kind: sgBuilder, lean: "[]"})
		case gd.Tok == token.VAR && vs.Type != nil && (src(vs.Type) == "rune" || src(vs.Type) == "int") && len(vs.Values) <= 1:
			val := "0"
			if len(vs.Values) == 1 {
				val = x.natExpr(vs.Values[0], env)
			}
			x.declare(s, env, name, &sgVar{kind: sgNat, lean: val, lower: -1})
		default:
			failAt(s, "unrecognised declaration %s", src(s))
		}
		return next(env)

	case *ast.ExprStmt:
		recv, m, args, ok := methodCall(s.X)
		if !ok || len(args) != 1 {
			failAt(s, "unrecognised statement %s", src(s))
		}
		b := env.vars[recv]
		if b == nil || b.kind != sgBuilder {
			failAt(s, "unrecognised statement %s", src(s))
		}
		if m == "Grow" && pureSizeExpr(args[0]) {
			return next(env) // a capacity hint: capacity is not modelled (S5)
		}
		switch m {
		case "WriteByte":
			if r, ok := charLit(args[0]); ok {
				b.pending = append(b.pending, leanChar(r))
			} else if c, ok := x.charExpr(args[0], env); ok {
				b.pending = append(b.pending, c)
			} else {
				failAt(s, "unrecognised argument of WriteByte %s", src(args[0]))
			}
		case "WriteString":
			lit, ok := stringLit(args[0])
			if !ok {
				failAt(s, "WriteString of something other than a literal: %s", src(args[0]))
			}
			for _, r := range lit {
				b.pending = append(b.pending, leanChar(r))
			}
		case "WriteRune":
			if r, ok := charLit(args[0]); ok {
				b.pending = append(b.pending, leanChar(r))
			} else {
				b.pending = append(b.pending, "charOfNat "+sgWrap(x.natExpr(args[0], env)))
			}
		default:
			failAt(s, "unrecognised statement %s", src(s))
		}
		return next(env)

	case *ast.IncDecStmt:
		id, ok := s.X.(*ast.Ident)
		if !ok || s.Tok != token.INC {
			failAt(s, "unrecognised statement %s", src(s))
		}
		return x.addTo(s, id.Name, 1, nil, env, next)

	case *ast.AssignStmt:
		return x.execAssign(s, env, next)

	case *ast.IfStmt:
		if s.Init != nil {
			failAt(s, "if with an init statement")
		}
		return x.branch(s.Cond, env,
			func(e *sgEnv) lnode { return x.block(s.Body.List, e, next) },
			func(e *sgEnv) lnode {
				switch el := s.Else.(type) {
				case nil:
					return next(e)
				case *ast.BlockStmt:
					return x.block(el.List, e, next)
				case *ast.IfStmt:
					return x.execStmt(el, nil, e, next)
				}
				failAt(s, "unrecognised else")
				return nil
			})

	case *ast.SwitchStmt:
		return x.execSwitch(s, env, next)

	case *ast.BranchStmt:
		if s.Tok != token.CONTINUE || s.Label != nil || x.loop == nil {
			failAt(s, "unrecognised statement %s", src(s))
		}
		return x.iterate(s, env)

	case *ast.ReturnStmt:
		return x.execReturn(s, env)

	case *ast.ForStmt:
		return x.execFor(s, rest, env, k)

	case *ast.BlockStmt:
		return x.block(s.List, env, next)
	}
	failAt(st, "unrecognised statement %s", src(st))
	return nil
}

// i += k / x += e
func (x *sgx) addTo(at ast.Node, name string, k int64, e ast.Expr, env *sgEnv, next sgKont) lnode {
	if env.view != nil && name == env.view.idx {
		if e != nil {
			var ok bool
			if k, ok = sgIntLit(e); !ok {
				failAt(at, "the index advances by something other than a literal")
			}
		}
		if k < 0 || k > 1000 {
			failAt(at, "the index advances by %d", k)
		}
		if x.loop == nil || x.loop.kind != "fuel" {
			failAt(at, "the index of this loop is advanced in its body")
		}
		env.view.advance(int(k))
		return next(env)
	}
	v := env.vars[name]
	if v == nil || v.kind != sgNat {
		failAt(at, "unrecognised increment of %s", name)
	}
	add := strconv.FormatInt(k, 10)
	if e != nil {
		add = sgWrap(x.natExpr(e, env))
	}
	v.lean = sgWrap(v.lean) + " + " + add
	return next(env)
}

func (x *sgx) execAssign(s *ast.AssignStmt, env *sgEnv, next sgKont) lnode {
	define := s.Tok == token.DEFINE
	if s.Tok == token.ADD_ASSIGN && len(s.Lhs) == 1 && len(s.Rhs) == 1 {
		id, ok := s.Lhs[0].(*ast.Ident)
		if !ok {
			failAt(s, "unrecognised assignment %s", src(s))
		}
		return x.addTo(s, id.Name, 0, s.Rhs[0], env, next)
	}
	if s.Tok != token.DEFINE && s.Tok != token.ASSIGN {
		failAt(s, "unrecognised assignment %s", src(s))
	}
	names := make([]string, len(s.Lhs))
	for i, l := range s.Lhs {
		id, ok := l.(*ast.Ident)
		if !ok {
			failAt(s, "unrecognised assignment %s", src(s))
		}
		names[i] = id.Name
	}
	set := func(at ast.Node, e *sgEnv, name string, v *sgVar) {
		if name == "_" {
			return
		}
		old := e.vars[name]
		if old == nil || (define && old.depth < e.depth) {
			if !define {
				failAt(at, "assignment to the unknown variable %s", name)
			}
			x.declare(at, e, name, v)
			return
		}
		// an assignment (`:=` re-uses a variable of the same block)
		if old.kind != v.kind {
			failAt(at, "%s changes its kind", name)
		}
		if e.view != nil && (name == e.view.idx || name == e.view.str) {
			failAt(at, "unrecognised assignment to %s", name)
		}
		v.depth, v.hidden = old.depth, old.hidden
		e.vars[name] = v
	}
	// a closure
	if len(names) == 1 && len(s.Rhs) == 1 {
		if fl, ok := s.Rhs[0].(*ast.FuncLit); ok {
			if !define {
				failAt(s, "a closure is assigned to an existing variable")
			}
			f := x.closure(names[0], fl, false)
			x.declare(s, env, names[0], &sgVar{kind: sgClosure, clos: f})
			return next(env)
		}
	}
	// x, ok := f(suffix)
	if len(names) == 2 && len(s.Rhs) == 1 {
		call, ok := unparen(s.Rhs[0]).(*ast.CallExpr)
		if !ok {
			failAt(s, "unrecognised assignment %s", src(s))
		}
		fid, ok := call.Fun.(*ast.Ident)
		var f *sgVar
		if ok {
			f = env.vars[fid.Name]
			if f == nil {
				// no local of that name: a package-level function (rule S7)
				f = x.packageFunc(fid.Name)
			}
		}
		if f == nil || f.kind != sgClosure || f.clos.mode != "optnat" || len(call.Args) != 1 {
			failAt(s, "unrecognised call %s", src(call))
		}
		arg := x.strExpr(call.Args[0], env)
		vn := sgLeanName(names[0])
		eNone, eSome := env.clone(), env.clone()
		set(s, eNone, names[0], &sgVar{kind: sgNat, lean: f.clos.failLit, lower: -1})
		set(s, eNone, names[1], &sgVar{kind: sgBool, static: false})
		set(s, eSome, names[0], &sgVar{kind: sgNat, lean: vn, lower: -1})
		set(s, eSome, names[1], &sgVar{kind: sgBool, static: true})
		pat := "some " + vn
		if names[0] == "_" {
			pat = "some _"
		}
		return lMatch{scrut: f.clos.name + " " + paren(arg), arms: []lArm{
			{pat: "none", body: next(eNone)},
			{pat: pat, body: next(eSome)},
		}}
	}
	if len(names) != len(s.Rhs) {
		failAt(s, "unrecognised assignment %s", src(s))
	}
	// i = i + k
	if len(names) == 1 && env.view != nil && names[0] == env.view.idx && !define {
		if k, ok := x.offset(s.Rhs[0], env); ok {
			return x.addTo(s, names[0], int64(k), nil, env, next)
		}
		if b, ok := unparen(s.Rhs[0]).(*ast.BinaryExpr); ok && b.Op == token.ADD && isIdent(unparen(b.Y), env.view.idx) {
			if k, ok := sgIntLit(b.X); ok {
				return x.addTo(s, names[0], k, nil, env, next)
			}
		}
		failAt(s, "unrecognised assignment to the index %s", src(s))
	}
	// parallel assignment of simple values: all right-hand sides are evaluated first
	vals := make([]*sgVar, len(names))
	for i, r := range s.Rhs {
		r = unparen(r)
		switch {
		case isIdent(r, "true") || isIdent(r, "false"):
			vals[i] = &sgVar{kind: sgBool, static: isIdent(r, "true")}
		case x.isCharExpr(r, env):
			c, _ := x.charExpr(r, env)
			lower, ascii := int64(-1), false
			if v := x.factVar(r, env); v != nil {
				lower, ascii = v.lower, v.ascii
			}
			vals[i] = &sgVar{kind: sgChar, lean: c, lower: lower, ascii: ascii}
		default:
			lower := int64(-1)
			if k, ok := sgConst(r); ok {
				lower = k
			}
			vals[i] = &sgVar{kind: sgNat, lean: x.natExpr(r, env), lower: lower}
		}
	}
	for i, n := range names {
		set(s, env, n, vals[i])
	}
	return next(env)
}

// a string-valued argument: the suffix `str[i+k:]` or a whole string variable
func (x *sgx) strExpr(e ast.Expr, env *sgEnv) string {
	e = unparen(e)
	switch t := e.(type) {
	case *ast.Ident:
		if v := env.vars[t.Name]; v != nil && v.kind == sgStr && (env.view == nil || env.view.str != t.Name) {
			return v.lean
		}
	case *ast.SliceExpr:
		id, ok := unparen(t.X).(*ast.Ident)
		if ok && env.view != nil && id.Name == env.view.str && t.High == nil && t.Max == nil && t.Low != nil {
			k, ok := x.offset(t.Low, env)
			if !ok {
				failAt(e, "unrecognised slice bound %s", src(t.Low))
			}
			if k > len(env.view.known) {
				failAt(e, "%s: the bound is not established by a length test on this path", src(e))
			}
			return env.view.suffixAt(k)
		}
	}
	failAt(e, "unrecognised string expression %s", src(e))
	return ""
}

func (x *sgx) execSwitch(s *ast.SwitchStmt, env *sgEnv, next sgKont) lnode {
	if s.Init != nil {
		failAt(s, "switch with an init statement")
	}
	var cases []*ast.CaseClause
	var deflt *ast.CaseClause
	for _, cc := range s.Body.List {
		c := cc.(*ast.CaseClause)
		for _, st := range c.Body {
			if b, ok := st.(*ast.BranchStmt); ok && (b.Tok == token.FALLTHROUGH || b.Tok == token.BREAK) {
				failAt(b, "%s in a switch", b.Tok)
			}
		}
		if c.List == nil {
			if deflt != nil {
				failAt(c, "two default cases")
			}
			deflt = c
		} else {
			cases = append(cases, c)
		}
	}
	var tag string
	if s.Tag != nil {
		c, ok := x.charExpr(s.Tag, env)
		if !ok {
			failAt(s.Tag, "the tag of the switch is not a string byte: %s", src(s.Tag))
		}
		tag = c
	}
	var build func(i int, e *sgEnv) lnode
	build = func(i int, e *sgEnv) lnode {
		if i == len(cases) {
			if deflt == nil {
				return next(e)
			}
			return x.block(deflt.Body, e, next)
		}
		c := cases[i]
		body := func(e2 *sgEnv) lnode { return x.block(c.Body, e2, next) }
		other := func(e2 *sgEnv) lnode { return build(i+1, e2) }
		if s.Tag == nil {
			// case a, b: is a || b
			var cond ast.Expr = c.List[0]
			for _, o := range c.List[1:] {
				cond = &ast.BinaryExpr{X: cond, Op: token.LOR, Y: o, OpPos: o.Pos()}
			}
			return x.branch(cond, e, body, other)
		}
		var alts []string
		for _, v := range c.List {
			r, ok := charLit(v)
			if !ok || r >= 0x80 {
				failAt(v, "a case of a switch over a string byte must be an ASCII character literal (rule S2a)")
			}
			alts = append(alts, tag+" == "+leanChar(r))
		}
		return lIf{cond: strings.Join(alts, " || "), a: body(e.clone()), b: other(e.clone())}
	}
	return build(0, env)
}

func (x *sgx) execReturn(s *ast.ReturnStmt, env *sgEnv) lnode {
	f := x.fn
	switch f.mode {
	case "optnat":
		if len(s.Results) == 2 {
			if isIdent(s.Results[1], "true") {
				return lLeaf{"some " + paren(x.natExpr(s.Results[0], env))}
			}
			if isIdent(s.Results[1], "false") {
				k, ok := sgIntLit(s.Results[0])
				if !ok || k != 0 {
					failAt(s, "the value returned together with `false` must be the literal 0 (rule S6)")
				}
				return lLeaf{"none"}
			}
		}
	case "str", "optstr":
		if len(s.Results) == 1 {
			if lit, ok := stringLit(s.Results[0]); ok {
				if f.mode != "optstr" || x.loop == nil || x.loop.kind != "fuel" {
					failAt(s, "a literal is returned outside a loop on fuel (rule S6)")
				}
				l := leanCharList(lit)
				if f.failSet && f.failLit != l {
					failAt(s, "the failure returns differ: %s (rule S6)", src(s))
				}
				f.failLit, f.failSet = l, true
				return lLeaf{"none"}
			}
			if recv, m, args, ok := methodCall(s.Results[0]); ok && m == "String" && len(args) == 0 {
				if b := env.vars[recv]; b != nil && b.kind == sgBuilder {
					if f.mode == "optstr" {
						return lLeaf{"some " + paren(sgBuilderExpr(b))}
					}
					return lLeaf{sgBuilderExpr(b)}
				}
			}
		}
	}
	failAt(s, "unrecognised return %s", src(s))
	return nil
}

// the next iteration: the post statement, then the recursive call
func (x *sgx) iterate(at ast.Node, env *sgEnv) lnode {
	l := x.loop
	done := func(e *sgEnv) lnode {
		var args []string
		suffix := e.view.suffixAt(0)
		switch l.kind {
		case "fuel":
			args = append(args, "fuel", paren(suffix))
		case "count":
			if suffix != "rest" {
				failAt(at, "internal: the counted loop does not continue with the rest")
			}
			args = append(args, "n", "rest")
		case "struct":
			if suffix != "rest" {
				failAt(at, "internal: the structural loop does not continue with the rest")
			}
			args = append(args, "rest")
		}
		for _, c := range l.carried {
			v := e.vars[c]
			switch v.kind {
			case sgBuilder:
				args = append(args, paren(sgBuilderExpr(v)))
			case sgNat:
				args = append(args, paren(v.lean))
			default:
				failAt(at, "internal: carried variable %s", c)
			}
		}
		return lLeaf{l.name + " " + strings.Join(args, " ")}
	}
	if l.post == nil {
		return done(env)
	}
	if l.kind != "fuel" {
		// the post statement `i++` of a structural / counted loop is the step to `rest`
		env.view.advance(1)
		return done(env)
	}
	return x.execStmt(l.post, nil, env, done)
}

func (x *sgx) resultType() string {
	switch x.fn.mode {
	case "optstr":
		return "Option Str"
	case "optnat":
		return "Option Nat"
	}
	return "Str"
}

func (x *sgx) execFor(s *ast.ForStmt, rest []ast.Stmt, env *sgEnv, k sgKont) lnode {
	if x.loop != nil {
		failAt(s, "nested loop")
	}
	// for i := 0; …
	as, ok := s.Init.(*ast.AssignStmt)
	if !ok || as.Tok != token.DEFINE || len(as.Lhs) != 1 || len(as.Rhs) != 1 {
		failAt(s, "unrecognised loop header (expected `for i := 0; …`)")
	}
	idx := src(as.Lhs[0])
	if z, ok := sgIntLit(as.Rhs[0]); !ok || z != 0 {
		failAt(s, "the loop index does not start at 0")
	}
	if env.vars[idx] != nil {
		failAt(s, "the loop index shadows a variable")
	}
	cond, ok := unparen(s.Cond).(*ast.BinaryExpr)
	if !ok || cond.Op != token.LSS || !isIdent(unparen(cond.X), idx) {
		failAt(s, "unrecognised loop condition %s (expected `%s < …`)", src(s.Cond), idx)
	}
	postIsInc := false
	if s.Post != nil {
		if inc, ok := s.Post.(*ast.IncDecStmt); ok && inc.Tok == token.INC && isIdent(inc.X, idx) {
			postIsInc = true
		} else {
			failAt(s.Post, "unrecognised post statement %s", src(s.Post))
		}
	}
	bodyAssigns := x.assignedIn(s.Body, idx)
	// the string the loop runs over: the one indexed by idx in the body
	strName := ""
	ast.Inspect(s.Body, func(n ast.Node) bool {
		var base ast.Expr
		switch t := n.(type) {
		case *ast.IndexExpr:
			base = t.X
		case *ast.SliceExpr:
			base = t.X
		default:
			return true
		}
		if id, ok := unparen(base).(*ast.Ident); ok {
			if v := env.vars[id.Name]; v != nil && v.kind == sgStr {
				if strName != "" && strName != id.Name {
					failAt(n, "the loop indexes two strings")
				}
				strName = id.Name
			}
		}
		return true
	})
	if strName == "" {
		failAt(s, "the loop does not index a string")
	}
	sv := env.vars[strName]
	x.nLoops++
	l := &sgLoop{name: fmt.Sprintf("%s_loop%dGen", strings.TrimSuffix(x.fn.name, "Gen"), x.nLoops), post: s.Post}
	lenName, condIsLen := sgLenOf(cond.Y)
	bound, condIsLit := sgIntLit(cond.Y)
	switch {
	case condIsLen && lenName == strName && postIsInc && !bodyAssigns:
		l.kind = "struct"
	case condIsLen && lenName == strName:
		l.kind = "fuel"
	case condIsLit && postIsInc && !bodyAssigns:
		l.kind = "count"
		if bound < 0 || bound > sv.minLen {
			failAt(s, "the loop reads %d bytes of %s, but no preceding test establishes len(%s) >= %d (rule S4b)", bound, strName, strName, bound)
		}
	default:
		failAt(s, "unrecognised loop (rules S4a–c)")
	}
	if l.kind != "fuel" && x.fn.mode == "optstr" {
		failAt(s, "internal: mode")
	}
	if (l.kind == "fuel" || l.kind == "count") && x.fn.mode == "str" {
		failAt(s, "a loop on fuel / a counted loop in a function without a failure result")
	}
	// the variables carried through the loop: declared outside, written inside
	var order []string
	for name := range env.vars {
		order = append(order, name)
	}
	sort.Strings(order)
	for _, name := range order {
		v := env.vars[name]
		if (v.kind == sgNat || v.kind == sgBuilder) && x.writtenIn(s.Body, name) {
			l.carried = append(l.carried, name)
		}
	}
	// the environment inside the loop function: constants, closures, the carried variables
	inner := &sgEnv{vars: map[string]*sgVar{}}
	for name, v := range env.vars {
		switch v.kind {
		case sgTable, sgClosure:
			inner.vars[name] = v
		}
	}
	var params, types, wild []string
	for _, c := range l.carried {
		v := env.vars[c]
		ln := sgLeanName(c)
		params = append(params, ln)
		wild = append(wild, "_")
		if v.kind == sgBuilder {
			inner.vars[c] = &sgVar{kind: sgBuilder, lean: ln}
			types = append(types, "Str")
		} else {
			inner.vars[c] = &sgVar{kind: sgNat, lean: ln, lower: -1}
			types = append(types, "Nat")
		}
	}
	inner.vars[strName] = &sgVar{kind: sgStr, lean: "<indexed>"}
	inner.vars[idx] = &sgVar{kind: sgIndex}
	exit := func(e *sgEnv) lnode {
		// behind the loop neither the index nor the string are available
		e2 := e.clone()
		delete(e2.vars, idx)
		delete(e2.vars, strName)
		e2.view = nil
		saved := x.loop
		x.loop = nil
		n := x.execList(rest, e2, k)
		x.loop = saved
		return n
	}
	x.loop = l
	x.counter = 0
	resT := x.resultType()
	var b strings.Builder
	fmt.Fprintf(&b, "/-- the loop of `%s` at %s", x.fn.goName, where(s))
	switch l.kind {
	case "struct":
		fmt.Fprintf(&b, " over the remaining characters (rule S4a); the statements behind the loop are the exit arm -/\n")
		fmt.Fprintf(&b, "def %s : Str → %s → %s\n", l.name, strings.Join(types, " → "), resT)
		fmt.Fprintf(&b, "  | [], %s =>\n    ", strings.Join(params, ", "))
		emit(&b, exit(inner.clone()), "    ")
		fmt.Fprintf(&b, "\n  | c :: rest, %s =>\n    ", strings.Join(params, ", "))
		e := inner.clone()
		e.view = &sgView{str: strName, idx: idx, known: []string{"c"}, tail: "rest"}
		body := x.block(s.Body.List, e, func(e2 *sgEnv) lnode { return x.iterate(s, e2) })
		emit(&b, body, "    ")
		b.WriteString("\n")
	case "count":
		fmt.Fprintf(&b, ", run for the remaining `n` of its %d iterations over the suffix (rule S4b) -/\n", bound)
		fmt.Fprintf(&b, "def %s : Nat → Str → %s → %s\n", l.name, strings.Join(types, " → "), resT)
		fmt.Fprintf(&b, "  | 0, _, %s =>\n    ", strings.Join(params, ", "))
		emit(&b, exit(inner.clone()), "    ")
		fmt.Fprintf(&b, "\n  | _ + 1, [], %s => none\n", strings.Join(wild, ", "))
		fmt.Fprintf(&b, "  | n + 1, c :: rest, %s =>\n    ", strings.Join(params, ", "))
		e := inner.clone()
		e.view = &sgView{str: strName, idx: idx, known: []string{"c"}, tail: "rest"}
		body := x.block(s.Body.List, e, func(e2 *sgEnv) lnode { return x.iterate(s, e2) })
		emit(&b, body, "    ")
		b.WriteString("\n")
	case "fuel":
		fmt.Fprintf(&b, " on the suffix at the index (rules S3, S4c); `none` = a failure return or exhausted fuel -/\n")
		fmt.Fprintf(&b, "def %s : Nat → Str → %s → %s\n", l.name, strings.Join(types, " → "), resT)
		fmt.Fprintf(&b, "  | 0, _, %s => none\n", strings.Join(wild, ", "))
		fmt.Fprintf(&b, "  | fuel + 1, s, %s =>\n    ", strings.Join(params, ", "))
		e := inner.clone()
		e.view = &sgView{str: strName, idx: idx, tail: "s", whole: "s"}
		body := x.branch(s.Cond, e,
			func(e2 *sgEnv) lnode {
				return x.block(s.Body.List, e2, func(e3 *sgEnv) lnode { return x.iterate(s, e3) })
			},
			exit)
		emit(&b, body, "    ")
		b.WriteString("\n")
	}
	x.loop = nil
	x.defs = append(x.defs, b.String())
	// the call
	var args []string
	switch l.kind {
	case "fuel":
		args = append(args, fmt.Sprintf("(%s.length + 1)", sv.lean), sv.lean)
	case "count":
		args = append(args, strconv.FormatInt(bound, 10), sv.lean)
	case "struct":
		args = append(args, sv.lean)
	}
	for _, c := range l.carried {
		v := env.vars[c]
		if v.kind == sgBuilder {
			args = append(args, paren(sgBuilderExpr(v)))
		} else {
			args = append(args, paren(v.lean))
		}
	}
	return lLeaf{l.name + " " + strings.Join(args, " ")}
}

// --- functions

func sgHasLiteralReturnInLoop(body *ast.BlockStmt) bool {
	found := false
	ast.Inspect(body, func(n ast.Node) bool {
		if _, ok := n.(*ast.FuncLit); ok {
			return false
		}
		if f, ok := n.(*ast.ForStmt); ok {
			ast.Inspect(f.Body, func(m ast.Node) bool {
				if _, ok := m.(*ast.FuncLit); ok {
					return false
				}
				if r, ok := m.(*ast.ReturnStmt); ok && len(r.Results) == 1 {
					if _, ok := stringLit(r.Results[0]); ok {
						found = true
					}
				}
				return true
			})
		}
		return true
	})
	return found
}

// packageFunc translates the package-level function `name` (no receiver, no type parameters) as the closure it
// is called as: a function declared at package level captures nothing by construction, and its body is
// translated in an environment that contains only its own parameter, exactly like the body of a closure.  The
// Lean definition is named after the first function that calls it.  nil = there is no such function.
func (x *sgx) packageFunc(name string) *sgVar {
	if v, ok := x.pkgClos[name]; ok {
		return v // nil while the function itself is being translated: recursion is not supported
	}
	fd := x.funcs[name]
	if fd == nil || fd.Recv != nil || fd.Body == nil || fd.Type.TypeParams != nil {
		return nil
	}
	if x.pkgClos == nil {
		x.pkgClos = map[string]*sgVar{}
	}
	x.pkgClos[name] = nil
	savedLoop := x.loop
	x.loop = nil
	f := x.closure(name, &ast.FuncLit{Type: fd.Type, Body: fd.Body}, true)
	x.loop = savedLoop
	v := &sgVar{kind: sgClosure, clos: f}
	x.pkgClos[name] = v
	return v
}

// the free variables of a closure must be its parameters and locals
func (x *sgx) closure(goName string, fl *ast.FuncLit, pkgLevel bool) *sgFunc {
	ps := fl.Type.Params.List
	rs := fl.Type.Results
	if len(ps) != 1 || len(ps[0].Names) != 1 || src(ps[0].Type) != "string" || rs == nil || len(rs.List) != 2 ||
		src(rs.List[0].Type) != "rune" || src(rs.List[1].Type) != "bool" || len(rs.List[0].Names) != 0 {
		failAt(fl, "unrecognised closure signature (expected func(string) (rune, bool))")
	}
	if x.loop != nil {
		failAt(fl, "closure inside a loop")
	}
	outer := x.fn
	f := &sgFunc{goName: outer.goName + "." + goName, name: strings.TrimSuffix(outer.name, "Gen") + "_" + goName + "Gen", mode: "optnat", failLit: "0"}
	savedLoops, savedCounter := x.nLoops, x.counter
	x.fn, x.nLoops = f, 0
	p := ps[0].Names[0].Name
	// inside a closure only its own parameter is visible (rule S7): anything captured fails as unknown
	env := &sgEnv{vars: map[string]*sgVar{p: {kind: sgStr, lean: "s"}}}
	tree := x.execList(fl.Body.List, env, func(*sgEnv) lnode {
		failAt(fl, "control reaches the end of the closure")
		return nil
	})
	var b strings.Builder
	if pkgLevel {
		fmt.Fprintf(&b, "/-- the package-level function `%s` called by `%s` (%s); `none` = `return 0, false` (rules S6, S7) -/\n", goName, outer.goName, where(fl))
	} else {
		fmt.Fprintf(&b, "/-- the closure `%s` of `%s` (%s); `none` = `return 0, false` (rules S6, S7) -/\n", goName, outer.goName, where(fl))
	}
	fmt.Fprintf(&b, "def %s (s : Str) : Option Nat :=\n  ", f.name)
	emit(&b, tree, "  ")
	b.WriteString("\n")
	x.defs = append(x.defs, b.String())
	x.fn, x.nLoops, x.counter = outer, savedLoops, savedCounter
	return f
}

func (x *sgx) stringFunc(fd *ast.FuncDecl, leanName string) {
	ps := fd.Type.Params.List
	rs := fd.Type.Results
	if len(ps) != 1 || len(ps[0].Names) != 1 || src(ps[0].Type) != "string" || rs == nil || len(rs.List) != 1 || src(rs.List[0].Type) != "string" {
		failAt(fd, "%s: expected func(string) string", fd.Name.Name)
	}
	f := &sgFunc{goName: fd.Name.Name, name: leanName, mode: "str"}
	if sgHasLiteralReturnInLoop(fd.Body) {
		f.mode = "optstr"
	}
	x.fn, x.nLoops, x.loop = f, 0, nil
	p := ps[0].Names[0].Name
	pl := sgLeanName(p)
	env := &sgEnv{vars: map[string]*sgVar{p: {kind: sgStr, lean: pl}}}
	tree := x.execList(fd.Body.List, env, func(*sgEnv) lnode {
		failAt(fd, "control reaches the end of %s", fd.Name.Name)
		return nil
	})
	var b strings.Builder
	fmt.Fprintf(&b, "/-- `%s` (%s) -/\n", fd.Name.Name, where(fd))
	fmt.Fprintf(&b, "def %s (%s : Str) : Str :=\n  ", leanName, pl)
	if f.mode == "optstr" {
		leaf, ok := tree.(lLeaf)
		if !ok || !f.failSet {
			failAt(fd, "%s: unsupported shape of a function with failure returns (rule S6)", fd.Name.Name)
		}
		fmt.Fprintf(&b, "(%s).getD %s\n", leaf.s, f.failLit)
	} else {
		emit(&b, tree, "  ")
		b.WriteString("\n")
	}
	x.defs = append(x.defs, b.String())
}

// --- ParseFile

func sgParseFile(fd *ast.FuncDecl) string {
	ps := fd.Type.Params.List
	rs := fd.Type.Results
	if len(ps) != 1 || len(ps[0].Names) != 1 || src(ps[0].Type) != "string" || rs == nil || len(rs.List) != 2 ||
		src(rs.List[0].Type) != "Object" || src(rs.List[1].Type) != "error" {
		failAt(fd, "ParseFile: expected func(string) (Object, error)")
	}
	path := ps[0].Names[0].Name
	pathL := sgLeanName(path)
	type pfVar struct {
		kind string // "bytes", "undef", "ioerr", "nilerr"
		lean string
	}
	var exec func(list []ast.Stmt, vars map[string]pfVar, end ast.Node) lnode
	clone := func(m map[string]pfVar) map[string]pfVar {
		c := map[string]pfVar{}
		for k, v := range m {
			c[k] = v
		}
		return c
	}
	exec = func(list []ast.Stmt, vars map[string]pfVar, end ast.Node) lnode {
		if len(list) == 0 {
			failAt(end, "ParseFile: control reaches the end of the function")
		}
		rest := list[1:]
		switch st := list[0].(type) {
		case *ast.AssignStmt:
			// data, err := os.ReadFile(path)
			if st.Tok == token.DEFINE && len(st.Lhs) == 2 && len(st.Rhs) == 1 {
				d, ok1 := st.Lhs[0].(*ast.Ident)
				er, ok2 := st.Lhs[1].(*ast.Ident)
				call, ok3 := unparen(st.Rhs[0]).(*ast.CallExpr)
				if ok1 && ok2 && ok3 && src(call.Fun) == "os.ReadFile" && len(call.Args) == 1 && isIdent(unparen(call.Args[0]), path) &&
					d.Name != "_" && er.Name != "_" && d.Name != path && er.Name != path && d.Name != er.Name {
					dl := sgLeanName(d.Name)
					if dl == "fs" || dl == pathL {
						dl += "_"
					}
					okV, errV := clone(vars), clone(vars)
					okV[d.Name] = pfVar{kind: "bytes", lean: dl}
					okV[er.Name] = pfVar{kind: "nilerr"}
					errV[d.Name] = pfVar{kind: "undef"}
					errV[er.Name] = pfVar{kind: "ioerr"}
					return lMatch{scrut: "fs " + pathL, arms: []lArm{
						{pat: "none", body: exec(rest, errV, end)},
						{pat: "some " + dl, body: exec(rest, okV, end)},
					}}
				}
			}
		case *ast.IfStmt:
			if st.Init == nil && st.Else == nil {
				if c, ok := unparen(st.Cond).(*ast.BinaryExpr); ok && (c.Op == token.NEQ || c.Op == token.EQL) && src(c.Y) == "nil" {
					if id, ok := unparen(c.X).(*ast.Ident); ok {
						var isNil bool
						switch vars[id.Name].kind {
						case "ioerr":
							isNil = false
						case "nilerr":
							isNil = true
						default:
							failAt(st, "ParseFile: %s is not an error variable", id.Name)
						}
						if isNil == (c.Op == token.EQL) {
							// the branch is taken; it must end in a return, otherwise its end is reported
							return exec(append(append([]ast.Stmt(nil), st.Body.List...), rest...), vars, end)
						}
						return exec(rest, vars, end)
					}
				}
			}
		case *ast.ReturnStmt:
			if len(st.Results) == 2 && src(st.Results[0]) == "nil" {
				if id, ok := unparen(st.Results[1]).(*ast.Ident); ok && vars[id.Name].kind == "ioerr" {
					return lLeaf{".error ⟨.io, none⟩"}
				}
			}
			if len(st.Results) == 1 {
				// return ParseObject(string(data))
				if call, ok := unparen(st.Results[0]).(*ast.CallExpr); ok && isIdent(call.Fun, "ParseObject") && len(call.Args) == 1 {
					if conv, ok := unparen(call.Args[0]).(*ast.CallExpr); ok && isIdent(conv.Fun, "string") && len(conv.Args) == 1 {
						if id, ok := unparen(conv.Args[0]).(*ast.Ident); ok && vars[id.Name].kind == "bytes" {
							return lLeaf{"parseObjectBytes " + vars[id.Name].lean}
						}
					}
				}
			}
		}
		failAt(list[0], "ParseFile: unrecognised statement %s", src(list[0]))
		return nil
	}
	tree := exec(fd.Body.List, map[string]pfVar{}, fd)
	var b strings.Builder
	fmt.Fprintf(&b, "/-- `ParseFile` (%s); `fs` is `os.ReadFile` (rule S9) -/\n", where(fd))
	fmt.Fprintf(&b, "def parseFileGen (fs : String → Option (List UInt8)) (%s : String) : Except PErr JVal :=\n  ", pathL)
	emit(&b, tree, "  ")
	b.WriteString("\n")
	return b.String()
}

// --- entry point

func genStr(pkg *pkgInfo) (text string, err error) {
	defer func() {
		if r := recover(); r != nil {
			te, ok := r.(*transErr)
			if !ok {
				panic(r)
			}
			text, err = "", te
		}
	}()
	need := func(name string) *ast.FuncDecl {
		fd := pkg.funcs[name]
		if fd == nil {
			failAt(nil, "function %s not found", name)
		}
		return fd
	}
	x := &sgx{funcs: pkg.funcs}
	x.stringFunc(need("unquoteJSON"), "unquoteJSONGen")
	x.stringFunc(need("quoteJSON"), "quoteJSONGen")
	x.defs = append(x.defs, sgParseFile(need("ParseFile")))
	var b strings.Builder
	b.WriteString("/-\nGENERATED by vextract (strgen.go) from the Go source (parser.go, anytype.go) — do not edit.\n\n")
	b.WriteString("A statement-by-statement translation of `unquoteJSON` (with its closure `hex4`), `quoteJSON` and\n`ParseFile`.  The restructuring rules S1–S9 (byte loops as character loops, the index as a suffix,\nloops as recursive functions, builders as accumulators, failure results as `Option`) are written\ndown at the top of vextract/strgen.go.  Lemmas/StrGenEq.lean proves every definition equal to the\nhand-written model, so a change of the Go source that alters the behaviour breaks the build.\n-/\n")
	b.WriteString("import Anytype.Model.Parser\nnamespace Anytype.Generated.SG\nopen Anytype\n\n")
	b.WriteString(strings.Join(x.defs, "\n"))
	b.WriteString("\nend Anytype.Generated.SG\n")
	return b.String(), nil
}

// pureSizeExpr: an expression made of integer literals, identifiers, len(identifier) and + - * only
// (no calls with effects, no indexing that could panic).
func pureSizeExpr(e ast.Expr) bool {
	switch e := e.(type) {
	case *ast.BasicLit:
		return e.Kind == token.INT
	case *ast.Ident:
		return true
	case *ast.ParenExpr:
		return pureSizeExpr(e.X)
	case *ast.BinaryExpr:
		return (e.Op == token.ADD || e.Op == token.SUB || e.Op == token.MUL) && pureSizeExpr(e.X) && pureSizeExpr(e.Y)
	case *ast.CallExpr:
		if id, ok := e.Fun.(*ast.Ident); ok && id.Name == "len" && len(e.Args) == 1 {
			_, isIdent := e.Args[0].(*ast.Ident)
			return isIdent
		}
	}
	return false
}
