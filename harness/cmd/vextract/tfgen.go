// TreeFormGen.lean: translation of the eight tree-form methods (GetTF / SetTF / UnsetTF / TypeOfTF on
// *list and *object), of the seven serialize() methods, of FormatString and of the escape table of
// unquoteJSON into Lean definitions written in the vocabulary of the hand-written model.  Lemmas/TreeFormGenEq.lean proves every
// generated definition equal to the model function, so a change of the Go source that alters the
// behaviour breaks the build; whatever the translator does not recognise makes it fail with the
// source position.
//
// RESTRUCTURING RULES (this list is part of the trusted base; everything else is proved)
//
//	R1  state.  A method of *list / *object becomes a function of the heap `h` and the address `a`
//	    of the receiver's cell.  `ego`, `ego.Ego()` and `ego.ptr` all denote that cell (the model
//	    does not dispatch through the embedding level: Model/Heap.lean, `egoRef`).  A value of type
//	    List / Object is a `Ref`; a method called on it is the model function at `r.addr`.
//	R2  primitives.  Calls of library methods that are not translated here are the model functions
//	    of Model/ListOps.lean / ObjectOps.lean with the Go arguments in the Go order:
//	      list:   Get→L.get  GetObject/GetList→L.getK .object/.list  TypeOf→L.typeOf  Count→L.count
//	              Add(v)→L.add [v]  Replace→L.replace  Delete(i)→L.delete [i]  NewList()→L.new []
//	      object: Get→O.get  GetObject/GetList→O.getK  TypeOf→O.typeOf  KeyExists→O.keyExists
//	              Set(k,v)→O.set [(some k, v)] false  Unset(k)→O.unset [k]  NewObject()→O.new [] false
//	    A mutating primitive returns `(heap, Out _)`: the translation continues with the new heap on
//	    `.ok`, and returns `(heap, .panic p)` on `.panic p` (a Go panic unwinds the method).  A typed
//	    getter returns `Out Val`: `.ok (.obj r)` / `.ok (.list r)` continues with `r`, `.panic p`
//	    propagates, any other `.ok _` (impossible in Go, the result type is Object / List) is
//	    `.panic .runtime`, as in the model.
//	R3  strings.  A Go string is a `Str` (list of characters, valid UTF-8).  The byte offset returned
//	    by `strings.Index(s, "c")` for a one-character ASCII pattern is represented by the character
//	    offset `TF.indexOf 'c' s` (-1 when absent).  Such an offset may only be compared with 0 or
//	    with another offset into the same string (both order-isomorphic to the byte offsets) and
//	    used to slice that same string, `s[:i]` ↦ `s.take i.toNat`, `s[i:]` ↦ `s.drop i.toNat`, and
//	    only on a path on which `i > 0` / `i >= 0` has been tested (otherwise Go would panic).
//	    `len(s)` is the offset of the end of s, `Int.ofNat s.length` (the byte length and the number
//	    of characters are the images of each other under the same order isomorphism); it is never
//	    negative, so `s[:len(s)]` ↦ `s.take s.length`.  An offset variable may be assigned another
//	    offset into the same string.
//	    `strings.IndexAny(s, "cd")` for two distinct ASCII characters is the smaller of the first
//	    positions of c and of d, the only non-negative one of them, or -1 (written with `TF.indexOf`).
//	    `s[i] == 'c'` (c ASCII) for an offset i returned by Index / IndexAny and tested to be >= 0 is
//	    `s[i.toNat]? == some 'c'`: such a position is in range and is the first byte of a character,
//	    and that byte is the ASCII byte c iff the character is c.
//	R3b local conditions.  `b := <condition>` is a `let` of type Bool.  On a path on which b itself
//	    (or `!b`, or a conjunction / disjunction that fixes it) has been tested, later uses of b are
//	    that constant (the `let` is immutable; an assignment to b makes a new one).  When b is true the
//	    offsets that its defining condition shows to be >= 0 (R3) are known to be >= 0.
//	R4  sigil guard.  `if len(s) < 2 || s[0] != 'c' { T }` (c ASCII, T does not fall through)
//	    immediately followed by `s = s[1:]` is `match TF.strip 'c' s with | none => T | some s' => …`:
//	    the first byte is the ASCII byte c iff the first character is c, and then the byte length is
//	    ≥ 2 iff the rest is not empty.
//	R5  integers.  Go `int` is 64 bits: `int(x)` of an int64 is `x`, `bits.UintSize` is 64;
//	    `strconv.ParseInt(s, 0, 64)` is `parseIntBase0 s` (`none` = `err != nil`; the numeric result
//	    is then unspecified and the translator fails if it is used on that path).
//	R6  panics.  `panic(msg)` / `panic(fmt.Sprintf(msg, …))` is `.panic k` with k chosen by the
//	    message (table tfPanics: "…is not a valid tree form…" badTF, "…cannot be converted to int"
//	    badInt, "invalid indentation" / "indentation %d is not between…" badIndent).
//	R7  results.  GetTF returns `Out Val`; TypeOfTF returns `Out Kind` (the theorem says it is
//	    `.ok` of the model's value: the Go method cannot panic); SetTF / UnsetTF return
//	    `Heap × Out Unit` (the fluent result `ego.Ego()` is not modelled, `return <expr>` evaluates
//	    <expr> and yields `.ok ()`).
//	R8  recursion.  The mutually recursive methods recurse on fuel; out of fuel is the model's
//	    value (`.panic .runtime`, `.ok .undefined`, `(h, .panic .runtime)`).
//	R9  loops.  `for i := 0; i < N; i++ { B }` where B mentions neither i nor any local variable and
//	    N is arithmetic over locals is a recursive helper running B `N.toNat` times, threading the
//	    heap and stopping at the first panic.  `for i, v := range ego.val { B }` over a list is a
//	    recursive helper over the `List` of elements (the model's `serList`) that also carries the
//	    number of elements before the current one, which is what the index `i` denotes; the test
//	    `i+1 < len(ego.val)` is "the remaining list is not empty", a comparison of `i` with a
//	    non-negative literal (`i > 0`) is that comparison of the carried number.
//	    `for k, v := range ego.val` over a map runs over the association list in its order
//	    (Model/Heap.lean); a counter with `i := 0` before the loop that is incremented exactly once on
//	    every path through the body denotes the carried number before the increment and that number
//	    + 1 behind it, so `i++; i < len(ego.val)` is again "the remaining list is not empty".
//	    A strings.Builder is the `Str` written so far (`Write*` appends; WriteByte / WriteRune of a
//	    character literal append that character).
//	R10 serialisation works on the pure tree (`JVal`, Model/Basic.lean): `value.serialize()` on an
//	    element is `ser` of the subtree (dynamic dispatch on the field type = the constructor),
//	    `ego.getVal().(T)` is the payload of the constructor.  The float tests are the model's
//	    predicates: `math.Abs(v) >= math.Pow10(n)` ↦ `F64.absGePow10 v n`, `abs > 0` ↦ `!v.isZero`,
//	    `abs <= math.Pow10(-n)` ↦ `F64.absLeNegPow10 v n`, `v == math.Trunc(v)` ↦ `v.isWhole`,
//	    `strconv.FormatFloat(v, 'e'/'f', -1, 64)` ↦ `F64.fmtE/fmtF v`; they are used by the model only
//	    for finite v, the NaN / ±Inf cases are decided by evaluating the same Go expressions on
//	    those values (NaN: every comparison false; ±Inf: abs >= 1e6 true).  `x != y` of floats is
//	    `!(x == y)` for all values (NaN included), `==` / `!=` are symmetric.
//	    Library text functions: `strconv.FormatBool(b)` ↦ "true" / "false", `strconv.Itoa` ↦ `itoa`,
//	    `quoteJSON` ↦ the model's `quoteJSON` (proved equal to its translation in ParserGenEq),
//	    `fmt.Sprintf` with only `%s` verbs ↦ concatenation of the pieces.
//	R11 FormatString: `json.Indent(buf, []byte(ego.String()), "", strings.Repeat(" ", n))` with the
//	    error discarded is `indentGo n.toNat (ser v) false false false 0` when the text is valid
//	    JSON and the empty buffer otherwise (`hasNonFinite v`), see Model/Indent.lean.  A panic is
//	    `none`.  `ego.String()` is `ser` of the receiver (its body must be `return ego.Ego().serialize()`);
//	    the text may also be a local that was bound to it by `src := ego.String()` and not assigned since
//	    (strings are immutable values; the local is a `let` in the translation).
//	R12 unquoteJSON: only the `switch str[i+1]` behind a backslash is translated, read for the byte as
//	    a character (all cases are ASCII literals, a byte ≥ 0x80 takes `default`); the translator
//	    checks syntactically that the switch is reached exactly when `str[i] == '\\'` and a next byte
//	    exists and that it is followed by `i += 2`.  The loop skeleton (byte index versus the model's
//	    character list), `hex4` and the surrogate arithmetic are NOT translated.
package main

import (
	"fmt"
	"go/ast"
	"go/token"
	"strconv"
	"strings"
)

type tfMode int

const (
	mVal  tfMode = iota // Out Val
	mKind               // Out Kind
	mHeap               // Heap × Out Unit
)

type tfFunc struct {
	recv, goName, gen string
	mode              tfMode
	hasValue          bool
	m                 *method
}

// a symbolic value
type tval struct {
	typ    string // str off int kind bool goval obj list nil err nilerr undef self
	lean   string
	prec   int    // 100 atom, 90 !x, 70 application, 65 arithmetic, 50 comparison, 35 &&, 30 ||
	addr   string // obj / list: the Lean expression of the address
	of     string // off: the Lean expression of the string it is an offset into
	static bool   // bool: the value is known
	value  bool
	decl   int
	depth  int
	// off: the offset is >= 0 whatever the path (len(s)); the offset, when >= 0, is the position of a
	// character of the string (strings.Index / IndexAny), so that s[i] is in range
	nonneg, atChar bool
	implies        []string // bool: the offsets (Lean names) that are >= 0 when the value is true
}

type tfEnv struct {
	heap  string
	vars  map[string]tval
	facts map[string]bool // Lean names of offsets known to be >= 0 on this path
	known map[string]bool // Lean names of let-bound conditions whose value has been tested on this path
	depth int
}

func (e *tfEnv) clone() *tfEnv {
	c := &tfEnv{heap: e.heap, depth: e.depth, vars: make(map[string]tval, len(e.vars)), facts: make(map[string]bool, len(e.facts))}
	c.known = make(map[string]bool, len(e.known))
	for k, v := range e.known {
		c.known[k] = v
	}
	for k, v := range e.vars {
		c.vars[k] = v
	}
	for k, v := range e.facts {
		c.facts[k] = v
	}
	return c
}

// what a call computes before its result is inspected
type comp struct {
	lean  string
	shape string // "out": Out Val, "hout": Heap × Out _, "rec": a translated function of the same group
	res   string // "val", "obj", "list", "self", "newobj", "newlist", "unit"
	self  string // for res == "self": the receiver kind
	node  ast.Node
}

type tfx struct {
	all     map[string]*tfFunc
	fn      *tfFunc
	used    map[string]int
	ndecl   int
	helpers []string
	inLoop  bool
}

type tfKont func(*tfEnv) lnode

var tfKeywords = map[string]bool{"fun": true, "end": true, "from": true, "do": true, "then": true, "with": true,
	"open": true, "in": true, "show": true, "have": true, "match": true, "if": true, "else": true, "let": true,
	"by": true, "def": true, "theorem": true, "where": true, "instance": true, "structure": true, "class": true,
	"namespace": true, "section": true, "mutual": true, "at": true, "deriving": true, "import": true,
	"Type": true, "Prop": true, "Sort": true}

// a Lean binder name that is not used anywhere else in the function
func (x *tfx) fresh(base string) string {
	if tfKeywords[base] {
		base += "_"
	}
	n := x.used[base]
	x.used[base] = n + 1
	if n == 0 {
		return base
	}
	return x.fresh(fmt.Sprintf("%s_%d", base, n))
}

func (x *tfx) declare(env *tfEnv, name string, v tval) {
	if name == "_" {
		return
	}
	if old, ok := env.vars[name]; ok && old.depth == env.depth {
		v.decl = old.decl
	} else {
		x.ndecl++
		v.decl = x.ndecl
	}
	v.depth = env.depth
	env.vars[name] = v
}

func (x *tfx) assign(at ast.Node, env *tfEnv, name string, v tval) {
	old, ok := env.vars[name]
	if !ok {
		failAt(at, "assignment to the unknown variable %s", name)
	}
	v.decl, v.depth = old.decl, old.depth
	env.vars[name] = v
}

// leaving a block: variables declared inside are dropped, assignments to outer variables kept
func tfMerge(outer, inner *tfEnv) *tfEnv {
	res := outer.clone()
	res.heap = inner.heap
	for k, v := range inner.facts {
		res.facts[k] = v
	}
	for k, v := range inner.known {
		res.known[k] = v
	}
	for name, ov := range outer.vars {
		if iv, ok := inner.vars[name]; ok && iv.decl == ov.decl {
			res.vars[name] = iv
		}
	}
	return res
}

// --- leaves

func (x *tfx) panicLeaf(env *tfEnv, kind string) lnode {
	if x.fn.mode == mHeap {
		return lLeaf{"(" + env.heap + ", .panic " + kind + ")"}
	}
	return lLeaf{".panic " + kind}
}

var tfPanics = []struct{ prefix, kind string }{
	{"is not a valid tree form", ".badTF"},
	{"cannot be converted to int", ".badInt"},
	{"invalid indentation", ".badIndent"},
	{"indentation %d is not between", ".badIndent"},
}

func tfPanicKind(call *ast.CallExpr) string {
	if len(call.Args) != 1 {
		failAt(call, "unrecognised panic: %s", src(call))
	}
	arg := unparen(call.Args[0])
	msg, ok := stringLit(arg)
	if !ok {
		c, isCall := arg.(*ast.CallExpr)
		if !isCall || src(c.Fun) != "fmt.Sprintf" || len(c.Args) == 0 {
			failAt(call, "unrecognised panic: %s", src(call))
		}
		msg, ok = stringLit(c.Args[0])
		if !ok {
			failAt(call, "the panic message is not a string literal: %s", src(call))
		}
	}
	msg = strings.TrimPrefix(msg, "'%s' ")
	for _, p := range tfPanics {
		if strings.HasPrefix(msg, p.prefix) {
			return p.kind
		}
	}
	failAt(call, "unknown panic message %q", msg)
	return ""
}

// --- pure expressions

func tfAtom(typ, lean string) tval { return tval{typ: typ, lean: lean, prec: 100} }

func tfWrap(v tval, p int) string {
	if v.prec < p {
		return "(" + v.lean + ")"
	}
	return v.lean
}

var tfKinds = map[string]string{"TypeUndefined": ".undefined", "TypeNil": ".nil", "TypeObject": ".object",
	"TypeList": ".list", "TypeString": ".string", "TypeBool": ".bool", "TypeInt": ".int", "TypeFloat": ".float"}

func (x *tfx) use(at ast.Node, v tval) tval {
	if v.typ == "undef" {
		failAt(at, "%s has no defined value on this path", src(at))
	}
	return v
}

// the receiver of a method call that needs no evaluation: kind and address
func (x *tfx) pureRecv(e ast.Expr, env *tfEnv) (kind, addr string, ok bool) {
	e = unparen(e)
	recv := x.fn.m.recvName
	switch r := e.(type) {
	case *ast.Ident:
		if r.Name == recv && recv != "" {
			if _, shadow := env.vars[recv]; !shadow {
				return x.fn.recv, "a", true
			}
		}
		if v, isVar := env.vars[r.Name]; isVar && (v.typ == "obj" || v.typ == "list") {
			return map[string]string{"obj": "object", "list": "list"}[v.typ], v.addr, true
		}
	case *ast.SelectorExpr:
		if isIdent(r.X, recv) && r.Sel.Name == "ptr" {
			return x.fn.recv, "a", true
		}
	case *ast.CallExpr:
		if rx, sel, isSel := selOf(r.Fun); isSel && rx == recv && sel == "Ego" && len(r.Args) == 0 {
			return x.fn.recv, "a", true
		}
	}
	return "", "", false
}

type tfPrim struct {
	format string   // %h heap, %a address, %0 %1 arguments
	args   []string // int / str / goval
	shape  string   // pure / out / hout
	res    string
}

var tfPrims = map[string]map[string]tfPrim{
	"list": {
		"Get":       {"L.get %h %a %0", []string{"int"}, "out", "val"},
		"GetObject": {"L.getK %h %a .object %0", []string{"int"}, "out", "obj"},
		"GetList":   {"L.getK %h %a .list %0", []string{"int"}, "out", "list"},
		"TypeOf":    {"L.typeOf %h %a %0", []string{"int"}, "pure", "kind"},
		"Count":     {"L.count %h %a", nil, "pure", "int"},
		"Add":       {"L.add %h %a [%0]", []string{"goval"}, "hout", "self"},
		"Replace":   {"L.replace %h %a %0 %1", []string{"int", "goval"}, "hout", "self"},
		"Delete":    {"L.delete %h %a [%0]", []string{"int"}, "hout", "self"},
	},
	"object": {
		"Get":       {"O.get %h %a %0", []string{"str"}, "out", "val"},
		"GetObject": {"O.getK %h %a .object %0", []string{"str"}, "out", "obj"},
		"GetList":   {"O.getK %h %a .list %0", []string{"str"}, "out", "list"},
		"TypeOf":    {"O.typeOf %h %a %0", []string{"str"}, "pure", "kind"},
		"KeyExists": {"O.keyExists %h %a %0", []string{"str"}, "pure", "bool"},
		"Set":       {"O.set %h %a [(some %0, %1)] false", []string{"str", "goval"}, "hout", "self"},
		"Unset":     {"O.unset %h %a [%0]", []string{"str"}, "hout", "self"},
	},
}

func (x *tfx) primArgs(call *ast.CallExpr, p tfPrim, env *tfEnv) []string {
	if len(call.Args) != len(p.args) || call.Ellipsis != token.NoPos {
		failAt(call, "unsupported argument list: %s", src(call))
	}
	out := make([]string, len(p.args))
	for i, a := range call.Args {
		v := x.use(a, x.pure(a, env))
		switch p.args[i] {
		case "int":
			if v.typ != "int" {
				failAt(a, "%s is not an int", src(a))
			}
			out[i] = tfWrap(v, 100)
		case "str":
			if v.typ != "str" {
				failAt(a, "%s is not a string", src(a))
			}
			out[i] = tfWrap(v, 100)
		case "goval":
			switch v.typ {
			case "nil":
				out[i] = ".nil"
			case "goval":
				out[i] = tfWrap(v, 100)
			case "obj":
				out[i] = "(.obj " + tfWrap(v, 100) + ")"
			case "list":
				out[i] = "(.list " + tfWrap(v, 100) + ")"
			default:
				failAt(a, "%s cannot be passed as a value", src(a))
			}
		}
	}
	return out
}

func tfFormat(format, heap, addr string, args []string) string {
	s := strings.ReplaceAll(format, "%h", heap)
	s = strings.ReplaceAll(s, "%a", paren(addr))
	for i, a := range args {
		s = strings.ReplaceAll(s, "%"+strconv.Itoa(i), a)
	}
	return s
}

func (x *tfx) pure(e ast.Expr, env *tfEnv) tval {
	e = unparen(e)
	switch e := e.(type) {
	case *ast.Ident:
		if v, ok := env.vars[e.Name]; ok {
			if val, tested := env.known[v.lean]; tested && v.typ == "bool" && !v.static {
				// a let-bound condition that has been tested on this path
				return tval{typ: "bool", static: true, value: val}
			}
			return v
		}
		switch e.Name {
		case "nil":
			return tfAtom("nil", ".nil")
		case "true", "false":
			return tval{typ: "bool", static: true, value: e.Name == "true"}
		}
		if k, ok := tfKinds[e.Name]; ok {
			return tfAtom("kind", k)
		}
	case *ast.BasicLit:
		if e.Kind == token.INT {
			if n, err := strconv.ParseInt(e.Value, 0, 64); err == nil {
				return tfAtom("int", strconv.FormatInt(n, 10))
			}
		}
		if c, ok := charLit(e); ok && c < 0x80 {
			// only comparable with a byte of a string (x.binary)
			return tval{typ: "asciiLit", lean: "some " + leanChar(c), prec: 70}
		}
	case *ast.UnaryExpr:
		if e.Op == token.NOT {
			v := x.use(e.X, x.pure(e.X, env))
			if v.typ != "bool" {
				failAt(e, "%s is not a condition", src(e.X))
			}
			if v.static {
				return tval{typ: "bool", static: true, value: !v.value}
			}
			return tval{typ: "bool", lean: "!" + tfWrap(v, 100), prec: 90}
		}
	case *ast.SliceExpr:
		return x.slice(e, env)
	case *ast.IndexExpr:
		// R3: the byte at a position found by strings.Index / IndexAny (in range, a character boundary)
		s := x.use(e.X, x.pure(e.X, env))
		i := x.use(e.Index, x.pure(e.Index, env))
		if s.typ != "str" || i.typ != "off" || i.of != s.lean || !i.atChar || !env.facts[i.lean] {
			failAt(e, "a string may only be indexed at an offset obtained by strings.Index / IndexAny on the same string and known to be non-negative: %s", src(e))
		}
		return tval{typ: "byte", lean: tfWrap(s, 100) + "[" + tfWrap(i, 100) + ".toNat]?", prec: 100}
	case *ast.CallExpr:
		if _, shadow := env.vars["int"]; !shadow && isIdent(e.Fun, "int") && len(e.Args) == 1 {
			v := x.pure(e.Args[0], env)
			if v.typ != "int" && v.typ != "undef" {
				failAt(e, "int(…) of something that is not an integer: %s", src(e))
			}
			return v
		}
		if _, shadow := env.vars["len"]; !shadow && isIdent(e.Fun, "len") && len(e.Args) == 1 {
			// R3: the end of the string as an offset into it
			s := x.use(e.Args[0], x.pure(e.Args[0], env))
			if s.typ != "str" {
				failAt(e, "len of something that is not a string: %s", src(e))
			}
			return tval{typ: "off", lean: "Int.ofNat " + tfWrap(s, 100) + ".length", prec: 70, of: s.lean, nonneg: true}
		}
		if px, sel, ok := selOf(e.Fun); ok && px == "strings" && sel == "Index" && len(e.Args) == 2 {
			s := x.use(e.Args[0], x.pure(e.Args[0], env))
			pat, isLit := stringLit(e.Args[1])
			if s.typ != "str" || !isLit || len(pat) != 1 || pat[0] >= 0x80 {
				failAt(e, "expected strings.Index(<string>, <one ASCII character>): %s", src(e))
			}
			return tval{typ: "off", lean: "TF.indexOf " + leanChar(rune(pat[0])) + " " + tfWrap(s, 100), prec: 70, of: s.lean, atChar: true}
		}
		if px, sel, ok := selOf(e.Fun); ok && px == "strings" && sel == "IndexAny" && len(e.Args) == 2 {
			// R3: the first position of one of two distinct ASCII characters is the smaller of the two
			// first positions, or the only non-negative one, or -1
			s := x.use(e.Args[0], x.pure(e.Args[0], env))
			pat, isLit := stringLit(e.Args[1])
			if s.typ != "str" || !isLit || len(pat) != 2 || pat[0] >= 0x80 || pat[1] >= 0x80 || pat[0] == pat[1] {
				failAt(e, "expected strings.IndexAny(<string>, <two distinct ASCII characters>): %s", src(e))
			}
			i0 := "TF.indexOf " + leanChar(rune(pat[0])) + " " + tfWrap(s, 100)
			i1 := "TF.indexOf " + leanChar(rune(pat[1])) + " " + tfWrap(s, 100)
			lean := "if " + i0 + " < 0 then " + i1 + " else if " + i1 + " < 0 then " + i0 + " else min (" + i0 + ") (" + i1 + ")"
			return tval{typ: "off", lean: lean, prec: 10, of: s.lean, atChar: true}
		}
		if fun, ok := e.Fun.(*ast.SelectorExpr); ok {
			if kind, addr, ok := x.pureRecv(fun.X, env); ok {
				if p, ok := tfPrims[kind][fun.Sel.Name]; ok && p.shape == "pure" {
					args := x.primArgs(e, p, env)
					return tval{typ: p.res, lean: tfFormat(p.format, env.heap, addr, args), prec: 70}
				}
			}
		}
	case *ast.BinaryExpr:
		return x.binary(e, env)
	}
	failAt(e, "unrecognised expression: %s", src(e))
	return tval{}
}

func (x *tfx) slice(e *ast.SliceExpr, env *tfEnv) tval {
	if e.Slice3 || (e.Low == nil) == (e.High == nil) {
		failAt(e, "unsupported slice expression: %s", src(e))
	}
	s := x.use(e.X, x.pure(e.X, env))
	idx := e.Low
	op := "drop"
	if idx == nil {
		idx, op = e.High, "take"
	}
	i := x.use(idx, x.pure(idx, env))
	if s.typ != "str" || i.typ != "off" || i.of != s.lean {
		failAt(e, "a string may only be sliced at an offset obtained by strings.Index on the same string: %s", src(e))
	}
	if !env.facts[i.lean] && !i.nonneg {
		failAt(e, "%s is not known to be non-negative here (Go would panic on -1): %s", src(idx), src(e))
	}
	return tval{typ: "str", lean: tfWrap(s, 100) + "." + op + " " + tfWrap(i, 100) + ".toNat", prec: 70}
}

func (x *tfx) binary(e *ast.BinaryExpr, env *tfEnv) tval {
	switch e.Op {
	case token.LAND, token.LOR:
		a, b := x.use(e.X, x.pure(e.X, env)), x.use(e.Y, x.pure(e.Y, env))
		if a.typ != "bool" || b.typ != "bool" {
			failAt(e, "unrecognised condition: %s", src(e))
		}
		and := e.Op == token.LAND
		if a.static {
			if a.value == and {
				return b
			}
			return tval{typ: "bool", static: true, value: !and}
		}
		if b.static {
			if b.value == and {
				return a
			}
			// `a && false` / `a || true`: a is pure and total, the value is the constant
			return tval{typ: "bool", static: true, value: !and}
		}
		p, op := 30, " || "
		if and {
			p, op = 35, " && "
		}
		return tval{typ: "bool", lean: tfWrap(a, p) + op + tfWrap(b, p+1), prec: p}
	case token.SUB, token.ADD:
		a, b := x.use(e.X, x.pure(e.X, env)), x.use(e.Y, x.pure(e.Y, env))
		if a.typ != "int" || b.typ != "int" {
			failAt(e, "arithmetic on something that is not an int: %s", src(e))
		}
		op := " - "
		if e.Op == token.ADD {
			op = " + "
		}
		return tval{typ: "int", lean: tfWrap(a, 65) + op + tfWrap(b, 66), prec: 65}
	case token.EQL, token.NEQ, token.LSS, token.GTR, token.LEQ, token.GEQ:
		a, b := x.pure(e.X, env), x.pure(e.Y, env)
		// err != nil
		if (a.typ == "err" || a.typ == "nilerr") && b.typ == "nil" && (e.Op == token.EQL || e.Op == token.NEQ) {
			return tval{typ: "bool", static: true, value: (a.typ == "err") == (e.Op == token.NEQ)}
		}
		x.use(e.X, a)
		x.use(e.Y, b)
		op := " " + e.Op.String() + " "
		ordered := e.Op != token.EQL && e.Op != token.NEQ
		switch {
		case a.typ == "int" && b.typ == "int":
		case a.typ == "off" && b.typ == "off" && a.of == b.of:
		case a.typ == "off" && b.typ == "int" && b.lean == "0":
		case a.typ == "kind" && b.typ == "kind" && !ordered:
		case a.typ == "byte" && b.typ == "asciiLit" && !ordered:
		case a.typ == "asciiLit" && b.typ == "byte" && !ordered:
		default:
			failAt(e, "unsupported comparison: %s", src(e))
		}
		return tval{typ: "bool", lean: tfWrap(a, 51) + op + tfWrap(b, 51), prec: 50}
	}
	failAt(e, "unrecognised expression: %s", src(e))
	return tval{}
}

// the offsets a true condition shows to be non-negative (`x > 0` / `x >= 0` as a conjunct)
func (x *tfx) learn(e ast.Expr, env *tfEnv, into *tfEnv) {
	e = unparen(e)
	if id, ok := e.(*ast.Ident); ok {
		if v, ok := env.vars[id.Name]; ok && v.typ == "bool" {
			for _, f := range v.implies {
				into.facts[f] = true
			}
		}
		return
	}
	b, ok := e.(*ast.BinaryExpr)
	if !ok {
		return
	}
	switch b.Op {
	case token.LAND:
		x.learn(b.X, env, into)
		x.learn(b.Y, env, into)
	case token.GTR, token.GEQ:
		if id, ok := unparen(b.X).(*ast.Ident); ok && src(b.Y) == "0" {
			if v, ok := env.vars[id.Name]; ok && v.typ == "off" {
				into.facts[v.lean] = true
			}
		}
	}
}

// the let-bound conditions whose value follows from `e` having the value val (they are immutable
// Lean names, so the value holds on the whole path)
func (x *tfx) assume(e ast.Expr, env *tfEnv, into *tfEnv, val bool) {
	switch e := unparen(e).(type) {
	case *ast.Ident:
		if v, ok := env.vars[e.Name]; ok && v.typ == "bool" && !v.static && v.prec == 100 && v.lean != "" {
			into.known[v.lean] = val
		}
	case *ast.UnaryExpr:
		if e.Op == token.NOT {
			x.assume(e.X, env, into, !val)
		}
	case *ast.BinaryExpr:
		if (e.Op == token.LAND && val) || (e.Op == token.LOR && !val) {
			x.assume(e.X, env, into, val)
			x.assume(e.Y, env, into, val)
		}
	}
}

// --- calls

// k receives the computation a call expression denotes (after its receiver has been evaluated)
func (x *tfx) call(e *ast.CallExpr, env *tfEnv, k func(*tfEnv, comp) lnode) lnode {
	if id, ok := e.Fun.(*ast.Ident); ok && len(e.Args) == 0 {
		switch id.Name {
		case "NewObject":
			return k(env, comp{lean: "O.new " + env.heap + " [] false", shape: "hout", res: "newobj", node: e})
		case "NewList":
			return k(env, comp{lean: "L.new " + env.heap + " []", shape: "hout", res: "newlist", node: e})
		}
	}
	fun, ok := e.Fun.(*ast.SelectorExpr)
	if !ok {
		failAt(e, "unrecognised call: %s", src(e))
	}
	return x.recv(fun.X, env, func(env *tfEnv, kind, addr string) lnode {
		name := fun.Sel.Name
		if f, ok := x.all[kind+"."+name]; ok {
			if f.mode != x.fn.mode || f.hasValue != x.fn.hasValue {
				failAt(e, "%s called from %s", name, x.fn.goName)
			}
			if x.inLoop {
				failAt(e, "recursive call inside a loop")
			}
			want := 1
			if f.hasValue {
				want = 2
			}
			if len(e.Args) != want {
				failAt(e, "unexpected arguments: %s", src(e))
			}
			tf := x.use(e.Args[0], x.pure(e.Args[0], env))
			if tf.typ != "str" {
				failAt(e.Args[0], "%s is not a string", src(e.Args[0]))
			}
			lean := f.gen + " fuel " + env.heap + " " + paren(addr) + " " + tfWrap(tf, 100)
			if f.hasValue {
				v := x.use(e.Args[1], x.pure(e.Args[1], env))
				if v.typ != "goval" {
					failAt(e.Args[1], "%s is not the value parameter", src(e.Args[1]))
				}
				lean += " " + tfWrap(v, 100)
			}
			return k(env, comp{lean: lean, shape: "rec", res: "unit", self: kind, node: e})
		}
		p, ok := tfPrims[kind][name]
		if !ok || p.shape == "pure" {
			failAt(e, "unrecognised method call: %s", src(e))
		}
		args := x.primArgs(e, p, env)
		return k(env, comp{lean: tfFormat(p.format, env.heap, addr, args), shape: p.shape, res: p.res, self: kind, node: e})
	})
}

// the receiver of a method call: a pure one, or the result of a typed getter
func (x *tfx) recv(e ast.Expr, env *tfEnv, k func(env *tfEnv, kind, addr string) lnode) lnode {
	if kind, addr, ok := x.pureRecv(e, env); ok {
		return k(env, kind, addr)
	}
	c, ok := unparen(e).(*ast.CallExpr)
	if !ok {
		failAt(e, "unrecognised receiver: %s", src(e))
	}
	return x.call(c, env, func(env *tfEnv, cm comp) lnode {
		return x.bind(cm, env, func(env *tfEnv, v tval) lnode {
			switch v.typ {
			case "obj":
				return k(env, "object", v.addr)
			case "list":
				return k(env, "list", v.addr)
			}
			failAt(e, "%s is not a List or Object", src(e))
			return nil
		})
	})
}

// inspect the result of a computation
func (x *tfx) bind(c comp, env *tfEnv, k func(*tfEnv, tval) lnode) lnode {
	switch c.shape {
	case "out":
		ctor := map[string]string{"obj": ".obj", "list": ".list"}[c.res]
		if ctor == "" {
			failAt(c.node, "the result of %s is used in an unsupported way", src(c.node))
		}
		r := x.fresh("r")
		return lMatch{scrut: c.lean, arms: []lArm{
			{pat: ".ok (" + ctor + " " + r + ")", body: k(env.clone(), tval{typ: c.res, lean: r, prec: 100, addr: r + ".addr"})},
			{pat: ".ok _", body: x.panicLeaf(env, ".runtime")},
			{pat: ".panic p", body: x.panicLeaf(env, "p")},
		}}
	case "hout", "rec":
		if x.fn.mode != mHeap {
			failAt(c.node, "%s changes the heap / is not in tail position in a method that is translated as read-only", src(c.node))
		}
		h1 := x.fresh("h")
		okEnv, errEnv := env.clone(), env.clone()
		okEnv.heap, errEnv.heap = h1, h1
		pat, v := "_", tval{typ: "unit"}
		switch c.res {
		case "newobj", "newlist":
			r := x.fresh("r")
			typ := map[string]string{"newobj": "obj", "newlist": "list"}[c.res]
			pat, v = r, tval{typ: typ, lean: r, prec: 100, addr: r + ".addr"}
		case "self":
			v = tval{typ: "self", lean: c.self}
		}
		return lMatch{scrut: c.lean, arms: []lArm{
			{pat: "(" + h1 + ", .panic p)", body: x.panicLeaf(errEnv, "p")},
			{pat: "(" + h1 + ", .ok " + pat + ")", body: k(okEnv, v)},
		}}
	}
	failAt(c.node, "internal: unknown computation")
	return nil
}

// a general expression
func (x *tfx) eval(e ast.Expr, env *tfEnv, k func(*tfEnv, tval) lnode) lnode {
	if c, ok := unparen(e).(*ast.CallExpr); ok && x.isEffect(c, env) {
		return x.call(c, env, func(env *tfEnv, cm comp) lnode { return x.bind(cm, env, k) })
	}
	if kind, _, ok := x.pureRecv(e, env); ok {
		if _, isVar := unparen(e).(*ast.Ident); !isVar {
			return k(env, tval{typ: "self", lean: kind})
		}
	}
	return k(env, x.pure(e, env))
}

// does the call need `call` / `bind` (anything but a pure, total expression)?
func (x *tfx) isEffect(c *ast.CallExpr, env *tfEnv) bool {
	if id, ok := c.Fun.(*ast.Ident); ok {
		return id.Name == "NewObject" || id.Name == "NewList"
	}
	fun, ok := c.Fun.(*ast.SelectorExpr)
	if !ok {
		return false
	}
	if px, _, ok := selOf(c.Fun); ok && (px == "strings" || px == "strconv" || px == "fmt" || px == "math") {
		if _, isVar := env.vars[px]; !isVar {
			return false
		}
	}
	if kind, _, ok := x.pureRecv(fun.X, env); ok {
		if fun.Sel.Name == "Ego" && len(c.Args) == 0 {
			return false
		}
		if p, ok := tfPrims[kind][fun.Sel.Name]; ok && p.shape == "pure" {
			return false
		}
	}
	return true
}

// --- statements

func (x *tfx) execList(list []ast.Stmt, env *tfEnv, k tfKont) lnode {
	if len(list) == 0 {
		return k(env)
	}
	// R4: the sigil guard followed by the re-slicing
	if len(list) >= 2 {
		if n := x.guard(list[0], list[1], env, func(e *tfEnv) lnode { return x.execList(list[2:], e, k) }); n != nil {
			return n
		}
	}
	return x.execStmt(list[0], env, func(e *tfEnv) lnode { return x.execList(list[1:], e, k) })
}

func (x *tfx) block(list []ast.Stmt, env *tfEnv, k tfKont) lnode {
	inner := env.clone()
	inner.depth++
	return x.execList(list, inner, func(e *tfEnv) lnode { return k(tfMerge(env, e)) })
}

func (x *tfx) guard(s0, s1 ast.Stmt, env *tfEnv, k tfKont) lnode {
	ifs, ok := s0.(*ast.IfStmt)
	if !ok || ifs.Init != nil || ifs.Else != nil {
		return nil
	}
	or, ok := unparen(ifs.Cond).(*ast.BinaryExpr)
	if !ok || or.Op != token.LOR {
		return nil
	}
	l, ok1 := unparen(or.X).(*ast.BinaryExpr)
	r, ok2 := unparen(or.Y).(*ast.BinaryExpr)
	if !ok1 || !ok2 || l.Op != token.LSS || r.Op != token.NEQ {
		return nil
	}
	lc, ok := unparen(l.X).(*ast.CallExpr)
	if !ok || !isIdent(lc.Fun, "len") || len(lc.Args) != 1 {
		return nil
	}
	s, ok := unparen(lc.Args[0]).(*ast.Ident)
	if !ok {
		return nil
	}
	sv, isVar := env.vars[s.Name]
	if !isVar || sv.typ != "str" {
		return nil
	}
	sigil, isChar := charLit(r.Y)
	if src(l.Y) != "2" || src(r.X) != s.Name+"[0]" || !isChar || sigil >= 0x80 {
		failAt(ifs, "unrecognised guard (expected `len(%s) < 2 || %s[0] != '<ASCII>'`): %s", s.Name, s.Name, src(ifs.Cond))
	}
	as, ok := s1.(*ast.AssignStmt)
	if !ok || as.Tok != token.ASSIGN || len(as.Lhs) != 1 || len(as.Rhs) != 1 || !isIdent(as.Lhs[0], s.Name) ||
		src(as.Rhs[0]) != s.Name+"[1:]" {
		failAt(s1, "expected `%s = %s[1:]` behind the guard", s.Name, s.Name)
	}
	none := x.block(ifs.Body.List, env, func(e *tfEnv) lnode {
		failAt(ifs, "the body of the guard must not fall through")
		return nil
	})
	name := x.fresh(s.Name)
	e := env.clone()
	x.assign(s1, e, s.Name, tfAtom("str", name))
	return lMatch{scrut: "TF.strip " + leanChar(sigil) + " " + tfWrap(sv, 100), arms: []lArm{
		{pat: "none", body: none},
		{pat: "some " + name, body: k(e)},
	}}
}

func (x *tfx) execStmt(st ast.Stmt, env *tfEnv, k tfKont) lnode {
	switch st := st.(type) {
	case *ast.BlockStmt:
		return x.block(st.List, env, k)

	case *ast.IfStmt:
		if st.Init != nil {
			failAt(st, "if with an init statement")
		}
		c := x.use(st.Cond, x.pure(st.Cond, env))
		if c.typ != "bool" {
			failAt(st.Cond, "unrecognised condition: %s", src(st.Cond))
		}
		thenBranch := func() lnode {
			e := env.clone()
			x.learn(st.Cond, env, e)
			x.assume(st.Cond, env, e, true)
			return x.block(st.Body.List, e, k)
		}
		elseBranch := func() lnode {
			e := env.clone()
			x.assume(st.Cond, env, e, false)
			if st.Else == nil {
				return k(e)
			}
			return x.execStmt(st.Else, e, k)
		}
		if c.static {
			if c.value {
				return thenBranch()
			}
			return elseBranch()
		}
		return lIf{cond: c.lean, a: thenBranch(), b: elseBranch()}

	case *ast.ReturnStmt:
		return x.execReturn(st, env)

	case *ast.DeclStmt:
		gd, ok := st.Decl.(*ast.GenDecl)
		if !ok || gd.Tok != token.VAR || len(gd.Specs) != 1 {
			failAt(st, "unrecognised declaration: %s", src(st))
		}
		vs := gd.Specs[0].(*ast.ValueSpec)
		if len(vs.Names) != 1 || len(vs.Values) != 0 || vs.Type == nil || (src(vs.Type) != "Object" && src(vs.Type) != "List") {
			failAt(st, "unrecognised declaration: %s", src(st))
		}
		e := env.clone()
		x.declare(e, vs.Names[0].Name, tval{typ: "undef"})
		return k(e)

	case *ast.ExprStmt:
		call, ok := unparen(st.X).(*ast.CallExpr)
		if !ok {
			failAt(st, "unrecognised statement: %s", src(st))
		}
		if isIdent(call.Fun, "panic") {
			if _, shadow := env.vars["panic"]; shadow {
				failAt(st, "panic is shadowed")
			}
			return x.panicLeaf(env, tfPanicKind(call))
		}
		if !x.isEffect(call, env) {
			failAt(st, "unrecognised statement: %s", src(st))
		}
		return x.eval(call, env, func(e *tfEnv, _ tval) lnode { return k(e) })

	case *ast.AssignStmt:
		return x.execAssign(st, env, k)

	case *ast.ForStmt:
		return x.execFor(st, env, k)
	}
	failAt(st, "unrecognised statement: %s", src(st))
	return nil
}

func (x *tfx) execReturn(st *ast.ReturnStmt, env *tfEnv) lnode {
	if x.inLoop || len(st.Results) != 1 {
		failAt(st, "unrecognised return: %s", src(st))
	}
	r := unparen(st.Results[0])
	switch x.fn.mode {
	case mHeap:
		return x.eval(r, env, func(e *tfEnv, v tval) lnode {
			if v.typ != "self" || v.lean != x.fn.recv {
				failAt(st, "expected the receiver to be returned: %s", src(st))
			}
			return lLeaf{"(" + e.heap + ", .ok ())"}
		})
	case mVal, mKind:
		if c, ok := r.(*ast.CallExpr); ok && x.isEffect(c, env) {
			return x.call(c, env, func(e *tfEnv, cm comp) lnode {
				// tail position: the callee's result (value or panic) is the result
				if cm.shape == "rec" || (x.fn.mode == mVal && cm.shape == "out" && cm.res == "val") {
					return lLeaf{cm.lean}
				}
				failAt(st, "unsupported result: %s", src(st))
				return nil
			})
		}
		if x.fn.mode == mKind {
			v := x.use(r, x.pure(r, env))
			if v.typ != "kind" {
				failAt(st, "expected a Type to be returned: %s", src(st))
			}
			return lLeaf{".ok " + tfWrap(v, 100)}
		}
	}
	failAt(st, "unrecognised return: %s", src(st))
	return nil
}

func (x *tfx) execAssign(st *ast.AssignStmt, env *tfEnv, k tfKont) lnode {
	// integer, err := strconv.ParseInt(s, 0, bits.UintSize)
	if st.Tok == token.DEFINE && len(st.Lhs) == 2 && len(st.Rhs) == 1 {
		v, ok1 := st.Lhs[0].(*ast.Ident)
		er, ok2 := st.Lhs[1].(*ast.Ident)
		call, ok3 := unparen(st.Rhs[0]).(*ast.CallExpr)
		if !ok1 || !ok2 || !ok3 || src(call.Fun) != "strconv.ParseInt" || len(call.Args) != 3 ||
			src(call.Args[1]) != "0" || (src(call.Args[2]) != "bits.UintSize" && src(call.Args[2]) != "64") {
			failAt(st, "unrecognised assignment: %s", src(st))
		}
		for _, pkgName := range []string{"strconv", "bits"} {
			if _, shadow := env.vars[pkgName]; shadow {
				failAt(st, "%s is shadowed", pkgName)
			}
		}
		s := x.use(call.Args[0], x.pure(call.Args[0], env))
		if s.typ != "str" {
			failAt(call.Args[0], "%s is not a string", src(call.Args[0]))
		}
		name := x.fresh(v.Name)
		okEnv, errEnv := env.clone(), env.clone()
		x.declare(okEnv, v.Name, tfAtom("int", name))
		x.declare(okEnv, er.Name, tval{typ: "nilerr"})
		x.declare(errEnv, v.Name, tval{typ: "undef"})
		x.declare(errEnv, er.Name, tval{typ: "err"})
		return lMatch{scrut: "parseIntBase0 " + tfWrap(s, 100), arms: []lArm{
			{pat: "none", body: k(errEnv)},
			{pat: "some " + name, body: k(okEnv)},
		}}
	}
	if len(st.Lhs) != 1 || len(st.Rhs) != 1 || (st.Tok != token.DEFINE && st.Tok != token.ASSIGN) {
		failAt(st, "unrecognised assignment: %s", src(st))
	}
	id, ok := st.Lhs[0].(*ast.Ident)
	if !ok || id.Name == x.fn.m.recvName {
		failAt(st, "unrecognised assignment: %s", src(st))
	}
	return x.eval(st.Rhs[0], env, func(e *tfEnv, v tval) lnode {
		e = e.clone()
		bind := func(v tval) {
			if st.Tok == token.DEFINE {
				x.declare(e, id.Name, v)
			} else {
				old, ok := e.vars[id.Name]
				if ok && old.typ != "undef" && old.typ != v.typ && v.typ != "undef" {
					failAt(st, "%s changes its type", id.Name)
				}
				if ok && old.typ == "off" && (v.typ != "off" || v.of != old.of) {
					// an offset variable keeps denoting an offset into the same string
					failAt(st, "assignment to the offset %s", id.Name)
				}
				x.assign(st, e, id.Name, v)
			}
		}
		switch v.typ {
		case "self", "unit", "nil", "err", "nilerr":
			failAt(st, "unsupported assignment: %s", src(st))
		case "bool":
			// a local condition: a known constant, or a let-bound Bool that remembers which offsets
			// are non-negative when it is true
			if !v.static {
				tmp := e.clone()
				tmp.facts = map[string]bool{}
				x.learn(st.Rhs[0], e, tmp)
				v.implies = nil
				for f := range tmp.facts {
					v.implies = append(v.implies, f)
				}
			}
		}
		// a compound expression is let-bound once
		if v.typ != "undef" && v.prec < 100 && !(v.typ == "bool" && v.static) {
			name := x.fresh(id.Name)
			val := v.lean
			v.lean, v.prec = name, 100
			if v.typ == "off" && v.nonneg {
				e.facts[name] = true
			}
			bind(v)
			return lLet{name: name, val: val, body: k(e)}
		}
		bind(v)
		return k(e)
	})
}

// R9: `for i := 0; i < N; i++ { B }`
func (x *tfx) execFor(st *ast.ForStmt, env *tfEnv, k tfKont) lnode {
	if x.inLoop || x.fn.mode != mHeap {
		failAt(st, "unsupported loop")
	}
	init, ok := st.Init.(*ast.AssignStmt)
	if !ok || init.Tok != token.DEFINE || len(init.Lhs) != 1 || len(init.Rhs) != 1 || src(init.Rhs[0]) != "0" {
		failAt(st, "unrecognised loop header (expected `for i := 0; i < N; i++`)")
	}
	i := src(init.Lhs[0])
	cond, ok := unparen(st.Cond).(*ast.BinaryExpr)
	if !ok || cond.Op != token.LSS || !isIdent(cond.X, i) {
		failAt(st, "unrecognised loop condition (expected `%s < N`)", i)
	}
	post := ""
	if st.Post != nil {
		post = src(st.Post)
	}
	if post != i+"++" && post != i+" += 1" && post != i+" = "+i+" + 1" {
		failAt(st, "unrecognised loop step (expected `%s++`): %s", i, post)
	}
	// N: arithmetic over integer locals only (so it does not change while the loop runs)
	ast.Inspect(cond.Y, func(n ast.Node) bool {
		switch n := n.(type) {
		case *ast.BinaryExpr, *ast.ParenExpr, *ast.BasicLit:
		case *ast.Ident:
			if v, ok := env.vars[n.Name]; !ok || v.typ != "int" || n.Name == i {
				failAt(n, "the loop bound may only mention integer locals: %s", src(cond.Y))
			}
		case nil:
		default:
			failAt(cond.Y, "the loop bound may only be arithmetic over integer locals: %s", src(cond.Y))
		}
		return true
	})
	bound := x.use(cond.Y, x.pure(cond.Y, env))
	if bound.typ != "int" {
		failAt(cond.Y, "the loop bound is not an int")
	}
	// B: no locals, no loop variable
	ast.Inspect(st.Body, func(n ast.Node) bool {
		switch n := n.(type) {
		case *ast.Ident:
			if _, isVar := env.vars[n.Name]; isVar || n.Name == i {
				failAt(n, "the loop body mentions the local variable %s", n.Name)
			}
		case *ast.BranchStmt, *ast.ReturnStmt, *ast.ForStmt, *ast.RangeStmt, *ast.FuncLit, *ast.GoStmt, *ast.DeferStmt:
			failAt(n, "unsupported statement in a loop body")
		}
		return true
	})
	name := fmt.Sprintf("%s_loop%d", x.fn.gen, len(x.helpers)+1)
	x.inLoop = true
	saved := x.used
	x.used = map[string]int{"h": 1, "k": 1, "a": 1, "p": 1}
	benv := &tfEnv{heap: "h", vars: map[string]tval{}, facts: map[string]bool{}, known: map[string]bool{}}
	body := x.block(st.Body.List, benv, func(e *tfEnv) lnode { return lLeaf{name + " a k " + e.heap} })
	x.used = saved
	x.inLoop = false
	var b strings.Builder
	fmt.Fprintf(&b, "/-- the loop at %s, run `k` times -/\ndef %s (a : Nat) : Nat → Heap → Heap × Out Unit\n  | 0, h => (h, .ok ())\n  | k + 1, h =>\n    ", where(st), name)
	emit(&b, body, "    ")
	b.WriteString("\n")
	x.helpers = append(x.helpers, b.String())
	h1 := x.fresh("h")
	okEnv, errEnv := env.clone(), env.clone()
	okEnv.heap, errEnv.heap = h1, h1
	return lMatch{scrut: name + " a (" + bound.lean + ").toNat " + env.heap, arms: []lArm{
		{pat: "(" + h1 + ", .panic p)", body: x.panicLeaf(errEnv, "p")},
		{pat: "(" + h1 + ", .ok _)", body: k(okEnv)},
	}}
}

// --- the definitions

var tfSpecs = []struct {
	goName   string
	mode     tfMode
	hasValue bool
	genL     string
	genO     string
	result   map[string]string // receiver kind -> Go result type
}{
	{"GetTF", mVal, false, "getLGen", "getOGen", map[string]string{"list": "any", "object": "any"}},
	{"TypeOfTF", mKind, false, "typeLGen", "typeOGen", map[string]string{"list": "Type", "object": "Type"}},
	{"SetTF", mHeap, true, "setLGen", "setOGen", map[string]string{"list": "List", "object": "Object"}},
	{"UnsetTF", mHeap, false, "unsetLGen", "unsetOGen", map[string]string{"list": "List", "object": "Object"}},
}

func (x *tfx) define(f *tfFunc) string {
	x.fn = f
	x.used = map[string]int{}
	fd := f.m.decl
	ps := fd.Type.Params.List
	var names, types []string
	for _, p := range ps {
		for _, n := range p.Names {
			names = append(names, n.Name)
			types = append(types, src(p.Type))
		}
	}
	wantTypes := []string{"string"}
	if f.hasValue {
		wantTypes = append(wantTypes, "any")
	}
	if strings.Join(types, ",") != strings.Join(wantTypes, ",") || f.m.recvName == "" {
		failAt(fd, "%s: unexpected parameters", f.goName)
	}
	env := &tfEnv{heap: "h", vars: map[string]tval{}, facts: map[string]bool{}, known: map[string]bool{}}
	x.used["h"], x.used["a"], x.used["fuel"], x.used["p"] = 1, 1, 1, 1
	tfN := x.fresh(names[0])
	x.declare(env, names[0], tfAtom("str", tfN))
	pats := []string{tfN}
	if f.hasValue {
		vN := x.fresh(names[1])
		x.declare(env, names[1], tfAtom("goval", vN))
		pats = append(pats, vN)
	}
	tree := x.execList(fd.Body.List, env, func(*tfEnv) lnode {
		failAt(fd, "%s: control reaches the end of the function", f.goName)
		return nil
	})
	sig, zero := "", ""
	wild := strings.Repeat(", _", len(pats))
	switch f.mode {
	case mVal:
		sig, zero = "Out Val", "| 0, _, _"+wild+" => .panic .runtime"
	case mKind:
		sig, zero = "Out Kind", "| 0, _, _"+wild+" => .ok .undefined"
	case mHeap:
		sig, zero = "Heap × Out Unit", "| 0, h, _"+wild+" => (h, .panic .runtime)"
	}
	argT := "Str → "
	if f.hasValue {
		argT += "GoVal → "
	}
	var b strings.Builder
	fmt.Fprintf(&b, "/-- `(*%s).%s` (%s) -/\ndef %s : Nat → Heap → Nat → %s%s\n  %s\n  | fuel + 1, h, a, %s =>\n    ",
		f.recv, f.goName, where(fd), f.gen, argT, sig, zero, strings.Join(pats, ", "))
	emit(&b, tree, "    ")
	b.WriteString("\n")
	return b.String()
}

func genTreeForm(p *pkgInfo) (text string, err error) {
	defer func() {
		if r := recover(); r != nil {
			te, ok := r.(*transErr)
			if !ok {
				panic(r)
			}
			text, err = "", te
		}
	}()
	x := &tfx{all: map[string]*tfFunc{}}
	for _, s := range tfSpecs {
		for _, recv := range []string{"list", "object"} {
			var m *method
			if ms := p.methods[recv]; ms != nil {
				m = ms[s.goName]
			}
			if m == nil {
				failAt(nil, "method (*%s).%s not found", recv, s.goName)
			}
			res := m.decl.Type.Results
			if res == nil || len(res.List) != 1 || len(res.List[0].Names) != 0 || src(res.List[0].Type) != s.result[recv] {
				failAt(m.decl, "(*%s).%s: expected the result type %s", recv, s.goName, s.result[recv])
			}
			gen := s.genL
			if recv == "object" {
				gen = s.genO
			}
			x.all[recv+"."+s.goName] = &tfFunc{recv: recv, goName: s.goName, gen: gen, mode: s.mode, hasValue: s.hasValue, m: m}
		}
	}
	var b strings.Builder
	b.WriteString("/-\nGENERATED by vextract (tfgen.go) from the Go source (list_impl.go, object_impl.go, anytype.go) — do not edit.\n\n")
	b.WriteString("A translation of the tree-form methods, the serialize() methods and FormatString into Lean, in\nthe vocabulary of the hand-written model (the restructuring rules are listed at the top of\nvextract/tfgen.go).  Lemmas/TreeFormGenEq.lean proves each definition equal to the model function.\n-/\n")
	b.WriteString("import Anytype.Model.TreeForm\nimport Anytype.Model.Indent\nnamespace Anytype.Generated\nopen Anytype\n\n")
	for _, s := range tfSpecs {
		x.helpers = nil
		l := x.define(x.all["list."+s.goName])
		o := x.define(x.all["object."+s.goName])
		for _, h := range x.helpers {
			b.WriteString(h + "\n")
		}
		b.WriteString("mutual\n" + l + "\n" + o + "end\n\n")
	}
	b.WriteString(genSerialize(p))
	b.WriteString(genUnquoteTable(p))
	b.WriteString("end Anytype.Generated\n")
	return b.String(), nil
}

// ---------------------------------------------------------------------------------------------
// serialize() and FormatString (rules R9 – R11)

type sval struct {
	typ  string // str f64 fabs pow10 ftrunc bool int char jval builder counter len unit
	lean string
	prec int
	aux  string // fabs / ftrunc: the float; pow10: the (signed) exponent; counter: zero / iter / inc
	def  string // a let-bound local: the expression it was bound to
	set  bool   // bool: constant
	val  bool
}

type sEnv struct{ vars map[string]sval }

func (e *sEnv) clone() *sEnv {
	c := &sEnv{vars: make(map[string]sval, len(e.vars))}
	for k, v := range e.vars {
		c.vars[k] = v
	}
	return c
}

type serx struct {
	m        *method
	payloadT string // Go type of `ego.getVal().(T)`, "" if the receiver has no payload
	payload  sval
	ranged   string // Lean name of what `ego.val` denotes ("" for a scalar)
	elemKind string // "list" / "object"
	self     string // Lean expression of the receiver as a tree (for ego.serialize() / ego.String())
	rest     string // inside a loop: the Lean name of the remaining elements
	loopLeaf func(*sEnv) lnode
	option   bool // the result is Option Str (FormatString)
	used     map[string]int
	helpers  *[]string
	p        *pkgInfo
	loopBase string
}

type sKont func(*sEnv) lnode

func (x *serx) fresh(base string) string {
	if tfKeywords[base] {
		base += "_"
	}
	n := x.used[base]
	x.used[base] = n + 1
	if n == 0 {
		return base
	}
	return x.fresh(fmt.Sprintf("%s_%d", base, n))
}

func sAtom(typ, lean string) sval { return sval{typ: typ, lean: lean, prec: 100} }

func sWrap(v sval, p int) string {
	if v.prec < p {
		return "(" + v.lean + ")"
	}
	return v.lean
}

func (x *serx) isSelf(e ast.Expr) bool {
	e = unparen(e)
	if isIdent(e, x.m.recvName) {
		return true
	}
	if c, ok := e.(*ast.CallExpr); ok && len(c.Args) == 0 {
		if rx, sel, ok := selOf(c.Fun); ok && rx == x.m.recvName && sel == "Ego" {
			return true
		}
	}
	return false
}

func (x *serx) isRanged(e ast.Expr) bool {
	rx, sel, ok := selOf(unparen(e))
	return ok && rx == x.m.recvName && sel == "val" && x.ranged != ""
}

func (x *serx) str(e ast.Expr, env *sEnv) string {
	v := x.expr(e, env)
	if v.typ != "str" {
		failAt(e, "%s is not a string", src(e))
	}
	return sWrap(v, 66)
}

func sConcat(parts []string) sval {
	switch len(parts) {
	case 0:
		return sAtom("str", "[]")
	case 1:
		return sval{typ: "str", lean: parts[0], prec: 66}
	}
	return sval{typ: "str", lean: strings.Join(parts, " ++ "), prec: 65}
}

func (x *serx) expr(e ast.Expr, env *sEnv) sval {
	e = unparen(e)
	noShadow := func(names ...string) {
		for _, n := range names {
			if _, ok := env.vars[n]; ok {
				failAt(e, "%s is shadowed", n)
			}
		}
	}
	switch e := e.(type) {
	case *ast.Ident:
		if v, ok := env.vars[e.Name]; ok {
			return v
		}
	case *ast.BasicLit:
		switch e.Kind {
		case token.STRING:
			if s, ok := stringLit(e); ok {
				return sAtom("str", leanCharList(s))
			}
		case token.INT:
			if n, err := strconv.ParseInt(e.Value, 0, 64); err == nil {
				return sAtom("int", strconv.FormatInt(n, 10))
			}
		case token.CHAR:
			if r, ok := charLit(e); ok {
				return sAtom("char", leanChar(r))
			}
		}
	case *ast.UnaryExpr:
		if e.Op == token.SUB {
			if v := x.expr(e.X, env); v.typ == "int" && v.prec == 100 {
				return sAtom("int", "-"+v.lean)
			}
		}
		if e.Op == token.NOT {
			if v := x.expr(e.X, env); v.typ == "bool" && !v.set {
				return sval{typ: "bool", lean: "!" + sWrap(v, 100), prec: 90}
			}
		}
	case *ast.TypeAssertExpr:
		c, ok := unparen(e.X).(*ast.CallExpr)
		if ok && len(c.Args) == 0 && e.Type != nil {
			if rx, sel, ok := selOf(c.Fun); ok && rx == x.m.recvName && sel == "getVal" && x.payloadT != "" {
				if src(e.Type) != x.payloadT {
					failAt(e, "the payload of %s is a %s, not a %s", x.m.recvType, x.payloadT, src(e.Type))
				}
				return x.payload
			}
		}
	case *ast.CallExpr:
		if fun, ok := e.Fun.(*ast.SelectorExpr); ok && len(e.Args) == 0 {
			switch fun.Sel.Name {
			case "serialize":
				if x.isSelf(fun.X) && x.self != "" {
					return sval{typ: "str", lean: "serGen " + paren(x.self), prec: 70}
				}
				if v := x.expr(fun.X, env); v.typ == "jval" {
					return sval{typ: "str", lean: "serGen " + sWrap(v, 100), prec: 70}
				}
			case "String":
				if x.isSelf(fun.X) && x.self != "" {
					return x.stringMethod(e)
				}
				if id, ok := fun.X.(*ast.Ident); ok {
					if v, ok := env.vars[id.Name]; ok && v.typ == "builder" {
						return sval{typ: "str", lean: v.lean, prec: v.prec}
					}
				}
			}
		}
		if isIdent(e.Fun, "quoteJSON") && len(e.Args) == 1 {
			noShadow("quoteJSON")
			return sval{typ: "str", lean: "quoteJSON " + paren(x.str(e.Args[0], env)), prec: 70}
		}
		if isIdent(e.Fun, "len") && len(e.Args) == 1 && x.isRanged(e.Args[0]) && x.rest != "" {
			noShadow("len")
			return sval{typ: "len"}
		}
		px, sel, ok := selOf(e.Fun)
		if !ok {
			break
		}
		noShadow(px)
		args := make([]sval, len(e.Args))
		argSrc := make([]string, len(e.Args))
		for i, a := range e.Args {
			argSrc[i] = src(a)
		}
		evalArgs := func(n int) bool {
			if len(e.Args) != n {
				return false
			}
			for i, a := range e.Args {
				args[i] = x.expr(a, env)
			}
			return true
		}
		switch px + "." + sel {
		case "strconv.FormatBool":
			if evalArgs(1) && args[0].typ == "bool" && !args[0].set {
				return sval{typ: "str", lean: "if " + args[0].lean + " then " + leanCharList("true") + " else " + leanCharList("false"), prec: 10}
			}
		case "strconv.Itoa":
			if evalArgs(1) && args[0].typ == "int" {
				return sval{typ: "str", lean: "itoa " + sWrap(args[0], 100), prec: 70}
			}
		case "strconv.FormatFloat":
			if len(e.Args) == 4 && argSrc[2] == "-1" && argSrc[3] == "64" {
				v := x.expr(e.Args[0], env)
				f := map[string]string{"'e'": "F64.fmtE", "'f'": "F64.fmtF"}[argSrc[1]]
				if v.typ == "f64" && f != "" {
					return sval{typ: "str", lean: f + " " + sWrap(v, 100), prec: 70}
				}
			}
		case "math.Abs":
			if evalArgs(1) && args[0].typ == "f64" {
				return sval{typ: "fabs", aux: sWrap(args[0], 100)}
			}
		case "math.Trunc":
			if evalArgs(1) && args[0].typ == "f64" {
				return sval{typ: "ftrunc", aux: sWrap(args[0], 100)}
			}
		case "math.Pow10":
			if evalArgs(1) && args[0].typ == "int" && args[0].prec == 100 {
				return sval{typ: "pow10", aux: args[0].lean}
			}
		case "fmt.Sprintf":
			if len(e.Args) >= 1 {
				if format, ok := stringLit(e.Args[0]); ok {
					pieces := strings.Split(format, "%s")
					if len(pieces) == len(e.Args) && !strings.Contains(strings.Join(pieces, ""), "%") {
						var parts []string
						for i, piece := range pieces {
							if piece != "" {
								parts = append(parts, leanCharList(piece))
							}
							if i+1 < len(pieces) {
								parts = append(parts, x.str(e.Args[i+1], env))
							}
						}
						return sConcat(parts)
					}
				}
			}
		}
	case *ast.BinaryExpr:
		return x.sbinary(e, env)
	}
	failAt(e, "unrecognised expression: %s", src(e))
	return sval{}
}

// `ego.String()`: the body of the String method must be `return ego.Ego().serialize()`
func (x *serx) stringMethod(at ast.Node) sval {
	var m *method
	if ms := x.p.methods[x.m.recvType]; ms != nil {
		m = ms["String"]
	}
	if m == nil || len(m.decl.Body.List) != 1 {
		failAt(at, "(*%s).String is not a single return statement", x.m.recvType)
	}
	ret, ok := m.decl.Body.List[0].(*ast.ReturnStmt)
	want1, want2 := m.recvName+".Ego().serialize()", m.recvName+".serialize()"
	if !ok || len(ret.Results) != 1 || (src(ret.Results[0]) != want1 && src(ret.Results[0]) != want2) || m.recvName == "" {
		failAt(m.decl, "(*%s).String: expected `return %s`", x.m.recvType, want1)
	}
	return sval{typ: "str", lean: "serGen " + paren(x.self), prec: 70}
}

func (x *serx) sbinary(e *ast.BinaryExpr, env *sEnv) sval {
	switch e.Op {
	case token.LAND, token.LOR:
		a, b := x.expr(e.X, env), x.expr(e.Y, env)
		if a.typ != "bool" || b.typ != "bool" || a.set || b.set {
			failAt(e, "unrecognised condition: %s", src(e))
		}
		p, op := 30, " || "
		if e.Op == token.LAND {
			p, op = 35, " && "
		}
		return sval{typ: "bool", lean: sWrap(a, p) + op + sWrap(b, p+1), prec: p}
	case token.ADD:
		a, b := x.expr(e.X, env), x.expr(e.Y, env)
		if a.typ == "counter" && a.aux == "iter" && b.typ == "int" && b.lean == "1" {
			return sval{typ: "counter", aux: "inc", lean: a.lean}
		}
		if a.typ == "str" && b.typ == "str" {
			return sval{typ: "str", lean: sWrap(a, 65) + " ++ " + sWrap(b, 66), prec: 65}
		}
	case token.EQL, token.NEQ, token.LSS, token.GTR, token.LEQ, token.GEQ:
		a, b := x.expr(e.X, env), x.expr(e.Y, env)
		if a.typ == "ftrunc" && b.typ == "f64" && (e.Op == token.EQL || e.Op == token.NEQ) {
			a, b = b, a // == and != of floats are symmetric
		}
		fn := func(name, v, n string) sval {
			lean := name + " " + v
			if n != "" {
				lean += " " + n
			}
			return sval{typ: "bool", lean: lean, prec: 70}
		}
		switch {
		case a.typ == "int" && b.typ == "int":
			return sval{typ: "bool", lean: sWrap(a, 51) + " " + e.Op.String() + " " + sWrap(b, 51), prec: 50}
		// R9: "there is a next element"
		case a.typ == "counter" && a.aux == "inc" && b.typ == "len" && e.Op == token.LSS:
			return sval{typ: "bool", lean: "!" + x.rest + ".isEmpty", prec: 90}
		// R10: Go's float comparisons on |v|, on the model's exact predicates
		case a.typ == "fabs" && b.typ == "pow10" && e.Op == token.GEQ && !strings.HasPrefix(b.aux, "-"):
			return fn("goAbsGePow10", a.aux, b.aux)
		case a.typ == "fabs" && b.typ == "pow10" && e.Op == token.LEQ && strings.HasPrefix(b.aux, "-"):
			return fn("goAbsLeNegPow10", a.aux, b.aux[1:])
		case a.typ == "fabs" && b.typ == "int" && b.lean == "0" && e.Op == token.GTR:
			return fn("goAbsPos", a.aux, "")
		case a.typ == "f64" && b.typ == "ftrunc" && sWrap(a, 100) == b.aux && e.Op == token.EQL:
			return fn("goEqTrunc", b.aux, "")
		// `x != y` of floats is `!(x == y)` for every pair of values, NaN included
		case a.typ == "f64" && b.typ == "ftrunc" && sWrap(a, 100) == b.aux && e.Op == token.NEQ:
			return sval{typ: "bool", lean: "!(" + fn("goEqTrunc", b.aux, "").lean + ")", prec: 90}
		// R9: the number of elements before the current one against a literal
		case a.typ == "counter" && (a.aux == "iter" || a.aux == "inc") && a.lean != "" && b.typ == "int" && b.prec == 100 && !strings.HasPrefix(b.lean, "-"):
			l := a.lean
			if a.aux == "inc" {
				l += " + 1"
			}
			return sval{typ: "bool", lean: l + " " + e.Op.String() + " " + b.lean, prec: 50}
		}
	}
	failAt(e, "unrecognised expression: %s", src(e))
	return sval{}
}

func (x *serx) execList(list []ast.Stmt, env *sEnv, k sKont) lnode {
	if len(list) == 0 {
		return k(env)
	}
	// R11: buffer := new(bytes.Buffer); json.Indent(buffer, []byte(S), "", strings.Repeat(" ", n)); return buffer.String()
	if n := x.indent(list, env); n != nil {
		return n
	}
	return x.execStmt(list[0], env, func(e *sEnv) lnode { return x.execList(list[1:], e, k) })
}

func (x *serx) indent(list []ast.Stmt, env *sEnv) lnode {
	if len(list) != 3 || !x.option || x.self == "" {
		return nil
	}
	as, ok := list[0].(*ast.AssignStmt)
	if !ok || as.Tok != token.DEFINE || len(as.Lhs) != 1 || len(as.Rhs) != 1 || src(as.Rhs[0]) != "new(bytes.Buffer)" {
		return nil
	}
	buf := src(as.Lhs[0])
	for _, n := range []string{"new", "bytes", "json", "strings", "byte"} {
		if _, ok := env.vars[n]; ok || n == buf {
			failAt(as, "%s is shadowed", n)
		}
	}
	es, ok := list[1].(*ast.ExprStmt)
	var call *ast.CallExpr
	if ok {
		call, ok = es.X.(*ast.CallExpr)
	}
	if !ok || src(call.Fun) != "json.Indent" || len(call.Args) != 4 || src(call.Args[0]) != buf || src(call.Args[2]) != `""` {
		failAt(list[1], "expected `json.Indent(%s, []byte(…), \"\", strings.Repeat(\" \", n))`", buf)
	}
	conv, ok := unparen(call.Args[1]).(*ast.CallExpr)
	if !ok || src(conv.Fun) != "[]byte" || len(conv.Args) != 1 {
		failAt(call.Args[1], "expected `[]byte(…)`")
	}
	text := x.str(conv.Args[0], env)
	// the receiver's String() itself, or a local that was bound to it (strings are immutable values)
	if tv := x.expr(conv.Args[0], env); text != "serGen "+paren(x.self) && tv.def != "serGen "+paren(x.self) {
		failAt(conv.Args[0], "the indented text must be the receiver's String()")
	}
	rep, ok := unparen(call.Args[3]).(*ast.CallExpr)
	if !ok || src(rep.Fun) != "strings.Repeat" || len(rep.Args) != 2 || src(rep.Args[0]) != `" "` {
		failAt(call.Args[3], "expected `strings.Repeat(\" \", n)`")
	}
	n := x.expr(rep.Args[1], env)
	if n.typ != "int" {
		failAt(rep.Args[1], "%s is not an int", src(rep.Args[1]))
	}
	ret, ok := list[2].(*ast.ReturnStmt)
	if !ok || len(ret.Results) != 1 || src(ret.Results[0]) != buf+".String()" {
		failAt(list[2], "expected `return %s.String()`", buf)
	}
	return lIf{cond: "hasNonFinite " + paren(x.self), a: lLeaf{"some []"},
		b: lLeaf{"some (indentGo " + sWrap(n, 100) + ".toNat " + paren(text) + " false false false 0)"}}
}

func (x *serx) appendTo(b sval, piece string) sval {
	if b.lean == "[]" {
		return sval{typ: "builder", lean: piece, prec: 66}
	}
	return sval{typ: "builder", lean: sWrap(b, 65) + " ++ " + piece, prec: 65}
}

func (x *serx) execStmt(st ast.Stmt, env *sEnv, k sKont) lnode {
	switch st := st.(type) {
	case *ast.BlockStmt:
		return x.execList(st.List, env, k)

	case *ast.DeclStmt:
		gd, ok := st.Decl.(*ast.GenDecl)
		if ok && gd.Tok == token.VAR && len(gd.Specs) == 1 {
			vs := gd.Specs[0].(*ast.ValueSpec)
			if len(vs.Names) == 1 && len(vs.Values) == 0 && vs.Type != nil && src(vs.Type) == "strings.Builder" {
				e := env.clone()
				e.vars[vs.Names[0].Name] = sval{typ: "builder", lean: "[]", prec: 100}
				return k(e)
			}
		}

	case *ast.AssignStmt:
		if len(st.Lhs) == 1 && len(st.Rhs) == 1 {
			id, ok := st.Lhs[0].(*ast.Ident)
			if !ok || id.Name == x.m.recvName || id.Name == "_" {
				break
			}
			e := env.clone()
			switch st.Tok {
			case token.DEFINE:
				if _, dup := env.vars[id.Name]; dup {
					failAt(st, "%s is declared twice", id.Name)
				}
				if src(st.Rhs[0]) == "0" && x.ranged != "" && x.rest == "" {
					e.vars[id.Name] = sval{typ: "counter", aux: "zero"}
					return k(e)
				}
				v := x.expr(st.Rhs[0], env)
				switch v.typ {
				case "str", "f64", "int", "bool":
					if v.prec < 100 {
						name := x.fresh(id.Name)
						bound := sAtom(v.typ, name)
						bound.def = v.lean
						e.vars[id.Name] = bound
						return lLet{name: name, val: v.lean, body: k(e)}
					}
					e.vars[id.Name] = v
					return k(e)
				case "fabs", "ftrunc", "pow10":
					e.vars[id.Name] = v
					return k(e)
				}
			case token.ADD_ASSIGN:
				old, ok := env.vars[id.Name]
				if ok && old.typ == "str" {
					e.vars[id.Name] = sval{typ: "str", lean: sWrap(old, 65) + " ++ " + x.str(st.Rhs[0], env), prec: 65}
					return k(e)
				}
			case token.ASSIGN:
				old, ok := env.vars[id.Name]
				if ok && old.typ == "str" {
					v := x.expr(st.Rhs[0], env)
					if v.typ == "str" {
						e.vars[id.Name] = v
						return k(e)
					}
				}
			}
		}

	case *ast.IncDecStmt:
		if id, ok := st.X.(*ast.Ident); ok && st.Tok == token.INC {
			if v := env.vars[id.Name]; v.typ == "counter" && v.aux == "iter" && x.rest != "" {
				e := env.clone()
				e.vars[id.Name] = sval{typ: "counter", aux: "inc", lean: v.lean}
				return k(e)
			}
		}

	case *ast.ExprStmt:
		call, ok := unparen(st.X).(*ast.CallExpr)
		if !ok {
			break
		}
		if isIdent(call.Fun, "panic") && x.option {
			if _, shadow := env.vars["panic"]; shadow {
				failAt(st, "panic is shadowed")
			}
			if kind := tfPanicKind(call); kind != ".badIndent" {
				failAt(st, "unexpected panic %s", kind)
			}
			return lLeaf{"none"}
		}
		if bx, mm, args, ok := methodCall(call); ok && len(args) == 1 {
			if b, isB := env.vars[bx]; isB && b.typ == "builder" {
				e := env.clone()
				switch mm {
				case "WriteRune", "WriteByte":
					if c := x.expr(args[0], env); c.typ == "char" {
						e.vars[bx] = x.appendTo(b, "["+c.lean+"]")
						return k(e)
					}
				case "WriteString":
					e.vars[bx] = x.appendTo(b, x.str(args[0], env))
					return k(e)
				}
			}
		}

	case *ast.IfStmt:
		env1 := env
		if st.Init != nil {
			var got *sEnv
			x.execStmt(st.Init, env, func(e *sEnv) lnode { got = e; return lLeaf{""} })
			if _, isInc := st.Init.(*ast.IncDecStmt); !isInc || got == nil {
				failAt(st.Init, "unsupported init statement: %s", src(st.Init))
			}
			env1 = got
		}
		c := x.expr(st.Cond, env1)
		if c.typ != "bool" || c.set {
			failAt(st.Cond, "unrecognised condition: %s", src(st.Cond))
		}
		a := x.execList(st.Body.List, env1.clone(), k)
		var b lnode
		if st.Else == nil {
			b = k(env1.clone())
		} else {
			b = x.execStmt(st.Else, env1.clone(), k)
		}
		return lIf{cond: c.lean, a: a, b: b}

	case *ast.ReturnStmt:
		if x.rest == "" && len(st.Results) == 1 {
			v := x.expr(st.Results[0], env)
			if v.typ == "str" {
				if x.option {
					return lLeaf{"some " + sWrap(v, 100)}
				}
				return lLeaf{v.lean}
			}
		}

	case *ast.RangeStmt:
		return x.execRange(st, env, k)
	}
	failAt(st, "unrecognised statement: %s", src(st))
	return nil
}

// R9: `for i, value := range ego.val { B }`
func (x *serx) execRange(st *ast.RangeStmt, env *sEnv, k sKont) lnode {
	if x.rest != "" || !x.isRanged(st.X) || st.Tok != token.DEFINE || st.Key == nil || st.Value == nil {
		failAt(st, "unsupported loop: %s", src(st.X))
	}
	key, val := src(st.Key), src(st.Value)
	if key == "_" || val == "_" || key == val {
		failAt(st, "unsupported loop variables")
	}
	// the state of the loop: the builders; the counter (if any) must still be zero
	var builders []string
	counter := ""
	for name, v := range env.vars {
		switch v.typ {
		case "builder":
			builders = append(builders, name)
		case "counter":
			if v.aux != "zero" || counter != "" {
				failAt(st, "unsupported counter %s", name)
			}
			counter = name
		}
	}
	if len(builders) != 1 {
		failAt(st, "expected exactly one strings.Builder in scope")
	}
	bname := builders[0]
	ast.Inspect(st.Body, func(n ast.Node) bool {
		switch n.(type) {
		case *ast.BranchStmt, *ast.ReturnStmt, *ast.ForStmt, *ast.RangeStmt, *ast.FuncLit, *ast.GoStmt, *ast.DeferStmt:
			failAt(n, "unsupported statement in a loop body")
		}
		return true
	})
	name := fmt.Sprintf("%s_loop%d", x.loopBase, len(*x.helpers)+1)
	savedUsed := x.used
	x.used = map[string]int{}
	accN, restN, valN := x.fresh(bname), x.fresh("rest"), x.fresh(val)
	benv := env.clone()
	benv.vars[bname] = sAtom("builder", accN)
	benv.vars[val] = sAtom("jval", valN)
	pat, elemT := valN, "JVal"
	// idxN: the number of elements before the current one
	idxN := ""
	if x.elemKind == "object" {
		keyN := x.fresh(key)
		benv.vars[key] = sAtom("str", keyN)
		pat, elemT = "("+keyN+", "+valN+")", "(Str × JVal)"
		if counter != "" {
			// a counter that is 0 before the loop and incremented exactly once per iteration (checked below)
			idxN = x.fresh(counter)
			benv.vars[counter] = sval{typ: "counter", aux: "iter", lean: idxN}
		} else {
			idxN = x.fresh("i")
		}
	} else {
		// the index of a slice is the number of elements before the current one
		if counter != "" {
			failAt(st, "unsupported counter %s", counter)
		}
		idxN = x.fresh(key)
		benv.vars[key] = sval{typ: "counter", aux: "iter", lean: idxN}
	}
	x.rest = restN
	body := x.execList(st.Body.List, benv, func(e *sEnv) lnode {
		if counter != "" && e.vars[counter].aux != "inc" {
			failAt(st, "the counter %s must be incremented exactly once per iteration", counter)
		}
		b := e.vars[bname]
		return lLeaf{name + " " + restN + " (" + idxN + " + 1) " + sWrap(sval{lean: b.lean, prec: b.prec}, 100)}
	})
	x.rest = ""
	x.used = savedUsed
	var b strings.Builder
	fmt.Fprintf(&b, "/-- the loop at %s over the remaining elements, `%s` = the text written so far,\n`%s` = the number of elements before the current one -/\ndef %s : List %s → Nat → Str → Str\n  | [], _, %s => %s\n  | %s :: %s, %s, %s =>\n    ",
		where(st), accN, idxN, name, elemT, accN, accN, pat, restN, idxN, accN)
	emit(&b, body, "    ")
	b.WriteString("\n")
	*x.helpers = append(*x.helpers, b.String())
	e := env.clone()
	old := env.vars[bname]
	e.vars[bname] = sval{typ: "builder", lean: name + " " + x.ranged + " 0 " + sWrap(sval{lean: old.lean, prec: old.prec}, 100), prec: 70}
	if counter != "" {
		e.vars[counter] = sval{typ: "unit"}
	}
	return k(e)
}

func (x *serx) body() lnode {
	fd := x.m.decl
	return x.execList(fd.Body.List, &sEnv{vars: map[string]sval{}}, func(*sEnv) lnode {
		failAt(fd, "(*%s).%s: control reaches the end of the function", x.m.recvType, fd.Name.Name)
		return nil
	})
}

var serScalars = []struct{ goType, payloadT, leanT, param, gen, ctor string }{
	{"atNil", "", "", "", "serNilGen", ".null"},
	{"atBool", "bool", "Bool", "b", "serBoolGen", ".bool"},
	{"atInt", "int", "Int", "i", "serIntGen", ".int"},
	{"atFloat", "float64", "F64", "f", "serFGen", ".float"},
	{"atString", "string", "Str", "s", "serStringGen", ".str"},
}

const serPrelude = `/-! Go's comparisons of float64 values, on the model's exact predicates (rule R10): a comparison
with NaN is false, |±Inf| exceeds every finite bound, ` + "`Trunc(±Inf) = ±Inf`" + `. -/
def goAbsGePow10 (v : F64) (n : Nat) : Bool := !v.isNaN && (v.isInf || F64.absGePow10 v n)
def goAbsLeNegPow10 (v : F64) (n : Nat) : Bool := !v.isNaN && !v.isInf && F64.absLeNegPow10 v n
def goAbsPos (v : F64) : Bool := !v.isNaN && !v.isZero
def goEqTrunc (v : F64) : Bool := !v.isNaN && (v.isInf || v.isWhole)

`

func needMethod(p *pkgInfo, recv, name string) *method {
	var m *method
	if ms := p.methods[recv]; ms != nil {
		m = ms[name]
	}
	if m == nil || m.recvName == "" {
		failAt(nil, "method (*%s).%s not found", recv, name)
	}
	ft := m.decl.Type
	if ft.Results == nil || len(ft.Results.List) != 1 || src(ft.Results.List[0].Type) != "string" {
		failAt(m.decl, "(*%s).%s: expected the result type string", recv, name)
	}
	return m
}

func genSerialize(p *pkgInfo) string {
	var b strings.Builder
	b.WriteString(serPrelude)
	noParams := func(m *method) {
		if len(m.decl.Type.Params.List) != 0 {
			failAt(m.decl, "unexpected parameters")
		}
	}
	for _, s := range serScalars {
		m := needMethod(p, s.goType, "serialize")
		noParams(m)
		x := &serx{m: m, payloadT: s.payloadT, used: map[string]int{}, p: p}
		sig := s.gen + " : Str :="
		if s.payloadT != "" {
			name := x.fresh(s.param)
			typ := map[string]string{"Bool": "bool", "Int": "int", "F64": "f64", "Str": "str"}[s.leanT]
			x.payload = sAtom(typ, name)
			sig = fmt.Sprintf("%s (%s : %s) : Str :=", s.gen, name, s.leanT)
		}
		fmt.Fprintf(&b, "/-- `(*%s).serialize` (%s) -/\ndef %s\n  ", s.goType, where(m.decl), sig)
		emit(&b, x.body(), "  ")
		b.WriteString("\n\n")
	}
	// the containers, and the dynamic dispatch of `value.serialize()` on the field type (R10)
	var helpers []string
	ml, mo := needMethod(p, "list", "serialize"), needMethod(p, "object", "serialize")
	noParams(ml)
	noParams(mo)
	xl := &serx{m: ml, ranged: "xs", elemKind: "list", self: ".list xs", used: map[string]int{"xs": 1}, helpers: &helpers, p: p, loopBase: "serGen"}
	lbody := xl.body()
	xo := &serx{m: mo, ranged: "kvs", elemKind: "object", self: ".obj kvs", used: map[string]int{"kvs": 1}, helpers: &helpers, p: p, loopBase: "serGen"}
	obody := xo.body()
	b.WriteString("mutual\n/-- `value.serialize()`: dispatch on the dynamic type of the field; the arms of the containers are\n")
	fmt.Fprintf(&b, "`(*list).serialize` (%s) and `(*object).serialize` (%s) -/\ndef serGen : JVal → Str\n", where(ml.decl), where(mo.decl))
	for _, s := range serScalars {
		if s.payloadT == "" {
			fmt.Fprintf(&b, "  | %s => %s\n", s.ctor, s.gen)
		} else {
			fmt.Fprintf(&b, "  | %s %s => %s %s\n", s.ctor, s.param, s.gen, s.param)
		}
	}
	b.WriteString("  | .list xs =>\n    ")
	emit(&b, lbody, "    ")
	b.WriteString("\n  | .obj kvs =>\n    ")
	emit(&b, obody, "    ")
	b.WriteString("\n")
	for _, h := range helpers {
		b.WriteString(h)
	}
	b.WriteString("end\n\n")
	// FormatString
	for _, c := range []struct{ recv, gen, param, typ, self string }{
		{"list", "formatStringLGen", "xs", "List JVal", ".list xs"},
		{"object", "formatStringOGen", "kvs", "List (Str × JVal)", ".obj kvs"},
	} {
		m := needMethod(p, c.recv, "FormatString")
		ps := m.decl.Type.Params.List
		if len(ps) != 1 || len(ps[0].Names) != 1 || src(ps[0].Type) != "int" {
			failAt(m.decl, "FormatString: expected one int parameter")
		}
		x := &serx{m: m, self: c.self, option: true, used: map[string]int{c.param: 1}, p: p}
		name := x.fresh(ps[0].Names[0].Name)
		env := &sEnv{vars: map[string]sval{ps[0].Names[0].Name: sAtom("int", name)}}
		tree := x.execList(m.decl.Body.List, env, func(*sEnv) lnode {
			failAt(m.decl, "FormatString: control reaches the end of the function")
			return nil
		})
		fmt.Fprintf(&b, "/-- `(*%s).FormatString` (%s); `none` = panic -/\ndef %s (%s : Int) (%s : %s) : Option Str :=\n  ",
			c.recv, where(m.decl), c.gen, name, c.param, c.typ)
		emit(&b, tree, "  ")
		b.WriteString("\n\n")
	}
	return b.String()
}

// ---------------------------------------------------------------------------------------------
// unquoteJSON: only the table of single-character escapes is translated (the byte-indexed loop
// skeleton, hex4 and the surrogate arithmetic are not)

func genUnquoteTable(p *pkgInfo) string {
	fd := p.funcs["unquoteJSON"]
	if fd == nil {
		failAt(nil, "function unquoteJSON not found")
	}
	ps := fd.Type.Params.List
	if len(ps) != 1 || len(ps[0].Names) != 1 || src(ps[0].Type) != "string" {
		failAt(fd, "unquoteJSON: expected one string parameter")
	}
	str := ps[0].Names[0].Name
	var loop *ast.ForStmt
	result := ""
	for _, st := range fd.Body.List {
		switch st := st.(type) {
		case *ast.ForStmt:
			if loop != nil {
				failAt(st, "unquoteJSON: second loop")
			}
			loop = st
		case *ast.DeclStmt:
			if gd, ok := st.Decl.(*ast.GenDecl); ok && gd.Tok == token.VAR && len(gd.Specs) == 1 {
				vs := gd.Specs[0].(*ast.ValueSpec)
				if len(vs.Names) == 1 && vs.Type != nil && src(vs.Type) == "strings.Builder" {
					result = vs.Names[0].Name
				}
			}
		}
	}
	if loop == nil || result == "" {
		failAt(fd, "unquoteJSON: missing loop or strings.Builder")
	}
	init, ok := loop.Init.(*ast.AssignStmt)
	if !ok || init.Tok != token.DEFINE || len(init.Lhs) != 1 || src(init.Rhs[0]) != "0" || loop.Post != nil {
		failAt(loop, "unquoteJSON: unrecognised loop header")
	}
	i := src(init.Lhs[0])
	if src(loop.Cond) != i+" < len("+str+")" {
		failAt(loop, "unquoteJSON: unrecognised loop condition %s", src(loop.Cond))
	}
	body := loop.Body.List
	// char := str[i]; if char != '\\' { result.WriteByte(char); i++; continue }; if i+1 >= len(str) { return "" }; switch str[i+1] {…}; i += 2
	if len(body) != 5 {
		failAt(loop, "unquoteJSON: expected five statements in the loop body")
	}
	as, ok := body[0].(*ast.AssignStmt)
	if !ok || as.Tok != token.DEFINE || len(as.Lhs) != 1 || src(as.Rhs[0]) != str+"["+i+"]" {
		failAt(body[0], "unquoteJSON: expected `char := %s[%s]`", str, i)
	}
	char := src(as.Lhs[0])
	if1, ok := body[1].(*ast.IfStmt)
	if !ok || if1.Init != nil || if1.Else != nil || src(if1.Cond) != char+` != '\\'` || len(if1.Body.List) != 3 ||
		src(if1.Body.List[0]) != result+".WriteByte("+char+")" || src(if1.Body.List[1]) != i+"++" || src(if1.Body.List[2]) != "continue" {
		failAt(body[1], "unquoteJSON: expected `if %s != '\\\\' { %s.WriteByte(%s); %s++; continue }`", char, result, char, i)
	}
	if2, ok := body[2].(*ast.IfStmt)
	if !ok || if2.Init != nil || if2.Else != nil || src(if2.Cond) != i+"+1 >= len("+str+")" || len(if2.Body.List) != 1 ||
		src(if2.Body.List[0]) != `return ""` {
		failAt(body[2], "unquoteJSON: expected `if %s+1 >= len(%s) { return \"\" }`", i, str)
	}
	sw, ok := body[3].(*ast.SwitchStmt)
	next := str + "[" + i + "+1]"
	if !ok || sw.Init != nil || sw.Tag == nil || src(sw.Tag) != next {
		failAt(body[3], "unquoteJSON: expected `switch %s`", next)
	}
	if src(body[4]) != i+" += 2" {
		failAt(body[4], "unquoteJSON: expected `%s += 2` behind the switch", i)
	}
	var tree lnode = lLeaf{".fail"}
	type arm struct {
		cond string
		leaf string
	}
	var arms []arm
	seenDefault, seenU := false, false
	seen := map[rune]bool{}
	for _, cc := range sw.Body.List {
		c := cc.(*ast.CaseClause)
		if c.List == nil {
			if len(c.Body) != 1 || src(c.Body[0]) != `return ""` {
				failAt(c, "unquoteJSON: the default case must be `return \"\"`")
			}
			seenDefault = true
			continue
		}
		var conds []string
		isU := false
		for _, e := range c.List {
			r, ok := charLit(e)
			if !ok || r >= 0x80 || seen[r] {
				failAt(e, "unquoteJSON: a case must be a distinct ASCII character literal")
			}
			seen[r] = true
			if r == 'u' {
				isU = true
			}
			conds = append(conds, "e == "+leanChar(r))
		}
		if isU {
			// not translated; it must not fall out of the switch
			if len(c.List) != 1 || len(c.Body) == 0 || src(c.Body[len(c.Body)-1]) != "continue" {
				failAt(c, "unquoteJSON: unrecognised `case 'u'`")
			}
			seenU = true
			arms = append(arms, arm{conds[0], ".unicode"})
			continue
		}
		if len(c.Body) != 1 {
			failAt(c, "unquoteJSON: a case must be a single WriteByte")
		}
		leaf := ""
		if src(c.Body[0]) == result+".WriteByte("+next+")" {
			leaf = ".write e"
		} else if es, ok := c.Body[0].(*ast.ExprStmt); ok {
			if bx, mm, args, ok := methodCall(es.X); ok && bx == result && mm == "WriteByte" && len(args) == 1 {
				if r, ok := charLit(args[0]); ok && r < 0x80 {
					leaf = ".write " + leanChar(r)
				}
			}
		}
		if leaf == "" {
			failAt(c.Body[0], "unquoteJSON: unrecognised case body %s", src(c.Body[0]))
		}
		arms = append(arms, arm{strings.Join(conds, " || "), leaf})
	}
	if !seenDefault || !seenU {
		failAt(sw, "unquoteJSON: missing `default` or `case 'u'`")
	}
	for j := len(arms) - 1; j >= 0; j-- {
		tree = lIf{cond: arms[j].cond, a: lLeaf{arms[j].leaf}, b: tree}
	}
	var b strings.Builder
	fmt.Fprintf(&b, "/-- what `unquoteJSON` does with the byte behind a backslash -/\ninductive UnescGen\n  | write (c : Char)   -- `result.WriteByte(c)`, then `i += 2`\n  | unicode            -- `case 'u'` (not translated)\n  | fail               -- `return \"\"`\n  deriving DecidableEq, Repr\n\n")
	fmt.Fprintf(&b, "/-- the `switch %s` of `unquoteJSON` (%s), reached behind a backslash when a next byte exists, read\nfor that byte as a character: every case is an ASCII literal, so a byte ≥ 0x80 takes `default` -/\ndef unescGen (e : Char) : UnescGen :=\n  ", next, where(sw))
	emit(&b, tree, "  ")
	b.WriteString("\n\n")
	return b.String()
}
