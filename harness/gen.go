package main

import (
	"math"
	"strings"
	"unicode/utf8"
)

// Rng is splitmix64; every random choice of a run derives from one state seeded by VERIF_SEED.
type Rng struct{ s uint64 }

func (r *Rng) Next() uint64 {
	r.s += 0x9e3779b97f4a7c15
	z := r.s
	z = (z ^ (z >> 30)) * 0xbf58476d1ce4e5b9
	z = (z ^ (z >> 27)) * 0x94d049bb133111eb
	return z ^ (z >> 31)
}
func (r *Rng) Intn(n int) int {
	if n <= 0 {
		return 0
	}
	return int(r.Next() % uint64(n))
}
func (r *Rng) Bool() bool           { return r.Next()&1 == 1 }
func (r *Rng) Chance(p int) bool    { return r.Intn(100) < p }
func (r *Rng) Range(lo, hi int) int { return lo + r.Intn(hi-lo+1) }

// ---------------------------------------------------------------- strings

var interestingRunes = []rune{
	0x00, 0x01, 0x07, 0x08, 0x09, 0x0A, 0x0B, 0x0C, 0x0D, 0x1B, 0x1F, 0x20, '"', '\\', '/', '#', '.', ':', ',', '[', ']', '{', '}',
	'<', '>', '&', '\'', 0x7E, 0x7F, 0x80, 0x85, 0xA0, 0xAD, 0xE9, 0x7FF, 0x800, 0x1680, 0x2000, 0x2028, 0x2029, 0x202F, 0x3000,
	0xD7FF, 0xE000, 0xFEFF, 0xFFFD, 0xFFFE, 0xFFFF, 0x10000, 0x1F600, 0xE0001, 0xFFFFF, 0x100000, 0x10FFFF, 'a', 'Z', '0', '9', 'e', 'n', 't',
	// code points whose low byte / low 16 bits is a character the code reacts to (truncating conversions)
	0x10A, 0x20A, 0xFF0A, 0x1F60A, 0x1000A, 0x10D, 0x122, 0xFF02, 0x15C, 0x12C, 0x13A, 0x15B, 0x15D, 0x17B, 0x17D, 0x120, 0x109, 0x12E, 0x123, 0x10022, 0x1005C, 0x100,
}

func (r *Rng) Rune() rune {
	switch r.Intn(10) {
	case 0, 1, 2:
		return interestingRunes[r.Intn(len(interestingRunes))]
	case 3, 4, 5, 6:
		return rune(0x20 + r.Intn(0x5F))
	case 7:
		return rune(r.Intn(0x800))
	default:
		for {
			c := rune(r.Intn(0x110000))
			if utf8.ValidRune(c) {
				return c
			}
		}
	}
}

// hostile strings: made of the characters the parser's state machine reacts to
var hostileRunes = []rune{'\\', '\\', '"', ']', '[', '}', '{', ',', ':', ' ', '\n', 'u', '0', 'n', '/', 'a'}

func (r *Rng) Str() string {
	if r.Intn(5) == 0 {
		n := 1 + r.Intn(6)
		rs := make([]rune, n)
		for i := range rs {
			rs[i] = hostileRunes[r.Intn(len(hostileRunes))]
		}
		if r.Bool() {
			// runs of backslashes of every parity at the end
			rs = append(rs, []rune(strings.Repeat("\\", 1+r.Intn(4)))...)
		}
		return string(rs)
	}
	n := 0
	switch r.Intn(6) {
	case 0:
		n = 0
	case 1:
		n = 1
	case 2, 3:
		n = r.Range(2, 5)
	default:
		n = r.Range(1, 12)
	}
	rs := make([]rune, n)
	for i := range rs {
		rs[i] = r.Rune()
	}
	return string(rs)
}

var keyPool = []string{"", "a", "b", "c", "key", "k1", "k2", "x.y", "x#1", ".a", "#1", "1", "01", "a b", "é", "\"q\"", "\\", "\n", " ", "😀", "A", "aa"}

func (r *Rng) Key() string {
	if r.Chance(75) {
		return keyPool[r.Intn(len(keyPool))]
	}
	return r.Str()
}

// SimpleKey is a key usable as a tree-form segment (non-empty, free of '.' and '#').
var simpleKeys = []string{"a", "b", "c", "k", "key", "x", "1", "é", "a b", "Z"}

func (r *Rng) SimpleKey() string { return simpleKeys[r.Intn(len(simpleKeys))] }

// ---------------------------------------------------------------- numbers

var interestingInts = []int{0, 1, -1, 2, -2, 7, 10, 127, 128, 255, 256, 999999, 1000000, -1000000, 1 << 31, -(1 << 31), 1<<31 - 1, 1 << 32, 1 << 53, 1<<53 + 1,
	math.MaxInt64, math.MinInt64, math.MaxInt64 - 1, math.MinInt64 + 1, 1 << 62}

func (r *Rng) Int() int {
	switch r.Intn(4) {
	case 0:
		return interestingInts[r.Intn(len(interestingInts))]
	case 1:
		return r.Intn(21) - 10
	case 2:
		return int(r.Next())
	default:
		k := uint(r.Intn(63))
		v := 1<<k + r.Intn(3) - 1
		if r.Bool() {
			v = -v
		}
		return v
	}
}

func (r *Rng) SmallInt() int { return r.Intn(21) - 10 }

var interestingFloats = []float64{0, math.Copysign(0, -1), 1, -1, 0.5, 2.5, -2.5, 0.1, 0.2, 0.3, 1e6, 999999.9999999999, 1e-6, 1.0000000000000002e-6,
	9.999999999999999e-7, 1e7, 123456789, 1e15, 1e16, 1e17, 9007199254740992, 9007199254740993, 1e21, 1e22, 1e23, 1e100, 1e300, 1e-300, 1e308,
	math.MaxFloat64, -math.MaxFloat64, math.SmallestNonzeroFloat64, 2.2250738585072014e-308, 2.225073858507201e-308, 5e-324, 1.7976931348623157e308,
	3.14, 1.6e-8, 100, 1000000.5, 123456.789, 0.000001, 0.0000011, 4.35, 0.000123, 2e-5, 5e-7, 1.5e300, 9.5, 1 << 62, 1 << 63, 1 << 64}

func (r *Rng) FiniteFloat() float64 {
	for {
		var f float64
		switch r.Intn(6) {
		case 0, 1:
			f = interestingFloats[r.Intn(len(interestingFloats))]
		case 2:
			f = float64(r.Intn(2001)-1000) / 8
		case 3:
			f = float64(r.Int())
		case 4:
			f = math.Float64frombits(r.Next())
		default:
			// decimal with few digits
			f = float64(r.Intn(100000)) / math.Pow10(r.Intn(10))
			if r.Bool() {
				f = -f
			}
		}
		if !math.IsNaN(f) && !math.IsInf(f, 0) {
			return f
		}
	}
}

// ---------------------------------------------------------------- trees

type TreeOpts struct {
	MaxDepth int
	MaxWidth int
	Keys     func() string
	NoFloat  bool
}

func (r *Rng) Scalar(o *TreeOpts) *Tree {
	switch r.Intn(6) {
	case 0:
		return &Tree{K: 'n'}
	case 1:
		return &Tree{K: 'b', B: r.Bool()}
	case 2:
		return &Tree{K: 'i', I: r.Int()}
	case 3:
		if o != nil && o.NoFloat {
			return &Tree{K: 'i', I: r.SmallInt()}
		}
		return &Tree{K: 'd', F: r.FiniteFloat()}
	default:
		return &Tree{K: 's', S: r.Str()}
	}
}

func (r *Rng) Tree(o *TreeOpts, depth int) *Tree {
	if depth >= o.MaxDepth || r.Chance(45) {
		return r.Scalar(o)
	}
	if r.Bool() {
		return r.ListTree(o, depth)
	}
	return r.ObjTree(o, depth)
}

func (r *Rng) ListTree(o *TreeOpts, depth int) *Tree {
	t := &Tree{K: '['}
	n := r.Intn(o.MaxWidth + 1)
	for i := 0; i < n; i++ {
		t.Xs = append(t.Xs, r.Tree(o, depth+1))
	}
	return t
}

func (r *Rng) ObjTree(o *TreeOpts, depth int) *Tree {
	t := &Tree{K: '{'}
	n := r.Intn(o.MaxWidth + 1)
	seen := map[string]bool{}
	keys := o.Keys
	if keys == nil {
		keys = r.Key
	}
	for i := 0; i < n; i++ {
		k := keys()
		if seen[k] {
			continue
		}
		seen[k] = true
		t.Keys = append(t.Keys, k)
		t.Xs = append(t.Xs, r.Tree(o, depth+1))
	}
	return t
}

// Container returns a random tree whose root is a list (root == '[') or an object ('{').
func (r *Rng) Container(o *TreeOpts, root byte) *Tree {
	if root == '[' {
		return r.ListTree(o, 0)
	}
	return r.ObjTree(o, 0)
}

// ScalarGV is a random scalar argument of canonical Go type.
func (r *Rng) ScalarGV() *GV { return gvOfTree(r.Scalar(nil)) }
