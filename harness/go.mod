module vharness

go 1.18

require github.com/DanielSvub/anytype v0.0.0

replace github.com/DanielSvub/anytype => /repo
