package main

// Strata of the heap properties: C06, C08, C09, C12, C13, C14, C17, C18, C19.

import (
	"fmt"
	"math"
	"strconv"

	at "github.com/DanielSvub/anytype"
)

func init() {
	props["C06"] = runC06
	props["C08"] = runC08
	props["C09"] = runC09
	props["C12"] = runC12
	props["C13"] = runC13
	props["C14"] = runC14
	props["C17"] = runC17
	props["C18"] = runC18
	props["C19"] = runC19
}

// ---------------------------------------------------------------- C06

func (p *Prog) ObjStep() {
	r, m := p.c.R, p.c.M
	if len(p.objs) == 0 {
		p.track(m.NewObject())
		return
	}
	o := p.anyObj()
	p.nops++
	keys := func(n int) []string {
		ks := make([]string, n)
		for i := range ks {
			ks[i] = r.Key()
		}
		return ks
	}
	existingKey := func() string {
		d := m.O(o).Dict()
		if len(d) > 0 && r.Chance(70) {
			i := r.Intn(len(d))
			for k := range d { // map order is random; pick by sorted position for reproducibility
				_ = k
			}
			ks := sortedKeys(d)
			return ks[i]
		}
		return r.Key()
	}
	switch x := r.Intn(100); {
	case x < 5:
		n := r.Intn(4)
		var gs []*GV
		for i := 0; i < n; i++ {
			gs = append(gs, gvStr(r.Key()), p.value(""))
		}
		p.track(m.NewObject(gs...))
	case x < 8:
		t := r.Container(&TreeOpts{MaxDepth: 2, MaxWidth: 4}, '{')
		p.track(m.NewObjectFrom(gvOfTree(t)))
	case x < 30:
		n := 1 + r.Intn(3)
		var gs []*GV
		for i := 0; i < n; i++ {
			k := existingKey()
			if i > 0 && r.Chance(25) {
				k = gs[0].S // the same key twice in one call
			}
			gs = append(gs, gvStr(k), p.value(o))
		}
		switch r.Intn(25) {
		case 0:
			gs = gs[:len(gs)-1] // odd argument count
		case 1:
			gs[len(gs)-2] = gvInt(5) // non-string key
		}
		m.OSet(o, gs...)
	case x < 38:
		ks := keys(r.Intn(3))
		ks = append(ks, existingKey())
		m.OUnset(o, ks...)
	case x < 40:
		m.OClear(o)
	case x < 48:
		m.OGet(o, existingKey())
	case x < 54:
		m.OGetK(o, "olsbif"[r.Intn(6)], existingKey())
	case x < 58:
		m.OTypeOf(o, existingKey())
		m.OKeyExists(o, existingKey())
	case x < 61:
		m.OCount(o)
		m.OEmpty(o)
	case x < 66:
		p.track(m.Keys(o))
	case x < 71:
		p.track(m.Values(o))
	case x < 74:
		m.Dict(o)
	case x < 80:
		p.track(m.Merge(o, p.anyObj()))
	case x < 86:
		ks := []string{existingKey()}
		for r.Chance(50) {
			ks = append(ks, existingKey())
		}
		p.track(m.Pluck(o, ks...))
	case x < 92:
		g := r.ScalarGV()
		d := m.O(o).Dict()
		if len(d) > 0 && r.Chance(70) {
			g = gvOfValue(m, d[sortedKeys(d)[r.Intn(len(d))]])
		}
		if r.Bool() {
			m.OContains(o, g)
		} else {
			m.KeyOf(o, g)
		}
	case x < 95:
		p.track(m.OClone(o))
	case x < 97:
		m.OEquals(o, p.anyObj())
	default:
		m.OString(o)
	}
}

func sortedKeys(d map[string]any) []string {
	ks := make([]string, 0, len(d))
	for k := range d {
		ks = append(ks, k)
	}
	sortStrings(ks)
	return ks
}

func sortStrings(a []string) {
	for i := 1; i < len(a); i++ {
		for j := i; j > 0 && a[j] < a[j-1]; j-- {
			a[j], a[j-1] = a[j-1], a[j]
		}
	}
}

func runC06(c *Ctx) {
	m, r := c.M, c.R
	c.St.Rule = "programs of object operations over a heap of objects/lists with keys from a pool (empty, '.', '#', quotes, non-ASCII, repeated within one Set); non-trivial = at least 3 operations; distinct by program"
	c.nilArguments()
	c.rawBytes("C06")
	c.lateDerived("C06")
	c.nestedClear()
	c.sigilKeys()
	// queries with Go values that no stored element can be identical to: a value of another numeric Go type is not
	// the int / float64 the container holds (Contains false, KeyOf panics), whatever its numeric value
	m.Case("foreign-queries")
	{
		o := m.NewObject(gvStr("i"), gvInt(1), gvStr("f"), gvFloat(0.5), gvStr("z"), gvInt(0), gvStr("n"), gvNil(), gvStr("s"), gvStr("1"))
		l := m.NewList(gvInt(1), gvFloat(0.5), gvInt(0), gvNil(), gvStr("1"))
		qs := []*GV{{K: 'w', W: "i64", I: 1}, {K: 'w', W: "i8", I: 1}, {K: 'w', W: "u8", U: 1}, {K: 'w', W: "u", U: 0}, {K: 'w', W: "i32", I: 0},
			{K: 'g', F32: 0.5}, gvFloat(1), gvInt(1), gvFloat(0.5), gvStr("1"), gvNil(), gvBool(false), gvUnsupported(0)}
		for _, q := range qs {
			m.OContains(o, q)
			m.KeyOf(o, q)
			m.Contains(l, q)
			m.IndexOf(l, q)
		}
	}
	// exhaustive: every sequence of k operations from a menu over two objects sharing a nested list
	type op func(o1, o2, l string)
	menu := []op{
		func(o1, o2, l string) { m.OSet(o1, gvStr("a"), gvInt(1)) },
		func(o1, o2, l string) { m.OSet(o1, gvStr(""), gvNil()) },
		func(o1, o2, l string) { m.OSet(o1, gvStr("a"), gvInt(1), gvStr("a"), gvInt(2)) },
		func(o1, o2, l string) { m.OSet(o1, gvStr("b"), gvInt(1), gvStr("c")) },
		func(o1, o2, l string) { m.OSet(o1, gvStr("b"), gvInt(1), gvInt(3), gvInt(4)) },
		func(o1, o2, l string) { m.OSet(o1, gvStr("l"), m.RefGV(l)) },
		func(o1, o2, l string) { m.OSet(o2, gvStr("a"), gvStr("two")) },
		func(o1, o2, l string) { m.OUnset(o1, "a") },
		func(o1, o2, l string) { m.OUnset(o1, "zz", "") },
		func(o1, o2, l string) { m.OClear(o2) },
		func(o1, o2, l string) { m.Merge(o1, o2); m.Merge(o2, o1) },
		func(o1, o2, l string) { m.Pluck(o1, "a") },
		func(o1, o2, l string) { m.Pluck(o1, "a", "l") },
		func(o1, o2, l string) { m.OGet(o1, "a"); m.OGet(o1, "") },
		func(o1, o2, l string) { m.OGetK(o1, 'i', "a"); m.OGetK(o1, 's', "a"); m.OGetK(o2, 'l', "l") },
		func(o1, o2, l string) { m.Keys(o1); m.Values(o2); m.Dict(o1) },
		func(o1, o2, l string) { m.KeyOf(o1, gvInt(1)); m.OContains(o2, m.RefGV(l)) },
		func(o1, o2, l string) { m.Add(l, gvInt(7)) },
	}
	k := c.N(2, 3)
	total := 1
	for i := 0; i < k; i++ {
		total *= len(menu)
	}
	for s := 0; s < total; s++ {
		m.Case("exhaustive")
		l := m.NewList(gvInt(0))
		o1 := m.NewObject(gvStr("x"), gvBool(true))
		o2 := m.NewObject(gvStr("l"), m.RefGV(l), gvStr("x"), gvFloat(2.5))
		x := s
		seq := ""
		for i := 0; i < k; i++ {
			j := x % len(menu)
			x /= len(menu)
			menu[j](o1, o2, l)
			seq += strconv.Itoa(j) + ","
		}
		c.St.Eval("exh:"+seq, true)
	}
	c.St.Exhaustive = append(c.St.Exhaustive, fmt.Sprintf("exhaustive: all %d sequences of %d operations from a menu of %d over two objects sharing a list", total, k, len(menu)))
	// structurally equal but distinct containers stored under keys, overwritten, merged, plucked
	for i := 0; i < c.N(60, 600); i++ {
		m.Case("twins")
		t := r.Container(&TreeOpts{MaxDepth: 2, MaxWidth: 3}, "[{"[r.Intn(2)])
		mk := func() string {
			if t.K == '[' {
				return m.NewListFrom(gvOfTree(t))
			}
			return m.NewObjectFrom(gvOfTree(t))
		}
		a, b := mk(), mk()
		o := m.NewObject(gvStr("k"), m.RefGV(a), gvStr("n"), gvInt(1), gvStr("s"), gvStr("v"))
		m.OSet(o, gvStr("k"), m.RefGV(b))
		m.OGet(o, "k")
		m.KeyOf(o, m.RefGV(b))
		m.OContains(o, m.RefGV(a))
		m.OSet(o, gvStr("n"), gvInt(1), gvStr("s"), gvStr("v")) // same scalars again
		pl := m.Pluck(o, "k", "n", "s")
		m.OSet(pl, gvStr("n"), gvInt(2), gvStr("s"), gvStr("w"))
		m.OSet(o, gvStr("n"), gvInt(3))
		m.OGet(pl, "k")
		e := m.NewObject()
		mg := m.Merge(e, o)
		m.OGet(mg, "k")
		m.KeyOf(mg, m.RefGV(b))
		mg2 := m.Merge(o, e)
		m.OGet(mg2, "k")
		m.OClear(o)
		mg3 := m.Merge(o, pl)
		m.OGet(mg3, "k")
		if t.K == '[' {
			m.Add(b, gvInt(7))
		} else {
			m.OSet(b, gvStr("twin"), gvInt(7))
		}
		c.St.Eval("twins:"+t.Token(), true)
	}
	c.omoObj("C06")
	c.sharedBoxes()
	for i := 0; i < c.N(300, 4000); i++ {
		m.Case("random")
		p := &Prog{c: c}
		steps := r.Range(10, c.N(40, 120))
		for s := 0; s < steps; s++ {
			if r.Chance(80) {
				p.ObjStep()
			} else {
				p.ListStep()
			}
		}
		c.St.Eval(fmt.Sprintf("rand:%d:%d", i, steps), true)
	}
}

// ---------------------------------------------------------------- C08

// identityWalk records, for every container reachable from root, its handle (by Get identity).
func identityWalk(m *Machine, v any, path string, out *[]string) {
	switch x := v.(type) {
	case at.List:
		*out = append(*out, path+"="+m.tokVal(x))
		for i, e := range x.Slice() {
			identityWalk(m, e, path+"#"+strconv.Itoa(i), out)
		}
	case at.Object:
		*out = append(*out, path+"="+m.tokVal(x))
		d := x.Dict()
		for _, k := range sortedKeys(d) {
			identityWalk(m, d[k], path+"."+hx(k), out)
		}
	}
}

func runC08(c *Ctx) {
	m, r := c.M, c.R
	c.St.Rule = "container trees cloned, then a random mutation program applied inside the clone or inside the original (top level and nested, methods and tree-form paths), every live container snapshotted after every step; non-trivial = the tree has a nested container; distinct by tree and program"
	opts := &TreeOpts{MaxDepth: 4, MaxWidth: 4, Keys: r.SimpleKey}
	c.deepChains()
	c.deepCloneBottom()
	c.entryWays()
	c.omoList("C08")
	c.omoObj("C08")
	for _, side := range []int{0, 1} {
		for _, op := range []string{"sort", "reverse", "sort-nested"} {
			m.Case("clone-then-reorder")
			inner := m.NewList(gvInt(9), gvInt(7), gvInt(8))
			l := m.NewList(gvInt(3), gvInt(1), gvInt(2))
			holder := m.NewList(m.RefGV(l), m.RefGV(inner), gvStr("x"))
			cl := m.Clone(l)
			hc := m.Clone(holder)
			t, ht := l, holder
			if side == 1 {
				t, ht = cl, hc
			}
			switch op {
			case "sort":
				m.Sort(t)
			case "reverse":
				m.Reverse(t)
			case "sort-nested":
				m.Sort(m.tokVal(m.L(ht).Get(1)))
				m.Sort(m.tokVal(m.L(ht).Get(0)))
			}
			c.St.Eval(fmt.Sprint("clone-reorder:", side, op), true)
		}
	}
	c.derivedCorners("C08")
	c.rawBytes("C08")
	c.cloneSequences()
	c.growShrink()
	c.sharedBoxes()
	for i := 0; i < c.N(400, 6000); i++ {
		m.Case("clone-then-mutate")
		t := r.Container(opts, "[{"[r.Intn(2)])
		var orig, clone string
		if t.K == '[' {
			orig = m.NewListFrom(gvOfTree(t))
			clone = m.Clone(orig)
			m.Equals(orig, clone)
			m.Equals(clone, orig)
		} else {
			orig = m.NewObjectFrom(gvOfTree(t))
			clone = m.OClone(orig)
			m.OEquals(orig, clone)
			m.OEquals(clone, orig)
		}
		if i%4 == 0 && t.K == '[' {
			// a container that arrives through a particular history: inserted in the middle of a list of atoms
			inner := m.NewList(gvInt(1), gvInt(2))
			hist := m.NewList(gvInt(1), gvStr("a"), gvInt(3))
			m.Insert(hist, 1, m.RefGV(inner))
			m.Insert(hist, 0, m.RefGV(orig))
			m.Replace(hist, 4, m.RefGV(m.NewObject(gvStr("q"), m.RefGV(inner))))
			orig = hist
			clone = m.Clone(orig)
			m.Equals(orig, clone)
		}
		// every container of both sides is now registered (snapshots discovered them); mutate inside one side
		side := clone
		if r.Bool() {
			side = orig
		}
		var inside []string
		var walk func(v any)
		walk = func(v any) {
			switch x := v.(type) {
			case at.List:
				inside = append(inside, m.tokVal(x))
				for _, e := range x.Slice() {
					walk(e)
				}
			case at.Object:
				inside = append(inside, m.tokVal(x))
				for _, e := range x.Dict() {
					walk(e)
				}
			}
		}
		walk(m.resolve(side))
		p := &Prog{c: c}
		steps := r.Range(3, 15)
		for s := 0; s < steps; s++ {
			target := inside[r.Intn(len(inside))]
			p.lists, p.objs = nil, nil
			if target[0] == 'L' {
				p.lists = []string{target}
				n := m.L(target).Count()
				switch r.Intn(8) {
				case 0:
					m.Add(target, r.ScalarGV())
				case 1:
					m.Insert(target, p.idx(n), r.ScalarGV())
				case 2:
					m.Replace(target, p.idx(n), r.ScalarGV())
				case 3:
					m.Delete(target, p.idx(n))
				case 4:
					m.Pop(target)
				case 5:
					m.Reverse(target)
				case 6:
					m.SetTF(target, "#"+strconv.Itoa(r.Intn(n+2)), r.ScalarGV())
				default:
					m.UnsetTF(target, "#"+strconv.Itoa(r.Intn(n+1)))
				}
			} else {
				switch r.Intn(5) {
				case 0:
					m.OSet(target, gvStr(r.SimpleKey()), r.ScalarGV())
				case 1:
					m.OUnset(target, r.SimpleKey())
				case 2:
					m.OSetTF(target, "."+r.SimpleKey()+"."+r.SimpleKey(), r.ScalarGV())
				case 3:
					m.OSetTF(target, "."+r.SimpleKey()+"#"+strconv.Itoa(r.Intn(3)), r.ScalarGV())
				default:
					m.OUnsetTF(target, "."+r.SimpleKey())
				}
			}
		}
		c.St.Eval(t.Token()+fmt.Sprint(steps, i), t.Depth() >= 2)
		c.St.Count(fmt.Sprintf("tree_depth_%d", t.Depth()))
	}
}

// entryWays: every way a nested container can get into a list / an object that held only atoms so far,
// then Clone, then a mutation of the nested container on the original side and on the clone side.
func (c *Ctx) entryWays() {
	m := c.M
	listWays := []string{"add", "insert0", "insertmid", "insertend", "replace", "settf-leaf", "settf-new", "settf-deep", "newlist", "newlistof", "concat", "sublist", "filter", "map", "clone-of-clone"}
	for _, way := range listWays {
		for _, kind := range []byte("LO") {
			m.Case("entry-ways")
			var inner string
			if kind == 'L' {
				inner = m.NewList(gvInt(1), gvInt(2))
			} else {
				inner = m.NewObject(gvStr("k"), gvInt(1))
			}
			l := m.NewList(gvInt(10), gvStr("a"), gvFloat(2.5))
			g := m.RefGV(inner)
			switch way {
			case "add":
				m.Add(l, g)
			case "insert0":
				m.Insert(l, 0, g)
			case "insertmid":
				m.Insert(l, 1, g)
			case "insertend":
				m.Insert(l, 3, g)
			case "replace":
				m.Replace(l, 1, g)
			case "settf-leaf":
				m.SetTF(l, "#1", g)
			case "settf-new":
				m.SetTF(l, "#5", g)
			case "settf-deep":
				m.SetTF(l, "#1#0", g)
			case "newlist":
				l = m.NewList(gvInt(1), g, gvInt(2))
			case "newlistof":
				l = m.NewListOf(g, 2)
			case "concat":
				l = m.Concat(l, m.NewList(g))
			case "sublist":
				m.Insert(l, 1, g)
				l = m.SubList(l, 0, 0)
			case "filter":
				m.Insert(l, 2, g)
				l = m.Filter(l, "all")
			case "map":
				m.Insert(l, 1, g)
				l = m.Map(l, &Fn{Name: "id"})
			case "clone-of-clone":
				m.Insert(l, 1, g)
				l = m.Clone(l)
			}
			cl := m.Clone(l)
			m.Equals(l, cl)
			// mutate the nested container of the original; the snapshots show whether the clone follows
			if kind == 'L' {
				m.Add(inner, gvInt(99))
			} else {
				m.OSet(inner, gvStr("z"), gvInt(99))
			}
			// and a nested container of the clone
			for i := 0; i < m.L(cl).Count(); i++ {
				switch x := m.L(cl).Get(i).(type) {
				case at.List:
					m.Add(m.tokVal(x), gvInt(77))
				case at.Object:
					m.OSet(m.tokVal(x), gvStr("y"), gvInt(77))
				}
			}
			c.St.Eval("entry:"+way+string(kind), true)
		}
	}
	objWays := []string{"set", "settf", "settf-deep", "newobject", "merge", "pluck", "map", "newobjectfrom-native"}
	for _, way := range objWays {
		m.Case("entry-ways-object")
		inner := m.NewList(gvInt(1), gvInt(2))
		o := m.NewObject(gvStr("a"), gvInt(1), gvStr("b"), gvStr("x"))
		g := m.RefGV(inner)
		switch way {
		case "set":
			m.OSet(o, gvStr("c"), g)
		case "settf":
			m.OSetTF(o, ".c", g)
		case "settf-deep":
			m.OSetTF(o, ".c.d", g)
		case "newobject":
			o = m.NewObject(gvStr("c"), g)
		case "merge":
			o = m.Merge(o, m.NewObject(gvStr("c"), g))
		case "pluck":
			m.OSet(o, gvStr("c"), g)
			o = m.Pluck(o, "c", "a")
		case "map":
			m.OSet(o, gvStr("c"), g)
			o = m.OMap(o, &Fn{Name: "id"})
		case "newobjectfrom-native":
			o = m.NewObjectFrom(&GV{K: '<', Fl: 'l', Keys: []string{"c"}, Xs: []*GV{g}})
		}
		cl := m.OClone(o)
		m.OEquals(o, cl)
		m.Add(inner, gvInt(99))
		for _, k := range sortedKeys(m.O(cl).Dict()) {
			if x, ok := m.O(cl).Get(k).(at.List); ok {
				m.Add(m.tokVal(x), gvInt(77))
			}
		}
		c.St.Eval("entry-obj:"+way, true)
	}
}

// emptyReceivers: every deriving operation on an empty receiver (fresh, cleared, emptied one by one)
// returns a container of its own: growing the result or the receiver afterwards never shows in the other.
func (c *Ctx) emptyReceivers() {
	m := c.M
	for _, how := range []string{"fresh", "cleared", "emptied"} {
		m.Case("empty-receivers")
		l := m.NewList(gvInt(1), gvInt(2))
		o := m.NewObject(gvStr("a"), gvInt(1))
		switch how {
		case "fresh":
			l, o = m.NewList(), m.NewObject()
		case "cleared":
			m.Clear(l)
			m.OClear(o)
		case "emptied":
			m.Pop(l)
			m.Pop(l)
			m.OUnset(o, "a")
		}
		e := m.NewList()
		var res []string
		res = append(res, m.Concat(l, e), m.Concat(l, l), m.SubList(l, 0, 0), m.Filter(l, "all"), m.FilterK(l, 'i', "all"), m.Map(l, &Fn{Name: "id"}),
			m.MapValues(l, &Fn{Name: "id"}), m.MapK(l, 's', &Fn{Name: "id"}), m.MapAsync(l, &Fn{Name: "id"}), m.Clone(l))
		res = append(res, m.OMap(o, &Fn{Name: "id"}), m.OMapValues(o, &Fn{Name: "id"}), m.OMapK(o, 'i', &Fn{Name: "id"}), m.OMapAsync(o, &Fn{Name: "id"}),
			m.Merge(o, o), m.Merge(o, m.NewObject()), m.Pluck(o), m.Keys(o), m.Values(o), m.OClone(o))
		for i, t := range res {
			if t == "" {
				continue
			}
			if t[0] == 'L' {
				m.Add(t, gvInt(i))
			} else {
				m.OSet(t, gvStr("r"), gvInt(i))
			}
		}
		m.Add(l, gvStr("recv"))
		m.OSet(o, gvStr("recv"), gvInt(1))
		c.St.Eval("empty-receivers:"+how, true)
	}
	// a non-empty receiver with an EMPTY argument, then every in-place mutator on the result and on the receiver
	for _, mu := range []string{"replace", "reverse", "delete", "pop", "insert0", "sort", "settf", "clear"} {
		for _, side := range []string{"result", "receiver"} {
			m.Case("empty-arguments")
			l := m.NewList(gvInt(3), gvInt(1), gvInt(2))
			e := m.NewList()
			ec := m.NewList(gvInt(1))
			m.Clear(ec)
			res := m.Concat(l, e)
			res2 := m.Concat(l, ec)
			o := m.NewObject(gvStr("a"), gvInt(1), gvStr("l"), m.RefGV(l))
			mo := m.Merge(o, m.NewObject())
			t := res
			if side == "receiver" {
				t = l
			}
			switch mu {
			case "replace":
				m.Replace(t, 0, gvStr("x"))
			case "reverse":
				m.Reverse(t)
			case "delete":
				m.Delete(t, 0)
			case "pop":
				m.Pop(t)
			case "insert0":
				m.Insert(t, 0, gvStr("x"))
			case "sort":
				m.Sort(t)
			case "settf":
				m.SetTF(t, "#1", gvStr("x"))
			case "clear":
				m.Clear(t)
			}
			m.OSet(mo, gvStr("a"), gvInt(2))
			m.Reverse(res2)
			c.St.Eval("empty-arguments:"+mu+side, true)
		}
	}
}

// deepChains: clone trees nested far deeper than any literal in the test suite and mutate the innermost container
func (c *Ctx) deepChains() {
	m := c.M
	for _, depth := range []int{3, 33, 64, 65, 66, 100, c.N(130, 600)} {
		m.Case("deep-chain")
		innermost := m.NewList(gvInt(1))
		cur := innermost
		for d := 0; d < depth; d++ {
			if d%2 == 0 {
				cur = m.NewList(gvInt(d), m.RefGV(cur))
			} else {
				cur = m.NewObject(gvStr("d"), m.RefGV(cur))
			}
		}
		var cl string
		if cur[0] == 'L' {
			cl = m.Clone(cur)
		} else {
			cl = m.OClone(cur)
		}
		_ = cl
		m.Add(innermost, gvInt(99)) // the snapshots show whether the clone's innermost list followed
		c.St.Eval(fmt.Sprint("deep:", depth), true)
	}
}

// ---------------------------------------------------------------- C09

func runC09(c *Ctx) {
	m, r := c.M, c.R
	c.St.Rule = "receivers in every growth history x every deriving operation applied twice x every mutator applied to receiver, argument and both results in turn, all containers snapshotted after each step; non-trivial always (>= 6 operations); distinct by (history, deriving op, mutator)"
	c.reentrant("C09")
	c.nilArguments()
	c.slicesStratum()
	c.rawBytes("C09")
	c.emptyReceivers()
	c.omoList("C09")
	c.omoObj("C09")
	c.sharedBoxes()
	c.growShrink()
	c.longLists("C09")
	histories := c.N(8, 12)
	derivers := []string{"concat", "sublist", "filter", "filterk", "map", "mapk", "mapasync", "slice", "slicek", "reduce", "string", "fmtstr", "equals", "contains", "clone", "foreach"}
	mutators := []string{"add", "insert", "replace", "delete", "pop", "clear", "sort", "reverse"}
	for hist := 0; hist < histories; hist++ {
		for shrink := 0; shrink <= 2; shrink++ {
			for _, dv := range derivers {
				for _, mu := range mutators {
					if c.Quick && r.Intn(3) != 0 {
						continue
					}
					m.Case("history-derive-mutate")
					l := m.NewList(gvInt(3), gvInt(1), gvInt(2))
					for i := 0; i < hist; i++ {
						m.Add(l, gvInt(10+i))
					}
					for i := 0; i < shrink; i++ {
						if i == 0 {
							m.Pop(l)
						} else {
							m.Delete(l, 0)
						}
					}
					arg := m.NewList(gvInt(8), gvInt(9))
					derive := func() string {
						switch dv {
						case "concat":
							return m.Concat(l, arg)
						case "sublist":
							return m.SubList(l, 0, 0)
						case "filter":
							return m.Filter(l, "all")
						case "filterk":
							return m.FilterK(l, 'i', "par")
						case "map":
							return m.Map(l, &Fn{Name: "id"})
						case "mapk":
							return m.MapK(l, 'i', &Fn{Name: "inc"})
						case "mapasync":
							return m.MapAsync(l, &Fn{Name: "id"})
						case "clone":
							return m.Clone(l)
						case "slice":
							m.Slice(l)
						case "slicek":
							m.SliceK(l, 'i')
						case "reduce":
							m.Reduce(l)
						case "string":
							m.String(l)
						case "fmtstr":
							m.FormatString(l, 2)
						case "equals":
							m.Equals(l, arg)
						case "contains":
							m.Contains(l, gvInt(1))
							m.IndexOf(l, gvInt(2))
						case "foreach":
							m.ForEach(l)
						}
						return ""
					}
					r1 := derive()
					r2 := derive()
					targets := []string{l, arg}
					if r1 != "" {
						targets = append(targets, r1, r2)
					}
					for _, t := range targets {
						n := m.L(t).Count()
						switch mu {
						case "add":
							m.Add(t, gvInt(70))
						case "insert":
							m.Insert(t, n/2, gvInt(71))
						case "replace":
							if n > 0 {
								m.Replace(t, n-1, gvStr("r"))
							}
						case "delete":
							if n > 0 {
								m.Delete(t, 0)
							}
						case "pop":
							m.Pop(t)
						case "clear":
							m.Clear(t)
						case "sort":
							if sortable(m.L(t)) {
								m.Sort(t)
							}
						case "reverse":
							m.Reverse(t)
						}
					}
					c.St.Eval(fmt.Sprintf("%d:%d:%s:%s", hist, shrink, dv, mu), true)
				}
			}
		}
	}
	// objects: Merge, Pluck, Keys, Values, Dict, Map
	for i := 0; i < c.N(200, 2000); i++ {
		m.Case("object-derive-mutate")
		t := r.Container(&TreeOpts{MaxDepth: 2, MaxWidth: 5}, '{')
		o := m.NewObjectFrom(gvOfTree(t))
		o2 := m.NewObject(gvStr("a"), gvInt(1), gvStr(r.Key()), r.ScalarGV())
		var res []string
		res = append(res, m.Merge(o, o2), m.Merge(o, o2), m.Keys(o), m.Values(o), m.OMap(o, &Fn{Name: "id"}), m.OMapValues(o, &Fn{Name: "inc"}))
		d := m.O(o).Dict()
		if len(d) > 0 {
			res = append(res, m.Pluck(o, sortedKeys(d)[0]))
		}
		m.Dict(o)
		m.OString(o)
		m.OEquals(o, o2)
		for _, t := range append([]string{o, o2}, res...) {
			if t == "" {
				continue
			}
			if t[0] == 'O' {
				m.OSet(t, gvStr("new"), gvInt(i))
				m.OUnset(t, "a")
			} else {
				m.Add(t, gvInt(5))
				m.Reverse(t)
			}
		}
		c.St.Eval("obj:"+t.Token(), true)
	}
}

// ---------------------------------------------------------------- C12

func widthValues(w string) []*GV {
	var out []*GV
	signed := map[string][2]int64{"i8": {math.MinInt8, math.MaxInt8}, "i16": {math.MinInt16, math.MaxInt16}, "i32": {math.MinInt32, math.MaxInt32}, "i64": {math.MinInt64, math.MaxInt64}}
	unsigned := map[string]uint64{"u8": math.MaxUint8, "u16": math.MaxUint16, "u32": math.MaxUint32, "u64": math.MaxUint64, "u": math.MaxUint64}
	cands := []int64{0, 1, -1, 127, 128, -128, -129, 200, 255, 256, 32767, 32768, 40000, 65535, 65536, 1<<31 - 1, 1 << 31, -(1 << 31), 3000000000, 1<<32 - 1, 1 << 32, math.MaxInt64, math.MinInt64}
	if rg, ok := signed[w]; ok {
		for _, v := range append(cands, rg[0], rg[1]) {
			if v >= rg[0] && v <= rg[1] {
				out = append(out, &GV{K: 'w', W: w, I: int(v)})
			}
		}
		return out
	}
	max := unsigned[w]
	for _, v := range cands {
		if v >= 0 && uint64(v) <= max {
			out = append(out, &GV{K: 'w', W: w, U: uint64(v)})
		}
	}
	out = append(out, &GV{K: 'w', W: w, U: max})
	if max == math.MaxUint64 {
		out = append(out, &GV{K: 'w', W: w, U: 1 << 63}, &GV{K: 'w', W: w, U: 1<<63 + 5})
	}
	return out
}

// probe observes one stored element through every getter.
func probeList(m *Machine, l string, i int) {
	m.Get(l, i)
	m.TypeOf(l, i)
	for _, k := range []byte("olsbif") {
		m.GetK(l, k, i)
	}
}
func probeObj(m *Machine, o string, k string) {
	m.OGet(o, k)
	m.OTypeOf(o, k)
	for _, kd := range []byte("olsbif") {
		m.OGetK(o, kd, k)
	}
}

func runC12(c *Ctx) {
	m, r := c.M, c.R
	c.St.Rule = "Go values of every supported dynamic type (all integer widths at their boundaries, float32 classes, every map/slice flavour, nesting) and unsupported types, through every insertion entry point, observed through Get, TypeOf and all six typed getters; non-trivial = not a canonical scalar; distinct by (value, entry point)"
	c.rawBytes("C12")
	c.indexSpellings("C12") // the tree form is an entry point: the slot a value enters is the slot every reader looks at
	var vals []*GV
	for _, w := range []string{"i8", "i16", "i32", "i64", "u", "u8", "u16", "u32", "u64"} {
		vals = append(vals, widthValues(w)...)
	}
	for _, b := range []uint32{0, 0x80000000, 1, 0x007fffff, 0x00800000, 0x3dcccccd, 0x3f800000, 0x4b800001, 0x4b800000, 0x7f7fffff, 0xff7fffff, 0x7f800000, 0x00000002} {
		vals = append(vals, &GV{K: 'g', F32: math.Float32frombits(b)})
	}
	for i := 0; i < c.N(30, 600); i++ {
		vals = append(vals, r.WidthGV())
	}
	vals = append(vals, gvNil(), gvBool(true), gvInt(5), gvFloat(2.5), gvStr("s"), gvStr(""))
	// flavours: empty, singleton, nested
	mk := func(k byte, fl byte, xs ...*GV) *GV {
		g := &GV{K: k, Fl: fl, Xs: xs}
		if k == '<' {
			for i := range xs {
				g.Keys = append(g.Keys, "k"+strconv.Itoa(i))
			}
		}
		return g
	}
	for _, k := range []byte("(<") {
		vals = append(vals,
			mk(k, 'a'), mk(k, 'a', gvInt(1), gvStr("x"), gvNil()), mk(k, 's'), mk(k, 's', gvStr("a"), gvStr("")), mk(k, 'b', gvBool(true)),
			mk(k, 'i', gvInt(1), gvInt(-2)), mk(k, 'f', gvFloat(1), gvFloat(0.5)), mk(k, 'o'), mk(k, 'l'),
			mk(k, 'a', mk('(', 'a', mk('<', 'a', gvInt(1), mk('(', 'i', gvInt(3)))), mk('<', 's', gvStr("v"))),
			mk(k, 'a', &GV{K: 'w', W: "u8", U: 200}, &GV{K: 'g', F32: 0.1}, &GV{K: 'w', W: "i16", I: -300}),
			mk(k, 'a', gvInt(1), gvUnsupported(1)),
		)
	}
	for i := 0; i < len(unsupportedValues); i++ {
		vals = append(vals, gvUnsupported(i))
	}
	// typed nil slices and maps of every flavour: they are supported values and become empty containers
	for _, k := range []byte("(<") {
		for _, fl := range []byte("aolsbif") {
			vals = append(vals, &GV{K: k, Fl: fl, NilC: true})
		}
		vals = append(vals, &GV{K: k, Fl: 'a', Xs: []*GV{{K: '(', Fl: 's', NilC: true}, {K: '<', Fl: 'a', NilC: true}}, Keys: []string{"x", "y"}})
	}
	// typed containers with a nil member (a nil Object / List interface is stored as nil)
	vals = append(vals, &GV{K: '(', Fl: 'o', Xs: []*GV{gvNil()}}, &GV{K: '(', Fl: 'l', Xs: []*GV{gvNil()}},
		&GV{K: '<', Fl: 'o', Xs: []*GV{gvNil()}, Keys: []string{"k"}}, &GV{K: '<', Fl: 'l', Xs: []*GV{gvNil()}, Keys: []string{"k"}},
		&GV{K: '(', Fl: 'a', Xs: []*GV{{K: '<', Fl: 'l', Xs: []*GV{gvNil()}, Keys: []string{"k"}}}})
	// native nesting far deeper than any literal
	for _, depth := range []int{40, 600, c.N(10400, 12000)} {
		g := gvInt(1)
		for d := 0; d < depth; d++ {
			if d%2 == 0 {
				g = &GV{K: '(', Fl: 'a', Xs: []*GV{g}}
			} else {
				g = &GV{K: '<', Fl: 'a', Xs: []*GV{g}, Keys: []string{"d"}}
			}
		}
		m.Case("deep-native")
		if depth > 1000 {
			m.NewList(g)
			continue
		}
		m.NewList(g)
		o := m.NewObject(gvStr("x"), gvInt(0))
		m.OSet(o, gvStr("deep"), g)
	}
	c.sharedBoxes()
	c.omoObj("C06")
	c.growShrink() // includes batches with a rejected value while the list has spare capacity
	// the From-constructors called directly with something that is not one of their seven flavours
	m.Case("from-constructors")
	for _, g := range []*GV{gvUnsupported(0), gvUnsupported(3), gvUnsupported(11), gvInt(1), gvStr("s"), gvNil(), {K: '<', Fl: 'a'}, {K: '(', Fl: 'a'}, {K: '(', Fl: 's', NilC: true}, {K: '<', Fl: 'i', NilC: true}} {
		m.NewListFrom(g)
		m.NewObjectFrom(g)
	}
	nontrivial := func(g *GV) bool { return !(g.K == 'n' || g.K == 'b' || g.K == 'i' || g.K == 'd' || g.K == 's') }
	entry := func(g *GV) {
		l := m.NewList(gvInt(1), gvInt(2), gvInt(3))
		if t := m.NewList(g); t != "" {
			probeList(m, t, 0)
		}
		if t := m.NewListOf(g, 2); t != "" {
			probeList(m, t, 1)
		}
		m.Add(l, g)
		probeList(m, l, 3)
		m.Insert(l, 1, g)
		probeList(m, l, 1)
		m.Replace(l, 0, g)
		probeList(m, l, 0)
		m.SetTF(l, "#6", g)
		probeList(m, l, 6)
		o := m.NewObject(gvStr("x"), gvInt(0))
		if t := m.NewObject(gvStr("k"), g); t != "" {
			probeObj(m, t, "k")
		}
		m.OSet(o, gvStr("k"), g)
		probeObj(m, o, "k")
		m.OSetTF(o, ".t.u", g)
		m.OGetTF(o, ".t.u")
		m.OTypeOfTF(o, ".t.u")
		m.SetTF(l, "#0#1.z", g)
		m.GetTF(l, "#0#1.z")
		if g.K == '(' {
			if t := m.NewListFrom(g); t != "" && len(g.Xs) > 0 {
				probeList(m, t, 0)
			}
		}
		if g.K == '<' {
			if t := m.NewObjectFrom(g); t != "" && len(g.Xs) > 0 {
				probeObj(m, t, g.Keys[0])
			}
		}
		// results of Map callbacks
		src := m.NewList(gvInt(1), gvStr("s"))
		if t := m.Map(src, &Fn{Name: "const", Const: g}); t != "" {
			probeList(m, t, 1)
		}
		if t := m.MapK(src, 'i', &Fn{Name: "const", Const: g}); t != "" {
			probeList(m, t, 0)
		}
		so := m.NewObject(gvStr("a"), gvInt(1))
		if t := m.OMap(so, &Fn{Name: "const", Const: g}); t != "" {
			probeObj(m, t, "a")
		}
		c.St.Eval(g.Token(), nontrivial(g))
	}
	for _, g := range vals {
		m.Case("entry-points")
		inner := m.NewList(gvInt(1))
		innerO := m.NewObject(gvStr("a"), gvInt(1))
		// typed flavours of existing containers
		gs := []*GV{g}
		if g.K == '(' && g.Fl == 'o' && len(g.Xs) == 0 {
			gs = append(gs, &GV{K: '(', Fl: 'o', Xs: []*GV{m.RefGV(innerO)}}, &GV{K: '(', Fl: 'l', Xs: []*GV{m.RefGV(inner)}},
				&GV{K: '<', Fl: 'o', Xs: []*GV{m.RefGV(innerO)}, Keys: []string{"o"}}, &GV{K: '<', Fl: 'l', Xs: []*GV{m.RefGV(inner)}, Keys: []string{"l"}})
		}
		for _, g := range gs {
			entry(g)
		}
	}
	// containers themselves as the stored value: plain ones and user types embedding a List / an Object one and two
	// levels deep are of kind list / object through every entry point, for TypeOf, Get and every typed getter
	for rep := 0; rep < 2; rep++ {
		m.Case("entry-points-containers")
		pl, po := m.NewList(gvInt(1)), m.NewObject(gvStr("a"), gvInt(1))
		dl, do := m.Derive(m.NewList(gvInt(2))), m.Derive(m.NewObject(gvStr("b"), gvInt(2)))
		ddl, ddo := m.Derive(m.Derive(m.NewList())), m.Derive(m.Derive(m.NewObject()))
		for _, h := range []string{pl, po, dl, do, ddl, ddo} {
			entry(m.RefGV(h))
		}
	}
	// narrowing callbacks and an unsupported result in the middle of a Map
	for i := 0; i < c.N(20, 200); i++ {
		m.Case("map-results")
		l := m.NewList(gvInt(r.SmallInt()), gvInt(200+r.Intn(100)), gvStr("x"), gvInt(2*r.Intn(50)), gvInt(-129))
		m.Map(l, &Fn{Name: "narrow"})
		m.MapK(l, 'i', &Fn{Name: "narrow"})
		m.Map(l, &Fn{Name: "wrap"})
		m.Map(l, &Fn{Name: "unsup"})
		m.MapValues(l, &Fn{Name: "tostr"})
		c.St.Eval(fmt.Sprint("mapres", i), true)
	}
}

// ---------------------------------------------------------------- C13

func runC13(c *Ctx) {
	m, r := c.M, c.R
	c.St.Rule = "native trees -> New*From -> Native*/Dict/Slice compared structurally; then the source native value, the export and the container are modified in turn and the others re-observed; non-trivial = depth >= 2; distinct by tree"
	c.omoList("C13")
	c.omoObj("C13")
	c.derivedCorners("C13")
	c.nativeRowsGrow()
	c.lateDerived("C13")
	c.rawBytes("C13")
	c.nativeAfterDerivations()
	c.longLists("C13")
	// every integer width and float32 at its boundaries, as elements of native slices and maps: what comes back
	// from NativeSlice / NativeDict / Slice / Dict is the int / float64 the value denotes
	m.Case("native-widths")
	for _, w := range []string{"i8", "i16", "i32", "i64", "u", "u8", "u16", "u32", "u64"} {
		ws := widthValues(w)
		ws = append(ws, &GV{K: 'g', F32: 0.1}, &GV{K: 'g', F32: math.MaxFloat32}, &GV{K: 'g', F32: math.SmallestNonzeroFloat32})
		gl := &GV{K: '(', Fl: 'a', Xs: ws}
		l := m.NewListFrom(gl)
		if l != "" {
			m.NativeSlice(l)
			m.Slice(l)
			m.SliceK(l, 'i')
			m.SliceK(l, 'f')
		}
		gm := &GV{K: '<', Fl: 'a', Xs: ws}
		for i := range ws {
			gm.Keys = append(gm.Keys, "k"+strconv.Itoa(i))
		}
		o := m.NewObjectFrom(gm)
		if o != "" {
			m.NativeDict(o)
			m.Dict(o)
		}
		holder := m.NewList(gl, gm)
		m.NativeSlice(holder)
	}
	// typed flavours whose element type is a container interface, with nil members (stored as nil), at the top and nested
	m.Case("native-typed-flavours")
	{
		in1 := m.NewList(gvInt(1))
		o1 := m.NewObject(gvStr("k"), gvInt(1))
		e1 := m.NewObject()
		for _, g := range []*GV{
			{K: '(', Fl: 'l', Xs: []*GV{m.RefGV(in1), gvNil()}},
			{K: '(', Fl: 'o', Xs: []*GV{gvNil(), m.RefGV(o1), m.RefGV(e1)}},
			{K: '(', Fl: 'a', Xs: []*GV{{K: '(', Fl: 'l', Xs: []*GV{gvNil()}}, {K: '<', Fl: 'o', Xs: []*GV{gvNil(), m.RefGV(o1)}, Keys: []string{"n", "o"}}}},
		} {
			if l := m.NewListFrom(g); l != "" {
				m.NativeSlice(l)
				m.Slice(l)
			}
		}
		for _, g := range []*GV{
			{K: '<', Fl: 'l', Xs: []*GV{m.RefGV(in1), gvNil()}, Keys: []string{"a", "b"}},
			{K: '<', Fl: 'o', Xs: []*GV{gvNil(), m.RefGV(o1), m.RefGV(e1)}, Keys: []string{"a", "b", "c"}},
			{K: '<', Fl: 'a', Xs: []*GV{{K: '(', Fl: 'o', Xs: []*GV{gvNil()}}, {K: '<', Fl: 'l', Xs: []*GV{gvNil()}, Keys: []string{"n"}}}, Keys: []string{"x", "y"}},
		} {
			if o := m.NewObjectFrom(g); o != "" {
				m.NativeDict(o)
				m.Dict(o)
			}
		}
		// an exported empty map / slice is private to the export: writing into one never shows in another export
		holder := m.NewObject(gvStr("e"), m.RefGV(e1), gvStr("l"), m.RefGV(m.NewList()))
		x1 := m.O(holder).NativeDict()
		if em, ok := x1["e"].(map[string]any); ok {
			em["leak"] = 1
		}
		if es, ok := x1["l"].([]any); ok {
			_ = append(es, 1)
		}
		m.NativeDict(holder)
		m.NativeDict(e1)
		other := m.NewObject(gvStr("z"), m.RefGV(m.NewObject()))
		m.NativeDict(other)
		lst := m.NewList(m.RefGV(m.NewObject()), m.RefGV(m.NewList()))
		y1 := m.L(lst).NativeSlice()
		if em, ok := y1[0].(map[string]any); ok {
			em["leak"] = 2
		}
		m.NativeSlice(lst)
		m.NativeSlice(m.NewList(m.RefGV(m.NewObject())))
	}
	opts := &TreeOpts{MaxDepth: 5, MaxWidth: 5}
	for i := 0; i < c.N(500, 8000); i++ {
		m.Case("native")
		t := r.Container(opts, "[{"[r.Intn(2)])
		g := gvOfTree(t)
		src := g.Go()
		if t.K == '[' {
			var l string
			m.Op("newlistfrom", "-", g.Token(), func() string { l = m.reg(at.NewListFrom(src)); return l })
			m.NativeSlice(l)
			m.Slice(l)
			// modify the source native tree at every depth, the container must not change
			mutateNative(src)
			m.Snaps()
			m.NativeSlice(l)
			// modify the exports
			exp := m.L(l).NativeSlice()
			exp2 := m.L(l).Slice()
			mutateNative(exp)
			if len(exp2) > 0 {
				exp2[0] = "changed"
			}
			m.Snaps()
			m.NativeSlice(l)
			// modify the container, an earlier export keeps its content
			before := m.L(l).NativeSlice()
			copyTok := nativeTok(before)
			m.Add(l, gvInt(1))
			if m.L(l).Count() > 1 {
				m.Replace(l, 0, gvStr("c"))
			}
			if nativeTok(before) != copyTok {
				m.Alarm("C13", "an earlier export changed when the container was modified")
			}
			m.NativeSlice(l)
		} else {
			var o string
			m.Op("newobjectfrom", "-", g.Token(), func() string { o = m.reg(at.NewObjectFrom(src)); return o })
			m.NativeDict(o)
			m.Dict(o)
			mutateNative(src)
			m.Snaps()
			m.NativeDict(o)
			exp := m.O(o).NativeDict()
			exp2 := m.O(o).Dict()
			mutateNative(exp)
			exp2["injected"] = 1
			for k := range exp2 {
				exp2[k] = "changed"
			}
			m.Snaps()
			m.NativeDict(o)
			before := m.O(o).NativeDict()
			copyTok := nativeTok(before)
			m.OSet(o, gvStr("zz"), gvInt(1))
			if nativeTok(before) != copyTok {
				m.Alarm("C13", "an earlier export changed when the container was modified")
			}
			m.NativeDict(o)
		}
		c.St.Eval(t.Token(), t.Depth() >= 2)
		c.St.Count(fmt.Sprintf("tree_depth_%d", t.Depth()))
	}
}

// nativeAfterDerivations: native conversion of containers that came into being through every deriving
// operation (a result must not inherit a "flat" view of its receiver), and of very deep trees.
func (c *Ctx) nativeAfterDerivations() {
	m := c.M
	for _, way := range []string{"concat-flat-recv", "concat-empty-recv", "sublist", "filter", "map", "clone", "merge", "pluck", "values", "add-after", "settf"} {
		m.Case("native-after-derivation")
		inner := m.NewList(gvInt(1), m.RefGV(m.NewObject(gvStr("k"), gvInt(2))))
		flat := m.NewList(gvInt(1), gvInt(2))
		withC := m.NewList(gvStr("x"), m.RefGV(inner))
		var res string
		switch way {
		case "concat-flat-recv":
			res = m.Concat(flat, withC)
		case "concat-empty-recv":
			res = m.Concat(m.NewList(), withC)
		case "sublist":
			res = m.SubList(withC, 0, 0)
		case "filter":
			res = m.Filter(withC, "all")
		case "map":
			res = m.Map(withC, &Fn{Name: "id"})
		case "clone":
			res = m.Clone(withC)
		case "merge":
			res = m.Merge(m.NewObject(gvStr("a"), gvInt(1)), m.NewObject(gvStr("l"), m.RefGV(inner)))
		case "pluck":
			res = m.Pluck(m.NewObject(gvStr("l"), m.RefGV(inner), gvStr("a"), gvInt(1)), "l")
		case "values":
			res = m.Values(m.NewObject(gvStr("l"), m.RefGV(inner)))
		case "add-after":
			res = flat
			m.NativeSlice(res)
			m.Add(res, m.RefGV(inner))
		case "settf":
			res = flat
			m.NativeSlice(res)
			m.SetTF(res, "#4.k#1", m.RefGV(inner))
		}
		if res[0] == 'O' {
			m.NativeDict(res)
			m.Dict(res)
		} else {
			m.NativeSlice(res)
			m.Slice(res)
		}
		c.St.Eval("native-after:"+way, true)
	}
	for _, depth := range []int{100, 511, 512, 513, c.N(700, 3000)} {
		m.Case("native-deep")
		cur := m.NewList(gvInt(1))
		for d := 0; d < depth; d++ {
			if d%2 == 0 {
				cur = m.NewObject(gvStr("d"), m.RefGV(cur))
			} else {
				cur = m.NewList(m.RefGV(cur))
			}
		}
		if cur[0] == 'O' {
			m.NativeDict(cur)
		} else {
			m.NativeSlice(cur)
		}
		c.St.Eval(fmt.Sprint("native-deep:", depth), true)
	}
}

// mutateNative changes a native tree in place at every depth.
func mutateNative(v any) {
	switch x := v.(type) {
	case []any:
		for i := range x {
			mutateNative(x[i])
			x[i] = "mutated"
		}
	case map[string]any:
		for k := range x {
			mutateNative(x[k])
			x[k] = "mutated"
		}
		x["extra-key"] = 1
	}
}

// ---------------------------------------------------------------- C14

func runC14(c *Ctx) {
	m, r := c.M, c.R
	c.St.Rule = "lists and objects with 0-4 elements of each kind interleaved in random order, every typed and untyped view with callbacks from a seeded family; non-trivial = at least two kinds occur at least twice; distinct by container"
	c.omoList("C14")
	c.sortedThen("C14")
	c.omoObj("C14")
	c.longLists("C14")
	c.derivedCorners("C14")
	c.lateDerived("C14")
	c.reentrant("C14")
	c.interfering("C14")
	c.reduceInitials("C14")
	c.panickingCallbacks("C14")
	// a callback whose result cannot be stored: every Map variant panics (nothing is silently left out), the source stays
	m.Case("unstorable-results")
	{
		src := m.NewList(gvInt(1), gvStr("s"), gvFloat(1.5), gvBool(true), m.RefGV(m.NewList()), m.RefGV(m.NewObject()), gvNil(), gvInt(2))
		so := m.NewObject(gvStr("i"), gvInt(1), gvStr("s"), gvStr("s"), gvStr("f"), gvFloat(1.5), gvStr("b"), gvBool(true), gvStr("l"), m.RefGV(m.NewList()), gvStr("o"), m.RefGV(m.NewObject()), gvStr("n"), gvNil())
		for _, bad := range []*GV{gvUnsupported(0), gvUnsupported(5)} {
			f := &Fn{Name: "const", Const: bad}
			m.Map(src, f)
			m.MapValues(src, f)
			m.OMap(so, f)
			m.OMapValues(so, f)
			for _, k := range []byte("olsbif") {
				m.MapK(src, k, f)
				m.OMapK(so, k, f)
			}
		}
		// storable results of every kind, also another kind than the element's
		for _, good := range []*GV{gvNil(), gvStr(""), gvFloat(0.5), m.RefGV(m.NewList(gvInt(9))), {K: '(', Fl: 'i', Xs: []*GV{gvInt(1)}}, {K: 'w', W: "u8", U: 7}} {
			f := &Fn{Name: "const", Const: good}
			m.Map(src, f)
			m.OMap(so, f)
			for _, k := range []byte("olsbif") {
				m.MapK(src, k, f)
				m.OMapK(so, k, f)
			}
		}
	}
	// homogeneous containers of every kind, with plain and derived (embedding) members for the container kinds:
	// All* holds exactly for the kind, every typed view sees all the members
	for rep := 0; rep < 3; rep++ {
		m.Case("homogeneous")
		pl, po := m.NewList(gvInt(1)), m.NewObject(gvStr("a"), gvInt(1))
		dl, do := m.Derive(m.NewList(gvInt(2))), m.Derive(m.NewObject(gvStr("b"), gvInt(2)))
		ddl, ddo := m.Derive(m.Derive(m.NewList())), m.Derive(m.Derive(m.NewObject()))
		homo := map[byte][][]*GV{
			'l': {{m.RefGV(dl)}, {m.RefGV(pl), m.RefGV(dl)}, {m.RefGV(dl), m.RefGV(ddl), m.RefGV(dl)}, {m.RefGV(pl), m.RefGV(pl)}},
			'o': {{m.RefGV(do)}, {m.RefGV(po), m.RefGV(do)}, {m.RefGV(do), m.RefGV(ddo), m.RefGV(do)}, {m.RefGV(po), m.RefGV(po)}},
			's': {{gvStr("")}, {gvStr("a"), gvStr("a")}},
			'b': {{gvBool(false)}, {gvBool(true), gvBool(false)}},
			'i': {{gvInt(0)}, {gvInt(1), gvInt(-1)}},
			'f': {{gvFloat(0)}, {gvFloat(1), gvFloat(2.5)}},
		}
		for _, k := range []byte("olsbif") {
			for _, gs := range homo[k] {
				if rep == 1 { // the members arrive one by one
					gs = append([]*GV{}, gs...)
				}
				var l string
				if rep == 1 {
					l = m.NewList()
					for _, g := range gs {
						m.Add(l, g)
					}
				} else {
					l = m.NewList(gs...)
				}
				if rep == 2 {
					l = m.Clone(l)
				}
				for _, k2 := range []byte("olsbifn") {
					m.AllK(l, k2)
				}
				m.SliceK(l, k)
				m.ForEachK(l, k)
				m.MapK(l, k, &Fn{Name: "id"})
				if k != 'b' {
					m.FilterK(l, k, "all")
				}
			}
		}
		c.St.Eval(fmt.Sprintf("homogeneous:%d", rep), true)
	}
	fns := []*Fn{{Name: "id"}, {Name: "inc"}, {Name: "tostr"}, {Name: "idx"}, {Name: "const", Const: gvStr("c")}}
	preds := []string{"all", "none", "par"}
	for i := 0; i < c.N(250, 4000); i++ {
		m.Case("views")
		// build the mixture
		var elems []*GV
		kinds := map[byte]int{}
		nested := m.NewList(gvInt(1))
		nestedO := m.NewObject(gvStr("a"), gvInt(1))
		nested2 := m.NewList()
		nestedO2 := m.NewObject()
		if r.Chance(40) {
			// user types that embed a List / an Object are elements of kind list / object like any other
			nested2 = m.Derive(nested2)
			nestedO2 = m.Derive(nestedO2)
		}
		for _, k := range []byte("nbidsLO") {
			n := r.Intn(5)
			if r.Chance(20) {
				n = 0
			}
			for j := 0; j < n; j++ {
				kinds[k]++
				switch k {
				case 'n':
					elems = append(elems, gvNil())
				case 'b':
					elems = append(elems, gvBool(r.Bool()))
				case 'i':
					elems = append(elems, gvInt(r.SmallInt()))
				case 'd':
					elems = append(elems, gvFloat(float64(r.SmallInt())/2))
				case 's':
					elems = append(elems, gvStr([]string{"", "a", "bb", "é", "xyz"}[r.Intn(5)]))
				case 'L':
					elems = append(elems, m.RefGV([]string{nested, nested2}[r.Intn(2)]))
				default:
					elems = append(elems, m.RefGV([]string{nestedO, nestedO2}[r.Intn(2)]))
				}
			}
		}
		for j := len(elems) - 1; j > 0; j-- {
			k := r.Intn(j + 1)
			elems[j], elems[k] = elems[k], elems[j]
		}
		multi := 0
		for _, n := range kinds {
			if n >= 2 {
				multi++
			}
		}
		l := m.NewList(elems...)
		var pairs []*GV
		for j, e := range elems {
			pairs = append(pairs, gvStr("k"+strconv.Itoa(j)), e)
		}
		o := m.NewObject(pairs...)
		m.ForEach(l)
		m.ForEachValue(l)
		m.Reduce(l)
		m.OForEach(o)
		m.OForEachValue(o)
		for _, k := range []byte("olsbif") {
			m.SliceK(l, k)
			m.ForEachK(l, k)
			m.AllK(l, k)
			m.OForEachK(o, k)
			fn := fns[r.Intn(len(fns))]
			m.MapK(l, k, fn)
			m.OMapK(o, k, fn)
			if k != 'b' {
				m.FilterK(l, k, preds[r.Intn(len(preds))])
			}
			if k == 's' || k == 'i' || k == 'f' {
				m.ReduceK(l, k)
			}
		}
		m.AllK(l, 'n')
		fn := fns[r.Intn(len(fns))]
		m.Map(l, fn)
		m.MapValues(l, fn)
		m.OMap(o, fn)
		m.OMapValues(o, fn)
		m.Filter(l, preds[r.Intn(len(preds))])
		// homogeneous sublists for All*
		if r.Chance(30) {
			h := m.NewList(gvInt(1), gvInt(2))
			m.AllK(h, 'i')
			m.AllK(h, 'n')
			m.AllK(h, 'f')
			e := m.NewList()
			for _, k := range []byte("olsbifn") {
				m.AllK(e, k)
			}
			hf := m.NewList(gvInt(1), gvFloat(2.5))
			m.AllK(hf, 'n')
			m.AllK(hf, 'i')
		}
		c.St.Eval(gvTokens(elems), multi >= 2)
		c.St.Count(fmt.Sprintf("list_length_%d0s", len(elems)/10))
	}
}

// ---------------------------------------------------------------- C17

func runC17(c *Ctx) {
	m, r := c.M, c.R
	c.St.Rule = "homogeneous string/int/float lists of every length 1..9 over a 3-value alphabet exhaustively, long random lists with extreme values, Reverse on mixed lists of even and odd length; non-trivial = length >= 2; distinct by list"
	c.rawBytes("C17")
	c.omoList("C17")
	c.sortedThen("C17")
	alph := map[byte][]*GV{
		'i': {gvInt(-1), gvInt(0), gvInt(7)},
		's': {gvStr(""), gvStr("a"), gvStr("é")},
		'd': {gvFloat(-1.5), gvFloat(0), gvFloat(2)},
	}
	maxLen := c.N(5, 8)
	for _, k := range []byte("isd") {
		for n := 1; n <= maxLen; n++ {
			total := 1
			for i := 0; i < n; i++ {
				total *= 3
			}
			for s := 0; s < total; s++ {
				m.Case("exhaustive-sort")
				x := s
				gs := make([]*GV, n)
				for i := range gs {
					gs[i] = alph[k][x%3]
					x /= 3
				}
				l := m.NewList(gs...)
				m.Sort(l)
				m.Sort(l)
				m.Reverse(l)
				m.Reverse(l)
				c.St.Eval(gvTokens(gs), n >= 2)
			}
		}
	}
	c.St.Exhaustive = append(c.St.Exhaustive, fmt.Sprintf("all homogeneous int/string/float lists of length 1..%d over 3 values", maxLen))
	for i := 0; i < c.N(400, 6000); i++ {
		m.Case("random-sort")
		n := 1 + r.Intn(c.N(30, 200))
		gs := make([]*GV, n)
		k := "isd"[r.Intn(3)]
		negZero := r.Bool()
		for j := range gs {
			switch k {
			case 'i':
				gs[j] = gvInt(r.Int())
			case 's':
				gs[j] = gvStr(r.Str())
			default:
				f := r.FiniteFloat()
				if r.Intn(12) == 0 {
					f = []float64{math.Inf(1), math.Inf(-1)}[r.Intn(2)]
				}
				if f == 0 { // +0 and -0 compare equal and Go's sort is unstable: keep one sign per list
					f = 0
					if negZero {
						f = math.Copysign(0, -1)
					}
				}
				gs[j] = gvFloat(f)
			}
		}
		l := m.NewList(gs...)
		m.Sort(l)
		m.Sort(l)
		c.St.Eval(gvTokens(gs), n >= 2)
		c.St.Count("sort_kind_" + string(k))
	}
	for i := 0; i < c.N(200, 3000); i++ {
		m.Case("reverse-mixed")
		p := &Prog{c: c}
		n := r.Intn(12)
		if i%3 == 0 {
			n = i/3%45 + r.Intn(3) // every length up to the forties, beyond any small-input fast path
		}
		gs := make([]*GV, n)
		inner := m.NewList(gvInt(1))
		p.lists = []string{inner}
		for j := range gs {
			gs[j] = p.value("")
			if gs[j].K == 'X' {
				gs[j] = gvNil()
			}
		}
		l := m.NewList(gs...)
		m.Reverse(l)
		m.Reverse(l)
		m.Sort(l) // mostly the panic domain: first element not string/int/float, or mixed
		c.St.Eval(gvTokens(gs), n >= 2)
		c.St.Count(fmt.Sprintf("reverse_len_parity_%d", n%2))
	}
	m.Case("sort-panics")
	for _, g := range []*GV{gvNil(), gvBool(true)} {
		l := m.NewList(g, gvInt(1))
		m.Sort(l)
	}
	e := m.NewList()
	m.Sort(e)
	m.Reverse(e)
}

// ---------------------------------------------------------------- C18

func runC18(c *Ctx) {
	m, r := c.M, c.R
	c.St.Rule = "numeric lists: all sequences of length <= 5 over {-2.5, -1, 0, 3, 1e300} with ints and floats interleaved, all-negative lists, values near MaxInt/MinInt, non-int elements interleaved for the Int* family; non-trivial = length >= 2; distinct by list"
	c.omoList("C18")
	c.sortedThen("C18")
	c.longLists("C18")
	aggs := []string{"intsum", "sum", "intprod", "prod", "avg", "intmin", "min", "intmax", "max"}
	alph := []*GV{gvFloat(-2.5), gvInt(-1), gvInt(0), gvInt(3), gvFloat(1e300), gvFloat(-7), gvInt(-4)}
	maxLen := c.N(3, 5)
	for n := 0; n <= maxLen; n++ {
		total := 1
		for i := 0; i < n; i++ {
			total *= len(alph)
		}
		for s := 0; s < total; s++ {
			m.Case("exhaustive-numeric")
			x := s
			gs := make([]*GV, n)
			for i := range gs {
				gs[i] = alph[x%len(alph)]
				x /= len(alph)
			}
			l := m.NewList(gs...)
			for _, a := range aggs {
				m.Agg(l, a)
			}
			c.St.Eval(gvTokens(gs), n >= 2)
		}
	}
	c.St.Exhaustive = append(c.St.Exhaustive, fmt.Sprintf("all numeric lists of length 0..%d over %d values", maxLen, len(alph)))
	// sentinel values: the values an implementation may use as an initial accumulator or as "nothing seen yet"
	// (+-MaxFloat64, MaxInt, MinInt, the zeros, the smallest subnormals) as the only content of a list
	sent := []*GV{gvFloat(-math.MaxFloat64), gvFloat(math.MaxFloat64), gvInt(math.MaxInt64), gvInt(math.MinInt64),
		gvFloat(math.Copysign(0, -1)), gvFloat(0), gvInt(0), gvFloat(5e-324), gvFloat(-5e-324), gvInt(1), gvInt(-1)}
	sentLen := c.N(2, 3)
	for n := 1; n <= sentLen; n++ {
		total := 1
		for i := 0; i < n; i++ {
			total *= len(sent)
		}
		for s := 0; s < total; s++ {
			m.Case("sentinel-numeric")
			x := s
			gs := make([]*GV, n)
			for i := range gs {
				gs[i] = sent[x%len(sent)]
				x /= len(sent)
			}
			l := m.NewList(gs...)
			for _, a := range aggs {
				m.Agg(l, a)
			}
			c.St.Eval(gvTokens(gs), n >= 2)
		}
	}
	c.St.Exhaustive = append(c.St.Exhaustive, fmt.Sprintf("all lists of length 1..%d over %d sentinel values", sentLen, len(sent)))
	for i := 0; i < c.N(600, 10000); i++ {
		m.Case("random-numeric")
		n := r.Intn(12)
		gs := make([]*GV, n)
		mode := r.Intn(4)
		for j := range gs {
			switch {
			case mode == 0: // all negative
				if r.Bool() {
					gs[j] = gvInt(-1 - r.Intn(1000))
				} else {
					gs[j] = gvFloat(-0.5 - float64(r.Intn(1000)))
				}
			case mode == 1: // near the int limits
				gs[j] = gvInt([]int{math.MaxInt64, math.MinInt64, math.MaxInt64 - 1, math.MinInt64 + 1, 1 << 62, -(1 << 62), 3, -3, 2}[r.Intn(9)])
			case mode == 2: // non-numeric interleaved (Int* family; Min/Max panic)
				if r.Chance(35) {
					gs[j] = []*GV{gvStr("x"), gvNil(), gvBool(true), gvFloat(1.5)}[r.Intn(4)]
				} else {
					gs[j] = gvInt(r.SmallInt())
				}
			default:
				if r.Bool() {
					gs[j] = gvInt(r.Int())
				} else {
					gs[j] = gvFloat(r.FiniteFloat())
				}
			}
		}
		l := m.NewList(gs...)
		for _, a := range aggs {
			m.Agg(l, a)
		}
		c.St.Eval(gvTokens(gs), n >= 2)
		c.St.Count(fmt.Sprintf("numeric_mode_%d", mode))
	}
}

// ---------------------------------------------------------------- C19

type Outer struct{ *DerivedObject }

func runC19(c *Ctx) {
	m, r := c.M, c.R
	c.St.Rule = "every fluent method of both interfaces (enumerated by reflection; an unclassified method is an alarm) called on user types embedding a List/Object one and two levels deep, and every retrieval path of a stored derived value; non-trivial always; distinct by (method, level)"
	if msg := checkAPITables(); msg != "" {
		m.Case("api-table")
		m.Alarm("C19", msg)
	}
	c.fluentStates()
	c.derivedCorners("C19")
	c.lateDerived("C19")
	c.overriding("C19")
	c.selfStore("C19")
	c.longLists("C19")
	c.nestedClear()
	c.derivedShrinkLarge()
	c.indexSpellings("C19")
	c.nonASCIIKeysDerived()
	for lvl := 1; lvl <= 2; lvl++ {
		for rep := 0; rep < c.N(3, 30); rep++ {
			m.Case(fmt.Sprintf("fluent-level-%d", lvl))
			raw := m.NewList(gvInt(3), gvInt(1), gvInt(2))
			d := raw
			for i := 0; i < lvl; i++ {
				d = m.Derive(d)
			}
			m.Ego(d)
			m.Ego(raw)
			// every fluent list method, called on the derived value and on the raw embedded list
			for _, t := range []string{d, raw} {
				m.Add(t, gvInt(r.SmallInt()))
				m.Insert(t, 0, gvInt(5))
				m.Insert(t, m.L(t).Count(), gvInt(5)) // the append boundary
				m.Insert(t, m.L(t).Count()-1, gvInt(5))
				m.Replace(t, 0, gvInt(6))
				m.Replace(t, m.L(t).Count()-1, gvInt(6))
				m.Delete(t, 0)
				m.Pop(t)
				m.Sort(t)
				m.Reverse(t)
				m.ForEach(t)
				m.ForEachValue(t)
				for _, k := range []byte("olsbif") {
					m.ForEachK(t, k)
				}
				m.ForEachAsync(t)
				m.SetTF(t, "#0", gvInt(9))
				m.SetTF(t, "#5#1.k", gvInt(9))
				m.UnsetTF(t, "#0")
				// every shape of a tree-form write: an existing index, the index equal to the length, indexes behind the
				// end (padding), as a leaf and with a remainder of either kind; the unset of an existing and a missing index
				n := m.L(t).Count()
				for _, tf := range []string{"#" + strconv.Itoa(n), "#" + strconv.Itoa(n+3), "#" + strconv.Itoa(n+5) + ".k", "#" + strconv.Itoa(n+7) + "#2",
					"#1", "#1.k", "#1#0", "#" + strconv.Itoa(n+8) + ".a.b", "#" + strconv.Itoa(n+9) + "#0#0"} {
					m.SetTF(t, tf, gvInt(4))
				}
				m.UnsetTF(t, "#1#0")
				m.UnsetTF(t, "#"+strconv.Itoa(m.L(t).Count()-1))
				m.UnsetTF(t, "#"+strconv.Itoa(m.L(t).Count()+4))
				m.Clear(t)
				m.Sort(t)    // an empty list cannot be sorted (run-time panic): in particular nothing else is returned
				m.Reverse(t) // Reverse of the empty list is fluent
				m.Insert(t, 0, gvInt(1)) // Insert into the empty list is the append boundary too
				m.Add(t, gvInt(1), gvInt(2))
			}
			rawO := m.NewObject(gvStr("a"), gvInt(1))
			dO := rawO
			for i := 0; i < lvl; i++ {
				dO = m.Derive(dO)
			}
			m.Ego(dO)
			for _, t := range []string{dO, rawO} {
				m.OSet(t, gvStr("b"), gvInt(2))
				m.OUnset(t, "b")
				m.OForEach(t)
				m.OForEachValue(t)
				for _, k := range []byte("olsbif") {
					m.OForEachK(t, k)
				}
				m.OForEachAsync(t)
				m.OSetTF(t, ".c.d", gvInt(3))
				m.OSetTF(t, ".e#1", gvInt(3))
				m.OUnsetTF(t, ".c.d")
				for _, tf := range []string{".a", ".new", ".c", ".c.d.e", ".e#0", ".e#7", ".e#2.k", ".l#3#1", ".a.over", ".a#2"} {
					m.OSetTF(t, tf, gvInt(4))
				}
				m.OUnsetTF(t, ".e#0")
				m.OUnsetTF(t, ".missing")
				m.OUnsetTF(t, ".new")
				m.OClear(t)
				m.OSet(t, gvStr("a"), gvInt(1))
			}
			// storage: derived values stored in other containers come back identical
			// a derived value repeated by NewListOf: every slot holds the identical outer value
			for _, dv := range []string{d, dO} {
				rep := m.NewListOf(m.RefGV(dv), 3)
				if rep != "" {
					for i := 0; i < 3; i++ {
						m.Get(rep, i)
					}
					m.Slice(rep)
					m.IndexOf(rep, m.RefGV(dv))
				}
			}
			// derived values that arrive inside a native slice / map of every flavour that can carry them: the stored
			// element is the identical outer value for every way of reading it
			probeHolder := func(h string, kind byte) {
				if h == "" {
					return
				}
				if h[0] == 'L' {
					m.Get(h, 0)
					m.GetK(h, kind, 0)
					m.Slice(h)
					m.SliceK(h, kind)
					m.ForEach(h)
					m.ForEachK(h, kind)
					m.FilterK(h, kind, "all")
					m.MapK(h, kind, &Fn{Name: "id"})
					m.GetTF(h, "#0")
					m.IndexOf(h, m.RefGV(map[byte]string{'l': d, 'o': dO}[kind]))
				} else {
					m.OGet(h, "k")
					m.OGetK(h, kind, "k")
					m.Dict(h)
					m.OForEach(h)
					m.OForEachK(h, kind)
					m.OMapK(h, kind, &Fn{Name: "id"})
					m.OGetTF(h, ".k")
					m.Values(h)
				}
			}
			for _, fl := range []struct {
				kind byte
				dv   string
			}{{'l', d}, {'o', dO}} {
				for _, flavour := range []byte{fl.kind, 'a'} {
					sl := &GV{K: '(', Fl: flavour, Xs: []*GV{m.RefGV(fl.dv)}}
					mp := &GV{K: '<', Fl: flavour, Xs: []*GV{m.RefGV(fl.dv)}, Keys: []string{"k"}}
					probeHolder(m.NewListFrom(sl), fl.kind)
					probeHolder(m.NewObjectFrom(mp), fl.kind)
					outer := m.NewList(sl, mp)
					if outer != "" {
						probeHolder(m.tokVal(m.L(outer).Get(0)), fl.kind)
						probeHolder(m.tokVal(m.L(outer).Get(1)), fl.kind)
					}
					acc := m.NewList()
					m.Add(acc, sl)
					m.Insert(acc, 0, mp)
					probeHolder(m.tokVal(m.L(acc).Get(1)), fl.kind)
					probeHolder(m.tokVal(m.L(acc).Get(0)), fl.kind)
					oacc := m.NewObject()
					m.OSet(oacc, gvStr("s"), sl, gvStr("m"), mp)
					probeHolder(m.tokVal(m.O(oacc).Get("s")), fl.kind)
					probeHolder(m.tokVal(m.O(oacc).Get("m")), fl.kind)
				}
			}
			holder := m.NewList(m.RefGV(d), m.RefGV(dO), gvInt(0), m.RefGV(raw))
			holderO := m.NewObject(gvStr("l"), m.RefGV(d), gvStr("o"), m.RefGV(dO), gvStr("r"), m.RefGV(rawO))
			m.Get(holder, 0)
			m.Get(holder, 1)
			m.Get(holder, 3)
			m.GetK(holder, 'l', 0)
			m.GetK(holder, 'o', 1)
			m.GetTF(holder, "#0")
			m.GetTF(holder, "#1")
			m.Slice(holder)
			m.SliceK(holder, 'l')
			m.SliceK(holder, 'o')
			m.ForEach(holder)
			m.ForEachK(holder, 'l')
			m.ForEachK(holder, 'o')
			m.Filter(holder, "all")
			m.FilterK(holder, 'l', "all")
			m.FilterK(holder, 'o', "all")
			m.OGet(holderO, "l")
			m.OGet(holderO, "o")
			m.OGetK(holderO, 'l', "l")
			m.OGetK(holderO, 'o', "o")
			m.OGetK(holderO, 'o', "r")
			m.OGetTF(holderO, ".l")
			m.OGetTF(holderO, ".o")
			m.OGetTF(holderO, ".l#0")
			m.Dict(holderO)
			m.OForEach(holderO)
			m.OForEachK(holderO, 'l')
			m.OForEachK(holderO, 'o')
			m.Values(holderO)
			m.TypeOf(holder, 0)
			m.IndexOf(holder, m.RefGV(d))
			m.Contains(holder, m.RefGV(raw))
			m.KeyOf(holderO, m.RefGV(dO))
			// nested through tree form
			m.SetTF(holder, "#6", m.RefGV(d))
			m.GetTF(holder, "#6")
			m.OSetTF(holderO, ".n.m", m.RefGV(dO))
			m.OGetTF(holderO, ".n.m")
			c.St.Eval(fmt.Sprintf("fluent:%d:%d", lvl, rep), true)
		}
	}
}


// cloneSequences: non-finite floats (a clone Equals its source as long as no NaN is involved: +Inf == +Inf), and
// clones taken at several moments of one container's life — whatever an earlier Clone learnt about the container
// (it was flat, it was empty, it had spare capacity) is no longer true after the next write.
func (c *Ctx) cloneSequences() {
	m := c.M
	m.Case("clone-non-finite")
	inf, ninf := gvFloat(math.Inf(1)), gvFloat(math.Inf(-1))
	l := m.NewList(inf, ninf, gvFloat(1.5), gvFloat(math.MaxFloat64), gvFloat(math.SmallestNonzeroFloat64), gvFloat(math.Copysign(0, -1)), m.RefGV(m.NewObject(gvStr("x"), inf, gvStr("y"), ninf)))
	cl := m.Clone(l)
	m.Equals(l, cl)
	m.Equals(cl, l)
	m.Equals(l, l)
	o := m.NewObject(gvStr("i"), inf, gvStr("l"), m.RefGV(m.NewList(ninf, inf)))
	co := m.OClone(o)
	m.OEquals(o, co)
	m.OEquals(co, o)
	m.Equals(m.NewList(inf), m.NewList(ninf))
	m.Equals(m.NewList(inf), m.NewList(gvFloat(math.MaxFloat64)))

	m.Case("clone-sequences")
	for _, how := range []string{"native-slice", "native-map", "list", "object", "settf", "nested-native"} {
		// an object of scalars only is cloned, then receives its first nested container, then is cloned again
		src := m.NewObject(gvStr("a"), gvInt(1), gvStr("s"), gvStr("v"), gvStr("f"), gvFloat(2.5), gvStr("n"), gvNil())
		m.OClone(src)
		switch how {
		case "native-slice":
			m.OSet(src, gvStr("c"), &GV{K: '(', Fl: 'a', Xs: []*GV{gvInt(1), gvInt(2)}})
		case "native-map":
			m.OSet(src, gvStr("c"), &GV{K: '<', Fl: 'a', Xs: []*GV{gvInt(1)}, Keys: []string{"k"}})
		case "list":
			m.OSet(src, gvStr("c"), m.RefGV(m.NewList(gvInt(1))))
		case "object":
			m.OSet(src, gvStr("c"), m.RefGV(m.NewObject(gvStr("k"), gvInt(1))))
		case "settf":
			m.OSetTF(src, ".c#1", gvInt(5))
		case "nested-native":
			m.OSet(src, gvStr("c"), &GV{K: '(', Fl: 'i', Xs: []*GV{gvInt(1)}})
		}
		c2 := m.OClone(src)
		// a write below the new field on either side must not show on the other
		m.OSetTF(src, ".c#0", gvStr("src-side"))
		if c2 != "" {
			m.OSetTF(c2, ".c#0", gvStr("clone-side"))
			if how == "native-map" || how == "object" {
				m.OSetTF(c2, ".c.k", gvStr("clone-side"))
				m.OSetTF(src, ".c.k", gvStr("src-side"))
			}
			m.OEquals(src, c2)
		}
		// the same on a list of scalars
		ls := m.NewList(gvInt(1), gvStr("v"))
		m.Clone(ls)
		m.Add(ls, &GV{K: '(', Fl: 'a', Xs: []*GV{gvInt(1)}})
		c3 := m.Clone(ls)
		m.SetTF(ls, "#2#0", gvStr("src-side"))
		if c3 != "" {
			m.SetTF(c3, "#2#0", gvStr("clone-side"))
		}
		// a list emptied and cloned, then both sides grow
		e := m.NewList(gvInt(1), gvInt(2), gvInt(3))
		m.Pop(e)
		m.Delete(e, 0)
		m.Pop(e)
		ce := m.Clone(e)
		m.Add(e, gvStr("src"))
		if ce != "" {
			m.Add(ce, gvStr("clone"))
			m.Add(ce, gvStr("clone2"))
		}
		m.Add(e, gvStr("src2"))
		c.St.Eval("clone-sequences:"+how, true)
	}
}
