package main

import (
	"fmt"
	"strings"
)

// Held values: what a call returned must stay what it was.  A returned string that is a view of a buffer the library
// reuses, or an error whose message is computed when it is read from state a later call overwrites, is right at the
// moment of return and wrong afterwards.  The harness therefore keeps the last few returned strings and error values
// (the values themselves, not copies) together with a copy of their content taken at once, and looks at them again
// after every later call of the same family.  A change is reported as an alarm of the running property.

type heldString struct {
	s    string // the value as returned
	copy string // its bytes, copied when it was returned
	what string
}

type heldError struct {
	err  error
	msg  string
	what string
}

var (
	heldStrings   []heldString
	heldErrors    []heldError
	heldAlarms    []string
	runningProp   = "C00"
	heldRingSize  = 6
	heldChecksRun int
)

func recheckHeld() {
	heldChecksRun++
	for i := range heldStrings {
		h := &heldStrings[i]
		if h.s != h.copy {
			heldAlarms = append(heldAlarms, fmt.Sprintf("a string returned earlier by %s changed after later calls: it was %.120q when it was returned and reads %.120q now", h.what, h.copy, h.s))
			h.copy = strings.Clone(h.s)
		}
	}
	for i := range heldErrors {
		h := &heldErrors[i]
		func() {
			defer func() { recover() }()
			if now := h.err.Error(); now != h.msg {
				heldAlarms = append(heldAlarms, fmt.Sprintf("the error returned earlier by %s reads %q now; when it was returned it read %q", h.what, now, h.msg))
				h.msg = now
			}
		}()
	}
}

// holdString registers a returned string (after looking at the ones held so far) and returns it.
func holdString(s, what string) string {
	recheckHeld()
	if len(s) > 0 {
		if len(heldStrings) >= heldRingSize {
			heldStrings = heldStrings[1:]
		}
		heldStrings = append(heldStrings, heldString{s: s, copy: strings.Clone(s), what: what})
	}
	return s
}

func holdError(err error, what string) {
	recheckHeld()
	if err == nil {
		return
	}
	msg := ""
	func() {
		defer func() { recover() }()
		msg = err.Error()
	}()
	if len(heldErrors) >= heldRingSize {
		heldErrors = heldErrors[1:]
	}
	heldErrors = append(heldErrors, heldError{err: err, msg: msg, what: what})
}

// flushHeldAlarms writes the pending alarms as records of the running property.
func (m *Machine) flushHeldAlarms() {
	for _, a := range heldAlarms {
		m.Alarm(runningProp, a)
	}
	heldAlarms = nil
}
