package main

// Machine drives the real library in-process and writes one record per operation,
// followed by a one-level snapshot of every live container (see wire.go for tokens).

import (
	"bufio"
	"fmt"
	"math"
	"regexp"
	"runtime"
	"sort"
	"strconv"
	"strings"
	"sync"

	at "github.com/DanielSvub/anytype"
)

type hinfo struct {
	id    int
	lvl   int
	isObj bool
}

type entry struct {
	id    int
	isObj bool
	raw   any // level-0 interface value (at.List / at.Object)
	last  string
	wraps map[int]any // derived wrappers by level
}

type Machine struct {
	w        *bufio.Writer
	nextID   int
	handles  map[any]hinfo
	live     []*entry
	byID     map[int]*entry
	Lines    int
	stats    *Stats
	caseID   int
	byTok    map[string]any
	OnlyCase int
	OnlyLine int
}

func NewMachine(w *bufio.Writer, st *Stats) *Machine {
	return &Machine{w: w, stats: st, handles: map[any]hinfo{}, byID: map[int]*entry{}, byTok: map[string]any{}}
}

// emit writes one record. In replay mode (OnlyCase / OnlyLine set) the whole run is re-executed with
// the same seed, so every random choice is the same, but only the selected case / record is written.
func (m *Machine) emit(line string) {
	m.Lines++
	if m.OnlyCase > 0 && m.caseID != m.OnlyCase {
		return
	}
	if m.OnlyLine > 0 && m.Lines != m.OnlyLine {
		return
	}
	m.w.WriteString(line)
	m.w.WriteByte('\n')
}

// Case starts a new case: heap and handle table are reset on both sides.
func (m *Machine) Case(stratum string) {
	m.caseID++
	m.handles = map[any]hinfo{}
	m.byID = map[int]*entry{}
	m.byTok = map[string]any{}
	m.live = nil
	m.nextID = 0
	m.w.Flush() // what was recorded so far survives a crash of the process inside the library (a panic in a goroutine, a stack overflow)
	m.emit(fmt.Sprintf("case\t%d\t%s", m.caseID, stratum))
	m.stats.Case(stratum)
}

// ---------------------------------------------------------------- handles

func (m *Machine) reg(v any) string {
	if v == nil {
		return "n"
	}
	if h, ok := m.handles[v]; ok {
		return refTok(h)
	}
	_, isObj := v.(at.Object)
	m.nextID++
	h := hinfo{id: m.nextID, lvl: 0, isObj: isObj}
	m.handles[v] = h
	e := &entry{id: h.id, isObj: isObj, raw: v, wraps: map[int]any{}}
	m.live = append(m.live, e)
	m.byID[h.id] = e
	return refTok(h)
}

func refTok(h hinfo) string {
	p := "L"
	if h.isObj {
		p = "O"
	}
	s := p + strconv.Itoa(h.id)
	if h.lvl > 0 {
		s += "^" + strconv.Itoa(h.lvl)
	}
	return s
}

// tokVal renders a value returned by the library (scalar or container).
func (m *Machine) tokVal(v any) string {
	switch x := v.(type) {
	case nil:
		return "n"
	case bool:
		if x {
			return "t"
		}
		return "f"
	case int:
		return "i" + strconv.Itoa(x)
	case float64:
		return tokFloat(x)
	case string:
		return "s" + hx(x)
	case at.List:
		return m.reg(x)
	case at.Object:
		return m.reg(x)
	default:
		return fmt.Sprintf("?%T", v)
	}
}

func (m *Machine) tokVals(vs []any) string {
	parts := make([]string, len(vs))
	for i, v := range vs {
		parts[i] = m.tokVal(v)
	}
	return strings.Join(parts, " ")
}

// L / O resolve a reference token to the interface value.
func (m *Machine) resolve(tok string) any {
	if v, ok := m.byTok[tok]; ok {
		return v
	}
	for v, h := range m.handles {
		if refTok(h) == tok {
			m.byTok[tok] = v
			return v
		}
	}
	panic("unknown handle " + tok)
}

func (m *Machine) L(tok string) at.List   { return m.resolve(tok).(at.List) }
func (m *Machine) O(tok string) at.Object { return m.resolve(tok).(at.Object) }
func (m *Machine) RefGV(tok string) *GV   { return &GV{K: 'R', Ref: m.resolve(tok), RTok: tok} }
func (m *Machine) IsObj(tok string) bool  { return tok[0] == 'O' }
func (m *Machine) LiveTokens() []string {
	r := make([]string, 0, len(m.live))
	for _, e := range m.live {
		p := "L"
		if e.isObj {
			p = "O"
		}
		r = append(r, p+strconv.Itoa(e.id))
	}
	return r
}

// ---------------------------------------------------------------- panics

var lineRe = regexp.MustCompile(`on line (\d+)$`)

func panicKind(r any) string {
	if _, ok := r.(runtime.Error); ok {
		return "runtime"
	}
	msg := fmt.Sprint(r)
	switch {
	case strings.HasPrefix(msg, "index ") && strings.Contains(msg, "out of range with count"):
		return "indexRange"
	case strings.HasPrefix(msg, "item is not "), strings.HasPrefix(msg, "field '") && strings.Contains(msg, "' is not "):
		return "notKind"
	case strings.HasPrefix(msg, "object does not have a field"):
		return "missingKey"
	case strings.HasPrefix(msg, "object fields have to be set as key-value pairs"):
		return "oddPairs"
	case strings.HasPrefix(msg, "object key has to be string"):
		return "keyNotString"
	case strings.Contains(msg, "is not a valid tree form for"):
		return "badTF"
	case strings.HasSuffix(msg, "cannot be converted to int"):
		return "badInt"
	case msg == "incompatible type", msg == "unsupported slice type", msg == "unsupported map type":
		return "unsupported"
	case msg == "invalid indentation", strings.HasPrefix(msg, "indentation "):
		return "badIndent"
	case strings.HasPrefix(msg, "ending index "):
		return "subListEnd"
	case strings.HasPrefix(msg, "starting index is higher"):
		return "subListOrder"
	case strings.HasPrefix(msg, "starting index is lower"):
		return "subListStart"
	case strings.HasPrefix(msg, "the first element of the list has to be"):
		return "sortKind"
	case strings.HasPrefix(msg, "object does not contain value"):
		return "noValue"
	}
	return "other:" + hx(msg)
}

// guard runs f and renders its result or the recovered panic.
func guard(f func() string) (res string) {
	defer func() {
		if r := recover(); r != nil {
			res = "panic " + panicKind(r)
		}
	}()
	return "ok " + f()
}

// ---------------------------------------------------------------- snapshots

func (m *Machine) snapOf(e *entry) (res string) {
	defer func() {
		if r := recover(); r != nil {
			res = "!panic " + hx(fmt.Sprint(r)) // the container cannot be observed any more (Slice / Dict panicked)
		}
	}()
	if e.isObj {
		d := e.raw.(at.Object).Dict()
		keys := make([]string, 0, len(d))
		for k := range d {
			keys = append(keys, k)
		}
		sort.Strings(keys)
		var sb strings.Builder
		sb.WriteString("{")
		for _, k := range keys {
			sb.WriteString(" k" + hx(k) + " " + m.tokVal(d[k]))
		}
		sb.WriteString(" }")
		return sb.String()
	}
	s := e.raw.(at.List).Slice()
	return strings.TrimSpace("[ " + m.tokVals(s) + " ]")
}

// Snaps writes the one-level snapshot of every live container ("=" if unchanged since the last one).
func (m *Machine) Snaps() {
	for i := 0; i < len(m.live); i++ { // m.live may grow while snapshots discover nested containers
		e := m.live[i]
		s := m.snapOf(e)
		p := "L"
		if e.isObj {
			p = "O"
		}
		if s == e.last {
			m.emit("snap\t" + p + strconv.Itoa(e.id) + "\t=")
		} else {
			e.last = s
			m.emit("snap\t" + p + strconv.Itoa(e.id) + "\t" + s)
		}
	}
}

// Op records one operation with its observed outcome, then the snapshots.
func (m *Machine) Op(name, recv, args string, f func() string) string {
	obs := guard(f)
	m.emit("op\t" + name + "\t" + recv + "\t" + args + "\t" + obs)
	m.stats.Op(name, obs)
	m.Snaps()
	if len(heldAlarms) > 0 {
		m.flushHeldAlarms()
	}
	return obs
}

func gvTokens(gs []*GV) string {
	parts := make([]string, len(gs))
	for i, g := range gs {
		parts[i] = g.Token()
	}
	return strings.Join(parts, " ")
}

func gvGo(gs []*GV) []any {
	r := make([]any, len(gs))
	for i, g := range gs {
		r[i] = g.Go()
	}
	return r
}

func itok(i int) string { return "i" + strconv.Itoa(i) }
func btok(b bool) string {
	if b {
		return "t"
	}
	return "f"
}

var kindNames = map[byte]string{'o': "object", 'l': "list", 's': "string", 'b': "bool", 'i': "int", 'f': "float"}

// ---------------------------------------------------------------- list operations

func (m *Machine) NewList(gs ...*GV) string {
	var tok string
	m.Op("newlist", "-", gvTokens(gs), func() string { tok = m.reg(at.NewList(gvGo(gs)...)); return tok })
	return tok
}
func (m *Machine) NewListOf(g *GV, n int) string {
	var tok string
	m.Op("newlistof", "-", g.Token()+" "+itok(n), func() string { tok = m.reg(at.NewListOf(g.Go(), n)); return tok })
	return tok
}
func (m *Machine) NewListFrom(g *GV) string {
	var tok string
	m.Op("newlistfrom", "-", g.Token(), func() string { tok = m.reg(at.NewListFrom(g.Go())); return tok })
	return tok
}
func (m *Machine) Add(r string, gs ...*GV) string {
	return m.Op("add", r, gvTokens(gs), func() string { return m.tokVal(m.L(r).Add(gvGo(gs)...)) })
}
func (m *Machine) Insert(r string, i int, g *GV) string {
	return m.Op("insert", r, itok(i)+" "+g.Token(), func() string { return m.tokVal(m.L(r).Insert(i, g.Go())) })
}
func (m *Machine) Replace(r string, i int, g *GV) string {
	return m.Op("replace", r, itok(i)+" "+g.Token(), func() string { return m.tokVal(m.L(r).Replace(i, g.Go())) })
}
func (m *Machine) Delete(r string, idx ...int) string {
	parts := make([]string, len(idx))
	for i, x := range idx {
		parts[i] = itok(x)
	}
	cp := append([]int(nil), idx...)
	return m.Op("delete", r, strings.Join(parts, " "), func() string { return m.tokVal(m.L(r).Delete(cp...)) })
}
func (m *Machine) Pop(r string) string {
	return m.Op("pop", r, "", func() string { return m.tokVal(m.L(r).Pop()) })
}
func (m *Machine) Clear(r string) string {
	return m.Op("clear", r, "", func() string { return m.tokVal(m.L(r).Clear()) })
}
func (m *Machine) Sort(r string) string {
	return m.Op("sort", r, "", func() string { return m.tokVal(m.L(r).Sort()) })
}
func (m *Machine) Reverse(r string) string {
	return m.Op("reverse", r, "", func() string { return m.tokVal(m.L(r).Reverse()) })
}
func (m *Machine) Get(r string, i int) string {
	return m.Op("get", r, itok(i), func() string { return m.tokVal(m.L(r).Get(i)) })
}
func (m *Machine) GetK(r string, k byte, i int) string {
	return m.Op("getk", r, string(k)+" "+itok(i), func() string {
		l := m.L(r)
		switch k {
		case 'o':
			return m.tokVal(l.GetObject(i))
		case 'l':
			return m.tokVal(l.GetList(i))
		case 's':
			return m.tokVal(l.GetString(i))
		case 'b':
			return m.tokVal(l.GetBool(i))
		case 'i':
			return m.tokVal(l.GetInt(i))
		default:
			return m.tokVal(l.GetFloat(i))
		}
	})
}
func (m *Machine) TypeOf(r string, i int) string {
	return m.Op("typeof", r, itok(i), func() string { return "k" + strconv.Itoa(int(m.L(r).TypeOf(i))) })
}
func (m *Machine) Count(r string) string {
	return m.Op("count", r, "", func() string { return itok(m.L(r).Count()) })
}
func (m *Machine) Empty(r string) string {
	return m.Op("empty", r, "", func() string { return btok(m.L(r).Empty()) })
}
func (m *Machine) String(r string) string {
	return m.Op("string", r, "", func() string { return "s" + hx(holdString(m.L(r).String(), "List.String")) })
}
func (m *Machine) FormatString(r string, n int) string {
	return m.Op("fmtstr", r, itok(n), func() string { return "s" + hx(holdString(m.L(r).FormatString(n), "List.FormatString")) })
}
func (m *Machine) Slice(r string) string {
	return m.Op("slice", r, "", func() string { return m.tokVals(m.L(r).Slice()) })
}
func (m *Machine) SliceK(r string, k byte) string {
	return m.Op("slicek", r, string(k), func() string {
		l := m.L(r)
		var vs []any
		switch k {
		case 'o':
			for _, x := range l.ObjectSlice() {
				vs = append(vs, x)
			}
		case 'l':
			for _, x := range l.ListSlice() {
				vs = append(vs, x)
			}
		case 's':
			for _, x := range l.StringSlice() {
				vs = append(vs, x)
			}
		case 'b':
			for _, x := range l.BoolSlice() {
				vs = append(vs, x)
			}
		case 'i':
			for _, x := range l.IntSlice() {
				vs = append(vs, x)
			}
		default:
			for _, x := range l.FloatSlice() {
				vs = append(vs, x)
			}
		}
		return m.tokVals(vs)
	})
}

// hasContainer reports whether a native value contains an anytype container at any depth.
func hasContainer(v any) bool {
	switch x := v.(type) {
	case at.List, at.Object:
		return true
	case []any:
		for _, e := range x {
			if hasContainer(e) {
				return true
			}
		}
	case map[string]any:
		for _, e := range x {
			if hasContainer(e) {
				return true
			}
		}
	}
	return false
}

// hasNilNative reports whether a native export contains a nil slice or a nil map at any depth: the export of an
// empty container is an empty slice / map (NewListFrom([]any{}).NativeSlice() is deep-equal to its input), never nil.
func hasNilNative(v any) bool {
	switch x := v.(type) {
	case []any:
		if x == nil {
			return true
		}
		for _, e := range x {
			if hasNilNative(e) {
				return true
			}
		}
	case map[string]any:
		if x == nil {
			return true
		}
		for _, e := range x {
			if hasNilNative(e) {
				return true
			}
		}
	}
	return false
}

func nativeTok(v any) string {
	if hasContainer(v) {
		return "C!"
	}
	if hasNilNative(v) {
		return "N!"
	}
	return treeOf(v).Token()
}

func (m *Machine) NativeSlice(r string) string {
	return m.Op("nativeslice", r, "", func() string { return nativeTok(m.L(r).NativeSlice()) })
}
func (m *Machine) Clone(r string) string {
	var tok string
	m.Op("clone", r, "", func() string { tok = m.reg(m.L(r).Clone()); return tok })
	return tok
}
func (m *Machine) Equals(r, other string) string {
	return m.Op("equals", r, other, func() string { return btok(m.L(r).Equals(m.L(other))) })
}
func (m *Machine) Concat(r, other string) string {
	var tok string
	m.Op("concat", r, other, func() string { tok = m.reg(m.L(r).Concat(m.L(other))); return tok })
	return tok
}
func (m *Machine) SubList(r string, s, e int) string {
	var tok string
	m.Op("sublist", r, itok(s)+" "+itok(e), func() string { tok = m.reg(m.L(r).SubList(s, e)); return tok })
	return tok
}
func (m *Machine) Contains(r string, g *GV) string {
	return m.Op("contains", r, g.Token(), func() string { return btok(m.L(r).Contains(g.Go())) })
}
func (m *Machine) IndexOf(r string, g *GV) string {
	return m.Op("indexof", r, g.Token(), func() string { return itok(m.L(r).IndexOf(g.Go())) })
}
func (m *Machine) AllK(r string, k byte) string {
	return m.Op("allk", r, string(k), func() string {
		l := m.L(r)
		switch k {
		case 'o':
			return btok(l.AllObjects())
		case 'l':
			return btok(l.AllLists())
		case 's':
			return btok(l.AllStrings())
		case 'b':
			return btok(l.AllBools())
		case 'i':
			return btok(l.AllInts())
		case 'f':
			return btok(l.AllFloats())
		default:
			return btok(l.AllNumeric())
		}
	})
}
func (m *Machine) ForEach(r string) string {
	return m.Op("foreach", r, "", func() string {
		var log []string
		ret := m.L(r).ForEach(func(i int, v any) { log = append(log, itok(i), m.tokVal(v)) })
		return m.tokVal(ret) + " | " + strings.Join(log, " ")
	})
}
func (m *Machine) ForEachValue(r string) string {
	return m.Op("foreachvalue", r, "", func() string {
		var log []any
		ret := m.L(r).ForEachValue(func(v any) { log = append(log, v) })
		return m.tokVal(ret) + " | " + m.tokVals(log)
	})
}
func (m *Machine) ForEachK(r string, k byte) string {
	return m.Op("foreachk", r, string(k), func() string {
		var log []any
		l := m.L(r)
		var ret at.List
		switch k {
		case 'o':
			ret = l.ForEachObject(func(x at.Object) { log = append(log, x) })
		case 'l':
			ret = l.ForEachList(func(x at.List) { log = append(log, x) })
		case 's':
			ret = l.ForEachString(func(x string) { log = append(log, x) })
		case 'b':
			ret = l.ForEachBool(func(x bool) { log = append(log, x) })
		case 'i':
			ret = l.ForEachInt(func(x int) { log = append(log, x) })
		default:
			ret = l.ForEachFloat(func(x float64) { log = append(log, x) })
		}
		return m.tokVal(ret) + " | " + m.tokVals(log)
	})
}
func (m *Machine) Map(r string, fn *Fn) string {
	var tok string
	m.Op("map", r, fn.Token(), func() string {
		var log []string
		tok = m.reg(m.L(r).Map(func(i int, v any) any { log = append(log, itok(i), m.tokVal(v)); return fn.Apply(i, v) }))
		return tok + " | " + strings.Join(log, " ")
	})
	return tok
}
func (m *Machine) MapValues(r string, fn *Fn) string {
	var tok string
	m.Op("mapvalues", r, fn.Token(), func() string {
		var log []any
		tok = m.reg(m.L(r).MapValues(func(v any) any { log = append(log, v); return fn.Apply(nil, v) }))
		return tok + " | " + m.tokVals(log)
	})
	return tok
}
func (m *Machine) MapK(r string, k byte, fn *Fn) string {
	var tok string
	m.Op("mapk", r, string(k)+" "+fn.Token(), func() string {
		l := m.L(r)
		var res at.List
		var log []any
		switch k {
		case 'o':
			res = l.MapObjects(func(x at.Object) any { log = append(log, x); return fn.Apply(nil, x) })
		case 'l':
			res = l.MapLists(func(x at.List) any { log = append(log, x); return fn.Apply(nil, x) })
		case 's':
			res = l.MapStrings(func(x string) any { log = append(log, x); return fn.Apply(nil, x) })
		case 'b':
			res = l.MapBools(func(x bool) any { log = append(log, x); return fn.Apply(nil, x) })
		case 'i':
			res = l.MapInts(func(x int) any { log = append(log, x); return fn.Apply(nil, x) })
		default:
			res = l.MapFloats(func(x float64) any { log = append(log, x); return fn.Apply(nil, x) })
		}
		tok = m.reg(res)
		return tok + " | " + m.tokVals(log)
	})
	return tok
}
func (m *Machine) Reduce(r string) string {
	return m.Op("reduce", r, "hash", func() string {
		var log []any
		res := m.L(r).Reduce(17, func(acc any, v any) any { log = append(log, v); return acc.(int)*31 + codeOf(v) })
		return m.tokVal(res) + " | " + m.tokVals(log)
	})
}
func (m *Machine) ReduceK(r string, k byte) string {
	return m.Op("reducek", r, string(k), func() string {
		l := m.L(r)
		var log []any
		var res any
		switch k {
		case 's':
			res = l.ReduceStrings("^", func(acc, v string) string { log = append(log, v); return acc + "|" + v })
		case 'i':
			res = l.ReduceInts(17, func(acc, v int) int { log = append(log, v); return acc*31 + v })
		default:
			res = l.ReduceFloats(1.0, func(acc, v float64) float64 { log = append(log, v); return acc*0.5 + v })
		}
		return m.tokVal(res) + " | " + m.tokVals(log)
	})
}
func (m *Machine) Filter(r string, p string) string {
	var tok string
	m.Op("filter", r, p, func() string {
		var log []any
		tok = m.reg(m.L(r).Filter(func(v any) bool { log = append(log, v); return pred(p, v) }))
		return tok + " | " + m.tokVals(log)
	})
	return tok
}
func (m *Machine) FilterK(r string, k byte, p string) string {
	var tok string
	m.Op("filterk", r, string(k)+" "+p, func() string {
		l := m.L(r)
		var res at.List
		var log []any
		switch k {
		case 'o':
			res = l.FilterObjects(func(x at.Object) bool { log = append(log, x); return pred(p, x) })
		case 'l':
			res = l.FilterLists(func(x at.List) bool { log = append(log, x); return pred(p, x) })
		case 's':
			res = l.FilterStrings(func(x string) bool { log = append(log, x); return pred(p, x) })
		case 'i':
			res = l.FilterInts(func(x int) bool { log = append(log, x); return pred(p, x) })
		default:
			res = l.FilterFloats(func(x float64) bool { log = append(log, x); return pred(p, x) })
		}
		tok = m.reg(res)
		return tok + " | " + m.tokVals(log)
	})
	return tok
}
func (m *Machine) Agg(r string, name string) string {
	return m.Op("agg", r, name, func() string {
		l := m.L(r)
		switch name {
		case "intsum":
			return itok(l.IntSum())
		case "sum":
			return tokFloat(l.Sum())
		case "intprod":
			return itok(l.IntProd())
		case "prod":
			return tokFloat(l.Prod())
		case "avg":
			return tokFloat(l.Avg())
		case "intmin":
			return itok(l.IntMin())
		case "min":
			return tokFloat(l.Min())
		case "intmax":
			return itok(l.IntMax())
		default:
			return tokFloat(l.Max())
		}
	})
}
func (m *Machine) GetTF(r, tf string) string {
	return m.Op("gettf", r, "s"+hx(tf), func() string { return m.tokVal(m.L(r).GetTF(tf)) })
}
func (m *Machine) SetTF(r, tf string, g *GV) string {
	return m.Op("settf", r, "s"+hx(tf)+" "+g.Token(), func() string { return m.tokVal(m.L(r).SetTF(tf, g.Go())) })
}
func (m *Machine) UnsetTF(r, tf string) string {
	return m.Op("unsettf", r, "s"+hx(tf), func() string { return m.tokVal(m.L(r).UnsetTF(tf)) })
}
func (m *Machine) TypeOfTF(r, tf string) string {
	return m.Op("typeoftf", r, "s"+hx(tf), func() string { return "k" + strconv.Itoa(int(m.L(r).TypeOfTF(tf))) })
}

// ---------------------------------------------------------------- object operations

func (m *Machine) NewObject(gs ...*GV) string {
	var tok string
	m.Op("newobject", "-", gvTokens(gs), func() string { tok = m.reg(at.NewObject(gvGo(gs)...)); return tok })
	return tok
}
func (m *Machine) NewObjectFrom(g *GV) string {
	var tok string
	m.Op("newobjectfrom", "-", g.Token(), func() string { tok = m.reg(at.NewObjectFrom(g.Go())); return tok })
	return tok
}
func (m *Machine) OSet(r string, gs ...*GV) string {
	return m.Op("oset", r, gvTokens(gs), func() string { return m.tokVal(m.O(r).Set(gvGo(gs)...)) })
}
func keyToks(keys []string) string {
	parts := make([]string, len(keys))
	for i, k := range keys {
		parts[i] = "s" + hx(k)
	}
	return strings.Join(parts, " ")
}
func (m *Machine) OUnset(r string, keys ...string) string {
	return m.Op("ounset", r, keyToks(keys), func() string { return m.tokVal(m.O(r).Unset(keys...)) })
}
func (m *Machine) OClear(r string) string {
	return m.Op("oclear", r, "", func() string { return m.tokVal(m.O(r).Clear()) })
}
func (m *Machine) OGet(r, key string) string {
	return m.Op("oget", r, "s"+hx(key), func() string { return m.tokVal(m.O(r).Get(key)) })
}
func (m *Machine) OGetK(r string, k byte, key string) string {
	return m.Op("ogetk", r, string(k)+" s"+hx(key), func() string {
		o := m.O(r)
		switch k {
		case 'o':
			return m.tokVal(o.GetObject(key))
		case 'l':
			return m.tokVal(o.GetList(key))
		case 's':
			return m.tokVal(o.GetString(key))
		case 'b':
			return m.tokVal(o.GetBool(key))
		case 'i':
			return m.tokVal(o.GetInt(key))
		default:
			return m.tokVal(o.GetFloat(key))
		}
	})
}
func (m *Machine) OTypeOf(r, key string) string {
	return m.Op("otypeof", r, "s"+hx(key), func() string { return "k" + strconv.Itoa(int(m.O(r).TypeOf(key))) })
}
func (m *Machine) OKeyExists(r, key string) string {
	return m.Op("keyexists", r, "s"+hx(key), func() string { return btok(m.O(r).KeyExists(key)) })
}
func (m *Machine) OCount(r string) string {
	return m.Op("ocount", r, "", func() string { return itok(m.O(r).Count()) })
}
func (m *Machine) OEmpty(r string) string {
	return m.Op("oempty", r, "", func() string { return btok(m.O(r).Empty()) })
}
func (m *Machine) OString(r string) string {
	return m.Op("ostring", r, "", func() string { return "s" + hx(holdString(m.O(r).String(), "Object.String")) })
}
func (m *Machine) OFormatString(r string, n int) string {
	return m.Op("ofmtstr", r, itok(n), func() string { return "s" + hx(holdString(m.O(r).FormatString(n), "Object.FormatString")) })
}
func (m *Machine) Dict(r string) string {
	return m.Op("dict", r, "", func() string {
		d := m.O(r).Dict()
		keys := make([]string, 0, len(d))
		for k := range d {
			keys = append(keys, k)
		}
		sort.Strings(keys)
		parts := []string{}
		for _, k := range keys {
			parts = append(parts, "k"+hx(k), m.tokVal(d[k]))
		}
		return strings.Join(parts, " ")
	})
}
func (m *Machine) NativeDict(r string) string {
	return m.Op("nativedict", r, "", func() string { return nativeTok(m.O(r).NativeDict()) })
}

// Keys / Values: the result list's content is reported in the order the library produced it.
func (m *Machine) Keys(r string) string {
	var tok string
	m.Op("keys", r, "", func() string {
		l := m.O(r).Keys()
		tok = m.reg(l)
		return tok + " | " + m.tokVals(l.Slice())
	})
	return tok
}
func (m *Machine) Values(r string) string {
	var tok string
	m.Op("values", r, "", func() string {
		l := m.O(r).Values()
		tok = m.reg(l)
		return tok + " | " + m.tokVals(l.Slice())
	})
	return tok
}
func (m *Machine) OClone(r string) string {
	var tok string
	m.Op("oclone", r, "", func() string { tok = m.reg(m.O(r).Clone()); return tok })
	return tok
}
func (m *Machine) OEquals(r, other string) string {
	return m.Op("oequals", r, other, func() string { return btok(m.O(r).Equals(m.O(other))) })
}
func (m *Machine) Merge(r, other string) string {
	var tok string
	m.Op("merge", r, other, func() string { tok = m.reg(m.O(r).Merge(m.O(other))); return tok })
	return tok
}
// a nil interface as the argument
func (m *Machine) MergeNil(r string) string {
	var tok string
	m.Op("mergenil", r, "", func() string { tok = m.reg(m.O(r).Merge(nil)); return tok })
	return tok
}
func (m *Machine) ConcatNil(r string) string {
	var tok string
	m.Op("concatnil", r, "", func() string { tok = m.reg(m.L(r).Concat(nil)); return tok })
	return tok
}
func (m *Machine) EqualsNil(r string) string {
	if m.IsObj(r) {
		return m.Op("oequalsnil", r, "", func() string { return btok(m.O(r).Equals(nil)) })
	}
	return m.Op("equalsnil", r, "", func() string { return btok(m.L(r).Equals(nil)) })
}
func (m *Machine) Pluck(r string, keys ...string) string {
	var tok string
	m.Op("pluck", r, keyToks(keys), func() string {
		arg := append([]string(nil), keys...)
		tok = m.reg(m.O(r).Pluck(arg...))
		for i := range arg {
			if arg[i] != keys[i] {
				m.Alarm("C09", fmt.Sprintf("Pluck modified its argument: the caller's key slice %q became %q", keys, arg))
				break
			}
		}
		return tok
	})
	return tok
}
func (m *Machine) OContains(r string, g *GV) string {
	return m.Op("ocontains", r, g.Token(), func() string { return btok(m.O(r).Contains(g.Go())) })
}
func (m *Machine) KeyOf(r string, g *GV) string {
	return m.Op("keyof", r, g.Token(), func() string { return "s" + hx(m.O(r).KeyOf(g.Go())) })
}
func (m *Machine) OForEach(r string) string {
	return m.Op("oforeach", r, "", func() string {
		var log []string
		ret := m.O(r).ForEach(func(k string, v any) { log = append(log, "k"+hx(k), m.tokVal(v)) })
		return m.tokVal(ret) + " | " + strings.Join(log, " ")
	})
}
func (m *Machine) OForEachValue(r string) string {
	return m.Op("oforeachvalue", r, "", func() string {
		var log []any
		ret := m.O(r).ForEachValue(func(v any) { log = append(log, v) })
		return m.tokVal(ret) + " | " + m.tokVals(log)
	})
}
func (m *Machine) OForEachK(r string, k byte) string {
	return m.Op("oforeachk", r, string(k), func() string {
		var log []any
		o := m.O(r)
		var ret at.Object
		switch k {
		case 'o':
			ret = o.ForEachObject(func(x at.Object) { log = append(log, x) })
		case 'l':
			ret = o.ForEachList(func(x at.List) { log = append(log, x) })
		case 's':
			ret = o.ForEachString(func(x string) { log = append(log, x) })
		case 'b':
			ret = o.ForEachBool(func(x bool) { log = append(log, x) })
		case 'i':
			ret = o.ForEachInt(func(x int) { log = append(log, x) })
		default:
			ret = o.ForEachFloat(func(x float64) { log = append(log, x) })
		}
		return m.tokVal(ret) + " | " + m.tokVals(log)
	})
}
func (m *Machine) OMap(r string, fn *Fn) string {
	var tok string
	m.Op("omap", r, fn.Token(), func() string {
		var log []string
		tok = m.reg(m.O(r).Map(func(k string, v any) any { log = append(log, "k"+hx(k), m.tokVal(v)); return fn.Apply(k, v) }))
		return tok + " | " + strings.Join(log, " ")
	})
	return tok
}
func (m *Machine) OMapValues(r string, fn *Fn) string {
	var tok string
	m.Op("omapvalues", r, fn.Token(), func() string {
		var log []any
		tok = m.reg(m.O(r).MapValues(func(v any) any { log = append(log, v); return fn.Apply(nil, v) }))
		return tok + " | " + m.tokVals(log)
	})
	return tok
}
func (m *Machine) OMapK(r string, k byte, fn *Fn) string {
	var tok string
	m.Op("omapk", r, string(k)+" "+fn.Token(), func() string {
		o := m.O(r)
		var res at.Object
		var log []any
		switch k {
		case 'o':
			res = o.MapObjects(func(x at.Object) any { log = append(log, x); return fn.Apply(nil, x) })
		case 'l':
			res = o.MapLists(func(x at.List) any { log = append(log, x); return fn.Apply(nil, x) })
		case 's':
			res = o.MapStrings(func(x string) any { log = append(log, x); return fn.Apply(nil, x) })
		case 'b':
			res = o.MapBools(func(x bool) any { log = append(log, x); return fn.Apply(nil, x) })
		case 'i':
			res = o.MapInts(func(x int) any { log = append(log, x); return fn.Apply(nil, x) })
		default:
			res = o.MapFloats(func(x float64) any { log = append(log, x); return fn.Apply(nil, x) })
		}
		tok = m.reg(res)
		return tok + " | " + m.tokVals(log)
	})
	return tok
}
func (m *Machine) OGetTF(r, tf string) string {
	return m.Op("ogettf", r, "s"+hx(tf), func() string { return m.tokVal(m.O(r).GetTF(tf)) })
}
func (m *Machine) OSetTF(r, tf string, g *GV) string {
	return m.Op("osettf", r, "s"+hx(tf)+" "+g.Token(), func() string { return m.tokVal(m.O(r).SetTF(tf, g.Go())) })
}
func (m *Machine) OUnsetTF(r, tf string) string {
	return m.Op("ounsettf", r, "s"+hx(tf), func() string { return m.tokVal(m.O(r).UnsetTF(tf)) })
}
func (m *Machine) OTypeOfTF(r, tf string) string {
	return m.Op("otypeoftf", r, "s"+hx(tf), func() string { return "k" + strconv.Itoa(int(m.O(r).TypeOfTF(tf))) })
}

// ---------------------------------------------------------------- parse results as live containers

// Parse parses a document and registers the resulting container (it is then used like any other).
func (m *Machine) Parse(root byte, doc string) string {
	var tok string
	name := "parselist"
	if root == 'O' {
		name = "parseobject"
	}
	m.Op(name, "-", "s"+hx(doc), func() string {
		if root == 'L' {
			l, err := at.ParseList(doc)
			if err != nil || l == nil {
				return "err"
			}
			tok = m.reg(l)
			return tok
		}
		o, err := at.ParseObject(doc)
		if err != nil || o == nil {
			return "err"
		}
		tok = m.reg(o)
		return tok
	})
	return tok
}

// ---------------------------------------------------------------- derived types (C19)

type DerivedList struct{ at.List }
type DerivedObject struct{ at.Object }

// Derive wraps the value named by tok (level k) into a new user type (level k+1) and registers it with Init.
func (m *Machine) Derive(tok string) string {
	var out string
	m.Op("derive", tok, "", func() string {
		v := m.resolve(tok)
		h := m.handles[v]
		var d any
		if h.isObj {
			x := &DerivedObject{Object: v.(at.Object)}
			x.Init(x)
			d = x
		} else {
			x := &DerivedList{List: v.(at.List)}
			x.Init(x)
			d = x
		}
		nh := hinfo{id: h.id, lvl: h.lvl + 1, isObj: h.isObj}
		m.handles[d] = nh
		m.byID[h.id].wraps[nh.lvl] = d
		out = refTok(nh)
		return out
	})
	return out
}
func (m *Machine) Ego(tok string) string {
	return m.Op("ego", tok, "", func() string {
		if m.IsObj(tok) {
			return m.tokVal(m.O(tok).Ego())
		}
		return m.tokVal(m.L(tok).Ego())
	})
}

// ---------------------------------------------------------------- callback families

// Fn is a member of the seeded family of map callbacks, interpreted identically by the Lean driver.
type Fn struct {
	Name  string
	Const *GV
}

func (f *Fn) Token() string {
	if f.Name == "const" {
		return "const " + f.Const.Token()
	}
	return f.Name
}

// Apply: idx is the index (int), the key (string) or nil for the variants without one.
func (f *Fn) Apply(idx any, v any) any {
	switch f.Name {
	case "id":
		return v
	case "const":
		return f.Const.Go()
	case "idx":
		if idx != nil {
			return idx
		}
		return v
	case "inc":
		switch x := v.(type) {
		case int:
			return x + 1
		case float64:
			return x + 1.0
		case string:
			return x + "!"
		case bool:
			return !x
		default:
			return v
		}
	case "tostr":
		switch x := v.(type) {
		case int:
			return strconv.Itoa(x)
		case string:
			return len(x)
		case bool:
			if x {
				return 1
			}
			return 0
		case nil:
			return "nil"
		default:
			return nil
		}
	case "wrap":
		return []any{v}
	case "narrow":
		if x, ok := v.(int); ok {
			return int8(x)
		}
		return v
	case "unsup":
		if x, ok := v.(int); ok && x%2 != 0 {
			return struct{}{}
		}
		return v
	}
	panic("unknown fn " + f.Name)
}

func pred(p string, v any) bool {
	switch p {
	case "all":
		return true
	case "none":
		return false
	case "par":
		switch x := v.(type) {
		case int:
			return x%2 == 0
		case string:
			return len(x)%2 == 0
		case float64:
			return x < 0
		case bool:
			return x
		case nil:
			return false
		default:
			return true
		}
	}
	panic("unknown pred " + p)
}

func codeOf(v any) int {
	switch x := v.(type) {
	case nil:
		return 1
	case bool:
		if x {
			return 3
		}
		return 2
	case int:
		return x
	case float64:
		if x != x {
			return 999
		}
		return int(math.Float64bits(x) % 1000)
	case string:
		return len(x) + 7
	case at.List:
		return 11
	case at.Object:
		return 13
	}
	return 0
}

// ---------------------------------------------------------------- async variants (sequential view)

func (m *Machine) ForEachAsync(r string) string {
	m.w.Flush() // the library starts goroutines: a panic inside one ends the process
	return m.Op("foreachasync", r, "", func() string {
		var mu sync.Mutex
		type call struct {
			i int
			v any
		}
		var calls []call
		ret := m.L(r).ForEachAsync(func(i int, v any) {
			mu.Lock()
			calls = append(calls, call{i, v})
			mu.Unlock()
		})
		sort.SliceStable(calls, func(a, b int) bool { return calls[a].i < calls[b].i })
		var log []string
		for _, c := range calls {
			log = append(log, itok(c.i), m.tokVal(c.v))
		}
		return m.tokVal(ret) + " | " + strings.Join(log, " ")
	})
}
func (m *Machine) MapAsync(r string, fn *Fn) string {
	m.w.Flush() // the library starts goroutines: a panic inside one ends the process
	var tok string
	m.Op("mapasync", r, fn.Token(), func() string {
		tok = m.reg(m.L(r).MapAsync(func(i int, v any) any { return fn.Apply(i, v) }))
		return tok
	})
	return tok
}
func (m *Machine) OForEachAsync(r string) string {
	m.w.Flush() // the library starts goroutines: a panic inside one ends the process
	return m.Op("oforeachasync", r, "", func() string {
		var mu sync.Mutex
		var log []string
		ret := m.O(r).ForEachAsync(func(k string, v any) {
			mu.Lock()
			log = append(log, "k"+hx(k), m.tokVal(v))
			mu.Unlock()
		})
		return m.tokVal(ret) + " | " + strings.Join(log, " ")
	})
}
func (m *Machine) OMapAsync(r string, fn *Fn) string {
	m.w.Flush() // the library starts goroutines: a panic inside one ends the process
	var tok string
	m.Op("omapasync", r, fn.Token(), func() string {
		tok = m.reg(m.O(r).MapAsync(func(k string, v any) any { return fn.Apply(k, v) }))
		return tok
	})
	return tok
}

// Alarm records a property violation the harness observed by itself.
func (m *Machine) Alarm(prop, msg string) {
	m.emit("fn\talarm\t" + prop + "\t" + strings.ReplaceAll(strings.ReplaceAll(msg, "\t", " "), "\n", " "))
}
