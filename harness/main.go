package main

// vharness <property> [-seed N] [-tier quick|thorough] [-out trace] [-stats stats.json]
//
// Drives the real library (github.com/DanielSvub/anytype => /repo) in-process and writes the
// trace the Lean driver re-executes on the model. All randomness derives from the seed.

import (
	"bufio"
	"flag"
	"fmt"
	"os"
	"strconv"
)

type Ctx struct {
	R     *Rng
	M     *Machine
	St    *Stats
	Tier  string
	Quick bool
	W     *bufio.Writer
}

// N picks the quick or the thorough size.
func (c *Ctx) N(quick, thorough int) int {
	if c.Quick {
		return quick
	}
	return thorough
}

var props = map[string]func(*Ctx){}

func main() {
	if len(os.Args) < 2 {
		fmt.Fprintln(os.Stderr, "usage: vharness <property> [-seed N] [-tier quick|thorough] [-out file] [-stats file]")
		os.Exit(2)
	}
	prop := os.Args[1]
	fs := flag.NewFlagSet("vharness", flag.ExitOnError)
	seed := fs.Uint64("seed", 1, "seed")
	tier := fs.String("tier", "quick", "quick|thorough")
	out := fs.String("out", "-", "trace output")
	stats := fs.String("stats", "", "stats output (json)")
	onlyCase := fs.Int("only-case", 0, "replay: write only the records of this case")
	onlyLine := fs.Int("only-line", 0, "replay: write only this record")
	fs.Parse(os.Args[2:])
	if s := os.Getenv("VERIF_SEED"); s != "" && !flagSet(fs, "seed") {
		if v, err := strconv.ParseUint(s, 10, 64); err == nil {
			*seed = v
		}
	}
	f := os.Stdout
	if *out != "-" {
		var err error
		f, err = os.Create(*out)
		if err != nil {
			fmt.Fprintln(os.Stderr, err)
			os.Exit(2)
		}
		defer f.Close()
	}
	w := bufio.NewWriterSize(f, 1<<20)
	defer w.Flush()
	st := NewStats()
	c := &Ctx{R: &Rng{s: *seed*0x9e3779b97f4a7c15 + 0x1234567}, St: st, Tier: *tier, Quick: *tier != "thorough", W: w}
	c.M = NewMachine(w, st)
	run, ok := props[prop]
	if !ok {
		fmt.Fprintln(os.Stderr, "unknown property", prop)
		os.Exit(2)
	}
	c.M.OnlyCase, c.M.OnlyLine = *onlyCase, *onlyLine
	runningProp = prop
	run(c)
	recheckHeld()
	c.M.flushHeldAlarms()
	w.Flush()
	if *stats != "" {
		st.Write(*stats)
	}
}

func flagSet(fs *flag.FlagSet, name string) bool {
	found := false
	fs.Visit(func(f *flag.Flag) {
		if f.Name == name {
			found = true
		}
	})
	return found
}
