package main

// Random and exhaustive programs over a heap of lists and objects (C05, C06, C08, C09, C17).

import (
	"math"
	"strconv"
	"strings"

	at "github.com/DanielSvub/anytype"
)

// reaches reports whether container `to` is reachable from `from` (both inclusive).
func reaches(from, to any) bool { return reachesIn(from, to, 0) }

// reachesIn: the walk is bounded — on a heap that has (through a defect of the library) become cyclic, or deeper than any
// program here builds, the answer is "reachable", i.e. never nest it; an unbounded walk would end the harness with a stack
// overflow, which cannot be recovered.
func reachesIn(from, to any, depth int) (res bool) {
	defer func() {
		if r := recover(); r != nil {
			res = true // a container that cannot even be walked: treat as reachable, i.e. never nest it
		}
	}()
	if from == to || depth > 4000 {
		return true
	}
	switch x := from.(type) {
	case at.List:
		for _, e := range x.Slice() {
			if reachesIn(e, to, depth+1) {
				return true
			}
		}
	case at.Object:
		for _, e := range x.Dict() {
			if reachesIn(e, to, depth+1) {
				return true
			}
		}
	}
	return false
}

type Prog struct {
	c     *Ctx
	lists []string
	objs  []string
	nops  int
}

func (p *Prog) anyList() string { return p.lists[p.c.R.Intn(len(p.lists))] }
func (p *Prog) anyObj() string  { return p.objs[p.c.R.Intn(len(p.objs))] }

func (p *Prog) track(tok string) {
	if tok == "" {
		return
	}
	if tok[0] == 'L' {
		p.lists = append(p.lists, tok)
	} else if tok[0] == 'O' {
		p.objs = append(p.objs, tok)
	}
}

// value picks an argument: mostly scalars, sometimes an existing container that keeps the heap
// acyclic when stored into `into`, rarely a native slice/map, very rarely an unsupported value.
func (p *Prog) value(into string) *GV {
	r := p.c.R
	switch x := r.Intn(20); {
	case x < 11:
		return r.ScalarGV()
	case x < 16:
		var cand []string
		cand = append(cand, p.lists...)
		cand = append(cand, p.objs...)
		if len(cand) > 0 {
			t := cand[r.Intn(len(cand))]
			if into == "" || !reaches(p.c.M.resolve(t), p.c.M.resolve(into)) {
				return p.c.M.RefGV(t)
			}
		}
		return r.ScalarGV()
	case x < 18:
		return gvOfTree(r.Container(&TreeOpts{MaxDepth: 2, MaxWidth: 3}, "[{"[r.Intn(2)]))
	case x < 19:
		return r.WidthGV()
	default:
		return gvUnsupported(r.Intn(len(unsupportedValues)))
	}
}

// idx picks an index biased to the boundaries of a list of length n.
func (p *Prog) idx(n int) int {
	r := p.c.R
	switch r.Intn(10) {
	case 0:
		return -1
	case 1:
		return n
	case 2:
		return n + 1
	case 3:
		return n - 1
	case 4:
		return 0
	case 5:
		return -n
	case 6:
		if r.Bool() {
			return math.MaxInt64
		}
		return math.MinInt64
	default:
		if n == 0 {
			return 0
		}
		return r.Intn(n)
	}
}

func sortable(l at.List) (res bool) {
	defer func() {
		if r := recover(); r != nil {
			res = false
		}
	}()
	if l.Count() == 0 {
		return false
	}
	if l.AllStrings() || l.AllInts() {
		return true
	}
	if l.AllFloats() {
		for _, f := range l.FloatSlice() {
			if f != f {
				return false
			}
		}
		return true
	}
	return false
}

// ListStep performs one random list operation.
func (p *Prog) ListStep() {
	c, r, m := p.c, p.c.R, p.c.M
	if len(p.lists) == 0 {
		p.track(m.NewList())
		return
	}
	l := p.anyList()
	n := m.L(l).Count()
	p.nops++
	switch x := r.Intn(100); {
	case x < 5:
		k := r.Intn(4)
		gs := make([]*GV, k)
		for i := range gs {
			gs[i] = p.value("")
		}
		p.track(m.NewList(gs...))
	case x < 7:
		p.track(m.NewListOf(p.value(""), r.Intn(5)))
	case x < 9:
		t := r.Container(&TreeOpts{MaxDepth: 2, MaxWidth: 4}, '[')
		p.track(m.NewListFrom(gvOfTree(t)))
	case x < 24:
		k := 1 + r.Intn(3)
		gs := make([]*GV, k)
		for i := range gs {
			gs[i] = p.value(l)
		}
		m.Add(l, gs...)
	case x < 34:
		m.Insert(l, p.idx(n), p.value(l))
	case x < 42:
		m.Replace(l, p.idx(n), p.value(l))
	case x < 50:
		// distinct indexes, mostly valid
		k := 1 + r.Intn(3)
		seen := map[int]bool{}
		var idx []int
		for i := 0; i < k; i++ {
			v := p.idx(n)
			if !seen[v] {
				seen[v] = true
				idx = append(idx, v)
			}
		}
		m.Delete(l, idx...)
	case x < 56:
		m.Pop(l)
	case x < 58:
		m.Clear(l)
	case x < 62:
		m.Reverse(l)
	case x < 66:
		if sortable(m.L(l)) || r.Chance(15) {
			m.Sort(l)
		} else {
			m.Reverse(l)
		}
	case x < 71:
		p.track(m.SubList(l, p.idx(n), p.idx(n)))
	case x < 76:
		p.track(m.Concat(l, p.anyList()))
	case x < 80:
		m.Get(l, p.idx(n))
	case x < 83:
		m.GetK(l, "olsbif"[r.Intn(6)], p.idx(n))
	case x < 86:
		m.TypeOf(l, p.idx(n))
	case x < 88:
		m.Count(l)
		m.Empty(l)
	case x < 90:
		m.Slice(l)
	case x < 94:
		g := p.value("")
		if g.K == '(' || g.K == '<' || g.K == 'X' || g.K == 'w' || g.K == 'g' {
			g = r.ScalarGV()
		}
		if n > 0 && r.Bool() {
			// an element that is present
			v := m.L(l).Get(r.Intn(n))
			g = gvOfValue(m, v)
		}
		if r.Bool() {
			m.Contains(l, g)
		} else {
			m.IndexOf(l, g)
		}
	case x < 97:
		p.track(m.Clone(l))
	default:
		m.Equals(l, p.anyList())
	}
	_ = c
}

// gvOfValue turns a value returned by the library into an argument.
func gvOfValue(m *Machine, v any) *GV {
	switch x := v.(type) {
	case nil:
		return gvNil()
	case bool:
		return gvBool(x)
	case int:
		return gvInt(x)
	case float64:
		return gvFloat(x)
	case string:
		return gvStr(x)
	default:
		return m.RefGV(m.tokVal(v))
	}
}

// WidthGV is an integer of a non-canonical width or a float32.
func (r *Rng) WidthGV() *GV {
	ws := []string{"i8", "i16", "i32", "i64", "u", "u8", "u16", "u32", "u64"}
	w := ws[r.Intn(len(ws))]
	if r.Intn(8) == 0 {
		return &GV{K: 'g', F32: math.Float32frombits(uint32(r.Next()))}
	}
	g := &GV{K: 'w', W: w}
	bitsOf := map[string]uint{"i8": 8, "i16": 16, "i32": 32, "i64": 64, "u": 64, "u8": 8, "u16": 16, "u32": 32, "u64": 64}
	b := bitsOf[w]
	if w[0] == 'u' {
		var max uint64 = math.MaxUint64
		if b < 64 {
			max = 1<<b - 1
		}
		switch r.Intn(5) {
		case 0:
			g.U = 0
		case 1:
			g.U = max
		case 2:
			g.U = max/2 + 1
		case 3:
			g.U = max / 2
		default:
			g.U = r.Next() & max
		}
		if b == 64 && r.Bool() {
			g.U &= math.MaxInt64 // C12 speaks of values up to MaxInt
		}
	} else {
		lo := -(int64(1) << (b - 1))
		hi := int64(1)<<(b-1) - 1
		switch r.Intn(5) {
		case 0:
			g.I = int(lo)
		case 1:
			g.I = int(hi)
		case 2:
			g.I = -1
		case 3:
			g.I = 0
		default:
			if b == 64 {
				g.I = int(r.Next())
			} else {
				g.I = int(lo + int64(r.Next()%uint64(hi-lo)))
			}
		}
	}
	return g
}

func tokensOf(vs []int) string {
	parts := make([]string, len(vs))
	for i, v := range vs {
		parts[i] = strconv.Itoa(v)
	}
	return strings.Join(parts, ",")
}
