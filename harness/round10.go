package main

// Strata added after round 10 of the seeded changes (first pass: two missed, fourteen reported only through a broken
// obligation). Each is aimed at one class of change; all are heap-machine cases (the model is the specification).

import (
	"fmt"
	"reflect"
	"strconv"

	at "github.com/DanielSvub/anytype"
)

// nestedClear (C06, C19): Clear on an object / list that is held by a parent. The identity of the cleared container
// (what the parent holds, what Contains / KeyOf / IndexOf find, what a later Set on either handle shows) must survive —
// a Clear that re-creates the receiver from a fresh container also replaces its registration.
func (c *Ctx) nestedClear() {
	m := c.M
	for rep := 0; rep < 2; rep++ {
		m.Case("nested-clear")
		child := m.NewObject(gvStr("a"), gvInt(1))
		parent := m.NewObject(gvStr("k"), m.RefGV(child), gvStr("n"), gvInt(2))
		lparent := m.NewList(m.RefGV(child), gvInt(5))
		clist := m.NewList(gvInt(1), gvInt(2))
		m.OSet(parent, gvStr("l"), m.RefGV(clist))
		for i := 0; i <= rep; i++ {
			m.OClear(child)
			m.Clear(clist)
		}
		m.OContains(parent, m.RefGV(child))
		m.KeyOf(parent, m.RefGV(child))
		m.KeyOf(parent, m.RefGV(clist))
		m.IndexOf(lparent, m.RefGV(child))
		m.Contains(lparent, m.RefGV(child))
		m.OSet(child, gvStr("z"), gvInt(9))
		m.Add(clist, gvInt(7))
		m.OGetK(parent, 'o', "k")
		m.OGetK(parent, 'l', "l")
		m.OGetTF(parent, ".k.z")
		m.OGetTF(parent, ".l#0")
		m.GetTF(lparent, "#0.z")
		m.OUnset(child, "z")
		m.OTypeOfTF(parent, ".k.z")
		m.OEquals(parent, parent)
		c.St.Eval("nested-clear:"+strconv.Itoa(rep), true)
	}
}

// sigilKeys (C06): Unset / Get / TypeOf / KeyExists / Pluck with a key that is the tree-form spelling of an existing key or
// path (".a", "#0", ".n.b"): the plain-key methods take their argument literally.
func (c *Ctx) sigilKeys() {
	m := c.M
	m.Case("sigil-keys")
	inner := m.NewObject(gvStr("b"), gvInt(2))
	tags := m.NewList(gvStr("t0"), gvStr("t1"))
	o := m.NewObject(gvStr("a"), gvInt(1), gvStr("n"), m.RefGV(inner), gvStr("tags"), m.RefGV(tags), gvStr("0"), gvStr("zero"))
	for _, k := range []string{".a", "#a", ".n.b", ".tags#0", "#0", ".0", ".n", "..a", "a.", ".tags", ".zzz"} {
		m.OKeyExists(o, k)
		m.OTypeOf(o, k)
		m.OUnset(o, k) // a missing key: nothing happens, here or below
		m.OCount(o)
		m.OGet(o, "a")
	}
	m.OUnset(o, ".n.b", "a", ".a")
	m.OSet(o, gvStr(".a"), gvInt(5), gvStr("a"), gvInt(6))
	m.OUnset(o, ".a")
	m.OGet(o, "a")
	m.OUnset(o, "#0", ".tags#0")
	m.Pluck(o, "a", "tags")
	m.Pluck(o, "a", ".n.b")
	c.St.Eval("sigil-keys", true)
}

// deepCloneBottom (C08): a chain nested d deep, cloned; then the container at the very bottom is changed on one side. Nothing
// at any depth is shared between a clone and its source, also below any depth at which an implementation might stop copying.
func (c *Ctx) deepCloneBottom() {
	m := c.M
	for _, d := range []int{3, 64, 254, 255, 256, 257, 300, c.N(520, 1100)} {
		for _, objs := range []bool{false, true} {
			m.Case("deep-clone-bottom")
			t := list1(tInt(1))
			path := ""
			for i := 0; i < d; i++ {
				if objs && i%2 == 0 {
					t = obj1("k", t)
					path = ".k" + path
				} else {
					t = list1(t)
					path = "#0" + path
				}
			}
			t = list1(t) // a list root in every case
			path = "#0" + path
			src := m.NewListFrom(gvOfTree(t))
			cl := m.Clone(src)
			for side, root := range []string{src, cl} {
				got := m.GetTF(root, path) // the container at the very bottom
				if len(got) < 4 || got[3] != 'L' {
					continue
				}
				bottom := got[3:]
				m.Add(bottom, gvInt(2+side))
				m.Equals(src, cl)
				m.Equals(cl, src)
				m.GetTF(src, path+"#1")
				m.GetTF(cl, path+"#1")
				m.TypeOfTF(cl, path+"#2")
			}
			c.St.Eval("deep-clone-bottom:"+strconv.Itoa(d), true)
		}
	}
}

// padDerived (C11): the padding of a tree-form write behind the end, on lists that came from another operation (clone,
// sublist, concat, filter, map, parse, a list emptied or shrunk before): the gap reads nil, element by element, whatever the
// list's origin and whatever its spare capacity still holds.
func (c *Ctx) padDerived() {
	m := c.M
	ways := []string{"clone", "sublist", "concat", "filter", "map", "parsed", "shrunk-unset", "shrunk-pop", "shrunk-delete", "cleared", "nested-clone", "newlistof"}
	for _, way := range ways {
		for _, gap := range []int{1, 2, 5} {
			m.Case("pad-derived")
			src := m.NewList(gvInt(1), gvInt(2), gvInt(3), gvInt(4), gvInt(5))
			l := src
			switch way {
			case "clone":
				l = m.Clone(src)
			case "sublist":
				l = m.SubList(src, 1, 3)
			case "concat":
				l = m.Concat(src, m.NewList(gvInt(6)))
			case "filter":
				l = m.Filter(src, "par")
			case "map":
				l = m.Map(src, &Fn{Name: "id"})
			case "parsed":
				l = m.Parse('L', "[1,2,3]")
			case "shrunk-unset":
				m.UnsetTF(src, "#0")
				m.UnsetTF(src, "#0")
			case "shrunk-pop":
				m.Pop(src)
				m.Pop(src)
				m.Pop(src)
			case "shrunk-delete":
				m.Delete(src, 1, 3)
			case "cleared":
				m.Clear(src)
			case "nested-clone":
				holder := m.NewObject(gvStr("l"), m.RefGV(src))
				hc := m.OClone(holder)
				got := m.OGet(hc, "l")
				if len(got) > 3 {
					l = got[3:]
				}
			case "newlistof":
				l = m.NewListOf(gvInt(7), 3)
			}
			if l == "" || (l[0] != 'L') {
				continue
			}
			n := m.L(l).Count()
			m.SetTF(l, "#"+strconv.Itoa(n+gap), gvInt(9))
			for i := n; i <= n+gap; i++ {
				m.TypeOf(l, i)
				m.Get(l, i)
				m.TypeOfTF(l, "#"+strconv.Itoa(i))
			}
			m.String(l)
			m.Equals(l, l)
			m.SetTF(l, "#"+strconv.Itoa(n+gap+2)+"#1", gvStr("deep")) // padding, then a new nested list, padded too
			m.String(l)
			m.Slice(src)
			c.St.Eval("pad-derived:"+way+":"+strconv.Itoa(gap), true)
		}
	}
}

// derivedShrinkLarge (C19): a derived list grown far past any small-size threshold and shrunk to a few elements by every
// removing method; every fluent call on the way must hand back the derived value, and so must the calls after it.
func (c *Ctx) derivedShrinkLarge() {
	m := c.M
	for _, remover := range []string{"pop", "delete-last", "delete-0", "delete-multi", "unsettf"} {
		for _, peak := range []int{70, 200, c.N(300, 1100)} {
			m.Case("derived-shrink-large")
			raw := m.NewList()
			d := m.Derive(raw)
			for i := 0; i < peak; i++ {
				m.Add(d, gvInt(i))
			}
			for m.L(d).Count() > 2 {
				n := m.L(d).Count()
				switch remover {
				case "pop":
					m.Pop(d)
				case "delete-last":
					m.Delete(d, n-1)
				case "delete-0":
					m.Delete(d, 0)
				case "delete-multi":
					if n >= 4 {
						m.Delete(d, 0, n/2, n-1)
					} else {
						m.Delete(d, 0)
					}
				case "unsettf":
					m.UnsetTF(d, "#"+strconv.Itoa(n-1))
				}
				if n%16 == 0 {
					m.Ego(d)
				}
			}
			m.Ego(d)
			m.Add(d, gvInt(1))
			m.Reverse(d)
			m.Insert(d, 0, gvInt(2))
			m.SetTF(d, "#0", gvInt(3))
			m.Sort(d)
			m.Ego(raw)
			c.St.Eval("derived-shrink-large:"+remover+":"+strconv.Itoa(peak), true)
		}
	}
}

// indexSpellings (C10, C11, C19): every spelling of an index that the four tree-form methods accept — they all read it the
// same way, on plain and on derived lists (a write through "#010" is read back through "#010", "#8" and "#0o10").
func (c *Ctx) indexSpellings(prop string) {
	m := c.M
	spell := []string{"010", "0x2", "0X2", "0b11", "0o7", "1_0", "0_1", "+1", "-0", "00", "0x0A", "08", "0b2", "1__0", "_1", "1_", "0x", "١"}
	for _, derived := range []bool{false, true} {
		m.Case("index-spellings")
		gs := make([]*GV, 12)
		for i := range gs {
			gs[i] = gvInt(100 + i)
		}
		raw := m.NewList(gs...)
		l := raw
		if derived {
			l = m.Derive(raw)
		}
		holder := m.NewObject(gvStr("l"), m.RefGV(l))
		for _, s := range spell {
			m.TypeOfTF(l, "#"+s)
			m.GetTF(l, "#"+s)
			m.SetTF(l, "#"+s, gvStr("w"+s))
			m.GetTF(l, "#"+s)
			m.Slice(raw)
			m.OSetTF(holder, ".l#"+s, gvStr("h"+s))
			m.OGetTF(holder, ".l#"+s)
			m.OTypeOfTF(holder, ".l#"+s)
		}
		for _, s := range spell {
			m.UnsetTF(l, "#"+s)
			m.Count(l)
		}
		m.Ego(l)
		c.St.Eval("index-spellings:"+prop, true)
	}
}

// nonASCIIKeysDerived (C19, C11): tree-form writes, reads and unsets through keys with multi-byte characters in a
// non-final position, on plain and derived objects (a separator found by character index is not a byte offset).
func (c *Ctx) nonASCIIKeysDerived() {
	m := c.M
	for _, derived := range []bool{false, true} {
		m.Case("non-ascii-keys")
		raw := m.NewObject(gvStr("größe"), m.RefGV(m.NewObject(gvStr("value"), gvInt(1))), gvStr("é"), m.RefGV(m.NewList(gvInt(1), gvInt(2))), gvStr("日本"), m.RefGV(m.NewObject()))
		o := raw
		if derived {
			o = m.Derive(raw)
		}
		for _, p := range []string{".größe.value", ".é#1", ".日本.語", ".größe.neu.tief", ".ü.x", ".é#3", ".😀.k#0"} {
			m.OTypeOfTF(o, p)
			m.OSetTF(o, p, gvInt(7))
			m.OGetTF(o, p)
			m.OTypeOfTF(o, p)
			m.Keys(raw)
		}
		for _, p := range []string{".größe.value", ".é#0", ".ü.x", ".日本"} {
			m.OUnsetTF(o, p)
			m.OTypeOfTF(o, p)
		}
		m.Ego(o)
		lraw := m.NewList(m.RefGV(o))
		m.SetTF(lraw, "#0.größe.w", gvInt(8))
		m.GetTF(lraw, "#0.größe.w")
		c.St.Eval("non-ascii-keys", true)
	}
}

// nativeRowsGrow (C13, implementation-side): the nested slices of one export are independent of one another, not only of the
// container — growing one row of a NativeSlice / NativeDict result (append) must not show in its neighbours (rows cut out of
// one shared array without a capacity limit look right until one of them grows).
func (c *Ctx) nativeRowsGrow() {
	m := c.M
	m.Case("native-rows-grow")
	builds := map[string]func() at.List{
		"2 rows":        func() at.List { return at.NewList(at.NewList(1, 2), at.NewList(3, "b")) },
		"3 rows":        func() at.List { return at.NewList(at.NewList(1, 2), at.NewList(3, "b"), at.NewList(true)) },
		"empty first":   func() at.List { return at.NewList(at.NewList(), at.NewList(1), at.NewList(2, 3)) },
		"rows + scalar": func() at.List { return at.NewList(at.NewList(1.5), 7, at.NewList("x", nil)) },
		"5 rows": func() at.List {
			return at.NewListOf(nil, 0).Add(at.NewList(1), at.NewList(2), at.NewList(3), at.NewList(4), at.NewList(5))
		},
		"nested rows": func() at.List { return at.NewList(at.NewList(at.NewList(1), at.NewList(2)), at.NewList(at.NewList(3))) },
	}
	for name, build := range builds {
		l := build()
		ref := l.NativeSlice()
		exp := l.NativeSlice()
		var grow func(rows []any, refRows []any, where string)
		grow = func(rows []any, refRows []any, where string) {
			for i := range rows {
				row, ok := rows[i].([]any)
				if !ok {
					continue
				}
				rows[i] = append(row, "grown")
				for j := range rows {
					if j == i {
						continue
					}
					want := refRows[j]
					if rj, ok := rows[j].([]any); ok && j < i {
						want = append(append([]any{}, refRows[j].([]any)...), "grown")
						_ = rj
					}
					if !reflect.DeepEqual(rows[j], want) {
						m.Alarm("C13", fmt.Sprintf("NativeSlice of %s (%s): after append to row %d%s, row %d reads %v, want %v", name, treeOf(l).Token(), i, where, j, rows[j], want))
						return
					}
				}
			}
		}
		grow(exp, ref, "")
		// one level down, on a fresh export: the rows inside row 0
		if exp2 := l.NativeSlice(); len(exp2) > 0 {
			if in0, ok := exp2[0].([]any); ok {
				if ref0, ok := ref[0].([]any); ok {
					grow(in0, ref0, " (inside row 0)")
				}
			}
		}
		if !reflect.DeepEqual(l.NativeSlice(), ref) {
			m.Alarm("C13", "growing the rows of an export changed what the list exports: "+name)
		}
		// the same rows as the values of an object
		o := at.NewObject("a", build(), "b", build())
		d1, d2 := o.NativeDict(), o.NativeDict()
		a := d1["a"].([]any)
		d1["a"] = append(a, "grown")
		if !reflect.DeepEqual(d1["b"], d2["b"]) {
			m.Alarm("C13", "NativeDict: growing the value of one key changed the value of another: "+name)
		}
		c.St.Eval("native-rows-grow:"+name, true)
	}
}

// writeClearWrite (C11): a tree-form write, then the container (or the child the write went through) is emptied, replaced or
// unset by another method, then a second write through the same first segment: it lands in the tree that is there now.
func (c *Ctx) writeClearWrite() {
	m := c.M
	for _, between := range []string{"clear", "unset", "set-other", "set-scalar", "unsettf", "child-clear", "clear-twice"} {
		m.Case("write-clear-write")
		o := m.NewObject(gvStr("keep"), gvInt(1))
		m.OSetTF(o, ".cfg.a", gvInt(1))
		m.OSetTF(o, ".rows#0.x", gvInt(2))
		child := m.OGet(o, "cfg")
		switch between {
		case "clear":
			m.OClear(o)
		case "clear-twice":
			m.OClear(o)
			m.OSetTF(o, ".cfg.z", gvInt(0))
			m.OClear(o)
		case "unset":
			m.OUnset(o, "cfg", "rows")
		case "set-other":
			m.OSet(o, gvStr("cfg"), m.RefGV(m.NewObject(gvStr("fresh"), gvBool(true))), gvStr("rows"), m.RefGV(m.NewList()))
		case "set-scalar":
			m.OSet(o, gvStr("cfg"), gvInt(5), gvStr("rows"), gvStr("s"))
		case "unsettf":
			m.OUnsetTF(o, ".cfg")
			m.OUnsetTF(o, ".rows")
		case "child-clear":
			if len(child) > 3 && child[3] == 'O' {
				m.OClear(child[3:])
			}
		}
		m.OSetTF(o, ".cfg.b", gvInt(3))
		m.OSetTF(o, ".rows#0.y", gvInt(4))
		m.OGetTF(o, ".cfg.b")
		m.OTypeOfTF(o, ".cfg.a")
		m.OGetTF(o, ".rows#0.y")
		m.OTypeOfTF(o, ".rows#0.x")
		m.OString(o)
		// the same on a list root
		l := m.NewList()
		m.SetTF(l, "#0.a", gvInt(1))
		m.SetTF(l, "#1#0", gvInt(2))
		switch between {
		case "clear", "clear-twice":
			m.Clear(l)
		case "unset", "unsettf":
			m.UnsetTF(l, "#0")
			m.UnsetTF(l, "#0")
		case "set-other":
			m.Replace(l, 0, m.RefGV(m.NewObject()))
			m.Replace(l, 1, m.RefGV(m.NewList()))
		case "set-scalar":
			m.Replace(l, 0, gvInt(5))
		}
		m.SetTF(l, "#0.b", gvInt(3))
		m.SetTF(l, "#1#1", gvInt(4))
		m.GetTF(l, "#0.b")
		m.TypeOfTF(l, "#0.a")
		m.String(l)
		c.St.Eval("write-clear-write:"+between, true)
	}
}
