package main

// Stratum "slices" (C05, C09): the storage of lists, observed through the guarded hook
// anytype.VerifListStorage (build tag verif): backing array, length and capacity of every live list
// after every operation.  The Lean driver re-executes the same operations on the slice-level model
// (lean/Anytype/Model/Slices.lean: arrays, capacities, append in place or into a new array) and compares
// contents, lengths, capacities and the "lives in the same array" relation.  Go's growth policy is not
// modelled: when an append reallocates, the driver adopts the observed new capacity (the theorems hold
// for every growth policy), and checks that it suffices.
//
// Record:  sl <TAB> <op and arguments> <TAB> ok|made|panic <TAB> cell;cell;…   cell = <array id or ->:<len>:<cap>:<v,v,…>
// Elements are ints.  Cells are numbered in creation order on both sides.

import (
	"fmt"
	"sort"
	"strconv"
	"strings"
	"unsafe"

	at "github.com/DanielSvub/anytype"
)

type slState struct {
	lists []at.List
	arrID map[unsafe.Pointer]int // the pointers are kept, so no array is collected and its address reused within a case
}

func (s *slState) snapshot() string {
	var b strings.Builder
	for k, l := range s.lists {
		if k > 0 {
			b.WriteByte(';')
		}
		p, n, c := at.VerifListStorage(l)
		id := "-"
		if c > 0 {
			v, ok := s.arrID[p]
			if !ok {
				v = len(s.arrID) + 1
				s.arrID[p] = v
			}
			id = strconv.Itoa(v)
		}
		fmt.Fprintf(&b, "%s:%d:%d:", id, n, c)
		for i := 0; i < n; i++ {
			if i > 0 {
				b.WriteByte(',')
			}
			v := l.Get(i)
			if v == nil {
				b.WriteString("n") // a nil element (padding of a tree-form write behind the end)
				continue
			}
			x, ok := v.(int)
			if !ok {
				b.WriteString("?")
				continue
			}
			b.WriteString(strconv.Itoa(x))
		}
	}
	return b.String()
}

func ints(xs []int) string {
	ss := make([]string, len(xs))
	for i, x := range xs {
		ss[i] = strconv.Itoa(x)
	}
	return strings.Join(ss, ",")
}

func anys(xs []int) []any {
	r := make([]any, len(xs))
	for i, x := range xs {
		r[i] = x
	}
	return r
}

// slDo runs one operation (recovering a panic), registers a created list, and writes the record.
func (c *Ctx) slDo(s *slState, text string, f func() at.List) {
	outcome := "ok"
	var made at.List
	func() {
		defer func() {
			if r := recover(); r != nil {
				outcome = "panic"
			}
		}()
		made = f()
	}()
	if outcome == "ok" && made != nil {
		outcome = "made"
		s.lists = append(s.lists, made)
	}
	c.M.emit("sl\t" + text + "\t" + outcome + "\t" + s.snapshot())
	name := text
	if i := strings.IndexByte(name, ' '); i >= 0 {
		name = name[:i]
	}
	c.St.Op("sl."+name, outcome)
}

// slStep performs one random operation; the choice is biased to what changes storage decisions:
// appends at the capacity boundary, deletions that leave spare capacity, derivations from lists with spare capacity.
func (c *Ctx) slStep(s *slState) string {
	r := c.R
	if len(s.lists) == 0 || r.Chance(8) {
		switch r.Intn(3) {
		case 0:
			vs := c.slVals(r.Intn(5))
			c.slDo(s, "newList "+ints(vs), func() at.List { return at.NewList(anys(vs)...) })
			return "newList"
		case 1:
			v, n := r.Intn(9), r.Intn(6)
			c.slDo(s, fmt.Sprintf("newListOf %d %d", v, n), func() at.List { return at.NewListOf(v, n) })
			return "newListOf"
		default:
			vs := c.slVals(r.Intn(6))
			c.slDo(s, "newListFrom "+ints(vs), func() at.List { return at.NewListFrom(vs) })
			return "newListFrom"
		}
	}
	k := r.Intn(len(s.lists))
	l := s.lists[k]
	n := l.Count()
	idx := func(extra int) int { // an index in 0 … n-1+extra, biased to the ends
		m := n + extra
		if m <= 0 {
			return 0
		}
		switch r.Intn(4) {
		case 0:
			return 0
		case 1:
			return m - 1
		default:
			return r.Intn(m)
		}
	}
	switch r.Intn(16) {
	case 14:
		// a tree-form write: in place, at the end, or behind the end (padding with nil through Add)
		i, v := idx(4), r.Intn(90)+10
		c.slDo(s, fmt.Sprintf("settf %d %d %d", k, i, v), func() at.List { l.SetTF("#"+strconv.Itoa(i), v); return nil })
		return "settf"
	case 15:
		i := idx(1)
		c.slDo(s, fmt.Sprintf("unsettf %d %d", k, i), func() at.List { l.UnsetTF("#" + strconv.Itoa(i)); return nil })
		return "unsettf"
	case 0, 1, 2:
		vs := c.slVals(1 + r.Intn(3))
		c.slDo(s, fmt.Sprintf("add %d %s", k, ints(vs)), func() at.List { l.Add(anys(vs)...); return nil })
		return "add"
	case 3, 4:
		i, v := idx(2), r.Intn(90)+10
		c.slDo(s, fmt.Sprintf("insert %d %d %d", k, i, v), func() at.List { l.Insert(i, v); return nil })
		return "insert"
	case 5:
		i, v := idx(1), r.Intn(90)+10
		c.slDo(s, fmt.Sprintf("replace %d %d %d", k, i, v), func() at.List { l.Replace(i, v); return nil })
		return "replace"
	case 6, 7:
		m := 1 + r.Intn(3)
		is := make([]int, 0, m)
		seen := map[int]bool{}
		for j := 0; j < m; j++ {
			i := idx(1)
			if !seen[i] {
				seen[i] = true
				is = append(is, i)
			}
		}
		shown := append([]int(nil), is...)
		c.slDo(s, fmt.Sprintf("delete %d %s", k, ints(shown)), func() at.List { l.Delete(is...); return nil })
		return "delete"
	case 8:
		c.slDo(s, fmt.Sprintf("pop %d", k), func() at.List { l.Pop(); return nil })
		return "pop"
	case 9:
		if r.Chance(30) {
			c.slDo(s, fmt.Sprintf("clear %d", k), func() at.List { l.Clear(); return nil })
			return "clear"
		}
		c.slDo(s, fmt.Sprintf("reverse %d", k), func() at.List { l.Reverse(); return nil })
		return "reverse"
	case 10:
		d := r.Intn(len(s.lists))
		o := s.lists[d]
		c.slDo(s, fmt.Sprintf("concat %d %d", k, d), func() at.List { return l.Concat(o) })
		return "concat"
	case 11:
		a, b := idx(1), 1+idx(1)
		switch r.Intn(6) {
		case 0, 1, 2:
			if n > 0 {
				a, b = 0, n // the whole range
			}
		case 3:
			b = -r.Intn(n + 2) // an end counted from the end of the list (0 is the end itself; below -Count: panic)
		case 4:
			a = -1 - r.Intn(2) // a negative start: panic
		}
		c.slDo(s, fmt.Sprintf("subList %d %d %d", k, a, b), func() at.List { return l.SubList(a, b) })
		return "subList"
	case 12:
		for i := 0; i < n; i++ {
			if l.Get(i) == nil { // Sort dispatches on the kind of element 0 and drops the others: lists with padding are left to C17
				c.slDo(s, fmt.Sprintf("reverse %d", k), func() at.List { l.Reverse(); return nil })
				return "reverse"
			}
		}
		c.slDo(s, fmt.Sprintf("sort %d", k), func() at.List { l.Sort(); return nil })
		return "sort"
	default:
		c.slDo(s, fmt.Sprintf("clone %d", k), func() at.List { return l.Clone() })
		return "clone"
	}
}

func (c *Ctx) slVals(n int) []int {
	vs := make([]int, n)
	for i := range vs {
		vs[i] = c.R.Intn(9)
	}
	return vs
}

// slicesStratum: (1) the history of defect F5 and its relatives, spelled out; (2) every deriving operation on lists
// at every (length, spare capacity) combination reachable by growing and popping, followed by writes on both sides;
// (3) random programs.
func (c *Ctx) slicesStratum() {
	r := c.R
	// (1) and (2): grow to g, pop p, derive, then mutate the receiver and the result in turn
	maxG := c.N(9, 18)
	for g := 0; g <= maxG; g++ {
		for p := 0; p <= g && p <= 3; p++ {
			for d := 0; d < 6; d++ {
				c.M.Case("slices")
				s := &slState{arrID: map[unsafe.Pointer]int{}}
				c.slDo(s, "newList ", func() at.List { return at.NewList() })
				l := s.lists[0]
				for i := 0; i < g; i++ {
					v := i + 1
					c.slDo(s, fmt.Sprintf("add 0 %d", v), func() at.List { l.Add(v); return nil })
				}
				for i := 0; i < p; i++ {
					c.slDo(s, "pop 0", func() at.List { l.Pop(); return nil })
				}
				c.slDo(s, "newList 70", func() at.List { return at.NewList(70) })
				o := s.lists[1]
				n := l.Count()
				switch d {
				case 0:
					c.slDo(s, "concat 0 1", func() at.List { return l.Concat(o) })
				case 1:
					c.slDo(s, "concat 0 0", func() at.List { return l.Concat(l) })
				case 2:
					c.slDo(s, "newList ", func() at.List { return at.NewList() })
					e := s.lists[2]
					c.slDo(s, "concat 0 2", func() at.List { return l.Concat(e) })
				case 3:
					c.slDo(s, fmt.Sprintf("subList 0 0 %d", n), func() at.List { return l.SubList(0, n) })
				case 4:
					c.slDo(s, "clone 0", func() at.List { return l.Clone() })
				case 5:
					c.slDo(s, fmt.Sprintf("subList 0 %d %d", n/2, n), func() at.List { return l.SubList(n/2, n) })
				}
				if len(s.lists) < 3 {
					c.St.Eval(fmt.Sprintf("sl:%d:%d:%d:panic", g, p, d), false)
					continue
				}
				res := s.lists[len(s.lists)-1]
				last := len(s.lists) - 1
				c.slDo(s, "add 0 91", func() at.List { l.Add(91); return nil })
				c.slDo(s, fmt.Sprintf("add %d 92", last), func() at.List { res.Add(92); return nil })
				if res.Count() > 0 {
					c.slDo(s, fmt.Sprintf("replace %d 0 93", last), func() at.List { res.Replace(0, 93); return nil })
				}
				if l.Count() > 0 {
					c.slDo(s, "replace 0 0 94", func() at.List { l.Replace(0, 94); return nil })
					c.slDo(s, "insert 0 0 95", func() at.List { l.Insert(0, 95); return nil })
					c.slDo(s, "delete 0 0", func() at.List { l.Delete(0); return nil })
				}
				c.slDo(s, fmt.Sprintf("reverse %d", last), func() at.List { res.Reverse(); return nil })
				// stale elements behind the length (left by Pop / Delete) never come back as padding
				if n0 := l.Count(); true {
					c.slDo(s, fmt.Sprintf("settf 0 %d 96", n0+2), func() at.List { l.SetTF("#"+strconv.Itoa(n0+2), 96); return nil })
					c.slDo(s, fmt.Sprintf("unsettf 0 %d", n0), func() at.List { l.UnsetTF("#" + strconv.Itoa(n0)); return nil })
				}
				c.St.Eval(fmt.Sprintf("sl:%d:%d:%d", g, p, d), true)
			}
		}
	}
	c.St.Exhaustive = append(c.St.Exhaustive, fmt.Sprintf("slices: every (grown to g<=%d, popped p<=3) x 6 derivations, then writes on both sides", maxG))
	// (3) random programs
	cases := c.N(250, 2500)
	for i := 0; i < cases; i++ {
		c.M.Case("slices")
		s := &slState{arrID: map[unsafe.Pointer]int{}}
		steps := 4 + r.Intn(c.N(22, 60))
		var names []string
		for j := 0; j < steps; j++ {
			names = append(names, c.slStep(s))
		}
		sort.Strings(names)
		c.St.Eval("slprog:"+strings.Join(names, ","), steps >= 6)
	}
}
