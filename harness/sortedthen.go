package main

// Stratum "sorted-then" (C05, C14, C17, C18): a list is sorted first — whatever a library remembers about a
// sorted list (a flag, cached ends, a kind set) is established —, then changed by one step that keeps it a list of
// the same kind but breaks the order (or the extremes, or the kinds), directly and through a derived list, and
// then every lookup, aggregate, All* and a second Sort are observed. Any memo that a mutator forgets to drop, or a
// derivation copies although it no longer holds, answers from the past here.

import "strconv"

func (c *Ctx) sortedThen(prop string) {
	m := c.M
	bases := map[string][]*GV{
		"ints":   {gvInt(30), gvInt(10), gvInt(50), gvInt(20), gvInt(40), gvInt(0), gvInt(-7)},
		"floats": {gvFloat(3.5), gvFloat(-1.25), gvFloat(9), gvFloat(0.5), gvFloat(2)},
		"strs":   {gvStr("pear"), gvStr("apple"), gvStr("fig"), gvStr("zebra"), gvStr("kiwi")},
	}
	big := map[string]*GV{"ints": gvInt(1000), "floats": gvFloat(1e9), "strs": gvStr("zzzz")}
	small := map[string]*GV{"ints": gvInt(-1000), "floats": gvFloat(-1e9), "strs": gvStr("")}
	other := map[string]*GV{"ints": gvStr("x"), "floats": gvInt(4), "strs": gvInt(4)}
	steps := []string{"none", "reverse", "replace0-big", "replacelast-small", "replacemid-big", "insert0-big", "insertmid-big", "insertmid-small",
		"insertend-small", "add-small", "delete0", "deletemid", "pop", "settf0-big", "settfmid-small", "settf-beyond", "unsettf0", "replace0-otherkind", "add-otherkind",
		"clear-add", "sublist-head", "sublist-tail", "sublist-empty", "clone", "concat-self", "concat-other", "filter", "map"}
	probe := func(l string, kind string) {
		n := m.L(l).Count()
		for i := 0; i < n; i++ {
			g := gvOfValue(m, m.L(l).Get(i))
			if g != nil {
				m.IndexOf(l, g)
				m.Contains(l, g)
			}
		}
		m.IndexOf(l, big[kind])
		m.Contains(l, small[kind])
		m.IndexOf(l, gvInt(12345))
		if n > 0 {
			m.Get(l, 0)
			m.Get(l, n-1)
		}
		for _, k := range []byte("olsbifn") {
			m.AllK(l, k)
		}
		if kind != "strs" {
			for _, a := range []string{"intmin", "min", "intmax", "max", "sum", "intsum"} {
				m.Agg(l, a)
			}
		}
	}
	for _, kind := range []string{"ints", "floats", "strs"} {
		for _, step := range steps {
			m.Case("sorted-then")
			l := m.NewList(bases[kind]...)
			o := m.NewList(big[kind], small[kind])
			m.Sort(l)
			probe(l, kind)
			n := m.L(l).Count()
			target := l
			switch step {
			case "reverse":
				m.Reverse(l)
			case "replace0-big":
				m.Replace(l, 0, big[kind])
			case "replacelast-small":
				m.Replace(l, n-1, small[kind])
			case "replacemid-big":
				m.Replace(l, n/2, big[kind])
			case "insert0-big":
				m.Insert(l, 0, big[kind])
			case "insertmid-big":
				m.Insert(l, n/2, big[kind])
			case "insertmid-small":
				m.Insert(l, n/2, small[kind])
			case "insertend-small":
				m.Insert(l, n, small[kind])
			case "add-small":
				m.Add(l, small[kind])
			case "delete0":
				m.Delete(l, 0)
			case "deletemid":
				m.Delete(l, n/2)
			case "pop":
				m.Pop(l)
			case "settf0-big":
				m.SetTF(l, "#0", big[kind])
			case "settfmid-small":
				m.SetTF(l, "#"+strconv.Itoa(n/2), small[kind])
			case "settf-beyond":
				m.SetTF(l, "#"+strconv.Itoa(n+1), small[kind])
			case "unsettf0":
				m.UnsetTF(l, "#0")
			case "replace0-otherkind":
				m.Replace(l, 0, other[kind])
			case "add-otherkind":
				m.Add(l, other[kind])
			case "clear-add":
				m.Clear(l)
				m.Add(l, big[kind], small[kind])
			case "sublist-head":
				target = m.SubList(l, 0, 2)
			case "sublist-tail":
				target = m.SubList(l, n-2, n)
			case "sublist-empty":
				target = m.SubList(l, 1, 1)
			case "clone":
				target = m.Clone(l)
			case "concat-self":
				target = m.Concat(l, l)
			case "concat-other":
				target = m.Concat(l, o)
			case "filter":
				target = m.Filter(l, "par")
			case "map":
				target = m.Map(l, &Fn{Name: "id"})
			}
			if target == "" {
				c.St.Eval("sorted-then:"+kind+":"+step+":panic", false)
				continue
			}
			probe(target, kind)
			if target != l {
				// a derived list does not inherit what was known about its source: change it, look again, and at the source
				m.Reverse(target)
				probe(target, kind)
				if m.L(target).Count() > 0 {
					m.Replace(target, 0, big[kind])
				} else {
					m.Add(target, big[kind], small[kind])
				}
				probe(target, kind)
				probe(l, kind)
			}
			// a second Sort must sort what is there now (not be skipped), and panic if the first element's kind says so
			if m.L(target).Count() > 0 {
				m.Sort(target)
				probe(target, kind)
			}
			c.St.Eval("sorted-then:"+kind+":"+step, true)
		}
	}
}
