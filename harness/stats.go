package main

import (
	"crypto/sha1"
	"encoding/json"
	"os"
	"strings"
)

// Stats accumulates the measured distribution of what a run generated; it is written next to the
// trace and ends up in the evidence file.
type Stats struct {
	Cases      map[string]int `json:"cases_by_stratum"`
	Ops        map[string]int `json:"ops"`
	Outcomes   map[string]int `json:"outcomes"`
	Hist       map[string]int `json:"histogram"`
	Evals      int            `json:"evaluations"`
	Nontrivial int            `json:"distinct_nontrivial"`
	Samples    []string       `json:"samples"`
	Rule       string         `json:"rule"`
	Exhaustive []string       `json:"exhaustive_strata"`
	seen       map[[20]byte]bool
}

func NewStats() *Stats {
	return &Stats{Cases: map[string]int{}, Ops: map[string]int{}, Outcomes: map[string]int{}, Hist: map[string]int{}, seen: map[[20]byte]bool{}}
}

func (s *Stats) Case(stratum string) { s.Cases[stratum]++ }

func (s *Stats) Op(name, obs string) {
	s.Ops[name]++
	o := obs
	if i := strings.IndexByte(o, ' '); i >= 0 {
		if strings.HasPrefix(o, "panic ") {
			if j := strings.IndexByte(o[6:], ':'); j >= 0 {
				o = o[:6+j]
			}
		} else {
			o = o[:i]
		}
	}
	s.Outcomes[o]++
}

func (s *Stats) Count(key string) { s.Hist[key]++ }

// Eval counts one evaluated case; nontrivial cases are counted once per distinct canonical text.
func (s *Stats) Eval(canon string, nontrivial bool) {
	s.Evals++
	if !nontrivial {
		return
	}
	h := sha1.Sum([]byte(canon))
	if !s.seen[h] {
		s.seen[h] = true
		s.Nontrivial++
		if len(s.Samples) < 8 && len(canon) < 400 {
			s.Samples = append(s.Samples, canon)
		}
	}
}

func (s *Stats) Write(path string) {
	b, _ := json.MarshalIndent(s, "", " ")
	os.WriteFile(path, b, 0o644)
}
