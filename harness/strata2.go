package main

// Second-generation strata, added after the second round of seeded changes (DESIGN §12):
// observe–mutate–observe (state that leaks across calls: caches, memoised flags),
// size and depth thresholds, same-kind overwrites after derivations (shared boxes),
// user types embedding containers in the less travelled corners.

import (
	"encoding/hex"
	"fmt"
	"math"
	"sort"
	"strconv"
	"strings"
	"time"

	at "github.com/DanielSvub/anytype"
)

// listObservers: every non-mutating list method, by the property whose check runs it.
var listObservers = map[string][]string{
	"C01": {"string"},
	"C02": {"string"},
	"C05": {"get", "typeof", "count", "slice", "contains", "sublist", "concat", "equals"},
	"C07": {"equals"},
	"C08": {"clone"},
	"C09": {"concat", "sublist", "filter", "map", "slice", "string"},
	"C10": {"gettf"},
	"C13": {"nativeslice", "slice"},
	"C14": {"allk", "slicek", "foreach", "map", "filter", "reduce"},
	"C16": {"fmtstr"},
	"C17": {"sort"},
	"C18": {"agg"},
	"C19": {"foreach"},
}

var objObservers = map[string][]string{
	"C01": {"ostring"},
	"C02": {"ostring"},
	"C06": {"oget", "otypeof", "ocount", "dict", "keys", "values", "ocontains", "pluck", "merge", "oequals"},
	"C07": {"oequals"},
	"C08": {"oclone"},
	"C09": {"merge", "pluck", "keys", "values", "dict", "omap", "ostring"},
	"C10": {"ogettf"},
	"C13": {"nativedict", "dict"},
	"C14": {"oforeach", "omap", "omapk"},
	"C16": {"ofmtstr"},
}

func (c *Ctx) observeList(l, twin string, obs string) {
	m := c.M
	switch obs {
	case "string":
		m.String(l)
	case "fmtstr":
		m.FormatString(l, 2) // the same indent every time: a memoised layout must follow the data
	case "equals":
		m.Equals(l, twin)
		m.Equals(twin, l)
	case "clone":
		m.Clone(l)
	case "get":
		m.Get(l, 0)
		m.Get(l, m.L(l).Count()-1)
	case "typeof":
		m.TypeOf(l, 0)
		m.TypeOf(l, m.L(l).Count()-1)
	case "count":
		m.Count(l)
		m.Empty(l)
	case "slice":
		m.Slice(l)
	case "contains":
		m.Contains(l, gvInt(1))
		m.IndexOf(l, gvBool(true))
		m.IndexOf(l, gvInt(40))
		m.IndexOf(l, gvInt(2)) // the last lookup before the next step and the first after it are the same query
	case "sublist":
		m.SubList(l, 0, 0)
	case "concat":
		m.Concat(l, twin)
	case "gettf":
		m.GetTF(l, "#3#0") // first and last read of an observation are the same path into a nested container
		m.GetTF(l, "#0")
		m.TypeOfTF(l, "#1")
		m.GetTF(l, "#3#0")
		// paths into the nested containers, which change without the root knowing
		m.GetTF(l, "#3#2")
		m.TypeOfTF(l, "#3#2")
		m.GetTF(l, "#4.a")
		m.GetTF(l, "#4.z")
		m.TypeOfTF(l, "#4.z")
		m.GetTF(l, "#3#0")
	case "nativeslice":
		m.NativeSlice(l)
	case "allk":
		for _, k := range []byte("olsbifn") {
			m.AllK(l, k)
		}
	case "slicek":
		for _, k := range []byte("olsbif") {
			m.SliceK(l, k)
		}
	case "foreach":
		m.ForEach(l)
		m.ForEachK(l, 'i')
		m.ForEachAsync(l)
	case "map":
		m.Map(l, &Fn{Name: "id"})
		m.MapK(l, 'i', &Fn{Name: "inc"})
	case "filter":
		m.Filter(l, "all")
		m.FilterK(l, 'i', "par")
	case "reduce":
		m.Reduce(l)
		m.ReduceK(l, 'i')
	case "agg":
		for _, a := range []string{"intsum", "sum", "intprod", "prod", "avg", "intmin", "min", "intmax", "max"} {
			m.Agg(l, a)
		}
	case "sort":
		// also outside the domain (first element of another kind: panic; mixed: the model mirrors the code)
		if m.L(l).Count() > 0 {
			m.Sort(l)
		}
	}
}

// listMutators: every way the content of a list can change, including through a nested handle.
var listMutators = []string{"settf-samekind", "add", "insert0", "insertmid", "replace0", "replacelast", "delete0", "deletelast", "pop", "clear", "reverse",
	"settf-leaf", "settf-beyond", "unsettf", "sort", "inner-add", "inner-set", "settf-deep", "add-bool", "replace-samekind", "rejected-batch", "rejected-insert", "dup-front", "dup-replace0", "inner-replace", "none"}

func (c *Ctx) mutateList(l, inner, innerO string, mut string) {
	m := c.M
	n := m.L(l).Count()
	switch mut {
	case "add":
		m.Add(l, gvInt(40))
	case "insert0":
		m.Insert(l, 0, gvInt(41))
	case "insertmid":
		m.Insert(l, n/2, gvStr("m"))
	case "replace0":
		if n > 0 {
			m.Replace(l, 0, gvStr("r"))
		}
	case "replacelast":
		if n > 0 {
			m.Replace(l, n-1, gvFloat(0.5))
		}
	case "delete0":
		if n > 0 {
			m.Delete(l, 0)
		}
	case "deletelast":
		if n > 0 {
			m.Delete(l, n-1)
		}
	case "pop":
		m.Pop(l)
	case "rejected-batch":
		// a call that panics on its last value: whatever it leaves behind, every observer has to cope with
		m.Add(l, gvInt(40), gvStr("ok"), gvUnsupported(0))
	case "dup-front":
		// an element equal to a later one now stands before it: a remembered position is stale
		m.Insert(l, 0, gvInt(2))
		m.Insert(l, 0, gvBool(true))
	case "dup-replace0":
		if n > 0 {
			m.Replace(l, 0, gvInt(2))
		}
	case "rejected-insert":
		m.Insert(l, n/2, gvUnsupported(1))
		m.Replace(l, n+5, gvInt(1))
	case "clear":
		m.Clear(l)
	case "reverse":
		m.Reverse(l)
	case "settf-samekind":
		if n > 0 {
			if g := sameKind(m.L(l).Get(0)); g != nil {
				m.SetTF(l, "#0", g) // an in-place write of the same kind through the tree form
			}
		}
	case "settf-leaf":
		m.SetTF(l, "#0", gvBool(true))
	case "settf-beyond":
		m.SetTF(l, "#"+strconv.Itoa(n+2), gvInt(5))
	case "unsettf":
		m.UnsetTF(l, "#0")
	case "sort":
		if sortable(m.L(l)) {
			m.Sort(l)
		}
	case "inner-add":
		if inner != "" {
			m.Add(inner, gvInt(99))
		}
	case "inner-set":
		if innerO != "" {
			m.OSet(innerO, gvStr("z"), gvInt(99))
		}
	case "inner-replace":
		// an existing slot of a nested container changes: nothing the root could have remembered stays true
		if inner != "" {
			m.Replace(inner, 0, gvInt(77))
		}
		if innerO != "" {
			m.OSet(innerO, gvStr("a"), gvInt(77))
		}
	case "settf-deep":
		if inner != "" {
			m.SetTF(l, "#3#0", gvStr("deep"))
		}
	case "add-bool":
		m.Add(l, gvBool(false))
	case "replace-samekind":
		// overwrite every scalar by another value of the same kind
		for i, v := range m.L(l).Slice() {
			if g := sameKind(v); g != nil {
				m.Replace(l, i, g)
			}
		}
	}
}

// sameKind returns another value of the same scalar kind (nil for containers and nil).
func sameKind(v any) *GV {
	switch x := v.(type) {
	case int:
		return gvInt(x + 1000)
	case float64:
		return gvFloat(x + 0.25)
	case string:
		return gvStr(x + "~")
	case bool:
		return gvBool(!x)
	}
	return nil
}

// omoList: observe, mutate by one step, observe again — for every (observer, mutator) pair.
func (c *Ctx) omoList(prop string) {
	m := c.M
	for _, obs := range listObservers[prop] {
		for _, mut := range listMutators {
			m.Case("observe-mutate-observe")
			var l, twin, inner, innerO string
			if obs == "sort" || obs == "agg" {
				l = m.NewList(gvInt(3), gvInt(1), gvInt(2), gvInt(-5))
				twin = m.NewList(gvInt(3), gvInt(1), gvInt(2), gvInt(-5))
			} else if obs == "allk" && (mut == "pop" || mut == "deletelast" || mut == "replacelast" || mut == "none" || mut == "clear") {
				// homogeneous but for the last element: removing it flips every All* answer
				l = m.NewList(gvInt(1), gvInt(2), gvInt(3), gvStr("tail"))
				twin = m.NewList(gvInt(1))
			} else {
				inner = m.NewList(gvInt(1), gvInt(2))
				innerO = m.NewObject(gvStr("a"), gvInt(1), gvStr("s"), gvStr("\"q\\"))
				negZero := gvFloat(math.Copysign(0, -1)) // the sign of zero is data: an observer must not normalise it
				l = m.NewList(gvInt(1), gvStr("x\n"), gvFloat(2), m.RefGV(inner), m.RefGV(innerO), gvBool(true), gvNil(), gvInt(2), negZero)
				twin = m.NewList(gvInt(1), gvStr("x\n"), gvFloat(2), m.RefGV(m.NewList(gvInt(1), gvInt(2))), m.RefGV(m.NewObject(gvStr("a"), gvInt(1), gvStr("s"), gvStr("\"q\\"))), gvBool(true), gvNil(), gvInt(2), negZero)
			}
			c.observeList(l, twin, obs)
			c.mutateList(l, inner, innerO, mut)
			c.observeList(l, twin, obs)
			c.observeList(l, twin, obs)           // observing twice in a row gives the same answers
			c.mutateList(l, inner, innerO, "pop") // a second, different step: memoised state must follow
			c.observeList(l, twin, obs)
			c.St.Eval("omo:"+obs+":"+mut, true)
		}
	}
	// the same on flat lists (no nested container), short and long, and on mixed numeric lists:
	// fast paths and memoised values often apply to exactly these
	for _, obs := range listObservers[prop] {
		for _, mut := range []string{"reverse", "sort", "pop", "replace0", "settf-samekind", "add", "delete0", "insertmid", "clear", "replace-samekind"} {
			for _, base := range []string{"flat", "flat-long", "numeric-mixed", "numeric-long", "rounding"} {
				m.Case("observe-mutate-observe-flat")
				var gs []*GV
				switch base {
				case "flat":
					gs = []*GV{gvInt(3), gvStr("b\n"), gvFloat(2), gvBool(true), gvNil(), gvInt(1), gvStr("a"), gvFloat(20)}
				case "flat-long":
					for i := 0; i < 40; i++ {
						switch i % 4 {
						case 0:
							gs = append(gs, gvInt(40-i))
						case 1:
							gs = append(gs, gvStr("s"+strconv.Itoa(i)+"\""))
						case 2:
							gs = append(gs, gvFloat(float64(i)))
						default:
							gs = append(gs, gvBool(i%8 == 3))
						}
					}
				case "numeric-mixed":
					gs = []*GV{gvInt(3), gvFloat(1.5), gvInt(7), gvFloat(2.25), gvInt(-4), gvFloat(3)}
				case "numeric-long":
					for i := 0; i < 36; i++ {
						if i%3 == 0 {
							gs = append(gs, gvFloat(float64(36-i))) // whole-valued floats among ints
						} else {
							gs = append(gs, gvInt(i*7%11))
						}
					}
				case "rounding":
					gs = []*GV{gvFloat(1e16), gvFloat(1), gvFloat(-1e16), gvFloat(0.5)}
				}
				l := m.NewList(gs...)
				twin := m.NewList(gs...)
				c.observeList(l, twin, obs)
				c.mutateList(l, "", "", mut)
				c.observeList(l, twin, obs)
				c.observeList(l, twin, obs)
				c.mutateList(l, "", "", "reverse")
				c.observeList(l, twin, obs)
				c.St.Eval("omo-flat:"+obs+":"+mut+":"+base, true)
			}
		}
	}
	c.provenance(prop)
}

// provenance: the observers of a property on lists that came into being through another operation
// (not built directly by a constructor), followed by a mutation of the result and of its source.
func (c *Ctx) provenance(prop string) {
	m := c.M
	ways := []string{"concat-empty", "concat-kinds", "concat-self", "sublist-full", "sublist-part", "clone", "filter-all", "map-id", "parsed", "newlistfrom", "newlistof", "sorted", "reversed", "values", "keys", "slice-rebuilt"}
	for _, obs := range listObservers[prop] {
		for _, way := range ways {
			m.Case("provenance")
			inner := m.NewList(gvInt(1), gvInt(2))
			src := m.NewList(gvInt(3), gvInt(1), gvInt(2))
			if obs != "sort" && obs != "agg" {
				src = m.NewList(gvInt(3), gvStr("x"), m.RefGV(inner), gvInt(1))
			}
			var res string
			switch way {
			case "concat-empty":
				res = m.Concat(src, m.NewList())
			case "concat-kinds":
				res = m.Concat(src, m.NewList(gvFloat(2.5), gvBool(true), gvNil(), m.RefGV(m.NewObject(gvStr("k"), gvInt(1))), gvStr("tail")))
				if obs == "sort" || obs == "agg" {
					res = m.Concat(src, m.NewList(gvInt(9), gvInt(-9)))
				}
			case "concat-self":
				res = m.Concat(src, src)
			case "sublist-full":
				res = m.SubList(src, 0, 0)
			case "sublist-part":
				res = m.SubList(src, 1, 0)
			case "clone":
				res = m.Clone(src)
			case "filter-all":
				res = m.Filter(src, "all")
			case "map-id":
				res = m.Map(src, &Fn{Name: "id"})
			case "parsed":
				res = m.Parse('L', m.L(src).String())
			case "newlistfrom":
				res = m.NewListFrom(&GV{K: '(', Fl: 'a', Xs: []*GV{gvInt(3), gvStr("x"), gvInt(1)}})
			case "newlistof":
				res = m.NewListOf(gvInt(7), 4)
				m.Replace(res, 1, gvInt(2))
			case "sorted":
				res = m.NewList(gvInt(3), gvInt(1), gvInt(2))
				m.Sort(res)
			case "reversed":
				res = src
				m.Reverse(res)
			case "values":
				res = m.Values(m.NewObject(gvStr("a"), gvInt(1), gvStr("l"), m.RefGV(inner)))
			case "keys":
				res = m.Keys(m.NewObject(gvStr("a"), gvInt(1), gvStr("b"), gvInt(2)))
			case "slice-rebuilt":
				res = m.NewList()
				for _, v := range m.L(src).Slice() {
					m.Add(res, gvOfValue(m, v))
				}
			}
			if res == "" {
				continue
			}
			twin := m.Clone(res)
			c.observeList(res, twin, obs)
			c.mutateList(src, inner, "", "add")
			c.observeList(res, twin, obs)
			c.mutateList(res, inner, "", "replace-samekind")
			c.observeList(res, twin, obs)
			c.observeList(src, twin, obs)
			if sortable(m.L(res)) {
				m.Sort(res) // sorting a derived list never reorders its source
				m.Sort(src)
			}
			m.Reverse(res)
			c.observeList(res, twin, obs)
			c.St.Eval("provenance:"+obs+":"+way, true)
		}
	}
}

func (c *Ctx) observeObj(o, twin string, obs string) {
	m := c.M
	switch obs {
	case "ostring":
		m.OString(o)
	case "ofmtstr":
		m.OFormatString(o, 2)
	case "oequals":
		m.OEquals(o, twin)
		m.OEquals(twin, o)
	case "oclone":
		m.OClone(o)
	case "oget":
		m.OGet(o, "a")
		m.OGet(o, "")
	case "otypeof":
		m.OTypeOf(o, "a")
		m.OKeyExists(o, "b")
	case "ocount":
		m.OCount(o)
		m.OEmpty(o)
	case "dict":
		m.Dict(o)
	case "keys":
		m.Keys(o)
	case "values":
		m.Values(o)
	case "ocontains":
		m.OContains(o, gvInt(1))
		m.KeyOf(o, gvStr("v"))
	case "pluck":
		m.Pluck(o, "a")
	case "merge":
		m.Merge(o, twin)
		m.Merge(twin, o)
	case "ogettf":
		m.OGetTF(o, ".l#0")
		m.OGetTF(o, ".a")
		m.OTypeOfTF(o, ".l#0")
		m.OGetTF(o, ".l#2")
		m.OTypeOfTF(o, ".l#2")
		m.OGetTF(o, ".o.k")
		m.OGetTF(o, ".o.z")
		m.OTypeOfTF(o, ".o.z")
		m.OGetTF(o, ".l#0")
	case "nativedict":
		m.NativeDict(o)
	case "oforeach":
		m.OForEach(o)
		m.OForEachK(o, 'i')
		m.OForEachAsync(o)
	case "omap":
		m.OMap(o, &Fn{Name: "id"})
	case "omapk":
		for _, k := range []byte("olsbif") {
			m.OMapK(o, k, &Fn{Name: "id"})
		}
	}
}

var objMutators = []string{"set-new", "set-samekind", "set-otherkind", "set-bool-flip", "set-empty-string", "unset", "unset-then-set", "clear", "clear-refill", "settf", "unsettf", "inner-add", "inner-set", "inner-replace", "rejected-set", "none"}

func (c *Ctx) mutateObj(o, inner, innerO string, mut string) {
	m := c.M
	switch mut {
	case "rejected-set":
		m.OSet(o, gvStr("fresh"), gvInt(1), gvStr("bad"), gvUnsupported(0))
		m.OSet(o, gvStr("odd"), gvInt(1), gvStr("dangling"))
	case "set-new":
		m.OSet(o, gvStr("new"), gvInt(5))
	case "set-samekind":
		d := m.O(o).Dict()
		for _, k := range sortedKeys(d) {
			if g := sameKind(d[k]); g != nil {
				m.OSet(o, gvStr(k), g)
			}
		}
	case "set-otherkind":
		m.OSet(o, gvStr("a"), gvStr("now a string"))
	case "set-bool-flip":
		m.OSet(o, gvStr("t"), gvBool(false))
		m.OSet(o, gvStr("t"), gvBool(true))
		m.OSet(o, gvStr("t"), gvBool(false))
	case "set-empty-string":
		m.OSet(o, gvStr("e"), gvStr("filled"))
	case "unset":
		m.OUnset(o, "a")
	case "unset-then-set":
		m.OUnset(o, "a")
		m.OSet(o, gvStr("c"), gvInt(3)) // same count, another key set
	case "clear":
		m.OClear(o)
	case "clear-refill":
		n := m.O(o).Count()
		m.OClear(o)
		for i := 0; i < n; i++ {
			m.OSet(o, gvStr("r"+strconv.Itoa(i)), gvInt(i))
		}
	case "settf":
		m.OSetTF(o, ".l#1", gvStr("tf"))
	case "unsettf":
		m.OUnsetTF(o, ".l#0")
	case "inner-add":
		m.Add(inner, gvInt(99))
	case "inner-set":
		m.OSet(innerO, gvStr("z"), gvInt(99))
	case "inner-replace":
		m.Replace(inner, 0, gvInt(77))
		m.OSet(innerO, gvStr("k"), gvInt(77))
	}
}

func (c *Ctx) omoObj(prop string) {
	m := c.M
	for _, obs := range objObservers[prop] {
		for _, mut := range objMutators {
			m.Case("observe-mutate-observe-object")
			mk := func() (string, string, string) {
				inner := m.NewList(gvInt(1), gvInt(2))
				innerO := m.NewObject(gvStr("k"), gvInt(1))
				o := m.NewObject(gvStr("a"), gvInt(1), gvStr("b"), gvStr("v"), gvStr("t"), gvBool(true), gvStr("u"), gvBool(true), gvStr("e"), gvStr(""),
					gvStr("e2"), gvStr(""), gvStr("f"), gvFloat(1.5), gvStr("n"), gvNil(), gvStr("l"), m.RefGV(inner), gvStr("o"), m.RefGV(innerO), gvStr(""), gvInt(0))
				return o, inner, innerO
			}
			o, inner, innerO := mk()
			twin, _, _ := mk()
			other := m.NewList(gvBool(true), gvStr(""), gvNil()) // bystander holding the same scalars
			_ = other
			c.observeObj(o, twin, obs)
			c.mutateObj(o, inner, innerO, mut)
			c.observeObj(o, twin, obs)
			c.observeObj(o, twin, obs)
			c.mutateObj(o, inner, innerO, "unset-then-set")
			c.observeObj(o, twin, obs)
			c.St.Eval("omo-obj:"+obs+":"+mut, true)
		}
	}
}

// overwriteSameKind: after a derivation, overwrite every scalar slot of t by a value of the same kind;
// the snapshots of all other containers show whether a box was shared.
func (c *Ctx) overwriteSameKind(t string) {
	m := c.M
	if t == "" {
		return
	}
	if t[0] == 'O' {
		d := m.O(t).Dict()
		for _, k := range sortedKeys(d) {
			if g := sameKind(d[k]); g != nil {
				m.OSet(t, gvStr(k), g)
			}
		}
		for _, k := range sortedKeys(m.O(t).Dict()) {
			if g := sameKind(m.O(t).Get(k)); g != nil && k != "" && !containsSigil(k) {
				m.OSetTF(t, "."+k, g)
				break
			}
		}
		return
	}
	for i, v := range m.L(t).Slice() {
		if g := sameKind(v); g != nil {
			m.Replace(t, i, g)
		}
	}
	if m.L(t).Count() > 0 {
		if g := sameKind(m.L(t).Get(0)); g != nil {
			m.SetTF(t, "#0", g)
		}
	}
}

func containsSigil(k string) bool {
	for i := 0; i < len(k); i++ {
		if k[i] == '.' || k[i] == '#' {
			return true
		}
	}
	return false
}

// sharedBoxes: derive by every deriving operation, then overwrite scalars of the same kind on each side in turn.
func (c *Ctx) sharedBoxes() {
	m := c.M
	derivs := []string{"clone", "merge-into", "merge-from", "pluck", "omap", "keys", "values", "concat", "sublist", "filter", "map", "lclone", "newlistof", "merge-empty"}
	for _, dv := range derivs {
		for side := 0; side < 3; side++ {
			m.Case("shared-boxes")
			src := m.NewObject(gvStr("i"), gvInt(1), gvStr("s"), gvStr("v"), gvStr("b"), gvBool(true), gvStr("f"), gvFloat(1.5), gvStr("e"), gvStr(""))
			arg := m.NewObject(gvStr("i"), gvInt(2), gvStr("x"), gvStr("w"), gvStr("b2"), gvBool(true), gvStr("e2"), gvStr(""))
			lsrc := m.NewList(gvInt(1), gvStr("v"), gvBool(true), gvFloat(1.5), gvStr(""))
			larg := m.NewList(gvInt(2), gvStr("w"))
			var res string
			switch dv {
			case "clone":
				res = m.OClone(src)
			case "merge-into":
				res = m.Merge(src, arg)
			case "merge-from":
				res = m.Merge(arg, src)
			case "merge-empty":
				res = m.Merge(m.NewObject(), src)
			case "pluck":
				res = m.Pluck(src, "i", "s", "b", "e")
			case "omap":
				res = m.OMap(src, &Fn{Name: "id"})
			case "keys":
				res = m.Keys(src)
			case "values":
				res = m.Values(src)
			case "concat":
				res = m.Concat(lsrc, larg)
			case "sublist":
				res = m.SubList(lsrc, 0, 0)
			case "filter":
				res = m.Filter(lsrc, "all")
			case "map":
				res = m.Map(lsrc, &Fn{Name: "id"})
			case "lclone":
				res = m.Clone(lsrc)
			case "newlistof":
				res = m.NewListOf(gvStr("same"), 3)
			}
			holder := m.NewObject(gvStr("a"), m.RefGV(src), gvStr("b"), m.RefGV(res)) // a tree that contains both branches
			switch side {
			case 0:
				c.overwriteSameKind(res)
			case 1:
				c.overwriteSameKind(src)
				c.overwriteSameKind(lsrc)
				c.overwriteSameKind(arg)
				c.overwriteSameKind(larg)
			default:
				// through tree-form paths of the holder
				if res[0] == 'O' {
					for _, k := range sortedKeys(m.O(res).Dict()) {
						if g := sameKind(m.O(res).Get(k)); g != nil && k != "" {
							m.OSetTF(holder, ".b."+k, g)
						}
					}
				} else {
					for i, v := range m.L(res).Slice() {
						if g := sameKind(v); g != nil {
							m.OSetTF(holder, ".b#"+strconv.Itoa(i), g)
						}
					}
				}
			}
			c.St.Eval(fmt.Sprint("shared:", dv, side), true)
		}
	}
}

// growShrink: lists that grow far past every small-size threshold and are then deleted down again, one
// element at a time, by every removing operation; then cloned / derived / grown again on both sides.
func (c *Ctx) growShrink() {
	m := c.M
	for _, remover := range []string{"pop", "delete0", "deletemid", "unsettf-last", "unsettf-0", "clear"} {
		for _, peak := range []int{5, 40, c.N(70, 300)} {
			m.Case("grow-shrink")
			l := m.NewList()
			for i := 0; i < peak; i++ {
				m.Add(l, gvInt(i))
			}
			for m.L(l).Count() > 0 {
				n := m.L(l).Count()
				switch remover {
				case "pop":
					m.Pop(l)
				case "delete0":
					m.Delete(l, 0)
				case "deletemid":
					m.Delete(l, n/2)
				case "unsettf-last":
					m.UnsetTF(l, "#"+strconv.Itoa(n-1))
				case "unsettf-0":
					m.UnsetTF(l, "#0")
				case "clear":
					m.Clear(l)
				}
				if n == peak/2 || n == peak/4+1 || n == 3 {
					m.Add(l, gvInt(1), gvUnsupported(0), gvInt(2)) // a rejected value in a batch, with spare capacity behind the end
					m.Pop(l)
					cl := m.Clone(l)
					sub := m.SubList(l, 0, 0)
					cc := m.Concat(l, m.NewList())
					m.Add(cl, gvStr("c"))
					m.Add(sub, gvStr("s"))
					m.Add(cc, gvStr("x"))
					m.SetTF(l, "#"+strconv.Itoa(n+1), gvStr("gap")) // a gap write after removals: padding must be nil
					m.Pop(l)
					m.Pop(l)
					m.Pop(l)
				}
			}
			// emptied (not fresh): clone it, then grow both sides
			cl := m.Clone(l)
			holder := m.NewList(m.RefGV(l))
			hc := m.Clone(holder)
			m.Add(l, gvInt(1))
			m.Add(cl, gvInt(2))
			m.Add(l, gvInt(3))
			m.Add(cl, gvInt(4))
			m.Get(hc, 0)
			m.Reverse(l)
			m.Sort(cl)
			c.St.Eval(fmt.Sprint("growshrink:", remover, peak), true)
		}
	}
}

// derivedCorners: user types that embed a container, stored where the checks did not put them before.
func (c *Ctx) derivedCorners(prop string) {
	m := c.M
	m.Case("derived-corners")
	rawL := m.NewList(gvInt(1), gvInt(2))
	dL := m.Derive(rawL)
	rawO := m.NewObject(gvStr("k"), gvInt(1))
	dO := m.Derive(rawO)
	holder := m.NewObject(gvStr("tags"), m.RefGV(dL), gvStr("meta"), m.RefGV(dO), gvStr("n"), gvInt(1))
	lholder := m.NewList(m.RefGV(dL), m.RefGV(dO), m.RefGV(holder))
	switch prop {
	case "C08":
		cl := m.OClone(holder)
		m.OEquals(holder, cl)
		m.Add(dL, gvInt(3))
		m.OSet(dO, gvStr("z"), gvInt(2))
		m.OGet(cl, "tags")
		cl2 := m.Clone(lholder)
		m.Add(dL, gvInt(4))
		m.Get(cl2, 0)
	case "C13":
		m.NativeDict(holder)
		m.NativeSlice(lholder)
		m.Dict(holder)
		m.Slice(lholder)
	case "C11", "C19":
		m.OSetTF(holder, ".tags#1", gvStr("w"))
		m.OGet(holder, "tags")
		m.OGetTF(holder, ".tags")
		m.OSetTF(holder, ".meta.q", gvInt(5))
		m.OGet(holder, "meta")
		m.SetTF(lholder, "#0#0", gvStr("v"))
		m.Get(lholder, 0)
		m.SetTF(lholder, "#1.k", gvInt(7))
		m.Get(lholder, 1)
		m.OUnsetTF(holder, ".tags#0")
		m.OGet(holder, "tags")
		m.UnsetTF(lholder, "#1.k")
	case "C10":
		c.readPath(holder, ".tags#0")
		c.readPath(holder, ".meta.k")
		c.readPath(lholder, "#0#1")
		c.readPath(lholder, "#2.tags#0")
	case "C14":
		for _, k := range []byte("ol") {
			m.SliceK(lholder, k)
			m.ForEachK(lholder, k)
			m.MapK(lholder, k, &Fn{Name: "id"})
			m.FilterK(lholder, k, "all")
			m.AllK(lholder, k)
			m.OForEachK(holder, k)
			m.OMapK(holder, k, &Fn{Name: "id"})
		}
	case "C07":
		// a derived value is a List/Object like any other for Equals' caller: as receiver, as argument, as an
		// element of either side, one and two embedding levels deep
		m.OEquals(rawO, m.NewObject(gvStr("k"), gvInt(1)))
		plainL := m.NewList(gvInt(1), gvInt(2))
		plainO := m.NewObject(gvStr("k"), gvInt(1))
		ddL := m.Derive(dL)
		ddO := m.Derive(dO)
		for _, p := range [][2]string{{plainL, dL}, {dL, plainL}, {dL, dL}, {rawL, dL}, {dL, rawL}, {plainL, ddL}, {ddL, dL}, {ddL, ddL}} {
			m.Equals(p[0], p[1])
		}
		for _, p := range [][2]string{{plainO, dO}, {dO, plainO}, {dO, dO}, {rawO, dO}, {dO, rawO}, {plainO, ddO}, {ddO, dO}, {ddO, ddO}} {
			m.OEquals(p[0], p[1])
		}
		m.Equals(lholder, lholder)
		cl := m.Clone(lholder)
		m.Equals(lholder, cl)
		m.Equals(cl, lholder)
		m.OEquals(holder, holder)
		co := m.OClone(holder)
		m.OEquals(holder, co)
		m.OEquals(co, holder)
		// unequal content stays unequal whatever the embedding
		m.Add(plainL, gvInt(3))
		m.Equals(plainL, dL)
		m.Equals(dL, plainL)
		m.OSet(plainO, gvStr("z"), gvInt(0))
		m.OEquals(plainO, dO)
		m.OEquals(dO, plainO)
	case "C05":
		// a derived value stored as an element is a list / an object for every kind test, also after the element moved
		for _, t := range []string{lholder, m.SubList(lholder, 0, 2), m.Concat(lholder, lholder), m.Clone(lholder)} {
			if t == "" {
				continue
			}
			m.TypeOf(t, 0)
			m.TypeOf(t, 1)
			m.GetK(t, 'l', 0)
			m.GetK(t, 'o', 1)
			m.AllK(t, 'l')
			m.IndexOf(t, m.RefGV(dO))
		}
		m.Reverse(lholder)
		m.TypeOf(lholder, 1)
		m.TypeOf(lholder, 2)
		m.Reverse(lholder)
		m.OTypeOf(holder, "tags")
		m.OTypeOf(holder, "meta")
		// a derived list is a List like any other as an argument
		plainL := m.NewList(gvStr("p"))
		ddL := m.Derive(dL)
		for _, p := range [][2]string{{plainL, dL}, {dL, plainL}, {dL, dL}, {plainL, ddL}, {ddL, dL}} {
			r := m.Concat(p[0], p[1])
			if r != "" {
				m.Add(r, gvInt(9))
			}
		}
		m.Contains(lholder, m.RefGV(dL))
		m.IndexOf(lholder, m.RefGV(dO))
		m.Contains(lholder, m.RefGV(rawL))
	}
	// observers called on the derived values themselves leave the registration alone
	switch prop {
	case "C16", "C19", "C01", "C02", "C07", "C08", "C13":
		m.FormatString(dL, 2)
		m.OFormatString(dO, 2)
		m.String(dL)
		m.OString(dO)
		m.Clone(dL)
		m.OClone(dO)
		m.NativeSlice(dL)
		m.NativeDict(dO)
		m.Equals(dL, dL)
		m.OEquals(dO, dO)
		m.Ego(dL)
		m.Ego(dO)
		m.Ego(rawL)
		m.Ego(rawO)
		m.Add(dL, gvInt(8))
		m.OSet(dO, gvStr("q"), gvInt(8))
		m.OGet(holder, "tags")
		m.OGet(holder, "meta")
	}
	c.St.Eval("derived-corners:"+prop, true)
}

// longLists: list operations at lengths around small-size thresholds and powers of two.
func (c *Ctx) longLists(prop string) {
	m := c.M
	sizes := []int{12, 13, 64, 65, 100, 128, 129, 257, c.N(300, 1025)}
	if prop == "C18" || prop == "C13" {
		sizes = append(sizes, 1000, 1023, 1025, 1031) // only a few observations each: affordable in every run
	}
	for _, n := range sizes {
		m.Case("long-lists")
		gs := make([]*GV, n)
		for i := range gs {
			switch i % 5 {
			case 0:
				gs[i] = gvInt(n - i)
			case 1:
				gs[i] = gvStr("s" + strconv.Itoa(i))
			case 2:
				gs[i] = gvFloat(float64(i) / 4)
			default:
				gs[i] = gvInt(i * 7 % 31)
			}
		}
		l := m.NewList(gs...)
		switch prop {
		case "C14":
			m.Filter(l, "par")
			m.FilterK(l, 'i', "par")
			m.Map(l, &Fn{Name: "idx"})
			m.MapK(l, 's', &Fn{Name: "inc"})
			m.Reduce(l)
			m.ReduceK(l, 'i')
			m.ForEach(l)
			m.ForEachK(l, 'f')
			m.SliceK(l, 'i')
			m.AllK(l, 'n')
		case "C15":
			m.ForEachAsync(l)
			m.MapAsync(l, &Fn{Name: "idx"})
			m.Map(l, &Fn{Name: "idx"})
		case "C05", "C09":
			m.Insert(l, n/2, gvStr("mid"))
			m.Delete(l, 0, n/2, n-1)
			s1 := m.SubList(l, 1, -1)
			c1 := m.Concat(l, l)
			m.Reverse(s1)
			m.Pop(c1)
			m.IndexOf(l, gvInt(0))
			m.Replace(l, n-3, gvNil())
		case "C18":
			for _, a := range []string{"intsum", "sum", "prod", "avg", "intmin", "min", "intmax", "max"} {
				m.Agg(l, a)
			}
		case "C13":
			m.NativeSlice(l)
			m.Slice(l)
			holder := m.NewObject(gvStr("rows"), m.RefGV(l))
			m.NativeDict(holder)
		case "C19":
			d := m.Derive(l)
			m.ForEachAsync(d)
			m.ForEach(d)
			m.Reverse(d)
			m.Add(d, gvInt(1))
		}
		c.St.Eval(fmt.Sprint("long:", prop, n), true)
	}
}

// fluentStates: every fluent method on a derived value in several receiver states (fresh, emptied, grown).
func (c *Ctx) fluentStates() {
	m := c.M
	states := []string{"fresh", "cleared", "popped-empty", "grown", "sorted"}
	for _, st := range states {
		m.Case("fluent-states-" + st)
		raw := m.NewList(gvInt(3), gvInt(1), gvInt(2))
		d := m.Derive(raw)
		switch st {
		case "cleared":
			m.Clear(d)
		case "popped-empty":
			m.Pop(d)
			m.Pop(d)
			m.Pop(d)
		case "grown":
			for i := 0; i < 70; i++ {
				m.Add(d, gvInt(i))
			}
			for i := 0; i < 68; i++ { // shrink far below the capacity reached: every call still returns the outer value
				switch i % 3 {
				case 0:
					m.Pop(d)
				case 1:
					m.Delete(d, 0)
				default:
					m.UnsetTF(d, "#0")
				}
			}
			for i := 0; i < 200; i++ {
				m.Add(d, gvInt(i))
			}
		case "sorted":
			m.Sort(d)
		}
		m.Reverse(d)
		m.ForEach(d)
		m.ForEachValue(d)
		m.ForEachK(d, 'i')
		m.ForEachAsync(d)
		m.Clear(d)
		m.Reverse(d)
		m.Add(d, gvInt(2), gvInt(1))
		m.Sort(d)
		m.SetTF(d, "#0", gvInt(0))
		m.Sort(d)
		m.Insert(d, 1, gvInt(5))
		m.Insert(d, 0, gvInt(6))
		m.Replace(d, 0, gvInt(7))
		m.Delete(d, 0)
		m.Pop(d)
		m.UnsetTF(d, "#0")
		rawO := m.NewObject(gvStr("a"), gvInt(1))
		dO := m.Derive(rawO)
		if st == "cleared" {
			m.OClear(dO)
		}
		m.OForEach(dO)
		m.OForEachAsync(dO)
		m.OSet(dO, gvStr("b"), gvInt(2))
		m.OUnset(dO, "zz")
		m.OSetTF(dO, ".c#2", gvInt(3))
		m.OUnsetTF(dO, ".c#0")
		m.OClear(dO)
		m.OForEachValue(dO)
		c.St.Eval("fluent-states:"+st, true)
	}
}

var _ = at.NewList

// rawBytes: strings that are not well-formed UTF-8 cannot be written on the wire (the model's strings are
// sequences of code points), so the properties are monitored here, on the implementation alone: a Go string
// stored in a container is a sequence of bytes, and every operation the properties speak about has to hand
// those bytes back unchanged.  A failed monitor is an alarm record with the input in its text.
func (c *Ctx) rawBytes(prop string) {
	m := c.M
	m.Case("raw-bytes")
	vals := []string{"\xff", "a\x80b", "\xed\xa0\x80", "\xc3", "ok\xe2\x82", "\xf8\x88\x80\x80\x80", "x\xc0\xafy", "\xfe\xff\x00z"}
	alarm := func(what string, args ...any) {
		m.Alarm(prop, "raw-bytes: "+fmt.Sprintf(what, args...))
	}
	guard := func(what string, f func()) {
		defer func() {
			if r := recover(); r != nil {
				alarm("%s panics: %v", what, r)
			}
		}()
		f()
	}
	mkList := func() at.List {
		l := at.NewList()
		for _, v := range vals {
			l.Add(v)
		}
		l.Add(at.NewList(vals[0], vals[1]), at.NewObject(vals[2], vals[3], "k", vals[4]))
		return l
	}
	mkObj := func() at.Object {
		o := at.NewObject()
		for i, v := range vals {
			o.Set(v, vals[(i+1)%len(vals)])
		}
		o.Set("nested", at.NewList(vals[0], at.NewObject(vals[1], vals[2])))
		return o
	}
	// what a container holds, byte for byte, through the typed getters only
	var dumpL func(l at.List) string
	var dumpO func(o at.Object) string
	dumpL = func(l at.List) (res string) {
		defer func() {
			if r := recover(); r != nil {
				res = fmt.Sprintf("<reading the list panics: %v>", r)
			}
		}()
		var sb strings.Builder
		sb.WriteByte('[')
		for i := 0; i < l.Count(); i++ {
			switch l.TypeOf(i) {
			case at.TypeString:
				sb.WriteString("s" + hex.EncodeToString([]byte(l.GetString(i))))
			case at.TypeList:
				sb.WriteString(dumpL(l.GetList(i)))
			case at.TypeObject:
				sb.WriteString(dumpO(l.GetObject(i)))
			default:
				sb.WriteString(fmt.Sprint(l.Get(i)))
			}
			sb.WriteByte(' ')
		}
		sb.WriteByte(']')
		return sb.String()
	}
	dumpO = func(o at.Object) (res string) {
		defer func() {
			if r := recover(); r != nil {
				res = fmt.Sprintf("<reading the object panics: %v>", r)
			}
		}()
		keys := o.Keys().StringSlice()
		sort.Strings(keys)
		var sb strings.Builder
		sb.WriteByte('{')
		for _, k := range keys {
			sb.WriteString("k" + hex.EncodeToString([]byte(k)) + ":")
			switch o.TypeOf(k) {
			case at.TypeString:
				sb.WriteString("s" + hex.EncodeToString([]byte(o.GetString(k))))
			case at.TypeList:
				sb.WriteString(dumpL(o.GetList(k)))
			case at.TypeObject:
				sb.WriteString(dumpO(o.GetObject(k)))
			default:
				sb.WriteString(fmt.Sprint(o.Get(k)))
			}
			sb.WriteByte(' ')
		}
		sb.WriteByte('}')
		return sb.String()
	}
	l, o := mkList(), mkObj()
	wantL, wantO := dumpL(mkList()), dumpO(mkObj())
	if got := dumpL(l); got != wantL {
		alarm("a list built twice from the same byte strings differs: %s vs %s", got, wantL)
	}
	// stored bytes come back: Get, GetString, Slice, StringSlice, Contains, IndexOf, Keys, KeyExists, KeyOf
	guard("reading back", func() {
		for i, v := range vals {
			if l.GetString(i) != v || l.Get(i) != any(v) || l.Slice()[i] != any(v) {
				alarm("element %d stored as %x reads back as %x", i, v, l.GetString(i))
			}
			if !l.Contains(v) || l.IndexOf(v) != i {
				alarm("Contains/IndexOf of the stored bytes %x: %v %d", v, l.Contains(v), l.IndexOf(v))
			}
			if !o.KeyExists(v) || o.GetString(v) != vals[(i+1)%len(vals)] {
				alarm("object key %x: exists=%v", v, o.KeyExists(v))
			}
		}
		if ss := l.StringSlice(); len(ss) != len(vals) {
			alarm("StringSlice has %d strings, want %d", len(ss), len(vals))
		}
	})
	switch prop {
	case "C08", "C07":
		guard("Clone/Equals", func() {
			cl, co := l.Clone(), o.Clone()
			if !cl.Equals(l) || !l.Equals(cl) || !co.Equals(o) || !o.Equals(co) || !l.Equals(l) || !o.Equals(o) {
				alarm("a clone of a container holding ill-formed strings is not Equal to its source (list %v %v, object %v %v)", cl.Equals(l), l.Equals(cl), co.Equals(o), o.Equals(co))
			}
			if dumpL(cl) != wantL || dumpO(co) != wantO {
				alarm("Clone changed string bytes: %s / %s", dumpL(cl), dumpO(co))
			}
			cl.Replace(0, "changed")
			cl.GetList(len(vals)).Add("more")
			co.Set(vals[0], "changed")
			if dumpL(l) != wantL || dumpO(o) != wantO {
				alarm("a write to the clone shows in the source")
			}
			// two strings that differ only in an ill-formed byte are different
			if at.NewList("a\x80").Equals(at.NewList("a\x81")) || at.NewList("\xff").Equals(at.NewList("�")) ||
				at.NewObject("\xff", 1).Equals(at.NewObject("�", 1)) {
				alarm("Equals identifies different byte strings")
			}
		})
	}
	// observers leave the bytes alone (every property that reads: C09 in particular)
	guard("observers", func() {
		_ = l.String()
		_ = o.String()
		_ = l.FormatString(2)
		_ = o.FormatString(2)
		_ = l.Equals(mkList())
		_ = o.Equals(mkObj())
		_ = l.NativeSlice()
		_ = o.NativeDict()
		_ = l.SubList(0, 3).String()
		_ = l.Clone().String()
		_ = o.Pluck(vals[0]).String()
		_ = o.Values().String()
		_ = o.Keys().String()
		_ = l.Contains("nope")
		l.ForEachString(func(string) {})
		_ = l.FilterStrings(func(string) bool { return true }).String()
		_ = l.MapStrings(func(s string) any { return s }).String()
		_ = l.AllStrings()
		_ = l.GetTF("#0")
		_ = o.Dict()
		if dumpL(l) != wantL || dumpO(o) != wantO {
			alarm("an observer rewrote stored string bytes: %s / %s", dumpL(l), dumpO(o))
		}
	})
	switch prop {
	case "C13":
		guard("native export", func() {
			ns := l.NativeSlice()
			for i, v := range vals {
				if ns[i] != any(v) {
					alarm("NativeSlice()[%d] = %x, stored %x", i, ns[i], v)
				}
			}
			nd := o.NativeDict()
			for i, v := range vals {
				if nd[v] != any(vals[(i+1)%len(vals)]) {
					alarm("NativeDict()[%x] = %x", v, nd[v])
				}
			}
			if back := at.NewListFrom(ns); !back.Equals(l) {
				alarm("NewListFrom(NativeSlice()) is not Equal to the list")
			}
			if back := at.NewObjectFrom(nd); !back.Equals(o) {
				alarm("NewObjectFrom(NativeDict()) is not Equal to the object")
			}
		})
	case "C05", "C06", "C12", "C17":
		guard("mutators", func() {
			l2 := mkList()
			l2.Insert(0, "\x80").Reverse().Reverse().Delete(0)
			if dumpL(l2) != wantL {
				alarm("Insert/Reverse/Reverse/Delete changed string bytes: %s", dumpL(l2))
			}
			c1 := l2.SubList(0, len(vals)).Concat(at.NewList())
			if c1.Count() != len(vals) || c1.GetString(1) != vals[1] {
				alarm("SubList/Concat changed string bytes")
			}
			sorted := at.NewList(vals[0], vals[1], vals[3]).Sort()
			if sorted.GetString(0) != vals[1] || sorted.GetString(1) != vals[3] || sorted.GetString(2) != vals[0] {
				alarm("Sort of ill-formed strings is not bytewise: %x %x %x", sorted.GetString(0), sorted.GetString(1), sorted.GetString(2))
			}
			o2 := mkObj()
			o2.Set("\x80", 1).Unset("\x80")
			m2 := at.NewObject().Merge(o2)
			if dumpO(o2) != wantO || dumpO(m2) != wantO {
				alarm("Set/Unset/Merge changed string bytes: %s", dumpO(m2))
			}
		})
	}
	c.St.Eval("raw-bytes:"+prop, true)
}

// nilArguments: a nil interface where a List / Object is expected — Equals answers false, Merge and Concat panic
// (a method call on nil) and leave everything as it was; in particular they do not hand back the receiver.
func (c *Ctx) nilArguments() {
	m := c.M
	m.Case("nil-arguments")
	l := m.NewList(gvInt(1), m.RefGV(m.NewList()))
	o := m.NewObject(gvStr("a"), gvInt(1), gvStr("l"), m.RefGV(l))
	e := m.NewObject()
	for _, t := range []string{o, e} {
		if r := m.MergeNil(t); r != "" && r != "n" {
			m.OSet(r, gvStr("leak"), gvInt(1))
		}
		m.EqualsNil(t)
	}
	for _, t := range []string{l, m.NewList()} {
		if r := m.ConcatNil(t); r != "" && r != "n" {
			m.Add(r, gvStr("leak"))
		}
		m.EqualsNil(t)
	}
	c.St.Eval("nil-arguments", true)
}

// lateDerived: containers that were stored first and registered as the embedded part of a user type afterwards
// (Init on the outer value re-registers the ego pointer of the stored implementation).  What is stored is then the
// embedded value, what every read hands out is the registered outer value: the two differ.
func (c *Ctx) lateDerived(prop string) {
	m := c.M
	m.Case("late-derived")
	rawL := m.NewList(gvInt(1), gvInt(2))
	rawO := m.NewObject(gvStr("k"), gvInt(1))
	holder := m.NewObject(gvStr("l"), m.RefGV(rawL), gvStr("o"), m.RefGV(rawO), gvStr("n"), gvInt(1))
	lholder := m.NewList(m.RefGV(rawL), m.RefGV(rawO), gvInt(0))
	dL := m.Derive(rawL)
	dO := m.Derive(rawO)
	_, _ = dL, dO
	switch prop {
	case "C10":
		c.readPath(holder, ".l")
		c.readPath(holder, ".o")
		c.readPath(holder, ".l#0")
		c.readPath(holder, ".o.k")
		c.readPath(lholder, "#0")
		c.readPath(lholder, "#1")
		c.readPath(lholder, "#0#1")
		c.readPath(lholder, "#1.k")
	case "C15":
		m.ForEachAsync(lholder)
		m.OForEachAsync(holder)
		m.MapAsync(lholder, &Fn{Name: "id"})
		m.OMapAsync(holder, &Fn{Name: "id"})
		m.ForEach(lholder)
		m.OForEach(holder)
	case "C14":
		m.ForEach(lholder)
		m.OForEach(holder)
		for _, k := range []byte("ol") {
			m.ForEachK(lholder, k)
			m.OForEachK(holder, k)
			m.SliceK(lholder, k)
			m.MapK(lholder, k, &Fn{Name: "id"})
			m.OMapK(holder, k, &Fn{Name: "id"})
			m.FilterK(lholder, k, "all")
		}
		m.Map(lholder, &Fn{Name: "id"})
		m.OMap(holder, &Fn{Name: "id"})
		m.Filter(lholder, "all")
	case "C19", "C05", "C06":
		m.TypeOf(lholder, 0) // a derived value is a List / an Object for every kind test
		m.TypeOf(lholder, 1)
		m.OTypeOf(holder, "l")
		m.OTypeOf(holder, "o")
		m.TypeOfTF(lholder, "#0")
		m.OTypeOfTF(holder, ".o")
		m.AllK(m.NewList(m.RefGV(dL)), 'l')
		m.AllK(m.NewList(m.RefGV(dO)), 'o')
		m.Get(lholder, 0)
		m.Get(lholder, 1)
		m.GetK(lholder, 'l', 0)
		m.GetK(lholder, 'o', 1)
		m.Slice(lholder)
		m.OGet(holder, "l")
		m.OGet(holder, "o")
		m.OGetK(holder, 'l', "l")
		m.OGetK(holder, 'o', "o")
		m.Dict(holder)
		m.Values(holder)
		m.Contains(lholder, m.RefGV(dL))
		m.IndexOf(lholder, m.RefGV(dO))
		m.OContains(holder, m.RefGV(dL))
		m.KeyOf(holder, m.RefGV(dO))
		m.GetTF(lholder, "#0")
		m.OGetTF(holder, ".o")
	case "C13":
		m.Slice(lholder)
		m.Dict(holder)
		m.NativeSlice(lholder)
		m.NativeDict(holder)
	case "C16":
		m.FormatString(lholder, 2)
		m.OFormatString(holder, 2)
	}
	// no observer re-registers anything: the registered values are what they were
	m.Ego(dL)
	m.Ego(dO)
	m.Ego(rawL)
	m.Get(lholder, 0)
	m.OGet(holder, "o")
	c.St.Eval("late-derived:"+prop, true)
}

// reentrant: callbacks that READ the container they are iterating (or call the same operation on it again).
// The model's callbacks are pure functions of their arguments, so this is monitored on the implementation alone,
// against a reference computed from Slice() / Dict().
func (c *Ctx) reentrant(prop string) {
	m := c.M
	m.Case("re-entrant-callbacks")
	alarm := func(what string, got, want any) {
		m.Alarm(prop, fmt.Sprintf("re-entrant callback: %s: got %v, reference %v", what, got, want))
	}
	guard := func(what string, f func()) {
		defer func() {
			if r := recover(); r != nil {
				m.Alarm(prop, fmt.Sprintf("re-entrant callback: %s panics: %v", what, r))
			}
		}()
		f()
	}
	for _, elems := range [][]any{{2, "b", 3, 4, 2, "a", "b", 4.5, 4.5, true}, {1, 1, 1}, {1, 2, 3, 4, 5, 6, 7, 8, 9}, {"x"}, {}} {
		l := at.NewList(elems...)
		ref := l.Slice()
		count := func(v any) int {
			n := 0
			for _, w := range ref {
				if w == v {
					n++
				}
			}
			return n
		}
		var wantOnce []any
		for _, v := range ref {
			if count(v) == 1 {
				wantOnce = append(wantOnce, v)
			}
		}
		guard("Filter in Filter", func() {
			got := l.Filter(func(v any) bool { return l.Filter(func(w any) bool { return w == v }).Count() == 1 }).Slice()
			if fmt.Sprint(got) != fmt.Sprint(wantOnce) {
				alarm(fmt.Sprintf("%v.Filter(v occurs once, counted by an inner Filter on the same list)", ref), got, wantOnce)
			}
		})
		guard("FilterInts in FilterInts", func() {
			got := l.FilterInts(func(v int) bool { return l.FilterInts(func(w int) bool { return w == v }).Count() == 1 }).Slice()
			var want []any
			for _, v := range ref {
				if i, ok := v.(int); ok && count(i) == 1 {
					want = append(want, v)
				}
			}
			if fmt.Sprint(got) != fmt.Sprint(want) {
				alarm(fmt.Sprintf("%v.FilterInts nested", ref), got, want)
			}
		})
		guard("Map reading the list", func() {
			got := l.Map(func(i int, v any) any { return l.Count()*100 + l.IndexOf(v)*10 + l.Map(func(int, any) any { return nil }).Count() }).Slice()
			var want []any
			for _, v := range ref {
				first := 0
				for j, w := range ref {
					if w == v {
						first = j
						break
					}
				}
				want = append(want, len(ref)*100+first*10+len(ref))
			}
			if fmt.Sprint(got) != fmt.Sprint(want) {
				alarm(fmt.Sprintf("%v.Map(Count, IndexOf, inner Map)", ref), got, want)
			}
		})
		guard("ForEach in ForEach", func() {
			n := 0
			var seen []any
			l.ForEach(func(i int, v any) {
				l.ForEach(func(j int, w any) { n++ })
				seen = append(seen, v)
			})
			if n != len(ref)*len(ref) || fmt.Sprint(seen) != fmt.Sprint(ref) {
				alarm(fmt.Sprintf("%v.ForEach nested", ref), fmt.Sprint(n, seen), fmt.Sprint(len(ref)*len(ref), ref))
			}
		})
		guard("Reduce reading the list", func() {
			got := l.Reduce(0, func(acc any, v any) any {
				if l.Contains(v) && l.String() != "" {
					return acc.(int) + 1
				}
				return acc
			})
			if got != any(len(ref)) {
				alarm(fmt.Sprintf("%v.Reduce(Contains, String)", ref), got, len(ref))
			}
		})
		guard("Filter on the receiver passed as argument", func() {
			cc := l.Concat(l)
			if cc.Count() != 2*len(ref) || !cc.SubList(0, len(ref)).Equals(l) && len(ref) > 0 {
				alarm(fmt.Sprintf("%v.Concat(itself)", ref), cc.Slice(), "the list twice")
			}
			if !l.Equals(l) || fmt.Sprint(l.Slice()) != fmt.Sprint(ref) {
				alarm(fmt.Sprintf("%v after Concat(itself) / Equals(itself)", ref), l.Slice(), ref)
			}
		})
		if fmt.Sprint(l.Slice()) != fmt.Sprint(ref) {
			alarm("the list after the re-entrant calls", l.Slice(), ref)
		}
	}
	o := at.NewObject("a", 1, "b", 2, "c", 1, "d", "x", "e", 2.5)
	refD := o.Dict()
	guard("object Map reading the object", func() {
		got := o.Map(func(k string, v any) any { return o.Count()*10 + o.Map(func(string, any) any { return 0 }).Count() }).Dict()
		for k := range refD {
			if got[k] != any(len(refD)*10+len(refD)) {
				alarm("object Map(Count, inner Map) at key "+k, got[k], len(refD)*10+len(refD))
			}
		}
		if len(got) != len(refD) {
			alarm("object Map result size", len(got), len(refD))
		}
	})
	guard("object ForEach in ForEach", func() {
		n := 0
		o.ForEach(func(k string, v any) { o.ForEach(func(string, any) { n++ }); _ = o.KeyOf(v) })
		if n != len(refD)*len(refD) {
			alarm("object ForEach nested", n, len(refD)*len(refD))
		}
	})
	guard("Merge / Equals with itself", func() {
		mm := o.Merge(o)
		if !mm.Equals(o) || !o.Equals(o) || o.Count() != len(refD) {
			alarm("object Merge(itself)", mm.Dict(), refD)
		}
	})
	c.St.Eval("re-entrant:"+prop, true)
}

// interfering: callbacks that overwrite elements of the list they are being called on (Replace only: the length and
// the positions of the other elements stay).  What a view does under such interference is not fixed by the model
// (its callbacks are pure), but the views must stay consistent with one another: every typed variant hands over
// what the untyped ForEach, restricted to that kind and subjected to the same interference, hands over — a variant
// that collects its elements before the first call while its siblings read each element when they reach it
// operates on values that are no longer elements.  Implementation-side monitor (C14).
func (c *Ctx) interfering(prop string) {
	m, r := c.M, c.R
	m.Case("interfering-callbacks")
	nl, no := at.NewList(7), at.NewObject("q", 1)
	nl2, no2 := at.NewList(), at.NewObject()
	menu := []any{"a", "b", "", 1, 2, -3, 2.5, -0.5, true, false, nil, nl, no, nl2, no2}
	kindOf := func(v any) byte {
		switch v.(type) {
		case nil:
			return 'n'
		case string:
			return 's'
		case int:
			return 'i'
		case float64:
			return 'f'
		case bool:
			return 'b'
		case at.List:
			return 'l'
		case at.Object:
			return 'o'
		}
		return '?'
	}
	show := func(vs []any) string {
		var sb strings.Builder
		for _, v := range vs {
			switch x := v.(type) {
			case at.List, at.Object:
				fmt.Fprintf(&sb, "%c@%p ", kindOf(v), x)
			default:
				fmt.Fprintf(&sb, "%T:%v ", v, v)
			}
		}
		return sb.String()
	}
	type step struct {
		idx int
		val any
	}
	type variant struct {
		name  string
		kinds string // '*' = untyped
		visit func(l at.List, k byte, cb func(any))
	}
	variants := []variant{
		{"ForEachX", "olsbif", func(l at.List, k byte, cb func(any)) {
			switch k {
			case 'o':
				l.ForEachObject(func(x at.Object) { cb(x) })
			case 'l':
				l.ForEachList(func(x at.List) { cb(x) })
			case 's':
				l.ForEachString(func(x string) { cb(x) })
			case 'b':
				l.ForEachBool(func(x bool) { cb(x) })
			case 'i':
				l.ForEachInt(func(x int) { cb(x) })
			case 'f':
				l.ForEachFloat(func(x float64) { cb(x) })
			}
		}},
		{"MapX", "olsbif", func(l at.List, k byte, cb func(any)) {
			switch k {
			case 'o':
				l.MapObjects(func(x at.Object) any { cb(x); return 0 })
			case 'l':
				l.MapLists(func(x at.List) any { cb(x); return 0 })
			case 's':
				l.MapStrings(func(x string) any { cb(x); return 0 })
			case 'b':
				l.MapBools(func(x bool) any { cb(x); return 0 })
			case 'i':
				l.MapInts(func(x int) any { cb(x); return 0 })
			case 'f':
				l.MapFloats(func(x float64) any { cb(x); return 0 })
			}
		}},
		{"FilterX", "olsif", func(l at.List, k byte, cb func(any)) {
			switch k {
			case 'o':
				l.FilterObjects(func(x at.Object) bool { cb(x); return true })
			case 'l':
				l.FilterLists(func(x at.List) bool { cb(x); return true })
			case 's':
				l.FilterStrings(func(x string) bool { cb(x); return true })
			case 'i':
				l.FilterInts(func(x int) bool { cb(x); return true })
			case 'f':
				l.FilterFloats(func(x float64) bool { cb(x); return true })
			}
		}},
		{"ReduceX", "sif", func(l at.List, k byte, cb func(any)) {
			switch k {
			case 's':
				l.ReduceStrings("", func(a, x string) string { cb(x); return a })
			case 'i':
				l.ReduceInts(0, func(a, x int) int { cb(x); return a })
			case 'f':
				l.ReduceFloats(0, func(a, x float64) float64 { cb(x); return a })
			}
		}},
		{"ForEachValue", "*", func(l at.List, k byte, cb func(any)) { l.ForEachValue(func(x any) { cb(x) }) }},
		{"Map", "*", func(l at.List, k byte, cb func(any)) { l.Map(func(i int, x any) any { cb(x); return 0 }) }},
		{"MapValues", "*", func(l at.List, k byte, cb func(any)) { l.MapValues(func(x any) any { cb(x); return 0 }) }},
		{"Filter", "*", func(l at.List, k byte, cb func(any)) { l.Filter(func(x any) bool { cb(x); return true }) }},
		{"Reduce", "*", func(l at.List, k byte, cb func(any)) { l.Reduce(0, func(a, x any) any { cb(x); return a }) }},
	}
	reference := func(l at.List, k byte, cb func(any)) {
		l.ForEach(func(i int, x any) {
			if k == '*' || kindOf(x) == k {
				cb(x)
			}
		})
	}
	run := func(base []any, sched []step, k byte, visit func(at.List, byte, func(any))) (seen []any, after []any, pan any) {
		l := at.NewList(base...)
		n := 0
		defer func() {
			if p := recover(); p != nil {
				pan = p
			}
			after = l.Slice()
		}()
		visit(l, k, func(v any) {
			seen = append(seen, v)
			if n < len(sched) {
				l.Replace(sched[n].idx, sched[n].val)
			}
			n++
		})
		return
	}
	rounds := c.N(60, 1500)
	for it := 0; it < rounds; it++ {
		n := 1 + r.Intn(9)
		base := make([]any, n)
		for i := range base {
			base[i] = menu[r.Intn(len(menu))]
		}
		sched := make([]step, r.Intn(n+2))
		for i := range sched {
			sched[i] = step{r.Intn(n), menu[r.Intn(len(menu))]}
		}
		for _, v := range variants {
			for _, k := range []byte(v.kinds) {
				wantSeen, wantAfter, wantPan := run(base, sched, k, reference)
				gotSeen, gotAfter, gotPan := run(base, sched, k, v.visit)
				if show(gotSeen) != show(wantSeen) || show(gotAfter) != show(wantAfter) || (gotPan == nil) != (wantPan == nil) {
					m.Alarm(prop, fmt.Sprintf("interfering callback: list [%s] with the k-th call replacing %s: %s (kind %c) was handed [%s] panic=%v and left [%s]; ForEach restricted to that kind under the same interference is handed [%s] panic=%v and leaves [%s]",
						show(base), fmt.Sprint(sched), v.name, k, show(gotSeen), gotPan, show(gotAfter), show(wantSeen), wantPan, show(wantAfter)))
				}
			}
		}
		c.St.Eval("interfering:"+show(base), len(sched) > 0)
	}
}

// reduceInitials: the initial value of a reduction is an ordinary value, whatever it is — nil, zero values, the
// extremes other methods use as accumulators.  The callback runs once per element (of the kind), in order, the first
// accumulator it sees is the initial value, every later one is what it returned, and the result is its last return
// value (the initial value on an empty selection).  Implementation-side monitor (C14).
func (c *Ctx) reduceInitials(prop string) {
	m := c.M
	m.Case("reduce-initials")
	inits := []any{nil, 0, "", false, 0.0, -1, 1, math.MaxInt64, math.MinInt64, math.MaxFloat64, -math.MaxFloat64, "x", true}
	lists := [][]any{{}, {5}, {nil}, {5, 6}, {nil, nil}, {"a", 2, 3.5}, {0, 0, 0}, {"", ""}}
	for _, elems := range lists {
		for _, init := range inits {
			l := at.NewList(elems...)
			var accs, vals []any
			n := 0
			res := func() (res any) {
				defer func() {
					if r := recover(); r != nil {
						res = fmt.Sprint("panic: ", r)
					}
				}()
				return l.Reduce(init, func(acc any, v any) any {
					accs = append(accs, acc)
					vals = append(vals, v)
					n++
					return n * 1000
				})
			}()
			wantAccs := []any{}
			for i := range elems {
				if i == 0 {
					wantAccs = append(wantAccs, init)
				} else {
					wantAccs = append(wantAccs, i*1000)
				}
			}
			var wantRes any = init
			if len(elems) > 0 {
				wantRes = len(elems) * 1000
			}
			if fmt.Sprintf("%#v", accs) != fmt.Sprintf("%#v", wantAccs) && !(len(accs) == 0 && len(wantAccs) == 0) || fmt.Sprintf("%#v", vals) != fmt.Sprintf("%#v", elems) && !(len(vals) == 0 && len(elems) == 0) || fmt.Sprintf("%#v", res) != fmt.Sprintf("%#v", wantRes) {
				m.Alarm(prop, fmt.Sprintf("Reduce(%#v, f) on %#v: f saw the accumulators %#v and the values %#v and the result is %#v; reference: accumulators %#v, values %#v, result %#v", init, elems, accs, vals, res, wantAccs, elems, wantRes))
			}
		}
	}
	// typed reductions with the zero value and the extremes as initial value
	ints := at.NewList(3, "s", -4, 2.5, 0)
	for _, init := range []int{0, -1, 1, math.MaxInt64, math.MinInt64} {
		var seen []int
		got := ints.ReduceInts(init, func(acc, v int) int { seen = append(seen, v); return acc - v })
		if fmt.Sprint(seen) != "[3 -4 0]" || got != init-3+4 {
			m.Alarm(prop, fmt.Sprintf("ReduceInts(%d, acc-v) on [3,\"s\",-4,2.5,0]: saw %v, result %d; reference [3 -4 0], %d", init, seen, got, init-3+4))
		}
	}
	strs := at.NewList("a", 1, "", "b")
	for _, init := range []string{"", "x", " "} {
		var seen []string
		got := strs.ReduceStrings(init, func(acc, v string) string { seen = append(seen, v); return acc + "[" + v + "]" })
		if len(seen) != 3 || got != init+"[a][][b]" {
			m.Alarm(prop, fmt.Sprintf("ReduceStrings(%q, …) on [\"a\",1,\"\",\"b\"]: saw %q, result %q; reference %q", init, seen, got, init+"[a][][b]"))
		}
	}
	fl := at.NewList(1.5, 2, -0.5)
	for _, init := range []float64{0, math.MaxFloat64, -math.MaxFloat64, math.Inf(1)} {
		var seen []float64
		got := fl.ReduceFloats(init, func(acc, v float64) float64 { seen = append(seen, v); return math.Min(acc, v) })
		if fmt.Sprint(seen) != "[1.5 -0.5]" || got != math.Min(init, -0.5) {
			m.Alarm(prop, fmt.Sprintf("ReduceFloats(%v, min) on [1.5,2,-0.5]: saw %v, result %v; reference [1.5 -0.5], %v", init, seen, got, math.Min(init, -0.5)))
		}
	}
	c.St.Eval("reduce-initials", true)
}

// selfStore: a container stored in itself (d.Add(d), o.Set("me", o)) — receiver, argument and element at once.  The
// heap is then cyclic, which the model and the snapshots do not cover (they would not terminate), so this is an
// implementation-side monitor that only uses calls which do not walk the cycle: the stored element is the identical
// value, through every way of reading one element, for plain containers and for user types embedding one.
func (c *Ctx) selfStore(prop string) {
	m := c.M
	m.Case("self-store")
	same := func(a, b any) bool {
		defer func() { recover() }()
		return a == b
	}
	check := func(what string, f func() (got, want any)) {
		defer func() {
			if r := recover(); r != nil {
				m.Alarm(prop, fmt.Sprintf("self-store: %s panics: %v", what, r))
			}
		}()
		if got, want := f(); !same(got, want) {
			m.Alarm(prop, fmt.Sprintf("self-store: %s: the element read back is not the identical value that was stored (%T %p, stored %T %p)", what, got, got, want, want))
		}
	}
	mkL := map[string]func() at.List{
		"plain list": func() at.List { return at.NewList(1) },
		"derived list": func() at.List {
			d := &DerivedList{List: at.NewList(1)}
			d.Init(d)
			return d
		},
		"doubly derived list": func() at.List {
			d := &DerivedList{List: at.NewList(1)}
			d.Init(d)
			dd := &DerivedList{List: d}
			dd.Init(dd)
			return dd
		},
	}
	for name, mk := range mkL {
		for _, how := range []string{"Add", "Insert-end", "Insert-0", "Replace", "SetTF-end", "SetTF-0"} {
			l := mk()
			pos := 1
			switch how {
			case "Add":
				l.Add(l)
			case "Insert-end":
				l.Insert(l.Count(), l)
			case "Insert-0":
				l.Insert(0, l)
				pos = 0
			case "Replace":
				l.Replace(0, l)
				pos = 0
			case "SetTF-end":
				l.SetTF("#1", l)
			case "SetTF-0":
				l.SetTF("#0", l)
				pos = 0
			}
			w := name + " stored in itself by " + how
			check(w+", Get", func() (any, any) { return l.Get(pos), l })
			check(w+", GetList", func() (any, any) { return l.GetList(pos), l })
			check(w+", GetTF", func() (any, any) { return l.GetTF("#" + strconv.Itoa(pos)), l })
			check(w+", ListSlice", func() (any, any) { return l.ListSlice()[0], l })
			check(w+", Slice", func() (any, any) { return l.Slice()[pos], l })
			check(w+", ForEachList", func() (any, any) {
				var got any
				l.ForEachList(func(x at.List) { got = x })
				return got, l
			})
			check(w+", TypeOf", func() (any, any) { return l.TypeOf(pos), at.TypeList })
			check(w+", IndexOf", func() (any, any) { return l.IndexOf(l), pos })
			check(w+", Ego", func() (any, any) { return l.Ego(), l })
		}
	}
	mkO := map[string]func() at.Object{
		"plain object": func() at.Object { return at.NewObject("a", 1) },
		"derived object": func() at.Object {
			d := &DerivedObject{Object: at.NewObject("a", 1)}
			d.Init(d)
			return d
		},
	}
	for name, mk := range mkO {
		for _, how := range []string{"Set", "SetTF", "Set-over"} {
			o := mk()
			key := "me"
			switch how {
			case "Set":
				o.Set("me", o)
			case "SetTF":
				o.SetTF(".me", o)
			case "Set-over":
				o.Set("a", o)
				key = "a"
			}
			w := name + " stored in itself by " + how
			check(w+", Get", func() (any, any) { return o.Get(key), o })
			check(w+", GetObject", func() (any, any) { return o.GetObject(key), o })
			check(w+", GetTF", func() (any, any) { return o.GetTF("." + key), o })
			check(w+", Dict", func() (any, any) { return o.Dict()[key], o })
			check(w+", TypeOf", func() (any, any) { return o.TypeOf(key), at.TypeObject })
			check(w+", KeyOf", func() (any, any) { return o.KeyOf(o), key })
			check(w+", ForEachObject", func() (any, any) {
				var got any
				o.ForEachObject(func(x at.Object) { got = x })
				return got, o
			})
		}
	}
	c.St.Eval("self-store:"+prop, true)
}

// panickingCallbacks: a callback that panics at its k-th invocation is a fault in the middle of an iteration.  The
// library does not catch it: the panic value reaches the caller unchanged, the callback has been invoked exactly k+1
// times (the first k+1 invocations of the undisturbed run, in order), the receiver is what it was (same elements,
// identical nested containers), and the next call on the same container behaves as if nothing had happened (no flag,
// lock or partly built result is left behind).  Implementation-side monitor (C14, C09).
func (c *Ctx) panickingCallbacks(prop string) {
	m := c.M
	m.Case("panicking-callbacks")
	type boom struct{ k int }
	nl, no := at.NewList(7), at.NewObject("q", 1)
	base := []any{1, "a", nl, 2.5, true, no, nil, "b", 2, nl}
	show := func(vs []any) string {
		var sb strings.Builder
		for _, v := range vs {
			switch x := v.(type) {
			case at.List, at.Object:
				fmt.Fprintf(&sb, "@%p ", x)
			default:
				fmt.Fprintf(&sb, "%T:%v ", v, v)
			}
		}
		return sb.String()
	}
	type variant struct {
		name string
		run  func(l at.List, cb func(any))
	}
	variants := []variant{
		{"ForEach", func(l at.List, cb func(any)) { l.ForEach(func(i int, x any) { cb(x) }) }},
		{"ForEachValue", func(l at.List, cb func(any)) { l.ForEachValue(func(x any) { cb(x) }) }},
		{"ForEachString", func(l at.List, cb func(any)) { l.ForEachString(func(x string) { cb(x) }) }},
		{"ForEachInt", func(l at.List, cb func(any)) { l.ForEachInt(func(x int) { cb(x) }) }},
		{"ForEachList", func(l at.List, cb func(any)) { l.ForEachList(func(x at.List) { cb(x) }) }},
		{"ForEachObject", func(l at.List, cb func(any)) { l.ForEachObject(func(x at.Object) { cb(x) }) }},
		{"Map", func(l at.List, cb func(any)) { l.Map(func(i int, x any) any { cb(x); return x }) }},
		{"MapValues", func(l at.List, cb func(any)) { l.MapValues(func(x any) any { cb(x); return x }) }},
		{"MapStrings", func(l at.List, cb func(any)) { l.MapStrings(func(x string) any { cb(x); return x }) }},
		{"MapInts", func(l at.List, cb func(any)) { l.MapInts(func(x int) any { cb(x); return x }) }},
		{"MapLists", func(l at.List, cb func(any)) { l.MapLists(func(x at.List) any { cb(x); return x }) }},
		{"Filter", func(l at.List, cb func(any)) { l.Filter(func(x any) bool { cb(x); return true }) }},
		{"FilterStrings", func(l at.List, cb func(any)) { l.FilterStrings(func(x string) bool { cb(x); return true }) }},
		{"FilterInts", func(l at.List, cb func(any)) { l.FilterInts(func(x int) bool { cb(x); return false }) }},
		{"FilterObjects", func(l at.List, cb func(any)) { l.FilterObjects(func(x at.Object) bool { cb(x); return true }) }},
		{"Reduce", func(l at.List, cb func(any)) { l.Reduce(0, func(a, x any) any { cb(x); return a }) }},
		{"ReduceStrings", func(l at.List, cb func(any)) { l.ReduceStrings("", func(a, x string) string { cb(x); return a + x }) }},
		{"ReduceInts", func(l at.List, cb func(any)) { l.ReduceInts(0, func(a, x int) int { cb(x); return a + x }) }},
		{"IntMin", nil}, // placeholders keep the table aligned with the documentation; nil entries are skipped
	}
	for _, v := range variants {
		if v.run == nil {
			continue
		}
		l := at.NewList(base...)
		var full []any
		v.run(l, func(x any) { full = append(full, x) })
		for k := 0; k < len(full); k++ {
			var seen []any
			var got any
			func() {
				defer func() { got = recover() }()
				v.run(l, func(x any) {
					seen = append(seen, x)
					if len(seen) == k+1 {
						panic(boom{k})
					}
				})
			}()
			if got != any(boom{k}) {
				m.Alarm(prop, fmt.Sprintf("panicking callback: %s with a function that panics at its invocation %d: the caller recovers %v, the function panicked with %v", v.name, k, got, boom{k}))
			}
			if show(seen) != show(full[:k+1]) {
				m.Alarm(prop, fmt.Sprintf("panicking callback: %s, panic at invocation %d: the function was handed [%s], the undisturbed run hands over [%s] first", v.name, k, show(seen), show(full[:k+1])))
			}
			if show(l.Slice()) != show(base) {
				m.Alarm(prop, fmt.Sprintf("panicking callback: %s, panic at invocation %d: the list is [%s] afterwards, it was [%s]", v.name, k, show(l.Slice()), show(base)))
			}
			var again []any
			if !within(5*time.Second, func() { v.run(l, func(x any) { again = append(again, x) }) }) {
				m.Alarm(prop, fmt.Sprintf("panicking callback: the call of %s after one whose function panicked at invocation %d does not return", v.name, k))
				return
			}
			if show(again) != show(full) {
				m.Alarm(prop, fmt.Sprintf("panicking callback: %s after a call whose function panicked at invocation %d hands over [%s], before it handed over [%s]", v.name, k, show(again), show(full)))
			}
		}
	}
	// objects: the order of the fields is not fixed, so only counts, the panic value, the receiver and the next call
	o := at.NewObject("a", 1, "b", "s", "c", nl, "d", no, "e", nil, "f", 2)
	before := o.Dict()
	ovariants := []struct {
		name string
		run  func(cb func(string))
	}{
		{"ForEach", func(cb func(string)) { o.ForEach(func(k string, x any) { cb(k) }) }},
		{"ForEachValue", func(cb func(string)) { o.ForEachValue(func(x any) { cb("") }) }},
		{"ForEachInt", func(cb func(string)) { o.ForEachInt(func(x int) { cb("") }) }},
		{"Map", func(cb func(string)) { o.Map(func(k string, x any) any { cb(k); return x }) }},
		{"MapValues", func(cb func(string)) { o.MapValues(func(x any) any { cb(""); return x }) }},
		{"MapInts", func(cb func(string)) { o.MapInts(func(x int) any { cb(""); return x }) }},
	}
	for _, v := range ovariants {
		total := 0
		v.run(func(string) { total++ })
		for k := 0; k < total; k++ {
			n := 0
			var got any
			func() {
				defer func() { got = recover() }()
				v.run(func(string) {
					n++
					if n == k+1 {
						panic(boom{k})
					}
				})
			}()
			if got != any(boom{k}) || n != k+1 {
				m.Alarm(prop, fmt.Sprintf("panicking callback: object %s with a function that panics at its invocation %d: recovered %v after %d invocations", v.name, k, got, n))
			}
			after := o.Dict()
			same := len(after) == len(before)
			for key, val := range before {
				if after[key] != val {
					same = false
				}
			}
			if !same {
				m.Alarm(prop, fmt.Sprintf("panicking callback: object %s, panic at invocation %d: the object is %v afterwards, it was %v", v.name, k, after, before))
			}
			again := 0
			if !within(5*time.Second, func() { v.run(func(string) { again++ }) }) || again != total {
				m.Alarm(prop, fmt.Sprintf("panicking callback: object %s after a call whose function panicked: %d invocations, before %d", v.name, again, total))
			}
		}
	}
	c.St.Eval("panicking-callbacks:"+prop, true)
}
