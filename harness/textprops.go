package main

// Pure-function records: stdlib conformance, serialiser / parser round trips (C01–C04),
// Equals (C07), FormatString (C16), error lines (C20).

import (
	"encoding/hex"
	"fmt"
	"math"
	"os"
	"path/filepath"
	"strconv"
	"strings"
	"unicode"
	"unicode/utf8"

	at "github.com/DanielSvub/anytype"
)

func init() {
	props["STD"] = runSTD
	props["C01"] = runC01
	props["C02"] = runC01 // same strata, separate verdict
	props["C03"] = runC03
	props["C04"] = runC04
	props["C07"] = runC07
	props["C16"] = runC16
	props["C20"] = runC20
}

func (c *Ctx) fn(name string, fields ...string) {
	c.M.emit("fn\t" + name + "\t" + strings.Join(fields, "\t"))
	if len(heldAlarms) > 0 {
		c.M.flushHeldAlarms()
	}
}

// ---------------------------------------------------------------- parser observation

func errKind(err error) string {
	msg := err.Error()
	line := "-"
	if mm := lineRe.FindStringSubmatch(msg); mm != nil {
		line = mm[1]
	}
	k := "io"
	switch {
	case msg == "not an UTF-8 encoding":
		k = "notUtf8"
	case strings.HasSuffix(msg, "unexpected end of input"):
		k = "unexpectedEnd"
	case strings.Contains(msg, "not a valid JSON - invalid value"):
		k = "invalidValue"
	case strings.Contains(msg, "not a valid JSON - expecting '\"'"):
		k = "expectQuote"
	case strings.Contains(msg, "not a valid JSON - expecting ':'"):
		k = "expectColon"
	case strings.Contains(msg, "not a valid JSON - expecting ',' or '}'"):
		k = "expectCommaBrace"
	case strings.Contains(msg, "not a valid JSON - missing"):
		k = "missingBracket"
	}
	return "err " + k + " " + line
}

func onceParse(root byte, input string) (res string) {
	defer func() {
		if r := recover(); r != nil {
			res = "panic:" + hx(fmt.Sprint(r))
		}
	}()
	var c any
	var err error
	var isNil bool
	if root == 'L' {
		l, e := at.ParseList(input)
		c, err, isNil = l, e, l == nil
		holdError(e, "ParseList")
	} else {
		o, e := at.ParseObject(input)
		c, err, isNil = o, e, o == nil
		holdError(e, "ParseObject")
	}
	switch {
	case !isNil && err == nil:
		return "ok " + treeOf(c).Token()
	case isNil && err != nil:
		return errKind(err)
	case isNil:
		return "neither"
	default:
		return "both"
	}
}

func obsParse(root byte, input string) string {
	a := onceParse(root, input)
	b := onceParse(root, input)
	if a != b {
		return "nondet"
	}
	return a
}

func (c *Ctx) parseLine(root byte, input string, expect string) string {
	if rtCount++; rtCount%23 == 0 {
		poisonParses()
	}
	obs := obsParse(root, input)
	c.M.flushHeldAlarms()
	c.fn("parse", string(root), hex.EncodeToString([]byte(input)), obs, expect)
	k := obs
	if i := strings.IndexByte(k, ' '); i > 0 {
		if strings.HasPrefix(k, "err ") {
			k = strings.Join(strings.Fields(k)[:2], " ")
		} else {
			k = k[:i]
		}
	}
	c.St.Count("parse_outcome " + k)
	return obs
}

// poisonParses: between the judged records the library is handed inputs it rejects or repairs (unknown and truncated
// escapes inside otherwise complete strings, text cut inside a string / literal / key, ill-formed UTF-8, stray
// brackets).  Nothing is recorded: what matters is that a failed or repaired call leaves no state behind that a later,
// judged call could pick up (a pooled buffer that is only reset on success, a pending key or line counter).
var poisonDocs = []string{`["left\xtrunc"]`, `["left\u12"]`, `{"k\qey":1}`, `["abc`, `["abc\`, `[tru`, `{"pending":`, `{"pending"`, "[\"\xff\"]", `[1,2`,
	`{"a":{"b":[1,{"c":"d`, `["\ud800"]`, `["\ud83d\u0041tail"]`, `]`, `}`, ``, `{"a":1}}`, "[\n\n\n\"x\\", `["ok","left\u00"]`}
var poisonCount int

func poisonParses() {
	poisonCount++
	for i := 0; i < 3; i++ {
		d := poisonDocs[(poisonCount*3+i)%len(poisonDocs)]
		func() {
			defer func() { recover() }()
			at.ParseList(d)
		}()
		func() {
			defer func() { recover() }()
			at.ParseObject(d)
		}()
	}
}

var rtCount int

// rtLine: String(), parse it back, Equals, and once more.
func (c *Ctx) rtLine(t *Tree) {
	if rtCount++; rtCount%23 == 0 {
		poisonParses()
	}
	root := byte('L')
	if t.K == '{' {
		root = 'O'
	}
	var text, pres, eq, pres2 string
	func() {
		defer func() {
			if r := recover(); r != nil {
				pres = "panic:" + hx(fmt.Sprint(r))
			}
		}()
		eq, pres2 = "-", "-"
		if root == 'L' {
			l := t.Build().(at.List)
			text = holdString(l.String(), "List.String")
			pres = obsParse(root, text)
			if p, err := at.ParseList(text); err == nil && p != nil {
				eq = btok(p.Equals(l) && l.Equals(p))
				pres2 = obsParse(root, p.String())
			}
		} else {
			o := t.Build().(at.Object)
			text = holdString(o.String(), "Object.String")
			pres = obsParse(root, text)
			if p, err := at.ParseObject(text); err == nil && p != nil {
				eq = btok(p.Equals(o) && o.Equals(p))
				pres2 = obsParse(root, p.String())
			}
		}
	}()
	c.fn("rt", string(root), t.Token(), "s"+hx(text), pres, eq, pres2)
}

// serContainer / fmtContainer / rtContainer: the same records as serLine-style checks, for a container that
// came into being through another operation (parsed from a lenient spelling, cloned, mapped, ...).
func (c *Ctx) rtContainer(v any) {
	root := byte('L')
	if _, ok := v.(at.Object); ok {
		root = 'O'
	}
	t := treeOf(v)
	var text, pres, eq, pres2 string
	func() {
		defer func() {
			if r := recover(); r != nil {
				pres = "panic:" + hx(fmt.Sprint(r))
			}
		}()
		eq, pres2 = "-", "-"
		if root == 'L' {
			l := v.(at.List)
			text = holdString(l.String(), "List.String")
			pres = obsParse(root, text)
			if p, err := at.ParseList(text); err == nil && p != nil {
				eq = btok(p.Equals(l) && l.Equals(p))
				pres2 = obsParse(root, p.String())
			}
		} else {
			o := v.(at.Object)
			text = holdString(o.String(), "Object.String")
			pres = obsParse(root, text)
			if p, err := at.ParseObject(text); err == nil && p != nil {
				eq = btok(p.Equals(o) && o.Equals(p))
				pres2 = obsParse(root, p.String())
			}
		}
	}()
	c.fn("rt", string(root), t.Token(), "s"+hx(text), pres, eq, pres2)
}

func (c *Ctx) fmtContainer(v any, n int) {
	t := treeOf(v)
	obs := guard(func() string {
		if l, ok := v.(at.List); ok {
			return "s" + hx(l.FormatString(n))
		}
		return "s" + hx(v.(at.Object).FormatString(n))
	})
	c.fn("fmt", t.Token(), itok(n), obs)
}

// lenientDocs: documents the lenient parser accepts although they are not JSON (the results are ordinary
// containers: what String() prints for them must be JSON again).
var lenientDocs = []string{
	`[.5, 5., +1.5, 00.5, 0x1p-2, 1_0.5, -.25, 1e5, 1E+5, 0x10, 010, +5, 1_000, 0b101, 0o17, t, T, True, f, FALSE]`,
	`{"a": .5, "b": 5., "c": +2.5, "d": 01.5, "e": 0x1.8p1, "f": [ .75 ], "g": t}`,
	`[1 2, "a"xyz, [ 3 ] , ]`,
	`{"k":"v" junk, "l":[1]"m":2, "n":{},}`,
	`["\u00e9\/\n", "\ud83d\ude00", "tab\there"]`,
	`{"s\"q": "x\"}", "t": "\\"}`,
	"[1.0, 2.50, -0.0, 100e-2, 0.1e1]",
}

func (c *Ctx) parsedSources() []any {
	var out []any
	for _, d := range lenientDocs {
		if d[0] == '[' {
			if l, err := at.ParseList(d); err == nil {
				out = append(out, l, l.Clone(), l.SubList(0, 0), l.Map(func(i int, v any) any { return v }), l.Filter(func(any) bool { return true }))
				if l.Count() > 1 {
					out = append(out, at.NewList(l.Get(0), l.Get(1)), l.Concat(l))
				}
			}
		} else {
			if o, err := at.ParseObject(d); err == nil {
				out = append(out, o, o.Clone(), o.Merge(at.NewObject()), o.Values(), o.Map(func(k string, v any) any { return v }))
			}
		}
	}
	return out
}

func list1(x *Tree) *Tree { return &Tree{K: '[', Xs: []*Tree{x}} }
func obj1(k string, x *Tree) *Tree {
	return &Tree{K: '{', Keys: []string{k}, Xs: []*Tree{x}}
}
func tStr(s string) *Tree    { return &Tree{K: 's', S: s} }
func tInt(i int) *Tree       { return &Tree{K: 'i', I: i} }
func tFloat(f float64) *Tree { return &Tree{K: 'd', F: f} }

// codePoints yields the code points of the sweep: all of them in thorough, a boundary-rich subset in quick.
func (c *Ctx) codePoints() []rune {
	var out []rune
	if !c.Quick {
		for cp := rune(0); cp <= 0x10FFFF; cp++ {
			if utf8.ValidRune(cp) {
				out = append(out, cp)
			}
		}
		return out
	}
	seen := map[rune]bool{}
	add := func(cp rune) {
		if cp >= 0 && utf8.ValidRune(cp) && !seen[cp] {
			seen[cp] = true
			out = append(out, cp)
		}
	}
	for cp := rune(0); cp < 0x0800; cp++ {
		add(cp)
	}
	for _, b := range []rune{0x0800, 0x1000, 0x1680, 0x2000, 0x200A, 0x2028, 0x2029, 0x202F, 0x205F, 0x3000, 0xD7FF, 0xE000, 0xFEFF, 0xFFFD, 0xFFFF,
		0x10000, 0x1F600, 0x1FFFF, 0x20000, 0xE0001, 0xE01EF, 0xF0000, 0xFFFFF, 0x100000, 0x10FFFF} {
		for d := rune(-2); d <= 2; d++ {
			add(b + d)
		}
	}
	for p := rune(1); p <= 16; p++ {
		add(p * 0x10000)
		add(p*0x10000 + 0xFFFF)
	}
	for i := 0; i < 2000; i++ {
		add(rune(c.R.Intn(0x110000)))
	}
	return out
}

func floatSweep(c *Ctx) []float64 {
	var fs []float64
	fs = append(fs, interestingFloats...)
	for e := -1074; e <= 1023; e += c.N(7, 1) {
		x := math.Ldexp(1, e)
		fs = append(fs, x, math.Nextafter(x, 0), math.Nextafter(x, math.Inf(1)), -x)
	}
	for e := -323; e <= 308; e += c.N(5, 1) {
		x, _ := strconv.ParseFloat("1e"+strconv.Itoa(e), 64)
		fs = append(fs, x, math.Nextafter(x, 0), math.Nextafter(x, math.Inf(1)))
	}
	for w := -1000000; w <= 1000000; w += 997 {
		fs = append(fs, float64(w))
	}
	for i := 0; i < c.N(3000, 60000); i++ {
		fs = append(fs, c.R.FiniteFloat())
	}
	return fs
}

func runC01(c *Ctx) {
	r := c.R
	c.St.Rule = "value trees over the seven kinds, serialised, parsed back, compared and round-tripped once more; non-trivial = the tree has a non-int element and depth >= 1; distinct by hash of the tree"
	// every code point as a one-character string value and as a key
	cps := c.codePoints()
	for _, cp := range cps {
		s := string(cp)
		t := &Tree{K: '[', Xs: []*Tree{tStr(s), obj1(s, tStr("x"+s+"y"))}}
		c.rtLine(t)
		c.St.Eval("cp:"+s, true)
	}
	c.St.Count(fmt.Sprintf("code_points_swept %d", len(cps)))
	if !c.Quick {
		c.St.Exhaustive = append(c.St.Exhaustive, "every Unicode scalar value (1 112 064) as a one-character string value and object key")
	}
	// floats
	for _, f := range floatSweep(c) {
		if math.IsInf(f, 0) || math.IsNaN(f) {
			continue
		}
		c.rtLine(&Tree{K: '[', Xs: []*Tree{tFloat(f), obj1("f", tFloat(-f))}})
		c.St.Eval(tokFloat(f), true)
	}
	// ints
	for k := uint(0); k < 64; k++ {
		for d := -1; d <= 1; d++ {
			v := int(uint64(1)<<k) + d
			c.rtLine(list1(tInt(v)))
			c.rtLine(obj1("i", tInt(-v)))
			c.St.Eval("i"+strconv.Itoa(v), false)
		}
	}
	c.omoList("C01")
	c.omoObj("C01")
	for _, v := range c.parsedSources() {
		c.rtContainer(v)
	}
	// long strings and long lists
	long := make([]*Tree, 1100)
	for i := range long {
		long[i] = tInt(i)
	}
	c.rtLine(&Tree{K: '[', Xs: long})
	c.rtLine(list1(tStr(strings.Repeat("ab\\\"é\n", 2000))))
	// empty containers, nesting
	c.rtLine(&Tree{K: '['})
	c.rtLine(&Tree{K: '{'})
	for _, depth := range []int{1, 2, 10, c.N(200, 2000)} {
		t := &Tree{K: '[', Xs: []*Tree{tFloat(2)}}
		for i := 0; i < depth; i++ {
			if i%2 == 0 {
				t = obj1("k", t)
			} else {
				t = list1(t)
			}
		}
		c.rtLine(t)
	}
	// random trees
	opts := &TreeOpts{MaxDepth: 6, MaxWidth: 8}
	for i := 0; i < c.N(3000, 60000); i++ {
		t := r.Container(opts, "[{"[r.Intn(2)])
		c.rtLine(t)
		c.St.Eval(t.Token(), t.Depth() >= 1 && hasNonInt(t))
		c.St.Count(fmt.Sprintf("tree_depth_%d", t.Depth()))
	}
	c.fileStratum("C01", 20)
}

func hasNonInt(t *Tree) bool {
	if t.K != 'i' && t.K != '[' && t.K != '{' {
		return true
	}
	for _, x := range t.Xs {
		if hasNonInt(x) {
			return true
		}
	}
	return false
}

// ---------------------------------------------------------------- C03: grammar-directed JSON

type jsonGen struct {
	r  *Rng
	sb strings.Builder
}

func (g *jsonGen) ws() {
	for g.r.Chance(30) {
		g.sb.WriteByte(" \t\n\r"[g.r.Intn(4)])
	}
}

// strings that are syntax in some other notation (comments, paths ending in a backslash, quotes of other languages):
// a reader with an extension for such notation must still read them as the strings they are
var otherSyntax = []string{"C:\\", "\\", "\\\\", "http://x", "/*", "*/ x", "//", "a//b", "/* c */", "# c", "<!-- -->", "'q'", "a\\\"", "--", ";", "\\n", "${x}", "%s", "\\u0041"}

func (g *jsonGen) str() {
	g.sb.WriteByte('"')
	if g.r.Chance(12) {
		for _, cp := range otherSyntax[g.r.Intn(len(otherSyntax))] {
			g.char(cp)
		}
		g.sb.WriteByte('"')
		return
	}
	n := g.r.Intn(6)
	for i := 0; i < n; i++ {
		cp := g.r.Rune()
		g.char(cp)
	}
	g.sb.WriteByte('"')
}

// char writes one character of a string literal with a random legal spelling.
func (g *jsonGen) char(cp rune) {
	hexf := "%04x"
	if g.r.Bool() {
		hexf = "%04X"
	}
	mustEscape := cp < 0x20 || cp == '"' || cp == '\\'
	short := map[rune]string{'"': `\"`, '\\': `\\`, '/': `\/`, 8: `\b`, 12: `\f`, 10: `\n`, 13: `\r`, 9: `\t`}
	choice := g.r.Intn(3)
	if s, ok := short[cp]; ok && choice == 0 {
		g.sb.WriteString(s)
		return
	}
	if mustEscape || choice == 1 {
		if cp >= 0x10000 {
			v := cp - 0x10000
			g.sb.WriteString(fmt.Sprintf(`\u`+hexf+`\u`+hexf, 0xD800+(v>>10), 0xDC00+(v&0x3FF)))
		} else {
			g.sb.WriteString(fmt.Sprintf(`\u`+hexf, cp))
		}
		return
	}
	g.sb.WriteRune(cp)
}

func (g *jsonGen) number() {
	r := g.r
	if r.Bool() {
		g.sb.WriteByte('-')
	}
	switch r.Intn(5) {
	case 0:
		g.sb.WriteByte('0')
	case 1:
		g.sb.WriteString(strconv.Itoa(1 + r.Intn(9)))
		for r.Chance(60) {
			g.sb.WriteByte(byte('0' + r.Intn(10)))
		}
	case 2:
		g.sb.WriteString([]string{"9223372036854775807", "9223372036854775808", "9223372036854775809", "18446744073709551616", "123456789012345678901234567890", "1000000", "4611686018427387904"}[r.Intn(7)])
	default:
		g.sb.WriteString(strconv.Itoa(r.Intn(1000)))
	}
	if r.Chance(40) {
		g.sb.WriteByte('.')
		g.sb.WriteByte(byte('0' + r.Intn(10)))
		for r.Chance(60) {
			g.sb.WriteByte(byte('0' + r.Intn(10)))
		}
	}
	if r.Chance(30) {
		g.sb.WriteByte("eE"[r.Intn(2)])
		switch r.Intn(3) {
		case 0:
			g.sb.WriteByte('+')
		case 1:
			g.sb.WriteByte('-')
		}
		g.sb.WriteString(strconv.Itoa(r.Intn(40)))
		if r.Chance(10) {
			g.sb.WriteString(strconv.Itoa(r.Intn(20)))
		}
	}
}

func (g *jsonGen) value(depth int) {
	r := g.r
	x := r.Intn(10)
	if depth >= 5 && x >= 7 {
		x = r.Intn(7)
	}
	switch {
	case x == 0:
		g.sb.WriteString("null")
	case x == 1:
		g.sb.WriteString("true")
	case x == 2:
		g.sb.WriteString("false")
	case x < 5:
		g.number()
	case x < 7:
		g.str()
	case x < 9:
		g.array(depth + 1)
	default:
		g.object(depth + 1)
	}
}

func (g *jsonGen) array(depth int) {
	g.sb.WriteByte('[')
	g.ws()
	n := g.r.Intn(5)
	for i := 0; i < n; i++ {
		if i > 0 {
			g.sb.WriteByte(',')
			g.ws()
		}
		g.value(depth)
		g.ws()
	}
	g.sb.WriteByte(']')
}

func (g *jsonGen) object(depth int) {
	g.sb.WriteByte('{')
	g.ws()
	n := g.r.Intn(5)
	for i := 0; i < n; i++ {
		if i > 0 {
			g.sb.WriteByte(',')
			g.ws()
		}
		if g.r.Chance(25) {
			g.sb.WriteString([]string{`"a"`, `"b"`, `"a"`, `""`}[g.r.Intn(4)]) // duplicates, also by different spellings
		} else {
			g.str()
		}
		g.ws()
		g.sb.WriteByte(':')
		g.ws()
		g.value(depth)
		g.ws()
	}
	g.sb.WriteByte('}')
}

func runC03(c *Ctx) {
	r := c.R
	c.St.Rule = "RFC 8259 documents generated from the grammar with random whitespace, escape spellings, number spellings and duplicate keys; non-trivial = contains a string escape, a fraction/exponent or a nested container; distinct by document text"
	// every escape spelling of boundary code points, in a value and in a key
	for _, cp := range c.codePoints() {
		if c.Quick && cp >= 0x800 && r.Intn(4) != 0 {
			continue
		}
		for variant := 0; variant < 3; variant++ {
			g := &jsonGen{r: r}
			g.sb.WriteString(`["`)
			g.char(cp)
			g.sb.WriteString(`",{"`)
			g.char(cp)
			g.sb.WriteString(`":1}]`)
			c.parseLine('L', g.sb.String(), "valid")
		}
		c.St.Eval("esc:"+string(cp), true)
	}
	// surrogate pairs
	pairs := [][2]int{{0xD800, 0xDC00}, {0xD800, 0xDFFF}, {0xDBFF, 0xDC00}, {0xDBFF, 0xDFFF}, {0xD83D, 0xDE00}, {0xDB40, 0xDC01}}
	for i := 0; i < c.N(2000, 200000); i++ {
		pairs = append(pairs, [2]int{0xD800 + r.Intn(0x400), 0xDC00 + r.Intn(0x400)})
	}
	for _, p := range pairs {
		f := `["\u%04x\u%04X"]`
		c.parseLine('L', fmt.Sprintf(f, p[0], p[1]), "valid")
		c.parseLine('O', fmt.Sprintf(`{"\u%04X\u%04x":"k"}`, p[0], p[1]), "valid")
	}
	// grammar-directed random documents
	for i := 0; i < c.N(6000, 120000); i++ {
		g := &jsonGen{r: r}
		root := byte('L')
		g.ws()
		if r.Bool() {
			g.array(0)
		} else {
			root = 'O'
			g.object(0)
		}
		g.ws()
		doc := g.sb.String()
		c.parseLine(root, doc, "valid")
		c.St.Eval(doc, strings.ContainsAny(doc, `\.eE`) || strings.Count(doc, "[")+strings.Count(doc, "{") > 1)
	}
	c.escapeCorners()
	// a parse result is a fresh tree: mutating an earlier result never shows in a later parse
	c.M.Case("parse-mutate-parse")
	for rep := 0; rep < 3; rep++ {
		p1 := c.M.Parse('L', `[[],[ ],{},{"a":[]},"s",[[]]]`)
		if p1 != "" {
			c.M.Add(c.M.tokVal(c.M.L(p1).Get(0)), gvStr("filled"), gvInt(42))
			c.M.OSet(c.M.tokVal(c.M.L(p1).Get(2)), gvStr("k"), gvInt(1))
			c.M.SetTF(p1, "#3.a#0", gvInt(7))
			c.M.SetTF(p1, "#5#0#0", gvInt(8))
		}
		c.M.Parse('L', `[[],[ ],{},{"a":[]},"s",[[]]]`)
		p2 := c.M.Parse('O', `{"e":[],"o":{},"n":{"e":[]}}`)
		if p2 != "" {
			c.M.OSetTF(p2, ".e#0", gvInt(1))
			c.M.OSetTF(p2, ".o.k", gvInt(1))
			c.M.OSetTF(p2, ".n.e#1", gvInt(1))
		}
		c.M.Parse('O', `{"e":[],"o":{},"n":{"e":[]}}`)
		c.parseLine('L', `[[],{}]`, "valid")
		c.parseLine('O', `{"e":[],"o":{}}`, "valid")
	}
	// duplicate member names in different spellings: the LAST one wins, whatever the iteration order of the map
	for rep := 0; rep < 12; rep++ {
		c.parseLine('O', `{"a":1,"\u0061":2,"b":3,"\u0062":4,"\/":5,"/":6}`, "valid")
		c.parseLine('O', `{"\u0061":1,"a":2,"x":{"k":1,"\u006b":2,"\u006B":3}}`, "valid")
		c.parseLine('L', `[{"a":1,"\u0061":2,"a":3},{"":1,"":2}]`, "valid")
	}
	// number spellings one by one
	for _, n := range []string{"0", "-0", "1", "-1", "10", "9223372036854775807", "-9223372036854775808", "9223372036854775808", "-9223372036854775809",
		"0.0", "-0.0", "1.0", "1e0", "1E0", "1e+0", "1e-0", "0e0", "1.5e300", "1e308", "1.7976931348623157e308", "5e-324", "4.9e-324", "2.4703282292062328e-324", "1e-400",
		"0.1", "0.30000000000000004", "123456789012345678", "1234567890123456789012", "100000000000000000000", "2.2250738585072011e-308", "1e23", "8.5", "0.000001", "1e6", "1000000.0"} {
		c.parseLine('L', "["+n+"]", "valid")
		c.parseLine('O', `{"n":`+n+`}`, "valid")
		c.parseLine('L', "[ "+n+" , "+n+"\n]", "valid")
		c.St.Eval("num:"+n, true)
	}
	c.fileStratum("C03", 20)
}

// ---------------------------------------------------------------- C04

var c04Alphabet = []string{"[", "]", "{", "}", "\"", "\\", ",", ":", " ", "\n", "1", "a", "-", "é"}

func runC04(c *Ctx) {
	r := c.R
	c.St.Rule = "byte strings: all strings up to length k over a 14-symbol alphabet of parser character classes, every cut point of serialised trees, ill-formed UTF-8 of five kinds at every position, byte mutations, random bytes, files; non-trivial = length >= 3; distinct by content"
	// small-scope exhaustive
	k := c.N(4, 5)
	var rec func(prefix string, depth int)
	count := 0
	rec = func(prefix string, depth int) {
		if depth > 0 {
			c.parseLine('L', "["+prefix, "-")
			c.parseLine('O', "{"+prefix, "-")
			count += 2
			c.St.Eval("exh:"+prefix, depth >= 2)
		}
		if depth == k {
			return
		}
		for _, s := range c04Alphabet {
			rec(prefix+s, depth+1)
		}
	}
	rec("", 0)
	c.St.Exhaustive = append(c.St.Exhaustive, fmt.Sprintf("all %d strings of length <= %d over the alphabet %q after each root bracket", count/2, k, c04Alphabet))
	// cut points of serialised trees
	opts := &TreeOpts{MaxDepth: 4, MaxWidth: 5}
	for i := 0; i < c.N(150, 3000); i++ {
		t := r.Container(opts, "[{"[r.Intn(2)])
		root := byte('L')
		var text string
		if t.K == '{' {
			root = 'O'
			text = t.Build().(at.Object).String()
		} else {
			text = t.Build().(at.List).String()
		}
		c.parseLine(root, text, "-")
		for cut := 0; cut < len(text); cut++ {
			c.parseLine(root, text[:cut], "err")
		}
		c.St.Eval("cut:"+text, len(text) >= 3)
		// ill-formed UTF-8 between the root brackets
		bad := []string{"\x80", "\xC3", "\xE2\x82", "\xC0\xAF", "\xE0\x80\x80", "\xED\xA0\x80", "\xF5\x80\x80\x80", "\xFF", "\xF4\x90\x80\x80", "\xF0\x9F\x98",
			// lone lead bytes of every length class and the proper prefixes of U+FFFD's own encoding (a test written as
			// "the decoder answered RuneError, but the text really says U+FFFD" must look at more than the first byte)
			"\xE2", "\xEF", "\xEF\xBF", "\xEF\xBB", "\xF0", "\xF0\x9F", "\xBF", "\xBD", "\xBF\xBD", "\xEF\xBD"}
		for pos := 1; pos < len(text); pos++ {
			if !c.Quick || r.Intn(3) == 0 {
				b := bad[r.Intn(len(bad))]
				c.parseLine(root, text[:pos]+b+text[pos:], "err")
			}
		}
		// the same sequences after the root close and before the root open are outside the brackets
		c.parseLine(root, text+bad[r.Intn(len(bad))], "-")
		c.parseLine(root, bad[r.Intn(len(bad))]+"\n"+text, "-")
		// byte mutations
		for j := 0; j < 6; j++ {
			b := []byte(text)
			if len(b) == 0 {
				break
			}
			b[r.Intn(len(b))] = byte(r.Intn(256))
			c.parseLine(root, string(b), "-")
		}
	}
	// every proper prefix of String() is rejected also when the container came from the parser, a clone, a map ...
	for _, v := range c.parsedSources() {
		root := byte('L')
		var text string
		if o, ok := v.(at.Object); ok {
			root, text = 'O', o.String()
		} else {
			text = v.(at.List).String()
		}
		c.parseLine(root, text, "-")
		for cut := 0; cut < len(text); cut++ {
			c.parseLine(root, text[:cut], "err")
		}
	}
	// state across calls: rejected inputs with text pending, then ordinary documents; results mutated, then parsed again
	for rep := 0; rep < c.N(20, 200); rep++ {
		for _, bad := range []string{"[tru", "[1,2", `["ab`, "[12\xff]", "[\"abc\x80\"]", `{"k":tru`, `{"ab`, `{"a":"bc`, "[[1,2", `{"a":[1,`} {
			c.parseLine("LO"[map[bool]int{true: 0, false: 1}[bad[0] == '[']], bad, "err")
			c.parseLine('L', "[]", "valid")
			c.parseLine('L', "[e]", "-")
			c.parseLine('L', "[5]", "valid")
			c.parseLine('O', `{"a":1}`, "valid")
			c.parseLine('O', "{}", "valid")
		}
	}
	c.M.Case("parse-mutate-parse")
	for rep := 0; rep < 3; rep++ {
		p1 := c.M.Parse('L', `[[],[ ],{},{"a":[]},"s"]`)
		if p1 != "" {
			c.M.Add(c.M.tokVal(c.M.L(p1).Get(0)), gvStr("filled"), gvInt(42))
			c.M.OSet(c.M.tokVal(c.M.L(p1).Get(2)), gvStr("k"), gvInt(1))
			c.M.SetTF(p1, "#3.a#0", gvInt(7))
		}
		c.M.Parse('L', `[[],[ ],{},{"a":[]},"s"]`)
		c.M.Parse('O', `{"e":[],"o":{}}`)
		p2 := c.M.Parse('O', `{"e":[],"o":{}}`)
		if p2 != "" {
			c.M.OSetTF(p2, ".e#0", gvInt(1))
			c.M.OSetTF(p2, ".o.k", gvInt(1))
		}
		c.M.Parse('O', `{"e":[],"o":{}}`)
	}
	// random bytes
	for i := 0; i < c.N(2000, 40000); i++ {
		n := r.Intn(24)
		b := make([]byte, n)
		for j := range b {
			switch r.Intn(3) {
			case 0:
				b[j] = byte(r.Intn(256))
			default:
				const pool = "[]{}\",:\\ \n\t0123456789-+.eEtruefalsn"
				b[j] = pool[r.Intn(len(pool))]
			}
		}
		c.parseLine("LO"[r.Intn(2)], string(b), "-")
		c.St.Eval("rnd:"+string(b), n >= 3)
	}
	// documents without a root bracket
	for _, s := range []string{"", " ", "1", "]", "}", "null", "\n\n", "\xff"} {
		c.parseLine('L', s, "-")
		c.parseLine('O', s, "-")
	}
	c.escapeCorners()
	// ParseFile
	c.fileStratum("C04", c.N(100, 1000))
}

// escapeCorners: escapes the strict grammar rejects or that denote no Unicode string (truncated \u, bad hex, lone
// surrogates at every distance from the closing quote, a backslash before the closing quote, unknown escapes), and the
// lenient repairs (missing comma after a nested value).  Whatever the verdict, the parser has to return.
func (c *Ctx) escapeCorners() {
	// escapes the strict grammar rejects or that denote no Unicode string: truncated \u, bad hex, lone surrogates,
	// a backslash before the closing quote, unknown escapes; and the lenient repairs (missing comma after a nested value)
	for _, body := range []string{`\u12`, `\u`, `\u123`, `\u12G4`, `\ud800`, `\udc00`, `\ud800x`, `\ud800\u0041`, `\udc00\ud800`, `\ud83d\ud83d\ude00`, `\x41`, `\a`, `\'`, `\0`,
		`a\`, `\\\`, `\ud800\`, `\ude00\ud83d`, `\uD800\uDBFF`, `ok\u00e9`, `\ud83d`, `\udbff`, `\ud83dx`, `\ud83dxy`, `\ud83d\`, `\ud83d\u`, `\ud83d\ud`, `\ud83d\ude0`,
		`x\ud83d`, `\ud83d\n`, `\ud83d\\`, `\ud83d\ud83d`, `\ud83d\ude00\ud83d`, `\udbff\udfff\udbff`} {
		c.parseLine('L', `["`+body+`"]`, "-")
		c.parseLine('L', `["`+body+`","x"]`, "-")
		c.parseLine('O', `{"`+body+`":1}`, "-")
		c.parseLine('O', `{"k":"`+body+`"}`, "-")
	}
	// Lone surrogate escapes are RFC 8259-valid text that denotes no Unicode string; the strict decoder of the model leaves
	// them out of C03's domain.  What every reference decoder agrees on is that the characters AROUND such an escape are
	// kept; Go's reference decoder (and this library, since F3) replaces the escape itself by U+FFFD.  Implementation-side
	// monitor: grammar-valid bodies made of \uXXXX escapes and plain characters decode to refUnescape(body).
	hi, lo, bmp := []string{`\ud800`, `\ud83d`, `\uDBFF`}, []string{`\udc00`, `\ude00`, `\uDFFF`}, []string{`\u0041`, `\u00e9`, `\uFFFD`, `\u0000`, `\u005C`, `\u0022`}
	var units []string
	units = append(units, hi...)
	units = append(units, lo...)
	units = append(units, bmp...)
	units = append(units, "x", `\n`, `\\`, "é")
	check := func(body string) {
		want, ok := refUnescape(body)
		if !ok {
			return
		}
		for _, doc := range []struct {
			kind byte
			text string
			get  func(any) (string, bool)
		}{
			{'L', `["` + body + `"]`, func(v any) (string, bool) { l := v.(at.List); return l.GetString(0), l.Count() == 1 }},
			{'L', `[1,"` + body + `","t"]`, func(v any) (string, bool) { l := v.(at.List); return l.GetString(1), l.Count() == 3 && l.GetString(2) == "t" }},
			{'O', `{"k":"` + body + `"}`, func(v any) (string, bool) { o := v.(at.Object); return o.GetString("k"), o.Count() == 1 }},
			{'O', `{"` + body + `":"v"}`, func(v any) (string, bool) {
				o := v.(at.Object)
				ks := o.Keys().StringSlice()
				if len(ks) != 1 {
					return "", false
				}
				return ks[0], o.GetString(ks[0]) == "v"
			}},
		} {
			func() {
				defer func() {
					if r := recover(); r != nil {
						c.M.Alarm("C03", fmt.Sprintf("escapes around a lone surrogate: %s panics: %v", doc.text, r))
					}
				}()
				var v any
				var err error
				if doc.kind == 'L' {
					v, err = at.ParseList(doc.text)
				} else {
					v, err = at.ParseObject(doc.text)
				}
				if err != nil {
					c.M.Alarm("C03", fmt.Sprintf("escapes around a lone surrogate: %s is RFC 8259-valid text and is rejected: %v", doc.text, err))
					return
				}
				got, shape := doc.get(v)
				if !shape || got != want {
					c.M.Alarm("C03", fmt.Sprintf("escapes around a lone surrogate: %s reads the string as %q, a reference decoder (U+FFFD for an unpaired surrogate, everything else kept) reads %q", doc.text, got, want))
				}
			}()
		}
		c.St.Eval("lone:"+body, true)
	}
	for _, a := range units {
		for _, b := range units {
			check(a + b)
			for _, d := range units {
				check(a + b + d)
			}
		}
	}
	for _, doc := range []string{`{"a":[1]"b":2}`, `{"a":{}"b":2}`, `{"a":[1] "b":2}`, `{"a":[1]x}`, `{"a":[1],}`, `{"a":[1]}}`, `[[1]2]`, `[{}"x"]`, `{"a":[1]:}`} {
		c.parseLine("LO"[map[bool]int{true: 0, false: 1}[doc[0] == '[']], doc, "-")
	}
}

// fileStratum: ParseFile must be ParseObject of the file's bytes (checked here), and both must be what the model's
// parseFile says (checked by the driver).  Deterministic documents first: sizes beyond every buffer a reader
// might use, blank space / text before and after the root, line endings, a byte-order mark, ill-formed bytes;
// then nRandom random ones.
func (c *Ctx) fileStratum(prop string, nRandom int) {
	// what each property speaks about: C01 / C03 — documents that are valid (or at least denote a value for the lenient
	// reader); C20 — also documents with an error on a known line; C04 — everything, ill-formed bytes included
	onlyValid := prop == "C01" || prop == "C03"
	withIllFormed := prop == "C04"
	r := c.R
	opts := &TreeOpts{MaxDepth: 3, MaxWidth: 4}
	dir, err := os.MkdirTemp("", "vharness")
	if err != nil {
		return
	}
	defer os.RemoveAll(dir)
	fileLine := func(kind string, content string, path string) {
		var res string
		func() {
			defer func() {
				if rr := recover(); rr != nil {
					res = "panic"
				}
			}()
			o, e := at.ParseFile(path)
			switch {
			case o != nil && e == nil:
				res = "ok " + treeOf(o).Token()
			case o == nil && e != nil:
				if kind == "bytes" {
					res = errKind(e)
				} else {
					res = "err io -"
				}
			case o == nil:
				res = "neither"
			default:
				res = "both"
			}
			if kind == "bytes" {
				// must be exactly what ParseObject returns for the bytes
				if want := onceParse('O', content); want != res {
					res = "file-differs-from-ParseObject:" + hx(want)
				}
			}
		}()
		c.fn("file", kind, hex.EncodeToString([]byte(content)), res)
	}
	n := 0
	put := func(content string) {
		if onlyValid {
			if !utf8.ValidString(content) || !strings.HasPrefix(onceParse('O', content), "ok ") {
				return // judged by the implementation's own ParseObject: the monitor is ParseFile == ParseObject on these
			}
		}
		if !withIllFormed && !utf8.ValidString(content) {
			return
		}
		p := filepath.Join(dir, "f"+strconv.Itoa(n)+".json")
		n++
		os.WriteFile(p, []byte(content), 0o644)
		fileLine("bytes", content, p)
	}
	c.M.Case("file-documents")
	// one line longer than 4 KiB, 64 KiB (bufio's default buffer and token limit) and, in the thorough tier, 200 kB (the model's list accumulator is quadratic)
	for _, size := range []int{5000, 70000, c.N(70001, 200000)} {
		var sb strings.Builder
		sb.WriteString(`{"k":[`)
		for i := 0; sb.Len() < size; i++ {
			if i > 0 {
				sb.WriteByte(',')
			}
			sb.WriteString(strconv.Itoa(i % 1000))
		}
		sb.WriteString(`],"tail":true}`)
		put(sb.String())
		// (the model's string accumulator is quadratic: one long string of full size only in the thorough tier)
		ssize := size
		if ssize > 9000 && !(c.Tier == "thorough" && size == 70000) {
			ssize = 9000
		}
		put(`{"s":"` + strings.Repeat("x", ssize) + `","tail":1}`)
		put(`{"s":"` + strings.Repeat("x", ssize) + `","tail":}`)
		put(strings.Repeat(" ", size) + `{"a":1}`)
		put(`{"a":1}` + strings.Repeat("\n", size/10))
		put("{\"a\":1,\n" + strings.Repeat(" ", size) + "\n\"b\": x}")
	}
	// blank space, blank lines and other text around the root; line endings; errors that cite a line
	bodies := []string{`{"a":1}`, "{\n\"a\":1,\n\"b\":[1,\n2]\n}", "{\n\"a\": x}", "{\n\n\"a\":1,\n\"b\" 2}", "{\"a\":[1,\n{\"c\":tru}]}", "{\n\"a\":\"x\ny\",\n\"b\":}", "{", "{\"a\":1", ""}
	leads := []string{"", "\n", "\n\n\n", "  ", " \n \n", "\r\n\r\n", "\t", "// header\n", "header\n\n", "\xEF\xBB\xBF", "\xEF\xBB\xBF\n", "\u2028", "\u2028\n", "\x00", "[1]\n", "}\n"}
	trails := []string{"", "\n", "\n\n", "  ", " \n\n ", "\r\n", "\n\n\n\n", "x", "\n{}", "\n}", "\u2029\n"}
	for _, b := range bodies {
		for _, l := range leads {
			put(l + b)
			put(l + b + "\n\n")
			put(l + strings.ReplaceAll(b, "\n", "\r\n"))
		}
		for _, t := range trails {
			put(b + t)
			put("\n" + b + t)
			put("\n \n" + b + t)
		}
	}
	// U+2028 / U+2029 / NEL / VT / FF are not line ends
	for _, sep := range []string{"\u2028", "\u2029", "\u0085", "\v", "\f", "\r", "\r\r", "\n\r"} {
		put("{" + sep + "\"a\":1," + sep + "\"b\": x}")
		put("{\"s\":\"p" + sep + "q\"," + sep + "\n\"b\": x}")
	}
	// a list, a scalar, nothing
	for _, s := range []string{"[1,2]", "1", "null", " ", "\n\n", "\"{\"", "\"s\" {\"a\":1}"} {
		put(s)
	}
	for i := 0; i < nRandom; i++ {
		var content string
		switch r.Intn(6) {
		case 0:
			content = r.Container(opts, '{').Build().(at.Object).String()
		case 1:
			g := &jsonGen{r: r}
			g.object(0)
			content = "\n" + g.sb.String()
		case 2:
			content = r.Container(opts, '{').Build().(at.Object).FormatString(2)
			if len(content) > 2 {
				content = content[:r.Intn(len(content))]
			}
		case 3:
			content = "{\"a\":\n\n x}"
		default:
			// ill-formed UTF-8 between the brackets: ParseFile must reject it exactly as ParseObject does
			content = r.Container(opts, '{').Build().(at.Object).String()
			pos := 1 + r.Intn(len(content)-1)
			content = content[:pos] + []string{"\x80", "\xC3", "\xE2\x82", "\xC0\xAF", "\xED\xA0\x80", "\xFF", "\xEF", "\xEF\xBF", "\xF0"}[r.Intn(9)] + content[pos:]
		}
		put(content)
	}
	if !onlyValid {
		fileLine("missing", "", filepath.Join(dir, "does-not-exist.json"))
		fileLine("dir", "", dir)
	}
}

// ---------------------------------------------------------------- C07

func cloneTree(t *Tree) *Tree {
	n := *t
	n.Xs = nil
	n.Keys = append([]string(nil), t.Keys...)
	for _, x := range t.Xs {
		n.Xs = append(n.Xs, cloneTree(x))
	}
	return &n
}

// mutateTree changes the tree in exactly one place at a random depth; returns a description.
func (r *Rng) mutateTree(t *Tree) string {
	// collect nodes
	var nodes []*Tree
	var walk func(x *Tree)
	walk = func(x *Tree) {
		nodes = append(nodes, x)
		for _, y := range x.Xs {
			walk(y)
		}
	}
	walk(t)
	for tries := 0; tries < 20; tries++ {
		n := nodes[r.Intn(len(nodes))]
		switch n.K {
		case 'i':
			if r.Bool() && math.Abs(float64(n.I)) < 1<<52 {
				*n = Tree{K: 'd', F: float64(n.I)}
				return "int->float same value"
			}
			n.I++
			return "int+1"
		case 'd':
			if n.F == math.Trunc(n.F) && math.Abs(n.F) < 1<<52 && r.Bool() {
				*n = Tree{K: 'i', I: int(n.F)}
				return "float->int same value"
			}
			n.F = math.Nextafter(n.F, math.Inf(1))
			return "float next"
		case 'n':
			*n = Tree{K: 'b', B: false}
			return "nil->false"
		case 'b':
			if r.Bool() {
				*n = Tree{K: 'n'}
				return "bool->nil"
			}
			n.B = !n.B
			return "bool flip"
		case 's':
			if n.S == "" {
				*n = Tree{K: 'n'}
				return "empty string->nil"
			}
			n.S += "x"
			return "string+x"
		case '[':
			if n == t && tries < 10 {
				continue
			}
			switch r.Intn(3) {
			case 0:
				n.Xs = append(n.Xs, &Tree{K: 'n'})
				return "element appended"
			case 1:
				if len(n.Xs) > 0 {
					n.Xs = n.Xs[:len(n.Xs)-1]
					return "element removed"
				}
			default:
				if len(n.Xs) > 1 && n.Xs[0].Token() != n.Xs[1].Token() {
					n.Xs[0], n.Xs[1] = n.Xs[1], n.Xs[0]
					return "elements swapped"
				}
			}
		case '{':
			if n == t && tries < 10 {
				continue
			}
			if len(n.Keys) > 0 && r.Bool() {
				i := r.Intn(len(n.Keys))
				nk := n.Keys[i] + "~"
				dup := false
				for _, k := range n.Keys {
					if k == nk {
						dup = true
					}
				}
				if !dup {
					n.Keys[i] = nk
					return "key renamed"
				}
			} else {
				nk := "new~"
				dup := false
				for _, k := range n.Keys {
					if k == nk {
						dup = true
					}
				}
				if !dup {
					n.Keys = append(n.Keys, nk)
					n.Xs = append(n.Xs, &Tree{K: 'n'})
					return "field added"
				}
			}
		}
	}
	return "none"
}

func permuteFields(r *Rng, t *Tree) {
	if t.K == '{' {
		for i := len(t.Xs) - 1; i > 0; i-- {
			j := r.Intn(i + 1)
			t.Xs[i], t.Xs[j] = t.Xs[j], t.Xs[i]
			t.Keys[i], t.Keys[j] = t.Keys[j], t.Keys[i]
		}
	}
	for _, x := range t.Xs {
		permuteFields(r, x)
	}
}

func (c *Ctx) equalsLine(a, b *Tree) (string, string) {
	var ab, ba string
	func() {
		defer func() {
			if r := recover(); r != nil {
				ab, ba = "panic", "panic"
			}
		}()
		if a.K == '[' {
			x, y := a.Build().(at.List), b.Build().(at.List)
			sx, sy := treeOf(x).Token(), treeOf(y).Token()
			ab, ba = btok(x.Equals(y)), btok(y.Equals(x))
			if treeOf(x).Token() != sx || treeOf(y).Token() != sy {
				ab = "modified"
			}
		} else {
			x, y := a.Build().(at.Object), b.Build().(at.Object)
			dx, dy := treeOf(x).Token(), treeOf(y).Token()
			ab, ba = btok(x.Equals(y)), btok(y.Equals(x))
			if treeOf(x).Token() != dx || treeOf(y).Token() != dy {
				ab = "modified"
			}
		}
	}()
	c.fn("equals", a.Token(), b.Token(), ab, ba)
	return ab, ba
}

func runC07(c *Ctx) {
	r := c.R
	c.St.Rule = "pairs (tree, copy with exactly one difference at a random depth, or the same tree with permuted field order), compared in both argument orders; non-trivial = depth >= 1 and size >= 3; distinct by the pair"
	c.nilArguments()
	opts := &TreeOpts{MaxDepth: 5, MaxWidth: 6}
	for i := 0; i < c.N(4000, 80000); i++ {
		a := r.Container(opts, "[{"[r.Intn(2)])
		b := cloneTree(a)
		what := "identical"
		switch r.Intn(4) {
		case 0:
			permuteFields(r, b)
			what = "permuted"
		case 1:
		default:
			what = r.mutateTree(b)
		}
		ab, _ := c.equalsLine(a, b)
		c.St.Count("mutation " + what + " -> " + ab)
		c.St.Eval(a.Token()+"|"+b.Token(), a.Depth() >= 1 && a.Size() >= 3)
		// transitivity witness: a third tree equal to b in another field order
		if i%10 == 0 {
			d := cloneTree(b)
			permuteFields(r, d)
			c.equalsLine(b, d)
			c.equalsLine(a, d)
		}
	}
	c.omoList("C07")
	c.omoObj("C07")
	c.derivedCorners("C07")
	c.cloneSequences()
	c.rawBytes("C07")
	// long lists that differ only near the end, and deep trees that differ at the bottom
	for _, n := range []int{255, 1023, 1024, 1025, 1026, 1027, 1030} {
		for back := 1; back <= 4; back++ {
			a := &Tree{K: '['}
			for i := 0; i < n; i++ {
				a.Xs = append(a.Xs, tInt(i%7))
			}
			b := cloneTree(a)
			b.Xs[n-back] = tFloat(float64((n - back) % 7))
			c.equalsLine(a, b)
			c.equalsLine(obj1("k", a), obj1("k", b))
			c.equalsLine(a, cloneTree(a))
			d := cloneTree(a)
			d.Xs = d.Xs[:n-back] // a proper prefix
			c.equalsLine(a, d)
			c.equalsLine(obj1("k", d), obj1("k", a))
		}
	}
	// sizes at which an implementation may split the comparison into chunks or workers: one difference at the start, in the
	// middle, at a chunk boundary, at the end
	for _, n := range []int{4095, 4096, 4097, c.N(5000, 20000)} {
		a := &Tree{K: '['}
		for i := 0; i < n; i++ {
			a.Xs = append(a.Xs, tInt(i%7))
		}
		c.equalsLine(a, cloneTree(a))
		for _, at := range []int{0, 1, n / 16, n / 4, n / 2, n/2 + 1, n - 2, n - 1} {
			b := cloneTree(a)
			b.Xs[at] = tInt(7)
			c.equalsLine(a, b)
			c.equalsLine(list1(b), list1(a))
		}
	}
	// a container compared with a part of itself (the operands share nodes at different depths): the shapes differ, so they
	// are unequal — in both argument orders; and a separately built twin of the part equals the part, not the whole
	{
		m := c.M
		m.Case("equals-own-part")
		leaf := m.NewList(gvInt(7))
		mid := m.NewList(m.RefGV(leaf))
		top := m.NewList(m.RefGV(mid))
		twinMid := m.NewList(m.RefGV(m.NewList(gvInt(7))))
		for _, p := range [][2]string{{top, mid}, {mid, top}, {mid, leaf}, {leaf, mid}, {top, leaf}, {mid, twinMid}, {twinMid, mid}, {top, twinMid}, {twinMid, top}, {top, top}, {mid, mid}} {
			m.Equals(p[0], p[1])
		}
		o3 := m.NewObject(gvStr("v"), gvInt(1))
		o2 := m.NewObject(gvStr("v"), gvInt(1), gvStr("next"), m.RefGV(o3))
		o1 := m.NewObject(gvStr("v"), gvInt(1), gvStr("next"), m.RefGV(o2))
		twin2 := m.NewObject(gvStr("v"), gvInt(1), gvStr("next"), m.RefGV(m.NewObject(gvStr("v"), gvInt(1))))
		for _, p := range [][2]string{{o1, o2}, {o2, o1}, {o2, o3}, {o3, o2}, {o2, twin2}, {twin2, o2}, {o1, twin2}, {twin2, o1}, {o1, o1}} {
			m.OEquals(p[0], p[1])
		}
		// the same part held twice by one operand, once by the other
		two := m.NewList(m.RefGV(leaf), m.RefGV(leaf))
		one := m.NewList(m.RefGV(leaf), m.RefGV(m.NewList(gvInt(8))))
		m.Equals(two, one)
		m.Equals(one, two)
		wrap := m.NewList(m.RefGV(two))
		m.Equals(wrap, two)
		m.Equals(two, wrap)
		c.St.Eval("equals-own-part", true)
	}
	for _, depth := range []int{64, 65, 300, c.N(600, 3000)} {
		mk := func(leaf *Tree) *Tree {
			t := list1(leaf)
			for i := 0; i < depth; i++ {
				if i%2 == 0 {
					t = obj1("k", t)
				} else {
					t = list1(t)
				}
			}
			return t
		}
		c.equalsLine(mk(tInt(1)), mk(tInt(1)))
		c.equalsLine(mk(tInt(1)), mk(tFloat(1)))
	}
	// hand-picked strictness cases
	pairs := [][2]*Tree{
		{list1(tInt(1)), list1(tFloat(1))},
		{list1(&Tree{K: 'n'}), list1(&Tree{K: 'b'})},
		{list1(&Tree{K: 'n'}), list1(tStr(""))},
		{list1(tInt(0)), list1(&Tree{K: 'n'})},
		{list1(tFloat(0)), list1(tFloat(math.Copysign(0, -1)))},
		{&Tree{K: '['}, list1(&Tree{K: 'n'})},
		{obj1("a", tInt(1)), &Tree{K: '{', Keys: []string{"a", "b"}, Xs: []*Tree{tInt(1), tInt(2)}}},
		{obj1("a", tInt(1)), obj1("b", tInt(1))},
		{obj1("a", &Tree{K: 'n'}), obj1("b", &Tree{K: 'n'})},
		{list1(&Tree{K: '['}), list1(&Tree{K: '{'})},
	}
	for _, p := range pairs {
		c.equalsLine(p[0], p[1])
		c.equalsLine(p[0], p[0])
	}
}

// ---------------------------------------------------------------- C16

func (c *Ctx) fmtLine(t *Tree, n int) {
	obs := guard(func() string {
		if t.K == '[' {
			l := t.Build().(at.List)
			before := treeOf(l).Token()
			s := holdString(l.FormatString(n), "List.FormatString")
			if treeOf(l).Token() != before {
				return "modified"
			}
			return "s" + hx(s)
		}
		o := t.Build().(at.Object)
		before := treeOf(o).Token()
		s := holdString(o.FormatString(n), "Object.FormatString")
		if treeOf(o).Token() != before {
			return "modified"
		}
		return "s" + hx(s)
	})
	c.fn("fmt", t.Token(), itok(n), obs)
}

func runC16(c *Ctx) {
	r := c.R
	c.St.Rule = "value trees x indents; non-trivial = depth >= 2 or a string needing an escape; distinct by (tree, indent)"
	c.derivedCorners("C16")
	c.overridingString("C16")
	c.lateDerived("C16")
	indents := []int{-1, 0, 1, 2, 4, 10, 11}
	if !c.Quick {
		indents = []int{-5, -1, 0, 1, 2, 3, 4, 5, 6, 7, 8, 9, 10, 11, 100, math.MinInt64, math.MaxInt64}
	}
	// far-out indents that alias small ones under truncation to 8, 16 or 32 bits
	farOut := []int{255, 256, 257, 266, 267, 512, 65536, 65538, -256, -255, -246, -65536 + 3}
	for _, n := range farOut {
		c.fmtLine(&Tree{K: '[', Xs: []*Tree{tInt(1), obj1("k", tInt(2))}}, n)
		c.fmtLine(obj1("k", &Tree{K: '[', Xs: []*Tree{tInt(1)}}), n)
	}
	for _, cp := range c.codePoints() {
		if c.Quick && cp >= 0x100 && r.Intn(8) != 0 {
			continue
		}
		s := string(cp)
		c.fmtLine(&Tree{K: '[', Xs: []*Tree{tStr(s), obj1(s, tStr(s))}}, 2)
		c.St.Eval("cp:"+s, true)
	}
	c.omoList("C16")
	c.omoObj("C16")
	for _, v := range c.parsedSources() {
		c.fmtContainer(v, 2)
		c.fmtContainer(v, 0)
	}
	// wide-then-narrow sequences of indents on the same and on different containers
	for _, seq := range [][]int{{10, 0}, {10, 2, 0, 1}, {4, 4, 2}, {0, 10, 0}, {7, 3, 9, 1}} {
		for _, n := range seq {
			c.fmtLine(&Tree{K: '[', Xs: []*Tree{tInt(1), obj1("k", list1(tStr("s")))}}, n)
			c.fmtLine(obj1("k", &Tree{K: '[', Xs: []*Tree{tInt(1), tInt(2)}}), n)
		}
	}
	opts := &TreeOpts{MaxDepth: 5, MaxWidth: 5}
	for i := 0; i < c.N(1500, 30000); i++ {
		t := r.Container(opts, "[{"[r.Intn(2)])
		n := indents[r.Intn(len(indents))]
		c.fmtLine(t, n)
		c.St.Eval(t.Token()+"@"+strconv.Itoa(n), t.Depth() >= 2)
		c.St.Count("indent " + strconv.Itoa(n))
	}
	for _, n := range indents {
		c.fmtLine(&Tree{K: '['}, n)
		c.fmtLine(&Tree{K: '{'}, n)
		c.fmtLine(&Tree{K: '[', Xs: []*Tree{{K: '['}, {K: '{'}, obj1("", &Tree{K: '['})}}, n)
	}
}

// ---------------------------------------------------------------- C20

// docTok is one token of a document under construction.
type docTok struct {
	s    string
	mark bool // the character at which the error must be detected is the first one of this token
}

type errDoc struct {
	r    *Rng
	toks []docTok
}

func (d *errDoc) add(s string)  { d.toks = append(d.toks, docTok{s: s}) }
func (d *errDoc) mark(s string) { d.toks = append(d.toks, docTok{s: s, mark: true}) }

func (d *errDoc) scalar() {
	switch d.r.Intn(9) {
	case 7:
		d.add("[") // an empty container: whitespace (and newlines) may stand between its brackets
		d.add("]")
		return
	case 8:
		d.add("{")
		d.add("}")
		return
	}
	switch d.r.Intn(9) {
	case 6:
		// a backslash directly before a line end inside a string (a "line continuation" in other notations): the escape takes
		// the next character, whatever it is, and a line feed still ends a line — after \r too, and after an escaped backslash
		d.add([]string{"\"a\\\r\nb\"", "\"a\\\nb\"", "\"a\\\\\nb\"", "\"x\\\ry\"", "\"\\\n\\\n\"", "\"a\\\r\n\\\r\nb\"", "\"\\\\\\\r\n\""}[d.r.Intn(7)])
	case 0:
		d.add("null")
	case 1:
		d.add("true")
	case 2:
		d.add(strconv.Itoa(d.r.SmallInt()))
	case 3:
		d.add("1.5")
	case 4:
		d.add(`"s\n\"x"`)
	case 5:
		// characters whose low byte (or low 16 bits) is a character the parser reacts to — line feed, carriage return, quote,
		// backslash, comma, colon, brackets, space, tab: none of them is a line end or a delimiter
		d.add("\"" + lookalikes[d.r.Intn(len(lookalikes))] + lookalikes[d.r.Intn(len(lookalikes))] + "x" + lookalikes[d.r.Intn(len(lookalikes))] + "\"")
	default:
		// raw line feeds inside a string are characters of the input like any other: they count as lines
		d.add("\"a\nb\n\nc\\\"d\n\u2028\u2029\u0085\"")
	}
}

var lookalikes = []string{"\u010a", "\u020a", "\u0a0a", "\uff0a", "\U0001f60a", "\U0001000a", "\u010d", "\u0122", "\uff02", "\u015c", "\u012c", "\u013a", "\u015b", "\u015d", "\u017b", "\u017d", "\u0120", "\u0109", "\U00010022", "\U0001005c"}

// repeated emits the same multi-line element text twice (or three times) in a row: consecutive siblings that are equal
// byte for byte, line feeds included.
func (d *errDoc) repeated() {
	subs := []string{"{\n\"id\": 1,\n\"v\": [1,\n2]\n}", "{\"a\":\n\n{\"b\":\n1}}", "[\n1,\n[\n]\n]", "\"two\nlines\"", "{\n}", "{\"k\n\":\n\"v\n\"\n}"}
	sub := subs[d.r.Intn(len(subs))]
	d.add(sub)
	for n := 1 + d.r.Intn(2); n > 0; n-- {
		d.add(",")
		d.add(sub)
	}
}

// value emits a valid value; if inject > 0 counts down and plants the error where it reaches zero.
// kind: 0 invalid literal, 1 missing colon, 2 stray char after nested container (object), 3 non-quote at key position
func (d *errDoc) value(depth int, inject *int, kind int, inObj bool) {
	r := d.r
	if depth < 4 && r.Chance(55) {
		if r.Bool() {
			d.add("[")
			n := 1 + r.Intn(3)
			for i := 0; i < n; i++ {
				if i > 0 {
					d.add(",")
				}
				*inject--
				if *inject == 0 && kind == 0 {
					d.add([]string{"xyz", "nul", "1.2.3", "tru x", "-", "0x", "1e"}[r.Intn(7)])
					if i == n-1 {
						d.mark("]")
					} else {
						d.mark(",")
					}
					if i == n-1 {
						return
					}
					continue
				}
				if r.Chance(12) {
					d.repeated()
					continue
				}
				d.value(depth+1, inject, kind, false)
			}
			d.add("]")
		} else {
			d.add("{")
			n := 1 + r.Intn(3)
			for i := 0; i < n; i++ {
				if i > 0 {
					d.add(",")
				}
				*inject--
				if *inject == 0 && kind == 3 {
					d.mark([]string{"x", "1", "[", ":", ",", "é", "€", "\U0001F600", "“"}[r.Intn(9)])
					return
				}
				if d.r.Chance(15) {
					d.add("\"k\n" + strconv.Itoa(i) + "\"") // a key with a raw line feed
				} else if d.r.Chance(12) {
					d.add("\"k" + lookalikes[d.r.Intn(len(lookalikes))] + strconv.Itoa(i) + lookalikes[d.r.Intn(len(lookalikes))] + "\"")
				} else {
					d.add(`"k` + strconv.Itoa(i) + `"`)
				}
				if *inject == 0 && kind == 1 {
					d.mark([]string{"1", "\"v\"", "x", "=", "{", "é", "€", "\U0001F600"}[r.Intn(8)])
					return
				}
				d.add(":")
				if *inject == 0 && kind == 0 {
					d.add([]string{"xyz", "nul", "1.2.3", "fals", "-", "+"}[r.Intn(6)])
					if i == n-1 {
						d.mark("}")
					} else {
						d.mark(",")
					}
					if i == n-1 {
						return
					}
					continue
				}
				if *inject == 0 && kind == 2 {
					if r.Bool() {
						d.add("[")
						d.add("]")
					} else {
						d.add("{")
						d.add("}")
					}
					d.mark([]string{"x", "1", "]", ":", "t", "é", "€", "\U0001F600", "”"}[r.Intn(9)])
					return
				}
				d.value(depth+1, inject, kind, true)
			}
			d.add("}")
		}
		return
	}
	d.scalar()
}

// render joins the tokens with random whitespace; returns the text and the 1-based line of the mark.
func (d *errDoc) render(prefix string) (string, int, bool) {
	var sb strings.Builder
	sb.WriteString(prefix)
	line := -1
	for _, t := range d.toks {
		for d.r.Chance(35) {
			sb.WriteString([]string{" ", "\n", "\r\n", "\t", "\r", "\n\n", "\u2028", "\u2029", "\u0085", "\v", "\f", "\u00a0\n", "\u3000"}[d.r.Intn(13)])
		}
		if t.mark {
			line = 1 + strings.Count(sb.String(), "\n")
			sb.WriteString(t.s)
			break
		}
		sb.WriteString(t.s)
	}
	// arbitrary text after the error position
	for d.r.Chance(60) {
		sb.WriteString([]string{"\n", " ", "]", "}", "1", ",", "\"", "x\n"}[d.r.Intn(8)])
	}
	return sb.String(), line, line > 0
}

func runC20(c *Ctx) {
	r := c.R
	c.St.Rule = "documents with one injected syntax error (invalid literal, missing colon, stray character after a nested container, non-quote at key position) at a random depth, random newlines at every whitespace position and in the text before the root bracket; the expected line is computed by the generator; non-trivial = the error is not on line 1; distinct by text"
	n := c.N(6000, 120000)
	for i := 0; i < n; i++ {
		d := &errDoc{r: r}
		kind := r.Intn(4)
		inject := 1 + r.Intn(6)
		root := byte('L')
		rootObj := r.Bool()
		// force a container root
		for tries := 0; tries < 50; tries++ {
			d.toks = nil
			inj := inject
			d.value(0, &inj, kind, false)
			if len(d.toks) > 0 && (d.toks[0].s == "[" && !rootObj || d.toks[0].s == "{" && rootObj) {
				break
			}
			d.toks = nil
		}
		if len(d.toks) == 0 {
			continue
		}
		if rootObj {
			root = 'O'
		}
		prefix := ""
		for r.Chance(40) {
			if rootObj {
				prefix += []string{"\n", "junk [1]\n", " ", "]\n\n", "\r\n"}[r.Intn(5)]
			} else {
				prefix += []string{"\n", "junk {\"a\":1}\n", " ", "}\n\n", "\r\n"}[r.Intn(5)]
			}
		}
		if r.Chance(12) {
			// errors on lines with two, three and four digits (a message cut short by a byte or two still "cites a line")
			prefix = strings.Repeat("\n", []int{8, 9, 10, 98, 99, 100, 998, 999, 1000, 12344}[r.Intn(10)]) + prefix
		}
		text, line, ok := d.render(prefix)
		if !ok {
			// no error was planted (the countdown did not reach a suitable place): a valid or cut document
			c.parseLine(root, text, "-")
			continue
		}
		obs := c.parseLine(root, text, "line:"+strconv.Itoa(line))
		c.St.Eval(text, line > 1)
		c.St.Count(fmt.Sprintf("error_kind_%d", kind))
		_ = obs
		if i%7 == 0 && rootObj {
			// the same through ParseFile
			dir := os.TempDir()
			p := filepath.Join(dir, fmt.Sprintf("vharness-c20-%d.json", os.Getpid()))
			os.WriteFile(p, []byte(text), 0o644)
			o, e := at.ParseFile(p)
			os.Remove(p)
			res := "neither"
			if o != nil && e == nil {
				res = "ok " + treeOf(o).Token()
			} else if o == nil && e != nil {
				res = errKind(e)
			}
			c.fn("parse", "O", hex.EncodeToString([]byte(text)), res, "line:"+strconv.Itoa(line))
		}
	}
	c.fileStratum("C20", 50)
}

// ---------------------------------------------------------------- stdlib conformance

func runSTD(c *Ctx) {
	r := c.R
	c.St.Rule = "arguments of the Go standard-library functions the model re-implements; distinct by argument"
	pint := func(s string) {
		v, err := strconv.ParseInt(s, 0, 64)
		obs := "err"
		if err == nil {
			obs = "ok i" + strconv.Itoa(int(v))
		}
		c.fn("pint", hx(s), obs)
	}
	pfloat := func(s string) {
		v, err := strconv.ParseFloat(s, 64)
		obs := "err"
		if err == nil {
			obs = "ok " + tokFloat(v)
		}
		c.fn("pfloat", hx(s), obs)
	}
	pbool := func(s string) {
		v, err := strconv.ParseBool(s)
		obs := "err"
		if err == nil {
			obs = "ok " + btok(v)
		}
		c.fn("pbool", hx(s), obs)
	}
	all := func(s string) {
		pint(s)
		pfloat(s)
		pbool(s)
		c.St.Eval("lit:"+s, len(s) > 1)
	}
	// literal grammar
	digits := func(n int, set string) string {
		b := make([]byte, n)
		for i := range b {
			b[i] = set[r.Intn(len(set))]
		}
		return string(b)
	}
	for i := 0; i < c.N(20000, 300000); i++ {
		var s string
		switch r.Intn(12) {
		case 0:
			pool := []string{"", "+", "-", "0", "-0", "+0", "00", "0x", "0X1", "0b", "0b102", "0o17", "0O7", "017", "08", "0_7", "0x_1", "0_x1", "1_", "_1", "1__2",
				"9223372036854775807", "9223372036854775808", "-9223372036854775808", "-9223372036854775809", "0x7fffffffffffffff", "0x8000000000000000", "-0x8000000000000000",
				"true", "TRUE", "True", "tRUE", "t", "T", "f", "F", "false", "FALSE", "False", "1", "null", "nil", "Null",
				"inf", "Inf", "+Inf", "-inf", "INF", "infinity", "Infinity", "-INFINITY", "infinit", "infx", "nan", "NaN", "NAN", "+nan", "-nan", "nanx",
				"1e", "1e+", "1e5", "1E5", "1e-5", "1e+5", ".5", "5.", ".", "e5", "1.5e300", "1e309", "1e308", "1.7976931348623157e308", "1.7976931348623158e308", "1.7976931348623159e308",
				"4.9e-324", "2.4703282292062327e-324", "2.4703282292062328e-324", "1e-400", "0x1p-2", "0x1.8p1", "0x.8p0", "0x1p", "0x1", "0x1.p1", "0X1P+2", "0x1p1024", "0x1p1023", "0x1p-1074", "0x1p-1075", "0x1.0000000000001p-1075",
				"1_0.5", "1_000e1_0", "1e1_", "1._5", "0x1_0p0", "0x_1p0", "١", "1a", "a1", "1 ", " 1", "1\n"}
			s = pool[r.Intn(len(pool))]
		case 1:
			s = digits(1+r.Intn(20), "0123456789")
		case 2:
			s = "-" + digits(1+r.Intn(20), "0123456789")
		case 3:
			s = "0x" + digits(1+r.Intn(17), "0123456789abcdefABCDEF_")
		case 4:
			s = []string{"0b", "0o", "0", "0B", "0O"}[r.Intn(5)] + digits(1+r.Intn(12), "01234567_89")
		case 5:
			s = digits(1+r.Intn(6), "0123456789") + "." + digits(r.Intn(8), "0123456789")
		case 6:
			s = digits(1+r.Intn(4), "0123456789") + "." + digits(r.Intn(20), "0123456789") + "e" + []string{"", "+", "-"}[r.Intn(3)] + digits(1+r.Intn(3), "0123456789")
		case 7:
			s = strconv.FormatFloat(r.FiniteFloat(), "efg"[r.Intn(3)], -1, 64)
		case 8:
			s = strconv.FormatFloat(r.FiniteFloat(), 'e', 17+r.Intn(6), 64)
		case 9:
			s = "0x" + digits(1+r.Intn(15), "0123456789abcdef") + "." + digits(r.Intn(15), "0123456789abcdef") + "p" + []string{"", "+", "-"}[r.Intn(3)] + digits(1+r.Intn(4), "0123456789")
		case 10:
			s = digits(1+r.Intn(8), "0123456789_+-.eExXbBoOpPinfatrus")
		default:
			b := []byte(strconv.FormatFloat(r.FiniteFloat(), 'g', -1, 64))
			if len(b) > 0 {
				b[r.Intn(len(b))] = "0123456789_+-.eE"[r.Intn(16)]
			}
			s = string(b)
		}
		all(s)
	}
	// FormatFloat in both layouts, and float32 widening
	for _, f := range floatSweep(c) {
		c.fn("ffloat", tokFloat(f), "s"+hx(strconv.FormatFloat(f, 'e', -1, 64)), "s"+hx(strconv.FormatFloat(f, 'f', -1, 64)))
		c.St.Eval("ff:"+tokFloat(f), true)
	}
	for i := 0; i < c.N(5000, 200000); i++ {
		b := uint32(r.Next())
		switch r.Intn(6) {
		case 0:
			b &= 0x807fffff // subnormals and zeros
		case 1:
			b |= 0x7f800000 // inf / nan
		}
		f := math.Float32frombits(b)
		c.fn("f32", fmt.Sprintf("g%08x", b), tokFloat(float64(f)))
	}
	for i := 0; i < c.N(3000, 50000); i++ {
		v := r.Int()
		c.fn("itoa", itok(v), "s"+hx(strconv.Itoa(v)))
	}
	// unicode.IsSpace
	limit := rune(0x3100)
	if !c.Quick {
		limit = 0x110000
	}
	for cp := rune(0); cp < limit; cp++ {
		if utf8.ValidRune(cp) {
			c.fn("isspace", strconv.Itoa(int(cp)), btok(unicode.IsSpace(cp)))
		}
	}
	// utf8 decoding
	decodeLine := func(b []byte) {
		var toks []string
		for i := 0; i < len(b); {
			ch, size := utf8.DecodeRune(b[i:])
			if ch == utf8.RuneError && size == 1 {
				toks = append(toks, "x")
			} else {
				toks = append(toks, strconv.Itoa(int(ch)))
			}
			i += size
		}
		c.fn("utf8", hex.EncodeToString(b), strings.Join(toks, " "))
	}
	for a := 0; a < 256; a++ {
		decodeLine([]byte{byte(a)})
		for _, b := range []int{0x00, 0x7F, 0x80, 0x8F, 0x90, 0x9F, 0xA0, 0xBF, 0xC0, 0xFF} {
			decodeLine([]byte{byte(a), byte(b)})
			for _, d := range []int{0x7F, 0x80, 0xBF, 0xC0} {
				decodeLine([]byte{byte(a), byte(b), byte(d)})
				if a >= 0xF0 {
					for _, e := range []int{0x7F, 0x80, 0xBF, 0xC0} {
						decodeLine([]byte{byte(a), byte(b), byte(d), byte(e), 'z'})
					}
				}
			}
		}
	}
	for i := 0; i < c.N(3000, 100000); i++ {
		s := r.Str()
		b := []byte(s)
		if r.Bool() && len(b) > 0 {
			b[r.Intn(len(b))] = byte(r.Intn(256))
		}
		decodeLine(b)
	}
}


// refUnescape decodes the body of a JSON string literal (no surrounding quotes) the way Go's reference decoder does:
// the RFC 8259 escapes, surrogate pairs combined, an unpaired surrogate replaced by U+FFFD.  ok is false if the body is
// not grammar-valid (unknown escape, truncated \u, raw control character or quote).
func refUnescape(body string) (string, bool) {
	var sb strings.Builder
	hex4 := func(s string) (rune, bool) {
		if len(s) < 4 {
			return 0, false
		}
		var v rune
		for i := 0; i < 4; i++ {
			c := s[i]
			switch {
			case c >= '0' && c <= '9':
				v = v<<4 | rune(c-'0')
			case c >= 'a' && c <= 'f':
				v = v<<4 | rune(c-'a'+10)
			case c >= 'A' && c <= 'F':
				v = v<<4 | rune(c-'A'+10)
			default:
				return 0, false
			}
		}
		return v, true
	}
	for i := 0; i < len(body); {
		ch := body[i]
		if ch == '"' || ch < 0x20 {
			return "", false
		}
		if ch != '\\' {
			sb.WriteByte(ch)
			i++
			continue
		}
		if i+1 >= len(body) {
			return "", false
		}
		switch body[i+1] {
		case '"', '\\', '/':
			sb.WriteByte(body[i+1])
		case 'b':
			sb.WriteByte(8)
		case 'f':
			sb.WriteByte(12)
		case 'n':
			sb.WriteByte(10)
		case 'r':
			sb.WriteByte(13)
		case 't':
			sb.WriteByte(9)
		case 'u':
			r1, ok := hex4(body[i+2:])
			if !ok {
				return "", false
			}
			i += 6
			if r1 >= 0xD800 && r1 < 0xDC00 && strings.HasPrefix(body[i:], "\\u") {
				if r2, ok := hex4(body[i+2:]); ok && r2 >= 0xDC00 && r2 < 0xE000 {
					sb.WriteRune(0x10000 + (r1-0xD800)<<10 + (r2 - 0xDC00))
					i += 6
					continue
				}
			}
			if r1 >= 0xD800 && r1 < 0xE000 {
				r1 = 0xFFFD
			}
			sb.WriteRune(r1)
			continue
		default:
			return "", false
		}
		i += 2
	}
	return sb.String(), true
}
