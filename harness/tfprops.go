package main

// Tree-form properties C10 (reads) and C11 (writes).

import (
	"fmt"
	"math"
	"sort"
	"strconv"
	"strings"

	at "github.com/DanielSvub/anytype"
)

func init() {
	props["C10"] = runC10
	props["C11"] = runC11
}

type seg struct {
	key   string
	idx   int
	isIdx bool
}

// segments parses a path by the property's grammar: one or more of '.'key (non-empty, no '.'/'#')
// or '#'digits (canonical decimal). ok=false if the string is not in the grammar; canonical=false if
// it would be in the grammar but for a non-canonical numeral (then the property is silent).
func segments(s string) (segs []seg, ok bool, canonical bool) {
	canonical = true
	if s == "" {
		return nil, false, true
	}
	i := 0
	for i < len(s) {
		sig := s[i]
		if sig != '.' && sig != '#' {
			return nil, false, canonical
		}
		j := i + 1
		for j < len(s) && s[j] != '.' && s[j] != '#' {
			j++
		}
		body := s[i+1 : j]
		if body == "" {
			return nil, false, canonical
		}
		if sig == '.' {
			segs = append(segs, seg{key: body})
		} else {
			allDigits := true
			for _, c := range body {
				if c < '0' || c > '9' {
					allDigits = false
				}
			}
			if !allDigits {
				// signs, base prefixes, underscores: a numeral Go would read, but not a decimal index
				if _, err := strconv.ParseInt(body, 0, 64); err == nil {
					canonical = false
				}
				return nil, false, canonical
			}
			if len(body) > 1 && body[0] == '0' {
				canonical = false // leading zero: read as octal by the library
				return nil, false, canonical
			}
			n, err := strconv.Atoi(body)
			if err != nil {
				return nil, false, canonical
			}
			segs = append(segs, seg{idx: n, isIdx: true})
		}
		i = j
	}
	return segs, true, canonical
}

// navigate applies Get segment by segment; ok=false if a step cannot be taken.
func navigate(root any, segs []seg) (v any, ok bool) {
	cur := root
	for _, s := range segs {
		switch x := cur.(type) {
		case at.List:
			if !s.isIdx || s.idx < 0 || s.idx >= x.Count() {
				return nil, false
			}
			cur = x.Get(s.idx)
		case at.Object:
			if s.isIdx || !x.KeyExists(s.key) {
				return nil, false
			}
			cur = x.Get(s.key)
		default:
			return nil, false
		}
	}
	return cur, true
}

func kindOf(v any) int {
	switch v.(type) {
	case nil:
		return 1
	case at.Object:
		return 2
	case at.List:
		return 3
	case string:
		return 4
	case bool:
		return 5
	case int:
		return 6
	case float64:
		return 7
	}
	return 0
}

// sigilLeafKey: the known finding K1 — somewhere in the path an object receives a remainder that, after
// its leading '.', itself begins with a sigil ('.' or '#': an empty segment); the code then takes the WHOLE
// remainder as a key, and the object has exactly that key (e.g. key ".a" answers "..a", key ".a.b" answers "..a.b").
func sigilLeafKey(root any, path string) bool {
	for i := 0; i+1 < len(path); i++ {
		if path[i] != '.' || (path[i+1] != '.' && path[i+1] != '#') {
			continue
		}
		prefix, rest := path[:i], path[i+1:]
		var recv any = root
		if prefix != "" {
			segs, ok, _ := segments(prefix)
			if !ok {
				continue
			}
			var ok2 bool
			recv, ok2 = navigate(root, segs)
			if !ok2 {
				continue
			}
		}
		if o, isObj := recv.(at.Object); isObj && o.KeyExists(rest) {
			return true
		}
	}
	return false
}

// readPath records TypeOfTF and GetTF for one path and judges them against step-by-step navigation.
func (c *Ctx) readPath(rootTok string, path string) {
	m := c.M
	root := m.resolve(rootTok)
	isObj := m.IsObj(rootTok)
	var tobs, gobs string
	if isObj {
		tobs = m.OTypeOfTF(rootTok, path)
		gobs = m.OGetTF(rootTok, path)
	} else {
		tobs = m.TypeOfTF(rootTok, path)
		gobs = m.GetTF(rootTok, path)
	}
	segs, ok, canonical := segments(path)
	if !canonical {
		c.St.Count("path non-canonical numeral (not judged)")
		return
	}
	fail := func(msg string) {
		tag := ""
		if sigilLeafKey(root, path) {
			tag = " [K1:sigil-leaf-key]"
		}
		m.Alarm("C10", fmt.Sprintf("%s; path %q on %s%s", msg, path, treeOf(root).Token(), tag))
	}
	var want any
	resolved := false
	if ok {
		// the first sigil must fit the root kind, which navigate checks through the segment type
		want, resolved = navigate(root, segs)
	}
	if resolved {
		c.St.Count("path resolved")
		if tobs != "ok k"+strconv.Itoa(kindOf(want)) {
			fail(fmt.Sprintf("TypeOfTF = %s, step-by-step navigation reaches kind %d", tobs, kindOf(want)))
		}
		if gobs != "ok "+m.tokVal(want) {
			fail(fmt.Sprintf("GetTF = %s, step-by-step navigation reaches %s", gobs, m.tokVal(want)))
		}
	} else {
		if ok {
			c.St.Count("path well-formed, unresolved")
		} else {
			c.St.Count("path malformed")
		}
		if tobs != "ok k0" {
			fail(fmt.Sprintf("TypeOfTF = %s on a path that does not resolve (want TypeUndefined)", tobs))
		}
		if !strings.HasPrefix(gobs, "panic ") {
			fail(fmt.Sprintf("GetTF = %s on a path that does not resolve (want a panic)", gobs))
		}
	}
}

// allPaths lists every resolvable path of a container tree.
func allPaths(v any, prefix string, out *[]string) {
	switch x := v.(type) {
	case at.List:
		for i, e := range x.Slice() {
			p := prefix + "#" + strconv.Itoa(i)
			*out = append(*out, p)
			allPaths(e, p, out)
		}
	case at.Object:
		d := x.Dict()
		for _, k := range sortedKeys(d) {
			if k == "" || strings.ContainsAny(k, ".#") {
				continue
			}
			p := prefix + "." + k
			*out = append(*out, p)
			allPaths(d[k], p, out)
		}
	}
}

func corruptions(r *Rng, p string) []string {
	var out []string
	// split into segments textually
	var cuts []int
	for i := 0; i < len(p); i++ {
		if p[i] == '.' || p[i] == '#' {
			cuts = append(cuts, i)
		}
	}
	cuts = append(cuts, len(p))
	for i := 0; i+1 < len(cuts); i++ {
		a, b := cuts[i], cuts[i+1]
		out = append(out, p[:a]+p[b:]) // segment dropped
		sw := "."
		if p[a] == '.' {
			sw = "#"
		}
		out = append(out, p[:a]+sw+p[a+1:])           // sigil swapped
		out = append(out, p[:a+1]+p[a+1:b]+"x"+p[b:]) // key misspelt / index non-numeric
		out = append(out, p[:a]+string(p[a])+p[a:])   // doubled sigil: empty segment
		if p[a] == '#' {
			if n, err := strconv.Atoi(p[a+1 : b]); err == nil {
				out = append(out, p[:a+1]+strconv.Itoa(n+1+r.Intn(3))+p[b:]) // index shifted
				out = append(out, p[:a+1]+"-1"+p[b:])
			}
		}
	}
	out = append(out, p+".", p+"#", p[1:], "", p[:1], p+".zz", p+"#0")
	return out
}

func runC10(c *Ctx) {
	m, r := c.M, c.R
	c.St.Rule = "container trees x path strings: every resolvable path, every one-step corruption (segment dropped, sigil swapped, index shifted, key misspelt, trailing / doubled sigil), all strings up to length 5 over {. # 0 1 a}, random strings; each judged against step-by-step Get navigation; non-trivial = at least two segments; distinct by (tree, path)"
	opts := &TreeOpts{MaxDepth: 4, MaxWidth: 4, Keys: func() string {
		if r.Chance(85) {
			return r.SimpleKey()
		}
		return r.Key()
	}}
	for i := 0; i < c.N(150, 2500); i++ {
		m.Case("tree-paths")
		t := r.Container(opts, "[{"[r.Intn(2)])
		var root string
		if t.K == '[' {
			root = m.NewListFrom(gvOfTree(t))
		} else {
			root = m.NewObjectFrom(gvOfTree(t))
		}
		var paths []string
		allPaths(m.resolve(root), "", &paths)
		for _, p := range paths {
			c.readPath(root, p)
			c.St.Eval(t.Token()+"@"+p, strings.Count(p, ".")+strings.Count(p, "#") >= 2)
			if !c.Quick || r.Intn(3) == 0 {
				for _, q := range corruptions(r, p) {
					c.readPath(root, q)
					c.St.Eval(t.Token()+"@"+q, true)
				}
			}
		}
		for j := 0; j < 5; j++ {
			n := r.Intn(7)
			b := make([]byte, n)
			for k := range b {
				b[k] = ".#01ak-x_"[r.Intn(9)]
			}
			c.readPath(root, string(b))
		}
	}
	// all short strings over the path alphabet on a fixed menagerie
	m.Case("short-paths")
	inner := m.NewList(gvInt(7), gvStr("s"))
	obj := m.NewObject(gvStr("a"), gvInt(1), gvStr("0"), gvStr("zero"), gvStr("1"), m.RefGV(inner), gvStr("aa"), gvNil())
	lst := m.NewList(m.RefGV(obj), m.RefGV(inner), gvFloat(1.5))
	alpha := ".#01a"
	maxLen := c.N(4, 5)
	var rec func(p string)
	count := 0
	rec = func(p string) {
		if p != "" {
			c.readPath(obj, p)
			c.readPath(lst, p)
			count++
			c.St.Eval("short:"+p, len(p) >= 3)
		}
		if len(p) == maxLen {
			return
		}
		for i := 0; i < len(alpha); i++ {
			rec(p + alpha[i:i+1])
		}
	}
	rec("")
	c.St.Exhaustive = append(c.St.Exhaustive, fmt.Sprintf("all %d strings of length 1..%d over {. # 0 1 a} on a fixed object and list", count, maxLen))
	c.omoList("C10")
	c.omoObj("C10")
	c.indexSpellings("C10")
	c.derivedCorners("C10")
	c.lateDerived("C10")
	c.overriding("C10")
	// keys that contain a sigil next to a key that is their prefix: the path always takes the short key first,
	// whatever the iteration order of the map (repeated, since Go randomises it)
	for rep := 0; rep < 16; rep++ {
		m.Case("prefix-keys")
		o := m.NewObject(gvStr("a"), m.RefGV(m.NewObject(gvStr("b"), m.RefGV(m.NewObject(gvStr("c"), gvInt(1))))), gvStr("a.b"), m.RefGV(m.NewObject(gvStr("c"), gvInt(2))),
			gvStr("l"), m.RefGV(m.NewList(gvInt(7))), gvStr("l#0"), gvInt(8), gvStr("a.b.c"), gvInt(3))
		for _, p := range []string{".a.b.c", ".a.b", ".l#0", ".a", ".l"} {
			c.readPath(o, p)
		}
	}
	// long lists: indices around every power of two up to 2^16 (width slips in index parsing, size thresholds)
	m.Case("long-lists")
	long := m.NewListOf(gvInt(7), 66000)
	holder := m.NewObject(gvStr("rows"), m.RefGV(long))
	nestedLong := m.NewList(m.RefGV(long), m.RefGV(holder))
	for k := uint(6); k <= 16; k++ {
		for d := -1; d <= 1; d++ {
			i := strconv.Itoa(1<<k + d)
			c.readPath(long, "#"+i)
			c.readPath(holder, ".rows#"+i)
			c.readPath(nestedLong, "#0#"+i)
			c.readPath(nestedLong, "#1.rows#"+i)
		}
	}
	// one- and two-character segments of every ASCII character on a long list (digit tests with a missing bound)
	for ch := 33; ch < 127; ch++ {
		if ch == '.' || ch == '#' {
			continue
		}
		c.readPath(long, "#"+string(rune(ch)))
		c.readPath(long, "#1"+string(rune(ch)))
		c.readPath(holder, ".rows#"+string(rune(ch)))
	}
	c.readPath(long, "#65999")
	c.readPath(long, "#66000")
	// far-out indices: 2^k + d for every k up to 63 — under a narrowing conversion (uint8, int16, uint32 …) they alias a small
	// index of the list; all of them are beyond the list and must answer Undefined / panic, on every way down to the list
	small := m.NewList(gvInt(1), gvStr("s"), m.RefGV(m.NewList(gvInt(9))), m.RefGV(m.NewObject(gvStr("a"), gvInt(1))))
	smallHolder := m.NewObject(gvStr("l"), m.RefGV(small))
	for k := uint(17); k <= 63; k++ {
		for d := 0; d <= 3; d++ {
			i := strconv.FormatUint(uint64(1)<<k+uint64(d), 10)
			c.readPath(small, "#"+i)
			c.readPath(smallHolder, ".l#"+i)
			if d >= 2 {
				c.readPath(small, "#"+i+"#0")
				c.readPath(small, "#"+i+".a")
			}
			if k%8 == 0 || c.R.Intn(4) == 0 {
				c.readPath(long, "#"+i)
				c.readPath(nestedLong, "#0#"+i)
			}
		}
	}
	for _, i := range []string{"4294967296", "4294967297", "8589934592", "9223372036854775807", "9223372036854775808", "18446744073709551615", "18446744073709551616", "-1", "-4294967296", "256", "257", "65536", "65537"} {
		c.readPath(small, "#"+i)
		c.readPath(smallHolder, ".l#"+i)
		c.readPath(small, "#"+i+".a")
	}
	c.St.Eval("long-lists", true)
	// the known finding K1: keys that begin with a sigil make an empty segment resolve
	m.Case("k1-sigil-leaf")
	k1 := m.NewObject(gvStr(".a"), gvInt(1), gvStr("#1"), gvInt(2), gvStr("n"), gvInt(3))
	for _, p := range []string{"..a", ".#1", ".n", "..n", "..b"} {
		c.readPath(k1, p)
	}
	k1l := m.NewList(m.RefGV(k1))
	c.readPath(k1l, "#0..a")
	c.readPath(k1l, "#0.#1")
}

// ---------------------------------------------------------------- C11

func (r *Rng) wellFormedPath(rootIsObj bool, depth int) string {
	var sb strings.Builder
	isObj := rootIsObj
	for i := 0; i < depth; i++ {
		if isObj {
			sb.WriteString("." + r.SimpleKey())
		} else {
			sb.WriteString("#" + strconv.Itoa(r.Intn(5)))
		}
		isObj = r.Bool()
		if i+1 < depth {
			// the next sigil decides the kind of this intermediate; nothing to do here: the loop writes it
		}
	}
	return sb.String()
}

func (c *Ctx) writePath(rootTok, path string, g *GV) {
	m := c.M
	isObj := m.IsObj(rootTok)
	var obs, back string
	if isObj {
		obs = m.OSetTF(rootTok, path, g)
	} else {
		obs = m.SetTF(rootTok, path, g)
	}
	segs, ok, canonical := segments(path)
	if !ok || !canonical {
		return
	}
	_ = segs
	storable := g.K != 'X' && !(g.K == '(' && hasUnsupported(g)) && !(g.K == '<' && hasUnsupported(g))
	if !storable {
		return
	}
	if strings.HasPrefix(obs, "panic") {
		m.Alarm("C11", fmt.Sprintf("SetTF(%q, %s) on a well-formed path panicked: %s", path, g.Token(), obs))
		return
	}
	if isObj {
		back = m.OGetTF(rootTok, path)
	} else {
		back = m.GetTF(rootTok, path)
	}
	// the value read back: equal scalar, the identical container, or (native value) a fresh container
	switch g.K {
	case 'n', 'b', 'i', 'd', 's', 'R':
		if back != "ok "+g.Token() {
			m.Alarm("C11", fmt.Sprintf("after SetTF(%q, %s) GetTF yields %s", path, g.Token(), back))
		}
	}
}

func hasUnsupported(g *GV) bool {
	if g.K == 'X' {
		return true
	}
	for _, x := range g.Xs {
		if hasUnsupported(x) {
			return true
		}
	}
	return false
}

func runC11(c *Ctx) {
	m, r := c.M, c.R
	c.St.Rule = "trees x well-formed paths (existing, partially existing, new; index <, =, > n; scalar / nil / other-kind intermediates) x values of every kind, sequences of 1-30 writes and unsets with whole-heap snapshots; non-trivial = path of >= 2 segments; distinct by (tree, path sequence)"
	opts := &TreeOpts{MaxDepth: 3, MaxWidth: 4, Keys: r.SimpleKey}
	c.padDerived()
	c.writeClearWrite()
	c.indexSpellings("C11")
	c.nonASCIIKeysDerived()
	for i := 0; i < c.N(400, 6000); i++ {
		m.Case("write-sequences")
		t := r.Container(opts, "[{"[r.Intn(2)])
		var root string
		if t.K == '[' {
			root = m.NewListFrom(gvOfTree(t))
		} else {
			root = m.NewObjectFrom(gvOfTree(t))
		}
		other := m.NewList(gvInt(1))
		otherO := m.NewObject(gvStr("z"), gvInt(0))
		steps := 1 + r.Intn(c.N(10, 30))
		for s := 0; s < steps; s++ {
			var path string
			var existing []string
			allPaths(m.resolve(root), "", &existing)
			switch {
			case len(existing) > 0 && r.Chance(35):
				path = existing[r.Intn(len(existing))] // existing slot (also: through an existing intermediate)
			case len(existing) > 0 && r.Chance(50):
				// partially existing: an existing prefix extended by new segments
				path = existing[r.Intn(len(existing))] + r.wellFormedPath(r.Bool(), 1+r.Intn(2))
			default:
				path = r.wellFormedPath(t.K == '{', 1+r.Intn(4))
			}
			if path == "" {
				continue
			}
			// index beyond the end, sometimes far
			if r.Chance(10) {
				path = strings.Replace(path, "#", "#1", 1)
			}
			if tooFar(path) {
				continue
			}
			var g *GV
			switch r.Intn(10) {
			case 0:
				g = m.RefGV(other)
			case 1:
				g = m.RefGV(otherO)
			case 2:
				g = gvOfTree(r.Container(&TreeOpts{MaxDepth: 2, MaxWidth: 2}, "[{"[r.Intn(2)]))
			case 3:
				g = r.WidthGV()
			default:
				g = r.ScalarGV()
			}
			if g.K == 'R' && passesThrough(m.resolve(root), path, g.Ref) {
				g = r.ScalarGV() // storing a container inside itself would make the heap cyclic
			}
			if r.Chance(25) {
				isObj := m.IsObj(root)
				_, resolves := navigateStr(m.resolve(root), path)
				if isObj {
					m.OUnsetTF(root, path)
				} else {
					m.UnsetTF(root, path)
				}
				if resolves {
					c.St.Count("unset resolvable")
				} else {
					c.St.Count("unset unresolvable")
				}
			} else {
				c.writePath(root, path, g)
				c.St.Count(fmt.Sprintf("write_depth_%d", strings.Count(path, ".")+strings.Count(path, "#")))
			}
			c.St.Eval(fmt.Sprintf("%d:%d:%s", i, s, path), strings.Count(path, ".")+strings.Count(path, "#") >= 2)
		}
	}
	c.derivedCorners("C11")
	// overwriting a slot with a value that is Equal to what it holds but is another container (or differs only in
	// the sign of zero / int vs float): the slot has to hold the new value — seen by identity and by a later change
	m.Case("overwrite-equal")
	for _, root := range []string{m.NewObject(gvStr("e"), gvOfTree(&Tree{K: '['}), gvStr("o"), gvOfTree(obj1("a", tInt(1))), gvStr("z"), gvFloat(0), gvStr("i"), gvInt(1),
		gvStr("deep"), gvOfTree(obj1("l", list1(&Tree{K: '{'})))),
		m.NewList(gvOfTree(&Tree{K: '['}), gvOfTree(obj1("a", tInt(1))), gvFloat(0), gvInt(1), gvOfTree(list1(obj1("l", &Tree{K: '['}))))} {
		isObj := m.IsObj(root)
		type w struct {
			path string
			g    *GV
		}
		freshL := m.NewList()
		freshO := m.NewObject(gvStr("a"), gvInt(1))
		freshL2 := m.NewList()
		var ws []w
		if isObj {
			ws = []w{{".e", m.RefGV(freshL)}, {".o", m.RefGV(freshO)}, {".z", gvFloat(math.Copysign(0, -1))}, {".i", gvFloat(1)}, {".deep.l#0", m.RefGV(m.NewObject())}, {".deep.l", m.RefGV(freshL2)}}
		} else {
			ws = []w{{"#0", m.RefGV(freshL)}, {"#1", m.RefGV(freshO)}, {"#2", gvFloat(math.Copysign(0, -1))}, {"#3", gvFloat(1)}, {"#4#0.l", m.RefGV(freshL2)}}
		}
		for _, x := range ws {
			c.writePath(root, x.path, x.g)
			c.readPath(root, x.path)
		}
		// later changes through the stored values must show in the tree
		m.Add(freshL, gvStr("later"))
		m.OSet(freshO, gvStr("b"), gvInt(2))
		m.Add(freshL2, gvInt(7))
		for _, x := range ws {
			c.readPath(root, x.path)
		}
	}
	c.sharedBoxes()
	c.growShrink()
	// malformed paths on writes: SetTF / UnsetTF must panic (or be a no-op) and leave every container as it was
	m.Case("malformed-writes")
	{
		inner := m.NewList(gvInt(1), m.RefGV(m.NewObject(gvStr("k"), gvInt(2))))
		o := m.NewObject(gvStr("a"), gvInt(1), gvStr("l"), m.RefGV(inner))
		l := m.NewList(gvInt(0), m.RefGV(o), m.RefGV(inner))
		for _, p := range []string{"", ".", "#", "a", "x1", ".l#x", ".l#", "#1.l#1x.k", "#x", "#1x", "#1#", "#2#1.", "#2#1.k.", ".l#1.k#0", "#-1", "#x#0", "#1x#0", "#1x.k", "#x.k", "#1.zz.y", "#2#5", "#0#0", ".a.b", ".l.x", "#1#0", "..a", ".#1", "##", "#+1", "#0x1", "#01"} {
			m.SetTF(l, p, gvStr("v"))
			m.UnsetTF(l, p)
			m.OSetTF(o, p, gvStr("v"))
			m.OUnsetTF(o, p)
		}
	}
	// writes and unsets at indices around powers of two (padding, growth steps, width slips)
	m.Case("long-writes")
	for k := uint(4); k <= 12; k++ {
		l := m.NewList(gvInt(1), gvInt(2))
		c.writePath(l, "#"+strconv.Itoa(1<<k), gvStr("v"))
		c.writePath(l, "#"+strconv.Itoa(1<<k-1), gvStr("w"))
		m.UnsetTF(l, "#"+strconv.Itoa(1<<k-1))
		m.UnsetTF(l, "#"+strconv.Itoa(1<<k))
		o := m.NewObject(gvStr("rows"), m.RefGV(l))
		c.writePath(o, ".rows#"+strconv.Itoa(1<<k+1)+".k", gvInt(int(k)))
		m.OUnsetTF(o, ".rows#"+strconv.Itoa(1<<k+1)+".k")
		m.OUnsetTF(o, ".rows#0")
	}
	c.St.Eval("long-writes", true)
	// the twelve cases of SetTF's intermediate handling, one by one
	m.Case("twelve-cases")
	for _, recvObj := range []bool{false, true} {
		for _, nextObj := range []bool{false, true} {
			for _, situation := range []string{"missing", "right", "wrong-scalar", "wrong-nil", "wrong-container"} {
				var root string
				var mid *GV
				innerL := m.NewList(gvInt(1))
				innerO := m.NewObject(gvStr("k"), gvInt(1))
				switch situation {
				case "right":
					if nextObj {
						mid = m.RefGV(innerO)
					} else {
						mid = m.RefGV(innerL)
					}
				case "wrong-scalar":
					mid = gvInt(5)
				case "wrong-nil":
					mid = gvNil()
				case "wrong-container":
					if nextObj {
						mid = m.RefGV(innerL)
					} else {
						mid = m.RefGV(innerO)
					}
				}
				tail := "#2"
				if nextObj {
					tail = ".q"
				}
				if recvObj {
					if mid != nil {
						root = m.NewObject(gvStr("m"), mid, gvStr("keep"), gvInt(1))
					} else {
						root = m.NewObject(gvStr("keep"), gvInt(1))
					}
					c.writePath(root, ".m"+tail, gvStr("v"))
				} else {
					if mid != nil {
						root = m.NewList(gvInt(0), mid, gvInt(2))
					} else {
						root = m.NewList(gvInt(0))
					}
					c.writePath(root, "#1"+tail, gvStr("v"))
					c.writePath(root, "#4"+tail, gvStr("w"))
				}
				c.St.Eval(fmt.Sprint("twelve:", recvObj, nextObj, situation), true)
			}
		}
	}
}

func navigateStr(root any, path string) (any, bool) {
	segs, ok, _ := segments(path)
	if !ok {
		return nil, false
	}
	return navigate(root, segs)
}

// tooFar: an index beyond 40 would only pad the list with thousands of nils.
func tooFar(path string) bool {
	for _, part := range strings.FieldsFunc(path, func(c rune) bool { return c == '.' || c == '#' }) {
		if n, err := strconv.Atoi(part); err == nil && n > 40 {
			return true
		}
	}
	return false
}

// passesThrough: does navigating path from root (as far as it resolves) visit target?
func passesThrough(root any, path string, target any) bool {
	segs, ok, _ := segments(path)
	if !ok {
		return true
	}
	cur := root
	for _, sg := range segs {
		if reaches(target, cur) {
			return true
		}
		next, ok := navigate(cur, []seg{sg})
		if !ok {
			return false
		}
		cur = next
	}
	return reaches(target, cur)
}

// ---------------------------------------------------------------- overriding derived structures

// A derived structure may override methods (README, "Derived Structures"); the library reaches the registered outer
// value through Ego().  Step-by-step navigation by the caller uses the overriding methods, so a tree-form read that
// ends in such a structure has to use them too.  The model has no notion of overriding: monitored here, on the
// implementation alone.
type overList struct{ at.List }

func (o *overList) Get(i int) any        { return "over#" + strconv.Itoa(i) }
func (o *overList) TypeOf(i int) at.Type { return at.TypeString }

type overObj struct{ at.Object }

func (o *overObj) Get(k string) any        { return "over." + k }
func (o *overObj) TypeOf(k string) at.Type { return at.TypeString }

func (c *Ctx) overriding(prop string) {
	m := c.M
	m.Case("overriding-derived")
	ol := &overList{List: at.NewList(1, 2, 3)}
	ol.Init(ol)
	oo := &overObj{Object: at.NewObject("a", 1, "b", 2)}
	oo.Init(oo)
	holder := at.NewObject("l", ol, "o", oo, "plain", at.NewList(ol, oo))
	safe := func(f func() any) (res any) {
		defer func() {
			if r := recover(); r != nil {
				res = fmt.Sprintf("panic: %v", r)
			}
		}()
		return f()
	}
	type probe struct {
		what      string
		tf, steps func() any
	}
	probes := []probe{
		{`ol.GetTF("#1") vs ol.Get(1)`, func() any { return ol.GetTF("#1") }, func() any { return ol.Get(1) }},
		{`oo.GetTF(".a") vs oo.Get("a")`, func() any { return oo.GetTF(".a") }, func() any { return oo.Get("a") }},
		{`holder.GetTF(".l#2") vs holder.GetList("l").Get(2)`, func() any { return holder.GetTF(".l#2") }, func() any { return holder.GetList("l").Get(2) }},
		{`holder.GetTF(".o.b") vs holder.GetObject("o").Get("b")`, func() any { return holder.GetTF(".o.b") }, func() any { return holder.GetObject("o").Get("b") }},
		{`holder.GetTF(".plain#0#0") vs holder.GetList("plain").GetList(0).Get(0)`, func() any { return holder.GetTF(".plain#0#0") }, func() any { return holder.GetList("plain").GetList(0).Get(0) }},
		{`holder.GetTF(".plain#1.a") vs ...GetObject(1).Get("a")`, func() any { return holder.GetTF(".plain#1.a") }, func() any { return holder.GetList("plain").GetObject(1).Get("a") }},
		{`ol.TypeOfTF("#1") vs ol.TypeOf(1)`, func() any { return ol.TypeOfTF("#1") }, func() any { return ol.TypeOf(1) }},
		{`oo.TypeOfTF(".a") vs oo.TypeOf("a")`, func() any { return oo.TypeOfTF(".a") }, func() any { return oo.TypeOf("a") }},
		{`holder.TypeOfTF(".l#0") vs holder.GetList("l").TypeOf(0)`, func() any { return holder.TypeOfTF(".l#0") }, func() any { return holder.GetList("l").TypeOf(0) }},
		{`holder.TypeOfTF(".o.a") vs holder.GetObject("o").TypeOf("a")`, func() any { return holder.TypeOfTF(".o.a") }, func() any { return holder.GetObject("o").TypeOf("a") }},
	}
	for _, p := range probes {
		got, want := safe(p.tf), safe(p.steps)
		if got != want {
			m.Alarm(prop, fmt.Sprintf("a derived structure overriding Get/TypeOf: %s: tree form gives %v, step by step gives %v", p.what, got, want))
		}
	}
	// identity of the stored overriding value through every read
	if safe(func() any { return holder.GetTF(".l") }) != any(ol) || safe(func() any { return holder.GetTF(".plain#1") }) != any(oo) {
		m.Alarm(prop, "a stored overriding derived structure is not handed back identically by GetTF")
	}
	c.St.Eval("overriding:"+prop, true)
}

// A derived structure that overrides String() (say, to print itself prettily by default).  FormatString is defined on
// the CONTENT of the container — the canonical layout of its serialisation — not on whatever the outer value's String()
// says: it is what FormatString of a plain clone gives, for every indent, also when the derived value is an element.
type strList struct{ at.List }

func (s *strList) String() string { return `["overridden"]` }

type strObj struct{ at.Object }

func (s *strObj) String() string { return `{"overridden":true}` }

func (c *Ctx) overridingString(prop string) {
	m := c.M
	m.Case("overriding-string")
	sl := &strList{List: at.NewList(1, "a", at.NewObject("k", 2.5))}
	sl.Init(sl)
	so := &strObj{Object: at.NewObject("a", 1, "l", at.NewList(true, nil))}
	so.Init(so)
	safe := func(f func() string) (res string) {
		defer func() {
			if r := recover(); r != nil {
				res = fmt.Sprintf("panic: %v", r)
			}
		}()
		return f()
	}
	for n := 0; n <= 10; n += 2 {
		if got, want := safe(func() string { return sl.FormatString(n) }), safe(func() string { return sl.List.Clone().FormatString(n) }); got != want {
			m.Alarm(prop, fmt.Sprintf("FormatString(%d) of a derived list that overrides String(): %q; the layout of its content is %q", n, got, want))
		}
		got, want := safe(func() string { return so.FormatString(n) }), safe(func() string { return so.Object.Clone().FormatString(n) })
		// field order may differ between two serialisations: compare the multiset of lines
		gl, wl := strings.Split(strings.ReplaceAll(got, ",\n", "\n"), "\n"), strings.Split(strings.ReplaceAll(want, ",\n", "\n"), "\n")
		sort.Strings(gl)
		sort.Strings(wl)
		if strings.Join(gl, "\n") != strings.Join(wl, "\n") {
			m.Alarm(prop, fmt.Sprintf("FormatString(%d) of a derived object that overrides String(): %q; the layout of its content is %q", n, got, want))
		}
	}
	parent := at.NewList(sl, so)
	if got := safe(func() string { return parent.FormatString(0) }); strings.Contains(got, "overridden") {
		m.Alarm(prop, fmt.Sprintf("FormatString of a list holding derived structures that override String(): %q", got))
	}
	c.St.Eval("overriding-string:"+prop, true)
}
