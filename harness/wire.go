package main

// Wire format shared with the Lean driver (lean/Anytype/Driver). One record per line,
// TAB separated fields, tokens inside a field separated by single spaces.
//
// scalar tokens : n | t | f | i<dec> | d<16 hex of Float64bits> | s<hex of bytes>
// references    : L<id>[^lvl] | O<id>[^lvl]
// Go values     : scalar | reference | w<type>:<dec> | g<8 hex float32 bits> | X
//                 | ( <fl> v ... )   slice of flavour fl in a o l s b i f
//                 | < <fl> k<hex> v ... >   map of flavour fl
// pure trees    : scalar | [ v ... ] | { k<hex> v ... }

import (
	"encoding/hex"
	"fmt"
	"math"
	"sort"
	"strconv"
	"strings"
	"time"

	at "github.com/DanielSvub/anytype"
)

func hx(s string) string { return hex.EncodeToString([]byte(s)) }

func tokFloat(f float64) string {
	if f != f {
		return "d7ff8000000000001"
	}
	return fmt.Sprintf("d%016x", math.Float64bits(f))
}

// ---------------------------------------------------------------- pure trees

// Tree is a pure value tree (what a parser returns / a serialiser prints).
type Tree struct {
	K    byte // n b i d s [ {
	B    bool
	I    int
	F    float64
	S    string
	Xs   []*Tree
	Keys []string // for '{' : parallel to Xs, in construction order, distinct
}

func (t *Tree) Token() string {
	var sb strings.Builder
	t.tok(&sb)
	return sb.String()
}

func (t *Tree) tok(sb *strings.Builder) {
	switch t.K {
	case 'n':
		sb.WriteString("n")
	case 'b':
		if t.B {
			sb.WriteString("t")
		} else {
			sb.WriteString("f")
		}
	case 'i':
		sb.WriteString("i" + strconv.Itoa(t.I))
	case 'd':
		sb.WriteString(tokFloat(t.F))
	case 's':
		sb.WriteString("s" + hx(t.S))
	case '[':
		sb.WriteString("[")
		for _, x := range t.Xs {
			sb.WriteString(" ")
			x.tok(sb)
		}
		sb.WriteString(" ]")
	case '{':
		sb.WriteString("{")
		for i, x := range t.Xs {
			sb.WriteString(" k" + hx(t.Keys[i]) + " ")
			x.tok(sb)
		}
		sb.WriteString(" }")
	}
}

// Native converts the tree to plain Go data (map[string]any / []any / scalars).
func (t *Tree) Native() any {
	switch t.K {
	case 'n':
		return nil
	case 'b':
		return t.B
	case 'i':
		return t.I
	case 'd':
		return t.F
	case 's':
		return t.S
	case '[':
		r := make([]any, 0, len(t.Xs))
		for _, x := range t.Xs {
			r = append(r, x.Native())
		}
		return r
	default:
		r := make(map[string]any, len(t.Xs))
		for i, x := range t.Xs {
			r[t.Keys[i]] = x.Native()
		}
		return r
	}
}

// Build constructs the container (or scalar) through the public API: NewList+Add, NewObject+Set.
func (t *Tree) Build() any {
	switch t.K {
	case '[':
		l := at.NewList()
		for _, x := range t.Xs {
			l.Add(x.Build())
		}
		return l
	case '{':
		o := at.NewObject()
		for i, x := range t.Xs {
			o.Set(t.Keys[i], x.Build())
		}
		return o
	default:
		return t.Native()
	}
}

func (t *Tree) Size() int {
	n := 1
	for _, x := range t.Xs {
		n += x.Size()
	}
	return n
}

func (t *Tree) Depth() int {
	d := 0
	for _, x := range t.Xs {
		if e := x.Depth(); e > d {
			d = e
		}
	}
	if t.K == '[' || t.K == '{' {
		return d + 1
	}
	return 0
}

// treeOf reads a value returned by the library back into a Tree (objects sorted by key).
// Containers are walked through the public API (Count/Get, Keys/Get).
func treeOf(v any) *Tree {
	switch x := v.(type) {
	case nil:
		return &Tree{K: 'n'}
	case bool:
		return &Tree{K: 'b', B: x}
	case int:
		return &Tree{K: 'i', I: x}
	case float64:
		return &Tree{K: 'd', F: x}
	case string:
		return &Tree{K: 's', S: x}
	case at.List:
		t := &Tree{K: '['}
		for i := 0; i < x.Count(); i++ {
			t.Xs = append(t.Xs, treeOf(x.Get(i)))
		}
		return t
	case at.Object:
		t := &Tree{K: '{'}
		d := x.Dict()
		keys := make([]string, 0, len(d))
		for k := range d {
			keys = append(keys, k)
		}
		sort.Strings(keys)
		for _, k := range keys {
			t.Keys = append(t.Keys, k)
			t.Xs = append(t.Xs, treeOf(d[k]))
		}
		return t
	case []any:
		t := &Tree{K: '['}
		for _, e := range x {
			t.Xs = append(t.Xs, treeOf(e))
		}
		return t
	case map[string]any:
		t := &Tree{K: '{'}
		keys := make([]string, 0, len(x))
		for k := range x {
			keys = append(keys, k)
		}
		sort.Strings(keys)
		for _, k := range keys {
			t.Keys = append(t.Keys, k)
			t.Xs = append(t.Xs, treeOf(x[k]))
		}
		return t
	default:
		return &Tree{K: 's', S: fmt.Sprintf("?%T", v)}
	}
}

// ---------------------------------------------------------------- Go values (arguments)

// GV describes a Go value handed to the library.
type GV struct {
	K byte // n b i d s : scalars (canonical types) ; w : other int width ; g : float32 ; X : unsupported
	//            R : existing container (reference) ; ( : slice ; < : map
	B    bool
	I    int
	U    uint64 // for unsigned widths
	W    string // width name for 'w': i8 i16 i32 i64 u u8 u16 u32 u64
	F    float64
	F32  float32
	S    string
	Ref  any    // at.List or at.Object for 'R'
	RTok string // its token
	Fl   byte   // flavour a o l s b i f
	Xs   []*GV
	Keys []string
	Unsp int  // which unsupported value
	NilC bool // for '(' and '<' without elements: the typed nil slice / map instead of an empty one
}

func (g *GV) Token() string {
	var sb strings.Builder
	g.tok(&sb)
	return sb.String()
}

func (g *GV) tok(sb *strings.Builder) {
	switch g.K {
	case 'n':
		sb.WriteString("n")
	case 'b':
		if g.B {
			sb.WriteString("t")
		} else {
			sb.WriteString("f")
		}
	case 'i':
		sb.WriteString("i" + strconv.Itoa(g.I))
	case 'w':
		if g.W[0] == 'u' {
			sb.WriteString("w" + g.W + ":" + strconv.FormatUint(g.U, 10))
		} else {
			sb.WriteString("w" + g.W + ":" + strconv.Itoa(g.I))
		}
	case 'd':
		sb.WriteString(tokFloat(g.F))
	case 'g':
		sb.WriteString(fmt.Sprintf("g%08x", math.Float32bits(g.F32)))
	case 's':
		sb.WriteString("s" + hx(g.S))
	case 'R':
		sb.WriteString(g.RTok)
	case 'X':
		sb.WriteString("X")
	case '(':
		sb.WriteString("( " + string(g.Fl))
		for _, x := range g.Xs {
			sb.WriteString(" ")
			x.tok(sb)
		}
		sb.WriteString(" )")
	case '<':
		sb.WriteString("< " + string(g.Fl))
		for i, x := range g.Xs {
			sb.WriteString(" k" + hx(g.Keys[i]) + " ")
			x.tok(sb)
		}
		sb.WriteString(" >")
	}
}

type unsupportedStruct struct{ A int }

// named types over supported underlying types are different dynamic types: they must be rejected
type (
	namedInt     int
	namedInt8    int8
	namedUint32  uint32
	namedFloat32 float32
	namedFloat64 float64
	namedString  string
	namedBool    bool
	namedSlice   []any
	namedMap     map[string]any
)

var unsupportedValues = []any{
	time.Unix(0, 0), struct{}{}, unsupportedStruct{1}, []int8{1}, map[int]string{1: "a"}, [3]int{1, 2, 3},
	new(int), make(chan int), func() {}, uintptr(7), complex128(1), []float32{1}, []uint{1}, map[string]int8{"a": 1},
	[1]string{"a"},
	time.Duration(5), time.Month(3), namedInt(1), namedInt8(2), namedUint32(3), namedFloat32(1.5), namedFloat64(2.5), namedString("s"), namedBool(true),
	namedSlice{1}, namedMap{"a": 1}, struct{ X []int }{},
}

// Go materialises the described value.
func (g *GV) Go() any {
	switch g.K {
	case 'n':
		return nil
	case 'b':
		return g.B
	case 'i':
		return g.I
	case 'w':
		switch g.W {
		case "i8":
			return int8(g.I)
		case "i16":
			return int16(g.I)
		case "i32":
			return int32(g.I)
		case "i64":
			return int64(g.I)
		case "u":
			return uint(g.U)
		case "u8":
			return uint8(g.U)
		case "u16":
			return uint16(g.U)
		case "u32":
			return uint32(g.U)
		case "u64":
			return uint64(g.U)
		}
		panic("bad width " + g.W)
	case 'd':
		return g.F
	case 'g':
		return g.F32
	case 's':
		return g.S
	case 'R':
		return g.Ref
	case 'X':
		return unsupportedValues[g.Unsp%len(unsupportedValues)]
	case '(':
		if g.NilC && len(g.Xs) == 0 {
			switch g.Fl {
			case 'a':
				return []any(nil)
			case 'o':
				return []at.Object(nil)
			case 'l':
				return []at.List(nil)
			case 's':
				return []string(nil)
			case 'b':
				return []bool(nil)
			case 'i':
				return []int(nil)
			default:
				return []float64(nil)
			}
		}
		switch g.Fl {
		case 'a':
			r := make([]any, 0, len(g.Xs))
			for _, x := range g.Xs {
				r = append(r, x.Go())
			}
			return r
		case 'o':
			r := make([]at.Object, 0, len(g.Xs))
			for _, x := range g.Xs {
				if x.K == 'n' {
					r = append(r, nil) // a nil Object member
				} else {
					r = append(r, x.Go().(at.Object))
				}
			}
			return r
		case 'l':
			r := make([]at.List, 0, len(g.Xs))
			for _, x := range g.Xs {
				if x.K == 'n' {
					r = append(r, nil)
				} else {
					r = append(r, x.Go().(at.List))
				}
			}
			return r
		case 's':
			r := make([]string, 0, len(g.Xs))
			for _, x := range g.Xs {
				r = append(r, x.S)
			}
			return r
		case 'b':
			r := make([]bool, 0, len(g.Xs))
			for _, x := range g.Xs {
				r = append(r, x.B)
			}
			return r
		case 'i':
			r := make([]int, 0, len(g.Xs))
			for _, x := range g.Xs {
				r = append(r, x.I)
			}
			return r
		case 'f':
			r := make([]float64, 0, len(g.Xs))
			for _, x := range g.Xs {
				r = append(r, x.F)
			}
			return r
		}
	case '<':
		if g.NilC && len(g.Xs) == 0 {
			switch g.Fl {
			case 'a':
				return map[string]any(nil)
			case 'o':
				return map[string]at.Object(nil)
			case 'l':
				return map[string]at.List(nil)
			case 's':
				return map[string]string(nil)
			case 'b':
				return map[string]bool(nil)
			case 'i':
				return map[string]int(nil)
			default:
				return map[string]float64(nil)
			}
		}
		switch g.Fl {
		case 'a':
			r := make(map[string]any, len(g.Xs))
			for i, x := range g.Xs {
				r[g.Keys[i]] = x.Go()
			}
			return r
		case 'o':
			r := make(map[string]at.Object, len(g.Xs))
			for i, x := range g.Xs {
				if x.K == 'n' {
					r[g.Keys[i]] = nil
				} else {
					r[g.Keys[i]] = x.Go().(at.Object)
				}
			}
			return r
		case 'l':
			r := make(map[string]at.List, len(g.Xs))
			for i, x := range g.Xs {
				if x.K == 'n' {
					r[g.Keys[i]] = nil
				} else {
					r[g.Keys[i]] = x.Go().(at.List)
				}
			}
			return r
		case 's':
			r := make(map[string]string, len(g.Xs))
			for i, x := range g.Xs {
				r[g.Keys[i]] = x.S
			}
			return r
		case 'b':
			r := make(map[string]bool, len(g.Xs))
			for i, x := range g.Xs {
				r[g.Keys[i]] = x.B
			}
			return r
		case 'i':
			r := make(map[string]int, len(g.Xs))
			for i, x := range g.Xs {
				r[g.Keys[i]] = x.I
			}
			return r
		case 'f':
			r := make(map[string]float64, len(g.Xs))
			for i, x := range g.Xs {
				r[g.Keys[i]] = x.F
			}
			return r
		}
	}
	panic("bad GV")
}

func gvNil() *GV              { return &GV{K: 'n'} }
func gvBool(b bool) *GV       { return &GV{K: 'b', B: b} }
func gvInt(i int) *GV         { return &GV{K: 'i', I: i} }
func gvFloat(f float64) *GV   { return &GV{K: 'd', F: f} }
func gvStr(s string) *GV      { return &GV{K: 's', S: s} }
func gvUnsupported(k int) *GV { return &GV{K: 'X', Unsp: k} }

// gvOfTree turns a pure tree into the []any / map[string]any Go value.
func gvOfTree(t *Tree) *GV {
	switch t.K {
	case 'n':
		return gvNil()
	case 'b':
		return gvBool(t.B)
	case 'i':
		return gvInt(t.I)
	case 'd':
		return gvFloat(t.F)
	case 's':
		return gvStr(t.S)
	case '[':
		g := &GV{K: '(', Fl: 'a'}
		for _, x := range t.Xs {
			g.Xs = append(g.Xs, gvOfTree(x))
		}
		return g
	default:
		g := &GV{K: '<', Fl: 'a'}
		for i, x := range t.Xs {
			g.Keys = append(g.Keys, t.Keys[i])
			g.Xs = append(g.Xs, gvOfTree(x))
		}
		return g
	}
}
