/-
Driver, part 2: re-executes every recorded operation on the model and compares.
Not part of any proof; it calls the very definitions the theorems are about.
-/
import Anytype.Driver.Wire
import Anytype.Model.Slices
namespace Anytype.Driver
open Anytype Std

structure DS where
  heap : Heap := []
  h2a : HashMap Nat Nat := {}
  a2h : HashMap Nat Nat := {}
  last : HashMap Nat (List Tok) := {}
  /-- differences that do not desynchronise the case (both sides panic, only the kind differs): reported, the case goes on -/
  notes : List String := []
  /-- the slice-level machine of the `sl` records (stratum "slices"): arrays and slice headers of the lists of the case -/
  slMem : Slices.Mem Int := []
  slCells : List Slices.Slice := []
  /-- observed array id ↔ model array -/
  slO2M : HashMap Nat Nat := {}
  slM2O : HashMap Nat Nat := {}
  deriving Inhabited

abbrev M := StateT DS (Except String)

def fail {α} (msg : String) : M α := throw msg

/-- "L12^1" → (isObj, id, lvl) -/
def parseRefTok (t : Tok) : Option (Bool × Nat × Nat) :=
  match t.toList with
  | c :: rest =>
    if c == 'L' || c == 'O' then
      let s := String.ofList rest
      match s.splitOn "^" with
      | [a] => a.toNat?.map (fun n => (c == 'O', n, 0))
      | [a, b] => match a.toNat?, b.toNat? with
        | some n, some l => some (c == 'O', n, l)
        | _, _ => none
      | _ => none
    else none
  | [] => none

/-- address bound to a handle that must already be known -/
def addrOf (t : Tok) : M Nat := do
  match parseRefTok t with
  | some (_, id, _) =>
    match (← get).h2a[id]? with
    | some a => pure a
    | none => fail s!"protocol: unbound handle {t}"
  | none => fail s!"protocol: not a handle {t}"

def refOf (t : Tok) : M Ref := do
  match parseRefTok t with
  | some (_, id, lvl) =>
    match (← get).h2a[id]? with
    | some a => pure ⟨a, lvl⟩
    | none => fail s!"protocol: unbound handle {t}"
  | none => fail s!"protocol: not a handle {t}"

/-- unify a model reference with an observed handle token -/
def unify (isObj : Bool) (r : Ref) (t : Tok) : M Unit := do
  match parseRefTok t with
  | none => fail s!"model has a container where the implementation has {t}"
  | some (o, id, lvl) =>
    if o != isObj then fail s!"container kind differs: model isObj={isObj}, observed {t}"
    else if lvl != r.lvl then fail s!"identity level differs: model ^{r.lvl}, observed {t}"
    else
      let s ← get
      match s.h2a[id]?, s.a2h[r.addr]? with
      | some a, _ => if a == r.addr then pure () else fail s!"identity differs: {t} is another container in the model (model addr {r.addr}, bound {a})"
      | none, some id' => fail s!"aliasing differs: model container {r.addr} is already known as handle {id'}, observed new {t}"
      | none, none => set { s with h2a := s.h2a.insert id r.addr, a2h := s.a2h.insert r.addr id }

def cmpToks (what : String) (model : List MTok) (obs : List Tok) : M Unit := do
  if model.length != obs.length then
    fail s!"{what}: length differs: model {model.length} observed {obs.length}"
  for (m, o) in model.zip obs do
    match m with
    | .lit s => if s != o then fail s!"{what}: model {s} observed {o}"
    | .ref isObj r => unify isObj r o

/-! ### arguments -/

def flavour? (t : Tok) : Option Flavour :=
  match t with
  | "a" => some .any | "o" => some .object | "l" => some .list | "s" => some .string
  | "b" => some .bool | "i" => some .int | "f" => some .float64 | _ => none

def intW? (s : String) : Option IntW :=
  match s with
  | "i8" => some .i8 | "i16" => some .i16 | "i32" => some .i32 | "i64" => some .i64
  | "u" => some .uint | "u8" => some .u8 | "u16" => some .u16 | "u32" => some .u32 | "u64" => some .u64
  | _ => none

partial def parseGoVal (h2a : HashMap Nat Nat) : List Tok → Option (GoVal × List Tok)
  | [] => none
  | t :: rest =>
    if t == "n" then some (.nil, rest)
    else if t == "t" then some (.bool true, rest)
    else if t == "f" then some (.bool false, rest)
    else if t == "X" then some (.unsupported, rest)
    else if t == "(" then
      match rest with
      | fl :: r =>
        match flavour? fl with
        | none => none
        | some f =>
          let rec items (ts : List Tok) (acc : List GoVal) : Option (GoVal × List Tok) :=
            match ts with
            | ")" :: r' => some (.slice f acc.reverse, r')
            | _ => match parseGoVal h2a ts with
              | some (v, r') => items r' (v :: acc)
              | none => none
          items r []
      | [] => none
    else if t == "<" then
      match rest with
      | fl :: r =>
        match flavour? fl with
        | none => none
        | some f =>
          let rec fields (ts : List Tok) (acc : List (Str × GoVal)) : Option (GoVal × List Tok) :=
            match ts with
            | ">" :: r' => some (.map f acc.reverse, r')
            | k :: r' =>
              if k.startsWith "k" then
                match hexToStr (k.drop 1).toString, parseGoVal h2a r' with
                | some key, some (v, r'') => fields r'' ((key, v) :: acc)
                | _, _ => none
              else none
            | [] => none
          fields r []
      | [] => none
    else
      match t.toList with
      | 'i' :: d => (parseInt? (String.ofList d)).map (fun i => (.intw .int i, rest))
      | 'd' :: d => (hexToNat (String.ofList d)).map (fun n => (.f64 ⟨UInt64.ofNat n⟩, rest))
      | 'g' :: d => (hexToNat (String.ofList d)).map (fun n => (.f32 (UInt32.ofNat n), rest))
      | 's' :: d => (hexToStr (String.ofList d)).map (fun s => (.str s, rest))
      | 'w' :: d =>
        match (String.ofList d).splitOn ":" with
        | [w, v] => match intW? w, parseInt? v with
          | some iw, some i => some (.intw iw i, rest)
          | _, _ => none
        | _ => none
      | c :: _ =>
        if c == 'L' || c == 'O' then
          match parseRefTok t with
          | some (o, id, lvl) =>
            match h2a[id]? with
            | some a => some ((if o then .obj ⟨a, lvl⟩ else .list ⟨a, lvl⟩), rest)
            | none => none
          | none => none
        else none
      | [] => none

partial def parseGoVals (h2a : HashMap Nat Nat) (ts : List Tok) : Option (List GoVal) :=
  match ts with
  | [] => some []
  | _ => match parseGoVal h2a ts with
    | some (v, r) => (parseGoVals h2a r).map (v :: ·)
    | none => none

def goVals (ts : List Tok) : M (List GoVal) := do
  match parseGoVals (← get).h2a ts with
  | some vs => pure vs
  | none => fail s!"protocol: cannot parse arguments {ts}"

def goVal1 (ts : List Tok) : M GoVal := do
  match ← goVals ts with
  | [v] => pure v
  | _ => fail s!"protocol: expected one argument in {ts}"

/-- a canonical scalar / reference argument as a stored-value (for Contains, IndexOf, KeyOf) -/
def goToVal : GoVal → Option Val
  | .nil => some .nil | .bool b => some (.bool b) | .intw .int i => some (.int i) | .f64 f => some (.float f)
  | .str s => some (.str s) | .list r => some (.list r) | .obj r => some (.obj r) | _ => none

def intArg (t : Tok) : M Int :=
  match t.toList with
  | 'i' :: d => match parseInt? (String.ofList d) with
    | some i => pure i
    | none => fail s!"protocol: bad int {t}"
  | _ => fail s!"protocol: bad int {t}"

def strArg (t : Tok) : M Str :=
  match t.toList with
  | 's' :: d => match hexToStr (String.ofList d) with
    | some s => pure s
    | none => fail s!"protocol: bad string {t}"
  | _ => fail s!"protocol: bad string {t}"

def kindArg (t : Tok) : M Kind :=
  match t with
  | "o" => pure .object | "l" => pure .list | "s" => pure .string | "b" => pure .bool
  | "i" => pure .int | "f" => pure .float | _ => fail s!"protocol: bad kind {t}"

/-! ### callback families (harness/machine.go: Fn.Apply, pred, codeOf) -/

def byteLen (s : Str) : Int := (encode s).length

def fnApply (name : String) (c : GoVal) (idx : Option Val) (v : Val) : GoVal :=
  match name with
  | "id" => v.toGo
  | "const" => c
  | "idx" => match idx with | some i => i.toGo | none => v.toGo
  | "inc" => match v with
    | .int i => .intw .int (wrap64 (i + 1))
    | .float f => .f64 (F64.add f F64.one)
    | .str s => .str (s ++ ['!'])
    | .bool b => .bool (!b)
    | _ => v.toGo
  | "tostr" => match v with
    | .int i => .str (itoa i)
    | .str s => .intw .int (byteLen s)
    | .bool b => .intw .int (if b then 1 else 0)
    | .nil => .str "nil".toList
    | _ => .nil
  | "wrap" => .slice .any [v.toGo]
  | "narrow" => match v with
    | .int i => .intw .i8 ((i + 128) % 256 - 128)
    | _ => v.toGo
  | "unsup" => match v with
    | .int i => if i % 2 != 0 then .unsupported else v.toGo
    | _ => v.toGo
  | _ => .unsupported

def predApply (name : String) (v : Val) : Bool :=
  match name with
  | "all" => true
  | "none" => false
  | _ => match v with
    | .int i => i % 2 == 0
    | .str s => byteLen s % 2 == 0
    | .float f => F64.ltGo f F64.posZero
    | .bool b => b
    | .nil => false
    | _ => true

def codeOf (v : Val) : Int :=
  match v with
  | .nil => 1
  | .bool b => if b then 3 else 2
  | .int i => i
  | .float f => if f.isNaN then 999 else (f.bits.toNat % 1000 : Nat)
  | .str s => byteLen s + 7
  | .list _ => 11
  | .obj _ => 13

/-! ### observations -/

inductive Obs
  | ok (toks : List Tok)
  | panic (kind : String)

def parseObs (s : String) : Obs :=
  match splitTokens s with
  | "ok" :: rest => .ok rest
  | "panic" :: k :: _ => .panic k
  | _ => .panic "?"

def panicName : PanicKind → String
  | .indexRange => "indexRange" | .notKind => "notKind" | .missingKey => "missingKey" | .oddPairs => "oddPairs"
  | .keyNotString => "keyNotString" | .badTF => "badTF" | .badInt => "badInt" | .unsupported => "unsupported"
  | .badIndent => "badIndent" | .subListEnd => "subListEnd" | .subListOrder => "subListOrder"
  | .subListStart => "subListStart" | .sortKind => "sortKind" | .noValue => "noValue" | .runtime => "runtime"

/-- compare a model outcome `Out (List MTok)` with the observation -/
def cmpOut (what : String) (model : Out (List MTok)) (obs : Obs) : M Unit := do
  match model, obs with
  | .panic k, .panic k' =>
    if panicName k == k' then pure ()
    else modify fun s => { s with notes := s!"{what}: model panics {panicName k}, observed panic {k'}" :: s.notes }
  | .panic k, .ok ts => fail s!"{what}: model panics {panicName k}, observed ok {ts}"
  | .ok ms, .panic k' => fail s!"{what}: model returns {ms.length} token(s), observed panic {k'}"
  | .ok ms, .ok ts => cmpToks what ms ts

def setHeap (h : Heap) : M Unit := modify fun s => { s with heap := h }

/-- run a heap-changing model function returning a reference -/
def doRef (what : String) (isObj : Bool) (r : Heap × Out Ref) (obs : Obs) : M Unit := do
  setHeap r.1
  match r.2 with
  | .ok ref => cmpOut what (.ok [.ref isObj ref]) obs
  | .panic k => cmpOut what (.panic k) obs

def splitBar (ts : List Tok) : List Tok × List Tok :=
  (ts.takeWhile (· ≠ "|"), (ts.dropWhile (· ≠ "|")).drop 1)

/-- is `text` a serialisation of (some field ordering of) the tree `v`? -/
def serMatches (v : JVal) (text : Str) : Bool :=
  match Strict.decode text with
  | .ok t _ => jeqCanon t v && ser t == text
  | _ => false

def fmtMatches (indent : Nat) (v : JVal) (text : Str) : Bool :=
  match Strict.decode text with
  | .ok t _ => jeqCanon t v && indentGo indent (ser t) false false false 0 == text
  | _ => false

def reifyOrFail (h : Heap) (v : Val) : M JVal :=
  match reifyF h v with
  | some t => pure t
  | none => fail "model: cyclic or dangling heap"

def sortToksByKey (kvs : List (Str × MTok)) : List (Str × MTok) := kvs.mergeSort (fun a b => keyLe a.1 b.1)

def multisetEq (a b : List String) : Bool :=
  a.mergeSort (· ≤ ·) == b.mergeSort (· ≤ ·)

/-- literal rendering of a value when identities are already bound (for order-insensitive comparison) -/
def valLit (s : DS) : Val → String
  | .list r => match s.a2h[r.addr]? with
    | some id => "L" ++ toString id ++ (if r.lvl > 0 then "^" ++ toString r.lvl else "")
    | none => "L?" ++ toString r.addr
  | .obj r => match s.a2h[r.addr]? with
    | some id => "O" ++ toString id ++ (if r.lvl > 0 then "^" ++ toString r.lvl else "")
    | none => "O?" ++ toString r.addr
  | v => match valTok v with | .lit t => t | _ => "?"

/-- heap-changing op whose observation is `<ref> | <invocation log>`; `ordered = false` compares the
log as a multiset (object iteration order) -/
def doRefLog (what : String) (isObj : Bool) (r : Heap × Out Ref) (log : List MTok) (ordered : Bool) (obs : Obs) : M Unit := do
  setHeap r.1
  match r.2, obs with
  | .panic k, _ => cmpOut what (.panic k) obs
  | .ok ref, .panic k => cmpOut what (.ok [.ref isObj ref]) (.panic k)
  | .ok ref, .ok ts =>
    let hd := ts.takeWhile (· ≠ "|")
    let lg := (ts.dropWhile (· ≠ "|")).drop 1
    cmpToks what [.ref isObj ref] hd
    if ordered then cmpToks (what ++ " invocations") log lg
    else
      let s ← get
      let lits := log.map (fun t => match t with | .lit x => x | .ref o r => valLit s (if o then .obj r else .list r))
      if multisetEq lits lg then pure () else fail s!"{what}: invocations differ as multisets: model {lits} observed {lg}"

/-- make the model's list cell at `addr` follow the order the implementation used, if that is a
permutation of the model's content (the association-list order stands for *one* iteration order) -/
def adoptOrder (what : String) (addr : Nat) (obs : List Tok) : M Unit := do
  let s ← get
  let items := s.heap.items addr
  let lits := items.map (valLit s)
  if !multisetEq lits obs then fail s!"{what}: content differs as a multiset: model {lits} observed {obs}"
  -- reorder: for each observed token take the first unused matching item
  let mut remaining := items.zip lits
  let mut out : List Val := []
  for o in obs do
    match remaining.find? (fun p => p.2 == o) with
    | some p =>
      out := out ++ [p.1]
      remaining := remaining.erase p
    | none => fail s!"{what}: cannot reorder"
  setHeap (s.heap.setItems addr out)

def mkPairs : List GoVal → O.Pairs
  | k :: v :: rest => ((match k with | .str s => some s | _ => none), v) :: mkPairs rest
  | _ => []

def tokPairs : List Tok → List String
  | k :: v :: rest => (k ++ " " ++ v) :: tokPairs rest
  | _ => []

/-! ### the operations -/

def execOp (name : String) (recv : Tok) (args : List Tok) (obsS : String) : M Unit := do
  let obs := parseObs obsS
  let h := (← get).heap
  match name with
  -- ---------------- list constructors
  | "newlist" => doRef name false (L.new h (← goVals args)) obs
  | "newlistof" =>
    match args.reverse with
    | n :: gr => doRef name false (L.newOf h (← goVal1 gr.reverse) (← intArg n)) obs
    | [] => fail "protocol"
  | "newlistfrom" => doRef name false (L.newFrom h (← goVal1 args)) obs
  | "newobject" =>
    let gs ← goVals args
    doRef name true (O.new h (mkPairs gs) (gs.length % 2 == 1)) obs
  | "newobjectfrom" => doRef name true (O.newFrom h (← goVal1 args)) obs
  | "parselist" | "parseobject" =>
    match args with
    | [d] =>
      let doc ← strArg d
      let isObj := name == "parseobject"
      let r := if isObj then parseObjectBytes (encode doc) else parseListBytes (encode doc)
      match r, obs with
      | .error _, .ok ["err"] => pure ()
      | .error _, _ => fail s!"{name}: model rejects the document, observed {obsS}"
      | .ok _, .ok ["err"] => fail s!"{name}: model accepts the document, the implementation rejects it"
      | .ok t, _ =>
        -- the parse result is a fresh tree on the heap
        let (h1, v) := build h t
        setHeap h1
        cmpOut name (.ok [valTok v]) obs
    | _ => fail "protocol"
  | _ =>
  let a ← addrOf recv
  match name with
  -- ---------------- list mutators
  | "add" => doRef name false (L.add h a (← goVals args)) obs
  | "insert" =>
    match args with
    | i :: g => doRef name false (L.insert h a (← intArg i) (← goVal1 g)) obs
    | _ => fail "protocol"
  | "replace" =>
    match args with
    | i :: g => doRef name false (L.replace h a (← intArg i) (← goVal1 g)) obs
    | _ => fail "protocol"
  | "delete" => doRef name false (L.delete h a (← args.mapM intArg)) obs
  | "pop" => doRef name false (L.pop h a) obs
  | "clear" => doRef name false (L.clear h a) obs
  | "reverse" => doRef name false (L.reverse h a) obs
  | "sort" =>
    -- floats: ±0 compare equal and Go's sort is not stable, so compare up to that
    let r := L.sort h a
    setHeap r.1
    match r.2 with
    | .ok ref => cmpOut name (.ok [.ref false ref]) obs
    | .panic k => cmpOut name (.panic k) obs
  -- ---------------- list observers
  | "get" =>
    match args with
    | [i] => cmpOut name (match L.get h a (← intArg i) with | .ok v => .ok [valTok v] | .panic k => .panic k) obs
    | _ => fail "protocol"
  | "getk" =>
    match args with
    | [k, i] => cmpOut name (match L.getK h a (← kindArg k) (← intArg i) with | .ok v => .ok [valTok v] | .panic p => .panic p) obs
    | _ => fail "protocol"
  | "typeof" =>
    match args with
    | [i] => cmpOut name (.ok [.lit (kindTok (L.typeOf h a (← intArg i)))]) obs
    | _ => fail "protocol"
  | "count" => cmpOut name (.ok [.lit (intTok (L.count h a))]) obs
  | "empty" => cmpOut name (.ok [.lit (boolTok (L.empty h a))]) obs
  | "string" | "ostring" =>
    let t ← reifyOrFail h (if name == "string" then .list ⟨a, 0⟩ else .obj ⟨a, 0⟩)
    match obs with
    | .ok [tx] =>
      let text ← strArg tx
      if serMatches t text then pure () else fail s!"{name}: text is not a serialisation of the model tree: model {String.ofList (ser t)} observed {String.ofList text}"
    | .ok _ => fail "protocol"
    | .panic k => fail s!"{name}: observed panic {k}"
  | "fmtstr" | "ofmtstr" =>
    let t ← reifyOrFail h (if name == "fmtstr" then .list ⟨a, 0⟩ else .obj ⟨a, 0⟩)
    match args with
    | [n] =>
      let n ← intArg n
      match formatString n t, obs with
      | none, .panic "badIndent" => pure ()
      | none, _ => fail s!"{name}: model panics badIndent"
      | some _, .panic k => fail s!"{name}: observed panic {k}"
      | some m, .ok [tx] =>
        let text ← strArg tx
        if m.isEmpty && text.isEmpty then pure ()
        else if fmtMatches n.toNat t text then pure ()
        else fail s!"{name}: model {String.ofList m} observed {String.ofList text}"
      | some _, .ok _ => fail "protocol"
    | _ => fail "protocol"
  | "slice" => cmpOut name (.ok ((L.slice h a).map valTok)) obs
  | "slicek" =>
    match args with
    | [k] => cmpOut name (.ok ((L.sliceK h a (← kindArg k)).map valTok)) obs
    | _ => fail "protocol"
  | "nativeslice" | "nativedict" =>
    let t ← reifyOrFail h (if name == "nativeslice" then .list ⟨a, 0⟩ else .obj ⟨a, 0⟩)
    cmpOut name (.ok ((jvalToks (canon t)).map .lit)) obs
  | "clone" | "oclone" =>
    let isObj := name == "oclone"
    match O.clone h (if isObj then .obj ⟨a, 0⟩ else .list ⟨a, 0⟩) with
    | none => fail "model: cyclic heap"
    | some (h1, v) =>
      setHeap h1
      cmpOut name (.ok [valTok v]) obs
  | "equals" | "oequals" =>
    match args with
    | [o] =>
      let b ← addrOf o
      let isObj := name == "oequals"
      let x ← reifyOrFail h (if isObj then .obj ⟨a, 0⟩ else .list ⟨a, 0⟩)
      let y ← reifyOrFail h (if isObj then .obj ⟨b, 0⟩ else .list ⟨b, 0⟩)
      cmpOut name (.ok [.lit (boolTok (equalsJ x y))]) obs
    | _ => fail "protocol"
  | "concat" =>
    match args with
    | [o] => doRef name false (L.concat h a (← refOf o)) obs
    | _ => fail "protocol"
  | "sublist" =>
    match args with
    | [s, e] => doRef name false (L.subList h a (← intArg s) (← intArg e)) obs
    | _ => fail "protocol"
  | "contains" | "indexof" | "ocontains" | "keyof" =>
    match goToVal (← goVal1 args) with
    | none =>
      -- a Go value whose dynamic type is none of the seven that `getVal()` returns (another integer width, float32,
      -- a native slice or map, an unsupported type): Go's `==` on interface values of different dynamic types is
      -- false, so no stored element is identical to it
      match name with
      | "contains" | "ocontains" => cmpOut name (.ok [.lit (boolTok false)]) obs
      | "indexof" => cmpOut name (.ok [.lit (intTok (-1))]) obs
      | _ => match obs with
        | .panic "noValue" => pure ()
        | _ => fail "keyof: a value of a foreign Go type is held by no field, KeyOf has to panic"
    | some v =>
      match name with
      | "contains" => cmpOut name (.ok [.lit (boolTok (L.contains h a v))]) obs
      | "indexof" => cmpOut name (.ok [.lit (intTok (L.indexOf h a v))]) obs
      | "ocontains" => cmpOut name (.ok [.lit (boolTok (O.contains h a v))]) obs
      | _ =>
        -- KeyOf: any key whose value equals v is admissible
        match O.keyOf h a v, obs with
        | .panic _, .panic "noValue" => pure ()
        | .panic _, _ => fail "keyof: model finds no such value"
        | .ok _, .panic k => fail s!"keyof: observed panic {k}"
        | .ok _, .ok [kt] =>
          let k ← strArg kt
          match O.get h a k with
          | .ok w => if L.goEq w v then pure () else fail "keyof: observed key does not hold the value"
          | .panic _ => fail "keyof: observed key is absent in the model"
        | .ok _, .ok _ => fail "protocol"
  | "allk" =>
    match args with
    | ["n"] => cmpOut name (.ok [.lit (boolTok (L.allNumeric h a))]) obs
    | [k] => cmpOut name (.ok [.lit (boolTok (L.allK h a (← kindArg k)))]) obs
    | _ => fail "protocol"
  | "foreach" | "foreachasync" =>
    let log := (L.forEach h a).flatMap (fun p => [MTok.lit (intTok p.1), valTok p.2])
    cmpOut name (.ok ([.ref false (h.egoRef a), .lit "|"] ++ log)) obs
  | "foreachvalue" =>
    cmpOut name (.ok ([.ref false (h.egoRef a), .lit "|"] ++ (L.forEachValue h a).map valTok)) obs
  | "foreachk" =>
    match args with
    | [k] => cmpOut name (.ok ([.ref false (h.egoRef a), .lit "|"] ++ (L.forEachK h a (← kindArg k)).map valTok)) obs
    | _ => fail "protocol"
  | "map" | "mapvalues" | "mapasync" =>
    match args with
    | fn :: c =>
      let cv ← if fn == "const" then goVal1 c else pure GoVal.nil
      let f : Int → Val → GoVal := fun i v => fnApply fn cv (if name == "mapvalues" then none else some (.int i)) v
      if name == "mapasync" then doRef name false (L.map h a f) obs
      else
        let log := if name == "map" then (L.forEach h a).flatMap (fun p => [MTok.lit (intTok p.1), valTok p.2])
                   else (L.forEachValue h a).map valTok
        doRefLog name false (L.map h a f) log true obs
    | _ => fail "protocol"
  | "mapk" =>
    match args with
    | k :: fn :: c =>
      let cv ← if fn == "const" then goVal1 c else pure GoVal.nil
      let kd ← kindArg k
      doRefLog name false (L.mapK h a kd (fun v => fnApply fn cv none v)) ((L.forEachK h a kd).map valTok) true obs
    | _ => fail "protocol"
  | "reduce" =>
    let r := L.reduce h a (17 : Int) (fun acc v => wrap64 (wrap64 (acc * 31) + codeOf v))
    cmpOut name (.ok ([.lit (intTok r), .lit "|"] ++ (L.forEachValue h a).map valTok)) obs
  | "reducek" =>
    match args with
    | ["s"] =>
      let r := L.reduceK h a .string ("^".toList) (fun acc v => match v with | .str s => acc ++ ['|'] ++ s | _ => acc)
      cmpOut name (.ok ([.lit (strTok r), .lit "|"] ++ (L.forEachK h a .string).map valTok)) obs
    | ["i"] =>
      let r := L.reduceK h a .int (17 : Int) (fun acc v => match v with | .int i => wrap64 (wrap64 (acc * 31) + i) | _ => acc)
      cmpOut name (.ok ([.lit (intTok r), .lit "|"] ++ (L.forEachK h a .int).map valTok)) obs
    | ["f"] =>
      let half : F64 := ⟨0x3fe0000000000000⟩
      let r := L.reduceK h a .float F64.one (fun acc v => match v with | .float f => F64.add (F64.mul acc half) f | _ => acc)
      cmpOut name (.ok ([.lit (floatTok r), .lit "|"] ++ (L.forEachK h a .float).map valTok)) obs
    | _ => fail "protocol"
  | "filter" =>
    match args with
    | [p] =>
      let r := L.filter h a (predApply p)
      doRefLog name false (r.1, .ok r.2) ((L.forEachValue h a).map valTok) true obs
    | _ => fail "protocol"
  | "filterk" =>
    match args with
    | [k, p] =>
      let kd ← kindArg k
      let r := L.filterK h a kd (predApply p)
      doRefLog name false (r.1, .ok r.2) ((L.forEachK h a kd).map valTok) true obs
    | _ => fail "protocol"
  | "agg" =>
    let l := numsOf h a
    let lit : Out (List MTok) :=
      match args with
      | ["intsum"] => .ok [.lit (intTok (Agg.intSum l))]
      | ["sum"] => .ok [.lit (floatTok (Agg.sum l))]
      | ["intprod"] => .ok [.lit (intTok (Agg.intProd l))]
      | ["prod"] => .ok [.lit (floatTok (Agg.prod l))]
      | ["avg"] => .ok [.lit (floatTok (Agg.avg l))]
      | ["intmin"] => .ok [.lit (intTok (Agg.intMin l))]
      | ["intmax"] => .ok [.lit (intTok (Agg.intMax l))]
      | ["min"] => match Agg.min l with | some f => .ok [.lit (floatTok f)] | none => .panic .runtime
      | ["max"] => match Agg.max l with | some f => .ok [.lit (floatTok f)] | none => .panic .runtime
      | _ => .panic .runtime
    cmpOut name lit obs
  -- ---------------- tree form
  | "gettf" | "ogettf" =>
    match args with
    | [p] =>
      let tf ← strArg p
      let r := if name == "gettf" then TF.getL (tf.length + 1) h a tf else TF.getO (tf.length + 1) h a tf
      cmpOut name (match r with | .ok v => .ok [valTok v] | .panic k => .panic k) obs
    | _ => fail "protocol"
  | "typeoftf" | "otypeoftf" =>
    match args with
    | [p] =>
      let tf ← strArg p
      let r := if name == "typeoftf" then TF.typeL (tf.length + 1) h a tf else TF.typeO (tf.length + 1) h a tf
      cmpOut name (.ok [.lit (kindTok r)]) obs
    | _ => fail "protocol"
  | "settf" | "osettf" =>
    match args with
    | p :: g =>
      let tf ← strArg p
      let gv ← goVal1 g
      let isObj := name == "osettf"
      let r := if isObj then TF.setO (tf.length + 1) h a tf gv else TF.setL (tf.length + 1) h a tf gv
      setHeap r.1
      cmpOut name (match r.2 with | .ok _ => .ok [.ref isObj (r.1.egoRef a)] | .panic k => .panic k) obs
    | _ => fail "protocol"
  | "unsettf" | "ounsettf" =>
    match args with
    | [p] =>
      let tf ← strArg p
      let isObj := name == "ounsettf"
      let r := if isObj then TF.unsetO (tf.length + 1) h a tf else TF.unsetL (tf.length + 1) h a tf
      setHeap r.1
      cmpOut name (match r.2 with | .ok _ => .ok [.ref isObj (r.1.egoRef a)] | .panic k => .panic k) obs
    | _ => fail "protocol"
  -- ---------------- object
  | "oset" =>
    let gs ← goVals args
    doRef name true (O.set h a (mkPairs gs) (gs.length % 2 == 1)) obs
  | "ounset" => doRef name true (O.unset h a (← args.mapM strArg)) obs
  | "oclear" => doRef name true (O.clear h a) obs
  | "oget" =>
    match args with
    | [k] => cmpOut name (match O.get h a (← strArg k) with | .ok v => .ok [valTok v] | .panic p => .panic p) obs
    | _ => fail "protocol"
  | "ogetk" =>
    match args with
    | [kd, k] => cmpOut name (match O.getK h a (← kindArg kd) (← strArg k) with | .ok v => .ok [valTok v] | .panic p => .panic p) obs
    | _ => fail "protocol"
  | "otypeof" =>
    match args with
    | [k] => cmpOut name (.ok [.lit (kindTok (O.typeOf h a (← strArg k)))]) obs
    | _ => fail "protocol"
  | "keyexists" =>
    match args with
    | [k] => cmpOut name (.ok [.lit (boolTok (O.keyExists h a (← strArg k)))]) obs
    | _ => fail "protocol"
  | "ocount" => cmpOut name (.ok [.lit (intTok (O.count h a))]) obs
  | "oempty" => cmpOut name (.ok [.lit (boolTok (O.empty h a))]) obs
  | "dict" =>
    let kvs := sortToksByKey ((O.dict h a).map (fun kv => (kv.1, valTok kv.2)))
    cmpOut name (.ok (kvs.flatMap (fun kv => [MTok.lit ("k" ++ strToHex kv.1), kv.2]))) obs
  | "keys" | "values" =>
    let r := if name == "keys" then O.keys h a else O.values h a
    setHeap r.1
    match obs with
    | .ok ts =>
      let (hd, content) := splitBar ts
      cmpToks name [.ref false r.2] hd
      -- bind any containers among the values first (they are existing ones, normally bound already)
      adoptOrder name r.2.addr content
    | .panic k => fail s!"{name}: observed panic {k}"
  | "mergenil" | "concatnil" =>
    -- a nil interface as the argument: the method call on it is a run-time panic, nothing is created or changed
    match obs with
    | .panic "runtime" => pure ()
    | .panic k => fail s!"{name}: model panics runtime, observed panic {k}"
    | .ok _ => fail s!"{name}: model panics (nil argument), observed a result"
  | "equalsnil" | "oequalsnil" => cmpOut name (.ok [.lit (boolTok false)]) obs
  | "merge" =>
    match args with
    | [o] =>
      let b ← addrOf o
      match O.merge h a b with
      | none => fail "model: cyclic heap"
      | some (h1, r) => setHeap h1; cmpOut name (.ok [.ref true r]) obs
    | _ => fail "protocol"
  | "pluck" => doRef name true (O.pluck h a (← args.mapM strArg)) obs
  | "oforeach" | "oforeachasync" =>
    match obs with
    | .ok ts =>
      let (hd, log) := splitBar ts
      cmpToks name [.ref true (h.egoRef a)] hd
      let s ← get
      let model := (O.forEach h a).map (fun kv => "k" ++ strToHex kv.1 ++ " " ++ valLit s kv.2)
      if multisetEq model (tokPairs log) then pure () else fail s!"{name}: invocations differ: model {model} observed {tokPairs log}"
    | .panic k => fail s!"{name}: observed panic {k}"
  | "oforeachvalue" | "oforeachk" =>
    match obs with
    | .ok ts =>
      let (hd, log) := splitBar ts
      cmpToks name [.ref true (h.egoRef a)] hd
      let s ← get
      let vals ← match name, args with
        | "oforeachvalue", _ => pure (O.forEachValue h a)
        | _, [k] => do pure (O.forEachK h a (← kindArg k))
        | _, _ => fail "protocol"
      let model := vals.map (valLit s)
      if multisetEq model log then pure () else fail s!"{name}: invocations differ: model {model} observed {log}"
    | .panic k => fail s!"{name}: observed panic {k}"
  | "omap" | "omapvalues" | "omapasync" =>
    match args with
    | fn :: c =>
      let cv ← if fn == "const" then goVal1 c else pure GoVal.nil
      let f : Str → Val → GoVal := fun k v => fnApply fn cv (if name == "omapvalues" then none else some (.str k)) v
      if name == "omapasync" then doRef name true (O.map h a f) obs
      else if name == "omap" then
        -- pairs "k<hex> value" compared as a multiset: join each pair into one literal
        let s ← get
        let pairs := (O.forEach h a).map (fun kv => MTok.lit ("k" ++ strToHex kv.1 ++ " " ++ valLit s kv.2))
        match obs with
        | .ok ts =>
          let hd := ts.takeWhile (· ≠ "|")
          let lg := (ts.dropWhile (· ≠ "|")).drop 1
          doRefLog name true (O.map h a f) pairs false (.ok (hd ++ ["|"] ++ tokPairs lg))
        | .panic k => doRefLog name true (O.map h a f) pairs false (.panic k)
      else doRefLog name true (O.map h a f) ((O.forEachValue h a).map valTok) false obs
    | _ => fail "protocol"
  | "omapk" =>
    match args with
    | k :: fn :: c =>
      let cv ← if fn == "const" then goVal1 c else pure GoVal.nil
      let kd ← kindArg k
      -- the object MapX variants assert on the stored item for containers, on getVal() for scalars
      let visited := (h.fields a).filterMap (fun kv => L.sel h (L.viaGetValL kd) kd kv.2)
      doRefLog name true (O.mapK h a kd (fun v => fnApply fn cv none v)) (visited.map valTok) false obs
    | _ => fail "protocol"
  -- ---------------- derived types
  | "derive" =>
    match obs with
    | .ok [t] =>
      match parseRefTok t with
      | some (_, _, lvl) =>
        setHeap (h.setEgo a lvl)
        let isObj := h.isObj a
        cmpToks name [.ref isObj ⟨a, lvl⟩] [t]
      | none => fail "protocol"
    | _ => fail "derive: unexpected observation"
  | "ego" => cmpOut name (.ok [.ref (h.isObj a) (h.egoRef a)]) obs
  | _ => fail s!"protocol: unknown op {name}"

/-- one-level snapshot comparison -/
def execSnap (handle : Tok) (content : String) : M Unit := do
  let a ← addrOf handle
  let s ← get
  let id := match parseRefTok handle with | some (_, id, _) => id | none => 0
  let toks ← if content == "=" then
      match s.last[id]? with
      | some t => pure t
      | none => fail s!"protocol: '=' without an earlier snapshot of {handle}"
    else do
      let t := splitTokens content
      modify fun s => { s with last := s.last.insert id t }
      pure t
  let h := s.heap
  match toks with
  | "[" :: rest =>
    let items := rest.dropLast
    if !h.isList a then fail s!"snapshot {handle}: model cell is not a list"
    cmpToks s!"snapshot {handle}" ((L.slice h a).map valTok) items
  | "{" :: rest =>
    let body := rest.dropLast
    if !h.isObj a then fail s!"snapshot {handle}: model cell is not an object"
    let kvs := sortToksByKey ((O.dict h a).map (fun kv => (kv.1, valTok kv.2)))
    cmpToks s!"snapshot {handle}" (kvs.flatMap (fun kv => [MTok.lit ("k" ++ strToHex kv.1), kv.2])) body
  | "!panic" :: _ => fail s!"snapshot {handle}: the implementation panicked while the container was being observed (Slice / Dict): {content}"
  | _ => fail s!"protocol: bad snapshot {content}"

end Anytype.Driver
