/-
Driver, part 3: pure-function records (`fn` lines): stdlib conformance, serialiser, parser,
format, equality; with the property monitors (messages starting with "SPEC" are property
violations judged by the specification side, the others are model/implementation differences).
-/
import Anytype.Driver.Exec
import Anytype.Spec.Equiv
import Anytype.Model.Async
namespace Anytype.Driver
open Anytype Std

def errName : PErrKind → String
  | .notUtf8 => "notUtf8" | .unexpectedEnd => "unexpectedEnd" | .invalidValue => "invalidValue"
  | .expectQuote => "expectQuote" | .expectColon => "expectColon" | .expectCommaBrace => "expectCommaBrace"
  | .missingBracket => "missingBracket" | .io => "io" | .fuel => "fuel"

inductive PObs
  | ok (v : JVal)
  | err (kind : String) (line : Option Nat)
  | other (s : String)

def parsePObs (s : String) : PObs :=
  match splitTokens s with
  | "ok" :: rest => match parseJVal rest with
    | some (v, []) => .ok v
    | _ => .other ("unparsable " ++ s)
  | ["err", k, l] => .err k l.toNat?
  | _ => .other s

def showPRes : Except PErr JVal → String
  | .ok v => "ok " ++ jvalTok v
  | .error e => s!"err {errName e.kind} {match e.line with | some l => toString l | none => "-"}"

def cmpParse (what : String) (model : Except PErr JVal) (obs : PObs) : M Unit :=
  match model, obs with
  | .ok v, .ok w => if jeqCanon v w then pure () else fail s!"{what}: model {showPRes model} observed ok {jvalTok w}"
  | .error e, .err k l => if errName e.kind == k && e.line == l then pure () else fail s!"{what}: model {showPRes model} observed err {k} {l}"
  | _, .other s => fail s!"SPEC C04 {what}: outcome is not (container, nil) or (nil, error): {s}"
  | .ok _, .err k l => fail s!"{what}: model {showPRes model} observed err {k} {l}"
  | .error _, .ok w => fail s!"{what}: model {showPRes model} observed ok {jvalTok w}"

def modelParse (root : String) (bs : List UInt8) : Except PErr JVal :=
  if root == "L" then parseListBytes bs else parseObjectBytes bs

def rootMatches (root : String) : JVal → Bool
  | .list _ => root == "L"
  | .obj _ => root != "L"
  | _ => false

def treeArg (s : String) : M JVal :=
  match parseJVal (splitTokens s) with
  | some (v, []) => pure v
  | _ => fail s!"protocol: bad tree {s}"

def bytesArg (s : String) : M (List UInt8) :=
  match hexToBytes s with
  | some b => pure b
  | none => fail "protocol: bad hex"

def showStr (s : Str) : String := String.ofList s

/-- the text `String()` returned: it must at least be valid UTF-8 (the containers hold valid UTF-8 only) -/
def textArg (t : Tok) : M Str :=
  match t.toList with
  | 's' :: d =>
    match hexToBytes (String.ofList d) with
    | some bs => match bytesToStr bs with
      | some s => pure s
      | none => fail s!"SPEC C02: String() is not valid UTF-8 (hence not JSON): bytes {String.ofList d}"
    | none => fail s!"protocol: bad hex {t}"
  | _ => fail s!"protocol: bad string {t}"

/-- C02 monitor + model comparison for a serialised text -/
def checkSer (tree : JVal) (text : Str) : M Unit := do
  match Strict.decode text with
  | .ok t _ =>
    if !jeqCanon t tree then fail s!"SPEC C02: an RFC 8259 decoder reads other data: {jvalTok (canon t)} instead of {jvalTok (canon tree)}"
    if ser t != text then fail s!"ser: model prints {showStr (ser t)} observed {showStr text}"
  | _ => fail s!"SPEC C02: String() is not valid RFC 8259 JSON: {showStr text}"

/-- parse the observed events `s<i>` (callStart), `e<i>` (callEnd), `r` (ret) -/
def parseEvents (ev : List String) : Option (List Async.Event) :=
  ev.mapM fun e =>
    if e == "r" then some .ret
    else match e.toList with
      | 's' :: d => (String.ofList d).toNat?.map .callStart
      | 'e' :: d => (String.ofList d).toNat?.map .callEnd
      | _ => none

/-- the observed trace must be one the goroutine LTS can produce (`C15_trace_sound`) -/
def traceOk (isMap : Bool) (n : Nat) (ev : List String) : Bool :=
  match parseEvents ev with
  | some tr => Async.validTrace isMap n tr
  | none => false

def execFn (name : String) (fields : List String) : M Unit := do
  match name, fields with
  -- ---------------- stdlib conformance
  | "pint", [hx, obs] =>
    let bs ← bytesArg hx
    let m := match bytesToStr bs with | some s => (parseIntBase0 s).map intTok | none => none
    let ms := match m with | some t => "ok " ++ t | none => "err"
    if ms != obs then fail s!"strconv.ParseInt: model {ms} observed {obs}"
  | "pfloat", [hx, obs] =>
    let bs ← bytesArg hx
    let m := match bytesToStr bs with | some s => (F64.parseFloat s).map floatTok | none => none
    let ms := match m with | some t => "ok " ++ t | none => "err"
    if ms != obs then fail s!"strconv.ParseFloat: model {ms} observed {obs}"
  | "pbool", [hx, obs] =>
    let bs ← bytesArg hx
    let m := match bytesToStr bs with | some s => (parseBool s).map boolTok | none => none
    let ms := match m with | some t => "ok " ++ t | none => "err"
    if ms != obs then fail s!"strconv.ParseBool: model {ms} observed {obs}"
  | "ffloat", [d, e, f] =>
    match (d.drop 1).toString |> hexToNat with
    | some n =>
      let x : F64 := ⟨UInt64.ofNat n⟩
      let me := strTok (F64.fmtE x)
      let mf := strTok (F64.fmtF x)
      if me != e then fail s!"strconv.FormatFloat 'e': model {showStr (F64.fmtE x)} observed {e}"
      if mf != f then fail s!"strconv.FormatFloat 'f': model {showStr (F64.fmtF x)} observed {f}"
      -- the hypotheses of FmtContract, tested on every float that passes by
      if x.isFinite then
        if F64.parseFloat (serF x) != some x then fail s!"FmtContract.parse_back fails for {d}"
        if (parseIntBase0 (serF x)).isSome then fail s!"FmtContract.not_int fails for {d}"
        match Strict.number (serF x) with
        | some (some (.float y), []) => if y.bits != x.bits then fail s!"FmtContract.strict fails for {d}"
        | _ => fail s!"FmtContract.strict fails for {d}"
    | none => fail "protocol"
  | "itoa", [i, obs] =>
    let v ← intArg i
    if strTok (itoa v) != obs then fail s!"strconv.Itoa: model {showStr (itoa v)} observed {obs}"
  | "isspace", [cp, obs] =>
    match cp.toNat? with
    | some n => if boolTok (isSpace (Char.ofNat n)) != obs then fail s!"unicode.IsSpace({n}): model {isSpace (Char.ofNat n)} observed {obs}"
    | none => fail "protocol"
  | "utf8", [hx, obs] =>
    let bs ← bytesArg hx
    let m := " ".intercalate ((decodeAll bs).map (fun it => match it with | some c => toString c.toNat | none => "x"))
    -- only the prefix up to and including the first ill-formed item matters to the parser
    let cut (s : String) : List String :=
      let ts := splitTokens s
      ts.takeWhile (· ≠ "x") ++ (if ts.contains "x" then ["x"] else [])
    if cut m != cut obs then fail s!"utf8.DecodeRune: model {m} observed {obs}"
  | "f32", [g, obs] =>
    match (g.drop 1).toString |> hexToNat with
    | some n => if floatTok (f32to64 (UInt32.ofNat n)) != obs then fail s!"float64(float32): model {floatTok (f32to64 (UInt32.ofNat n))} observed {obs}"
    | none => fail "protocol"
  -- ---------------- serialiser
  | "ser", [tree, text] =>
    let t ← treeArg tree
    checkSer t (← textArg text)
  -- ---------------- round trip
  | "rt", [root, tree, text, pres, eq, pres2] =>
    let t ← treeArg tree
    let obs := parsePObs pres
    -- the two property monitors are independent: C02 judges the text, C01 what the library's own parser makes of
    -- it; both are evaluated and both verdicts are reported (a record may violate both)
    let c01 : Option String :=
      match obs with
      | .ok w =>
        if !jeqCanon w t then some s!"SPEC C01: round trip changed the data: {jvalTok (canon w)} instead of {jvalTok (canon t)}"
        else if eq != "t" then some "SPEC C01: the re-parsed container does not Equal the original"
        else match parsePObs pres2 with
          | .ok w2 => if !jeqCanon w2 t then some "SPEC C01: second round trip changed the data" else none
          | _ => some s!"SPEC C01: second round trip failed: {pres2}"
      | .err k l => some s!"SPEC C01: ParseX(x.String()) failed: {k} {l}"
      | .other s => some s!"SPEC C01: {s}"
    let c02 : Except String Str := (do let tx ← textArg text; checkSer t tx; pure tx : M Str).run' (← get)
    match c02, c01 with
    | .error e2, some e1 => fail s!"{e2} ;; {e1}"
    | .error e2, none => fail e2
    | .ok _, some e1 => fail e1
    | .ok tx, none => cmpParse "parse(String())" (modelParse root (encode tx)) obs
  -- ---------------- parser
  | "parse", [root, hx, pres, expect] =>
    let bs ← bytesArg hx
    let obs := parsePObs pres
    let model := modelParse root bs
    -- monitors first: they judge the implementation against the specification
    match obs with
    | .other s => fail s!"SPEC C04: outcome is not exclusive / not deterministic / a panic: {s}"
    | _ => pure ()
    if expect == "err" then
      match obs with
      | .ok w => fail s!"SPEC C04: a truncated or ill-encoded document was accepted as {jvalTok w}"
      | _ => pure ()
    if expect.startsWith "line:" then
      match (expect.drop 5).toString.toNat?, obs with
      | some n, .err _ (some l) => if l != n then fail s!"SPEC C20: error cites line {l}, the error is on line {n}"
      | some _, .err _ none => pure ()
      | some _, .ok w => fail s!"SPEC C20: document with an injected syntax error was accepted as {jvalTok w}"
      | _, _ => pure ()
    -- C03: every RFC 8259 document with the right root is read as the reference decoder reads it
    match bytesToStr bs with
    | some s =>
      match Strict.decode s with
      | .ok t _ =>
        if rootMatches root t then
          match obs with
          | .ok w => if !jeqCanon w t then fail s!"SPEC C03: valid JSON read as {jvalTok (canon w)}, reference decoder reads {jvalTok (canon t)}"
          | .err k l => fail s!"SPEC C03: valid JSON rejected: {k} {l}"
          | _ => pure ()
      | .dom => pure ()   -- valid JSON outside the properties' domain (number beyond float64 range, lone surrogate escape)
      | .bad => if expect == "valid" then fail "protocol: generator claims validity but the strict decoder rejects" else pure ()
    | none => pure ()
    cmpParse "parse" model obs
  | "file", [kind, hx, pres] =>
    let bs ← bytesArg hx
    let obs := parsePObs pres
    let fs : String → Option (List UInt8) := fun _ => if kind == "bytes" then some bs else none
    match obs with
    | .other s => fail s!"SPEC C04: ParseFile: {s}"
    | _ => cmpParse "parsefile" (parseFile fs "p") obs
  -- ---------------- FormatString
  | "fmt", [tree, n, obs] =>
    let t ← treeArg tree
    let n ← intArg n
    match parseObs obs with
    | .panic k =>
      if 0 ≤ n ∧ n ≤ 10 then fail s!"SPEC C16: FormatString({n}) panicked: {k}"
      else if k != "badIndent" then fail s!"fmt: unexpected panic {k}"
    | .ok [tx] =>
      let text ← strArg tx
      if n < 0 ∨ n > 10 then fail s!"SPEC C16: FormatString({n}) did not panic"
      if text.isEmpty then fail "SPEC C16: FormatString returned an empty text"
      match Strict.decode text with
      | .ok d _ =>
        if !jeqCanon d t then fail "SPEC C16: FormatString denotes other data than the container"
        if pretty n.toNat 0 d != text then fail s!"SPEC C16: not the canonical layout: {showStr text} expected {showStr (pretty n.toNat 0 d)}"
        if !fmtMatches n.toNat t text then fail s!"fmt: model differs from observed {showStr text}"
      | _ => fail s!"SPEC C16: FormatString is not valid JSON: {showStr text}"
    | .ok _ => fail "protocol"
  -- ---------------- Equals
  | "equals", [ta, tb, ab, ba] =>
    let a ← treeArg ta
    let b ← treeArg tb
    let spec := specEq a b
    if boolTok spec != ab then fail s!"SPEC C07: a.Equals(b) = {ab}, typed structural equality says {spec}"
    if boolTok (specEq b a) != ba then fail s!"SPEC C07: b.Equals(a) = {ba}, typed structural equality says {specEq b a}"
    if boolTok (equalsJ a b) != ab then fail s!"equals: model {equalsJ a b} observed {ab}"
    if boolTok (equalsJ b a) != ba then fail s!"equals: model {equalsJ b a} observed {ba}"
  | "asynctrace", [isMap, n, events] =>
    match n.toNat? with
    | some k => if traceOk (isMap == "t") k (splitTokens events) then pure () else fail s!"SPEC C15: observed event trace is not an execution of the goroutine model: {events}"
    | none => fail "protocol"
  | "alarm", [prop, msg] => fail s!"SPEC {prop}: {msg}"
  | _, _ => fail s!"protocol: unknown fn {name} with {fields.length} fields"

end Anytype.Driver
