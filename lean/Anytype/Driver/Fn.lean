/-
Driver, part 3: pure-function records (`fn` lines): stdlib conformance, serialiser, parser,
format, equality; with the property monitors.
-/
import Anytype.Driver.Exec
namespace Anytype.Driver
open Anytype Std

def execFn (name : String) (fields : List String) : M Unit := do
  match name with
  | _ => fail s!"protocol: unknown fn {name} {fields.length}"

end Anytype.Driver
