/-
Driver: reads the harness trace on stdin, re-executes each record on the model, prints one
`DIFF` line per diverging case and a final `DONE` summary.
-/
import Anytype.Driver.Exec
import Anytype.Driver.Fn
import Anytype.Driver.Sl
namespace Anytype.Driver
open Anytype Std

structure Totals where
  lines : Nat := 0
  cases : Nat := 0
  ops : Nat := 0
  snaps : Nat := 0
  fns : Nat := 0
  diffs : Nat := 0
  specFails : Nat := 0
  skipped : Nat := 0

def handleLine (line : String) : M Unit := do
  match line.splitOn "\t" with
  | ["op", name, recv, args, obs] => execOp name recv (splitTokens args) obs
  | ["snap", handle, content] => execSnap handle content
  | "fn" :: name :: rest => execFn name rest
  | ["sl", op, outcome, snap] => execSl op outcome snap
  | _ => fail s!"protocol: unrecognised record"

partial def loop (stdin : IO.FS.Stream) (st : DS) (tot : Totals) (skipping : Bool) (caseHdr : String) : IO Totals := do
  let line ← stdin.getLine
  if line.isEmpty then return tot
  let line := (line.dropEndWhile (fun c => c == '\n' || c == '\r')).toString
  let tot := { tot with lines := tot.lines + 1 }
  if line.startsWith "case\t" then
    loop stdin {} { tot with cases := tot.cases + 1 } false line
  else if skipping then
    loop stdin st { tot with skipped := tot.skipped + 1 } true caseHdr
  else
    let tot := if line.startsWith "op\t" then { tot with ops := tot.ops + 1 }
               else if line.startsWith "snap\t" then { tot with snaps := tot.snaps + 1 }
               else { tot with fns := tot.fns + 1 }
    match (handleLine line).run st with
    | .ok (_, st') =>
      -- both sides panicked with different kinds: a (soft) difference; the heaps are still comparable, so the
      -- snapshots that follow are judged (a panic that left the receiver modified shows there)
      for msg in st'.notes.reverse do
        IO.println s!"DIFF\t{tot.lines}\t{caseHdr.replace "\t" " "}\t{msg}\t{line.replace "\t" " ; "}"
      let tot := { tot with diffs := tot.diffs + st'.notes.length }
      loop stdin { st' with notes := [] } tot false caseHdr
    | .error msg =>
      let isSpec := msg.startsWith "SPEC"
      let isFn := line.startsWith "fn\t"
      IO.println s!"{if isSpec then "SPECFAIL" else "DIFF"}\t{tot.lines}\t{caseHdr.replace "\t" " "}\t{msg}\t{line.replace "\t" " ; "}"
      let tot := if isSpec then { tot with specFails := tot.specFails + 1 } else { tot with diffs := tot.diffs + 1 }
      -- a heap case cannot be resynchronised after a divergence; pure `fn` records are independent
      loop stdin st tot (!isFn) caseHdr

def main : IO Unit := do
  let stdin ← IO.getStdin
  let tot ← loop stdin {} {} false "case 0 none"
  IO.println s!"DONE\tlines={tot.lines}\tcases={tot.cases}\tops={tot.ops}\tsnaps={tot.snaps}\tfns={tot.fns}\tdiffs={tot.diffs}\tspecfails={tot.specFails}\tskipped={tot.skipped}"

end Anytype.Driver

def main : IO Unit := Anytype.Driver.main
